//! Differential test for the C01 control refactoring (snippet cropping, `with_snippet`,
//! radix prefixes, document skipping).
//!
//! Every case renders a result (value, or error text + location + stored snippet regions)
//! into one string; the strings are compared with literals recorded on the unmodified tree.
//!
//! Run as an integration test: copy to `tests/demo.rs`, then
//! `cargo nextest run --offline --test demo` (optionally with
//! `--features garde,validator,miette,robotics,figment`).
//! `DEMO_PRINT=1 cargo test --offline --test demo -- --nocapture` prints the table instead
//! of checking it.

use serde::Deserialize;
use serde::de::DeserializeOwned;
use serde_saphyr::{Error, Options};
use std::collections::BTreeMap;
use std::fmt::Debug;

// ---------------------------------------------------------------------------------------
// Rendering helpers
// ---------------------------------------------------------------------------------------

fn fnv(s: &str) -> u64 {
    let mut h: u64 = 0xcbf29ce484222325;
    for b in s.as_bytes() {
        h ^= u64::from(*b);
        h = h.wrapping_mul(0x100000001b3);
    }
    h
}

/// Keep short texts verbatim; summarize long ones (length, hash, both ends).
fn digest(s: &str) -> String {
    if s.len() <= 1500 {
        return s.to_owned();
    }
    let head: String = s.chars().take(120).collect();
    let tail_rev: String = s.chars().rev().take(120).collect();
    let tail: String = tail_rev.chars().rev().collect();
    format!(
        "<len={} chars={} fnv={:016x}>\n{head}\n<...>\n{tail}",
        s.len(),
        s.chars().count(),
        fnv(s)
    )
}

fn describe_error(err: &Error) -> String {
    let mut out = String::new();
    out.push_str("ERR ");
    out.push_str(&format!("location={:?}\n", err.location()));
    out.push_str(&format!(
        "plain={}\n",
        digest(&err.without_snippet().to_string())
    ));
    if let Error::WithSnippet {
        regions,
        crop_radius,
        ..
    } = err
    {
        out.push_str(&format!(
            "snippet crop_radius={crop_radius} regions={}\n",
            regions.len()
        ));
        for r in regions {
            out.push_str(&format!(
                "region {}..={} <<{}>>\n",
                r.start_line,
                r.end_line,
                digest(&r.text)
            ));
        }
    } else {
        out.push_str("no snippet wrapper\n");
    }
    out.push_str("rendered=\n");
    out.push_str(&digest(&err.to_string()));
    out
}

fn describe<T: Debug>(res: Result<T, Error>) -> String {
    match res {
        Ok(v) => digest(&format!("OK {v:?}")),
        Err(e) => describe_error(&e),
    }
}

fn opts(crop_radius: usize) -> Options {
    Options {
        crop_radius,
        ..Options::default()
    }
}

fn str_case<T: DeserializeOwned + Debug>(input: &str, options: Options) -> String {
    describe(serde_saphyr::from_str_with_options::<T>(input, options))
}

fn reader_case<T: DeserializeOwned + Debug>(input: &[u8], options: Options) -> String {
    describe(serde_saphyr::from_reader_with_options::<_, T>(
        std::io::Cursor::new(input.to_vec()),
        options,
    ))
}

fn stream_case<T: DeserializeOwned + Debug>(input: &[u8], options: Options) -> String {
    let mut reader = std::io::Cursor::new(input.to_vec());
    let mut out = String::new();
    for (i, item) in serde_saphyr::read_with_options::<_, T>(&mut reader, options)
        .take(20)
        .enumerate()
    {
        out.push_str(&format!("--- item {i}\n{}\n", describe(item)));
    }
    out.push_str("--- end");
    out
}

// ---------------------------------------------------------------------------------------
// Target types
// ---------------------------------------------------------------------------------------

#[derive(Debug, Deserialize)]
#[allow(dead_code)]
struct Abc {
    a: u32,
    b: u32,
    c: u32,
}

#[derive(Debug, Deserialize)]
#[allow(dead_code)]
struct Pair {
    a: String,
    b: u32,
}

#[derive(Debug, Deserialize)]
#[allow(dead_code)]
struct Doc {
    id: u32,
    #[serde(default)]
    tags: Vec<String>,
}

#[derive(Debug, Deserialize)]
#[allow(dead_code)]
struct Big {
    before: u8,
    items: Vec<u8>,
    after: u8,
}

type Map = BTreeMap<String, u32>;

// ---------------------------------------------------------------------------------------
// Inputs
// ---------------------------------------------------------------------------------------

fn numbered_lines(n: usize, bad: usize) -> String {
    let mut s = String::new();
    for i in 1..=n {
        if i == bad {
            s.push_str(&format!("k{i}: oops\n"));
        } else {
            s.push_str(&format!("k{i}: {i}\n"));
        }
    }
    s
}

fn huge_flow_seq(bad_at_end: bool) -> String {
    // One physical line far above the 4 KiB storage-crop threshold.
    let mut s = String::from("before: 1\nitems: [");
    for i in 0..1500 {
        s.push_str(&format!("{}, ", i % 10));
    }
    s.push_str(if bad_at_end { "x" } else { "7" });
    s.push_str("]\nafter: 2\n");
    s
}

fn integer_table() -> String {
    let literals = [
        "0x1F", "0X1f", "0o17", "0O17", "0b101", "0B101", "00", "007", "0_7", "00_7", "008",
        "-0x80", "+0x10", "0x", "0o", "0b", "-00", "-007", "+007", "0x-1", "00x1", "000", "0b2",
        "0o8", "0xG", "0x_1", "00é", "0", "-0", "+", "-", "0x7FFFFFFF", "0x80000000",
        "-0x80000001", "0o777", "0b11111111", "0b100000000", "00377", "00400", " 0x10 ",
        "0xffffffffffffffffffffffffffffffff", "-0x80000000000000000000000000000000",
        "0x100000000000000000000000000000000", "00_", "0O", "0B_", "١٢",
    ];
    let mut out = String::new();
    for lit in literals {
        for legacy in [false, true] {
            let o = || Options {
                legacy_octal_numbers: legacy,
                with_snippet: false,
                ..Options::default()
            };
            let short = |r: String| r.replace('\n', " | ");
            let i32_r = serde_saphyr::from_str_with_options::<i32>(lit, o());
            let u8_r = serde_saphyr::from_str_with_options::<u8>(lit, o());
            let i128_r = serde_saphyr::from_str_with_options::<i128>(lit, o());
            let u128_r = serde_saphyr::from_str_with_options::<u128>(lit, o());
            let show = |name: &str, r: String| format!(" {name}={}", short(r));
            out.push_str(&format!("{lit:?} legacy={legacy}:"));
            out.push_str(&show(
                "i32",
                i32_r.map_or_else(|e| format!("E({e})"), |v| v.to_string()),
            ));
            out.push_str(&show(
                "u8",
                u8_r.map_or_else(|e| format!("E({e})"), |v| v.to_string()),
            ));
            out.push_str(&show(
                "i128",
                i128_r.map_or_else(|e| format!("E({e})"), |v| v.to_string()),
            ));
            out.push_str(&show(
                "u128",
                u128_r.map_or_else(|e| format!("E({e})"), |v| v.to_string()),
            ));
            out.push('\n');
        }
    }
    out
}

// ---------------------------------------------------------------------------------------
// Cases
// ---------------------------------------------------------------------------------------

fn cases() -> Vec<(&'static str, String)> {
    let mut v: Vec<(&'static str, String)> = Vec::new();
    let d = Options::default;

    // --- string entry points: `with_snippet` + identity line mapping -------------------
    v.push(("unknown_anchor_line1", str_case::<String>("*missing\n", d())));
    v.push((
        "type_error_middle_of_seven_lines",
        str_case::<Map>(&numbered_lines(7, 4), d()),
    ));
    v.push((
        "type_error_first_line",
        str_case::<Map>(&numbered_lines(7, 1), d()),
    ));
    v.push((
        "type_error_last_line",
        str_case::<Map>(&numbered_lines(7, 7), d()),
    ));
    v.push((
        "type_error_line_100_of_200",
        str_case::<Map>(&numbered_lines(200, 100), d()),
    ));
    v.push((
        "syntax_error_single_line_no_newline",
        str_case::<Map>("x: [1, 2", d()),
    ));
    v.push((
        "syntax_error_at_eof_trailing_newline",
        str_case::<BTreeMap<String, Vec<u32>>>("a: [1,\n", d()),
    ));
    v.push((
        "eof_error_on_trailing_empty_line",
        str_case::<BTreeMap<String, Vec<u32>>>("a:\n  - 1\n  - [2\n", d()),
    ));
    v.push((
        "crlf_input",
        str_case::<Abc>("a: 1\r\nb: x\r\nc: 3\r\n", d()),
    ));
    v.push((
        "crlf_input_radius_2",
        str_case::<Abc>("a: 1\r\nb: xyzxyzxyzxyz\r\nc: 3\r\n", opts(2)),
    ));
    v.push(("cr_only_breaks", str_case::<Abc>("a: 1\rb: x\rc: 3\r", d())));
    v.push((
        "control_chars_in_window",
        str_case::<Pair>(
            "# \u{1b}[31mred\u{1b}[0m \u{9b}2J \u{7f}\u{0}\na: \"\u{85}x\"\nb: no\u{7}pe\n",
            d(),
        ),
    ));
    v.push((
        "bom_prefixed",
        str_case::<Abc>("\u{feff}a: 1\nb: x\nc: 3\n", d()),
    ));
    v.push((
        "double_bom",
        str_case::<Abc>("\u{feff}\u{feff}a: 1\nb: x\nc: 3\n", d()),
    ));
    v.push(("only_bom", str_case::<u32>("\u{feff}", d())));
    v.push(("empty_input", str_case::<u32>("", d())));
    v.push(("only_newlines", str_case::<u32>("\n\n\n", d())));
    v.push((
        "multibyte_error_line",
        str_case::<Pair>("a: ααααα\nb: ßßßßßßßßßßßßßßßßßßßßß\n", opts(3)),
    ));
    v.push((
        "multibyte_error_line_radius_1",
        str_case::<Pair>("a: 日本語\nb: 日本語日本語日本語\n# 日本語日本語\n", opts(1)),
    ));
    v.push((
        "tabs_and_wide_context",
        str_case::<Pair>(
            &format!(
                "# {}\na: ok\nb: \"{}\"\n# {}\n",
                "c".repeat(300),
                "v".repeat(200),
                "d".repeat(10)
            ),
            d(),
        ),
    ));

    // Storage-time cropping: lines above 4 KiB / windows above 16 KiB.
    let huge_scalar = format!("a: 1\nb: [{}\nc: 3\n", "z".repeat(6000));
    v.push(("huge_error_line_ascii", str_case::<Abc>(&huge_scalar, d())));
    v.push((
        "huge_line_error_far_right",
        str_case::<Big>(&huge_flow_seq(true), d())
            + "\n#####\n"
            + &str_case::<BTreeMap<String, Vec<u8>>>(
                &huge_flow_seq(true).replace("before: 1\n", "").replace("after: 2\n", ""),
                d(),
            ),
    ));
    v.push((
        "huge_last_line_without_newline",
        str_case::<Abc>(&format!("a: 1\nb: [{}", "z".repeat(6000)), d()),
    ));
    v.push((
        "huge_last_line_without_newline_far_right",
        str_case::<BTreeMap<String, Vec<u8>>>(
            huge_flow_seq(true)
                .replace("before: 1\n", "")
                .replace("after: 2\n", "")
                .trim_end(),
            opts(7),
        ),
    ));
    v.push((
        "huge_crlf_lines_and_trailing_cr",
        str_case::<Abc>(
            &format!("a: 1\r\nb: [{}\r\nc: {}\r", "z".repeat(6000), "3".repeat(5000)),
            opts(9),
        ),
    ));
    v.push((
        "huge_line_no_error",
        str_case::<Big>(&huge_flow_seq(false), d()),
    ));
    let huge_everything = format!(
        "# {}\r\n{}# {}\nz: 1\n",
        "c".repeat(6000),
        huge_flow_seq(true).replace("before: 1\n", "").replace("after: 2\n", ""),
        "é".repeat(3000)
    );
    v.push((
        "huge_error_line_between_huge_context_lines",
        str_case::<BTreeMap<String, Vec<u8>>>(&huge_everything, d()),
    ));
    v.push((
        "huge_error_line_between_huge_context_lines_radius_3",
        str_case::<BTreeMap<String, Vec<u8>>>(&huge_everything, opts(3)),
    ));
    v.push((
        "huge_line_error_far_right_radius_1",
        str_case::<BTreeMap<String, Vec<u8>>>(
            &huge_flow_seq(true).replace("before: 1\n", "").replace("after: 2\n", ""),
            opts(1),
        ),
    ));
    let huge_context = format!(
        "# {}\r\nk1: 1\nk2: nope\n# {}\nk3: {}\n",
        "é".repeat(5000),
        "\u{1b}[1m".repeat(1200),
        "9".repeat(5000)
    );
    v.push((
        "huge_multibyte_context_lines",
        str_case::<Map>(&huge_context, d()),
    ));
    v.push((
        "huge_multibyte_context_lines_radius_5",
        str_case::<Map>(&huge_context, opts(5)),
    ));
    v.push((
        "huge_context_radius_max",
        str_case::<Map>(&huge_context, opts(usize::MAX)),
    ));
    let huge_multibyte_error_line = format!(
        "k0: [a]\nk2: [{}[x]]\nk3: [b]\n",
        "\"é\", ".repeat(1200)
    );
    v.push((
        "huge_multibyte_error_line",
        str_case::<BTreeMap<String, Vec<String>>>(&huge_multibyte_error_line, opts(10)),
    ));
    v.push((
        "huge_multibyte_error_line_wrong_type_on_first_line",
        str_case::<BTreeMap<String, u8>>(&huge_multibyte_error_line, opts(10)),
    ));
    let wide_window = {
        let mut s = String::new();
        for i in 0..5 {
            if i == 2 {
                s.push_str("k2: [x]\n");
            } else {
                s.push_str(&format!("k{i}: \"{}\"\n", "w".repeat(3900)));
            }
        }
        s.push_str(&format!("k5: \"{}\"", "w".repeat(3900)));
        s
    };
    v.push((
        "window_above_16k_without_long_line",
        str_case::<BTreeMap<String, String>>(&wide_window, opts(8)),
    ));
    v.push((
        "window_below_16k_without_long_line",
        str_case::<Map>(&wide_window, opts(8)),
    ));
    v.push((
        "crop_radius_zero_returns_unwrapped",
        str_case::<Abc>("a: 1\nb: x\nc: 3\n", opts(0)),
    ));
    v.push((
        "with_snippet_false",
        str_case::<Abc>(
            "a: 1\nb: x\nc: 3\n",
            Options {
                with_snippet: false,
                ..Options::default()
            },
        ),
    ));

    // Dual-location errors (anchor definition vs. alias use).
    let alias_far = format!("a: &x nope\n{}b: *x\n", "# filler\n".repeat(12));
    v.push((
        "alias_error_two_regions",
        str_case::<BTreeMap<String, u32>>(&alias_far, d()),
    ));
    v.push((
        "alias_error_same_window",
        str_case::<BTreeMap<String, u32>>("a: &x nope\nb: *x\n", d()),
    ));
    v.push((
        "duplicate_key",
        str_case::<Map>("a: 1\nb: 2\nc: 3\nd: 4\na: 5\n", d()),
    ));
    v.push((
        "unknown_and_missing_fields",
        str_case::<Abc>("a: 1\nb: 2\n", d())
            + "\n#####\n"
            + &str_case::<Doc>("id: [1]\ntags: {}\n", d()),
    ));
    v.push((
        "depth_budget",
        str_case::<serde_json::Value>(&"[".repeat(3000), d()),
    ));
    v.push((
        "alias_replay_limit",
        str_case::<serde_json::Value>(
            "a: &a [x, x, x, x]\nb: &b [*a, *a, *a, *a]\nc: &c [*b, *b, *b, *b]\nd: [*c, *c, *c]\n",
            Options {
                alias_limits: serde_saphyr::options::AliasLimits {
                    max_total_replayed_events: 50,
                    ..Default::default()
                },
                ..Options::default()
            },
        ),
    ));
    v.push((
        "invalid_utf8_slice",
        describe(serde_saphyr::from_slice::<Abc>(b"a: 1\nb: \xff\xfe\nc: 3\n")),
    ));
    v.push((
        "from_multiple_error_in_second_doc",
        describe(serde_saphyr::from_multiple::<Doc>(
            "id: 1\n---\nid: x\n---\nid: 3\n",
        )),
    ));

    // --- reader entry point: `with_snippet_offset` + offset line mapping ----------------
    v.push((
        "reader_short_type_error",
        reader_case::<Abc>(b"a: 1\nb: x\nc: 3\n", d()),
    ));
    v.push((
        "reader_long_input_error_near_end",
        reader_case::<Map>(numbered_lines(3000, 2990).as_bytes(), d()),
    ));
    v.push((
        "reader_long_input_error_last_line_no_newline",
        reader_case::<Map>(numbered_lines(3000, 3000).trim_end().as_bytes(), d()),
    ));
    v.push((
        "reader_huge_line_error_left_the_ring",
        reader_case::<BTreeMap<String, Vec<u8>>>(huge_flow_seq(true).as_bytes(), d()),
    ));
    v.push((
        "reader_huge_line",
        reader_case::<Big>(huge_flow_seq(true).as_bytes(), d()),
    ));
    v.push((
        "reader_huge_line_radius_2",
        reader_case::<Big>(huge_flow_seq(true).as_bytes(), opts(2)),
    ));
    let reader_alias_far = format!("a: &x nope\n{}b: *x\n", numbered_lines(3000, 0));
    v.push((
        "reader_alias_definition_outside_ring",
        reader_case::<BTreeMap<String, u32>>(reader_alias_far.as_bytes(), d()),
    ));
    v.push((
        "reader_alias_same_window",
        reader_case::<BTreeMap<String, u32>>(b"a: &x nope\nb: *x\n", d()),
    ));
    v.push(("reader_empty_into_bool", reader_case::<bool>(b"", d())));
    v.push((
        "reader_crop_radius_zero",
        reader_case::<Abc>(b"a: 1\nb: x\nc: 3\n", opts(0)),
    ));
    v.push((
        "reader_crlf_and_controls",
        reader_case::<Abc>(b"a: 1\r\n# \x1b[2J\r\nb: x\r\nc: 3\r\n", opts(4)),
    ));
    v.push((
        "reader_invalid_utf8",
        reader_case::<Abc>(b"a: 1\nb: \xff\xfe\nc: 3\n", d()),
    ));
    v.push((
        "reader_bom",
        reader_case::<Abc>("\u{feff}a: 1\nb: x\nc: 3\n".as_bytes(), d()),
    ));
    v.push((
        "reader_trailing_garbage",
        reader_case::<Abc>(b"a: 1\nb: 2\nc: 3\n---\nmore: 1\n", d()),
    ));
    v.push((
        "reader_syntax_error_eof",
        reader_case::<BTreeMap<String, Vec<u32>>>(b"a: [1,\n", d()),
    ));

    // --- streaming reader: error recovery through `skip_to_next_document` --------------
    v.push((
        "stream_error_in_second_of_three",
        stream_case::<Doc>(
            b"id: 1\n---\nid: x\ntags: [a, b]\n---\nid: 3\n",
            d(),
        ),
    ));
    v.push((
        "stream_error_then_syntax_error",
        stream_case::<Doc>(b"id: x\ntags: [a, b\n---\nid: 3\n", d()),
    ));
    v.push((
        "stream_error_then_document_end_marker",
        stream_case::<Doc>(
            b"id: [1, 2]\ntags: [q]\n...\n---\nid: 2\n...\n---\nid: {}\n",
            d(),
        ),
    ));
    v.push((
        "stream_error_in_last_document",
        stream_case::<Doc>(b"id: 1\n---\nid: nope\ntags: [a]\n", d()),
    ));
    v.push((
        "stream_error_nested_with_anchors",
        stream_case::<Doc>(
            b"id: &i 7\ntags: &t [a, [b]]\nextra: *t\n---\nid: 8\ntags: [c]\n--- \nid: *i\n",
            d(),
        ),
    ));
    v.push((
        "stream_empty_documents_between",
        stream_case::<Doc>(b"---\n---\nid: z\n---\n---\nid: 4\n", d()),
    ));
    v.push((
        "stream_depth_budget_then_next_document",
        stream_case::<serde_json::Value>(
            format!("{}\n---\nok: 1\n", "[".repeat(3000)).as_bytes(),
            d(),
        ),
    ));
    v.push((
        "stream_invalid_utf8_mid_stream",
        stream_case::<Doc>(b"id: x\n---\nid: \xff\n---\nid: 3\n", d()),
    ));

    // --- radix prefixes ------------------------------------------------------------------
    v.push(("integer_table", integer_table()));

    v
}

#[cfg(feature = "garde")]
mod garde_cases {
    use super::*;
    use garde::Validate;

    #[derive(Debug, Deserialize, Validate)]
    #[allow(dead_code)]
    struct Checked {
        #[garde(length(min = 3))]
        name: String,
        #[garde(skip)]
        filler: Vec<u32>,
        #[garde(length(min = 3))]
        alias: String,
        #[garde(range(min = 10))]
        port: u32,
    }

    pub(super) fn cases() -> Vec<(&'static str, String)> {
        let yaml = format!(
            "name: &n ab\nfiller:\n{}alias: *n\nport: 5\n",
            "  - 1\n".repeat(10)
        );
        vec![
            (
                "garde_str",
                describe(serde_saphyr::from_str_valid::<Checked>(&yaml)),
            ),
            (
                "garde_str_radius_2",
                describe(serde_saphyr::from_str_with_options_valid::<Checked>(
                    &yaml,
                    opts(2),
                )),
            ),
            (
                "garde_reader",
                describe(serde_saphyr::from_reader_valid::<_, Checked>(
                    std::io::Cursor::new(yaml.clone().into_bytes()),
                )),
            ),
        ]
    }
}

#[cfg(feature = "validator")]
mod validator_cases {
    use super::*;
    use validator::Validate;

    #[derive(Debug, Deserialize, Validate)]
    #[allow(dead_code)]
    struct Checked {
        #[validate(length(min = 3))]
        name: String,
        filler: Vec<u32>,
        #[validate(length(min = 3))]
        alias: String,
        #[validate(range(min = 10))]
        port: u32,
    }

    pub(super) fn cases() -> Vec<(&'static str, String)> {
        let yaml = format!(
            "name: &n ab\nfiller:\n{}alias: *n\nport: 5\n",
            "  - 1\n".repeat(10)
        );
        vec![
            (
                "validator_str",
                describe(serde_saphyr::from_str_validate::<Checked>(&yaml)),
            ),
            (
                "validator_str_radius_2",
                describe(serde_saphyr::from_str_with_options_validate::<Checked>(
                    &yaml,
                    opts(2),
                )),
            ),
            (
                "validator_reader",
                describe(serde_saphyr::from_reader_validate::<_, Checked>(
                    std::io::Cursor::new(yaml.clone().into_bytes()),
                )),
            ),
        ]
    }
}

// ---------------------------------------------------------------------------------------
// Checking
// ---------------------------------------------------------------------------------------

fn check(group: &str, actual: Vec<(&'static str, String)>, expected: &[(&str, &str)]) {
    if std::env::var_os("DEMO_PRINT").is_some() {
        println!("@@BEGIN {group}");
        for (name, text) in &actual {
            println!("    ({name:?}, {text:?}),");
        }
        println!("@@END {group}");
        return;
    }
    let mut failures = Vec::new();
    for (i, (name, text)) in actual.iter().enumerate() {
        match expected.get(i) {
            Some((exp_name, exp_text)) if exp_name == name => {
                if exp_text != text {
                    failures.push(format!(
                        "case {name}: result differs\n--- expected\n{exp_text}\n--- actual\n{text}\n"
                    ));
                }
            }
            other => failures.push(format!("case {name}: expected entry is {other:?}")),
        }
    }
    assert_eq!(actual.len(), expected.len(), "{group}: number of cases");
    assert!(
        failures.is_empty(),
        "{group}: {} case(s) differ:\n{}",
        failures.len(),
        failures.join("\n")
    );
}

#[test]
fn common_cases_match_recorded_results() {
    let actual = cases();
    assert!(actual.len() >= 30);
    check("COMMON", actual, EXPECTED_COMMON);
}

#[cfg(feature = "garde")]
#[test]
fn garde_cases_match_recorded_results() {
    check("GARDE", garde_cases::cases(), EXPECTED_GARDE);
}

#[cfg(feature = "validator")]
#[test]
fn validator_cases_match_recorded_results() {
    check("VALIDATOR", validator_cases::cases(), EXPECTED_VALIDATOR);
}

// Recorded on the unmodified tree with DEMO_PRINT=1.
#[rustfmt::skip]
const EXPECTED_COMMON: &[(&str, &str)] = &[
    ("unknown_anchor_line1", "ERR location=Some(Location { line: 1, column: 1, span: Span { offset: 0, len: 1, byte_info: (0, 0) } })\nplain=alias references unknown anchor at line 1, column 1\nsnippet crop_radius=64 regions=1\nregion 1..=2 <<*missing\n>>\nrendered=\nerror: line 1 column 1: alias references unknown anchor\n --> <input>:1:1\n  |\n1 | *missing\n  | ^ alias references unknown anchor"),
    ("type_error_middle_of_seven_lines", "ERR location=Some(Location { line: 4, column: 5, span: Span { offset: 22, len: 4, byte_info: (22, 4) } })\nplain=invalid u32 at line 4, column 5\nsnippet crop_radius=64 regions=1\nregion 2..=7 <<k2: 2\nk3: 3\nk4: oops\nk5: 5\nk6: 6\n>>\nrendered=\nerror: line 4 column 5: invalid u32\n --> <input>:4:5\n  |\n2 | k2: 2\n3 | k3: 3\n4 | k4: oops\n  |     ^ invalid u32\n5 | k5: 5\n6 | k6: 6\n  |"),
    ("type_error_first_line", "ERR location=Some(Location { line: 1, column: 5, span: Span { offset: 4, len: 4, byte_info: (4, 4) } })\nplain=invalid u32 at line 1, column 5\nsnippet crop_radius=64 regions=1\nregion 1..=4 <<k1: oops\nk2: 2\nk3: 3\n>>\nrendered=\nerror: line 1 column 5: invalid u32\n --> <input>:1:5\n  |\n1 | k1: oops\n  |     ^ invalid u32\n2 | k2: 2\n3 | k3: 3\n  |"),
    ("type_error_last_line", "ERR location=Some(Location { line: 7, column: 5, span: Span { offset: 40, len: 4, byte_info: (40, 4) } })\nplain=invalid u32 at line 7, column 5\nsnippet crop_radius=64 regions=1\nregion 5..=8 <<k5: 5\nk6: 6\nk7: oops\n>>\nrendered=\nerror: line 7 column 5: invalid u32\n --> <input>:7:5\n  |\n5 | k5: 5\n6 | k6: 6\n7 | k7: oops\n  |     ^ invalid u32"),
    ("type_error_line_100_of_200", "ERR location=Some(Location { line: 100, column: 7, span: Span { offset: 780, len: 4, byte_info: (780, 4) } })\nplain=invalid u32 at line 100, column 7\nsnippet crop_radius=64 regions=1\nregion 98..=103 <<k98: 98\nk99: 99\nk100: oops\nk101: 101\nk102: 102\n>>\nrendered=\nerror: line 100 column 7: invalid u32\n   --> <input>:100:7\n    |\n 98 | k98: 98\n 99 | k99: 99\n100 | k100: oops\n    |       ^ invalid u32\n101 | k101: 101\n102 | k102: 102\n    |"),
    ("syntax_error_single_line_no_newline", "ERR location=Some(Location { line: 1, column: 4, span: Span { offset: 3, len: 1, byte_info: (3, 1) } })\nplain=unexpected event: expected string scalar at line 1, column 4\nsnippet crop_radius=64 regions=1\nregion 1..=1 <<x: [1, 2>>\nrendered=\nerror: line 1 column 4: unexpected event: expected string scalar\n --> <input>:1:4\n  |\n1 | x: [1, 2\n  |    ^ unexpected event: expected string scalar"),
    ("syntax_error_at_eof_trailing_newline", "ERR location=Some(Location { line: 1, column: 4, span: Span { offset: 3, len: 1, byte_info: (0, 0) } })\nplain=unclosed bracket '[' at line 1, column 4\nsnippet crop_radius=64 regions=1\nregion 1..=2 <<a: [1,\n>>\nrendered=\nerror: line 1 column 4: unclosed bracket '['\n --> <input>:1:4\n  |\n1 | a: [1,\n  |    ^ unclosed bracket '['"),
    ("eof_error_on_trailing_empty_line", "ERR location=Some(Location { line: 3, column: 5, span: Span { offset: 13, len: 1, byte_info: (0, 0) } })\nplain=unclosed bracket '[' at line 3, column 5\nsnippet crop_radius=64 regions=1\nregion 1..=4 <<a:\n  - 1\n  - [2\n>>\nrendered=\nerror: line 3 column 5: unclosed bracket '['\n --> <input>:3:5\n  |\n1 | a:\n2 |   - 1\n3 |   - [2\n  |     ^ unclosed bracket '['"),
    ("crlf_input", "ERR location=Some(Location { line: 2, column: 4, span: Span { offset: 9, len: 1, byte_info: (9, 1) } })\nplain=invalid u32 at line 2, column 4\nsnippet crop_radius=64 regions=1\nregion 1..=4 <<a: 1\r\nb: x\r\nc: 3\r\n>>\nrendered=\nerror: line 2 column 4: invalid u32\n --> <input>:2:4\n  |\n1 | a: 1\n2 | b: x\n  |    ^ invalid u32\n3 | c: 3\n  |"),
    ("crlf_input_radius_2", "ERR location=Some(Location { line: 2, column: 4, span: Span { offset: 9, len: 12, byte_info: (9, 12) } })\nplain=invalid u32 at line 2, column 4\nsnippet crop_radius=2 regions=1\nregion 1..=4 <<a: 1\r\nb: xyzxyzxyzxyz\r\nc: 3\r\n>>\nrendered=\nerror: line 2 column 4: invalid u32\n --> <input>:2:4\n  |\n1 | …: 1\n2 | …: xyz…\n  |    ^ invalid u32\n3 | …: 3\n  |"),
    ("cr_only_breaks", "ERR location=Some(Location { line: 2, column: 4, span: Span { offset: 8, len: 1, byte_info: (8, 1) } })\nplain=invalid u32 at line 2, column 4\nsnippet crop_radius=64 regions=0\nrendered=\ninvalid u32 at line 2, column 4"),
    ("control_chars_in_window", "ERR location=Some(Location { line: 2, column: 1, span: Span { offset: 20, len: 0, byte_info: (21, 0) } })\nplain=unexpected end of input at line 2, column 1\nsnippet crop_radius=64 regions=1\nregion 1..=4 <<# \u{1b}[31mred\u{1b}[0m \u{9b}2J \u{7f}\0\na: \"\u{85}x\"\nb: no\u{7}pe\n>>\nrendered=\nerror: line 2 column 1: unexpected end of input\n --> <input>:2:1\n  |\n1 | #  [31mred [0m \u{a0}2J   \n2 | a: \"\u{a0}x\"\n  | ^ unexpected end of input\n3 | b: no pe\n  |"),
    ("bom_prefixed", "ERR location=Some(Location { line: 2, column: 4, span: Span { offset: 8, len: 1, byte_info: (8, 1) } })\nplain=invalid u32 at line 2, column 4\nsnippet crop_radius=64 regions=1\nregion 1..=4 <<a: 1\nb: x\nc: 3\n>>\nrendered=\nerror: line 2 column 4: invalid u32\n --> <input>:2:4\n  |\n1 | a: 1\n2 | b: x\n  |    ^ invalid u32\n3 | c: 3\n  |"),
    ("double_bom", "ERR location=Some(Location { line: 2, column: 4, span: Span { offset: 9, len: 1, byte_info: (11, 1) } })\nplain=invalid u32 at line 2, column 4\nsnippet crop_radius=64 regions=1\nregion 1..=4 <<a: 1\nb: x\nc: 3\n>>\nrendered=\nerror: line 2 column 4: invalid u32\n --> <input>:2:4\n  |\n1 | a: 1\n2 | b: x\n  |    ^ invalid u32\n3 | c: 3\n  |"),
    ("only_bom", "ERR location=Some(Location { line: 1, column: 1, span: Span { offset: 0, len: 0, byte_info: (0, 0) } })\nplain=unexpected end of input at line 1, column 1\nsnippet crop_radius=64 regions=0\nrendered=\nunexpected end of input at line 1, column 1"),
    ("empty_input", "ERR location=Some(Location { line: 1, column: 1, span: Span { offset: 0, len: 0, byte_info: (0, 0) } })\nplain=unexpected end of input at line 1, column 1\nsnippet crop_radius=64 regions=0\nrendered=\nunexpected end of input at line 1, column 1"),
    ("only_newlines", "ERR location=Some(Location { line: 4, column: 1, span: Span { offset: 3, len: 0, byte_info: (3, 0) } })\nplain=unexpected end of input at line 4, column 1\nsnippet crop_radius=64 regions=1\nregion 2..=4 <<\n\n>>\nrendered=\nerror: line 4 column 1: unexpected end of input\n --> <input>:3:2\n  |\n2 |\n3 |\n  | ^ unexpected end of input"),
    ("multibyte_error_line", "ERR location=Some(Location { line: 2, column: 4, span: Span { offset: 12, len: 21, byte_info: (17, 42) } })\nplain=invalid u32 at line 2, column 4\nsnippet crop_radius=3 regions=1\nregion 1..=3 <<a: ααααα\nb: ßßßßßßßßßßßßßßßßßßßßß\n>>\nrendered=\nerror: line 2 column 4: invalid u32\n --> <input>:2:4\n  |\n1 | a: αααα…\n2 | b: ßßßß…\n  |    ^ invalid u32"),
    ("multibyte_error_line_radius_1", "ERR location=Some(Location { line: 2, column: 4, span: Span { offset: 10, len: 9, byte_info: (16, 27) } })\nplain=invalid u32 at line 2, column 4\nsnippet crop_radius=1 regions=1\nregion 1..=4 <<a: 日本語\nb: 日本語日本語日本語\n# 日本語日本語\n>>\nrendered=\nerror: line 2 column 4: invalid u32\n --> <input>:2:3\n  |\n1 | … 日本…\n2 | … 日本…\n  |   ^^ invalid u32\n3 | …日本語…\n  |"),
    ("tabs_and_wide_context", "ERR location=Some(Location { line: 3, column: 4, span: Span { offset: 312, len: 202, byte_info: (312, 202) } })\nplain=invalid u32 at line 3, column 4\nsnippet crop_radius=64 regions=1\nregion 1..=5 <<# cccccccccccccccccccccccccccccccccccccccccccccccccccccccccccccccccccccccccccccccccccccccccccccccccccccccccccccccccccccccccccccccccccccccccccccccccccccccccccccccccccccccccccccccccccccccccccccccccccccccccccccccccccccccccccccccccccccccccccccccccccccccccccccccccccccccccccccccccccccccccccccccccccccccccccc\na: ok\nb: \"vvvvvvvvvvvvvvvvvvvvvvvvvvvvvvvvvvvvvvvvvvvvvvvvvvvvvvvvvvvvvvvvvvvvvvvvvvvvvvvvvvvvvvvvvvvvvvvvvvvvvvvvvvvvvvvvvvvvvvvvvvvvvvvvvvvvvvvvvvvvvvvvvvvvvvvvvvvvvvvvvvvvvvvvvvvvvvvvvvvvvvvvvvvvvvvvvvvvvvvv\"\n# dddddddddd\n>>\nrendered=\nerror: line 3 column 4: invalid u32\n --> <input>:3:4\n  |\n1 | # cccccccccccccccccccccccccccccccccccccccccccccccccccccccccccccccccc…\n2 | a: ok\n3 | b: \"vvvvvvvvvvvvvvvvvvvvvvvvvvvvvvvvvvvvvvvvvvvvvvvvvvvvvvvvvvvvvvvv…\n  |    ^ invalid u32\n4 | # dddddddddd\n  |"),
    ("huge_error_line_ascii", "ERR location=Some(Location { line: 2, column: 4, span: Span { offset: 8, len: 1, byte_info: (8, 1) } })\nplain=unexpected event: expected string scalar at line 2, column 4\nsnippet crop_radius=64 regions=1\nregion 1..=4 <<a: 1\nb: [zzzzzzzzzzzzzzzzzzzzzzzzzzzzzzzzzzzzzzzzzzzzzzzzzzzzzzzzzzzzzzzz…\nc: 3\n>>\nrendered=\nerror: line 2 column 4: unexpected event: expected string scalar\n --> <input>:2:4\n  |\n1 | a: 1\n2 | b: [zzzzzzzzzzzzzzzzzzzzzzzzzzzzzzzzzzzzzzzzzzzzzzzzzzzzzzzzzzzzzzzz…\n  |    ^ unexpected event: expected string scalar\n3 | c: 3\n  |"),
    ("huge_line_error_far_right", "ERR location=Some(Location { line: 2, column: 4509, span: Span { offset: 4518, len: 1, byte_info: (4518, 1) } })\nplain=invalid u8 at line 2, column 4509\nsnippet crop_radius=64 regions=1\nregion 1..=4 <<<len=4530 chars=4530 fnv=84a0eea5f3eb968d>\nbefore: 1\nitems: [0, 1, 2, 3, 4, 5, 6, 7, 8, 9, 0, 1, 2, 3, 4, 5, 6, 7, 8, 9, 0, 1, 2, 3, 4, 5, 6, 7, 8, 9, 0, 1, 2, 3, \n<...>\n4, 5, 6, 7, 8, 9, 0, 1, 2, 3, 4, 5, 6, 7, 8, 9, 0, 1, 2, 3, 4, 5, 6, 7, 8, 9, 0, 1, 2, 3, 4, 5, 6, 7, 8, 9, x]\nafter: 2\n>>\nrendered=\nerror: line 2 column 4509: invalid u8\n --> <input>:2:66\n  |\n1 | before: 1\n2 | … 9, 0, 1, 2, 3, 4, 5, 6, 7, 8, 9, 0, 1, 2, 3, 4, 5, 6, 7, 8, 9, x]\n  |                                                                  ^ invalid u8\n3 | after: 2\n  |\n#####\nERR location=Some(Location { line: 1, column: 4509, span: Span { offset: 4508, len: 1, byte_info: (4508, 1) } })\nplain=invalid u8 at line 1, column 4509\nsnippet crop_radius=64 regions=1\nregion 1..=2 <<<len=4511 chars=4511 fnv=ac3b5dfbb2d66ee9>\nitems: [0, 1, 2, 3, 4, 5, 6, 7, 8, 9, 0, 1, 2, 3, 4, 5, 6, 7, 8, 9, 0, 1, 2, 3, 4, 5, 6, 7, 8, 9, 0, 1, 2, 3, 4, 5, 6, 7\n<...>\n1, 2, 3, 4, 5, 6, 7, 8, 9, 0, 1, 2, 3, 4, 5, 6, 7, 8, 9, 0, 1, 2, 3, 4, 5, 6, 7, 8, 9, 0, 1, 2, 3, 4, 5, 6, 7, 8, 9, x]\n>>\nrendered=\nerror: line 1 column 4509: invalid u8\n --> <input>:1:66\n  |\n1 | … 9, 0, 1, 2, 3, 4, 5, 6, 7, 8, 9, 0, 1, 2, 3, 4, 5, 6, 7, 8, 9, x]\n  |                                                                  ^ invalid u8"),
    ("huge_last_line_without_newline", "ERR location=Some(Location { line: 2, column: 4, span: Span { offset: 8, len: 1, byte_info: (8, 1) } })\nplain=unexpected event: expected string scalar at line 2, column 4\nsnippet crop_radius=64 regions=1\nregion 1..=2 <<a: 1\nb: [zzzzzzzzzzzzzzzzzzzzzzzzzzzzzzzzzzzzzzzzzzzzzzzzzzzzzzzzzzzzzzzz…>>\nrendered=\nerror: line 2 column 4: unexpected event: expected string scalar\n --> <input>:2:4\n  |\n1 | a: 1\n2 | b: [zzzzzzzzzzzzzzzzzzzzzzzzzzzzzzzzzzzzzzzzzzzzzzzzzzzzzzzzzzzzzzzz…\n  |    ^ unexpected event: expected string scalar"),
    ("huge_last_line_without_newline_far_right", "ERR location=Some(Location { line: 1, column: 4509, span: Span { offset: 4508, len: 1, byte_info: (4508, 1) } })\nplain=invalid u8 at line 1, column 4509\nsnippet crop_radius=7 regions=1\nregion 1..=1 <<<len=4510 chars=4510 fnv=f1669814967ae6f9>\nitems: [0, 1, 2, 3, 4, 5, 6, 7, 8, 9, 0, 1, 2, 3, 4, 5, 6, 7, 8, 9, 0, 1, 2, 3, 4, 5, 6, 7, 8, 9, 0, 1, 2, 3, 4, 5, 6, 7\n<...>\n 1, 2, 3, 4, 5, 6, 7, 8, 9, 0, 1, 2, 3, 4, 5, 6, 7, 8, 9, 0, 1, 2, 3, 4, 5, 6, 7, 8, 9, 0, 1, 2, 3, 4, 5, 6, 7, 8, 9, x]>>\nrendered=\nerror: line 1 column 4509: invalid u8\n --> <input>:1:9\n  |\n1 | … 8, 9, x]\n  |         ^ invalid u8"),
    ("huge_crlf_lines_and_trailing_cr", "ERR location=Some(Location { line: 2, column: 4, span: Span { offset: 9, len: 1, byte_info: (9, 1) } })\nplain=unexpected event: expected string scalar at line 2, column 4\nsnippet crop_radius=9 regions=1\nregion 1..=3 <<a: 1\nb: [zzzzzzzzz…\nc: 3333333333…>>\nrendered=\nerror: line 2 column 4: unexpected event: expected string scalar\n --> <input>:2:4\n  |\n1 | a: 1\n2 | b: [zzzzzzzzz…\n  |    ^ unexpected event: expected string scalar\n3 | c: 3333333333…\n  |"),
    ("huge_line_no_error", "<len=4542 chars=4542 fnv=d777a4e2983ddda6>\nOK Big { before: 1, items: [0, 1, 2, 3, 4, 5, 6, 7, 8, 9, 0, 1, 2, 3, 4, 5, 6, 7, 8, 9, 0, 1, 2, 3, 4, 5, 6, 7, 8, 9, 0,\n<...>\n 5, 6, 7, 8, 9, 0, 1, 2, 3, 4, 5, 6, 7, 8, 9, 0, 1, 2, 3, 4, 5, 6, 7, 8, 9, 0, 1, 2, 3, 4, 5, 6, 7, 8, 9, 7], after: 2 }"),
    ("huge_error_line_between_huge_context_lines", "ERR location=Some(Location { line: 2, column: 4509, span: Span { offset: 10512, len: 1, byte_info: (10512, 1) } })\nplain=invalid u8 at line 2, column 4509\nsnippet crop_radius=64 regions=1\nregion 1..=5 <<<len=10655 chars=7651 fnv=dea98788070ddbb2>\n…ccccccccccccccccccccccccccccccccccccccccccccccccccccccccccccccccccccccccccccccccccccccccccccccccccccccccccccccccccccccc\n<...>\néééééééééééééééééééééééééééééééééééééééééééééééééééééééééééééééééééééééééééééééééééééééééééééééééééééééééééééééééé\nz: 1\n>>\nrendered=\nerror: line 2 column 4509: invalid u8\n --> <input>:2:66\n  |\n1 | …ccccccccccccccccccccccccccccccccccccccccccccccccccccccccccccccccccccccccccccccccccccccccccccccccccccccccccccccccccccccccccccccccc…\n2 | … 9, 0, 1, 2, 3, 4, 5, 6, 7, 8, 9, 0, 1, 2, 3, 4, 5, 6, 7, 8, 9, x]\n  |                                                                  ^ invalid u8\n3 | # ééééééééééééééééééééééééééééééééééééééééééééééééééééééééééééééééééééééééééééééééééééééééééééééééééééééééééééééééééééééééééééééééééé...\n4 | z: 1\n  |"),
    ("huge_error_line_between_huge_context_lines_radius_3", "ERR location=Some(Location { line: 2, column: 4509, span: Span { offset: 10512, len: 1, byte_info: (10512, 1) } })\nplain=invalid u8 at line 2, column 4509\nsnippet crop_radius=3 regions=1\nregion 1..=5 <<<len=10533 chars=7529 fnv=79233a3698952fe0>\n…ccccccc…\nitems: [0, 1, 2, 3, 4, 5, 6, 7, 8, 9, 0, 1, 2, 3, 4, 5, 6, 7, 8, 9, 0, 1, 2, 3, 4, 5, 6, 7, 8, 9, 0, 1, 2, 3, \n<...>\néééééééééééééééééééééééééééééééééééééééééééééééééééééééééééééééééééééééééééééééééééééééééééééééééééééééééééééééééé\nz: 1\n>>\nrendered=\nerror: line 2 column 4509: invalid u8\n --> <input>:2:5\n  |\n1 | …ccccccc…\n2 | …9, x]\n  |     ^ invalid u8\n3 | # ééééééééééééééééééééééééééééééééééééééééééééééééééééééééééééééééééééééééééééééééééééééééééééééééééééééééééééééééééééééééééééééééééé...\n4 | z: 1\n  |"),
    ("huge_line_error_far_right_radius_1", "ERR location=Some(Location { line: 1, column: 4509, span: Span { offset: 4508, len: 1, byte_info: (4508, 1) } })\nplain=invalid u8 at line 1, column 4509\nsnippet crop_radius=1 regions=1\nregion 1..=2 <<<len=4511 chars=4511 fnv=ac3b5dfbb2d66ee9>\nitems: [0, 1, 2, 3, 4, 5, 6, 7, 8, 9, 0, 1, 2, 3, 4, 5, 6, 7, 8, 9, 0, 1, 2, 3, 4, 5, 6, 7, 8, 9, 0, 1, 2, 3, 4, 5, 6, 7\n<...>\n1, 2, 3, 4, 5, 6, 7, 8, 9, 0, 1, 2, 3, 4, 5, 6, 7, 8, 9, 0, 1, 2, 3, 4, 5, 6, 7, 8, 9, 0, 1, 2, 3, 4, 5, 6, 7, 8, 9, x]\n>>\nrendered=\nerror: line 1 column 4509: invalid u8\n --> <input>:1:3\n  |\n1 | … x]\n  |   ^ invalid u8"),
    ("huge_multibyte_context_lines", "ERR location=Some(Location { line: 3, column: 5, span: Span { offset: 5014, len: 4, byte_info: (10014, 4) } })\nplain=invalid u32 at line 3, column 5\nsnippet crop_radius=64 regions=1\nregion 1..=6 <<# ééééééééééééééééééééééééééééééééééééééééééééééééééééééééééééééééééé…\nk1: 1\nk2: nope\n#  [1m [1m [1m [1m [1m [1m [1m [1m [1m [1m [1m [1m [1m [1m [1m [1m [1…\nk3: 99999999999999999999999999999999999999999999999999999999999999999…\n>>\nrendered=\nerror: line 3 column 5: invalid u32\n --> <input>:3:5\n  |\n1 | # ééééééééééééééééééééééééééééééééééééééééééééééééééééééééééééééééééé…\n2 | k1: 1\n3 | k2: nope\n  |     ^ invalid u32\n4 | #  [1m [1m [1m [1m [1m [1m [1m [1m [1m [1m [1m [1m [1m [1m [1m [1m [1…\n5 | k3: 99999999999999999999999999999999999999999999999999999999999999999…\n  |"),
    ("huge_multibyte_context_lines_radius_5", "ERR location=Some(Location { line: 3, column: 5, span: Span { offset: 5014, len: 4, byte_info: (10014, 4) } })\nplain=invalid u32 at line 3, column 5\nsnippet crop_radius=5 regions=1\nregion 1..=6 <<# éééééééé…\nk1: 1\nk2: nope\n#  [1m [1m…\nk3: 999999…\n>>\nrendered=\nerror: line 3 column 5: invalid u32\n --> <input>:3:5\n  |\n1 | # éééééééé…\n2 | k1: 1\n3 | k2: nope\n  |     ^ invalid u32\n4 | #  [1m [1m…\n5 | k3: 999999…\n  |"),
    ("huge_context_radius_max", "ERR location=Some(Location { line: 3, column: 5, span: Span { offset: 5014, len: 4, byte_info: (10014, 4) } })\nplain=invalid u32 at line 3, column 5\nsnippet crop_radius=18446744073709551615 regions=1\nregion 1..=6 <<<len=19826 chars=14826 fnv=af59a564206da56b>\n# éééééééééééééééééééééééééééééééééééééééééééééééééééééééééééééééééééééééééééééééééééééééééééééééééééééééééééééééééééééé\n<...>\n99999999999999999999999999999999999999999999999999999999999999999999999999999999999999999999999999999999999999999999999\n>>\nrendered=\nerror: line 3 column 5: invalid u32\n --> <input>:3:5\n  |\n1 | # ééééééééééééééééééééééééééééééééééééééééééééééééééééééééééééééééééééééééééééééééééééééééééééééééééééééééééééééééééééééééééééééééééé...\n2 | k1: 1\n3 | k2: nope\n  |     ^ invalid u32\n4 | #  [1m [1m [1m [1m [1m [1m [1m [1m [1m [1m [1m [1m [1m [1m [1m [1m [1m [1m [1m [1m [1m [1m [1m [1m [1m [1m [1m [1m [1m [1m [1m [1m [1...\n5 | k3: 999999999999999999999999999999999999999999999999999999999999999999999999999999999999999999999999999999999999999999999999999999999...\n  |"),
    ("huge_multibyte_error_line", "ERR location=Some(Location { line: 2, column: 6006, span: Span { offset: 6013, len: 1, byte_info: (7213, 1) } })\nplain=unexpected event: expected string scalar at line 2, column 6006\nsnippet crop_radius=10 regions=1\nregion 1..=4 <<<len=7226 chars=6026 fnv=160b6307857995d8>\nk0: [a]\nk2: [\"é\", \"é\", \"é\", \"é\", \"é\", \"é\", \"é\", \"é\", \"é\", \"é\", \"é\", \"é\", \"é\", \"é\", \"é\", \"é\", \"é\", \"é\", \"é\", \"é\", \"é\", \"é\n<...>\n, \"é\", \"é\", \"é\", \"é\", \"é\", \"é\", \"é\", \"é\", \"é\", \"é\", \"é\", \"é\", \"é\", \"é\", \"é\", \"é\", \"é\", \"é\", \"é\", \"é\", \"é\", [x]]\nk3: [b]\n>>\nrendered=\nerror: line 2 column 6006: unexpected event: expected string scalar\n --> <input>:2:12\n  |\n1 | k0: [a]\n2 | …\"é\", \"é\", [x]]\n  |            ^ unexpected event: expected string scalar\n3 | k3: [b]\n  |"),
    ("huge_multibyte_error_line_wrong_type_on_first_line", "ERR location=Some(Location { line: 1, column: 5, span: Span { offset: 4, len: 1, byte_info: (4, 1) } })\nplain=unexpected event: expected string scalar at line 1, column 5\nsnippet crop_radius=10 regions=1\nregion 1..=4 <<k0: [a]\nk2: [\"é\", \"é\", …\nk3: [b]\n>>\nrendered=\nerror: line 1 column 5: unexpected event: expected string scalar\n --> <input>:1:5\n  |\n1 | k0: [a]\n  |     ^ unexpected event: expected string scalar\n2 | k2: [\"é\", \"é\", …\n3 | k3: [b]\n  |"),
    ("window_above_16k_without_long_line", "ERR location=Some(Location { line: 3, column: 5, span: Span { offset: 7818, len: 1, byte_info: (7818, 1) } })\nplain=unexpected event: expected string scalar at line 3, column 5\nsnippet crop_radius=8 regions=1\nregion 1..=6 <<<len=15636 chars=15636 fnv=5e9aaf20ee6c2536>\nk0: \"wwwwwwwwwwwwwwwwwwwwwwwwwwwwwwwwwwwwwwwwwwwwwwwwwwwwwwwwwwwwwwwwwwwwwwwwwwwwwwwwwwwwwwwwwwwwwwwwwwwwwwwwwwwwwwwwwww\n<...>\nwwwwwwwwwwwwwwwwwwwwwwwwwwwwwwwwwwwwwwwwwwwwwwwwwwwwwwwwwwwwwwwwwwwwwwwwwwwwwwwwwwwwwwwwwwwwwwwwwwwwwwwwwwwwwwwwwwwwww\"\n>>\nrendered=\nerror: line 3 column 5: unexpected event: expected string scalar\n --> <input>:3:5\n  |\n1 | k0: \"wwwwwwww…\n2 | k1: \"wwwwwwww…\n3 | k2: [x]\n  |     ^ unexpected event: expected string scalar\n4 | k3: \"wwwwwwww…\n5 | k4: \"wwwwwwww…\n  |"),
    ("window_below_16k_without_long_line", "ERR location=Some(Location { line: 1, column: 5, span: Span { offset: 4, len: 3902, byte_info: (4, 3902) } })\nplain=invalid u32 at line 1, column 5\nsnippet crop_radius=8 regions=1\nregion 1..=4 <<<len=7822 chars=7822 fnv=8583231e94bce42d>\nk0: \"wwwwwwwwwwwwwwwwwwwwwwwwwwwwwwwwwwwwwwwwwwwwwwwwwwwwwwwwwwwwwwwwwwwwwwwwwwwwwwwwwwwwwwwwwwwwwwwwwwwwwwwwwwwwwwwwwww\n<...>\nwwwwwwwwwwwwwwwwwwwwwwwwwwwwwwwwwwwwwwwwwwwwwwwwwwwwwwwwwwwwwwwwwwwwwwwwwwwwwwwwwwwwwwwwwwwwwwwwwwwwwwwwwwwwww\"\nk2: [x]\n>>\nrendered=\nerror: line 1 column 5: invalid u32\n --> <input>:1:5\n  |\n1 | k0: \"wwwwwwww…\n  |     ^ invalid u32\n2 | k1: \"wwwwwwww…\n3 | k2: [x]\n  |"),
    ("crop_radius_zero_returns_unwrapped", "ERR location=Some(Location { line: 2, column: 4, span: Span { offset: 8, len: 1, byte_info: (8, 1) } })\nplain=invalid u32 at line 2, column 4\nno snippet wrapper\nrendered=\ninvalid u32 at line 2, column 4"),
    ("with_snippet_false", "ERR location=Some(Location { line: 2, column: 4, span: Span { offset: 8, len: 1, byte_info: (8, 1) } })\nplain=invalid u32 at line 2, column 4\nno snippet wrapper\nrendered=\ninvalid u32 at line 2, column 4"),
    ("alias_error_two_regions", "ERR location=Some(Location { line: 1, column: 7, span: Span { offset: 6, len: 4, byte_info: (6, 4) } })\nplain=invalid u32 at line 1, column 7\nsnippet crop_radius=64 regions=1\nregion 1..=4 <<a: &x nope\n# filler\n# filler\n>>\nrendered=\nerror: line 1 column 7: invalid u32\n --> <input>:1:7\n  |\n1 | a: &x nope\n  |       ^ invalid u32\n2 | # filler\n3 | # filler\n  |"),
    ("alias_error_same_window", "ERR location=Some(Location { line: 1, column: 7, span: Span { offset: 6, len: 4, byte_info: (6, 4) } })\nplain=invalid u32 at line 1, column 7\nsnippet crop_radius=64 regions=1\nregion 1..=3 <<a: &x nope\nb: *x\n>>\nrendered=\nerror: line 1 column 7: invalid u32\n --> <input>:1:7\n  |\n1 | a: &x nope\n  |       ^ invalid u32\n2 | b: *x\n  |"),
    ("duplicate_key", "ERR location=Some(Location { line: 5, column: 1, span: Span { offset: 20, len: 1, byte_info: (20, 1) } })\nplain=duplicate mapping key: a, set DuplicateKeyPolicy in Options if acceptable at line 5, column 1\nsnippet crop_radius=64 regions=1\nregion 3..=6 <<c: 3\nd: 4\na: 5\n>>\nrendered=\nerror: line 5 column 1: duplicate mapping key: a, set DuplicateKeyPolicy in Options if acceptable\n --> <input>:5:1\n  |\n3 | c: 3\n4 | d: 4\n5 | a: 5\n  | ^ duplicate mapping key: a, set DuplicateKeyPolicy in Options if acceptable"),
    ("unknown_and_missing_fields", "ERR location=Some(Location { line: 2, column: 1, span: Span { offset: 5, len: 1, byte_info: (5, 1) } })\nplain=missing field `c` at line 2, column 1\nsnippet crop_radius=64 regions=1\nregion 1..=3 <<a: 1\nb: 2\n>>\nrendered=\nerror: line 2 column 1: missing field `c`\n --> <input>:2:1\n  |\n1 | a: 1\n2 | b: 2\n  | ^ missing field `c`\n#####\nERR location=Some(Location { line: 1, column: 5, span: Span { offset: 4, len: 1, byte_info: (4, 1) } })\nplain=unexpected event: expected string scalar at line 1, column 5\nsnippet crop_radius=64 regions=1\nregion 1..=3 <<id: [1]\ntags: {}\n>>\nrendered=\nerror: line 1 column 5: unexpected event: expected string scalar\n --> <input>:1:5\n  |\n1 | id: [1]\n  |     ^ unexpected event: expected string scalar\n2 | tags: {}\n  |"),
    ("depth_budget", "ERR location=Some(Location { line: 1, column: 256, span: Span { offset: 255, len: 1, byte_info: (0, 0) } })\nplain=recursion limit exceeded at line 1, column 256\nsnippet crop_radius=64 regions=1\nregion 1..=1 <<<len=3000 chars=3000 fnv=5b68551e89fb288d>\n[[[[[[[[[[[[[[[[[[[[[[[[[[[[[[[[[[[[[[[[[[[[[[[[[[[[[[[[[[[[[[[[[[[[[[[[[[[[[[[[[[[[[[[[[[[[[[[[[[[[[[[[[[[[[[[[[[[[[[[[\n<...>\n[[[[[[[[[[[[[[[[[[[[[[[[[[[[[[[[[[[[[[[[[[[[[[[[[[[[[[[[[[[[[[[[[[[[[[[[[[[[[[[[[[[[[[[[[[[[[[[[[[[[[[[[[[[[[[[[[[[[[[[[>>\nrendered=\nerror: line 1 column 256: recursion limit exceeded\n --> <input>:1:66\n  |\n1 | …[[[[[[[[[[[[[[[[[[[[[[[[[[[[[[[[[[[[[[[[[[[[[[[[[[[[[[[[[[[[[[[[[[[[[[[[[[[[[[[[[[[[[[[[[[[[[[[[[[[[[[[[[[[[[[[[[[[[[[[[[[[[[[[[[…\n  |                                                                  ^ recursion limit exceeded"),
    ("alias_replay_limit", "ERR location=Some(Location { line: 2, column: 7, span: Span { offset: 25, len: 1, byte_info: (25, 1) } })\nplain=alias replay limit exceeded: total_replayed_events=51 > 50 at line 2, column 7\nsnippet crop_radius=64 regions=1\nregion 1..=5 <<a: &a [x, x, x, x]\nb: &b [*a, *a, *a, *a]\nc: &c [*b, *b, *b, *b]\nd: [*c, *c, *c]\n>>\nrendered=\nerror: line 2 column 7: alias replay limit exceeded: total_replayed_events=51 > 50\n --> <input>:2:7\n  |\n1 | a: &a [x, x, x, x]\n2 | b: &b [*a, *a, *a, *a]\n  |       ^ alias replay limit exceeded: total_replayed_events=51 > 50\n3 | c: &c [*b, *b, *b, *b]\n4 | d: [*c, *c, *c]\n  |"),
    ("invalid_utf8_slice", "ERR location=None\nplain=input is not valid UTF-8\nno snippet wrapper\nrendered=\ninput is not valid UTF-8"),
    ("from_multiple_error_in_second_doc", "ERR location=Some(Location { line: 3, column: 5, span: Span { offset: 14, len: 1, byte_info: (14, 1) } })\nplain=invalid u32 at line 3, column 5\nsnippet crop_radius=64 regions=1\nregion 1..=6 <<id: 1\n---\nid: x\n---\nid: 3\n>>\nrendered=\nerror: line 3 column 5: invalid u32\n --> <input>:3:5\n  |\n1 | id: 1\n2 | ---\n3 | id: x\n  |     ^ invalid u32\n4 | ---\n5 | id: 3\n  |"),
    ("reader_short_type_error", "ERR location=Some(Location { line: 2, column: 4, span: Span { offset: 8, len: 1, byte_info: (0, 0) } })\nplain=invalid u32 at line 2, column 4\nsnippet crop_radius=64 regions=1\nregion 1..=4 <<a: 1\nb: x\nc: 3\n>>\nrendered=\nerror: line 2 column 4: invalid u32\n --> <input>:2:4\n  |\n1 | a: 1\n2 | b: x\n  |    ^ invalid u32\n3 | c: 3\n  |"),
    ("reader_long_input_error_near_end", "ERR location=Some(Location { line: 2990, column: 8, span: Span { offset: 33661, len: 4, byte_info: (0, 0) } })\nplain=invalid u32 at line 2990, column 8\nsnippet crop_radius=64 regions=1\nregion 2988..=2993 <<k2988: 2988\nk2989: 2989\nk2990: oops\nk2991: 2991\nk2992: 2992\n>>\nrendered=\nerror: line 2990 column 8: invalid u32\n    --> <input>:2990:8\n     |\n2988 | k2988: 2988\n2989 | k2989: 2989\n2990 | k2990: oops\n     |        ^ invalid u32\n2991 | k2991: 2991\n2992 | k2992: 2992\n     |"),
    ("reader_long_input_error_last_line_no_newline", "ERR location=Some(Location { line: 3000, column: 8, span: Span { offset: 33781, len: 4, byte_info: (0, 0) } })\nplain=invalid u32 at line 3000, column 8\nsnippet crop_radius=64 regions=1\nregion 2998..=3000 <<k2998: 2998\nk2999: 2999\nk3000: oops>>\nrendered=\nerror: line 3000 column 8: invalid u32\n    --> <input>:3000:8\n     |\n2998 | k2998: 2998\n2999 | k2999: 2999\n3000 | k3000: oops\n     |        ^ invalid u32"),
    ("reader_huge_line_error_left_the_ring", "ERR location=Some(Location { line: 1, column: 9, span: Span { offset: 8, len: 1, byte_info: (0, 0) } })\nplain=unexpected event: expected sequence start at line 1, column 9\nsnippet crop_radius=64 regions=0\nrendered=\nunexpected event: expected sequence start at line 1, column 9"),
    ("reader_huge_line", "ERR location=Some(Location { line: 2, column: 4509, span: Span { offset: 4518, len: 1, byte_info: (0, 0) } })\nplain=invalid u8 at line 2, column 4509\nsnippet crop_radius=64 regions=1\nregion 2..=4 <<<len=3072 chars=3072 fnv=4b4981e2e5bc6200>\n0, 1, 2, 3, 4, 5, 6, 7, 8, 9, 0, 1, 2, 3, 4, 5, 6, 7, 8, 9, 0, 1, 2, 3, 4, 5, 6, 7, 8, 9, 0, 1, 2, 3, 4, 5, 6, 7, 8, 9, \n<...>\n4, 5, 6, 7, 8, 9, 0, 1, 2, 3, 4, 5, 6, 7, 8, 9, 0, 1, 2, 3, 4, 5, 6, 7, 8, 9, 0, 1, 2, 3, 4, 5, 6, 7, 8, 9, x]\nafter: 2\n>>\nrendered=\ninvalid u8 at line 2, column 4509"),
    ("reader_huge_line_radius_2", "ERR location=Some(Location { line: 2, column: 4509, span: Span { offset: 4518, len: 1, byte_info: (0, 0) } })\nplain=invalid u8 at line 2, column 4509\nsnippet crop_radius=2 regions=1\nregion 2..=4 <<<len=3072 chars=3072 fnv=4b4981e2e5bc6200>\n0, 1, 2, 3, 4, 5, 6, 7, 8, 9, 0, 1, 2, 3, 4, 5, 6, 7, 8, 9, 0, 1, 2, 3, 4, 5, 6, 7, 8, 9, 0, 1, 2, 3, 4, 5, 6, 7, 8, 9, \n<...>\n4, 5, 6, 7, 8, 9, 0, 1, 2, 3, 4, 5, 6, 7, 8, 9, 0, 1, 2, 3, 4, 5, 6, 7, 8, 9, 0, 1, 2, 3, 4, 5, 6, 7, 8, 9, x]\nafter: 2\n>>\nrendered=\ninvalid u8 at line 2, column 4509"),
    ("reader_alias_definition_outside_ring", "ERR location=Some(Location { line: 1, column: 7, span: Span { offset: 6, len: 4, byte_info: (0, 0) } })\nplain=invalid u32 at line 1, column 7\nsnippet crop_radius=64 regions=0\nrendered=\ninvalid u32 at line 1, column 7"),
    ("reader_alias_same_window", "ERR location=Some(Location { line: 1, column: 7, span: Span { offset: 6, len: 4, byte_info: (0, 0) } })\nplain=invalid u32 at line 1, column 7\nsnippet crop_radius=64 regions=1\nregion 1..=3 <<a: &x nope\nb: *x\n>>\nrendered=\nerror: line 1 column 7: invalid u32\n --> <input>:1:7\n  |\n1 | a: &x nope\n  |       ^ invalid u32\n2 | b: *x\n  |"),
    ("reader_empty_into_bool", "ERR location=Some(Location { line: 1, column: 1, span: Span { offset: 0, len: 0, byte_info: (0, 0) } })\nplain=unexpected end of input at line 1, column 1\nsnippet crop_radius=64 regions=0\nrendered=\nunexpected end of input at line 1, column 1"),
    ("reader_crop_radius_zero", "ERR location=Some(Location { line: 2, column: 4, span: Span { offset: 8, len: 1, byte_info: (0, 0) } })\nplain=invalid u32 at line 2, column 4\nno snippet wrapper\nrendered=\ninvalid u32 at line 2, column 4"),
    ("reader_crlf_and_controls", "ERR location=Some(Location { line: 3, column: 4, span: Span { offset: 17, len: 1, byte_info: (0, 0) } })\nplain=invalid u32 at line 3, column 4\nsnippet crop_radius=4 regions=1\nregion 1..=5 <<a: 1\r\n# \u{1b}[2J\r\nb: x\r\nc: 3\r\n>>\nrendered=\nerror: line 3 column 4: invalid u32\n --> <input>:3:4\n  |\n1 | a: 1\n2 | #  [2J\n3 | b: x\n  |    ^ invalid u32\n4 | c: 3\n  |"),
    ("reader_invalid_utf8", "ERR location=None\nplain=IO error: invalid UTF-8 leading byte\nsnippet crop_radius=64 regions=0\nrendered=\nIO error: invalid UTF-8 leading byte"),
    ("reader_bom", "ERR location=Some(Location { line: 2, column: 4, span: Span { offset: 8, len: 1, byte_info: (0, 0) } })\nplain=invalid u32 at line 2, column 4\nsnippet crop_radius=64 regions=1\nregion 1..=4 <<a: 1\nb: x\nc: 3\n>>\nrendered=\nerror: line 2 column 4: invalid u32\n --> <input>:2:4\n  |\n1 | a: 1\n2 | b: x\n  |    ^ invalid u32\n3 | c: 3\n  |"),
    ("reader_trailing_garbage", "ERR location=Some(Location { line: 5, column: 1, span: Span { offset: 19, len: 0, byte_info: (0, 0) } })\nplain=multiple YAML documents detected; use read or read_with_options to obtain the iterator at line 5, column 1\nsnippet crop_radius=64 regions=1\nregion 3..=6 <<c: 3\n---\nmore: 1\n>>\nrendered=\nerror: line 5 column 1: multiple YAML documents detected; use read or read_with_options to obtain the iterator\n --> <input>:5:1\n  |\n3 | c: 3\n4 | ---\n5 | more: 1\n  | ^ multiple YAML documents detected; use read or read_with_options to obtain the iterator"),
    ("reader_syntax_error_eof", "ERR location=Some(Location { line: 1, column: 4, span: Span { offset: 3, len: 1, byte_info: (0, 0) } })\nplain=unclosed bracket '[' at line 1, column 4\nsnippet crop_radius=64 regions=1\nregion 1..=2 <<a: [1,\n>>\nrendered=\nerror: line 1 column 4: unclosed bracket '['\n --> <input>:1:4\n  |\n1 | a: [1,\n  |    ^ unclosed bracket '['"),
    ("stream_error_in_second_of_three", "--- item 0\nOK Doc { id: 1, tags: [] }\n--- item 1\nERR location=Some(Location { line: 3, column: 5, span: Span { offset: 14, len: 1, byte_info: (0, 0) } })\nplain=invalid u32 at line 3, column 5\nno snippet wrapper\nrendered=\ninvalid u32 at line 3, column 5\n--- item 2\nOK Doc { id: 3, tags: [] }\n--- end"),
    ("stream_error_then_syntax_error", "--- item 0\nERR location=Some(Location { line: 1, column: 5, span: Span { offset: 4, len: 1, byte_info: (0, 0) } })\nplain=invalid u32 at line 1, column 5\nno snippet wrapper\nrendered=\ninvalid u32 at line 1, column 5\n--- end"),
    ("stream_error_then_document_end_marker", "--- item 0\nERR location=Some(Location { line: 1, column: 5, span: Span { offset: 4, len: 1, byte_info: (0, 0) } })\nplain=unexpected event: expected string scalar at line 1, column 5\nno snippet wrapper\nrendered=\nunexpected event: expected string scalar at line 1, column 5\n--- item 1\nOK Doc { id: 2, tags: [] }\n--- item 2\nERR location=Some(Location { line: 8, column: 5, span: Span { offset: 47, len: 1, byte_info: (0, 0) } })\nplain=unexpected event: expected string scalar at line 8, column 5\nno snippet wrapper\nrendered=\nunexpected event: expected string scalar at line 8, column 5\n--- end"),
    ("stream_error_in_last_document", "--- item 0\nOK Doc { id: 1, tags: [] }\n--- item 1\nERR location=Some(Location { line: 3, column: 5, span: Span { offset: 14, len: 4, byte_info: (0, 0) } })\nplain=invalid u32 at line 3, column 5\nno snippet wrapper\nrendered=\ninvalid u32 at line 3, column 5\n--- end"),
    ("stream_error_nested_with_anchors", "--- item 0\nERR location=Some(Location { line: 2, column: 14, span: Span { offset: 22, len: 1, byte_info: (0, 0) } })\nplain=unexpected event: expected string scalar at line 2, column 14\nno snippet wrapper\nrendered=\nunexpected event: expected string scalar at line 2, column 14\n--- item 1\nOK Doc { id: 8, tags: [\"c\"] }\n--- item 2\nERR location=Some(Location { line: 8, column: 5, span: Span { offset: 66, len: 2, byte_info: (0, 0) } })\nplain=alias references unknown anchor at line 8, column 5\nno snippet wrapper\nrendered=\nalias references unknown anchor at line 8, column 5\n--- end"),
    ("stream_empty_documents_between", "--- item 0\nERR location=Some(Location { line: 3, column: 5, span: Span { offset: 12, len: 1, byte_info: (0, 0) } })\nplain=invalid u32 at line 3, column 5\nno snippet wrapper\nrendered=\ninvalid u32 at line 3, column 5\n--- item 1\nOK Doc { id: 4, tags: [] }\n--- end"),
    ("stream_depth_budget_then_next_document", "--- item 0\nERR location=Some(Location { line: 1, column: 256, span: Span { offset: 255, len: 1, byte_info: (0, 0) } })\nplain=recursion limit exceeded at line 1, column 256\nno snippet wrapper\nrendered=\nrecursion limit exceeded at line 1, column 256\n--- end"),
    ("stream_invalid_utf8_mid_stream", "--- item 0\nERR location=None\nplain=IO error: invalid UTF-8 leading byte\nno snippet wrapper\nrendered=\nIO error: invalid UTF-8 leading byte\n--- item 1\nERR location=Some(Location { line: 3, column: 3, span: Span { offset: 12, len: 0, byte_info: (0, 0) } })\nplain=invalid u32 at line 3, column 3\nno snippet wrapper\nrendered=\ninvalid u32 at line 3, column 3\n--- end"),
    ("integer_table", "\"0x1F\" legacy=false: i32=31 u8=31 i128=31 u128=31\n\"0x1F\" legacy=true: i32=31 u8=31 i128=31 u128=31\n\"0X1f\" legacy=false: i32=31 u8=31 i128=31 u128=31\n\"0X1f\" legacy=true: i32=31 u8=31 i128=31 u128=31\n\"0o17\" legacy=false: i32=15 u8=15 i128=15 u128=15\n\"0o17\" legacy=true: i32=15 u8=15 i128=15 u128=15\n\"0O17\" legacy=false: i32=15 u8=15 i128=15 u128=15\n\"0O17\" legacy=true: i32=15 u8=15 i128=15 u128=15\n\"0b101\" legacy=false: i32=5 u8=5 i128=5 u128=5\n\"0b101\" legacy=true: i32=5 u8=5 i128=5 u128=5\n\"0B101\" legacy=false: i32=5 u8=5 i128=5 u128=5\n\"0B101\" legacy=true: i32=5 u8=5 i128=5 u128=5\n\"00\" legacy=false: i32=0 u8=0 i128=0 u128=0\n\"00\" legacy=true: i32=0 u8=0 i128=0 u128=0\n\"007\" legacy=false: i32=7 u8=7 i128=7 u128=7\n\"007\" legacy=true: i32=7 u8=7 i128=7 u128=7\n\"0_7\" legacy=false: i32=7 u8=7 i128=7 u128=7\n\"0_7\" legacy=true: i32=7 u8=7 i128=7 u128=7\n\"00_7\" legacy=false: i32=7 u8=7 i128=7 u128=7\n\"00_7\" legacy=true: i32=7 u8=7 i128=7 u128=7\n\"008\" legacy=false: i32=8 u8=8 i128=8 u128=8\n\"008\" legacy=true: i32=E(invalid i32 at line 1, column 1) u8=E(invalid u8 at line 1, column 1) i128=E(invalid i128 at line 1, column 1) u128=E(invalid u128 at line 1, column 1)\n\"-0x80\" legacy=false: i32=-128 u8=E(invalid u8 at line 1, column 1) i128=-128 u128=E(invalid u128 at line 1, column 1)\n\"-0x80\" legacy=true: i32=-128 u8=E(invalid u8 at line 1, column 1) i128=-128 u128=E(invalid u128 at line 1, column 1)\n\"+0x10\" legacy=false: i32=16 u8=16 i128=16 u128=16\n\"+0x10\" legacy=true: i32=16 u8=16 i128=16 u128=16\n\"0x\" legacy=false: i32=E(invalid i32 at line 1, column 1) u8=E(invalid u8 at line 1, column 1) i128=E(invalid i128 at line 1, column 1) u128=E(invalid u128 at line 1, column 1)\n\"0x\" legacy=true: i32=E(invalid i32 at line 1, column 1) u8=E(invalid u8 at line 1, column 1) i128=E(invalid i128 at line 1, column 1) u128=E(invalid u128 at line 1, column 1)\n\"0o\" legacy=false: i32=E(invalid i32 at line 1, column 1) u8=E(invalid u8 at line 1, column 1) i128=E(invalid i128 at line 1, column 1) u128=E(invalid u128 at line 1, column 1)\n\"0o\" legacy=true: i32=E(invalid i32 at line 1, column 1) u8=E(invalid u8 at line 1, column 1) i128=E(invalid i128 at line 1, column 1) u128=E(invalid u128 at line 1, column 1)\n\"0b\" legacy=false: i32=E(invalid i32 at line 1, column 1) u8=E(invalid u8 at line 1, column 1) i128=E(invalid i128 at line 1, column 1) u128=E(invalid u128 at line 1, column 1)\n\"0b\" legacy=true: i32=E(invalid i32 at line 1, column 1) u8=E(invalid u8 at line 1, column 1) i128=E(invalid i128 at line 1, column 1) u128=E(invalid u128 at line 1, column 1)\n\"-00\" legacy=false: i32=0 u8=E(invalid u8 at line 1, column 1) i128=0 u128=E(invalid u128 at line 1, column 1)\n\"-00\" legacy=true: i32=0 u8=E(invalid u8 at line 1, column 1) i128=0 u128=E(invalid u128 at line 1, column 1)\n\"-007\" legacy=false: i32=-7 u8=E(invalid u8 at line 1, column 1) i128=-7 u128=E(invalid u128 at line 1, column 1)\n\"-007\" legacy=true: i32=-7 u8=E(invalid u8 at line 1, column 1) i128=-7 u128=E(invalid u128 at line 1, column 1)\n\"+007\" legacy=false: i32=7 u8=7 i128=7 u128=7\n\"+007\" legacy=true: i32=7 u8=7 i128=7 u128=7\n\"0x-1\" legacy=false: i32=E(invalid i32 at line 1, column 1) u8=E(invalid u8 at line 1, column 1) i128=E(invalid i128 at line 1, column 1) u128=E(invalid u128 at line 1, column 1)\n\"0x-1\" legacy=true: i32=E(invalid i32 at line 1, column 1) u8=E(invalid u8 at line 1, column 1) i128=E(invalid i128 at line 1, column 1) u128=E(invalid u128 at line 1, column 1)\n\"00x1\" legacy=false: i32=E(invalid i32 at line 1, column 1) u8=E(invalid u8 at line 1, column 1) i128=E(invalid i128 at line 1, column 1) u128=E(invalid u128 at line 1, column 1)\n\"00x1\" legacy=true: i32=E(invalid i32 at line 1, column 1) u8=E(invalid u8 at line 1, column 1) i128=E(invalid i128 at line 1, column 1) u128=E(invalid u128 at line 1, column 1)\n\"000\" legacy=false: i32=0 u8=0 i128=0 u128=0\n\"000\" legacy=true: i32=0 u8=0 i128=0 u128=0\n\"0b2\" legacy=false: i32=E(invalid i32 at line 1, column 1) u8=E(invalid u8 at line 1, column 1) i128=E(invalid i128 at line 1, column 1) u128=E(invalid u128 at line 1, column 1)\n\"0b2\" legacy=true: i32=E(invalid i32 at line 1, column 1) u8=E(invalid u8 at line 1, column 1) i128=E(invalid i128 at line 1, column 1) u128=E(invalid u128 at line 1, column 1)\n\"0o8\" legacy=false: i32=E(invalid i32 at line 1, column 1) u8=E(invalid u8 at line 1, column 1) i128=E(invalid i128 at line 1, column 1) u128=E(invalid u128 at line 1, column 1)\n\"0o8\" legacy=true: i32=E(invalid i32 at line 1, column 1) u8=E(invalid u8 at line 1, column 1) i128=E(invalid i128 at line 1, column 1) u128=E(invalid u128 at line 1, column 1)\n\"0xG\" legacy=false: i32=E(invalid i32 at line 1, column 1) u8=E(invalid u8 at line 1, column 1) i128=E(invalid i128 at line 1, column 1) u128=E(invalid u128 at line 1, column 1)\n\"0xG\" legacy=true: i32=E(invalid i32 at line 1, column 1) u8=E(invalid u8 at line 1, column 1) i128=E(invalid i128 at line 1, column 1) u128=E(invalid u128 at line 1, column 1)\n\"0x_1\" legacy=false: i32=1 u8=1 i128=1 u128=1\n\"0x_1\" legacy=true: i32=1 u8=1 i128=1 u128=1\n\"00é\" legacy=false: i32=E(invalid i32 at line 1, column 1) u8=E(invalid u8 at line 1, column 1) i128=E(invalid i128 at line 1, column 1) u128=E(invalid u128 at line 1, column 1)\n\"00é\" legacy=true: i32=E(invalid i32 at line 1, column 1) u8=E(invalid u8 at line 1, column 1) i128=E(invalid i128 at line 1, column 1) u128=E(invalid u128 at line 1, column 1)\n\"0\" legacy=false: i32=0 u8=0 i128=0 u128=0\n\"0\" legacy=true: i32=0 u8=0 i128=0 u128=0\n\"-0\" legacy=false: i32=0 u8=E(invalid u8 at line 1, column 1) i128=0 u128=E(invalid u128 at line 1, column 1)\n\"-0\" legacy=true: i32=0 u8=E(invalid u8 at line 1, column 1) i128=0 u128=E(invalid u128 at line 1, column 1)\n\"+\" legacy=false: i32=E(invalid i32 at line 1, column 1) u8=E(invalid u8 at line 1, column 1) i128=E(invalid i128 at line 1, column 1) u128=E(invalid u128 at line 1, column 1)\n\"+\" legacy=true: i32=E(invalid i32 at line 1, column 1) u8=E(invalid u8 at line 1, column 1) i128=E(invalid i128 at line 1, column 1) u128=E(invalid u128 at line 1, column 1)\n\"-\" legacy=false: i32=E(unexpected event: expected string scalar at line 1, column 1) u8=E(unexpected event: expected string scalar at line 1, column 1) i128=E(unexpected event: expected string scalar at line 1, column 1) u128=E(unexpected event: expected string scalar at line 1, column 1)\n\"-\" legacy=true: i32=E(unexpected event: expected string scalar at line 1, column 1) u8=E(unexpected event: expected string scalar at line 1, column 1) i128=E(unexpected event: expected string scalar at line 1, column 1) u128=E(unexpected event: expected string scalar at line 1, column 1)\n\"0x7FFFFFFF\" legacy=false: i32=2147483647 u8=E(invalid u8 at line 1, column 1) i128=2147483647 u128=2147483647\n\"0x7FFFFFFF\" legacy=true: i32=2147483647 u8=E(invalid u8 at line 1, column 1) i128=2147483647 u128=2147483647\n\"0x80000000\" legacy=false: i32=E(invalid i32 at line 1, column 1) u8=E(invalid u8 at line 1, column 1) i128=2147483648 u128=2147483648\n\"0x80000000\" legacy=true: i32=E(invalid i32 at line 1, column 1) u8=E(invalid u8 at line 1, column 1) i128=2147483648 u128=2147483648\n\"-0x80000001\" legacy=false: i32=E(invalid i32 at line 1, column 1) u8=E(invalid u8 at line 1, column 1) i128=-2147483649 u128=E(invalid u128 at line 1, column 1)\n\"-0x80000001\" legacy=true: i32=E(invalid i32 at line 1, column 1) u8=E(invalid u8 at line 1, column 1) i128=-2147483649 u128=E(invalid u128 at line 1, column 1)\n\"0o777\" legacy=false: i32=511 u8=E(invalid u8 at line 1, column 1) i128=511 u128=511\n\"0o777\" legacy=true: i32=511 u8=E(invalid u8 at line 1, column 1) i128=511 u128=511\n\"0b11111111\" legacy=false: i32=255 u8=255 i128=255 u128=255\n\"0b11111111\" legacy=true: i32=255 u8=255 i128=255 u128=255\n\"0b100000000\" legacy=false: i32=256 u8=E(invalid u8 at line 1, column 1) i128=256 u128=256\n\"0b100000000\" legacy=true: i32=256 u8=E(invalid u8 at line 1, column 1) i128=256 u128=256\n\"00377\" legacy=false: i32=377 u8=E(invalid u8 at line 1, column 1) i128=377 u128=377\n\"00377\" legacy=true: i32=255 u8=255 i128=255 u128=255\n\"00400\" legacy=false: i32=400 u8=E(invalid u8 at line 1, column 1) i128=400 u128=400\n\"00400\" legacy=true: i32=256 u8=E(invalid u8 at line 1, column 1) i128=256 u128=256\n\" 0x10 \" legacy=false: i32=16 u8=16 i128=16 u128=16\n\" 0x10 \" legacy=true: i32=16 u8=16 i128=16 u128=16\n\"0xffffffffffffffffffffffffffffffff\" legacy=false: i32=E(invalid i32 at line 1, column 1) u8=E(invalid u8 at line 1, column 1) i128=E(invalid i128 at line 1, column 1) u128=340282366920938463463374607431768211455\n\"0xffffffffffffffffffffffffffffffff\" legacy=true: i32=E(invalid i32 at line 1, column 1) u8=E(invalid u8 at line 1, column 1) i128=E(invalid i128 at line 1, column 1) u128=340282366920938463463374607431768211455\n\"-0x80000000000000000000000000000000\" legacy=false: i32=E(invalid i32 at line 1, column 1) u8=E(invalid u8 at line 1, column 1) i128=-170141183460469231731687303715884105728 u128=E(invalid u128 at line 1, column 1)\n\"-0x80000000000000000000000000000000\" legacy=true: i32=E(invalid i32 at line 1, column 1) u8=E(invalid u8 at line 1, column 1) i128=-170141183460469231731687303715884105728 u128=E(invalid u128 at line 1, column 1)\n\"0x100000000000000000000000000000000\" legacy=false: i32=E(invalid i32 at line 1, column 1) u8=E(invalid u8 at line 1, column 1) i128=E(invalid i128 at line 1, column 1) u128=E(invalid u128 at line 1, column 1)\n\"0x100000000000000000000000000000000\" legacy=true: i32=E(invalid i32 at line 1, column 1) u8=E(invalid u8 at line 1, column 1) i128=E(invalid i128 at line 1, column 1) u128=E(invalid u128 at line 1, column 1)\n\"00_\" legacy=false: i32=0 u8=0 i128=0 u128=0\n\"00_\" legacy=true: i32=E(invalid i32 at line 1, column 1) u8=E(invalid u8 at line 1, column 1) i128=E(invalid i128 at line 1, column 1) u128=E(invalid u128 at line 1, column 1)\n\"0O\" legacy=false: i32=E(invalid i32 at line 1, column 1) u8=E(invalid u8 at line 1, column 1) i128=E(invalid i128 at line 1, column 1) u128=E(invalid u128 at line 1, column 1)\n\"0O\" legacy=true: i32=E(invalid i32 at line 1, column 1) u8=E(invalid u8 at line 1, column 1) i128=E(invalid i128 at line 1, column 1) u128=E(invalid u128 at line 1, column 1)\n\"0B_\" legacy=false: i32=E(invalid i32 at line 1, column 1) u8=E(invalid u8 at line 1, column 1) i128=E(invalid i128 at line 1, column 1) u128=E(invalid u128 at line 1, column 1)\n\"0B_\" legacy=true: i32=E(invalid i32 at line 1, column 1) u8=E(invalid u8 at line 1, column 1) i128=E(invalid i128 at line 1, column 1) u128=E(invalid u128 at line 1, column 1)\n\"١٢\" legacy=false: i32=E(invalid i32 at line 1, column 1) u8=E(invalid u8 at line 1, column 1) i128=E(invalid i128 at line 1, column 1) u128=E(invalid u128 at line 1, column 1)\n\"١٢\" legacy=true: i32=E(invalid i32 at line 1, column 1) u8=E(invalid u8 at line 1, column 1) i128=E(invalid i128 at line 1, column 1) u128=E(invalid u128 at line 1, column 1)\n"),
];

#[cfg(feature = "garde")]
#[rustfmt::skip]
const EXPECTED_GARDE: &[(&str, &str)] = &[
    ("garde_str", "ERR location=Some(Location { line: 13, column: 8, span: Span { offset: 87, len: 2, byte_info: (87, 2) } })\nplain=validation error at alias: length is lower than 3 at line 13, column 8\nvalidation error at name: length is lower than 3 at line 1, column 10\nvalidation error at port: lower than 10 at line 14, column 7\nsnippet crop_radius=64 regions=4\nregion 11..=15 <<  - 1\n  - 1\nalias: *n\nport: 5\n>>\nregion 1..=4 <<name: &n ab\nfiller:\n  - 1\n>>\nregion 1..=4 <<name: &n ab\nfiller:\n  - 1\n>>\nregion 12..=15 <<  - 1\nalias: *n\nport: 5\n>>\nrendered=\nerror: line 13 column 8: invalid here, validation error: length is lower than 3 for `alias`\n  --> the value is used here:13:8\n   |\n11 |   - 1\n12 |   - 1\n13 | alias: *n\n   |        ^ invalid here, validation error: length is lower than 3 for `alias`\n14 | port: 5\n   |\n  | This value comes indirectly from the anchor at line 1 column 10:\n  |\n1 | name: &n ab\n  |          ^ defined here\n2 | filler:\n3 |   - 1\n  |\n\nerror: line 1 column 10: validation error: length is lower than 3 for `name`\n --> (defined):1:10\n  |\n1 | name: &n ab\n  |          ^ validation error: length is lower than 3 for `name`\n2 | filler:\n3 |   - 1\n  |\nerror: line 14 column 7: validation error: lower than 10 for `port`\n  --> (defined):14:7\n   |\n12 |   - 1\n13 | alias: *n\n14 | port: 5\n   |       ^ validation error: lower than 10 for `port`"),
    ("garde_str_radius_2", "ERR location=Some(Location { line: 13, column: 8, span: Span { offset: 87, len: 2, byte_info: (87, 2) } })\nplain=validation error at alias: length is lower than 3 at line 13, column 8\nvalidation error at name: length is lower than 3 at line 1, column 10\nvalidation error at port: lower than 10 at line 14, column 7\nsnippet crop_radius=2 regions=4\nregion 11..=15 <<  - 1\n  - 1\nalias: *n\nport: 5\n>>\nregion 1..=4 <<name: &n ab\nfiller:\n  - 1\n>>\nregion 1..=4 <<name: &n ab\nfiller:\n  - 1\n>>\nregion 12..=15 <<  - 1\nalias: *n\nport: 5\n>>\nrendered=\nerror: line 13 column 8: invalid here, validation error: length is lower than 3 for `alias`\n  --> the value is used here:13:4\n   |\n11 |   - 1\n12 |   - 1\n13 | …: *n\n   |    ^ invalid here, validation error: length is lower than 3 for `alias`\n14 | … 5\n   |\n  | This value comes indirectly from the anchor at line 1 column 10:\n  |\n1 | …n ab\n  |    ^ defined here\n2 | filler:\n3 |   - 1\n  |\n\nerror: line 1 column 10: validation error: length is lower than 3 for `name`\n --> (defined):1:4\n  |\n1 | …n ab\n  |    ^ validation error: length is lower than 3 for `name`\n2 | filler:\n3 |   - 1\n  |\nerror: line 14 column 7: validation error: lower than 10 for `port`\n  --> (defined):14:4\n   |\n12 | …1\n13 | …s: *n\n14 | …: 5\n   |    ^ validation error: lower than 10 for `port`"),
    ("garde_reader", "ERR location=Some(Location { line: 13, column: 8, span: Span { offset: 87, len: 2, byte_info: (0, 0) } })\nplain=validation error at alias: length is lower than 3 at line 13, column 8\nvalidation error at name: length is lower than 3 at line 1, column 10\nvalidation error at port: lower than 10 at line 14, column 7\nno snippet wrapper\nrendered=\nvalidation error at alias: length is lower than 3 at line 13, column 8\nvalidation error at name: length is lower than 3 at line 1, column 10\nvalidation error at port: lower than 10 at line 14, column 7"),
];

#[cfg(feature = "validator")]
#[rustfmt::skip]
const EXPECTED_VALIDATOR: &[(&str, &str)] = &[
    ("validator_str", "ERR location=Some(Location { line: 13, column: 8, span: Span { offset: 87, len: 2, byte_info: (87, 2) } })\nplain=validation error at alias: length (min=3, value=\"ab\") at line 13, column 8\nvalidation error at name: length (min=3, value=\"ab\") at line 1, column 10\nvalidation error at port: range (min=10, value=5) at line 14, column 7\nsnippet crop_radius=64 regions=4\nregion 11..=15 <<  - 1\n  - 1\nalias: *n\nport: 5\n>>\nregion 1..=4 <<name: &n ab\nfiller:\n  - 1\n>>\nregion 1..=4 <<name: &n ab\nfiller:\n  - 1\n>>\nregion 12..=15 <<  - 1\nalias: *n\nport: 5\n>>\nrendered=\nerror: line 13 column 8: invalid here, validation error: length (min=3, value=\"ab\") for `alias`\n  --> the value is used here:13:8\n   |\n11 |   - 1\n12 |   - 1\n13 | alias: *n\n   |        ^ invalid here, validation error: length (min=3, value=\"ab\") for `alias`\n14 | port: 5\n   |\n  | This value comes indirectly from the anchor at line 1 column 10:\n  |\n1 | name: &n ab\n  |          ^ defined here\n2 | filler:\n3 |   - 1\n  |\n\nerror: line 1 column 10: validation error: length (min=3, value=\"ab\") for `name`\n --> (defined):1:10\n  |\n1 | name: &n ab\n  |          ^ validation error: length (min=3, value=\"ab\") for `name`\n2 | filler:\n3 |   - 1\n  |\nerror: line 14 column 7: validation error: range (min=10, value=5) for `port`\n  --> (defined):14:7\n   |\n12 |   - 1\n13 | alias: *n\n14 | port: 5\n   |       ^ validation error: range (min=10, value=5) for `port`"),
    ("validator_str_radius_2", "ERR location=Some(Location { line: 13, column: 8, span: Span { offset: 87, len: 2, byte_info: (87, 2) } })\nplain=validation error at alias: length (min=3, value=\"ab\") at line 13, column 8\nvalidation error at name: length (min=3, value=\"ab\") at line 1, column 10\nvalidation error at port: range (min=10, value=5) at line 14, column 7\nsnippet crop_radius=2 regions=4\nregion 11..=15 <<  - 1\n  - 1\nalias: *n\nport: 5\n>>\nregion 1..=4 <<name: &n ab\nfiller:\n  - 1\n>>\nregion 1..=4 <<name: &n ab\nfiller:\n  - 1\n>>\nregion 12..=15 <<  - 1\nalias: *n\nport: 5\n>>\nrendered=\nerror: line 13 column 8: invalid here, validation error: length (min=3, value=\"ab\") for `alias`\n  --> the value is used here:13:4\n   |\n11 |   - 1\n12 |   - 1\n13 | …: *n\n   |    ^ invalid here, validation error: length (min=3, value=\"ab\") for `alias`\n14 | … 5\n   |\n  | This value comes indirectly from the anchor at line 1 column 10:\n  |\n1 | …n ab\n  |    ^ defined here\n2 | filler:\n3 |   - 1\n  |\n\nerror: line 1 column 10: validation error: length (min=3, value=\"ab\") for `name`\n --> (defined):1:4\n  |\n1 | …n ab\n  |    ^ validation error: length (min=3, value=\"ab\") for `name`\n2 | filler:\n3 |   - 1\n  |\nerror: line 14 column 7: validation error: range (min=10, value=5) for `port`\n  --> (defined):14:4\n   |\n12 | …1\n13 | …s: *n\n14 | …: 5\n   |    ^ validation error: range (min=10, value=5) for `port`"),
    ("validator_reader", "ERR location=Some(Location { line: 13, column: 8, span: Span { offset: 87, len: 2, byte_info: (0, 0) } })\nplain=validation error at alias: length (min=3, value=\"ab\") at line 13, column 8\nvalidation error at name: length (min=3, value=\"ab\") at line 1, column 10\nvalidation error at port: range (min=10, value=5) at line 14, column 7\nno snippet wrapper\nrendered=\nvalidation error at alias: length (min=3, value=\"ab\") at line 13, column 8\nvalidation error at name: length (min=3, value=\"ab\") at line 1, column 10\nvalidation error at port: range (min=10, value=5) at line 14, column 7"),
];
