//! Differential test for the C12 control refactoring (scalar quoting / escaping / block
//! scalars / float text / bytes).
//!
//! The test builds a transcript (one line per case: context, options, input, emitted text and
//! what the text reads back as) and compares it with `EXPECTED`, which was generated on the
//! UNMODIFIED tree.  Run with `DEMO_PRINT=1` to print the transcript instead of comparing.

use std::collections::BTreeMap;
use std::fmt::Debug;

use serde::de::DeserializeOwned;
use serde::ser::SerializeMap;
use serde::{Deserialize, Serialize, Serializer};
use serde_saphyr::{FlowMap, FlowSeq, FoldStr, FoldString, LitStr, LitString, SerializerOptions};

/// A mapping with arbitrary (also non-`Ord`) keys, serialized in insertion order.
struct Pairs<K, V>(Vec<(K, V)>);

impl<K: Serialize, V: Serialize> Serialize for Pairs<K, V> {
    fn serialize<S: Serializer>(&self, serializer: S) -> Result<S::Ok, S::Error> {
        let mut map = serializer.serialize_map(Some(self.0.len()))?;
        for (k, v) in &self.0 {
            map.serialize_entry(k, v)?;
        }
        map.end()
    }
}

#[derive(Debug, Serialize, Deserialize, PartialEq, Clone)]
enum Payload {
    Text(String),
    Num(f64),
    Pair(String, i64),
    Rec { s: String, c: char },
    Unit,
}

#[derive(Debug, Serialize, Deserialize, PartialEq)]
struct Blob {
    #[serde(with = "serde_bytes")]
    data: Vec<u8>,
    tail: String,
}

#[derive(Debug, Serialize, Deserialize, PartialEq)]
struct Doc {
    s: String,
    list: Vec<String>,
    opt: Option<String>,
    unit: (),
}

fn option_sets() -> Vec<(&'static str, SerializerOptions)> {
    vec![
        ("default", SerializerOptions::default()),
        ("quote_all", serde_saphyr::ser_options! { quote_all: true }),
        ("yaml12", serde_saphyr::ser_options! { yaml_12: true }),
        (
            "noblock",
            serde_saphyr::ser_options! { prefer_block_scalars: false },
        ),
        ("indent4", serde_saphyr::ser_options! { indent_step: 4 }),
        (
            "wrap12",
            serde_saphyr::ser_options! { folded_wrap_chars: 12, min_fold_chars: 4 },
        ),
        (
            "indent3compact",
            serde_saphyr::ser_options! { indent_step: 3, compact_list_indent: true },
        ),
    ]
}

fn emit<T: Serialize>(value: &T, opts: SerializerOptions) -> Result<String, String> {
    serde_saphyr::to_string_with_options(value, opts).map_err(|e| format!("{e}"))
}

fn back<T: DeserializeOwned + Debug>(text: &Result<String, String>) -> String {
    match text {
        Ok(t) => match serde_saphyr::from_str::<T>(t) {
            Ok(v) => format!("{v:?}"),
            Err(e) => format!("DE-ERR {:?}", format!("{e}")),
        },
        Err(_) => "-".to_string(),
    }
}

fn case<T: Serialize + DeserializeOwned + Debug>(
    out: &mut Vec<String>,
    ctx: &str,
    opt_name: &str,
    opts: SerializerOptions,
    value: &T,
) {
    let text = emit(value, opts);
    let rt = back::<T>(&text);
    let same = rt == format!("{value:?}");
    out.push(format!(
        "{ctx} [{opt_name}] {value:?} => {text:?} <= {}",
        if same { "SAME".to_string() } else { rt }
    ));
}

fn strings() -> Vec<String> {
    let mut v: Vec<String> = [
        "",
        "~",
        "null",
        "NULL",
        "Null",
        "true",
        "False",
        "TRUE",
        "yes",
        "y",
        "No",
        "on",
        "OFF",
        "<<",
        "---",
        "--- a",
        "---a",
        "...",
        "... x",
        ".nan",
        ".NaN",
        "-.INF",
        "+.inf",
        ".inf",
        "+-.inf",
        ".infx",
        "nan",
        "NaN",
        "+inf",
        "-Infinity",
        "infinity",
        "0x1F",
        "-0x1f",
        "0o17",
        "0b101",
        "0b102",
        "1_000",
        "1e9",
        "1E+9",
        "1.",
        ".5",
        "+1.5e-3",
        "1.5e",
        "12345678901234567890123456789",
        "-",
        "?",
        "+",
        ".",
        "#",
        "- a",
        "-a",
        "-\ta",
        "?x",
        "? x",
        ",a",
        ":a",
        "[a",
        "]a",
        "{a",
        "}a",
        "%a",
        "@a",
        "`a",
        "!a",
        "&a",
        "*a",
        "|a",
        ">a",
        "'a",
        "\"a",
        "a: b",
        "a:b",
        "a:",
        "a: ",
        "a #b",
        "a#b",
        "a,b",
        "a]b",
        "a{b}",
        " lead",
        "trail ",
        "\u{a0}nbsp",
        "em\u{2003}",
        "\u{FEFF}bom",
        "mid\u{FEFF}bom",
        "tab\there",
        "new\nline",
        "line\n",
        "line\n\n",
        "\n",
        "\n\n",
        "\n\n\n",
        "\nlead",
        "a\n\n\nb\n\n\n",
        "  indented\nline",
        "\n  indented after blank\n",
        "a\n  b\n",
        "key: v\nnext",
        "ends with colon:\nx:",
        "# not comment\nline",
        "trailing space \nline",
        "cr\rhere",
        "crlf\r\nhere",
        "\0",
        "\u{7}",
        "\u{8}",
        "\u{b}",
        "\u{c}",
        "\u{1b}",
        "\u{1}",
        "\u{1f}",
        "\u{7f}",
        "\u{80}",
        "\u{85}",
        "\u{9f}",
        "\u{2028}",
        "\u{2029}",
        "a\u{2028}b",
        "it's",
        "'",
        "''",
        "say \"hi\"",
        "back\\slash",
        "\\",
        "é",
        "日本語",
        "😀",
        "1.0.0",
        "12:30",
        "2001-12-14",
        "a b",
    ]
    .iter()
    .map(|s| s.to_string())
    .collect();
    // Long single-line strings (auto-folding candidates).
    v.push("word ".repeat(30).trim_end().to_string());
    v.push("word ".repeat(30));
    v.push(format!("{}\n", "word ".repeat(30).trim_end()));
    v.push(format!("{}\n\n", "word ".repeat(30).trim_end()));
    v.push("x".repeat(120));
    v.push(format!("{}   {}  {}", "a".repeat(50), "b".repeat(50), "c".repeat(50)));
    v.push(format!("{}\t{}\t{}", "a".repeat(50), "b".repeat(50), "c".repeat(50)));
    v.push(format!("{} # {}", "a".repeat(50), "b".repeat(50)));
    v.push(format!("{}: {}", "a".repeat(50), "b".repeat(50)));
    v.push(format!("- {}", "lorem ipsum ".repeat(10)));
    v.push("日本語 テキスト ".repeat(15));
    v.push(format!("{}\u{85}{}", "ab ".repeat(20), "cd ".repeat(20)));
    v.push(format!("{}\r{}", "ab ".repeat(20), "cd ".repeat(20)));
    // Long multi-line strings (auto-literal candidates).
    v.push(format!("{}\n{}", "lorem ipsum ".repeat(6), "dolor sit ".repeat(6)));
    v.push(format!("  {}\n{}\n\n", "lorem ipsum ".repeat(6), "dolor: sit ".repeat(6)));
    v.push(format!("{}:\n{}:", "lorem ipsum ".repeat(6), "dolor sit ".repeat(6)));
    v
}

fn transcript() -> Vec<String> {
    let mut out = Vec::new();
    let all = strings();

    // 1. Every string at the document root, as a sequence item, as a mapping value, as a
    //    mapping key, inside flow collections and as an enum payload, under every option set.
    for (opt_name, opts) in option_sets() {
        for s in &all {
            case(&mut out, "root", opt_name, opts, s);
        }
        case(&mut out, "seq", opt_name, opts, &all);
        for chunk in all.chunks(16) {
            let as_values: BTreeMap<String, String> = chunk
                .iter()
                .enumerate()
                .map(|(i, s)| (format!("k{i:02}"), s.clone()))
                .collect();
            case(&mut out, "mapval", opt_name, opts, &as_values);
            let as_keys: BTreeMap<String, u8> = chunk
                .iter()
                .enumerate()
                .map(|(i, s)| (s.clone(), i as u8))
                .collect();
            case(&mut out, "mapkey", opt_name, opts, &as_keys);
            let nested: BTreeMap<String, Vec<BTreeMap<String, String>>> = [(
                "outer".to_string(),
                vec![as_values.clone(), as_values.clone()],
            )]
            .into_iter()
            .collect();
            case(&mut out, "nested", opt_name, opts, &nested);
        }
        // Flow collections are written through the wrappers and read back as plain ones.
        for chunk in all.chunks(16) {
            let text = emit(&FlowSeq(chunk.to_vec()), opts);
            let rt = back::<Vec<String>>(&text);
            let same = rt == format!("{:?}", chunk.to_vec());
            out.push(format!(
                "flowseq [{opt_name}] => {text:?} <= {}",
                if same { "SAME".to_string() } else { rt }
            ));
            let m: BTreeMap<String, String> =
                chunk.iter().map(|s| (s.clone(), s.clone())).collect();
            let text = emit(&FlowMap(m.clone()), opts);
            let rt = back::<BTreeMap<String, String>>(&text);
            let same = rt == format!("{m:?}");
            out.push(format!(
                "flowmap [{opt_name}] => {text:?} <= {}",
                if same { "SAME".to_string() } else { rt }
            ));
        }
        for s in all.iter().step_by(3) {
            case(&mut out, "enum", opt_name, opts, &Payload::Text(s.clone()));
            case(&mut out, "enum", opt_name, opts, &vec![Payload::Pair(s.clone(), -1)]);
            case(
                &mut out,
                "enum",
                opt_name,
                opts,
                &Payload::Rec {
                    s: s.clone(),
                    c: s.chars().next().unwrap_or('x'),
                },
            );
        }
        let doc = Doc {
            s: "line one\nline two\n".to_string(),
            list: vec!["  lead\nx".to_string(), "\n".to_string(), "~".to_string()],
            opt: None,
            unit: (),
        };
        case(&mut out, "doc", opt_name, opts, &doc);
    }

    // 2. Explicit block scalar wrappers.
    let wrapped = [
        "",
        "short",
        "\n",
        "\n\n",
        "a\n",
        "a\n\n",
        "a\n\n\n",
        "a\nb",
        "  lead\nrest\n",
        "\n  lead after blank",
        "cr\rinside\n",
        "tab\tinside\nmore\n",
        "bell\u{7}\n",
        "nel\u{85}inside the long enough text to be folded by the wrapper type\n",
        "a long enough text that the folded wrapper will really fold it at a space",
        "a long enough text   with runs  of spaces that the folded wrapper will fold",
        " leading space and a long enough text that the folded wrapper will fold it",
        "para one is long enough to be folded somewhere\n\npara two\n  more indented\n",
        "trailing spaces are kept by the folded style                                   ",
        "- looks like a list\n- item\n",
        "# looks like a comment\n",
        "key: value\n",
    ];
    for (opt_name, opts) in option_sets() {
        for w in wrapped {
            let text = emit(&LitStr(w), opts);
            out.push(format!(
                "lit [{opt_name}] {w:?} => {text:?} <= {}",
                back::<String>(&text)
            ));
            let text = emit(&FoldStr(w), opts);
            out.push(format!(
                "fold [{opt_name}] {w:?} => {text:?} <= {}",
                back::<String>(&text)
            ));
            let m = Pairs(vec![("lit", LitString(w.to_string()))]);
            let text = emit(&m, opts);
            out.push(format!(
                "litval [{opt_name}] {w:?} => {text:?} <= {}",
                back::<BTreeMap<String, String>>(&text)
            ));
            let l = vec![Pairs(vec![("fold", FoldString(w.to_string()))])];
            let text = emit(&l, opts);
            out.push(format!(
                "foldinseq [{opt_name}] {w:?} => {text:?} <= {}",
                back::<Vec<BTreeMap<String, String>>>(&text)
            ));
            let f = FlowSeq(vec![LitStr(w)]);
            let text = emit(&f, opts);
            out.push(format!(
                "litinflow [{opt_name}] {w:?} => {text:?} <= {}",
                back::<Vec<String>>(&text)
            ));
            let s = vec![vec![LitStr(w)], vec![LitStr(w)]];
            let text = emit(&s, opts);
            out.push(format!(
                "litinseqseq [{opt_name}] {w:?} => {text:?} <= {}",
                back::<Vec<Vec<String>>>(&text)
            ));
        }
    }

    // 3. Floats (bit-for-bit), integers, booleans, chars, unit / None.
    let f64s = [
        0.0f64,
        -0.0,
        1.0,
        -1.5,
        0.1,
        1e15,
        1e16,
        1e21,
        1e22,
        1e-5,
        1e-7,
        4e-6,
        1.5e300,
        -2.5e-300,
        123456789.125,
        f64::MIN_POSITIVE,
        5e-324,
        f64::MAX,
        f64::MIN,
        f64::EPSILON,
        f64::NAN,
        f64::INFINITY,
        f64::NEG_INFINITY,
    ];
    let f32s = [
        0.0f32,
        -0.0,
        1.0,
        0.1,
        1e10,
        1e-10,
        3.4e38,
        1e-45,
        16777216.0,
        f32::MAX,
        f32::MIN_POSITIVE,
        f32::NAN,
        f32::INFINITY,
        f32::NEG_INFINITY,
    ];
    for (opt_name, opts) in option_sets().into_iter().take(3) {
        for f in f64s {
            let text = emit(&f, opts);
            let bits = match &text {
                Ok(t) => match serde_saphyr::from_str::<f64>(t) {
                    Ok(b) if b.to_bits() == f.to_bits() || (b.is_nan() && f.is_nan()) => {
                        "SAME".to_string()
                    }
                    Ok(b) => format!("DIFF {b:?}"),
                    Err(e) => format!("DE-ERR {:?}", format!("{e}")),
                },
                Err(_) => "-".to_string(),
            };
            out.push(format!("f64 [{opt_name}] {f:?} => {text:?} <= {bits}"));
        }
        for f in f32s {
            let text = emit(&f, opts);
            let bits = match &text {
                Ok(t) => match serde_saphyr::from_str::<f32>(t) {
                    Ok(b) if b.to_bits() == f.to_bits() || (b.is_nan() && f.is_nan()) => {
                        "SAME".to_string()
                    }
                    Ok(b) => format!("DIFF {b:?}"),
                    Err(e) => format!("DE-ERR {:?}", format!("{e}")),
                },
                Err(_) => "-".to_string(),
            };
            out.push(format!("f32 [{opt_name}] {f:?} => {text:?} <= {bits}"));
        }
        // Floats in sequence, mapping value, mapping key, flow and enum payload position.
        let text = emit(&f64s.to_vec(), opts);
        out.push(format!("f64seq [{opt_name}] => {text:?}"));
        let text = emit(&FlowSeq(f32s.to_vec()), opts);
        out.push(format!("f32flow [{opt_name}] => {text:?}"));
        let text = emit(&Pairs(f64s.iter().map(|f| (*f, *f)).collect()), opts);
        out.push(format!("f64keys [{opt_name}] => {text:?}"));
        let text = emit(&Pairs(f32s.iter().map(|f| (*f, *f)).collect()), opts);
        out.push(format!("f32keys [{opt_name}] => {text:?}"));
        for f in [1e21, 4e-6, -0.0, f64::NAN, f64::NEG_INFINITY, 2.0] {
            let text = emit(&Payload::Num(f), opts);
            out.push(format!(
                "f64enum [{opt_name}] {f:?} => {text:?} <= {}",
                back::<Payload>(&text)
            ));
        }

        case(&mut out, "int", opt_name, opts, &i8::MIN);
        case(&mut out, "int", opt_name, opts, &i16::MIN);
        case(&mut out, "int", opt_name, opts, &i32::MIN);
        case(&mut out, "int", opt_name, opts, &i64::MIN);
        case(&mut out, "int", opt_name, opts, &i128::MIN);
        case(&mut out, "int", opt_name, opts, &u8::MAX);
        case(&mut out, "int", opt_name, opts, &u16::MAX);
        case(&mut out, "int", opt_name, opts, &u32::MAX);
        case(&mut out, "int", opt_name, opts, &u64::MAX);
        case(&mut out, "int", opt_name, opts, &u128::MAX);
        case(&mut out, "int", opt_name, opts, &vec![0i64, -1, 1, i64::MAX]);
        let int_keys: BTreeMap<i128, u128> =
            [(i128::MIN, u128::MAX), (0, 0), (i128::MAX, 1)].into_iter().collect();
        case(&mut out, "intkeys", opt_name, opts, &int_keys);
        let bool_keys: BTreeMap<bool, bool> = [(true, false), (false, true)].into_iter().collect();
        case(&mut out, "boolkeys", opt_name, opts, &bool_keys);
        case(&mut out, "bool", opt_name, opts, &true);
        case(&mut out, "bool", opt_name, opts, &vec![false, true]);
        case(&mut out, "unit", opt_name, opts, &());
        case(&mut out, "none", opt_name, opts, &None::<String>);
        case(&mut out, "some", opt_name, opts, &Some("~".to_string()));
        case(&mut out, "some", opt_name, opts, &vec![Some(1.5f64), None]);
        case(&mut out, "unitenum", opt_name, opts, &Payload::Unit);
        case(&mut out, "unitenum", opt_name, opts, &vec![Payload::Unit]);
        let chars = [
            'a', 'y', 'N', '~', '-', '#', '.', '?', ':', ',', ' ', '\t', '\n', '\r', '\'', '"', '\\',
            '\0', '\u{7f}', '\u{85}', '\u{a0}', '\u{2028}', '\u{feff}', '0', '9', 'é', '😀',
        ];
        for c in chars {
            case(&mut out, "char", opt_name, opts, &c);
        }
        case(&mut out, "charseq", opt_name, opts, &chars.to_vec());
        let char_keys: BTreeMap<char, char> = chars.iter().map(|c| (*c, *c)).collect();
        case(&mut out, "charkeys", opt_name, opts, &char_keys);
    }

    // 4. Byte arrays.
    for (opt_name, opts) in option_sets() {
        for data in [
            vec![],
            vec![0u8],
            vec![0u8, 1, 2, 253, 254, 255],
            b"hello world, this is binary".to_vec(),
            (0u8..=255).collect::<Vec<u8>>(),
        ] {
            let root = serde_bytes::ByteBuf::from(data.clone());
            let text = emit(&root, opts);
            out.push(format!(
                "bytesroot [{opt_name}] {} => {text:?} <= {}",
                data.len(),
                if back::<Vec<u8>>(&text) == format!("{data:?}") {
                    "SAME".to_string()
                } else {
                    back::<Vec<u8>>(&text)
                }
            ));
            let blob = Blob {
                data: data.clone(),
                tail: "t".to_string(),
            };
            case(&mut out, "bytesval", opt_name, opts, &blob);
            let text = emit(&vec![root.clone(), root.clone()], opts);
            out.push(format!("bytesseq [{opt_name}] {} => {text:?}", data.len()));
            let text = emit(&FlowSeq(vec![root.clone()]), opts);
            out.push(format!("bytesflow [{opt_name}] {} => {text:?}", data.len()));
            let text = emit(&Pairs(vec![(root.clone(), 1u8)]), opts);
            out.push(format!("byteskey [{opt_name}] {} => {text:?}", data.len()));
            let text = emit(&Pairs(vec![("k", vec![Pairs(vec![("b", root)])])]), opts);
            out.push(format!("bytesnested [{opt_name}] {} => {text:?}", data.len()));
        }
    }

    // 5. Errors: texts and locations.
    let mut bad_opts = SerializerOptions::default();
    bad_opts.indent_step = 0;
    out.push(format!("err indent0 => {:?}", emit(&"x", bad_opts)));
    out.push(format!(
        "err seqkey => {:?}",
        emit(&Pairs(vec![(vec![1u8], 1u8)]), SerializerOptions::default())
    ));
    for text in ["\"123\"", "'1.5'\n", "k: \"~\"\n", "- \"true\"\n- x\n", "\"\\x41\\q\"", ".nan"] {
        out.push(format!(
            "de-i32 {text:?} => {:?}",
            serde_saphyr::from_str::<i32>(text).map_err(|e| format!("{e}"))
        ));
        out.push(format!(
            "de-vecbool {text:?} => {:?}",
            serde_saphyr::from_str::<Vec<bool>>(text).map_err(|e| format!("{e}"))
        ));
        out.push(format!(
            "de-string {text:?} => {:?}",
            serde_saphyr::from_str::<String>(text).map_err(|e| format!("{e}"))
        ));
    }

    // 6. A writer that records every call: the call sequence is part of the behaviour.
    struct Calls(Vec<String>);
    impl std::fmt::Write for Calls {
        fn write_str(&mut self, s: &str) -> std::fmt::Result {
            self.0.push(s.to_string());
            Ok(())
        }
    }
    for (opt_name, opts) in option_sets() {
        let value = Pairs(vec![
            ("lit", "a\n\nb\n\n\n".to_string()),
            ("fold", format!("{}   {}", "word ".repeat(20), "tail ".repeat(5))),
            ("esc", "q\"\\\u{7}\u{85}\u{9f}\u{feff}'".to_string()),
            ("nl", "\n".to_string()),
            ("f", "1e5".to_string()),
        ]);
        let mut calls = Calls(Vec::new());
        let res = serde_saphyr::to_fmt_writer_with_options(&mut calls, &value, opts)
            .map_err(|e| format!("{e}"));
        out.push(format!("calls [{opt_name}] {res:?} {:?}", calls.0));
        let mut calls = Calls(Vec::new());
        let res = serde_saphyr::to_fmt_writer_with_options(
            &mut calls,
            &vec![1.5f64, 1e300, f64::NAN, -0.0],
            opts,
        )
        .map_err(|e| format!("{e}"));
        out.push(format!("fcalls [{opt_name}] {res:?} {:?}", calls.0));
    }

    // 7. A writer that fails after N bytes: same error text wherever the failure hits.
    struct Failing(usize);
    impl std::fmt::Write for Failing {
        fn write_str(&mut self, s: &str) -> std::fmt::Result {
            if s.len() > self.0 {
                return Err(std::fmt::Error);
            }
            self.0 -= s.len();
            Ok(())
        }
    }
    let value = Pairs(vec![
        ("lit", "  a\n\nb\n\n\n".to_string()),
        ("fold", "word ".repeat(30)),
        ("esc", "q\"\\\u{7}".to_string()),
    ]);
    let mut failures = Vec::new();
    for budget in 0..260 {
        let mut w = Failing(budget);
        let res = serde_saphyr::to_fmt_writer(&mut w, &value).map_err(|e| format!("{e}"));
        failures.push(match res {
            Ok(()) => "ok".to_string(),
            Err(e) => e,
        });
    }
    failures.dedup();
    out.push(format!("failing writer => {failures:?}"));

    out
}

#[test]
fn c12_scalars_differential() {
    let got = transcript();
    if std::env::var("DEMO_PRINT").is_ok() {
        for line in &got {
            println!("@@{line}");
        }
        return;
    }
    let expected: Vec<&str> = EXPECTED.lines().collect();
    assert!(got.len() >= 30);
    for (i, (g, e)) in got.iter().zip(expected.iter()).enumerate() {
        assert_eq!(g, e, "transcript line {i} differs");
    }
    assert_eq!(got.len(), expected.len(), "transcript length differs");
}

const EXPECTED: &str = r#####"root [default] "" => Ok("\"\"\n") <= SAME
root [default] "~" => Ok("\"~\"\n") <= SAME
root [default] "null" => Ok("\"null\"\n") <= SAME
root [default] "NULL" => Ok("\"NULL\"\n") <= SAME
root [default] "Null" => Ok("\"Null\"\n") <= SAME
root [default] "true" => Ok("\"true\"\n") <= SAME
root [default] "False" => Ok("\"False\"\n") <= SAME
root [default] "TRUE" => Ok("\"TRUE\"\n") <= SAME
root [default] "yes" => Ok("\"yes\"\n") <= SAME
root [default] "y" => Ok("\"y\"\n") <= SAME
root [default] "No" => Ok("\"No\"\n") <= SAME
root [default] "on" => Ok("\"on\"\n") <= SAME
root [default] "OFF" => Ok("\"OFF\"\n") <= SAME
root [default] "<<" => Ok("\"<<\"\n") <= SAME
root [default] "---" => Ok("\"---\"\n") <= SAME
root [default] "--- a" => Ok("\"--- a\"\n") <= SAME
root [default] "---a" => Ok("---a\n") <= SAME
root [default] "..." => Ok("\"...\"\n") <= SAME
root [default] "... x" => Ok("\"... x\"\n") <= SAME
root [default] ".nan" => Ok("\".nan\"\n") <= SAME
root [default] ".NaN" => Ok("\".NaN\"\n") <= SAME
root [default] "-.INF" => Ok("\"-.INF\"\n") <= SAME
root [default] "+.inf" => Ok("\"+.inf\"\n") <= SAME
root [default] ".inf" => Ok("\".inf\"\n") <= SAME
root [default] "+-.inf" => Ok("+-.inf\n") <= SAME
root [default] ".infx" => Ok(".infx\n") <= SAME
root [default] "nan" => Ok("\"nan\"\n") <= SAME
root [default] "NaN" => Ok("\"NaN\"\n") <= SAME
root [default] "+inf" => Ok("\"+inf\"\n") <= SAME
root [default] "-Infinity" => Ok("\"-Infinity\"\n") <= SAME
root [default] "infinity" => Ok("\"infinity\"\n") <= SAME
root [default] "0x1F" => Ok("\"0x1F\"\n") <= SAME
root [default] "-0x1f" => Ok("\"-0x1f\"\n") <= SAME
root [default] "0o17" => Ok("\"0o17\"\n") <= SAME
root [default] "0b101" => Ok("\"0b101\"\n") <= SAME
root [default] "0b102" => Ok("0b102\n") <= SAME
root [default] "1_000" => Ok("\"1_000\"\n") <= SAME
root [default] "1e9" => Ok("\"1e9\"\n") <= SAME
root [default] "1E+9" => Ok("\"1E+9\"\n") <= SAME
root [default] "1." => Ok("\"1.\"\n") <= SAME
root [default] ".5" => Ok("\".5\"\n") <= SAME
root [default] "+1.5e-3" => Ok("\"+1.5e-3\"\n") <= SAME
root [default] "1.5e" => Ok("1.5e\n") <= SAME
root [default] "12345678901234567890123456789" => Ok("\"12345678901234567890123456789\"\n") <= SAME
root [default] "-" => Ok("'-'\n") <= SAME
root [default] "?" => Ok("\"?\"\n") <= SAME
root [default] "+" => Ok("+\n") <= SAME
root [default] "." => Ok("'.'\n") <= SAME
root [default] "#" => Ok("'#'\n") <= SAME
root [default] "- a" => Ok("\"- a\"\n") <= SAME
root [default] "-a" => Ok("-a\n") <= SAME
root [default] "-\ta" => Ok("\"-\\ta\"\n") <= SAME
root [default] "?x" => Ok("?x\n") <= SAME
root [default] "? x" => Ok("\"? x\"\n") <= SAME
root [default] ",a" => Ok("\",a\"\n") <= SAME
root [default] ":a" => Ok("\":a\"\n") <= SAME
root [default] "[a" => Ok("\"[a\"\n") <= SAME
root [default] "]a" => Ok("\"]a\"\n") <= SAME
root [default] "{a" => Ok("\"{a\"\n") <= SAME
root [default] "}a" => Ok("\"}a\"\n") <= SAME
root [default] "%a" => Ok("\"%a\"\n") <= SAME
root [default] "@a" => Ok("\"@a\"\n") <= SAME
root [default] "`a" => Ok("\"`a\"\n") <= SAME
root [default] "!a" => Ok("\"!a\"\n") <= SAME
root [default] "&a" => Ok("\"&a\"\n") <= SAME
root [default] "*a" => Ok("\"*a\"\n") <= SAME
root [default] "|a" => Ok("\"|a\"\n") <= SAME
root [default] ">a" => Ok("\">a\"\n") <= SAME
root [default] "'a" => Ok("\"'a\"\n") <= SAME
root [default] "\"a" => Ok("\"\\\"a\"\n") <= SAME
root [default] "a: b" => Ok("\"a: b\"\n") <= SAME
root [default] "a:b" => Ok("a:b\n") <= SAME
root [default] "a:" => Ok("\"a:\"\n") <= SAME
root [default] "a: " => Ok("\"a: \"\n") <= SAME
root [default] "a #b" => Ok("\"a #b\"\n") <= SAME
root [default] "a#b" => Ok("\"a#b\"\n") <= SAME
root [default] "a,b" => Ok("a,b\n") <= SAME
root [default] "a]b" => Ok("a]b\n") <= SAME
root [default] "a{b}" => Ok("a{b}\n") <= SAME
root [default] " lead" => Ok("\" lead\"\n") <= SAME
root [default] "trail " => Ok("\"trail \"\n") <= SAME
root [default] "\u{a0}nbsp" => Ok("\"\u{a0}nbsp\"\n") <= SAME
root [default] "em\u{2003}" => Ok("\"em\u{2003}\"\n") <= SAME
root [default] "\u{feff}bom" => Ok("\"\\uFEFFbom\"\n") <= SAME
root [default] "mid\u{feff}bom" => Ok("mid\u{feff}bom\n") <= SAME
root [default] "tab\there" => Ok("\"tab\\there\"\n") <= SAME
root [default] "new\nline" => Ok("|-\n  new\n  line\n") <= SAME
root [default] "line\n" => Ok("|\n  line\n") <= SAME
root [default] "line\n\n" => Ok("|+\n  line\n  \n") <= SAME
root [default] "\n" => Ok("\"\\n\"\n") <= SAME
root [default] "\n\n" => Ok("\"\\n\\n\"\n") <= SAME
root [default] "\n\n\n" => Ok("\"\\n\\n\\n\"\n") <= SAME
root [default] "\nlead" => Ok("\"\\nlead\"\n") <= SAME
root [default] "a\n\n\nb\n\n\n" => Ok("|+\n  a\n  \n  \n  b\n  \n  \n") <= SAME
root [default] "  indented\nline" => Ok("\"  indented\\nline\"\n") <= SAME
root [default] "\n  indented after blank\n" => Ok("\"\\n  indented after blank\\n\"\n") <= SAME
root [default] "a\n  b\n" => Ok("|\n  a\n    b\n") <= SAME
root [default] "key: v\nnext" => Ok("\"key: v\\nnext\"\n") <= SAME
root [default] "ends with colon:\nx:" => Ok("\"ends with colon:\\nx:\"\n") <= SAME
root [default] "# not comment\nline" => Ok("\"# not comment\\nline\"\n") <= SAME
root [default] "trailing space \nline" => Ok("|-\n  trailing space \n  line\n") <= SAME
root [default] "cr\rhere" => Ok("\"cr\\rhere\"\n") <= SAME
root [default] "crlf\r\nhere" => Ok("\"crlf\\r\\nhere\"\n") <= SAME
root [default] "\0" => Ok("\"\\0\"\n") <= SAME
root [default] "\u{7}" => Ok("\"\\a\"\n") <= SAME
root [default] "\u{8}" => Ok("\"\\b\"\n") <= SAME
root [default] "\u{b}" => Ok("\"\\v\"\n") <= SAME
root [default] "\u{c}" => Ok("\"\\f\"\n") <= SAME
root [default] "\u{1b}" => Ok("\"\\e\"\n") <= SAME
root [default] "\u{1}" => Ok("\"\\x01\"\n") <= SAME
root [default] "\u{1f}" => Ok("\"\\x1F\"\n") <= SAME
root [default] "\u{7f}" => Ok("\"\\x7F\"\n") <= SAME
root [default] "\u{80}" => Ok("\"\\x80\"\n") <= SAME
root [default] "\u{85}" => Ok("\"\\N\"\n") <= SAME
root [default] "\u{9f}" => Ok("\"\\x9F\"\n") <= SAME
root [default] "\u{2028}" => Ok("\"\\L\"\n") <= SAME
root [default] "\u{2029}" => Ok("\"\\P\"\n") <= SAME
root [default] "a\u{2028}b" => Ok("a\u{2028}b\n") <= SAME
root [default] "it's" => Ok("it's\n") <= SAME
root [default] "'" => Ok("\"'\"\n") <= SAME
root [default] "''" => Ok("\"''\"\n") <= SAME
root [default] "say \"hi\"" => Ok("say \"hi\"\n") <= SAME
root [default] "back\\slash" => Ok("back\\slash\n") <= SAME
root [default] "\\" => Ok("\\\n") <= SAME
root [default] "é" => Ok("é\n") <= SAME
root [default] "日本語" => Ok("日本語\n") <= SAME
root [default] "😀" => Ok("😀\n") <= SAME
root [default] "1.0.0" => Ok("1.0.0\n") <= SAME
root [default] "12:30" => Ok("12:30\n") <= SAME
root [default] "2001-12-14" => Ok("2001-12-14\n") <= SAME
root [default] "a b" => Ok("a b\n") <= SAME
root [default] "word word word word word word word word word word word word word word word word word word word word word word word word word word word word word word" => Ok(">-\n  word word word word word word word word word word word word word word word word\n  word word word word word word word word word word word word word word\n") <= SAME
root [default] "word word word word word word word word word word word word word word word word word word word word word word word word word word word word word word " => Ok(">-\n  word word word word word word word word word word word word word word word word\n  word word word word word word word word word word word word word word \n") <= SAME
root [default] "word word word word word word word word word word word word word word word word word word word word word word word word word word word word word word\n" => Ok("|\n  word word word word word word word word word word word word word word word word word word word word word word word word word word word word word word\n") <= SAME
root [default] "word word word word word word word word word word word word word word word word word word word word word word word word word word word word word word\n\n" => Ok("|+\n  word word word word word word word word word word word word word word word word word word word word word word word word word word word word word word\n  \n") <= SAME
root [default] "xxxxxxxxxxxxxxxxxxxxxxxxxxxxxxxxxxxxxxxxxxxxxxxxxxxxxxxxxxxxxxxxxxxxxxxxxxxxxxxxxxxxxxxxxxxxxxxxxxxxxxxxxxxxxxxxxxxxxxxx" => Ok(">-\n  xxxxxxxxxxxxxxxxxxxxxxxxxxxxxxxxxxxxxxxxxxxxxxxxxxxxxxxxxxxxxxxxxxxxxxxxxxxxxxxxxxxxxxxxxxxxxxxxxxxxxxxxxxxxxxxxxxxxxxxx\n") <= SAME
root [default] "aaaaaaaaaaaaaaaaaaaaaaaaaaaaaaaaaaaaaaaaaaaaaaaaaa   bbbbbbbbbbbbbbbbbbbbbbbbbbbbbbbbbbbbbbbbbbbbbbbbbb  cccccccccccccccccccccccccccccccccccccccccccccccccc" => Ok(">-\n  aaaaaaaaaaaaaaaaaaaaaaaaaaaaaaaaaaaaaaaaaaaaaaaaaa  \n  bbbbbbbbbbbbbbbbbbbbbbbbbbbbbbbbbbbbbbbbbbbbbbbbbb  cccccccccccccccccccccccccccccccccccccccccccccccccc\n") <= SAME
root [default] "aaaaaaaaaaaaaaaaaaaaaaaaaaaaaaaaaaaaaaaaaaaaaaaaaa\tbbbbbbbbbbbbbbbbbbbbbbbbbbbbbbbbbbbbbbbbbbbbbbbbbb\tcccccccccccccccccccccccccccccccccccccccccccccccccc" => Ok("\"aaaaaaaaaaaaaaaaaaaaaaaaaaaaaaaaaaaaaaaaaaaaaaaaaa\\tbbbbbbbbbbbbbbbbbbbbbbbbbbbbbbbbbbbbbbbbbbbbbbbbbb\\tcccccccccccccccccccccccccccccccccccccccccccccccccc\"\n") <= SAME
root [default] "aaaaaaaaaaaaaaaaaaaaaaaaaaaaaaaaaaaaaaaaaaaaaaaaaa # bbbbbbbbbbbbbbbbbbbbbbbbbbbbbbbbbbbbbbbbbbbbbbbbbb" => Ok("\"aaaaaaaaaaaaaaaaaaaaaaaaaaaaaaaaaaaaaaaaaaaaaaaaaa # bbbbbbbbbbbbbbbbbbbbbbbbbbbbbbbbbbbbbbbbbbbbbbbbbb\"\n") <= SAME
root [default] "aaaaaaaaaaaaaaaaaaaaaaaaaaaaaaaaaaaaaaaaaaaaaaaaaa: bbbbbbbbbbbbbbbbbbbbbbbbbbbbbbbbbbbbbbbbbbbbbbbbbb" => Ok("\"aaaaaaaaaaaaaaaaaaaaaaaaaaaaaaaaaaaaaaaaaaaaaaaaaa: bbbbbbbbbbbbbbbbbbbbbbbbbbbbbbbbbbbbbbbbbbbbbbbbbb\"\n") <= SAME
root [default] "- lorem ipsum lorem ipsum lorem ipsum lorem ipsum lorem ipsum lorem ipsum lorem ipsum lorem ipsum lorem ipsum lorem ipsum " => Ok("\"- lorem ipsum lorem ipsum lorem ipsum lorem ipsum lorem ipsum lorem ipsum lorem ipsum lorem ipsum lorem ipsum lorem ipsum \"\n") <= SAME
root [default] "日本語 テキスト 日本語 テキスト 日本語 テキスト 日本語 テキスト 日本語 テキスト 日本語 テキスト 日本語 テキスト 日本語 テキスト 日本語 テキスト 日本語 テキスト 日本語 テキスト 日本語 テキスト 日本語 テキスト 日本語 テキスト 日本語 テキスト " => Ok(">-\n  日本語 テキスト 日本語 テキスト 日本語 テキスト 日本語 テキスト 日本語 テキスト 日本語 テキスト 日本語 テキスト 日本語 テキスト 日本語\n  テキスト 日本語 テキスト 日本語 テキスト 日本語 テキスト 日本語 テキスト 日本語 テキスト 日本語 テキスト \n") <= SAME
root [default] "ab ab ab ab ab ab ab ab ab ab ab ab ab ab ab ab ab ab ab ab \u{85}cd cd cd cd cd cd cd cd cd cd cd cd cd cd cd cd cd cd cd cd " => Ok("\"ab ab ab ab ab ab ab ab ab ab ab ab ab ab ab ab ab ab ab ab \\Ncd cd cd cd cd cd cd cd cd cd cd cd cd cd cd cd cd cd cd cd \"\n") <= SAME
root [default] "ab ab ab ab ab ab ab ab ab ab ab ab ab ab ab ab ab ab ab ab \rcd cd cd cd cd cd cd cd cd cd cd cd cd cd cd cd cd cd cd cd " => Ok("\"ab ab ab ab ab ab ab ab ab ab ab ab ab ab ab ab ab ab ab ab \\rcd cd cd cd cd cd cd cd cd cd cd cd cd cd cd cd cd cd cd cd \"\n") <= SAME
root [default] "lorem ipsum lorem ipsum lorem ipsum lorem ipsum lorem ipsum lorem ipsum \ndolor sit dolor sit dolor sit dolor sit dolor sit dolor sit " => Ok("|-\n  lorem ipsum lorem ipsum lorem ipsum lorem ipsum lorem ipsum lorem ipsum \n  dolor sit dolor sit dolor sit dolor sit dolor sit dolor sit \n") <= SAME
root [default] "  lorem ipsum lorem ipsum lorem ipsum lorem ipsum lorem ipsum lorem ipsum \ndolor: sit dolor: sit dolor: sit dolor: sit dolor: sit dolor: sit \n\n" => Ok("|2+\n    lorem ipsum lorem ipsum lorem ipsum lorem ipsum lorem ipsum lorem ipsum \n  dolor: sit dolor: sit dolor: sit dolor: sit dolor: sit dolor: sit \n  \n") <= SAME
root [default] "lorem ipsum lorem ipsum lorem ipsum lorem ipsum lorem ipsum lorem ipsum :\ndolor sit dolor sit dolor sit dolor sit dolor sit dolor sit :" => Ok("|-\n  lorem ipsum lorem ipsum lorem ipsum lorem ipsum lorem ipsum lorem ipsum :\n  dolor sit dolor sit dolor sit dolor sit dolor sit dolor sit :\n") <= SAME
seq [default] ["", "~", "null", "NULL", "Null", "true", "False", "TRUE", "yes", "y", "No", "on", "OFF", "<<", "---", "--- a", "---a", "...", "... x", ".nan", ".NaN", "-.INF", "+.inf", ".inf", "+-.inf", ".infx", "nan", "NaN", "+inf", "-Infinity", "infinity", "0x1F", "-0x1f", "0o17", "0b101", "0b102", "1_000", "1e9", "1E+9", "1.", ".5", "+1.5e-3", "1.5e", "12345678901234567890123456789", "-", "?", "+", ".", "#", "- a", "-a", "-\ta", "?x", "? x", ",a", ":a", "[a", "]a", "{a", "}a", "%a", "@a", "`a", "!a", "&a", "*a", "|a", ">a", "'a", "\"a", "a: b", "a:b", "a:", "a: ", "a #b", "a#b", "a,b", "a]b", "a{b}", " lead", "trail ", "\u{a0}nbsp", "em\u{2003}", "\u{feff}bom", "mid\u{feff}bom", "tab\there", "new\nline", "line\n", "line\n\n", "\n", "\n\n", "\n\n\n", "\nlead", "a\n\n\nb\n\n\n", "  indented\nline", "\n  indented after blank\n", "a\n  b\n", "key: v\nnext", "ends with colon:\nx:", "# not comment\nline", "trailing space \nline", "cr\rhere", "crlf\r\nhere", "\0", "\u{7}", "\u{8}", "\u{b}", "\u{c}", "\u{1b}", "\u{1}", "\u{1f}", "\u{7f}", "\u{80}", "\u{85}", "\u{9f}", "\u{2028}", "\u{2029}", "a\u{2028}b", "it's", "'", "''", "say \"hi\"", "back\\slash", "\\", "é", "日本語", "😀", "1.0.0", "12:30", "2001-12-14", "a b", "word word word word word word word word word word word word word word word word word word word word word word word word word word word word word word", "word word word word word word word word word word word word word word word word word word word word word word word word word word word word word word ", "word word word word word word word word word word word word word word word word word word word word word word word word word word word word word word\n", "word word word word word word word word word word word word word word word word word word word word word word word word word word word word word word\n\n", "xxxxxxxxxxxxxxxxxxxxxxxxxxxxxxxxxxxxxxxxxxxxxxxxxxxxxxxxxxxxxxxxxxxxxxxxxxxxxxxxxxxxxxxxxxxxxxxxxxxxxxxxxxxxxxxxxxxxxxxx", "aaaaaaaaaaaaaaaaaaaaaaaaaaaaaaaaaaaaaaaaaaaaaaaaaa   bbbbbbbbbbbbbbbbbbbbbbbbbbbbbbbbbbbbbbbbbbbbbbbbbb  cccccccccccccccccccccccccccccccccccccccccccccccccc", "aaaaaaaaaaaaaaaaaaaaaaaaaaaaaaaaaaaaaaaaaaaaaaaaaa\tbbbbbbbbbbbbbbbbbbbbbbbbbbbbbbbbbbbbbbbbbbbbbbbbbb\tcccccccccccccccccccccccccccccccccccccccccccccccccc", "aaaaaaaaaaaaaaaaaaaaaaaaaaaaaaaaaaaaaaaaaaaaaaaaaa # bbbbbbbbbbbbbbbbbbbbbbbbbbbbbbbbbbbbbbbbbbbbbbbbbb", "aaaaaaaaaaaaaaaaaaaaaaaaaaaaaaaaaaaaaaaaaaaaaaaaaa: bbbbbbbbbbbbbbbbbbbbbbbbbbbbbbbbbbbbbbbbbbbbbbbbbb", "- lorem ipsum lorem ipsum lorem ipsum lorem ipsum lorem ipsum lorem ipsum lorem ipsum lorem ipsum lorem ipsum lorem ipsum ", "日本語 テキスト 日本語 テキスト 日本語 テキスト 日本語 テキスト 日本語 テキスト 日本語 テキスト 日本語 テキスト 日本語 テキスト 日本語 テキスト 日本語 テキスト 日本語 テキスト 日本語 テキスト 日本語 テキスト 日本語 テキスト 日本語 テキスト ", "ab ab ab ab ab ab ab ab ab ab ab ab ab ab ab ab ab ab ab ab \u{85}cd cd cd cd cd cd cd cd cd cd cd cd cd cd cd cd cd cd cd cd ", "ab ab ab ab ab ab ab ab ab ab ab ab ab ab ab ab ab ab ab ab \rcd cd cd cd cd cd cd cd cd cd cd cd cd cd cd cd cd cd cd cd ", "lorem ipsum lorem ipsum lorem ipsum lorem ipsum lorem ipsum lorem ipsum \ndolor sit dolor sit dolor sit dolor sit dolor sit dolor sit ", "  lorem ipsum lorem ipsum lorem ipsum lorem ipsum lorem ipsum lorem ipsum \ndolor: sit dolor: sit dolor: sit dolor: sit dolor: sit dolor: sit \n\n", "lorem ipsum lorem ipsum lorem ipsum lorem ipsum lorem ipsum lorem ipsum :\ndolor sit dolor sit dolor sit dolor sit dolor sit dolor sit :"] => Ok("- \"\"\n- \"~\"\n- \"null\"\n- \"NULL\"\n- \"Null\"\n- \"true\"\n- \"False\"\n- \"TRUE\"\n- \"yes\"\n- \"y\"\n- \"No\"\n- \"on\"\n- \"OFF\"\n- \"<<\"\n- \"---\"\n- \"--- a\"\n- ---a\n- \"...\"\n- \"... x\"\n- \".nan\"\n- \".NaN\"\n- \"-.INF\"\n- \"+.inf\"\n- \".inf\"\n- +-.inf\n- .infx\n- \"nan\"\n- \"NaN\"\n- \"+inf\"\n- \"-Infinity\"\n- \"infinity\"\n- \"0x1F\"\n- \"-0x1f\"\n- \"0o17\"\n- \"0b101\"\n- 0b102\n- \"1_000\"\n- \"1e9\"\n- \"1E+9\"\n- \"1.\"\n- \".5\"\n- \"+1.5e-3\"\n- 1.5e\n- \"12345678901234567890123456789\"\n- '-'\n- \"?\"\n- +\n- '.'\n- '#'\n- \"- a\"\n- -a\n- \"-\\ta\"\n- ?x\n- \"? x\"\n- \",a\"\n- \":a\"\n- \"[a\"\n- \"]a\"\n- \"{a\"\n- \"}a\"\n- \"%a\"\n- \"@a\"\n- \"`a\"\n- \"!a\"\n- \"&a\"\n- \"*a\"\n- \"|a\"\n- \">a\"\n- \"'a\"\n- \"\\\"a\"\n- \"a: b\"\n- a:b\n- \"a:\"\n- \"a: \"\n- \"a #b\"\n- \"a#b\"\n- a,b\n- a]b\n- a{b}\n- \" lead\"\n- \"trail \"\n- \"\u{a0}nbsp\"\n- \"em\u{2003}\"\n- \"\\uFEFFbom\"\n- mid\u{feff}bom\n- \"tab\\there\"\n- |-\n  new\n  line\n- |\n  line\n- |+\n  line\n  \n- \"\\n\"\n- \"\\n\\n\"\n- \"\\n\\n\\n\"\n- \"\\nlead\"\n- |+\n  a\n  \n  \n  b\n  \n  \n- \"  indented\\nline\"\n- \"\\n  indented after blank\\n\"\n- |\n  a\n    b\n- \"key: v\\nnext\"\n- \"ends with colon:\\nx:\"\n- \"# not comment\\nline\"\n- |-\n  trailing space \n  line\n- \"cr\\rhere\"\n- \"crlf\\r\\nhere\"\n- \"\\0\"\n- \"\\a\"\n- \"\\b\"\n- \"\\v\"\n- \"\\f\"\n- \"\\e\"\n- \"\\x01\"\n- \"\\x1F\"\n- \"\\x7F\"\n- \"\\x80\"\n- \"\\N\"\n- \"\\x9F\"\n- \"\\L\"\n- \"\\P\"\n- a\u{2028}b\n- it's\n- \"'\"\n- \"''\"\n- say \"hi\"\n- back\\slash\n- \\\n- é\n- 日本語\n- 😀\n- 1.0.0\n- 12:30\n- 2001-12-14\n- a b\n- >-\n  word word word word word word word word word word word word word word word word\n  word word word word word word word word word word word word word word\n- >-\n  word word word word word word word word word word word word word word word word\n  word word word word word word word word word word word word word word \n- |\n  word word word word word word word word word word word word word word word word word word word word word word word word word word word word word word\n- |+\n  word word word word word word word word word word word word word word word word word word word word word word word word word word word word word word\n  \n- >-\n  xxxxxxxxxxxxxxxxxxxxxxxxxxxxxxxxxxxxxxxxxxxxxxxxxxxxxxxxxxxxxxxxxxxxxxxxxxxxxxxxxxxxxxxxxxxxxxxxxxxxxxxxxxxxxxxxxxxxxxxx\n- >-\n  aaaaaaaaaaaaaaaaaaaaaaaaaaaaaaaaaaaaaaaaaaaaaaaaaa  \n  bbbbbbbbbbbbbbbbbbbbbbbbbbbbbbbbbbbbbbbbbbbbbbbbbb  cccccccccccccccccccccccccccccccccccccccccccccccccc\n- \"aaaaaaaaaaaaaaaaaaaaaaaaaaaaaaaaaaaaaaaaaaaaaaaaaa\\tbbbbbbbbbbbbbbbbbbbbbbbbbbbbbbbbbbbbbbbbbbbbbbbbbb\\tcccccccccccccccccccccccccccccccccccccccccccccccccc\"\n- \"aaaaaaaaaaaaaaaaaaaaaaaaaaaaaaaaaaaaaaaaaaaaaaaaaa # bbbbbbbbbbbbbbbbbbbbbbbbbbbbbbbbbbbbbbbbbbbbbbbbbb\"\n- \"aaaaaaaaaaaaaaaaaaaaaaaaaaaaaaaaaaaaaaaaaaaaaaaaaa: bbbbbbbbbbbbbbbbbbbbbbbbbbbbbbbbbbbbbbbbbbbbbbbbbb\"\n- \"- lorem ipsum lorem ipsum lorem ipsum lorem ipsum lorem ipsum lorem ipsum lorem ipsum lorem ipsum lorem ipsum lorem ipsum \"\n- >-\n  日本語 テキスト 日本語 テキスト 日本語 テキスト 日本語 テキスト 日本語 テキスト 日本語 テキスト 日本語 テキスト 日本語 テキスト 日本語\n  テキスト 日本語 テキスト 日本語 テキスト 日本語 テキスト 日本語 テキスト 日本語 テキスト 日本語 テキスト \n- \"ab ab ab ab ab ab ab ab ab ab ab ab ab ab ab ab ab ab ab ab \\Ncd cd cd cd cd cd cd cd cd cd cd cd cd cd cd cd cd cd cd cd \"\n- \"ab ab ab ab ab ab ab ab ab ab ab ab ab ab ab ab ab ab ab ab \\rcd cd cd cd cd cd cd cd cd cd cd cd cd cd cd cd cd cd cd cd \"\n- |-\n  lorem ipsum lorem ipsum lorem ipsum lorem ipsum lorem ipsum lorem ipsum \n  dolor sit dolor sit dolor sit dolor sit dolor sit dolor sit \n- |2+\n    lorem ipsum lorem ipsum lorem ipsum lorem ipsum lorem ipsum lorem ipsum \n  dolor: sit dolor: sit dolor: sit dolor: sit dolor: sit dolor: sit \n  \n- |-\n  lorem ipsum lorem ipsum lorem ipsum lorem ipsum lorem ipsum lorem ipsum :\n  dolor sit dolor sit dolor sit dolor sit dolor sit dolor sit :\n") <= SAME
mapval [default] {"k00": "", "k01": "~", "k02": "null", "k03": "NULL", "k04": "Null", "k05": "true", "k06": "False", "k07": "TRUE", "k08": "yes", "k09": "y", "k10": "No", "k11": "on", "k12": "OFF", "k13": "<<", "k14": "---", "k15": "--- a"} => Ok("k00: \"\"\nk01: \"~\"\nk02: \"null\"\nk03: \"NULL\"\nk04: \"Null\"\nk05: \"true\"\nk06: \"False\"\nk07: \"TRUE\"\nk08: \"yes\"\nk09: \"y\"\nk10: \"No\"\nk11: \"on\"\nk12: \"OFF\"\nk13: \"<<\"\nk14: \"---\"\nk15: \"--- a\"\n") <= SAME
mapkey [default] {"": 0, "---": 14, "--- a": 15, "<<": 13, "False": 6, "NULL": 3, "No": 10, "Null": 4, "OFF": 12, "TRUE": 7, "null": 2, "on": 11, "true": 5, "y": 9, "yes": 8, "~": 1} => Ok("\"\": 0\n\"---\": 14\n\"--- a\": 15\n\"<<\": 13\n\"False\": 6\n\"NULL\": 3\n\"No\": 10\n\"Null\": 4\n\"OFF\": 12\n\"TRUE\": 7\n\"null\": 2\n\"on\": 11\n\"true\": 5\n\"y\": 9\n\"yes\": 8\n\"~\": 1\n") <= SAME
nested [default] {"outer": [{"k00": "", "k01": "~", "k02": "null", "k03": "NULL", "k04": "Null", "k05": "true", "k06": "False", "k07": "TRUE", "k08": "yes", "k09": "y", "k10": "No", "k11": "on", "k12": "OFF", "k13": "<<", "k14": "---", "k15": "--- a"}, {"k00": "", "k01": "~", "k02": "null", "k03": "NULL", "k04": "Null", "k05": "true", "k06": "False", "k07": "TRUE", "k08": "yes", "k09": "y", "k10": "No", "k11": "on", "k12": "OFF", "k13": "<<", "k14": "---", "k15": "--- a"}]} => Ok("outer:\n  - k00: \"\"\n    k01: \"~\"\n    k02: \"null\"\n    k03: \"NULL\"\n    k04: \"Null\"\n    k05: \"true\"\n    k06: \"False\"\n    k07: \"TRUE\"\n    k08: \"yes\"\n    k09: \"y\"\n    k10: \"No\"\n    k11: \"on\"\n    k12: \"OFF\"\n    k13: \"<<\"\n    k14: \"---\"\n    k15: \"--- a\"\n  - k00: \"\"\n    k01: \"~\"\n    k02: \"null\"\n    k03: \"NULL\"\n    k04: \"Null\"\n    k05: \"true\"\n    k06: \"False\"\n    k07: \"TRUE\"\n    k08: \"yes\"\n    k09: \"y\"\n    k10: \"No\"\n    k11: \"on\"\n    k12: \"OFF\"\n    k13: \"<<\"\n    k14: \"---\"\n    k15: \"--- a\"\n") <= SAME
mapval [default] {"k00": "---a", "k01": "...", "k02": "... x", "k03": ".nan", "k04": ".NaN", "k05": "-.INF", "k06": "+.inf", "k07": ".inf", "k08": "+-.inf", "k09": ".infx", "k10": "nan", "k11": "NaN", "k12": "+inf", "k13": "-Infinity", "k14": "infinity", "k15": "0x1F"} => Ok("k00: ---a\nk01: \"...\"\nk02: \"... x\"\nk03: \".nan\"\nk04: \".NaN\"\nk05: \"-.INF\"\nk06: \"+.inf\"\nk07: \".inf\"\nk08: +-.inf\nk09: .infx\nk10: \"nan\"\nk11: \"NaN\"\nk12: \"+inf\"\nk13: \"-Infinity\"\nk14: \"infinity\"\nk15: \"0x1F\"\n") <= SAME
mapkey [default] {"+-.inf": 8, "+.inf": 6, "+inf": 12, "---a": 0, "-.INF": 5, "-Infinity": 13, "...": 1, "... x": 2, ".NaN": 4, ".inf": 7, ".infx": 9, ".nan": 3, "0x1F": 15, "NaN": 11, "infinity": 14, "nan": 10} => Ok("+-.inf: 8\n\"+.inf\": 6\n\"+inf\": 12\n---a: 0\n\"-.INF\": 5\n\"-Infinity\": 13\n\"...\": 1\n\"... x\": 2\n\".NaN\": 4\n\".inf\": 7\n.infx: 9\n\".nan\": 3\n\"0x1F\": 15\n\"NaN\": 11\n\"infinity\": 14\n\"nan\": 10\n") <= SAME
nested [default] {"outer": [{"k00": "---a", "k01": "...", "k02": "... x", "k03": ".nan", "k04": ".NaN", "k05": "-.INF", "k06": "+.inf", "k07": ".inf", "k08": "+-.inf", "k09": ".infx", "k10": "nan", "k11": "NaN", "k12": "+inf", "k13": "-Infinity", "k14": "infinity", "k15": "0x1F"}, {"k00": "---a", "k01": "...", "k02": "... x", "k03": ".nan", "k04": ".NaN", "k05": "-.INF", "k06": "+.inf", "k07": ".inf", "k08": "+-.inf", "k09": ".infx", "k10": "nan", "k11": "NaN", "k12": "+inf", "k13": "-Infinity", "k14": "infinity", "k15": "0x1F"}]} => Ok("outer:\n  - k00: ---a\n    k01: \"...\"\n    k02: \"... x\"\n    k03: \".nan\"\n    k04: \".NaN\"\n    k05: \"-.INF\"\n    k06: \"+.inf\"\n    k07: \".inf\"\n    k08: +-.inf\n    k09: .infx\n    k10: \"nan\"\n    k11: \"NaN\"\n    k12: \"+inf\"\n    k13: \"-Infinity\"\n    k14: \"infinity\"\n    k15: \"0x1F\"\n  - k00: ---a\n    k01: \"...\"\n    k02: \"... x\"\n    k03: \".nan\"\n    k04: \".NaN\"\n    k05: \"-.INF\"\n    k06: \"+.inf\"\n    k07: \".inf\"\n    k08: +-.inf\n    k09: .infx\n    k10: \"nan\"\n    k11: \"NaN\"\n    k12: \"+inf\"\n    k13: \"-Infinity\"\n    k14: \"infinity\"\n    k15: \"0x1F\"\n") <= SAME
mapval [default] {"k00": "-0x1f", "k01": "0o17", "k02": "0b101", "k03": "0b102", "k04": "1_000", "k05": "1e9", "k06": "1E+9", "k07": "1.", "k08": ".5", "k09": "+1.5e-3", "k10": "1.5e", "k11": "12345678901234567890123456789", "k12": "-", "k13": "?", "k14": "+", "k15": "."} => Ok("k00: \"-0x1f\"\nk01: \"0o17\"\nk02: \"0b101\"\nk03: 0b102\nk04: \"1_000\"\nk05: \"1e9\"\nk06: \"1E+9\"\nk07: \"1.\"\nk08: \".5\"\nk09: \"+1.5e-3\"\nk10: 1.5e\nk11: \"12345678901234567890123456789\"\nk12: '-'\nk13: \"?\"\nk14: +\nk15: '.'\n") <= SAME
mapkey [default] {"+": 14, "+1.5e-3": 9, "-": 12, "-0x1f": 0, ".": 15, ".5": 8, "0b101": 2, "0b102": 3, "0o17": 1, "1.": 7, "1.5e": 10, "12345678901234567890123456789": 11, "1E+9": 6, "1_000": 4, "1e9": 5, "?": 13} => Ok("+: 14\n\"+1.5e-3\": 9\n\"-\": 12\n\"-0x1f\": 0\n.: 15\n\".5\": 8\n\"0b101\": 2\n0b102: 3\n\"0o17\": 1\n\"1.\": 7\n1.5e: 10\n\"12345678901234567890123456789\": 11\n\"1E+9\": 6\n\"1_000\": 4\n\"1e9\": 5\n\"?\": 13\n") <= SAME
nested [default] {"outer": [{"k00": "-0x1f", "k01": "0o17", "k02": "0b101", "k03": "0b102", "k04": "1_000", "k05": "1e9", "k06": "1E+9", "k07": "1.", "k08": ".5", "k09": "+1.5e-3", "k10": "1.5e", "k11": "12345678901234567890123456789", "k12": "-", "k13": "?", "k14": "+", "k15": "."}, {"k00": "-0x1f", "k01": "0o17", "k02": "0b101", "k03": "0b102", "k04": "1_000", "k05": "1e9", "k06": "1E+9", "k07": "1.", "k08": ".5", "k09": "+1.5e-3", "k10": "1.5e", "k11": "12345678901234567890123456789", "k12": "-", "k13": "?", "k14": "+", "k15": "."}]} => Ok("outer:\n  - k00: \"-0x1f\"\n    k01: \"0o17\"\n    k02: \"0b101\"\n    k03: 0b102\n    k04: \"1_000\"\n    k05: \"1e9\"\n    k06: \"1E+9\"\n    k07: \"1.\"\n    k08: \".5\"\n    k09: \"+1.5e-3\"\n    k10: 1.5e\n    k11: \"12345678901234567890123456789\"\n    k12: '-'\n    k13: \"?\"\n    k14: +\n    k15: '.'\n  - k00: \"-0x1f\"\n    k01: \"0o17\"\n    k02: \"0b101\"\n    k03: 0b102\n    k04: \"1_000\"\n    k05: \"1e9\"\n    k06: \"1E+9\"\n    k07: \"1.\"\n    k08: \".5\"\n    k09: \"+1.5e-3\"\n    k10: 1.5e\n    k11: \"12345678901234567890123456789\"\n    k12: '-'\n    k13: \"?\"\n    k14: +\n    k15: '.'\n") <= SAME
mapval [default] {"k00": "#", "k01": "- a", "k02": "-a", "k03": "-\ta", "k04": "?x", "k05": "? x", "k06": ",a", "k07": ":a", "k08": "[a", "k09": "]a", "k10": "{a", "k11": "}a", "k12": "%a", "k13": "@a", "k14": "`a", "k15": "!a"} => Ok("k00: '#'\nk01: \"- a\"\nk02: -a\nk03: \"-\\ta\"\nk04: ?x\nk05: \"? x\"\nk06: \",a\"\nk07: \":a\"\nk08: \"[a\"\nk09: \"]a\"\nk10: \"{a\"\nk11: \"}a\"\nk12: \"%a\"\nk13: \"@a\"\nk14: \"`a\"\nk15: \"!a\"\n") <= SAME
mapkey [default] {"!a": 15, "#": 0, "%a": 12, ",a": 6, "-\ta": 3, "- a": 1, "-a": 2, ":a": 7, "? x": 5, "?x": 4, "@a": 13, "[a": 8, "]a": 9, "`a": 14, "{a": 10, "}a": 11} => Ok("\"!a\": 15\n\"#\": 0\n\"%a\": 12\n\",a\": 6\n\"-\\ta\": 3\n\"- a\": 1\n-a: 2\n\":a\": 7\n\"? x\": 5\n?x: 4\n\"@a\": 13\n\"[a\": 8\n\"]a\": 9\n\"`a\": 14\n\"{a\": 10\n\"}a\": 11\n") <= SAME
nested [default] {"outer": [{"k00": "#", "k01": "- a", "k02": "-a", "k03": "-\ta", "k04": "?x", "k05": "? x", "k06": ",a", "k07": ":a", "k08": "[a", "k09": "]a", "k10": "{a", "k11": "}a", "k12": "%a", "k13": "@a", "k14": "`a", "k15": "!a"}, {"k00": "#", "k01": "- a", "k02": "-a", "k03": "-\ta", "k04": "?x", "k05": "? x", "k06": ",a", "k07": ":a", "k08": "[a", "k09": "]a", "k10": "{a", "k11": "}a", "k12": "%a", "k13": "@a", "k14": "`a", "k15": "!a"}]} => Ok("outer:\n  - k00: '#'\n    k01: \"- a\"\n    k02: -a\n    k03: \"-\\ta\"\n    k04: ?x\n    k05: \"? x\"\n    k06: \",a\"\n    k07: \":a\"\n    k08: \"[a\"\n    k09: \"]a\"\n    k10: \"{a\"\n    k11: \"}a\"\n    k12: \"%a\"\n    k13: \"@a\"\n    k14: \"`a\"\n    k15: \"!a\"\n  - k00: '#'\n    k01: \"- a\"\n    k02: -a\n    k03: \"-\\ta\"\n    k04: ?x\n    k05: \"? x\"\n    k06: \",a\"\n    k07: \":a\"\n    k08: \"[a\"\n    k09: \"]a\"\n    k10: \"{a\"\n    k11: \"}a\"\n    k12: \"%a\"\n    k13: \"@a\"\n    k14: \"`a\"\n    k15: \"!a\"\n") <= SAME
mapval [default] {"k00": "&a", "k01": "*a", "k02": "|a", "k03": ">a", "k04": "'a", "k05": "\"a", "k06": "a: b", "k07": "a:b", "k08": "a:", "k09": "a: ", "k10": "a #b", "k11": "a#b", "k12": "a,b", "k13": "a]b", "k14": "a{b}", "k15": " lead"} => Ok("k00: \"&a\"\nk01: \"*a\"\nk02: \"|a\"\nk03: \">a\"\nk04: \"'a\"\nk05: \"\\\"a\"\nk06: \"a: b\"\nk07: a:b\nk08: \"a:\"\nk09: \"a: \"\nk10: \"a #b\"\nk11: \"a#b\"\nk12: a,b\nk13: a]b\nk14: a{b}\nk15: \" lead\"\n") <= SAME
mapkey [default] {" lead": 15, "\"a": 5, "&a": 0, "'a": 4, "*a": 1, ">a": 3, "a #b": 10, "a#b": 11, "a,b": 12, "a:": 8, "a: ": 9, "a: b": 6, "a:b": 7, "a]b": 13, "a{b}": 14, "|a": 2} => Ok("\" lead\": 15\n\"\\\"a\": 5\n\"&a\": 0\n\"'a\": 4\n\"*a\": 1\n\">a\": 3\n\"a #b\": 10\n\"a#b\": 11\n\"a,b\": 12\n\"a:\": 8\n\"a: \": 9\n\"a: b\": 6\n\"a:b\": 7\n\"a]b\": 13\n\"a{b}\": 14\n\"|a\": 2\n") <= SAME
nested [default] {"outer": [{"k00": "&a", "k01": "*a", "k02": "|a", "k03": ">a", "k04": "'a", "k05": "\"a", "k06": "a: b", "k07": "a:b", "k08": "a:", "k09": "a: ", "k10": "a #b", "k11": "a#b", "k12": "a,b", "k13": "a]b", "k14": "a{b}", "k15": " lead"}, {"k00": "&a", "k01": "*a", "k02": "|a", "k03": ">a", "k04": "'a", "k05": "\"a", "k06": "a: b", "k07": "a:b", "k08": "a:", "k09": "a: ", "k10": "a #b", "k11": "a#b", "k12": "a,b", "k13": "a]b", "k14": "a{b}", "k15": " lead"}]} => Ok("outer:\n  - k00: \"&a\"\n    k01: \"*a\"\n    k02: \"|a\"\n    k03: \">a\"\n    k04: \"'a\"\n    k05: \"\\\"a\"\n    k06: \"a: b\"\n    k07: a:b\n    k08: \"a:\"\n    k09: \"a: \"\n    k10: \"a #b\"\n    k11: \"a#b\"\n    k12: a,b\n    k13: a]b\n    k14: a{b}\n    k15: \" lead\"\n  - k00: \"&a\"\n    k01: \"*a\"\n    k02: \"|a\"\n    k03: \">a\"\n    k04: \"'a\"\n    k05: \"\\\"a\"\n    k06: \"a: b\"\n    k07: a:b\n    k08: \"a:\"\n    k09: \"a: \"\n    k10: \"a #b\"\n    k11: \"a#b\"\n    k12: a,b\n    k13: a]b\n    k14: a{b}\n    k15: \" lead\"\n") <= SAME
mapval [default] {"k00": "trail ", "k01": "\u{a0}nbsp", "k02": "em\u{2003}", "k03": "\u{feff}bom", "k04": "mid\u{feff}bom", "k05": "tab\there", "k06": "new\nline", "k07": "line\n", "k08": "line\n\n", "k09": "\n", "k10": "\n\n", "k11": "\n\n\n", "k12": "\nlead", "k13": "a\n\n\nb\n\n\n", "k14": "  indented\nline", "k15": "\n  indented after blank\n"} => Ok("k00: \"trail \"\nk01: \"\u{a0}nbsp\"\nk02: \"em\u{2003}\"\nk03: \"\\uFEFFbom\"\nk04: mid\u{feff}bom\nk05: \"tab\\there\"\nk06: |-\n  new\n  line\nk07: |\n  line\nk08: |+\n  line\n  \nk09: \"\\n\"\nk10: \"\\n\\n\"\nk11: \"\\n\\n\\n\"\nk12: \"\\nlead\"\nk13: |+\n  a\n  \n  \n  b\n  \n  \nk14: \"  indented\\nline\"\nk15: \"\\n  indented after blank\\n\"\n") <= SAME
mapkey [default] {"\n": 9, "\n\n": 10, "\n\n\n": 11, "\n  indented after blank\n": 15, "\nlead": 12, "  indented\nline": 14, "a\n\n\nb\n\n\n": 13, "em\u{2003}": 2, "line\n": 7, "line\n\n": 8, "mid\u{feff}bom": 4, "new\nline": 6, "tab\there": 5, "trail ": 0, "\u{a0}nbsp": 1, "\u{feff}bom": 3} => Ok("\"\\n\": 9\n\"\\n\\n\": 10\n\"\\n\\n\\n\": 11\n\"\\n  indented after blank\\n\": 15\n\"\\nlead\": 12\n\"  indented\\nline\": 14\n\"a\\n\\n\\nb\\n\\n\\n\": 13\n\"em\u{2003}\": 2\n\"line\\n\": 7\n\"line\\n\\n\": 8\nmid\u{feff}bom: 4\n\"new\\nline\": 6\n\"tab\\there\": 5\n\"trail \": 0\n\"\u{a0}nbsp\": 1\n\"\u{feff}bom\": 3\n") <= SAME
nested [default] {"outer": [{"k00": "trail ", "k01": "\u{a0}nbsp", "k02": "em\u{2003}", "k03": "\u{feff}bom", "k04": "mid\u{feff}bom", "k05": "tab\there", "k06": "new\nline", "k07": "line\n", "k08": "line\n\n", "k09": "\n", "k10": "\n\n", "k11": "\n\n\n", "k12": "\nlead", "k13": "a\n\n\nb\n\n\n", "k14": "  indented\nline", "k15": "\n  indented after blank\n"}, {"k00": "trail ", "k01": "\u{a0}nbsp", "k02": "em\u{2003}", "k03": "\u{feff}bom", "k04": "mid\u{feff}bom", "k05": "tab\there", "k06": "new\nline", "k07": "line\n", "k08": "line\n\n", "k09": "\n", "k10": "\n\n", "k11": "\n\n\n", "k12": "\nlead", "k13": "a\n\n\nb\n\n\n", "k14": "  indented\nline", "k15": "\n  indented after blank\n"}]} => Ok("outer:\n  - k00: \"trail \"\n    k01: \"\u{a0}nbsp\"\n    k02: \"em\u{2003}\"\n    k03: \"\\uFEFFbom\"\n    k04: mid\u{feff}bom\n    k05: \"tab\\there\"\n    k06: |-\n      new\n      line\n    k07: |\n      line\n    k08: |+\n      line\n      \n    k09: \"\\n\"\n    k10: \"\\n\\n\"\n    k11: \"\\n\\n\\n\"\n    k12: \"\\nlead\"\n    k13: |+\n      a\n      \n      \n      b\n      \n      \n    k14: \"  indented\\nline\"\n    k15: \"\\n  indented after blank\\n\"\n  - k00: \"trail \"\n    k01: \"\u{a0}nbsp\"\n    k02: \"em\u{2003}\"\n    k03: \"\\uFEFFbom\"\n    k04: mid\u{feff}bom\n    k05: \"tab\\there\"\n    k06: |-\n      new\n      line\n    k07: |\n      line\n    k08: |+\n      line\n      \n    k09: \"\\n\"\n    k10: \"\\n\\n\"\n    k11: \"\\n\\n\\n\"\n    k12: \"\\nlead\"\n    k13: |+\n      a\n      \n      \n      b\n      \n      \n    k14: \"  indented\\nline\"\n    k15: \"\\n  indented after blank\\n\"\n") <= SAME
mapval [default] {"k00": "a\n  b\n", "k01": "key: v\nnext", "k02": "ends with colon:\nx:", "k03": "# not comment\nline", "k04": "trailing space \nline", "k05": "cr\rhere", "k06": "crlf\r\nhere", "k07": "\0", "k08": "\u{7}", "k09": "\u{8}", "k10": "\u{b}", "k11": "\u{c}", "k12": "\u{1b}", "k13": "\u{1}", "k14": "\u{1f}", "k15": "\u{7f}"} => Ok("k00: |\n  a\n    b\nk01: \"key: v\\nnext\"\nk02: \"ends with colon:\\nx:\"\nk03: \"# not comment\\nline\"\nk04: |-\n  trailing space \n  line\nk05: \"cr\\rhere\"\nk06: \"crlf\\r\\nhere\"\nk07: \"\\0\"\nk08: \"\\a\"\nk09: \"\\b\"\nk10: \"\\v\"\nk11: \"\\f\"\nk12: \"\\e\"\nk13: \"\\x01\"\nk14: \"\\x1F\"\nk15: \"\\x7F\"\n") <= SAME
mapkey [default] {"\0": 7, "\u{1}": 13, "\u{7}": 8, "\u{8}": 9, "\u{b}": 10, "\u{c}": 11, "\u{1b}": 12, "\u{1f}": 14, "# not comment\nline": 3, "a\n  b\n": 0, "cr\rhere": 5, "crlf\r\nhere": 6, "ends with colon:\nx:": 2, "key: v\nnext": 1, "trailing space \nline": 4, "\u{7f}": 15} => Ok("\"\\u0000\": 7\n\"\\u0001\": 13\n\"\\u0007\": 8\n\"\\u0008\": 9\n\"\\u000B\": 10\n\"\\u000C\": 11\n\"\\u001B\": 12\n\"\\u001F\": 14\n\"# not comment\\nline\": 3\n\"a\\n  b\\n\": 0\n\"cr\\rhere\": 5\n\"crlf\\r\\nhere\": 6\n\"ends with colon:\\nx:\": 2\n\"key: v\\nnext\": 1\n\"trailing space \\nline\": 4\n\"\\u007F\": 15\n") <= SAME
nested [default] {"outer": [{"k00": "a\n  b\n", "k01": "key: v\nnext", "k02": "ends with colon:\nx:", "k03": "# not comment\nline", "k04": "trailing space \nline", "k05": "cr\rhere", "k06": "crlf\r\nhere", "k07": "\0", "k08": "\u{7}", "k09": "\u{8}", "k10": "\u{b}", "k11": "\u{c}", "k12": "\u{1b}", "k13": "\u{1}", "k14": "\u{1f}", "k15": "\u{7f}"}, {"k00": "a\n  b\n", "k01": "key: v\nnext", "k02": "ends with colon:\nx:", "k03": "# not comment\nline", "k04": "trailing space \nline", "k05": "cr\rhere", "k06": "crlf\r\nhere", "k07": "\0", "k08": "\u{7}", "k09": "\u{8}", "k10": "\u{b}", "k11": "\u{c}", "k12": "\u{1b}", "k13": "\u{1}", "k14": "\u{1f}", "k15": "\u{7f}"}]} => Ok("outer:\n  - k00: |\n      a\n        b\n    k01: \"key: v\\nnext\"\n    k02: \"ends with colon:\\nx:\"\n    k03: \"# not comment\\nline\"\n    k04: |-\n      trailing space \n      line\n    k05: \"cr\\rhere\"\n    k06: \"crlf\\r\\nhere\"\n    k07: \"\\0\"\n    k08: \"\\a\"\n    k09: \"\\b\"\n    k10: \"\\v\"\n    k11: \"\\f\"\n    k12: \"\\e\"\n    k13: \"\\x01\"\n    k14: \"\\x1F\"\n    k15: \"\\x7F\"\n  - k00: |\n      a\n        b\n    k01: \"key: v\\nnext\"\n    k02: \"ends with colon:\\nx:\"\n    k03: \"# not comment\\nline\"\n    k04: |-\n      trailing space \n      line\n    k05: \"cr\\rhere\"\n    k06: \"crlf\\r\\nhere\"\n    k07: \"\\0\"\n    k08: \"\\a\"\n    k09: \"\\b\"\n    k10: \"\\v\"\n    k11: \"\\f\"\n    k12: \"\\e\"\n    k13: \"\\x01\"\n    k14: \"\\x1F\"\n    k15: \"\\x7F\"\n") <= SAME
mapval [default] {"k00": "\u{80}", "k01": "\u{85}", "k02": "\u{9f}", "k03": "\u{2028}", "k04": "\u{2029}", "k05": "a\u{2028}b", "k06": "it's", "k07": "'", "k08": "''", "k09": "say \"hi\"", "k10": "back\\slash", "k11": "\\", "k12": "é", "k13": "日本語", "k14": "😀", "k15": "1.0.0"} => Ok("k00: \"\\x80\"\nk01: \"\\N\"\nk02: \"\\x9F\"\nk03: \"\\L\"\nk04: \"\\P\"\nk05: a\u{2028}b\nk06: it's\nk07: \"'\"\nk08: \"''\"\nk09: say \"hi\"\nk10: back\\slash\nk11: \\\nk12: é\nk13: 日本語\nk14: 😀\nk15: 1.0.0\n") <= SAME
mapkey [default] {"'": 7, "''": 8, "1.0.0": 15, "\\": 11, "a\u{2028}b": 5, "back\\slash": 10, "it's": 6, "say \"hi\"": 9, "\u{80}": 0, "\u{85}": 1, "\u{9f}": 2, "é": 12, "\u{2028}": 3, "\u{2029}": 4, "日本語": 13, "😀": 14} => Ok("\"'\": 7\n\"''\": 8\n1.0.0: 15\n\\: 11\na\u{2028}b: 5\nback\\slash: 10\nit's: 6\nsay \"hi\": 9\n\"\\u0080\": 0\n\"\\u0085\": 1\n\"\\u009F\": 2\né: 12\n\"\u{2028}\": 3\n\"\u{2029}\": 4\n日本語: 13\n😀: 14\n") <= SAME
nested [default] {"outer": [{"k00": "\u{80}", "k01": "\u{85}", "k02": "\u{9f}", "k03": "\u{2028}", "k04": "\u{2029}", "k05": "a\u{2028}b", "k06": "it's", "k07": "'", "k08": "''", "k09": "say \"hi\"", "k10": "back\\slash", "k11": "\\", "k12": "é", "k13": "日本語", "k14": "😀", "k15": "1.0.0"}, {"k00": "\u{80}", "k01": "\u{85}", "k02": "\u{9f}", "k03": "\u{2028}", "k04": "\u{2029}", "k05": "a\u{2028}b", "k06": "it's", "k07": "'", "k08": "''", "k09": "say \"hi\"", "k10": "back\\slash", "k11": "\\", "k12": "é", "k13": "日本語", "k14": "😀", "k15": "1.0.0"}]} => Ok("outer:\n  - k00: \"\\x80\"\n    k01: \"\\N\"\n    k02: \"\\x9F\"\n    k03: \"\\L\"\n    k04: \"\\P\"\n    k05: a\u{2028}b\n    k06: it's\n    k07: \"'\"\n    k08: \"''\"\n    k09: say \"hi\"\n    k10: back\\slash\n    k11: \\\n    k12: é\n    k13: 日本語\n    k14: 😀\n    k15: 1.0.0\n  - k00: \"\\x80\"\n    k01: \"\\N\"\n    k02: \"\\x9F\"\n    k03: \"\\L\"\n    k04: \"\\P\"\n    k05: a\u{2028}b\n    k06: it's\n    k07: \"'\"\n    k08: \"''\"\n    k09: say \"hi\"\n    k10: back\\slash\n    k11: \\\n    k12: é\n    k13: 日本語\n    k14: 😀\n    k15: 1.0.0\n") <= SAME
mapval [default] {"k00": "12:30", "k01": "2001-12-14", "k02": "a b", "k03": "word word word word word word word word word word word word word word word word word word word word word word word word word word word word word word", "k04": "word word word word word word word word word word word word word word word word word word word word word word word word word word word word word word ", "k05": "word word word word word word word word word word word word word word word word word word word word word word word word word word word word word word\n", "k06": "word word word word word word word word word word word word word word word word word word word word word word word word word word word word word word\n\n", "k07": "xxxxxxxxxxxxxxxxxxxxxxxxxxxxxxxxxxxxxxxxxxxxxxxxxxxxxxxxxxxxxxxxxxxxxxxxxxxxxxxxxxxxxxxxxxxxxxxxxxxxxxxxxxxxxxxxxxxxxxxx", "k08": "aaaaaaaaaaaaaaaaaaaaaaaaaaaaaaaaaaaaaaaaaaaaaaaaaa   bbbbbbbbbbbbbbbbbbbbbbbbbbbbbbbbbbbbbbbbbbbbbbbbbb  cccccccccccccccccccccccccccccccccccccccccccccccccc", "k09": "aaaaaaaaaaaaaaaaaaaaaaaaaaaaaaaaaaaaaaaaaaaaaaaaaa\tbbbbbbbbbbbbbbbbbbbbbbbbbbbbbbbbbbbbbbbbbbbbbbbbbb\tcccccccccccccccccccccccccccccccccccccccccccccccccc", "k10": "aaaaaaaaaaaaaaaaaaaaaaaaaaaaaaaaaaaaaaaaaaaaaaaaaa # bbbbbbbbbbbbbbbbbbbbbbbbbbbbbbbbbbbbbbbbbbbbbbbbbb", "k11": "aaaaaaaaaaaaaaaaaaaaaaaaaaaaaaaaaaaaaaaaaaaaaaaaaa: bbbbbbbbbbbbbbbbbbbbbbbbbbbbbbbbbbbbbbbbbbbbbbbbbb", "k12": "- lorem ipsum lorem ipsum lorem ipsum lorem ipsum lorem ipsum lorem ipsum lorem ipsum lorem ipsum lorem ipsum lorem ipsum ", "k13": "日本語 テキスト 日本語 テキスト 日本語 テキスト 日本語 テキスト 日本語 テキスト 日本語 テキスト 日本語 テキスト 日本語 テキスト 日本語 テキスト 日本語 テキスト 日本語 テキスト 日本語 テキスト 日本語 テキスト 日本語 テキスト 日本語 テキスト ", "k14": "ab ab ab ab ab ab ab ab ab ab ab ab ab ab ab ab ab ab ab ab \u{85}cd cd cd cd cd cd cd cd cd cd cd cd cd cd cd cd cd cd cd cd ", "k15": "ab ab ab ab ab ab ab ab ab ab ab ab ab ab ab ab ab ab ab ab \rcd cd cd cd cd cd cd cd cd cd cd cd cd cd cd cd cd cd cd cd "} => Ok("k00: 12:30\nk01: 2001-12-14\nk02: a b\nk03: >-\n  word word word word word word word word word word word word word word word word\n  word word word word word word word word word word word word word word\nk04: >-\n  word word word word word word word word word word word word word word word word\n  word word word word word word word word word word word word word word \nk05: |\n  word word word word word word word word word word word word word word word word word word word word word word word word word word word word word word\nk06: |+\n  word word word word word word word word word word word word word word word word word word word word word word word word word word word word word word\n  \nk07: >-\n  xxxxxxxxxxxxxxxxxxxxxxxxxxxxxxxxxxxxxxxxxxxxxxxxxxxxxxxxxxxxxxxxxxxxxxxxxxxxxxxxxxxxxxxxxxxxxxxxxxxxxxxxxxxxxxxxxxxxxxxx\nk08: >-\n  aaaaaaaaaaaaaaaaaaaaaaaaaaaaaaaaaaaaaaaaaaaaaaaaaa  \n  bbbbbbbbbbbbbbbbbbbbbbbbbbbbbbbbbbbbbbbbbbbbbbbbbb  cccccccccccccccccccccccccccccccccccccccccccccccccc\nk09: \"aaaaaaaaaaaaaaaaaaaaaaaaaaaaaaaaaaaaaaaaaaaaaaaaaa\\tbbbbbbbbbbbbbbbbbbbbbbbbbbbbbbbbbbbbbbbbbbbbbbbbbb\\tcccccccccccccccccccccccccccccccccccccccccccccccccc\"\nk10: \"aaaaaaaaaaaaaaaaaaaaaaaaaaaaaaaaaaaaaaaaaaaaaaaaaa # bbbbbbbbbbbbbbbbbbbbbbbbbbbbbbbbbbbbbbbbbbbbbbbbbb\"\nk11: \"aaaaaaaaaaaaaaaaaaaaaaaaaaaaaaaaaaaaaaaaaaaaaaaaaa: bbbbbbbbbbbbbbbbbbbbbbbbbbbbbbbbbbbbbbbbbbbbbbbbbb\"\nk12: \"- lorem ipsum lorem ipsum lorem ipsum lorem ipsum lorem ipsum lorem ipsum lorem ipsum lorem ipsum lorem ipsum lorem ipsum \"\nk13: >-\n  日本語 テキスト 日本語 テキスト 日本語 テキスト 日本語 テキスト 日本語 テキスト 日本語 テキスト 日本語 テキスト 日本語 テキスト 日本語\n  テキスト 日本語 テキスト 日本語 テキスト 日本語 テキスト 日本語 テキスト 日本語 テキスト 日本語 テキスト \nk14: \"ab ab ab ab ab ab ab ab ab ab ab ab ab ab ab ab ab ab ab ab \\Ncd cd cd cd cd cd cd cd cd cd cd cd cd cd cd cd cd cd cd cd \"\nk15: \"ab ab ab ab ab ab ab ab ab ab ab ab ab ab ab ab ab ab ab ab \\rcd cd cd cd cd cd cd cd cd cd cd cd cd cd cd cd cd cd cd cd \"\n") <= SAME
mapkey [default] {"- lorem ipsum lorem ipsum lorem ipsum lorem ipsum lorem ipsum lorem ipsum lorem ipsum lorem ipsum lorem ipsum lorem ipsum ": 12, "12:30": 0, "2001-12-14": 1, "a b": 2, "aaaaaaaaaaaaaaaaaaaaaaaaaaaaaaaaaaaaaaaaaaaaaaaaaa\tbbbbbbbbbbbbbbbbbbbbbbbbbbbbbbbbbbbbbbbbbbbbbbbbbb\tcccccccccccccccccccccccccccccccccccccccccccccccccc": 9, "aaaaaaaaaaaaaaaaaaaaaaaaaaaaaaaaaaaaaaaaaaaaaaaaaa   bbbbbbbbbbbbbbbbbbbbbbbbbbbbbbbbbbbbbbbbbbbbbbbbbb  cccccccccccccccccccccccccccccccccccccccccccccccccc": 8, "aaaaaaaaaaaaaaaaaaaaaaaaaaaaaaaaaaaaaaaaaaaaaaaaaa # bbbbbbbbbbbbbbbbbbbbbbbbbbbbbbbbbbbbbbbbbbbbbbbbbb": 10, "aaaaaaaaaaaaaaaaaaaaaaaaaaaaaaaaaaaaaaaaaaaaaaaaaa: bbbbbbbbbbbbbbbbbbbbbbbbbbbbbbbbbbbbbbbbbbbbbbbbbb": 11, "ab ab ab ab ab ab ab ab ab ab ab ab ab ab ab ab ab ab ab ab \rcd cd cd cd cd cd cd cd cd cd cd cd cd cd cd cd cd cd cd cd ": 15, "ab ab ab ab ab ab ab ab ab ab ab ab ab ab ab ab ab ab ab ab \u{85}cd cd cd cd cd cd cd cd cd cd cd cd cd cd cd cd cd cd cd cd ": 14, "word word word word word word word word word word word word word word word word word word word word word word word word word word word word word word": 3, "word word word word word word word word word word word word word word word word word word word word word word word word word word word word word word\n": 5, "word word word word word word word word word word word word word word word word word word word word word word word word word word word word word word\n\n": 6, "word word word word word word word word word word word word word word word word word word word word word word word word word word word word word word ": 4, "xxxxxxxxxxxxxxxxxxxxxxxxxxxxxxxxxxxxxxxxxxxxxxxxxxxxxxxxxxxxxxxxxxxxxxxxxxxxxxxxxxxxxxxxxxxxxxxxxxxxxxxxxxxxxxxxxxxxxxxx": 7, "日本語 テキスト 日本語 テキスト 日本語 テキスト 日本語 テキスト 日本語 テキスト 日本語 テキスト 日本語 テキスト 日本語 テキスト 日本語 テキスト 日本語 テキスト 日本語 テキスト 日本語 テキスト 日本語 テキスト 日本語 テキスト 日本語 テキスト ": 13} => Ok("\"- lorem ipsum lorem ipsum lorem ipsum lorem ipsum lorem ipsum lorem ipsum lorem ipsum lorem ipsum lorem ipsum lorem ipsum \": 12\n\"12:30\": 0\n2001-12-14: 1\na b: 2\n\"aaaaaaaaaaaaaaaaaaaaaaaaaaaaaaaaaaaaaaaaaaaaaaaaaa\\tbbbbbbbbbbbbbbbbbbbbbbbbbbbbbbbbbbbbbbbbbbbbbbbbbb\\tcccccccccccccccccccccccccccccccccccccccccccccccccc\": 9\naaaaaaaaaaaaaaaaaaaaaaaaaaaaaaaaaaaaaaaaaaaaaaaaaa   bbbbbbbbbbbbbbbbbbbbbbbbbbbbbbbbbbbbbbbbbbbbbbbbbb  cccccccccccccccccccccccccccccccccccccccccccccccccc: 8\n\"aaaaaaaaaaaaaaaaaaaaaaaaaaaaaaaaaaaaaaaaaaaaaaaaaa # bbbbbbbbbbbbbbbbbbbbbbbbbbbbbbbbbbbbbbbbbbbbbbbbbb\": 10\n\"aaaaaaaaaaaaaaaaaaaaaaaaaaaaaaaaaaaaaaaaaaaaaaaaaa: bbbbbbbbbbbbbbbbbbbbbbbbbbbbbbbbbbbbbbbbbbbbbbbbbb\": 11\n\"ab ab ab ab ab ab ab ab ab ab ab ab ab ab ab ab ab ab ab ab \\rcd cd cd cd cd cd cd cd cd cd cd cd cd cd cd cd cd cd cd cd \": 15\n\"ab ab ab ab ab ab ab ab ab ab ab ab ab ab ab ab ab ab ab ab \\u0085cd cd cd cd cd cd cd cd cd cd cd cd cd cd cd cd cd cd cd cd \": 14\nword word word word word word word word word word word word word word word word word word word word word word word word word word word word word word: 3\n\"word word word word word word word word word word word word word word word word word word word word word word word word word word word word word word\\n\": 5\n\"word word word word word word word word word word word word word word word word word word word word word word word word word word word word word word\\n\\n\": 6\n\"word word word word word word word word word word word word word word word word word word word word word word word word word word word word word word \": 4\nxxxxxxxxxxxxxxxxxxxxxxxxxxxxxxxxxxxxxxxxxxxxxxxxxxxxxxxxxxxxxxxxxxxxxxxxxxxxxxxxxxxxxxxxxxxxxxxxxxxxxxxxxxxxxxxxxxxxxxxx: 7\n\"日本語 テキスト 日本語 テキスト 日本語 テキスト 日本語 テキスト 日本語 テキスト 日本語 テキスト 日本語 テキスト 日本語 テキスト 日本語 テキスト 日本語 テキスト 日本語 テキスト 日本語 テキスト 日本語 テキスト 日本語 テキスト 日本語 テキスト \": 13\n") <= SAME
nested [default] {"outer": [{"k00": "12:30", "k01": "2001-12-14", "k02": "a b", "k03": "word word word word word word word word word word word word word word word word word word word word word word word word word word word word word word", "k04": "word word word word word word word word word word word word word word word word word word word word word word word word word word word word word word ", "k05": "word word word word word word word word word word word word word word word word word word word word word word word word word word word word word word\n", "k06": "word word word word word word word word word word word word word word word word word word word word word word word word word word word word word word\n\n", "k07": "xxxxxxxxxxxxxxxxxxxxxxxxxxxxxxxxxxxxxxxxxxxxxxxxxxxxxxxxxxxxxxxxxxxxxxxxxxxxxxxxxxxxxxxxxxxxxxxxxxxxxxxxxxxxxxxxxxxxxxxx", "k08": "aaaaaaaaaaaaaaaaaaaaaaaaaaaaaaaaaaaaaaaaaaaaaaaaaa   bbbbbbbbbbbbbbbbbbbbbbbbbbbbbbbbbbbbbbbbbbbbbbbbbb  cccccccccccccccccccccccccccccccccccccccccccccccccc", "k09": "aaaaaaaaaaaaaaaaaaaaaaaaaaaaaaaaaaaaaaaaaaaaaaaaaa\tbbbbbbbbbbbbbbbbbbbbbbbbbbbbbbbbbbbbbbbbbbbbbbbbbb\tcccccccccccccccccccccccccccccccccccccccccccccccccc", "k10": "aaaaaaaaaaaaaaaaaaaaaaaaaaaaaaaaaaaaaaaaaaaaaaaaaa # bbbbbbbbbbbbbbbbbbbbbbbbbbbbbbbbbbbbbbbbbbbbbbbbbb", "k11": "aaaaaaaaaaaaaaaaaaaaaaaaaaaaaaaaaaaaaaaaaaaaaaaaaa: bbbbbbbbbbbbbbbbbbbbbbbbbbbbbbbbbbbbbbbbbbbbbbbbbb", "k12": "- lorem ipsum lorem ipsum lorem ipsum lorem ipsum lorem ipsum lorem ipsum lorem ipsum lorem ipsum lorem ipsum lorem ipsum ", "k13": "日本語 テキスト 日本語 テキスト 日本語 テキスト 日本語 テキスト 日本語 テキスト 日本語 テキスト 日本語 テキスト 日本語 テキスト 日本語 テキスト 日本語 テキスト 日本語 テキスト 日本語 テキスト 日本語 テキスト 日本語 テキスト 日本語 テキスト ", "k14": "ab ab ab ab ab ab ab ab ab ab ab ab ab ab ab ab ab ab ab ab \u{85}cd cd cd cd cd cd cd cd cd cd cd cd cd cd cd cd cd cd cd cd ", "k15": "ab ab ab ab ab ab ab ab ab ab ab ab ab ab ab ab ab ab ab ab \rcd cd cd cd cd cd cd cd cd cd cd cd cd cd cd cd cd cd cd cd "}, {"k00": "12:30", "k01": "2001-12-14", "k02": "a b", "k03": "word word word word word word word word word word word word word word word word word word word word word word word word word word word word word word", "k04": "word word word word word word word word word word word word word word word word word word word word word word word word word word word word word word ", "k05": "word word word word word word word word word word word word word word word word word word word word word word word word word word word word word word\n", "k06": "word word word word word word word word word word word word word word word word word word word word word word word word word word word word word word\n\n", "k07": "xxxxxxxxxxxxxxxxxxxxxxxxxxxxxxxxxxxxxxxxxxxxxxxxxxxxxxxxxxxxxxxxxxxxxxxxxxxxxxxxxxxxxxxxxxxxxxxxxxxxxxxxxxxxxxxxxxxxxxxx", "k08": "aaaaaaaaaaaaaaaaaaaaaaaaaaaaaaaaaaaaaaaaaaaaaaaaaa   bbbbbbbbbbbbbbbbbbbbbbbbbbbbbbbbbbbbbbbbbbbbbbbbbb  cccccccccccccccccccccccccccccccccccccccccccccccccc", "k09": "aaaaaaaaaaaaaaaaaaaaaaaaaaaaaaaaaaaaaaaaaaaaaaaaaa\tbbbbbbbbbbbbbbbbbbbbbbbbbbbbbbbbbbbbbbbbbbbbbbbbbb\tcccccccccccccccccccccccccccccccccccccccccccccccccc", "k10": "aaaaaaaaaaaaaaaaaaaaaaaaaaaaaaaaaaaaaaaaaaaaaaaaaa # bbbbbbbbbbbbbbbbbbbbbbbbbbbbbbbbbbbbbbbbbbbbbbbbbb", "k11": "aaaaaaaaaaaaaaaaaaaaaaaaaaaaaaaaaaaaaaaaaaaaaaaaaa: bbbbbbbbbbbbbbbbbbbbbbbbbbbbbbbbbbbbbbbbbbbbbbbbbb", "k12": "- lorem ipsum lorem ipsum lorem ipsum lorem ipsum lorem ipsum lorem ipsum lorem ipsum lorem ipsum lorem ipsum lorem ipsum ", "k13": "日本語 テキスト 日本語 テキスト 日本語 テキスト 日本語 テキスト 日本語 テキスト 日本語 テキスト 日本語 テキスト 日本語 テキスト 日本語 テキスト 日本語 テキスト 日本語 テキスト 日本語 テキスト 日本語 テキスト 日本語 テキスト 日本語 テキスト ", "k14": "ab ab ab ab ab ab ab ab ab ab ab ab ab ab ab ab ab ab ab ab \u{85}cd cd cd cd cd cd cd cd cd cd cd cd cd cd cd cd cd cd cd cd ", "k15": "ab ab ab ab ab ab ab ab ab ab ab ab ab ab ab ab ab ab ab ab \rcd cd cd cd cd cd cd cd cd cd cd cd cd cd cd cd cd cd cd cd "}]} => Ok("outer:\n  - k00: 12:30\n    k01: 2001-12-14\n    k02: a b\n    k03: >-\n      word word word word word word word word word word word word word word word word\n      word word word word word word word word word word word word word word\n    k04: >-\n      word word word word word word word word word word word word word word word word\n      word word word word word word word word word word word word word word \n    k05: |\n      word word word word word word word word word word word word word word word word word word word word word word word word word word word word word word\n    k06: |+\n      word word word word word word word word word word word word word word word word word word word word word word word word word word word word word word\n      \n    k07: >-\n      xxxxxxxxxxxxxxxxxxxxxxxxxxxxxxxxxxxxxxxxxxxxxxxxxxxxxxxxxxxxxxxxxxxxxxxxxxxxxxxxxxxxxxxxxxxxxxxxxxxxxxxxxxxxxxxxxxxxxxxx\n    k08: >-\n      aaaaaaaaaaaaaaaaaaaaaaaaaaaaaaaaaaaaaaaaaaaaaaaaaa  \n      bbbbbbbbbbbbbbbbbbbbbbbbbbbbbbbbbbbbbbbbbbbbbbbbbb  cccccccccccccccccccccccccccccccccccccccccccccccccc\n    k09: \"aaaaaaaaaaaaaaaaaaaaaaaaaaaaaaaaaaaaaaaaaaaaaaaaaa\\tbbbbbbbbbbbbbbbbbbbbbbbbbbbbbbbbbbbbbbbbbbbbbbbbbb\\tcccccccccccccccccccccccccccccccccccccccccccccccccc\"\n    k10: \"aaaaaaaaaaaaaaaaaaaaaaaaaaaaaaaaaaaaaaaaaaaaaaaaaa # bbbbbbbbbbbbbbbbbbbbbbbbbbbbbbbbbbbbbbbbbbbbbbbbbb\"\n    k11: \"aaaaaaaaaaaaaaaaaaaaaaaaaaaaaaaaaaaaaaaaaaaaaaaaaa: bbbbbbbbbbbbbbbbbbbbbbbbbbbbbbbbbbbbbbbbbbbbbbbbbb\"\n    k12: \"- lorem ipsum lorem ipsum lorem ipsum lorem ipsum lorem ipsum lorem ipsum lorem ipsum lorem ipsum lorem ipsum lorem ipsum \"\n    k13: >-\n      日本語 テキスト 日本語 テキスト 日本語 テキスト 日本語 テキスト 日本語 テキスト 日本語 テキスト 日本語 テキスト 日本語 テキスト 日本語\n      テキスト 日本語 テキスト 日本語 テキスト 日本語 テキスト 日本語 テキスト 日本語 テキスト 日本語 テキスト \n    k14: \"ab ab ab ab ab ab ab ab ab ab ab ab ab ab ab ab ab ab ab ab \\Ncd cd cd cd cd cd cd cd cd cd cd cd cd cd cd cd cd cd cd cd \"\n    k15: \"ab ab ab ab ab ab ab ab ab ab ab ab ab ab ab ab ab ab ab ab \\rcd cd cd cd cd cd cd cd cd cd cd cd cd cd cd cd cd cd cd cd \"\n  - k00: 12:30\n    k01: 2001-12-14\n    k02: a b\n    k03: >-\n      word word word word word word word word word word word word word word word word\n      word word word word word word word word word word word word word word\n    k04: >-\n      word word word word word word word word word word word word word word word word\n      word word word word word word word word word word word word word word \n    k05: |\n      word word word word word word word word word word word word word word word word word word word word word word word word word word word word word word\n    k06: |+\n      word word word word word word word word word word word word word word word word word word word word word word word word word word word word word word\n      \n    k07: >-\n      xxxxxxxxxxxxxxxxxxxxxxxxxxxxxxxxxxxxxxxxxxxxxxxxxxxxxxxxxxxxxxxxxxxxxxxxxxxxxxxxxxxxxxxxxxxxxxxxxxxxxxxxxxxxxxxxxxxxxxxx\n    k08: >-\n      aaaaaaaaaaaaaaaaaaaaaaaaaaaaaaaaaaaaaaaaaaaaaaaaaa  \n      bbbbbbbbbbbbbbbbbbbbbbbbbbbbbbbbbbbbbbbbbbbbbbbbbb  cccccccccccccccccccccccccccccccccccccccccccccccccc\n    k09: \"aaaaaaaaaaaaaaaaaaaaaaaaaaaaaaaaaaaaaaaaaaaaaaaaaa\\tbbbbbbbbbbbbbbbbbbbbbbbbbbbbbbbbbbbbbbbbbbbbbbbbbb\\tcccccccccccccccccccccccccccccccccccccccccccccccccc\"\n    k10: \"aaaaaaaaaaaaaaaaaaaaaaaaaaaaaaaaaaaaaaaaaaaaaaaaaa # bbbbbbbbbbbbbbbbbbbbbbbbbbbbbbbbbbbbbbbbbbbbbbbbbb\"\n    k11: \"aaaaaaaaaaaaaaaaaaaaaaaaaaaaaaaaaaaaaaaaaaaaaaaaaa: bbbbbbbbbbbbbbbbbbbbbbbbbbbbbbbbbbbbbbbbbbbbbbbbbb\"\n    k12: \"- lorem ipsum lorem ipsum lorem ipsum lorem ipsum lorem ipsum lorem ipsum lorem ipsum lorem ipsum lorem ipsum lorem ipsum \"\n    k13: >-\n      日本語 テキスト 日本語 テキスト 日本語 テキスト 日本語 テキスト 日本語 テキスト 日本語 テキスト 日本語 テキスト 日本語 テキスト 日本語\n      テキスト 日本語 テキスト 日本語 テキスト 日本語 テキスト 日本語 テキスト 日本語 テキスト 日本語 テキスト \n    k14: \"ab ab ab ab ab ab ab ab ab ab ab ab ab ab ab ab ab ab ab ab \\Ncd cd cd cd cd cd cd cd cd cd cd cd cd cd cd cd cd cd cd cd \"\n    k15: \"ab ab ab ab ab ab ab ab ab ab ab ab ab ab ab ab ab ab ab ab \\rcd cd cd cd cd cd cd cd cd cd cd cd cd cd cd cd cd cd cd cd \"\n") <= SAME
mapval [default] {"k00": "lorem ipsum lorem ipsum lorem ipsum lorem ipsum lorem ipsum lorem ipsum \ndolor sit dolor sit dolor sit dolor sit dolor sit dolor sit ", "k01": "  lorem ipsum lorem ipsum lorem ipsum lorem ipsum lorem ipsum lorem ipsum \ndolor: sit dolor: sit dolor: sit dolor: sit dolor: sit dolor: sit \n\n", "k02": "lorem ipsum lorem ipsum lorem ipsum lorem ipsum lorem ipsum lorem ipsum :\ndolor sit dolor sit dolor sit dolor sit dolor sit dolor sit :"} => Ok("k00: |-\n  lorem ipsum lorem ipsum lorem ipsum lorem ipsum lorem ipsum lorem ipsum \n  dolor sit dolor sit dolor sit dolor sit dolor sit dolor sit \nk01: |2+\n    lorem ipsum lorem ipsum lorem ipsum lorem ipsum lorem ipsum lorem ipsum \n  dolor: sit dolor: sit dolor: sit dolor: sit dolor: sit dolor: sit \n  \nk02: |-\n  lorem ipsum lorem ipsum lorem ipsum lorem ipsum lorem ipsum lorem ipsum :\n  dolor sit dolor sit dolor sit dolor sit dolor sit dolor sit :\n") <= SAME
mapkey [default] {"  lorem ipsum lorem ipsum lorem ipsum lorem ipsum lorem ipsum lorem ipsum \ndolor: sit dolor: sit dolor: sit dolor: sit dolor: sit dolor: sit \n\n": 1, "lorem ipsum lorem ipsum lorem ipsum lorem ipsum lorem ipsum lorem ipsum \ndolor sit dolor sit dolor sit dolor sit dolor sit dolor sit ": 0, "lorem ipsum lorem ipsum lorem ipsum lorem ipsum lorem ipsum lorem ipsum :\ndolor sit dolor sit dolor sit dolor sit dolor sit dolor sit :": 2} => Ok("\"  lorem ipsum lorem ipsum lorem ipsum lorem ipsum lorem ipsum lorem ipsum \\ndolor: sit dolor: sit dolor: sit dolor: sit dolor: sit dolor: sit \\n\\n\": 1\n\"lorem ipsum lorem ipsum lorem ipsum lorem ipsum lorem ipsum lorem ipsum \\ndolor sit dolor sit dolor sit dolor sit dolor sit dolor sit \": 0\n\"lorem ipsum lorem ipsum lorem ipsum lorem ipsum lorem ipsum lorem ipsum :\\ndolor sit dolor sit dolor sit dolor sit dolor sit dolor sit :\": 2\n") <= SAME
nested [default] {"outer": [{"k00": "lorem ipsum lorem ipsum lorem ipsum lorem ipsum lorem ipsum lorem ipsum \ndolor sit dolor sit dolor sit dolor sit dolor sit dolor sit ", "k01": "  lorem ipsum lorem ipsum lorem ipsum lorem ipsum lorem ipsum lorem ipsum \ndolor: sit dolor: sit dolor: sit dolor: sit dolor: sit dolor: sit \n\n", "k02": "lorem ipsum lorem ipsum lorem ipsum lorem ipsum lorem ipsum lorem ipsum :\ndolor sit dolor sit dolor sit dolor sit dolor sit dolor sit :"}, {"k00": "lorem ipsum lorem ipsum lorem ipsum lorem ipsum lorem ipsum lorem ipsum \ndolor sit dolor sit dolor sit dolor sit dolor sit dolor sit ", "k01": "  lorem ipsum lorem ipsum lorem ipsum lorem ipsum lorem ipsum lorem ipsum \ndolor: sit dolor: sit dolor: sit dolor: sit dolor: sit dolor: sit \n\n", "k02": "lorem ipsum lorem ipsum lorem ipsum lorem ipsum lorem ipsum lorem ipsum :\ndolor sit dolor sit dolor sit dolor sit dolor sit dolor sit :"}]} => Ok("outer:\n  - k00: |-\n      lorem ipsum lorem ipsum lorem ipsum lorem ipsum lorem ipsum lorem ipsum \n      dolor sit dolor sit dolor sit dolor sit dolor sit dolor sit \n    k01: |2+\n        lorem ipsum lorem ipsum lorem ipsum lorem ipsum lorem ipsum lorem ipsum \n      dolor: sit dolor: sit dolor: sit dolor: sit dolor: sit dolor: sit \n      \n    k02: |-\n      lorem ipsum lorem ipsum lorem ipsum lorem ipsum lorem ipsum lorem ipsum :\n      dolor sit dolor sit dolor sit dolor sit dolor sit dolor sit :\n  - k00: |-\n      lorem ipsum lorem ipsum lorem ipsum lorem ipsum lorem ipsum lorem ipsum \n      dolor sit dolor sit dolor sit dolor sit dolor sit dolor sit \n    k01: |2+\n        lorem ipsum lorem ipsum lorem ipsum lorem ipsum lorem ipsum lorem ipsum \n      dolor: sit dolor: sit dolor: sit dolor: sit dolor: sit dolor: sit \n      \n    k02: |-\n      lorem ipsum lorem ipsum lorem ipsum lorem ipsum lorem ipsum lorem ipsum :\n      dolor sit dolor sit dolor sit dolor sit dolor sit dolor sit :\n") <= SAME
flowseq [default] => Ok("[\"\", \"~\", \"null\", \"NULL\", \"Null\", \"true\", \"False\", \"TRUE\", \"yes\", \"y\", \"No\", \"on\", \"OFF\", \"<<\", \"---\", \"--- a\"]\n") <= SAME
flowmap [default] => Ok("{\"\": \"\", \"---\": \"---\", \"--- a\": \"--- a\", \"<<\": \"<<\", \"False\": \"False\", \"NULL\": \"NULL\", \"No\": \"No\", \"Null\": \"Null\", \"OFF\": \"OFF\", \"TRUE\": \"TRUE\", \"null\": \"null\", \"on\": \"on\", \"true\": \"true\", \"y\": \"y\", \"yes\": \"yes\", \"~\": \"~\"}\n") <= SAME
flowseq [default] => Ok("[---a, \"...\", \"... x\", \".nan\", \".NaN\", \"-.INF\", \"+.inf\", \".inf\", +-.inf, .infx, \"nan\", \"NaN\", \"+inf\", \"-Infinity\", \"infinity\", \"0x1F\"]\n") <= SAME
flowmap [default] => Ok("{+-.inf: +-.inf, \"+.inf\": \"+.inf\", \"+inf\": \"+inf\", ---a: ---a, \"-.INF\": \"-.INF\", \"-Infinity\": \"-Infinity\", \"...\": \"...\", \"... x\": \"... x\", \".NaN\": \".NaN\", \".inf\": \".inf\", .infx: .infx, \".nan\": \".nan\", \"0x1F\": \"0x1F\", \"NaN\": \"NaN\", \"infinity\": \"infinity\", \"nan\": \"nan\"}\n") <= SAME
flowseq [default] => Ok("[\"-0x1f\", \"0o17\", \"0b101\", 0b102, \"1_000\", \"1e9\", \"1E+9\", \"1.\", \".5\", \"+1.5e-3\", 1.5e, \"12345678901234567890123456789\", '-', \"?\", +, '.']\n") <= SAME
flowmap [default] => Ok("{+: +, \"+1.5e-3\": \"+1.5e-3\", \"-\": '-', \"-0x1f\": \"-0x1f\", .: '.', \".5\": \".5\", \"0b101\": \"0b101\", 0b102: 0b102, \"0o17\": \"0o17\", \"1.\": \"1.\", 1.5e: 1.5e, \"12345678901234567890123456789\": \"12345678901234567890123456789\", \"1E+9\": \"1E+9\", \"1_000\": \"1_000\", \"1e9\": \"1e9\", \"?\": \"?\"}\n") <= SAME
flowseq [default] => Ok("['#', \"- a\", -a, \"-\\ta\", ?x, \"? x\", \",a\", \":a\", \"[a\", \"]a\", \"{a\", \"}a\", \"%a\", \"@a\", \"`a\", \"!a\"]\n") <= SAME
flowmap [default] => Ok("{\"!a\": \"!a\", \"#\": '#', \"%a\": \"%a\", \",a\": \",a\", \"-\\ta\": \"-\\ta\", \"- a\": \"- a\", -a: -a, \":a\": \":a\", \"? x\": \"? x\", ?x: ?x, \"@a\": \"@a\", \"[a\": \"[a\", \"]a\": \"]a\", \"`a\": \"`a\", \"{a\": \"{a\", \"}a\": \"}a\"}\n") <= SAME
flowseq [default] => Ok("[\"&a\", \"*a\", \"|a\", \">a\", \"'a\", \"\\\"a\", \"a: b\", a:b, \"a:\", \"a: \", \"a #b\", \"a#b\", \"a,b\", \"a]b\", \"a{b}\", \" lead\"]\n") <= SAME
flowmap [default] => Ok("{\" lead\": \" lead\", \"\\\"a\": \"\\\"a\", \"&a\": \"&a\", \"'a\": \"'a\", \"*a\": \"*a\", \">a\": \">a\", \"a #b\": \"a #b\", \"a#b\": \"a#b\", \"a,b\": \"a,b\", \"a:\": \"a:\", \"a: \": \"a: \", \"a: b\": \"a: b\", \"a:b\": a:b, \"a]b\": \"a]b\", \"a{b}\": \"a{b}\", \"|a\": \"|a\"}\n") <= SAME
flowseq [default] => Ok("[\"trail \", \"\u{a0}nbsp\", \"em\u{2003}\", \"\\uFEFFbom\", mid\u{feff}bom, \"tab\\there\", \"new\\nline\", \"line\\n\", \"line\\n\\n\", \"\\n\", \"\\n\\n\", \"\\n\\n\\n\", \"\\nlead\", \"a\\n\\n\\nb\\n\\n\\n\", \"  indented\\nline\", \"\\n  indented after blank\\n\"]\n") <= SAME
flowmap [default] => Ok("{\"\\n\": \"\\n\", \"\\n\\n\": \"\\n\\n\", \"\\n\\n\\n\": \"\\n\\n\\n\", \"\\n  indented after blank\\n\": \"\\n  indented after blank\\n\", \"\\nlead\": \"\\nlead\", \"  indented\\nline\": \"  indented\\nline\", \"a\\n\\n\\nb\\n\\n\\n\": \"a\\n\\n\\nb\\n\\n\\n\", \"em\u{2003}\": \"em\u{2003}\", \"line\\n\": \"line\\n\", \"line\\n\\n\": \"line\\n\\n\", mid\u{feff}bom: mid\u{feff}bom, \"new\\nline\": \"new\\nline\", \"tab\\there\": \"tab\\there\", \"trail \": \"trail \", \"\u{a0}nbsp\": \"\u{a0}nbsp\", \"\u{feff}bom\": \"\\uFEFFbom\"}\n") <= SAME
flowseq [default] => Ok("[\"a\\n  b\\n\", \"key: v\\nnext\", \"ends with colon:\\nx:\", \"# not comment\\nline\", \"trailing space \\nline\", \"cr\\rhere\", \"crlf\\r\\nhere\", \"\\0\", \"\\a\", \"\\b\", \"\\v\", \"\\f\", \"\\e\", \"\\x01\", \"\\x1F\", \"\\x7F\"]\n") <= SAME
flowmap [default] => Ok("{\"\\u0000\": \"\\0\", \"\\u0001\": \"\\x01\", \"\\u0007\": \"\\a\", \"\\u0008\": \"\\b\", \"\\u000B\": \"\\v\", \"\\u000C\": \"\\f\", \"\\u001B\": \"\\e\", \"\\u001F\": \"\\x1F\", \"# not comment\\nline\": \"# not comment\\nline\", \"a\\n  b\\n\": \"a\\n  b\\n\", \"cr\\rhere\": \"cr\\rhere\", \"crlf\\r\\nhere\": \"crlf\\r\\nhere\", \"ends with colon:\\nx:\": \"ends with colon:\\nx:\", \"key: v\\nnext\": \"key: v\\nnext\", \"trailing space \\nline\": \"trailing space \\nline\", \"\\u007F\": \"\\x7F\"}\n") <= SAME
flowseq [default] => Ok("[\"\\x80\", \"\\N\", \"\\x9F\", \"\\L\", \"\\P\", a\u{2028}b, it's, \"'\", \"''\", say \"hi\", back\\slash, \\, é, 日本語, 😀, 1.0.0]\n") <= SAME
flowmap [default] => Ok("{\"'\": \"'\", \"''\": \"''\", 1.0.0: 1.0.0, \\: \\, a\u{2028}b: a\u{2028}b, back\\slash: back\\slash, it's: it's, say \"hi\": say \"hi\", \"\\u0080\": \"\\x80\", \"\\u0085\": \"\\N\", \"\\u009F\": \"\\x9F\", é: é, \"\u{2028}\": \"\\L\", \"\u{2029}\": \"\\P\", 日本語: 日本語, 😀: 😀}\n") <= SAME
flowseq [default] => Ok("[12:30, 2001-12-14, a b, word word word word word word word word word word word word word word word word word word word word word word word word word word word word word word, \"word word word word word word word word word word word word word word word word word word word word word word word word word word word word word word \", \"word word word word word word word word word word word word word word word word word word word word word word word word word word word word word word\\n\", \"word word word word word word word word word word word word word word word word word word word word word word word word word word word word word word\\n\\n\", xxxxxxxxxxxxxxxxxxxxxxxxxxxxxxxxxxxxxxxxxxxxxxxxxxxxxxxxxxxxxxxxxxxxxxxxxxxxxxxxxxxxxxxxxxxxxxxxxxxxxxxxxxxxxxxxxxxxxxxx, aaaaaaaaaaaaaaaaaaaaaaaaaaaaaaaaaaaaaaaaaaaaaaaaaa   bbbbbbbbbbbbbbbbbbbbbbbbbbbbbbbbbbbbbbbbbbbbbbbbbb  cccccccccccccccccccccccccccccccccccccccccccccccccc, \"aaaaaaaaaaaaaaaaaaaaaaaaaaaaaaaaaaaaaaaaaaaaaaaaaa\\tbbbbbbbbbbbbbbbbbbbbbbbbbbbbbbbbbbbbbbbbbbbbbbbbbb\\tcccccccccccccccccccccccccccccccccccccccccccccccccc\", \"aaaaaaaaaaaaaaaaaaaaaaaaaaaaaaaaaaaaaaaaaaaaaaaaaa # bbbbbbbbbbbbbbbbbbbbbbbbbbbbbbbbbbbbbbbbbbbbbbbbbb\", \"aaaaaaaaaaaaaaaaaaaaaaaaaaaaaaaaaaaaaaaaaaaaaaaaaa: bbbbbbbbbbbbbbbbbbbbbbbbbbbbbbbbbbbbbbbbbbbbbbbbbb\", \"- lorem ipsum lorem ipsum lorem ipsum lorem ipsum lorem ipsum lorem ipsum lorem ipsum lorem ipsum lorem ipsum lorem ipsum \", \"日本語 テキスト 日本語 テキスト 日本語 テキスト 日本語 テキスト 日本語 テキスト 日本語 テキスト 日本語 テキスト 日本語 テキスト 日本語 テキスト 日本語 テキスト 日本語 テキスト 日本語 テキスト 日本語 テキスト 日本語 テキスト 日本語 テキスト \", \"ab ab ab ab ab ab ab ab ab ab ab ab ab ab ab ab ab ab ab ab \\Ncd cd cd cd cd cd cd cd cd cd cd cd cd cd cd cd cd cd cd cd \", \"ab ab ab ab ab ab ab ab ab ab ab ab ab ab ab ab ab ab ab ab \\rcd cd cd cd cd cd cd cd cd cd cd cd cd cd cd cd cd cd cd cd \"]\n") <= SAME
flowmap [default] => Ok("{\"- lorem ipsum lorem ipsum lorem ipsum lorem ipsum lorem ipsum lorem ipsum lorem ipsum lorem ipsum lorem ipsum lorem ipsum \": \"- lorem ipsum lorem ipsum lorem ipsum lorem ipsum lorem ipsum lorem ipsum lorem ipsum lorem ipsum lorem ipsum lorem ipsum \", \"12:30\": 12:30, 2001-12-14: 2001-12-14, a b: a b, \"aaaaaaaaaaaaaaaaaaaaaaaaaaaaaaaaaaaaaaaaaaaaaaaaaa\\tbbbbbbbbbbbbbbbbbbbbbbbbbbbbbbbbbbbbbbbbbbbbbbbbbb\\tcccccccccccccccccccccccccccccccccccccccccccccccccc\": \"aaaaaaaaaaaaaaaaaaaaaaaaaaaaaaaaaaaaaaaaaaaaaaaaaa\\tbbbbbbbbbbbbbbbbbbbbbbbbbbbbbbbbbbbbbbbbbbbbbbbbbb\\tcccccccccccccccccccccccccccccccccccccccccccccccccc\", aaaaaaaaaaaaaaaaaaaaaaaaaaaaaaaaaaaaaaaaaaaaaaaaaa   bbbbbbbbbbbbbbbbbbbbbbbbbbbbbbbbbbbbbbbbbbbbbbbbbb  cccccccccccccccccccccccccccccccccccccccccccccccccc: aaaaaaaaaaaaaaaaaaaaaaaaaaaaaaaaaaaaaaaaaaaaaaaaaa   bbbbbbbbbbbbbbbbbbbbbbbbbbbbbbbbbbbbbbbbbbbbbbbbbb  cccccccccccccccccccccccccccccccccccccccccccccccccc, \"aaaaaaaaaaaaaaaaaaaaaaaaaaaaaaaaaaaaaaaaaaaaaaaaaa # bbbbbbbbbbbbbbbbbbbbbbbbbbbbbbbbbbbbbbbbbbbbbbbbbb\": \"aaaaaaaaaaaaaaaaaaaaaaaaaaaaaaaaaaaaaaaaaaaaaaaaaa # bbbbbbbbbbbbbbbbbbbbbbbbbbbbbbbbbbbbbbbbbbbbbbbbbb\", \"aaaaaaaaaaaaaaaaaaaaaaaaaaaaaaaaaaaaaaaaaaaaaaaaaa: bbbbbbbbbbbbbbbbbbbbbbbbbbbbbbbbbbbbbbbbbbbbbbbbbb\": \"aaaaaaaaaaaaaaaaaaaaaaaaaaaaaaaaaaaaaaaaaaaaaaaaaa: bbbbbbbbbbbbbbbbbbbbbbbbbbbbbbbbbbbbbbbbbbbbbbbbbb\", \"ab ab ab ab ab ab ab ab ab ab ab ab ab ab ab ab ab ab ab ab \\rcd cd cd cd cd cd cd cd cd cd cd cd cd cd cd cd cd cd cd cd \": \"ab ab ab ab ab ab ab ab ab ab ab ab ab ab ab ab ab ab ab ab \\rcd cd cd cd cd cd cd cd cd cd cd cd cd cd cd cd cd cd cd cd \", \"ab ab ab ab ab ab ab ab ab ab ab ab ab ab ab ab ab ab ab ab \\u0085cd cd cd cd cd cd cd cd cd cd cd cd cd cd cd cd cd cd cd cd \": \"ab ab ab ab ab ab ab ab ab ab ab ab ab ab ab ab ab ab ab ab \\Ncd cd cd cd cd cd cd cd cd cd cd cd cd cd cd cd cd cd cd cd \", word word word word word word word word word word word word word word word word word word word word word word word word word word word word word word: word word word word word word word word word word word word word word word word word word word word word word word word word word word word word word, \"word word word word word word word word word word word word word word word word word word word word word word word word word word word word word word\\n\": \"word word word word word word word word word word word word word word word word word word word word word word word word word word word word word word\\n\", \"word word word word word word word word word word word word word word word word word word word word word word word word word word word word word word\\n\\n\": \"word word word word word word word word word word word word word word word word word word word word word word word word word word word word word word\\n\\n\", \"word word word word word word word word word word word word word word word word word word word word word word word word word word word word word word \": \"word word word word word word word word word word word word word word word word word word word word word word word word word word word word word word \", xxxxxxxxxxxxxxxxxxxxxxxxxxxxxxxxxxxxxxxxxxxxxxxxxxxxxxxxxxxxxxxxxxxxxxxxxxxxxxxxxxxxxxxxxxxxxxxxxxxxxxxxxxxxxxxxxxxxxxxx: xxxxxxxxxxxxxxxxxxxxxxxxxxxxxxxxxxxxxxxxxxxxxxxxxxxxxxxxxxxxxxxxxxxxxxxxxxxxxxxxxxxxxxxxxxxxxxxxxxxxxxxxxxxxxxxxxxxxxxxx, \"日本語 テキスト 日本語 テキスト 日本語 テキスト 日本語 テキスト 日本語 テキスト 日本語 テキスト 日本語 テキスト 日本語 テキスト 日本語 テキスト 日本語 テキスト 日本語 テキスト 日本語 テキスト 日本語 テキスト 日本語 テキスト 日本語 テキスト \": \"日本語 テキスト 日本語 テキスト 日本語 テキスト 日本語 テキスト 日本語 テキスト 日本語 テキスト 日本語 テキスト 日本語 テキスト 日本語 テキスト 日本語 テキスト 日本語 テキスト 日本語 テキスト 日本語 テキスト 日本語 テキスト 日本語 テキスト \"}\n") <= SAME
flowseq [default] => Ok("[\"lorem ipsum lorem ipsum lorem ipsum lorem ipsum lorem ipsum lorem ipsum \\ndolor sit dolor sit dolor sit dolor sit dolor sit dolor sit \", \"  lorem ipsum lorem ipsum lorem ipsum lorem ipsum lorem ipsum lorem ipsum \\ndolor: sit dolor: sit dolor: sit dolor: sit dolor: sit dolor: sit \\n\\n\", \"lorem ipsum lorem ipsum lorem ipsum lorem ipsum lorem ipsum lorem ipsum :\\ndolor sit dolor sit dolor sit dolor sit dolor sit dolor sit :\"]\n") <= SAME
flowmap [default] => Ok("{\"  lorem ipsum lorem ipsum lorem ipsum lorem ipsum lorem ipsum lorem ipsum \\ndolor: sit dolor: sit dolor: sit dolor: sit dolor: sit dolor: sit \\n\\n\": \"  lorem ipsum lorem ipsum lorem ipsum lorem ipsum lorem ipsum lorem ipsum \\ndolor: sit dolor: sit dolor: sit dolor: sit dolor: sit dolor: sit \\n\\n\", \"lorem ipsum lorem ipsum lorem ipsum lorem ipsum lorem ipsum lorem ipsum \\ndolor sit dolor sit dolor sit dolor sit dolor sit dolor sit \": \"lorem ipsum lorem ipsum lorem ipsum lorem ipsum lorem ipsum lorem ipsum \\ndolor sit dolor sit dolor sit dolor sit dolor sit dolor sit \", \"lorem ipsum lorem ipsum lorem ipsum lorem ipsum lorem ipsum lorem ipsum :\\ndolor sit dolor sit dolor sit dolor sit dolor sit dolor sit :\": \"lorem ipsum lorem ipsum lorem ipsum lorem ipsum lorem ipsum lorem ipsum :\\ndolor sit dolor sit dolor sit dolor sit dolor sit dolor sit :\"}\n") <= SAME
enum [default] Text("") => Ok("Text: \"\"\n") <= SAME
enum [default] [Pair("", -1)] => Ok("- Pair:\n    - \"\"\n    - -1\n") <= SAME
enum [default] Rec { s: "", c: 'x' } => Ok("Rec:\n  s: \"\"\n  c: x\n") <= SAME
enum [default] Text("NULL") => Ok("Text: \"NULL\"\n") <= SAME
enum [default] [Pair("NULL", -1)] => Ok("- Pair:\n    - \"NULL\"\n    - -1\n") <= SAME
enum [default] Rec { s: "NULL", c: 'N' } => Ok("Rec:\n  s: \"NULL\"\n  c: \"N\"\n") <= SAME
enum [default] Text("False") => Ok("Text: \"False\"\n") <= SAME
enum [default] [Pair("False", -1)] => Ok("- Pair:\n    - \"False\"\n    - -1\n") <= SAME
enum [default] Rec { s: "False", c: 'F' } => Ok("Rec:\n  s: \"False\"\n  c: F\n") <= SAME
enum [default] Text("y") => Ok("Text: \"y\"\n") <= SAME
enum [default] [Pair("y", -1)] => Ok("- Pair:\n    - \"y\"\n    - -1\n") <= SAME
enum [default] Rec { s: "y", c: 'y' } => Ok("Rec:\n  s: \"y\"\n  c: \"y\"\n") <= SAME
enum [default] Text("OFF") => Ok("Text: \"OFF\"\n") <= SAME
enum [default] [Pair("OFF", -1)] => Ok("- Pair:\n    - \"OFF\"\n    - -1\n") <= SAME
enum [default] Rec { s: "OFF", c: 'O' } => Ok("Rec:\n  s: \"OFF\"\n  c: O\n") <= SAME
enum [default] Text("--- a") => Ok("Text: \"--- a\"\n") <= SAME
enum [default] [Pair("--- a", -1)] => Ok("- Pair:\n    - \"--- a\"\n    - -1\n") <= SAME
enum [default] Rec { s: "--- a", c: '-' } => Ok("Rec:\n  s: \"--- a\"\n  c: '-'\n") <= SAME
enum [default] Text("... x") => Ok("Text: \"... x\"\n") <= SAME
enum [default] [Pair("... x", -1)] => Ok("- Pair:\n    - \"... x\"\n    - -1\n") <= SAME
enum [default] Rec { s: "... x", c: '.' } => Ok("Rec:\n  s: \"... x\"\n  c: '.'\n") <= SAME
enum [default] Text("-.INF") => Ok("Text: \"-.INF\"\n") <= SAME
enum [default] [Pair("-.INF", -1)] => Ok("- Pair:\n    - \"-.INF\"\n    - -1\n") <= SAME
enum [default] Rec { s: "-.INF", c: '-' } => Ok("Rec:\n  s: \"-.INF\"\n  c: '-'\n") <= SAME
enum [default] Text("+-.inf") => Ok("Text: +-.inf\n") <= SAME
enum [default] [Pair("+-.inf", -1)] => Ok("- Pair:\n    - +-.inf\n    - -1\n") <= SAME
enum [default] Rec { s: "+-.inf", c: '+' } => Ok("Rec:\n  s: +-.inf\n  c: +\n") <= SAME
enum [default] Text("NaN") => Ok("Text: \"NaN\"\n") <= SAME
enum [default] [Pair("NaN", -1)] => Ok("- Pair:\n    - \"NaN\"\n    - -1\n") <= SAME
enum [default] Rec { s: "NaN", c: 'N' } => Ok("Rec:\n  s: \"NaN\"\n  c: \"N\"\n") <= SAME
enum [default] Text("infinity") => Ok("Text: \"infinity\"\n") <= SAME
enum [default] [Pair("infinity", -1)] => Ok("- Pair:\n    - \"infinity\"\n    - -1\n") <= SAME
enum [default] Rec { s: "infinity", c: 'i' } => Ok("Rec:\n  s: \"infinity\"\n  c: i\n") <= SAME
enum [default] Text("0o17") => Ok("Text: \"0o17\"\n") <= SAME
enum [default] [Pair("0o17", -1)] => Ok("- Pair:\n    - \"0o17\"\n    - -1\n") <= SAME
enum [default] Rec { s: "0o17", c: '0' } => Ok("Rec:\n  s: \"0o17\"\n  c: \"0\"\n") <= SAME
enum [default] Text("1_000") => Ok("Text: \"1_000\"\n") <= SAME
enum [default] [Pair("1_000", -1)] => Ok("- Pair:\n    - \"1_000\"\n    - -1\n") <= SAME
enum [default] Rec { s: "1_000", c: '1' } => Ok("Rec:\n  s: \"1_000\"\n  c: \"1\"\n") <= SAME
enum [default] Text("1.") => Ok("Text: \"1.\"\n") <= SAME
enum [default] [Pair("1.", -1)] => Ok("- Pair:\n    - \"1.\"\n    - -1\n") <= SAME
enum [default] Rec { s: "1.", c: '1' } => Ok("Rec:\n  s: \"1.\"\n  c: \"1\"\n") <= SAME
enum [default] Text("1.5e") => Ok("Text: 1.5e\n") <= SAME
enum [default] [Pair("1.5e", -1)] => Ok("- Pair:\n    - 1.5e\n    - -1\n") <= SAME
enum [default] Rec { s: "1.5e", c: '1' } => Ok("Rec:\n  s: 1.5e\n  c: \"1\"\n") <= SAME
enum [default] Text("?") => Ok("Text: \"?\"\n") <= SAME
enum [default] [Pair("?", -1)] => Ok("- Pair:\n    - \"?\"\n    - -1\n") <= SAME
enum [default] Rec { s: "?", c: '?' } => Ok("Rec:\n  s: \"?\"\n  c: \"?\"\n") <= SAME
enum [default] Text("#") => Ok("Text: '#'\n") <= SAME
enum [default] [Pair("#", -1)] => Ok("- Pair:\n    - '#'\n    - -1\n") <= SAME
enum [default] Rec { s: "#", c: '#' } => Ok("Rec:\n  s: '#'\n  c: '#'\n") <= SAME
enum [default] Text("-\ta") => Ok("Text: \"-\\ta\"\n") <= SAME
enum [default] [Pair("-\ta", -1)] => Ok("- Pair:\n    - \"-\\ta\"\n    - -1\n") <= SAME
enum [default] Rec { s: "-\ta", c: '-' } => Ok("Rec:\n  s: \"-\\ta\"\n  c: '-'\n") <= SAME
enum [default] Text(",a") => Ok("Text: \",a\"\n") <= SAME
enum [default] [Pair(",a", -1)] => Ok("- Pair:\n    - \",a\"\n    - -1\n") <= SAME
enum [default] Rec { s: ",a", c: ',' } => Ok("Rec:\n  s: \",a\"\n  c: \",\"\n") <= SAME
enum [default] Text("]a") => Ok("Text: \"]a\"\n") <= SAME
enum [default] [Pair("]a", -1)] => Ok("- Pair:\n    - \"]a\"\n    - -1\n") <= SAME
enum [default] Rec { s: "]a", c: ']' } => Ok("Rec:\n  s: \"]a\"\n  c: \"]\"\n") <= SAME
enum [default] Text("%a") => Ok("Text: \"%a\"\n") <= SAME
enum [default] [Pair("%a", -1)] => Ok("- Pair:\n    - \"%a\"\n    - -1\n") <= SAME
enum [default] Rec { s: "%a", c: '%' } => Ok("Rec:\n  s: \"%a\"\n  c: \"%\"\n") <= SAME
enum [default] Text("!a") => Ok("Text: \"!a\"\n") <= SAME
enum [default] [Pair("!a", -1)] => Ok("- Pair:\n    - \"!a\"\n    - -1\n") <= SAME
enum [default] Rec { s: "!a", c: '!' } => Ok("Rec:\n  s: \"!a\"\n  c: \"!\"\n") <= SAME
enum [default] Text("|a") => Ok("Text: \"|a\"\n") <= SAME
enum [default] [Pair("|a", -1)] => Ok("- Pair:\n    - \"|a\"\n    - -1\n") <= SAME
enum [default] Rec { s: "|a", c: '|' } => Ok("Rec:\n  s: \"|a\"\n  c: \"|\"\n") <= SAME
enum [default] Text("\"a") => Ok("Text: \"\\\"a\"\n") <= SAME
enum [default] [Pair("\"a", -1)] => Ok("- Pair:\n    - \"\\\"a\"\n    - -1\n") <= SAME
enum [default] Rec { s: "\"a", c: '"' } => Ok("Rec:\n  s: \"\\\"a\"\n  c: \"\\\"\"\n") <= SAME
enum [default] Text("a:") => Ok("Text: \"a:\"\n") <= SAME
enum [default] [Pair("a:", -1)] => Ok("- Pair:\n    - \"a:\"\n    - -1\n") <= SAME
enum [default] Rec { s: "a:", c: 'a' } => Ok("Rec:\n  s: \"a:\"\n  c: a\n") <= SAME
enum [default] Text("a#b") => Ok("Text: \"a#b\"\n") <= SAME
enum [default] [Pair("a#b", -1)] => Ok("- Pair:\n    - \"a#b\"\n    - -1\n") <= SAME
enum [default] Rec { s: "a#b", c: 'a' } => Ok("Rec:\n  s: \"a#b\"\n  c: a\n") <= SAME
enum [default] Text("a{b}") => Ok("Text: a{b}\n") <= SAME
enum [default] [Pair("a{b}", -1)] => Ok("- Pair:\n    - a{b}\n    - -1\n") <= SAME
enum [default] Rec { s: "a{b}", c: 'a' } => Ok("Rec:\n  s: a{b}\n  c: a\n") <= SAME
enum [default] Text("\u{a0}nbsp") => Ok("Text: \"\u{a0}nbsp\"\n") <= SAME
enum [default] [Pair("\u{a0}nbsp", -1)] => Ok("- Pair:\n    - \"\u{a0}nbsp\"\n    - -1\n") <= SAME
enum [default] Rec { s: "\u{a0}nbsp", c: '\u{a0}' } => Ok("Rec:\n  s: \"\u{a0}nbsp\"\n  c: \"\u{a0}\"\n") <= SAME
enum [default] Text("mid\u{feff}bom") => Ok("Text: mid\u{feff}bom\n") <= SAME
enum [default] [Pair("mid\u{feff}bom", -1)] => Ok("- Pair:\n    - mid\u{feff}bom\n    - -1\n") <= SAME
enum [default] Rec { s: "mid\u{feff}bom", c: 'm' } => Ok("Rec:\n  s: mid\u{feff}bom\n  c: m\n") <= SAME
enum [default] Text("line\n") => Ok("Text: |\n  line\n") <= SAME
enum [default] [Pair("line\n", -1)] => Ok("- Pair:\n    - |\n      line\n    - -1\n") <= SAME
enum [default] Rec { s: "line\n", c: 'l' } => Ok("Rec:\n  s: |\n    line\n  c: l\n") <= SAME
enum [default] Text("\n\n") => Ok("Text: \"\\n\\n\"\n") <= SAME
enum [default] [Pair("\n\n", -1)] => Ok("- Pair:\n    - \"\\n\\n\"\n    - -1\n") <= SAME
enum [default] Rec { s: "\n\n", c: '\n' } => Ok("Rec:\n  s: \"\\n\\n\"\n  c: \"\\n\"\n") <= SAME
enum [default] Text("a\n\n\nb\n\n\n") => Ok("Text: |+\n  a\n  \n  \n  b\n  \n  \n") <= SAME
enum [default] [Pair("a\n\n\nb\n\n\n", -1)] => Ok("- Pair:\n    - |+\n      a\n      \n      \n      b\n      \n      \n    - -1\n") <= SAME
enum [default] Rec { s: "a\n\n\nb\n\n\n", c: 'a' } => Ok("Rec:\n  s: |+\n    a\n    \n    \n    b\n    \n    \n  c: a\n") <= SAME
enum [default] Text("a\n  b\n") => Ok("Text: |\n  a\n    b\n") <= SAME
enum [default] [Pair("a\n  b\n", -1)] => Ok("- Pair:\n    - |\n      a\n        b\n    - -1\n") <= SAME
enum [default] Rec { s: "a\n  b\n", c: 'a' } => Ok("Rec:\n  s: |\n    a\n      b\n  c: a\n") <= SAME
enum [default] Text("# not comment\nline") => Ok("Text: \"# not comment\\nline\"\n") <= SAME
enum [default] [Pair("# not comment\nline", -1)] => Ok("- Pair:\n    - \"# not comment\\nline\"\n    - -1\n") <= SAME
enum [default] Rec { s: "# not comment\nline", c: '#' } => Ok("Rec:\n  s: \"# not comment\\nline\"\n  c: '#'\n") <= SAME
enum [default] Text("crlf\r\nhere") => Ok("Text: \"crlf\\r\\nhere\"\n") <= SAME
enum [default] [Pair("crlf\r\nhere", -1)] => Ok("- Pair:\n    - \"crlf\\r\\nhere\"\n    - -1\n") <= SAME
enum [default] Rec { s: "crlf\r\nhere", c: 'c' } => Ok("Rec:\n  s: \"crlf\\r\\nhere\"\n  c: c\n") <= SAME
enum [default] Text("\u{8}") => Ok("Text: \"\\b\"\n") <= SAME
enum [default] [Pair("\u{8}", -1)] => Ok("- Pair:\n    - \"\\b\"\n    - -1\n") <= SAME
enum [default] Rec { s: "\u{8}", c: '\u{8}' } => Ok("Rec:\n  s: \"\\b\"\n  c: \"\\b\"\n") <= SAME
enum [default] Text("\u{1b}") => Ok("Text: \"\\e\"\n") <= SAME
enum [default] [Pair("\u{1b}", -1)] => Ok("- Pair:\n    - \"\\e\"\n    - -1\n") <= SAME
enum [default] Rec { s: "\u{1b}", c: '\u{1b}' } => Ok("Rec:\n  s: \"\\e\"\n  c: \"\\e\"\n") <= SAME
enum [default] Text("\u{7f}") => Ok("Text: \"\\x7F\"\n") <= SAME
enum [default] [Pair("\u{7f}", -1)] => Ok("- Pair:\n    - \"\\x7F\"\n    - -1\n") <= SAME
enum [default] Rec { s: "\u{7f}", c: '\u{7f}' } => Ok("Rec:\n  s: \"\\x7F\"\n  c: \"\\x7F\"\n") <= SAME
enum [default] Text("\u{9f}") => Ok("Text: \"\\x9F\"\n") <= SAME
enum [default] [Pair("\u{9f}", -1)] => Ok("- Pair:\n    - \"\\x9F\"\n    - -1\n") <= SAME
enum [default] Rec { s: "\u{9f}", c: '\u{9f}' } => Ok("Rec:\n  s: \"\\x9F\"\n  c: \"\\x9F\"\n") <= SAME
enum [default] Text("a\u{2028}b") => Ok("Text: a\u{2028}b\n") <= SAME
enum [default] [Pair("a\u{2028}b", -1)] => Ok("- Pair:\n    - a\u{2028}b\n    - -1\n") <= SAME
enum [default] Rec { s: "a\u{2028}b", c: 'a' } => Ok("Rec:\n  s: a\u{2028}b\n  c: a\n") <= SAME
enum [default] Text("''") => Ok("Text: \"''\"\n") <= SAME
enum [default] [Pair("''", -1)] => Ok("- Pair:\n    - \"''\"\n    - -1\n") <= SAME
enum [default] Rec { s: "''", c: '\'' } => Ok("Rec:\n  s: \"''\"\n  c: \"'\"\n") <= SAME
enum [default] Text("\\") => Ok("Text: \\\n") <= SAME
enum [default] [Pair("\\", -1)] => Ok("- Pair:\n    - \\\n    - -1\n") <= SAME
enum [default] Rec { s: "\\", c: '\\' } => Ok("Rec:\n  s: \\\n  c: \\\n") <= SAME
enum [default] Text("😀") => Ok("Text: 😀\n") <= SAME
enum [default] [Pair("😀", -1)] => Ok("- Pair:\n    - 😀\n    - -1\n") <= SAME
enum [default] Rec { s: "😀", c: '😀' } => Ok("Rec:\n  s: 😀\n  c: 😀\n") <= SAME
enum [default] Text("2001-12-14") => Ok("Text: 2001-12-14\n") <= SAME
enum [default] [Pair("2001-12-14", -1)] => Ok("- Pair:\n    - 2001-12-14\n    - -1\n") <= SAME
enum [default] Rec { s: "2001-12-14", c: '2' } => Ok("Rec:\n  s: 2001-12-14\n  c: \"2\"\n") <= SAME
enum [default] Text("word word word word word word word word word word word word word word word word word word word word word word word word word word word word word word ") => Ok("Text: >-\n  word word word word word word word word word word word word word word word word\n  word word word word word word word word word word word word word word \n") <= SAME
enum [default] [Pair("word word word word word word word word word word word word word word word word word word word word word word word word word word word word word word ", -1)] => Ok("- Pair:\n    - >-\n      word word word word word word word word word word word word word word word word\n      word word word word word word word word word word word word word word \n    - -1\n") <= SAME
enum [default] Rec { s: "word word word word word word word word word word word word word word word word word word word word word word word word word word word word word word ", c: 'w' } => Ok("Rec:\n  s: >-\n    word word word word word word word word word word word word word word word word\n    word word word word word word word word word word word word word word \n  c: w\n") <= SAME
enum [default] Text("xxxxxxxxxxxxxxxxxxxxxxxxxxxxxxxxxxxxxxxxxxxxxxxxxxxxxxxxxxxxxxxxxxxxxxxxxxxxxxxxxxxxxxxxxxxxxxxxxxxxxxxxxxxxxxxxxxxxxxxx") => Ok("Text: >-\n  xxxxxxxxxxxxxxxxxxxxxxxxxxxxxxxxxxxxxxxxxxxxxxxxxxxxxxxxxxxxxxxxxxxxxxxxxxxxxxxxxxxxxxxxxxxxxxxxxxxxxxxxxxxxxxxxxxxxxxxx\n") <= SAME
enum [default] [Pair("xxxxxxxxxxxxxxxxxxxxxxxxxxxxxxxxxxxxxxxxxxxxxxxxxxxxxxxxxxxxxxxxxxxxxxxxxxxxxxxxxxxxxxxxxxxxxxxxxxxxxxxxxxxxxxxxxxxxxxxx", -1)] => Ok("- Pair:\n    - >-\n      xxxxxxxxxxxxxxxxxxxxxxxxxxxxxxxxxxxxxxxxxxxxxxxxxxxxxxxxxxxxxxxxxxxxxxxxxxxxxxxxxxxxxxxxxxxxxxxxxxxxxxxxxxxxxxxxxxxxxxxx\n    - -1\n") <= SAME
enum [default] Rec { s: "xxxxxxxxxxxxxxxxxxxxxxxxxxxxxxxxxxxxxxxxxxxxxxxxxxxxxxxxxxxxxxxxxxxxxxxxxxxxxxxxxxxxxxxxxxxxxxxxxxxxxxxxxxxxxxxxxxxxxxxx", c: 'x' } => Ok("Rec:\n  s: >-\n    xxxxxxxxxxxxxxxxxxxxxxxxxxxxxxxxxxxxxxxxxxxxxxxxxxxxxxxxxxxxxxxxxxxxxxxxxxxxxxxxxxxxxxxxxxxxxxxxxxxxxxxxxxxxxxxxxxxxxxxx\n  c: x\n") <= SAME
enum [default] Text("aaaaaaaaaaaaaaaaaaaaaaaaaaaaaaaaaaaaaaaaaaaaaaaaaa # bbbbbbbbbbbbbbbbbbbbbbbbbbbbbbbbbbbbbbbbbbbbbbbbbb") => Ok("Text: \"aaaaaaaaaaaaaaaaaaaaaaaaaaaaaaaaaaaaaaaaaaaaaaaaaa # bbbbbbbbbbbbbbbbbbbbbbbbbbbbbbbbbbbbbbbbbbbbbbbbbb\"\n") <= SAME
enum [default] [Pair("aaaaaaaaaaaaaaaaaaaaaaaaaaaaaaaaaaaaaaaaaaaaaaaaaa # bbbbbbbbbbbbbbbbbbbbbbbbbbbbbbbbbbbbbbbbbbbbbbbbbb", -1)] => Ok("- Pair:\n    - \"aaaaaaaaaaaaaaaaaaaaaaaaaaaaaaaaaaaaaaaaaaaaaaaaaa # bbbbbbbbbbbbbbbbbbbbbbbbbbbbbbbbbbbbbbbbbbbbbbbbbb\"\n    - -1\n") <= SAME
enum [default] Rec { s: "aaaaaaaaaaaaaaaaaaaaaaaaaaaaaaaaaaaaaaaaaaaaaaaaaa # bbbbbbbbbbbbbbbbbbbbbbbbbbbbbbbbbbbbbbbbbbbbbbbbbb", c: 'a' } => Ok("Rec:\n  s: \"aaaaaaaaaaaaaaaaaaaaaaaaaaaaaaaaaaaaaaaaaaaaaaaaaa # bbbbbbbbbbbbbbbbbbbbbbbbbbbbbbbbbbbbbbbbbbbbbbbbbb\"\n  c: a\n") <= SAME
enum [default] Text("日本語 テキスト 日本語 テキスト 日本語 テキスト 日本語 テキスト 日本語 テキスト 日本語 テキスト 日本語 テキスト 日本語 テキスト 日本語 テキスト 日本語 テキスト 日本語 テキスト 日本語 テキスト 日本語 テキスト 日本語 テキスト 日本語 テキスト ") => Ok("Text: >-\n  日本語 テキスト 日本語 テキスト 日本語 テキスト 日本語 テキスト 日本語 テキスト 日本語 テキスト 日本語 テキスト 日本語 テキスト 日本語\n  テキスト 日本語 テキスト 日本語 テキスト 日本語 テキスト 日本語 テキスト 日本語 テキスト 日本語 テキスト \n") <= SAME
enum [default] [Pair("日本語 テキスト 日本語 テキスト 日本語 テキスト 日本語 テキスト 日本語 テキスト 日本語 テキスト 日本語 テキスト 日本語 テキスト 日本語 テキスト 日本語 テキスト 日本語 テキスト 日本語 テキスト 日本語 テキスト 日本語 テキスト 日本語 テキスト ", -1)] => Ok("- Pair:\n    - >-\n      日本語 テキスト 日本語 テキスト 日本語 テキスト 日本語 テキスト 日本語 テキスト 日本語 テキスト 日本語 テキスト 日本語 テキスト 日本語\n      テキスト 日本語 テキスト 日本語 テキスト 日本語 テキスト 日本語 テキスト 日本語 テキスト 日本語 テキスト \n    - -1\n") <= SAME
enum [default] Rec { s: "日本語 テキスト 日本語 テキスト 日本語 テキスト 日本語 テキスト 日本語 テキスト 日本語 テキスト 日本語 テキスト 日本語 テキスト 日本語 テキスト 日本語 テキスト 日本語 テキスト 日本語 テキスト 日本語 テキスト 日本語 テキスト 日本語 テキスト ", c: '日' } => Ok("Rec:\n  s: >-\n    日本語 テキスト 日本語 テキスト 日本語 テキスト 日本語 テキスト 日本語 テキスト 日本語 テキスト 日本語 テキスト 日本語 テキスト 日本語\n    テキスト 日本語 テキスト 日本語 テキスト 日本語 テキスト 日本語 テキスト 日本語 テキスト 日本語 テキスト \n  c: 日\n") <= SAME
enum [default] Text("lorem ipsum lorem ipsum lorem ipsum lorem ipsum lorem ipsum lorem ipsum \ndolor sit dolor sit dolor sit dolor sit dolor sit dolor sit ") => Ok("Text: |-\n  lorem ipsum lorem ipsum lorem ipsum lorem ipsum lorem ipsum lorem ipsum \n  dolor sit dolor sit dolor sit dolor sit dolor sit dolor sit \n") <= SAME
enum [default] [Pair("lorem ipsum lorem ipsum lorem ipsum lorem ipsum lorem ipsum lorem ipsum \ndolor sit dolor sit dolor sit dolor sit dolor sit dolor sit ", -1)] => Ok("- Pair:\n    - |-\n      lorem ipsum lorem ipsum lorem ipsum lorem ipsum lorem ipsum lorem ipsum \n      dolor sit dolor sit dolor sit dolor sit dolor sit dolor sit \n    - -1\n") <= SAME
enum [default] Rec { s: "lorem ipsum lorem ipsum lorem ipsum lorem ipsum lorem ipsum lorem ipsum \ndolor sit dolor sit dolor sit dolor sit dolor sit dolor sit ", c: 'l' } => Ok("Rec:\n  s: |-\n    lorem ipsum lorem ipsum lorem ipsum lorem ipsum lorem ipsum lorem ipsum \n    dolor sit dolor sit dolor sit dolor sit dolor sit dolor sit \n  c: l\n") <= SAME
doc [default] Doc { s: "line one\nline two\n", list: ["  lead\nx", "\n", "~"], opt: None, unit: () } => Ok("s: |\n  line one\n  line two\nlist:\n  - \"  lead\\nx\"\n  - \"\\n\"\n  - \"~\"\nopt: null\nunit: null\n") <= SAME
root [quote_all] "" => Ok("''\n") <= SAME
root [quote_all] "~" => Ok("'~'\n") <= SAME
root [quote_all] "null" => Ok("'null'\n") <= SAME
root [quote_all] "NULL" => Ok("'NULL'\n") <= SAME
root [quote_all] "Null" => Ok("'Null'\n") <= SAME
root [quote_all] "true" => Ok("'true'\n") <= SAME
root [quote_all] "False" => Ok("'False'\n") <= SAME
root [quote_all] "TRUE" => Ok("'TRUE'\n") <= SAME
root [quote_all] "yes" => Ok("'yes'\n") <= SAME
root [quote_all] "y" => Ok("'y'\n") <= SAME
root [quote_all] "No" => Ok("'No'\n") <= SAME
root [quote_all] "on" => Ok("'on'\n") <= SAME
root [quote_all] "OFF" => Ok("'OFF'\n") <= SAME
root [quote_all] "<<" => Ok("'<<'\n") <= SAME
root [quote_all] "---" => Ok("'---'\n") <= SAME
root [quote_all] "--- a" => Ok("'--- a'\n") <= SAME
root [quote_all] "---a" => Ok("'---a'\n") <= SAME
root [quote_all] "..." => Ok("'...'\n") <= SAME
root [quote_all] "... x" => Ok("'... x'\n") <= SAME
root [quote_all] ".nan" => Ok("'.nan'\n") <= SAME
root [quote_all] ".NaN" => Ok("'.NaN'\n") <= SAME
root [quote_all] "-.INF" => Ok("'-.INF'\n") <= SAME
root [quote_all] "+.inf" => Ok("'+.inf'\n") <= SAME
root [quote_all] ".inf" => Ok("'.inf'\n") <= SAME
root [quote_all] "+-.inf" => Ok("'+-.inf'\n") <= SAME
root [quote_all] ".infx" => Ok("'.infx'\n") <= SAME
root [quote_all] "nan" => Ok("'nan'\n") <= SAME
root [quote_all] "NaN" => Ok("'NaN'\n") <= SAME
root [quote_all] "+inf" => Ok("'+inf'\n") <= SAME
root [quote_all] "-Infinity" => Ok("'-Infinity'\n") <= SAME
root [quote_all] "infinity" => Ok("'infinity'\n") <= SAME
root [quote_all] "0x1F" => Ok("'0x1F'\n") <= SAME
root [quote_all] "-0x1f" => Ok("'-0x1f'\n") <= SAME
root [quote_all] "0o17" => Ok("'0o17'\n") <= SAME
root [quote_all] "0b101" => Ok("'0b101'\n") <= SAME
root [quote_all] "0b102" => Ok("'0b102'\n") <= SAME
root [quote_all] "1_000" => Ok("'1_000'\n") <= SAME
root [quote_all] "1e9" => Ok("'1e9'\n") <= SAME
root [quote_all] "1E+9" => Ok("'1E+9'\n") <= SAME
root [quote_all] "1." => Ok("'1.'\n") <= SAME
root [quote_all] ".5" => Ok("'.5'\n") <= SAME
root [quote_all] "+1.5e-3" => Ok("'+1.5e-3'\n") <= SAME
root [quote_all] "1.5e" => Ok("'1.5e'\n") <= SAME
root [quote_all] "12345678901234567890123456789" => Ok("'12345678901234567890123456789'\n") <= SAME
root [quote_all] "-" => Ok("'-'\n") <= SAME
root [quote_all] "?" => Ok("'?'\n") <= SAME
root [quote_all] "+" => Ok("'+'\n") <= SAME
root [quote_all] "." => Ok("'.'\n") <= SAME
root [quote_all] "#" => Ok("'#'\n") <= SAME
root [quote_all] "- a" => Ok("'- a'\n") <= SAME
root [quote_all] "-a" => Ok("'-a'\n") <= SAME
root [quote_all] "-\ta" => Ok("\"-\\ta\"\n") <= SAME
root [quote_all] "?x" => Ok("'?x'\n") <= SAME
root [quote_all] "? x" => Ok("'? x'\n") <= SAME
root [quote_all] ",a" => Ok("',a'\n") <= SAME
root [quote_all] ":a" => Ok("':a'\n") <= SAME
root [quote_all] "[a" => Ok("'[a'\n") <= SAME
root [quote_all] "]a" => Ok("']a'\n") <= SAME
root [quote_all] "{a" => Ok("'{a'\n") <= SAME
root [quote_all] "}a" => Ok("'}a'\n") <= SAME
root [quote_all] "%a" => Ok("'%a'\n") <= SAME
root [quote_all] "@a" => Ok("'@a'\n") <= SAME
root [quote_all] "`a" => Ok("'`a'\n") <= SAME
root [quote_all] "!a" => Ok("'!a'\n") <= SAME
root [quote_all] "&a" => Ok("'&a'\n") <= SAME
root [quote_all] "*a" => Ok("'*a'\n") <= SAME
root [quote_all] "|a" => Ok("'|a'\n") <= SAME
root [quote_all] ">a" => Ok("'>a'\n") <= SAME
root [quote_all] "'a" => Ok("\"'a\"\n") <= SAME
root [quote_all] "\"a" => Ok("'\"a'\n") <= SAME
root [quote_all] "a: b" => Ok("'a: b'\n") <= SAME
root [quote_all] "a:b" => Ok("'a:b'\n") <= SAME
root [quote_all] "a:" => Ok("'a:'\n") <= SAME
root [quote_all] "a: " => Ok("'a: '\n") <= SAME
root [quote_all] "a #b" => Ok("'a #b'\n") <= SAME
root [quote_all] "a#b" => Ok("'a#b'\n") <= SAME
root [quote_all] "a,b" => Ok("'a,b'\n") <= SAME
root [quote_all] "a]b" => Ok("'a]b'\n") <= SAME
root [quote_all] "a{b}" => Ok("'a{b}'\n") <= SAME
root [quote_all] " lead" => Ok("' lead'\n") <= SAME
root [quote_all] "trail " => Ok("'trail '\n") <= SAME
root [quote_all] "\u{a0}nbsp" => Ok("'\u{a0}nbsp'\n") <= SAME
root [quote_all] "em\u{2003}" => Ok("'em\u{2003}'\n") <= SAME
root [quote_all] "\u{feff}bom" => Ok("'\u{feff}bom'\n") <= SAME
root [quote_all] "mid\u{feff}bom" => Ok("'mid\u{feff}bom'\n") <= SAME
root [quote_all] "tab\there" => Ok("\"tab\\there\"\n") <= SAME
root [quote_all] "new\nline" => Ok("\"new\\nline\"\n") <= SAME
root [quote_all] "line\n" => Ok("\"line\\n\"\n") <= SAME
root [quote_all] "line\n\n" => Ok("\"line\\n\\n\"\n") <= SAME
root [quote_all] "\n" => Ok("\"\\n\"\n") <= SAME
root [quote_all] "\n\n" => Ok("\"\\n\\n\"\n") <= SAME
root [quote_all] "\n\n\n" => Ok("\"\\n\\n\\n\"\n") <= SAME
root [quote_all] "\nlead" => Ok("\"\\nlead\"\n") <= SAME
root [quote_all] "a\n\n\nb\n\n\n" => Ok("\"a\\n\\n\\nb\\n\\n\\n\"\n") <= SAME
root [quote_all] "  indented\nline" => Ok("\"  indented\\nline\"\n") <= SAME
root [quote_all] "\n  indented after blank\n" => Ok("\"\\n  indented after blank\\n\"\n") <= SAME
root [quote_all] "a\n  b\n" => Ok("\"a\\n  b\\n\"\n") <= SAME
root [quote_all] "key: v\nnext" => Ok("\"key: v\\nnext\"\n") <= SAME
root [quote_all] "ends with colon:\nx:" => Ok("\"ends with colon:\\nx:\"\n") <= SAME
root [quote_all] "# not comment\nline" => Ok("\"# not comment\\nline\"\n") <= SAME
root [quote_all] "trailing space \nline" => Ok("\"trailing space \\nline\"\n") <= SAME
root [quote_all] "cr\rhere" => Ok("\"cr\\rhere\"\n") <= SAME
root [quote_all] "crlf\r\nhere" => Ok("\"crlf\\r\\nhere\"\n") <= SAME
root [quote_all] "\0" => Ok("\"\\0\"\n") <= SAME
root [quote_all] "\u{7}" => Ok("\"\\a\"\n") <= SAME
root [quote_all] "\u{8}" => Ok("\"\\b\"\n") <= SAME
root [quote_all] "\u{b}" => Ok("\"\\v\"\n") <= SAME
root [quote_all] "\u{c}" => Ok("\"\\f\"\n") <= SAME
root [quote_all] "\u{1b}" => Ok("\"\\e\"\n") <= SAME
root [quote_all] "\u{1}" => Ok("\"\\x01\"\n") <= SAME
root [quote_all] "\u{1f}" => Ok("\"\\x1F\"\n") <= SAME
root [quote_all] "\u{7f}" => Ok("\"\\x7F\"\n") <= SAME
root [quote_all] "\u{80}" => Ok("\"\\x80\"\n") <= SAME
root [quote_all] "\u{85}" => Ok("\"\\N\"\n") <= SAME
root [quote_all] "\u{9f}" => Ok("\"\\x9F\"\n") <= SAME
root [quote_all] "\u{2028}" => Ok("'\u{2028}'\n") <= SAME
root [quote_all] "\u{2029}" => Ok("'\u{2029}'\n") <= SAME
root [quote_all] "a\u{2028}b" => Ok("'a\u{2028}b'\n") <= SAME
root [quote_all] "it's" => Ok("\"it's\"\n") <= SAME
root [quote_all] "'" => Ok("\"'\"\n") <= SAME
root [quote_all] "''" => Ok("\"''\"\n") <= SAME
root [quote_all] "say \"hi\"" => Ok("'say \"hi\"'\n") <= SAME
root [quote_all] "back\\slash" => Ok("\"back\\\\slash\"\n") <= SAME
root [quote_all] "\\" => Ok("\"\\\\\"\n") <= SAME
root [quote_all] "é" => Ok("'é'\n") <= SAME
root [quote_all] "日本語" => Ok("'日本語'\n") <= SAME
root [quote_all] "😀" => Ok("'😀'\n") <= SAME
root [quote_all] "1.0.0" => Ok("'1.0.0'\n") <= SAME
root [quote_all] "12:30" => Ok("'12:30'\n") <= SAME
root [quote_all] "2001-12-14" => Ok("'2001-12-14'\n") <= SAME
root [quote_all] "a b" => Ok("'a b'\n") <= SAME
root [quote_all] "word word word word word word word word word word word word word word word word word word word word word word word word word word word word word word" => Ok("'word word word word word word word word word word word word word word word word word word word word word word word word word word word word word word'\n") <= SAME
root [quote_all] "word word word word word word word word word word word word word word word word word word word word word word word word word word word word word word " => Ok("'word word word word word word word word word word word word word word word word word word word word word word word word word word word word word word '\n") <= SAME
root [quote_all] "word word word word word word word word word word word word word word word word word word word word word word word word word word word word word word\n" => Ok("\"word word word word word word word word word word word word word word word word word word word word word word word word word word word word word word\\n\"\n") <= SAME
root [quote_all] "word word word word word word word word word word word word word word word word word word word word word word word word word word word word word word\n\n" => Ok("\"word word word word word word word word word word word word word word word word word word word word word word word word word word word word word word\\n\\n\"\n") <= SAME
root [quote_all] "xxxxxxxxxxxxxxxxxxxxxxxxxxxxxxxxxxxxxxxxxxxxxxxxxxxxxxxxxxxxxxxxxxxxxxxxxxxxxxxxxxxxxxxxxxxxxxxxxxxxxxxxxxxxxxxxxxxxxxxx" => Ok("'xxxxxxxxxxxxxxxxxxxxxxxxxxxxxxxxxxxxxxxxxxxxxxxxxxxxxxxxxxxxxxxxxxxxxxxxxxxxxxxxxxxxxxxxxxxxxxxxxxxxxxxxxxxxxxxxxxxxxxxx'\n") <= SAME
root [quote_all] "aaaaaaaaaaaaaaaaaaaaaaaaaaaaaaaaaaaaaaaaaaaaaaaaaa   bbbbbbbbbbbbbbbbbbbbbbbbbbbbbbbbbbbbbbbbbbbbbbbbbb  cccccccccccccccccccccccccccccccccccccccccccccccccc" => Ok("'aaaaaaaaaaaaaaaaaaaaaaaaaaaaaaaaaaaaaaaaaaaaaaaaaa   bbbbbbbbbbbbbbbbbbbbbbbbbbbbbbbbbbbbbbbbbbbbbbbbbb  cccccccccccccccccccccccccccccccccccccccccccccccccc'\n") <= SAME
root [quote_all] "aaaaaaaaaaaaaaaaaaaaaaaaaaaaaaaaaaaaaaaaaaaaaaaaaa\tbbbbbbbbbbbbbbbbbbbbbbbbbbbbbbbbbbbbbbbbbbbbbbbbbb\tcccccccccccccccccccccccccccccccccccccccccccccccccc" => Ok("\"aaaaaaaaaaaaaaaaaaaaaaaaaaaaaaaaaaaaaaaaaaaaaaaaaa\\tbbbbbbbbbbbbbbbbbbbbbbbbbbbbbbbbbbbbbbbbbbbbbbbbbb\\tcccccccccccccccccccccccccccccccccccccccccccccccccc\"\n") <= SAME
root [quote_all] "aaaaaaaaaaaaaaaaaaaaaaaaaaaaaaaaaaaaaaaaaaaaaaaaaa # bbbbbbbbbbbbbbbbbbbbbbbbbbbbbbbbbbbbbbbbbbbbbbbbbb" => Ok("'aaaaaaaaaaaaaaaaaaaaaaaaaaaaaaaaaaaaaaaaaaaaaaaaaa # bbbbbbbbbbbbbbbbbbbbbbbbbbbbbbbbbbbbbbbbbbbbbbbbbb'\n") <= SAME
root [quote_all] "aaaaaaaaaaaaaaaaaaaaaaaaaaaaaaaaaaaaaaaaaaaaaaaaaa: bbbbbbbbbbbbbbbbbbbbbbbbbbbbbbbbbbbbbbbbbbbbbbbbbb" => Ok("'aaaaaaaaaaaaaaaaaaaaaaaaaaaaaaaaaaaaaaaaaaaaaaaaaa: bbbbbbbbbbbbbbbbbbbbbbbbbbbbbbbbbbbbbbbbbbbbbbbbbb'\n") <= SAME
root [quote_all] "- lorem ipsum lorem ipsum lorem ipsum lorem ipsum lorem ipsum lorem ipsum lorem ipsum lorem ipsum lorem ipsum lorem ipsum " => Ok("'- lorem ipsum lorem ipsum lorem ipsum lorem ipsum lorem ipsum lorem ipsum lorem ipsum lorem ipsum lorem ipsum lorem ipsum '\n") <= SAME
root [quote_all] "日本語 テキスト 日本語 テキスト 日本語 テキスト 日本語 テキスト 日本語 テキスト 日本語 テキスト 日本語 テキスト 日本語 テキスト 日本語 テキスト 日本語 テキスト 日本語 テキスト 日本語 テキスト 日本語 テキスト 日本語 テキスト 日本語 テキスト " => Ok("'日本語 テキスト 日本語 テキスト 日本語 テキスト 日本語 テキスト 日本語 テキスト 日本語 テキスト 日本語 テキスト 日本語 テキスト 日本語 テキスト 日本語 テキスト 日本語 テキスト 日本語 テキスト 日本語 テキスト 日本語 テキスト 日本語 テキスト '\n") <= SAME
root [quote_all] "ab ab ab ab ab ab ab ab ab ab ab ab ab ab ab ab ab ab ab ab \u{85}cd cd cd cd cd cd cd cd cd cd cd cd cd cd cd cd cd cd cd cd " => Ok("\"ab ab ab ab ab ab ab ab ab ab ab ab ab ab ab ab ab ab ab ab \\Ncd cd cd cd cd cd cd cd cd cd cd cd cd cd cd cd cd cd cd cd \"\n") <= SAME
root [quote_all] "ab ab ab ab ab ab ab ab ab ab ab ab ab ab ab ab ab ab ab ab \rcd cd cd cd cd cd cd cd cd cd cd cd cd cd cd cd cd cd cd cd " => Ok("\"ab ab ab ab ab ab ab ab ab ab ab ab ab ab ab ab ab ab ab ab \\rcd cd cd cd cd cd cd cd cd cd cd cd cd cd cd cd cd cd cd cd \"\n") <= SAME
root [quote_all] "lorem ipsum lorem ipsum lorem ipsum lorem ipsum lorem ipsum lorem ipsum \ndolor sit dolor sit dolor sit dolor sit dolor sit dolor sit " => Ok("\"lorem ipsum lorem ipsum lorem ipsum lorem ipsum lorem ipsum lorem ipsum \\ndolor sit dolor sit dolor sit dolor sit dolor sit dolor sit \"\n") <= SAME
root [quote_all] "  lorem ipsum lorem ipsum lorem ipsum lorem ipsum lorem ipsum lorem ipsum \ndolor: sit dolor: sit dolor: sit dolor: sit dolor: sit dolor: sit \n\n" => Ok("\"  lorem ipsum lorem ipsum lorem ipsum lorem ipsum lorem ipsum lorem ipsum \\ndolor: sit dolor: sit dolor: sit dolor: sit dolor: sit dolor: sit \\n\\n\"\n") <= SAME
root [quote_all] "lorem ipsum lorem ipsum lorem ipsum lorem ipsum lorem ipsum lorem ipsum :\ndolor sit dolor sit dolor sit dolor sit dolor sit dolor sit :" => Ok("\"lorem ipsum lorem ipsum lorem ipsum lorem ipsum lorem ipsum lorem ipsum :\\ndolor sit dolor sit dolor sit dolor sit dolor sit dolor sit :\"\n") <= SAME
seq [quote_all] ["", "~", "null", "NULL", "Null", "true", "False", "TRUE", "yes", "y", "No", "on", "OFF", "<<", "---", "--- a", "---a", "...", "... x", ".nan", ".NaN", "-.INF", "+.inf", ".inf", "+-.inf", ".infx", "nan", "NaN", "+inf", "-Infinity", "infinity", "0x1F", "-0x1f", "0o17", "0b101", "0b102", "1_000", "1e9", "1E+9", "1.", ".5", "+1.5e-3", "1.5e", "12345678901234567890123456789", "-", "?", "+", ".", "#", "- a", "-a", "-\ta", "?x", "? x", ",a", ":a", "[a", "]a", "{a", "}a", "%a", "@a", "`a", "!a", "&a", "*a", "|a", ">a", "'a", "\"a", "a: b", "a:b", "a:", "a: ", "a #b", "a#b", "a,b", "a]b", "a{b}", " lead", "trail ", "\u{a0}nbsp", "em\u{2003}", "\u{feff}bom", "mid\u{feff}bom", "tab\there", "new\nline", "line\n", "line\n\n", "\n", "\n\n", "\n\n\n", "\nlead", "a\n\n\nb\n\n\n", "  indented\nline", "\n  indented after blank\n", "a\n  b\n", "key: v\nnext", "ends with colon:\nx:", "# not comment\nline", "trailing space \nline", "cr\rhere", "crlf\r\nhere", "\0", "\u{7}", "\u{8}", "\u{b}", "\u{c}", "\u{1b}", "\u{1}", "\u{1f}", "\u{7f}", "\u{80}", "\u{85}", "\u{9f}", "\u{2028}", "\u{2029}", "a\u{2028}b", "it's", "'", "''", "say \"hi\"", "back\\slash", "\\", "é", "日本語", "😀", "1.0.0", "12:30", "2001-12-14", "a b", "word word word word word word word word word word word word word word word word word word word word word word word word word word word word word word", "word word word word word word word word word word word word word word word word word word word word word word word word word word word word word word ", "word word word word word word word word word word word word word word word word word word word word word word word word word word word word word word\n", "word word word word word word word word word word word word word word word word word word word word word word word word word word word word word word\n\n", "xxxxxxxxxxxxxxxxxxxxxxxxxxxxxxxxxxxxxxxxxxxxxxxxxxxxxxxxxxxxxxxxxxxxxxxxxxxxxxxxxxxxxxxxxxxxxxxxxxxxxxxxxxxxxxxxxxxxxxxx", "aaaaaaaaaaaaaaaaaaaaaaaaaaaaaaaaaaaaaaaaaaaaaaaaaa   bbbbbbbbbbbbbbbbbbbbbbbbbbbbbbbbbbbbbbbbbbbbbbbbbb  cccccccccccccccccccccccccccccccccccccccccccccccccc", "aaaaaaaaaaaaaaaaaaaaaaaaaaaaaaaaaaaaaaaaaaaaaaaaaa\tbbbbbbbbbbbbbbbbbbbbbbbbbbbbbbbbbbbbbbbbbbbbbbbbbb\tcccccccccccccccccccccccccccccccccccccccccccccccccc", "aaaaaaaaaaaaaaaaaaaaaaaaaaaaaaaaaaaaaaaaaaaaaaaaaa # bbbbbbbbbbbbbbbbbbbbbbbbbbbbbbbbbbbbbbbbbbbbbbbbbb", "aaaaaaaaaaaaaaaaaaaaaaaaaaaaaaaaaaaaaaaaaaaaaaaaaa: bbbbbbbbbbbbbbbbbbbbbbbbbbbbbbbbbbbbbbbbbbbbbbbbbb", "- lorem ipsum lorem ipsum lorem ipsum lorem ipsum lorem ipsum lorem ipsum lorem ipsum lorem ipsum lorem ipsum lorem ipsum ", "日本語 テキスト 日本語 テキスト 日本語 テキスト 日本語 テキスト 日本語 テキスト 日本語 テキスト 日本語 テキスト 日本語 テキスト 日本語 テキスト 日本語 テキスト 日本語 テキスト 日本語 テキスト 日本語 テキスト 日本語 テキスト 日本語 テキスト ", "ab ab ab ab ab ab ab ab ab ab ab ab ab ab ab ab ab ab ab ab \u{85}cd cd cd cd cd cd cd cd cd cd cd cd cd cd cd cd cd cd cd cd ", "ab ab ab ab ab ab ab ab ab ab ab ab ab ab ab ab ab ab ab ab \rcd cd cd cd cd cd cd cd cd cd cd cd cd cd cd cd cd cd cd cd ", "lorem ipsum lorem ipsum lorem ipsum lorem ipsum lorem ipsum lorem ipsum \ndolor sit dolor sit dolor sit dolor sit dolor sit dolor sit ", "  lorem ipsum lorem ipsum lorem ipsum lorem ipsum lorem ipsum lorem ipsum \ndolor: sit dolor: sit dolor: sit dolor: sit dolor: sit dolor: sit \n\n", "lorem ipsum lorem ipsum lorem ipsum lorem ipsum lorem ipsum lorem ipsum :\ndolor sit dolor sit dolor sit dolor sit dolor sit dolor sit :"] => Ok("- ''\n- '~'\n- 'null'\n- 'NULL'\n- 'Null'\n- 'true'\n- 'False'\n- 'TRUE'\n- 'yes'\n- 'y'\n- 'No'\n- 'on'\n- 'OFF'\n- '<<'\n- '---'\n- '--- a'\n- '---a'\n- '...'\n- '... x'\n- '.nan'\n- '.NaN'\n- '-.INF'\n- '+.inf'\n- '.inf'\n- '+-.inf'\n- '.infx'\n- 'nan'\n- 'NaN'\n- '+inf'\n- '-Infinity'\n- 'infinity'\n- '0x1F'\n- '-0x1f'\n- '0o17'\n- '0b101'\n- '0b102'\n- '1_000'\n- '1e9'\n- '1E+9'\n- '1.'\n- '.5'\n- '+1.5e-3'\n- '1.5e'\n- '12345678901234567890123456789'\n- '-'\n- '?'\n- '+'\n- '.'\n- '#'\n- '- a'\n- '-a'\n- \"-\\ta\"\n- '?x'\n- '? x'\n- ',a'\n- ':a'\n- '[a'\n- ']a'\n- '{a'\n- '}a'\n- '%a'\n- '@a'\n- '`a'\n- '!a'\n- '&a'\n- '*a'\n- '|a'\n- '>a'\n- \"'a\"\n- '\"a'\n- 'a: b'\n- 'a:b'\n- 'a:'\n- 'a: '\n- 'a #b'\n- 'a#b'\n- 'a,b'\n- 'a]b'\n- 'a{b}'\n- ' lead'\n- 'trail '\n- '\u{a0}nbsp'\n- 'em\u{2003}'\n- '\u{feff}bom'\n- 'mid\u{feff}bom'\n- \"tab\\there\"\n- \"new\\nline\"\n- \"line\\n\"\n- \"line\\n\\n\"\n- \"\\n\"\n- \"\\n\\n\"\n- \"\\n\\n\\n\"\n- \"\\nlead\"\n- \"a\\n\\n\\nb\\n\\n\\n\"\n- \"  indented\\nline\"\n- \"\\n  indented after blank\\n\"\n- \"a\\n  b\\n\"\n- \"key: v\\nnext\"\n- \"ends with colon:\\nx:\"\n- \"# not comment\\nline\"\n- \"trailing space \\nline\"\n- \"cr\\rhere\"\n- \"crlf\\r\\nhere\"\n- \"\\0\"\n- \"\\a\"\n- \"\\b\"\n- \"\\v\"\n- \"\\f\"\n- \"\\e\"\n- \"\\x01\"\n- \"\\x1F\"\n- \"\\x7F\"\n- \"\\x80\"\n- \"\\N\"\n- \"\\x9F\"\n- '\u{2028}'\n- '\u{2029}'\n- 'a\u{2028}b'\n- \"it's\"\n- \"'\"\n- \"''\"\n- 'say \"hi\"'\n- \"back\\\\slash\"\n- \"\\\\\"\n- 'é'\n- '日本語'\n- '😀'\n- '1.0.0'\n- '12:30'\n- '2001-12-14'\n- 'a b'\n- 'word word word word word word word word word word word word word word word word word word word word word word word word word word word word word word'\n- 'word word word word word word word word word word word word word word word word word word word word word word word word word word word word word word '\n- \"word word word word word word word word word word word word word word word word word word word word word word word word word word word word word word\\n\"\n- \"word word word word word word word word word word word word word word word word word word word word word word word word word word word word word word\\n\\n\"\n- 'xxxxxxxxxxxxxxxxxxxxxxxxxxxxxxxxxxxxxxxxxxxxxxxxxxxxxxxxxxxxxxxxxxxxxxxxxxxxxxxxxxxxxxxxxxxxxxxxxxxxxxxxxxxxxxxxxxxxxxxx'\n- 'aaaaaaaaaaaaaaaaaaaaaaaaaaaaaaaaaaaaaaaaaaaaaaaaaa   bbbbbbbbbbbbbbbbbbbbbbbbbbbbbbbbbbbbbbbbbbbbbbbbbb  cccccccccccccccccccccccccccccccccccccccccccccccccc'\n- \"aaaaaaaaaaaaaaaaaaaaaaaaaaaaaaaaaaaaaaaaaaaaaaaaaa\\tbbbbbbbbbbbbbbbbbbbbbbbbbbbbbbbbbbbbbbbbbbbbbbbbbb\\tcccccccccccccccccccccccccccccccccccccccccccccccccc\"\n- 'aaaaaaaaaaaaaaaaaaaaaaaaaaaaaaaaaaaaaaaaaaaaaaaaaa # bbbbbbbbbbbbbbbbbbbbbbbbbbbbbbbbbbbbbbbbbbbbbbbbbb'\n- 'aaaaaaaaaaaaaaaaaaaaaaaaaaaaaaaaaaaaaaaaaaaaaaaaaa: bbbbbbbbbbbbbbbbbbbbbbbbbbbbbbbbbbbbbbbbbbbbbbbbbb'\n- '- lorem ipsum lorem ipsum lorem ipsum lorem ipsum lorem ipsum lorem ipsum lorem ipsum lorem ipsum lorem ipsum lorem ipsum '\n- '日本語 テキスト 日本語 テキスト 日本語 テキスト 日本語 テキスト 日本語 テキスト 日本語 テキスト 日本語 テキスト 日本語 テキスト 日本語 テキスト 日本語 テキスト 日本語 テキスト 日本語 テキスト 日本語 テキスト 日本語 テキスト 日本語 テキスト '\n- \"ab ab ab ab ab ab ab ab ab ab ab ab ab ab ab ab ab ab ab ab \\Ncd cd cd cd cd cd cd cd cd cd cd cd cd cd cd cd cd cd cd cd \"\n- \"ab ab ab ab ab ab ab ab ab ab ab ab ab ab ab ab ab ab ab ab \\rcd cd cd cd cd cd cd cd cd cd cd cd cd cd cd cd cd cd cd cd \"\n- \"lorem ipsum lorem ipsum lorem ipsum lorem ipsum lorem ipsum lorem ipsum \\ndolor sit dolor sit dolor sit dolor sit dolor sit dolor sit \"\n- \"  lorem ipsum lorem ipsum lorem ipsum lorem ipsum lorem ipsum lorem ipsum \\ndolor: sit dolor: sit dolor: sit dolor: sit dolor: sit dolor: sit \\n\\n\"\n- \"lorem ipsum lorem ipsum lorem ipsum lorem ipsum lorem ipsum lorem ipsum :\\ndolor sit dolor sit dolor sit dolor sit dolor sit dolor sit :\"\n") <= SAME
mapval [quote_all] {"k00": "", "k01": "~", "k02": "null", "k03": "NULL", "k04": "Null", "k05": "true", "k06": "False", "k07": "TRUE", "k08": "yes", "k09": "y", "k10": "No", "k11": "on", "k12": "OFF", "k13": "<<", "k14": "---", "k15": "--- a"} => Ok("k00: ''\nk01: '~'\nk02: 'null'\nk03: 'NULL'\nk04: 'Null'\nk05: 'true'\nk06: 'False'\nk07: 'TRUE'\nk08: 'yes'\nk09: 'y'\nk10: 'No'\nk11: 'on'\nk12: 'OFF'\nk13: '<<'\nk14: '---'\nk15: '--- a'\n") <= SAME
mapkey [quote_all] {"": 0, "---": 14, "--- a": 15, "<<": 13, "False": 6, "NULL": 3, "No": 10, "Null": 4, "OFF": 12, "TRUE": 7, "null": 2, "on": 11, "true": 5, "y": 9, "yes": 8, "~": 1} => Ok("\"\": 0\n\"---\": 14\n\"--- a\": 15\n\"<<\": 13\n\"False\": 6\n\"NULL\": 3\n\"No\": 10\n\"Null\": 4\n\"OFF\": 12\n\"TRUE\": 7\n\"null\": 2\n\"on\": 11\n\"true\": 5\n\"y\": 9\n\"yes\": 8\n\"~\": 1\n") <= SAME
nested [quote_all] {"outer": [{"k00": "", "k01": "~", "k02": "null", "k03": "NULL", "k04": "Null", "k05": "true", "k06": "False", "k07": "TRUE", "k08": "yes", "k09": "y", "k10": "No", "k11": "on", "k12": "OFF", "k13": "<<", "k14": "---", "k15": "--- a"}, {"k00": "", "k01": "~", "k02": "null", "k03": "NULL", "k04": "Null", "k05": "true", "k06": "False", "k07": "TRUE", "k08": "yes", "k09": "y", "k10": "No", "k11": "on", "k12": "OFF", "k13": "<<", "k14": "---", "k15": "--- a"}]} => Ok("outer:\n  - k00: ''\n    k01: '~'\n    k02: 'null'\n    k03: 'NULL'\n    k04: 'Null'\n    k05: 'true'\n    k06: 'False'\n    k07: 'TRUE'\n    k08: 'yes'\n    k09: 'y'\n    k10: 'No'\n    k11: 'on'\n    k12: 'OFF'\n    k13: '<<'\n    k14: '---'\n    k15: '--- a'\n  - k00: ''\n    k01: '~'\n    k02: 'null'\n    k03: 'NULL'\n    k04: 'Null'\n    k05: 'true'\n    k06: 'False'\n    k07: 'TRUE'\n    k08: 'yes'\n    k09: 'y'\n    k10: 'No'\n    k11: 'on'\n    k12: 'OFF'\n    k13: '<<'\n    k14: '---'\n    k15: '--- a'\n") <= SAME
mapval [quote_all] {"k00": "---a", "k01": "...", "k02": "... x", "k03": ".nan", "k04": ".NaN", "k05": "-.INF", "k06": "+.inf", "k07": ".inf", "k08": "+-.inf", "k09": ".infx", "k10": "nan", "k11": "NaN", "k12": "+inf", "k13": "-Infinity", "k14": "infinity", "k15": "0x1F"} => Ok("k00: '---a'\nk01: '...'\nk02: '... x'\nk03: '.nan'\nk04: '.NaN'\nk05: '-.INF'\nk06: '+.inf'\nk07: '.inf'\nk08: '+-.inf'\nk09: '.infx'\nk10: 'nan'\nk11: 'NaN'\nk12: '+inf'\nk13: '-Infinity'\nk14: 'infinity'\nk15: '0x1F'\n") <= SAME
mapkey [quote_all] {"+-.inf": 8, "+.inf": 6, "+inf": 12, "---a": 0, "-.INF": 5, "-Infinity": 13, "...": 1, "... x": 2, ".NaN": 4, ".inf": 7, ".infx": 9, ".nan": 3, "0x1F": 15, "NaN": 11, "infinity": 14, "nan": 10} => Ok("+-.inf: 8\n\"+.inf\": 6\n\"+inf\": 12\n---a: 0\n\"-.INF\": 5\n\"-Infinity\": 13\n\"...\": 1\n\"... x\": 2\n\".NaN\": 4\n\".inf\": 7\n.infx: 9\n\".nan\": 3\n\"0x1F\": 15\n\"NaN\": 11\n\"infinity\": 14\n\"nan\": 10\n") <= SAME
nested [quote_all] {"outer": [{"k00": "---a", "k01": "...", "k02": "... x", "k03": ".nan", "k04": ".NaN", "k05": "-.INF", "k06": "+.inf", "k07": ".inf", "k08": "+-.inf", "k09": ".infx", "k10": "nan", "k11": "NaN", "k12": "+inf", "k13": "-Infinity", "k14": "infinity", "k15": "0x1F"}, {"k00": "---a", "k01": "...", "k02": "... x", "k03": ".nan", "k04": ".NaN", "k05": "-.INF", "k06": "+.inf", "k07": ".inf", "k08": "+-.inf", "k09": ".infx", "k10": "nan", "k11": "NaN", "k12": "+inf", "k13": "-Infinity", "k14": "infinity", "k15": "0x1F"}]} => Ok("outer:\n  - k00: '---a'\n    k01: '...'\n    k02: '... x'\n    k03: '.nan'\n    k04: '.NaN'\n    k05: '-.INF'\n    k06: '+.inf'\n    k07: '.inf'\n    k08: '+-.inf'\n    k09: '.infx'\n    k10: 'nan'\n    k11: 'NaN'\n    k12: '+inf'\n    k13: '-Infinity'\n    k14: 'infinity'\n    k15: '0x1F'\n  - k00: '---a'\n    k01: '...'\n    k02: '... x'\n    k03: '.nan'\n    k04: '.NaN'\n    k05: '-.INF'\n    k06: '+.inf'\n    k07: '.inf'\n    k08: '+-.inf'\n    k09: '.infx'\n    k10: 'nan'\n    k11: 'NaN'\n    k12: '+inf'\n    k13: '-Infinity'\n    k14: 'infinity'\n    k15: '0x1F'\n") <= SAME
mapval [quote_all] {"k00": "-0x1f", "k01": "0o17", "k02": "0b101", "k03": "0b102", "k04": "1_000", "k05": "1e9", "k06": "1E+9", "k07": "1.", "k08": ".5", "k09": "+1.5e-3", "k10": "1.5e", "k11": "12345678901234567890123456789", "k12": "-", "k13": "?", "k14": "+", "k15": "."} => Ok("k00: '-0x1f'\nk01: '0o17'\nk02: '0b101'\nk03: '0b102'\nk04: '1_000'\nk05: '1e9'\nk06: '1E+9'\nk07: '1.'\nk08: '.5'\nk09: '+1.5e-3'\nk10: '1.5e'\nk11: '12345678901234567890123456789'\nk12: '-'\nk13: '?'\nk14: '+'\nk15: '.'\n") <= SAME
mapkey [quote_all] {"+": 14, "+1.5e-3": 9, "-": 12, "-0x1f": 0, ".": 15, ".5": 8, "0b101": 2, "0b102": 3, "0o17": 1, "1.": 7, "1.5e": 10, "12345678901234567890123456789": 11, "1E+9": 6, "1_000": 4, "1e9": 5, "?": 13} => Ok("+: 14\n\"+1.5e-3\": 9\n\"-\": 12\n\"-0x1f\": 0\n.: 15\n\".5\": 8\n\"0b101\": 2\n0b102: 3\n\"0o17\": 1\n\"1.\": 7\n1.5e: 10\n\"12345678901234567890123456789\": 11\n\"1E+9\": 6\n\"1_000\": 4\n\"1e9\": 5\n\"?\": 13\n") <= SAME
nested [quote_all] {"outer": [{"k00": "-0x1f", "k01": "0o17", "k02": "0b101", "k03": "0b102", "k04": "1_000", "k05": "1e9", "k06": "1E+9", "k07": "1.", "k08": ".5", "k09": "+1.5e-3", "k10": "1.5e", "k11": "12345678901234567890123456789", "k12": "-", "k13": "?", "k14": "+", "k15": "."}, {"k00": "-0x1f", "k01": "0o17", "k02": "0b101", "k03": "0b102", "k04": "1_000", "k05": "1e9", "k06": "1E+9", "k07": "1.", "k08": ".5", "k09": "+1.5e-3", "k10": "1.5e", "k11": "12345678901234567890123456789", "k12": "-", "k13": "?", "k14": "+", "k15": "."}]} => Ok("outer:\n  - k00: '-0x1f'\n    k01: '0o17'\n    k02: '0b101'\n    k03: '0b102'\n    k04: '1_000'\n    k05: '1e9'\n    k06: '1E+9'\n    k07: '1.'\n    k08: '.5'\n    k09: '+1.5e-3'\n    k10: '1.5e'\n    k11: '12345678901234567890123456789'\n    k12: '-'\n    k13: '?'\n    k14: '+'\n    k15: '.'\n  - k00: '-0x1f'\n    k01: '0o17'\n    k02: '0b101'\n    k03: '0b102'\n    k04: '1_000'\n    k05: '1e9'\n    k06: '1E+9'\n    k07: '1.'\n    k08: '.5'\n    k09: '+1.5e-3'\n    k10: '1.5e'\n    k11: '12345678901234567890123456789'\n    k12: '-'\n    k13: '?'\n    k14: '+'\n    k15: '.'\n") <= SAME
mapval [quote_all] {"k00": "#", "k01": "- a", "k02": "-a", "k03": "-\ta", "k04": "?x", "k05": "? x", "k06": ",a", "k07": ":a", "k08": "[a", "k09": "]a", "k10": "{a", "k11": "}a", "k12": "%a", "k13": "@a", "k14": "`a", "k15": "!a"} => Ok("k00: '#'\nk01: '- a'\nk02: '-a'\nk03: \"-\\ta\"\nk04: '?x'\nk05: '? x'\nk06: ',a'\nk07: ':a'\nk08: '[a'\nk09: ']a'\nk10: '{a'\nk11: '}a'\nk12: '%a'\nk13: '@a'\nk14: '`a'\nk15: '!a'\n") <= SAME
mapkey [quote_all] {"!a": 15, "#": 0, "%a": 12, ",a": 6, "-\ta": 3, "- a": 1, "-a": 2, ":a": 7, "? x": 5, "?x": 4, "@a": 13, "[a": 8, "]a": 9, "`a": 14, "{a": 10, "}a": 11} => Ok("\"!a\": 15\n\"#\": 0\n\"%a\": 12\n\",a\": 6\n\"-\\ta\": 3\n\"- a\": 1\n-a: 2\n\":a\": 7\n\"? x\": 5\n?x: 4\n\"@a\": 13\n\"[a\": 8\n\"]a\": 9\n\"`a\": 14\n\"{a\": 10\n\"}a\": 11\n") <= SAME
nested [quote_all] {"outer": [{"k00": "#", "k01": "- a", "k02": "-a", "k03": "-\ta", "k04": "?x", "k05": "? x", "k06": ",a", "k07": ":a", "k08": "[a", "k09": "]a", "k10": "{a", "k11": "}a", "k12": "%a", "k13": "@a", "k14": "`a", "k15": "!a"}, {"k00": "#", "k01": "- a", "k02": "-a", "k03": "-\ta", "k04": "?x", "k05": "? x", "k06": ",a", "k07": ":a", "k08": "[a", "k09": "]a", "k10": "{a", "k11": "}a", "k12": "%a", "k13": "@a", "k14": "`a", "k15": "!a"}]} => Ok("outer:\n  - k00: '#'\n    k01: '- a'\n    k02: '-a'\n    k03: \"-\\ta\"\n    k04: '?x'\n    k05: '? x'\n    k06: ',a'\n    k07: ':a'\n    k08: '[a'\n    k09: ']a'\n    k10: '{a'\n    k11: '}a'\n    k12: '%a'\n    k13: '@a'\n    k14: '`a'\n    k15: '!a'\n  - k00: '#'\n    k01: '- a'\n    k02: '-a'\n    k03: \"-\\ta\"\n    k04: '?x'\n    k05: '? x'\n    k06: ',a'\n    k07: ':a'\n    k08: '[a'\n    k09: ']a'\n    k10: '{a'\n    k11: '}a'\n    k12: '%a'\n    k13: '@a'\n    k14: '`a'\n    k15: '!a'\n") <= SAME
mapval [quote_all] {"k00": "&a", "k01": "*a", "k02": "|a", "k03": ">a", "k04": "'a", "k05": "\"a", "k06": "a: b", "k07": "a:b", "k08": "a:", "k09": "a: ", "k10": "a #b", "k11": "a#b", "k12": "a,b", "k13": "a]b", "k14": "a{b}", "k15": " lead"} => Ok("k00: '&a'\nk01: '*a'\nk02: '|a'\nk03: '>a'\nk04: \"'a\"\nk05: '\"a'\nk06: 'a: b'\nk07: 'a:b'\nk08: 'a:'\nk09: 'a: '\nk10: 'a #b'\nk11: 'a#b'\nk12: 'a,b'\nk13: 'a]b'\nk14: 'a{b}'\nk15: ' lead'\n") <= SAME
mapkey [quote_all] {" lead": 15, "\"a": 5, "&a": 0, "'a": 4, "*a": 1, ">a": 3, "a #b": 10, "a#b": 11, "a,b": 12, "a:": 8, "a: ": 9, "a: b": 6, "a:b": 7, "a]b": 13, "a{b}": 14, "|a": 2} => Ok("\" lead\": 15\n\"\\\"a\": 5\n\"&a\": 0\n\"'a\": 4\n\"*a\": 1\n\">a\": 3\n\"a #b\": 10\n\"a#b\": 11\n\"a,b\": 12\n\"a:\": 8\n\"a: \": 9\n\"a: b\": 6\n\"a:b\": 7\n\"a]b\": 13\n\"a{b}\": 14\n\"|a\": 2\n") <= SAME
nested [quote_all] {"outer": [{"k00": "&a", "k01": "*a", "k02": "|a", "k03": ">a", "k04": "'a", "k05": "\"a", "k06": "a: b", "k07": "a:b", "k08": "a:", "k09": "a: ", "k10": "a #b", "k11": "a#b", "k12": "a,b", "k13": "a]b", "k14": "a{b}", "k15": " lead"}, {"k00": "&a", "k01": "*a", "k02": "|a", "k03": ">a", "k04": "'a", "k05": "\"a", "k06": "a: b", "k07": "a:b", "k08": "a:", "k09": "a: ", "k10": "a #b", "k11": "a#b", "k12": "a,b", "k13": "a]b", "k14": "a{b}", "k15": " lead"}]} => Ok("outer:\n  - k00: '&a'\n    k01: '*a'\n    k02: '|a'\n    k03: '>a'\n    k04: \"'a\"\n    k05: '\"a'\n    k06: 'a: b'\n    k07: 'a:b'\n    k08: 'a:'\n    k09: 'a: '\n    k10: 'a #b'\n    k11: 'a#b'\n    k12: 'a,b'\n    k13: 'a]b'\n    k14: 'a{b}'\n    k15: ' lead'\n  - k00: '&a'\n    k01: '*a'\n    k02: '|a'\n    k03: '>a'\n    k04: \"'a\"\n    k05: '\"a'\n    k06: 'a: b'\n    k07: 'a:b'\n    k08: 'a:'\n    k09: 'a: '\n    k10: 'a #b'\n    k11: 'a#b'\n    k12: 'a,b'\n    k13: 'a]b'\n    k14: 'a{b}'\n    k15: ' lead'\n") <= SAME
mapval [quote_all] {"k00": "trail ", "k01": "\u{a0}nbsp", "k02": "em\u{2003}", "k03": "\u{feff}bom", "k04": "mid\u{feff}bom", "k05": "tab\there", "k06": "new\nline", "k07": "line\n", "k08": "line\n\n", "k09": "\n", "k10": "\n\n", "k11": "\n\n\n", "k12": "\nlead", "k13": "a\n\n\nb\n\n\n", "k14": "  indented\nline", "k15": "\n  indented after blank\n"} => Ok("k00: 'trail '\nk01: '\u{a0}nbsp'\nk02: 'em\u{2003}'\nk03: '\u{feff}bom'\nk04: 'mid\u{feff}bom'\nk05: \"tab\\there\"\nk06: \"new\\nline\"\nk07: \"line\\n\"\nk08: \"line\\n\\n\"\nk09: \"\\n\"\nk10: \"\\n\\n\"\nk11: \"\\n\\n\\n\"\nk12: \"\\nlead\"\nk13: \"a\\n\\n\\nb\\n\\n\\n\"\nk14: \"  indented\\nline\"\nk15: \"\\n  indented after blank\\n\"\n") <= SAME
mapkey [quote_all] {"\n": 9, "\n\n": 10, "\n\n\n": 11, "\n  indented after blank\n": 15, "\nlead": 12, "  indented\nline": 14, "a\n\n\nb\n\n\n": 13, "em\u{2003}": 2, "line\n": 7, "line\n\n": 8, "mid\u{feff}bom": 4, "new\nline": 6, "tab\there": 5, "trail ": 0, "\u{a0}nbsp": 1, "\u{feff}bom": 3} => Ok("\"\\n\": 9\n\"\\n\\n\": 10\n\"\\n\\n\\n\": 11\n\"\\n  indented after blank\\n\": 15\n\"\\nlead\": 12\n\"  indented\\nline\": 14\n\"a\\n\\n\\nb\\n\\n\\n\": 13\n\"em\u{2003}\": 2\n\"line\\n\": 7\n\"line\\n\\n\": 8\nmid\u{feff}bom: 4\n\"new\\nline\": 6\n\"tab\\there\": 5\n\"trail \": 0\n\"\u{a0}nbsp\": 1\n\"\u{feff}bom\": 3\n") <= SAME
nested [quote_all] {"outer": [{"k00": "trail ", "k01": "\u{a0}nbsp", "k02": "em\u{2003}", "k03": "\u{feff}bom", "k04": "mid\u{feff}bom", "k05": "tab\there", "k06": "new\nline", "k07": "line\n", "k08": "line\n\n", "k09": "\n", "k10": "\n\n", "k11": "\n\n\n", "k12": "\nlead", "k13": "a\n\n\nb\n\n\n", "k14": "  indented\nline", "k15": "\n  indented after blank\n"}, {"k00": "trail ", "k01": "\u{a0}nbsp", "k02": "em\u{2003}", "k03": "\u{feff}bom", "k04": "mid\u{feff}bom", "k05": "tab\there", "k06": "new\nline", "k07": "line\n", "k08": "line\n\n", "k09": "\n", "k10": "\n\n", "k11": "\n\n\n", "k12": "\nlead", "k13": "a\n\n\nb\n\n\n", "k14": "  indented\nline", "k15": "\n  indented after blank\n"}]} => Ok("outer:\n  - k00: 'trail '\n    k01: '\u{a0}nbsp'\n    k02: 'em\u{2003}'\n    k03: '\u{feff}bom'\n    k04: 'mid\u{feff}bom'\n    k05: \"tab\\there\"\n    k06: \"new\\nline\"\n    k07: \"line\\n\"\n    k08: \"line\\n\\n\"\n    k09: \"\\n\"\n    k10: \"\\n\\n\"\n    k11: \"\\n\\n\\n\"\n    k12: \"\\nlead\"\n    k13: \"a\\n\\n\\nb\\n\\n\\n\"\n    k14: \"  indented\\nline\"\n    k15: \"\\n  indented after blank\\n\"\n  - k00: 'trail '\n    k01: '\u{a0}nbsp'\n    k02: 'em\u{2003}'\n    k03: '\u{feff}bom'\n    k04: 'mid\u{feff}bom'\n    k05: \"tab\\there\"\n    k06: \"new\\nline\"\n    k07: \"line\\n\"\n    k08: \"line\\n\\n\"\n    k09: \"\\n\"\n    k10: \"\\n\\n\"\n    k11: \"\\n\\n\\n\"\n    k12: \"\\nlead\"\n    k13: \"a\\n\\n\\nb\\n\\n\\n\"\n    k14: \"  indented\\nline\"\n    k15: \"\\n  indented after blank\\n\"\n") <= SAME
mapval [quote_all] {"k00": "a\n  b\n", "k01": "key: v\nnext", "k02": "ends with colon:\nx:", "k03": "# not comment\nline", "k04": "trailing space \nline", "k05": "cr\rhere", "k06": "crlf\r\nhere", "k07": "\0", "k08": "\u{7}", "k09": "\u{8}", "k10": "\u{b}", "k11": "\u{c}", "k12": "\u{1b}", "k13": "\u{1}", "k14": "\u{1f}", "k15": "\u{7f}"} => Ok("k00: \"a\\n  b\\n\"\nk01: \"key: v\\nnext\"\nk02: \"ends with colon:\\nx:\"\nk03: \"# not comment\\nline\"\nk04: \"trailing space \\nline\"\nk05: \"cr\\rhere\"\nk06: \"crlf\\r\\nhere\"\nk07: \"\\0\"\nk08: \"\\a\"\nk09: \"\\b\"\nk10: \"\\v\"\nk11: \"\\f\"\nk12: \"\\e\"\nk13: \"\\x01\"\nk14: \"\\x1F\"\nk15: \"\\x7F\"\n") <= SAME
mapkey [quote_all] {"\0": 7, "\u{1}": 13, "\u{7}": 8, "\u{8}": 9, "\u{b}": 10, "\u{c}": 11, "\u{1b}": 12, "\u{1f}": 14, "# not comment\nline": 3, "a\n  b\n": 0, "cr\rhere": 5, "crlf\r\nhere": 6, "ends with colon:\nx:": 2, "key: v\nnext": 1, "trailing space \nline": 4, "\u{7f}": 15} => Ok("\"\\u0000\": 7\n\"\\u0001\": 13\n\"\\u0007\": 8\n\"\\u0008\": 9\n\"\\u000B\": 10\n\"\\u000C\": 11\n\"\\u001B\": 12\n\"\\u001F\": 14\n\"# not comment\\nline\": 3\n\"a\\n  b\\n\": 0\n\"cr\\rhere\": 5\n\"crlf\\r\\nhere\": 6\n\"ends with colon:\\nx:\": 2\n\"key: v\\nnext\": 1\n\"trailing space \\nline\": 4\n\"\\u007F\": 15\n") <= SAME
nested [quote_all] {"outer": [{"k00": "a\n  b\n", "k01": "key: v\nnext", "k02": "ends with colon:\nx:", "k03": "# not comment\nline", "k04": "trailing space \nline", "k05": "cr\rhere", "k06": "crlf\r\nhere", "k07": "\0", "k08": "\u{7}", "k09": "\u{8}", "k10": "\u{b}", "k11": "\u{c}", "k12": "\u{1b}", "k13": "\u{1}", "k14": "\u{1f}", "k15": "\u{7f}"}, {"k00": "a\n  b\n", "k01": "key: v\nnext", "k02": "ends with colon:\nx:", "k03": "# not comment\nline", "k04": "trailing space \nline", "k05": "cr\rhere", "k06": "crlf\r\nhere", "k07": "\0", "k08": "\u{7}", "k09": "\u{8}", "k10": "\u{b}", "k11": "\u{c}", "k12": "\u{1b}", "k13": "\u{1}", "k14": "\u{1f}", "k15": "\u{7f}"}]} => Ok("outer:\n  - k00: \"a\\n  b\\n\"\n    k01: \"key: v\\nnext\"\n    k02: \"ends with colon:\\nx:\"\n    k03: \"# not comment\\nline\"\n    k04: \"trailing space \\nline\"\n    k05: \"cr\\rhere\"\n    k06: \"crlf\\r\\nhere\"\n    k07: \"\\0\"\n    k08: \"\\a\"\n    k09: \"\\b\"\n    k10: \"\\v\"\n    k11: \"\\f\"\n    k12: \"\\e\"\n    k13: \"\\x01\"\n    k14: \"\\x1F\"\n    k15: \"\\x7F\"\n  - k00: \"a\\n  b\\n\"\n    k01: \"key: v\\nnext\"\n    k02: \"ends with colon:\\nx:\"\n    k03: \"# not comment\\nline\"\n    k04: \"trailing space \\nline\"\n    k05: \"cr\\rhere\"\n    k06: \"crlf\\r\\nhere\"\n    k07: \"\\0\"\n    k08: \"\\a\"\n    k09: \"\\b\"\n    k10: \"\\v\"\n    k11: \"\\f\"\n    k12: \"\\e\"\n    k13: \"\\x01\"\n    k14: \"\\x1F\"\n    k15: \"\\x7F\"\n") <= SAME
mapval [quote_all] {"k00": "\u{80}", "k01": "\u{85}", "k02": "\u{9f}", "k03": "\u{2028}", "k04": "\u{2029}", "k05": "a\u{2028}b", "k06": "it's", "k07": "'", "k08": "''", "k09": "say \"hi\"", "k10": "back\\slash", "k11": "\\", "k12": "é", "k13": "日本語", "k14": "😀", "k15": "1.0.0"} => Ok("k00: \"\\x80\"\nk01: \"\\N\"\nk02: \"\\x9F\"\nk03: '\u{2028}'\nk04: '\u{2029}'\nk05: 'a\u{2028}b'\nk06: \"it's\"\nk07: \"'\"\nk08: \"''\"\nk09: 'say \"hi\"'\nk10: \"back\\\\slash\"\nk11: \"\\\\\"\nk12: 'é'\nk13: '日本語'\nk14: '😀'\nk15: '1.0.0'\n") <= SAME
mapkey [quote_all] {"'": 7, "''": 8, "1.0.0": 15, "\\": 11, "a\u{2028}b": 5, "back\\slash": 10, "it's": 6, "say \"hi\"": 9, "\u{80}": 0, "\u{85}": 1, "\u{9f}": 2, "é": 12, "\u{2028}": 3, "\u{2029}": 4, "日本語": 13, "😀": 14} => Ok("\"'\": 7\n\"''\": 8\n1.0.0: 15\n\\: 11\na\u{2028}b: 5\nback\\slash: 10\nit's: 6\nsay \"hi\": 9\n\"\\u0080\": 0\n\"\\u0085\": 1\n\"\\u009F\": 2\né: 12\n\"\u{2028}\": 3\n\"\u{2029}\": 4\n日本語: 13\n😀: 14\n") <= SAME
nested [quote_all] {"outer": [{"k00": "\u{80}", "k01": "\u{85}", "k02": "\u{9f}", "k03": "\u{2028}", "k04": "\u{2029}", "k05": "a\u{2028}b", "k06": "it's", "k07": "'", "k08": "''", "k09": "say \"hi\"", "k10": "back\\slash", "k11": "\\", "k12": "é", "k13": "日本語", "k14": "😀", "k15": "1.0.0"}, {"k00": "\u{80}", "k01": "\u{85}", "k02": "\u{9f}", "k03": "\u{2028}", "k04": "\u{2029}", "k05": "a\u{2028}b", "k06": "it's", "k07": "'", "k08": "''", "k09": "say \"hi\"", "k10": "back\\slash", "k11": "\\", "k12": "é", "k13": "日本語", "k14": "😀", "k15": "1.0.0"}]} => Ok("outer:\n  - k00: \"\\x80\"\n    k01: \"\\N\"\n    k02: \"\\x9F\"\n    k03: '\u{2028}'\n    k04: '\u{2029}'\n    k05: 'a\u{2028}b'\n    k06: \"it's\"\n    k07: \"'\"\n    k08: \"''\"\n    k09: 'say \"hi\"'\n    k10: \"back\\\\slash\"\n    k11: \"\\\\\"\n    k12: 'é'\n    k13: '日本語'\n    k14: '😀'\n    k15: '1.0.0'\n  - k00: \"\\x80\"\n    k01: \"\\N\"\n    k02: \"\\x9F\"\n    k03: '\u{2028}'\n    k04: '\u{2029}'\n    k05: 'a\u{2028}b'\n    k06: \"it's\"\n    k07: \"'\"\n    k08: \"''\"\n    k09: 'say \"hi\"'\n    k10: \"back\\\\slash\"\n    k11: \"\\\\\"\n    k12: 'é'\n    k13: '日本語'\n    k14: '😀'\n    k15: '1.0.0'\n") <= SAME
mapval [quote_all] {"k00": "12:30", "k01": "2001-12-14", "k02": "a b", "k03": "word word word word word word word word word word word word word word word word word word word word word word word word word word word word word word", "k04": "word word word word word word word word word word word word word word word word word word word word word word word word word word word word word word ", "k05": "word word word word word word word word word word word word word word word word word word word word word word word word word word word word word word\n", "k06": "word word word word word word word word word word word word word word word word word word word word word word word word word word word word word word\n\n", "k07": "xxxxxxxxxxxxxxxxxxxxxxxxxxxxxxxxxxxxxxxxxxxxxxxxxxxxxxxxxxxxxxxxxxxxxxxxxxxxxxxxxxxxxxxxxxxxxxxxxxxxxxxxxxxxxxxxxxxxxxxx", "k08": "aaaaaaaaaaaaaaaaaaaaaaaaaaaaaaaaaaaaaaaaaaaaaaaaaa   bbbbbbbbbbbbbbbbbbbbbbbbbbbbbbbbbbbbbbbbbbbbbbbbbb  cccccccccccccccccccccccccccccccccccccccccccccccccc", "k09": "aaaaaaaaaaaaaaaaaaaaaaaaaaaaaaaaaaaaaaaaaaaaaaaaaa\tbbbbbbbbbbbbbbbbbbbbbbbbbbbbbbbbbbbbbbbbbbbbbbbbbb\tcccccccccccccccccccccccccccccccccccccccccccccccccc", "k10": "aaaaaaaaaaaaaaaaaaaaaaaaaaaaaaaaaaaaaaaaaaaaaaaaaa # bbbbbbbbbbbbbbbbbbbbbbbbbbbbbbbbbbbbbbbbbbbbbbbbbb", "k11": "aaaaaaaaaaaaaaaaaaaaaaaaaaaaaaaaaaaaaaaaaaaaaaaaaa: bbbbbbbbbbbbbbbbbbbbbbbbbbbbbbbbbbbbbbbbbbbbbbbbbb", "k12": "- lorem ipsum lorem ipsum lorem ipsum lorem ipsum lorem ipsum lorem ipsum lorem ipsum lorem ipsum lorem ipsum lorem ipsum ", "k13": "日本語 テキスト 日本語 テキスト 日本語 テキスト 日本語 テキスト 日本語 テキスト 日本語 テキスト 日本語 テキスト 日本語 テキスト 日本語 テキスト 日本語 テキスト 日本語 テキスト 日本語 テキスト 日本語 テキスト 日本語 テキスト 日本語 テキスト ", "k14": "ab ab ab ab ab ab ab ab ab ab ab ab ab ab ab ab ab ab ab ab \u{85}cd cd cd cd cd cd cd cd cd cd cd cd cd cd cd cd cd cd cd cd ", "k15": "ab ab ab ab ab ab ab ab ab ab ab ab ab ab ab ab ab ab ab ab \rcd cd cd cd cd cd cd cd cd cd cd cd cd cd cd cd cd cd cd cd "} => Ok("k00: '12:30'\nk01: '2001-12-14'\nk02: 'a b'\nk03: 'word word word word word word word word word word word word word word word word word word word word word word word word word word word word word word'\nk04: 'word word word word word word word word word word word word word word word word word word word word word word word word word word word word word word '\nk05: \"word word word word word word word word word word word word word word word word word word word word word word word word word word word word word word\\n\"\nk06: \"word word word word word word word word word word word word word word word word word word word word word word word word word word word word word word\\n\\n\"\nk07: 'xxxxxxxxxxxxxxxxxxxxxxxxxxxxxxxxxxxxxxxxxxxxxxxxxxxxxxxxxxxxxxxxxxxxxxxxxxxxxxxxxxxxxxxxxxxxxxxxxxxxxxxxxxxxxxxxxxxxxxxx'\nk08: 'aaaaaaaaaaaaaaaaaaaaaaaaaaaaaaaaaaaaaaaaaaaaaaaaaa   bbbbbbbbbbbbbbbbbbbbbbbbbbbbbbbbbbbbbbbbbbbbbbbbbb  cccccccccccccccccccccccccccccccccccccccccccccccccc'\nk09: \"aaaaaaaaaaaaaaaaaaaaaaaaaaaaaaaaaaaaaaaaaaaaaaaaaa\\tbbbbbbbbbbbbbbbbbbbbbbbbbbbbbbbbbbbbbbbbbbbbbbbbbb\\tcccccccccccccccccccccccccccccccccccccccccccccccccc\"\nk10: 'aaaaaaaaaaaaaaaaaaaaaaaaaaaaaaaaaaaaaaaaaaaaaaaaaa # bbbbbbbbbbbbbbbbbbbbbbbbbbbbbbbbbbbbbbbbbbbbbbbbbb'\nk11: 'aaaaaaaaaaaaaaaaaaaaaaaaaaaaaaaaaaaaaaaaaaaaaaaaaa: bbbbbbbbbbbbbbbbbbbbbbbbbbbbbbbbbbbbbbbbbbbbbbbbbb'\nk12: '- lorem ipsum lorem ipsum lorem ipsum lorem ipsum lorem ipsum lorem ipsum lorem ipsum lorem ipsum lorem ipsum lorem ipsum '\nk13: '日本語 テキスト 日本語 テキスト 日本語 テキスト 日本語 テキスト 日本語 テキスト 日本語 テキスト 日本語 テキスト 日本語 テキスト 日本語 テキスト 日本語 テキスト 日本語 テキスト 日本語 テキスト 日本語 テキスト 日本語 テキスト 日本語 テキスト '\nk14: \"ab ab ab ab ab ab ab ab ab ab ab ab ab ab ab ab ab ab ab ab \\Ncd cd cd cd cd cd cd cd cd cd cd cd cd cd cd cd cd cd cd cd \"\nk15: \"ab ab ab ab ab ab ab ab ab ab ab ab ab ab ab ab ab ab ab ab \\rcd cd cd cd cd cd cd cd cd cd cd cd cd cd cd cd cd cd cd cd \"\n") <= SAME
mapkey [quote_all] {"- lorem ipsum lorem ipsum lorem ipsum lorem ipsum lorem ipsum lorem ipsum lorem ipsum lorem ipsum lorem ipsum lorem ipsum ": 12, "12:30": 0, "2001-12-14": 1, "a b": 2, "aaaaaaaaaaaaaaaaaaaaaaaaaaaaaaaaaaaaaaaaaaaaaaaaaa\tbbbbbbbbbbbbbbbbbbbbbbbbbbbbbbbbbbbbbbbbbbbbbbbbbb\tcccccccccccccccccccccccccccccccccccccccccccccccccc": 9, "aaaaaaaaaaaaaaaaaaaaaaaaaaaaaaaaaaaaaaaaaaaaaaaaaa   bbbbbbbbbbbbbbbbbbbbbbbbbbbbbbbbbbbbbbbbbbbbbbbbbb  cccccccccccccccccccccccccccccccccccccccccccccccccc": 8, "aaaaaaaaaaaaaaaaaaaaaaaaaaaaaaaaaaaaaaaaaaaaaaaaaa # bbbbbbbbbbbbbbbbbbbbbbbbbbbbbbbbbbbbbbbbbbbbbbbbbb": 10, "aaaaaaaaaaaaaaaaaaaaaaaaaaaaaaaaaaaaaaaaaaaaaaaaaa: bbbbbbbbbbbbbbbbbbbbbbbbbbbbbbbbbbbbbbbbbbbbbbbbbb": 11, "ab ab ab ab ab ab ab ab ab ab ab ab ab ab ab ab ab ab ab ab \rcd cd cd cd cd cd cd cd cd cd cd cd cd cd cd cd cd cd cd cd ": 15, "ab ab ab ab ab ab ab ab ab ab ab ab ab ab ab ab ab ab ab ab \u{85}cd cd cd cd cd cd cd cd cd cd cd cd cd cd cd cd cd cd cd cd ": 14, "word word word word word word word word word word word word word word word word word word word word word word word word word word word word word word": 3, "word word word word word word word word word word word word word word word word word word word word word word word word word word word word word word\n": 5, "word word word word word word word word word word word word word word word word word word word word word word word word word word word word word word\n\n": 6, "word word word word word word word word word word word word word word word word word word word word word word word word word word word word word word ": 4, "xxxxxxxxxxxxxxxxxxxxxxxxxxxxxxxxxxxxxxxxxxxxxxxxxxxxxxxxxxxxxxxxxxxxxxxxxxxxxxxxxxxxxxxxxxxxxxxxxxxxxxxxxxxxxxxxxxxxxxxx": 7, "日本語 テキスト 日本語 テキスト 日本語 テキスト 日本語 テキスト 日本語 テキスト 日本語 テキスト 日本語 テキスト 日本語 テキスト 日本語 テキスト 日本語 テキスト 日本語 テキスト 日本語 テキスト 日本語 テキスト 日本語 テキスト 日本語 テキスト ": 13} => Ok("\"- lorem ipsum lorem ipsum lorem ipsum lorem ipsum lorem ipsum lorem ipsum lorem ipsum lorem ipsum lorem ipsum lorem ipsum \": 12\n\"12:30\": 0\n2001-12-14: 1\na b: 2\n\"aaaaaaaaaaaaaaaaaaaaaaaaaaaaaaaaaaaaaaaaaaaaaaaaaa\\tbbbbbbbbbbbbbbbbbbbbbbbbbbbbbbbbbbbbbbbbbbbbbbbbbb\\tcccccccccccccccccccccccccccccccccccccccccccccccccc\": 9\naaaaaaaaaaaaaaaaaaaaaaaaaaaaaaaaaaaaaaaaaaaaaaaaaa   bbbbbbbbbbbbbbbbbbbbbbbbbbbbbbbbbbbbbbbbbbbbbbbbbb  cccccccccccccccccccccccccccccccccccccccccccccccccc: 8\n\"aaaaaaaaaaaaaaaaaaaaaaaaaaaaaaaaaaaaaaaaaaaaaaaaaa # bbbbbbbbbbbbbbbbbbbbbbbbbbbbbbbbbbbbbbbbbbbbbbbbbb\": 10\n\"aaaaaaaaaaaaaaaaaaaaaaaaaaaaaaaaaaaaaaaaaaaaaaaaaa: bbbbbbbbbbbbbbbbbbbbbbbbbbbbbbbbbbbbbbbbbbbbbbbbbb\": 11\n\"ab ab ab ab ab ab ab ab ab ab ab ab ab ab ab ab ab ab ab ab \\rcd cd cd cd cd cd cd cd cd cd cd cd cd cd cd cd cd cd cd cd \": 15\n\"ab ab ab ab ab ab ab ab ab ab ab ab ab ab ab ab ab ab ab ab \\u0085cd cd cd cd cd cd cd cd cd cd cd cd cd cd cd cd cd cd cd cd \": 14\nword word word word word word word word word word word word word word word word word word word word word word word word word word word word word word: 3\n\"word word word word word word word word word word word word word word word word word word word word word word word word word word word word word word\\n\": 5\n\"word word word word word word word word word word word word word word word word word word word word word word word word word word word word word word\\n\\n\": 6\n\"word word word word word word word word word word word word word word word word word word word word word word word word word word word word word word \": 4\nxxxxxxxxxxxxxxxxxxxxxxxxxxxxxxxxxxxxxxxxxxxxxxxxxxxxxxxxxxxxxxxxxxxxxxxxxxxxxxxxxxxxxxxxxxxxxxxxxxxxxxxxxxxxxxxxxxxxxxxx: 7\n\"日本語 テキスト 日本語 テキスト 日本語 テキスト 日本語 テキスト 日本語 テキスト 日本語 テキスト 日本語 テキスト 日本語 テキスト 日本語 テキスト 日本語 テキスト 日本語 テキスト 日本語 テキスト 日本語 テキスト 日本語 テキスト 日本語 テキスト \": 13\n") <= SAME
nested [quote_all] {"outer": [{"k00": "12:30", "k01": "2001-12-14", "k02": "a b", "k03": "word word word word word word word word word word word word word word word word word word word word word word word word word word word word word word", "k04": "word word word word word word word word word word word word word word word word word word word word word word word word word word word word word word ", "k05": "word word word word word word word word word word word word word word word word word word word word word word word word word word word word word word\n", "k06": "word word word word word word word word word word word word word word word word word word word word word word word word word word word word word word\n\n", "k07": "xxxxxxxxxxxxxxxxxxxxxxxxxxxxxxxxxxxxxxxxxxxxxxxxxxxxxxxxxxxxxxxxxxxxxxxxxxxxxxxxxxxxxxxxxxxxxxxxxxxxxxxxxxxxxxxxxxxxxxxx", "k08": "aaaaaaaaaaaaaaaaaaaaaaaaaaaaaaaaaaaaaaaaaaaaaaaaaa   bbbbbbbbbbbbbbbbbbbbbbbbbbbbbbbbbbbbbbbbbbbbbbbbbb  cccccccccccccccccccccccccccccccccccccccccccccccccc", "k09": "aaaaaaaaaaaaaaaaaaaaaaaaaaaaaaaaaaaaaaaaaaaaaaaaaa\tbbbbbbbbbbbbbbbbbbbbbbbbbbbbbbbbbbbbbbbbbbbbbbbbbb\tcccccccccccccccccccccccccccccccccccccccccccccccccc", "k10": "aaaaaaaaaaaaaaaaaaaaaaaaaaaaaaaaaaaaaaaaaaaaaaaaaa # bbbbbbbbbbbbbbbbbbbbbbbbbbbbbbbbbbbbbbbbbbbbbbbbbb", "k11": "aaaaaaaaaaaaaaaaaaaaaaaaaaaaaaaaaaaaaaaaaaaaaaaaaa: bbbbbbbbbbbbbbbbbbbbbbbbbbbbbbbbbbbbbbbbbbbbbbbbbb", "k12": "- lorem ipsum lorem ipsum lorem ipsum lorem ipsum lorem ipsum lorem ipsum lorem ipsum lorem ipsum lorem ipsum lorem ipsum ", "k13": "日本語 テキスト 日本語 テキスト 日本語 テキスト 日本語 テキスト 日本語 テキスト 日本語 テキスト 日本語 テキスト 日本語 テキスト 日本語 テキスト 日本語 テキスト 日本語 テキスト 日本語 テキスト 日本語 テキスト 日本語 テキスト 日本語 テキスト ", "k14": "ab ab ab ab ab ab ab ab ab ab ab ab ab ab ab ab ab ab ab ab \u{85}cd cd cd cd cd cd cd cd cd cd cd cd cd cd cd cd cd cd cd cd ", "k15": "ab ab ab ab ab ab ab ab ab ab ab ab ab ab ab ab ab ab ab ab \rcd cd cd cd cd cd cd cd cd cd cd cd cd cd cd cd cd cd cd cd "}, {"k00": "12:30", "k01": "2001-12-14", "k02": "a b", "k03": "word word word word word word word word word word word word word word word word word word word word word word word word word word word word word word", "k04": "word word word word word word word word word word word word word word word word word word word word word word word word word word word word word word ", "k05": "word word word word word word word word word word word word word word word word word word word word word word word word word word word word word word\n", "k06": "word word word word word word word word word word word word word word word word word word word word word word word word word word word word word word\n\n", "k07": "xxxxxxxxxxxxxxxxxxxxxxxxxxxxxxxxxxxxxxxxxxxxxxxxxxxxxxxxxxxxxxxxxxxxxxxxxxxxxxxxxxxxxxxxxxxxxxxxxxxxxxxxxxxxxxxxxxxxxxxx", "k08": "aaaaaaaaaaaaaaaaaaaaaaaaaaaaaaaaaaaaaaaaaaaaaaaaaa   bbbbbbbbbbbbbbbbbbbbbbbbbbbbbbbbbbbbbbbbbbbbbbbbbb  cccccccccccccccccccccccccccccccccccccccccccccccccc", "k09": "aaaaaaaaaaaaaaaaaaaaaaaaaaaaaaaaaaaaaaaaaaaaaaaaaa\tbbbbbbbbbbbbbbbbbbbbbbbbbbbbbbbbbbbbbbbbbbbbbbbbbb\tcccccccccccccccccccccccccccccccccccccccccccccccccc", "k10": "aaaaaaaaaaaaaaaaaaaaaaaaaaaaaaaaaaaaaaaaaaaaaaaaaa # bbbbbbbbbbbbbbbbbbbbbbbbbbbbbbbbbbbbbbbbbbbbbbbbbb", "k11": "aaaaaaaaaaaaaaaaaaaaaaaaaaaaaaaaaaaaaaaaaaaaaaaaaa: bbbbbbbbbbbbbbbbbbbbbbbbbbbbbbbbbbbbbbbbbbbbbbbbbb", "k12": "- lorem ipsum lorem ipsum lorem ipsum lorem ipsum lorem ipsum lorem ipsum lorem ipsum lorem ipsum lorem ipsum lorem ipsum ", "k13": "日本語 テキスト 日本語 テキスト 日本語 テキスト 日本語 テキスト 日本語 テキスト 日本語 テキスト 日本語 テキスト 日本語 テキスト 日本語 テキスト 日本語 テキスト 日本語 テキスト 日本語 テキスト 日本語 テキスト 日本語 テキスト 日本語 テキスト ", "k14": "ab ab ab ab ab ab ab ab ab ab ab ab ab ab ab ab ab ab ab ab \u{85}cd cd cd cd cd cd cd cd cd cd cd cd cd cd cd cd cd cd cd cd ", "k15": "ab ab ab ab ab ab ab ab ab ab ab ab ab ab ab ab ab ab ab ab \rcd cd cd cd cd cd cd cd cd cd cd cd cd cd cd cd cd cd cd cd "}]} => Ok("outer:\n  - k00: '12:30'\n    k01: '2001-12-14'\n    k02: 'a b'\n    k03: 'word word word word word word word word word word word word word word word word word word word word word word word word word word word word word word'\n    k04: 'word word word word word word word word word word word word word word word word word word word word word word word word word word word word word word '\n    k05: \"word word word word word word word word word word word word word word word word word word word word word word word word word word word word word word\\n\"\n    k06: \"word word word word word word word word word word word word word word word word word word word word word word word word word word word word word word\\n\\n\"\n    k07: 'xxxxxxxxxxxxxxxxxxxxxxxxxxxxxxxxxxxxxxxxxxxxxxxxxxxxxxxxxxxxxxxxxxxxxxxxxxxxxxxxxxxxxxxxxxxxxxxxxxxxxxxxxxxxxxxxxxxxxxxx'\n    k08: 'aaaaaaaaaaaaaaaaaaaaaaaaaaaaaaaaaaaaaaaaaaaaaaaaaa   bbbbbbbbbbbbbbbbbbbbbbbbbbbbbbbbbbbbbbbbbbbbbbbbbb  cccccccccccccccccccccccccccccccccccccccccccccccccc'\n    k09: \"aaaaaaaaaaaaaaaaaaaaaaaaaaaaaaaaaaaaaaaaaaaaaaaaaa\\tbbbbbbbbbbbbbbbbbbbbbbbbbbbbbbbbbbbbbbbbbbbbbbbbbb\\tcccccccccccccccccccccccccccccccccccccccccccccccccc\"\n    k10: 'aaaaaaaaaaaaaaaaaaaaaaaaaaaaaaaaaaaaaaaaaaaaaaaaaa # bbbbbbbbbbbbbbbbbbbbbbbbbbbbbbbbbbbbbbbbbbbbbbbbbb'\n    k11: 'aaaaaaaaaaaaaaaaaaaaaaaaaaaaaaaaaaaaaaaaaaaaaaaaaa: bbbbbbbbbbbbbbbbbbbbbbbbbbbbbbbbbbbbbbbbbbbbbbbbbb'\n    k12: '- lorem ipsum lorem ipsum lorem ipsum lorem ipsum lorem ipsum lorem ipsum lorem ipsum lorem ipsum lorem ipsum lorem ipsum '\n    k13: '日本語 テキスト 日本語 テキスト 日本語 テキスト 日本語 テキスト 日本語 テキスト 日本語 テキスト 日本語 テキスト 日本語 テキスト 日本語 テキスト 日本語 テキスト 日本語 テキスト 日本語 テキスト 日本語 テキスト 日本語 テキスト 日本語 テキスト '\n    k14: \"ab ab ab ab ab ab ab ab ab ab ab ab ab ab ab ab ab ab ab ab \\Ncd cd cd cd cd cd cd cd cd cd cd cd cd cd cd cd cd cd cd cd \"\n    k15: \"ab ab ab ab ab ab ab ab ab ab ab ab ab ab ab ab ab ab ab ab \\rcd cd cd cd cd cd cd cd cd cd cd cd cd cd cd cd cd cd cd cd \"\n  - k00: '12:30'\n    k01: '2001-12-14'\n    k02: 'a b'\n    k03: 'word word word word word word word word word word word word word word word word word word word word word word word word word word word word word word'\n    k04: 'word word word word word word word word word word word word word word word word word word word word word word word word word word word word word word '\n    k05: \"word word word word word word word word word word word word word word word word word word word word word word word word word word word word word word\\n\"\n    k06: \"word word word word word word word word word word word word word word word word word word word word word word word word word word word word word word\\n\\n\"\n    k07: 'xxxxxxxxxxxxxxxxxxxxxxxxxxxxxxxxxxxxxxxxxxxxxxxxxxxxxxxxxxxxxxxxxxxxxxxxxxxxxxxxxxxxxxxxxxxxxxxxxxxxxxxxxxxxxxxxxxxxxxxx'\n    k08: 'aaaaaaaaaaaaaaaaaaaaaaaaaaaaaaaaaaaaaaaaaaaaaaaaaa   bbbbbbbbbbbbbbbbbbbbbbbbbbbbbbbbbbbbbbbbbbbbbbbbbb  cccccccccccccccccccccccccccccccccccccccccccccccccc'\n    k09: \"aaaaaaaaaaaaaaaaaaaaaaaaaaaaaaaaaaaaaaaaaaaaaaaaaa\\tbbbbbbbbbbbbbbbbbbbbbbbbbbbbbbbbbbbbbbbbbbbbbbbbbb\\tcccccccccccccccccccccccccccccccccccccccccccccccccc\"\n    k10: 'aaaaaaaaaaaaaaaaaaaaaaaaaaaaaaaaaaaaaaaaaaaaaaaaaa # bbbbbbbbbbbbbbbbbbbbbbbbbbbbbbbbbbbbbbbbbbbbbbbbbb'\n    k11: 'aaaaaaaaaaaaaaaaaaaaaaaaaaaaaaaaaaaaaaaaaaaaaaaaaa: bbbbbbbbbbbbbbbbbbbbbbbbbbbbbbbbbbbbbbbbbbbbbbbbbb'\n    k12: '- lorem ipsum lorem ipsum lorem ipsum lorem ipsum lorem ipsum lorem ipsum lorem ipsum lorem ipsum lorem ipsum lorem ipsum '\n    k13: '日本語 テキスト 日本語 テキスト 日本語 テキスト 日本語 テキスト 日本語 テキスト 日本語 テキスト 日本語 テキスト 日本語 テキスト 日本語 テキスト 日本語 テキスト 日本語 テキスト 日本語 テキスト 日本語 テキスト 日本語 テキスト 日本語 テキスト '\n    k14: \"ab ab ab ab ab ab ab ab ab ab ab ab ab ab ab ab ab ab ab ab \\Ncd cd cd cd cd cd cd cd cd cd cd cd cd cd cd cd cd cd cd cd \"\n    k15: \"ab ab ab ab ab ab ab ab ab ab ab ab ab ab ab ab ab ab ab ab \\rcd cd cd cd cd cd cd cd cd cd cd cd cd cd cd cd cd cd cd cd \"\n") <= SAME
mapval [quote_all] {"k00": "lorem ipsum lorem ipsum lorem ipsum lorem ipsum lorem ipsum lorem ipsum \ndolor sit dolor sit dolor sit dolor sit dolor sit dolor sit ", "k01": "  lorem ipsum lorem ipsum lorem ipsum lorem ipsum lorem ipsum lorem ipsum \ndolor: sit dolor: sit dolor: sit dolor: sit dolor: sit dolor: sit \n\n", "k02": "lorem ipsum lorem ipsum lorem ipsum lorem ipsum lorem ipsum lorem ipsum :\ndolor sit dolor sit dolor sit dolor sit dolor sit dolor sit :"} => Ok("k00: \"lorem ipsum lorem ipsum lorem ipsum lorem ipsum lorem ipsum lorem ipsum \\ndolor sit dolor sit dolor sit dolor sit dolor sit dolor sit \"\nk01: \"  lorem ipsum lorem ipsum lorem ipsum lorem ipsum lorem ipsum lorem ipsum \\ndolor: sit dolor: sit dolor: sit dolor: sit dolor: sit dolor: sit \\n\\n\"\nk02: \"lorem ipsum lorem ipsum lorem ipsum lorem ipsum lorem ipsum lorem ipsum :\\ndolor sit dolor sit dolor sit dolor sit dolor sit dolor sit :\"\n") <= SAME
mapkey [quote_all] {"  lorem ipsum lorem ipsum lorem ipsum lorem ipsum lorem ipsum lorem ipsum \ndolor: sit dolor: sit dolor: sit dolor: sit dolor: sit dolor: sit \n\n": 1, "lorem ipsum lorem ipsum lorem ipsum lorem ipsum lorem ipsum lorem ipsum \ndolor sit dolor sit dolor sit dolor sit dolor sit dolor sit ": 0, "lorem ipsum lorem ipsum lorem ipsum lorem ipsum lorem ipsum lorem ipsum :\ndolor sit dolor sit dolor sit dolor sit dolor sit dolor sit :": 2} => Ok("\"  lorem ipsum lorem ipsum lorem ipsum lorem ipsum lorem ipsum lorem ipsum \\ndolor: sit dolor: sit dolor: sit dolor: sit dolor: sit dolor: sit \\n\\n\": 1\n\"lorem ipsum lorem ipsum lorem ipsum lorem ipsum lorem ipsum lorem ipsum \\ndolor sit dolor sit dolor sit dolor sit dolor sit dolor sit \": 0\n\"lorem ipsum lorem ipsum lorem ipsum lorem ipsum lorem ipsum lorem ipsum :\\ndolor sit dolor sit dolor sit dolor sit dolor sit dolor sit :\": 2\n") <= SAME
nested [quote_all] {"outer": [{"k00": "lorem ipsum lorem ipsum lorem ipsum lorem ipsum lorem ipsum lorem ipsum \ndolor sit dolor sit dolor sit dolor sit dolor sit dolor sit ", "k01": "  lorem ipsum lorem ipsum lorem ipsum lorem ipsum lorem ipsum lorem ipsum \ndolor: sit dolor: sit dolor: sit dolor: sit dolor: sit dolor: sit \n\n", "k02": "lorem ipsum lorem ipsum lorem ipsum lorem ipsum lorem ipsum lorem ipsum :\ndolor sit dolor sit dolor sit dolor sit dolor sit dolor sit :"}, {"k00": "lorem ipsum lorem ipsum lorem ipsum lorem ipsum lorem ipsum lorem ipsum \ndolor sit dolor sit dolor sit dolor sit dolor sit dolor sit ", "k01": "  lorem ipsum lorem ipsum lorem ipsum lorem ipsum lorem ipsum lorem ipsum \ndolor: sit dolor: sit dolor: sit dolor: sit dolor: sit dolor: sit \n\n", "k02": "lorem ipsum lorem ipsum lorem ipsum lorem ipsum lorem ipsum lorem ipsum :\ndolor sit dolor sit dolor sit dolor sit dolor sit dolor sit :"}]} => Ok("outer:\n  - k00: \"lorem ipsum lorem ipsum lorem ipsum lorem ipsum lorem ipsum lorem ipsum \\ndolor sit dolor sit dolor sit dolor sit dolor sit dolor sit \"\n    k01: \"  lorem ipsum lorem ipsum lorem ipsum lorem ipsum lorem ipsum lorem ipsum \\ndolor: sit dolor: sit dolor: sit dolor: sit dolor: sit dolor: sit \\n\\n\"\n    k02: \"lorem ipsum lorem ipsum lorem ipsum lorem ipsum lorem ipsum lorem ipsum :\\ndolor sit dolor sit dolor sit dolor sit dolor sit dolor sit :\"\n  - k00: \"lorem ipsum lorem ipsum lorem ipsum lorem ipsum lorem ipsum lorem ipsum \\ndolor sit dolor sit dolor sit dolor sit dolor sit dolor sit \"\n    k01: \"  lorem ipsum lorem ipsum lorem ipsum lorem ipsum lorem ipsum lorem ipsum \\ndolor: sit dolor: sit dolor: sit dolor: sit dolor: sit dolor: sit \\n\\n\"\n    k02: \"lorem ipsum lorem ipsum lorem ipsum lorem ipsum lorem ipsum lorem ipsum :\\ndolor sit dolor sit dolor sit dolor sit dolor sit dolor sit :\"\n") <= SAME
flowseq [quote_all] => Ok("['', '~', 'null', 'NULL', 'Null', 'true', 'False', 'TRUE', 'yes', 'y', 'No', 'on', 'OFF', '<<', '---', '--- a']\n") <= SAME
flowmap [quote_all] => Ok("{\"\": '', \"---\": '---', \"--- a\": '--- a', \"<<\": '<<', \"False\": 'False', \"NULL\": 'NULL', \"No\": 'No', \"Null\": 'Null', \"OFF\": 'OFF', \"TRUE\": 'TRUE', \"null\": 'null', \"on\": 'on', \"true\": 'true', \"y\": 'y', \"yes\": 'yes', \"~\": '~'}\n") <= SAME
flowseq [quote_all] => Ok("['---a', '...', '... x', '.nan', '.NaN', '-.INF', '+.inf', '.inf', '+-.inf', '.infx', 'nan', 'NaN', '+inf', '-Infinity', 'infinity', '0x1F']\n") <= SAME
flowmap [quote_all] => Ok("{+-.inf: '+-.inf', \"+.inf\": '+.inf', \"+inf\": '+inf', ---a: '---a', \"-.INF\": '-.INF', \"-Infinity\": '-Infinity', \"...\": '...', \"... x\": '... x', \".NaN\": '.NaN', \".inf\": '.inf', .infx: '.infx', \".nan\": '.nan', \"0x1F\": '0x1F', \"NaN\": 'NaN', \"infinity\": 'infinity', \"nan\": 'nan'}\n") <= SAME
flowseq [quote_all] => Ok("['-0x1f', '0o17', '0b101', '0b102', '1_000', '1e9', '1E+9', '1.', '.5', '+1.5e-3', '1.5e', '12345678901234567890123456789', '-', '?', '+', '.']\n") <= SAME
flowmap [quote_all] => Ok("{+: '+', \"+1.5e-3\": '+1.5e-3', \"-\": '-', \"-0x1f\": '-0x1f', .: '.', \".5\": '.5', \"0b101\": '0b101', 0b102: '0b102', \"0o17\": '0o17', \"1.\": '1.', 1.5e: '1.5e', \"12345678901234567890123456789\": '12345678901234567890123456789', \"1E+9\": '1E+9', \"1_000\": '1_000', \"1e9\": '1e9', \"?\": '?'}\n") <= SAME
flowseq [quote_all] => Ok("['#', '- a', '-a', \"-\\ta\", '?x', '? x', ',a', ':a', '[a', ']a', '{a', '}a', '%a', '@a', '`a', '!a']\n") <= SAME
flowmap [quote_all] => Ok("{\"!a\": '!a', \"#\": '#', \"%a\": '%a', \",a\": ',a', \"-\\ta\": \"-\\ta\", \"- a\": '- a', -a: '-a', \":a\": ':a', \"? x\": '? x', ?x: '?x', \"@a\": '@a', \"[a\": '[a', \"]a\": ']a', \"`a\": '`a', \"{a\": '{a', \"}a\": '}a'}\n") <= SAME
flowseq [quote_all] => Ok("['&a', '*a', '|a', '>a', \"'a\", '\"a', 'a: b', 'a:b', 'a:', 'a: ', 'a #b', 'a#b', 'a,b', 'a]b', 'a{b}', ' lead']\n") <= SAME
flowmap [quote_all] => Ok("{\" lead\": ' lead', \"\\\"a\": '\"a', \"&a\": '&a', \"'a\": \"'a\", \"*a\": '*a', \">a\": '>a', \"a #b\": 'a #b', \"a#b\": 'a#b', \"a,b\": 'a,b', \"a:\": 'a:', \"a: \": 'a: ', \"a: b\": 'a: b', \"a:b\": 'a:b', \"a]b\": 'a]b', \"a{b}\": 'a{b}', \"|a\": '|a'}\n") <= SAME
flowseq [quote_all] => Ok("['trail ', '\u{a0}nbsp', 'em\u{2003}', '\u{feff}bom', 'mid\u{feff}bom', \"tab\\there\", \"new\\nline\", \"line\\n\", \"line\\n\\n\", \"\\n\", \"\\n\\n\", \"\\n\\n\\n\", \"\\nlead\", \"a\\n\\n\\nb\\n\\n\\n\", \"  indented\\nline\", \"\\n  indented after blank\\n\"]\n") <= SAME
flowmap [quote_all] => Ok("{\"\\n\": \"\\n\", \"\\n\\n\": \"\\n\\n\", \"\\n\\n\\n\": \"\\n\\n\\n\", \"\\n  indented after blank\\n\": \"\\n  indented after blank\\n\", \"\\nlead\": \"\\nlead\", \"  indented\\nline\": \"  indented\\nline\", \"a\\n\\n\\nb\\n\\n\\n\": \"a\\n\\n\\nb\\n\\n\\n\", \"em\u{2003}\": 'em\u{2003}', \"line\\n\": \"line\\n\", \"line\\n\\n\": \"line\\n\\n\", mid\u{feff}bom: 'mid\u{feff}bom', \"new\\nline\": \"new\\nline\", \"tab\\there\": \"tab\\there\", \"trail \": 'trail ', \"\u{a0}nbsp\": '\u{a0}nbsp', \"\u{feff}bom\": '\u{feff}bom'}\n") <= SAME
flowseq [quote_all] => Ok("[\"a\\n  b\\n\", \"key: v\\nnext\", \"ends with colon:\\nx:\", \"# not comment\\nline\", \"trailing space \\nline\", \"cr\\rhere\", \"crlf\\r\\nhere\", \"\\0\", \"\\a\", \"\\b\", \"\\v\", \"\\f\", \"\\e\", \"\\x01\", \"\\x1F\", \"\\x7F\"]\n") <= SAME
flowmap [quote_all] => Ok("{\"\\u0000\": \"\\0\", \"\\u0001\": \"\\x01\", \"\\u0007\": \"\\a\", \"\\u0008\": \"\\b\", \"\\u000B\": \"\\v\", \"\\u000C\": \"\\f\", \"\\u001B\": \"\\e\", \"\\u001F\": \"\\x1F\", \"# not comment\\nline\": \"# not comment\\nline\", \"a\\n  b\\n\": \"a\\n  b\\n\", \"cr\\rhere\": \"cr\\rhere\", \"crlf\\r\\nhere\": \"crlf\\r\\nhere\", \"ends with colon:\\nx:\": \"ends with colon:\\nx:\", \"key: v\\nnext\": \"key: v\\nnext\", \"trailing space \\nline\": \"trailing space \\nline\", \"\\u007F\": \"\\x7F\"}\n") <= SAME
flowseq [quote_all] => Ok("[\"\\x80\", \"\\N\", \"\\x9F\", '\u{2028}', '\u{2029}', 'a\u{2028}b', \"it's\", \"'\", \"''\", 'say \"hi\"', \"back\\\\slash\", \"\\\\\", 'é', '日本語', '😀', '1.0.0']\n") <= SAME
flowmap [quote_all] => Ok("{\"'\": \"'\", \"''\": \"''\", 1.0.0: '1.0.0', \\: \"\\\\\", a\u{2028}b: 'a\u{2028}b', back\\slash: \"back\\\\slash\", it's: \"it's\", say \"hi\": 'say \"hi\"', \"\\u0080\": \"\\x80\", \"\\u0085\": \"\\N\", \"\\u009F\": \"\\x9F\", é: 'é', \"\u{2028}\": '\u{2028}', \"\u{2029}\": '\u{2029}', 日本語: '日本語', 😀: '😀'}\n") <= SAME
flowseq [quote_all] => Ok("['12:30', '2001-12-14', 'a b', 'word word word word word word word word word word word word word word word word word word word word word word word word word word word word word word', 'word word word word word word word word word word word word word word word word word word word word word word word word word word word word word word ', \"word word word word word word word word word word word word word word word word word word word word word word word word word word word word word word\\n\", \"word word word word word word word word word word word word word word word word word word word word word word word word word word word word word word\\n\\n\", 'xxxxxxxxxxxxxxxxxxxxxxxxxxxxxxxxxxxxxxxxxxxxxxxxxxxxxxxxxxxxxxxxxxxxxxxxxxxxxxxxxxxxxxxxxxxxxxxxxxxxxxxxxxxxxxxxxxxxxxxx', 'aaaaaaaaaaaaaaaaaaaaaaaaaaaaaaaaaaaaaaaaaaaaaaaaaa   bbbbbbbbbbbbbbbbbbbbbbbbbbbbbbbbbbbbbbbbbbbbbbbbbb  cccccccccccccccccccccccccccccccccccccccccccccccccc', \"aaaaaaaaaaaaaaaaaaaaaaaaaaaaaaaaaaaaaaaaaaaaaaaaaa\\tbbbbbbbbbbbbbbbbbbbbbbbbbbbbbbbbbbbbbbbbbbbbbbbbbb\\tcccccccccccccccccccccccccccccccccccccccccccccccccc\", 'aaaaaaaaaaaaaaaaaaaaaaaaaaaaaaaaaaaaaaaaaaaaaaaaaa # bbbbbbbbbbbbbbbbbbbbbbbbbbbbbbbbbbbbbbbbbbbbbbbbbb', 'aaaaaaaaaaaaaaaaaaaaaaaaaaaaaaaaaaaaaaaaaaaaaaaaaa: bbbbbbbbbbbbbbbbbbbbbbbbbbbbbbbbbbbbbbbbbbbbbbbbbb', '- lorem ipsum lorem ipsum lorem ipsum lorem ipsum lorem ipsum lorem ipsum lorem ipsum lorem ipsum lorem ipsum lorem ipsum ', '日本語 テキスト 日本語 テキスト 日本語 テキスト 日本語 テキスト 日本語 テキスト 日本語 テキスト 日本語 テキスト 日本語 テキスト 日本語 テキスト 日本語 テキスト 日本語 テキスト 日本語 テキスト 日本語 テキスト 日本語 テキスト 日本語 テキスト ', \"ab ab ab ab ab ab ab ab ab ab ab ab ab ab ab ab ab ab ab ab \\Ncd cd cd cd cd cd cd cd cd cd cd cd cd cd cd cd cd cd cd cd \", \"ab ab ab ab ab ab ab ab ab ab ab ab ab ab ab ab ab ab ab ab \\rcd cd cd cd cd cd cd cd cd cd cd cd cd cd cd cd cd cd cd cd \"]\n") <= SAME
flowmap [quote_all] => Ok("{\"- lorem ipsum lorem ipsum lorem ipsum lorem ipsum lorem ipsum lorem ipsum lorem ipsum lorem ipsum lorem ipsum lorem ipsum \": '- lorem ipsum lorem ipsum lorem ipsum lorem ipsum lorem ipsum lorem ipsum lorem ipsum lorem ipsum lorem ipsum lorem ipsum ', \"12:30\": '12:30', 2001-12-14: '2001-12-14', a b: 'a b', \"aaaaaaaaaaaaaaaaaaaaaaaaaaaaaaaaaaaaaaaaaaaaaaaaaa\\tbbbbbbbbbbbbbbbbbbbbbbbbbbbbbbbbbbbbbbbbbbbbbbbbbb\\tcccccccccccccccccccccccccccccccccccccccccccccccccc\": \"aaaaaaaaaaaaaaaaaaaaaaaaaaaaaaaaaaaaaaaaaaaaaaaaaa\\tbbbbbbbbbbbbbbbbbbbbbbbbbbbbbbbbbbbbbbbbbbbbbbbbbb\\tcccccccccccccccccccccccccccccccccccccccccccccccccc\", aaaaaaaaaaaaaaaaaaaaaaaaaaaaaaaaaaaaaaaaaaaaaaaaaa   bbbbbbbbbbbbbbbbbbbbbbbbbbbbbbbbbbbbbbbbbbbbbbbbbb  cccccccccccccccccccccccccccccccccccccccccccccccccc: 'aaaaaaaaaaaaaaaaaaaaaaaaaaaaaaaaaaaaaaaaaaaaaaaaaa   bbbbbbbbbbbbbbbbbbbbbbbbbbbbbbbbbbbbbbbbbbbbbbbbbb  cccccccccccccccccccccccccccccccccccccccccccccccccc', \"aaaaaaaaaaaaaaaaaaaaaaaaaaaaaaaaaaaaaaaaaaaaaaaaaa # bbbbbbbbbbbbbbbbbbbbbbbbbbbbbbbbbbbbbbbbbbbbbbbbbb\": 'aaaaaaaaaaaaaaaaaaaaaaaaaaaaaaaaaaaaaaaaaaaaaaaaaa # bbbbbbbbbbbbbbbbbbbbbbbbbbbbbbbbbbbbbbbbbbbbbbbbbb', \"aaaaaaaaaaaaaaaaaaaaaaaaaaaaaaaaaaaaaaaaaaaaaaaaaa: bbbbbbbbbbbbbbbbbbbbbbbbbbbbbbbbbbbbbbbbbbbbbbbbbb\": 'aaaaaaaaaaaaaaaaaaaaaaaaaaaaaaaaaaaaaaaaaaaaaaaaaa: bbbbbbbbbbbbbbbbbbbbbbbbbbbbbbbbbbbbbbbbbbbbbbbbbb', \"ab ab ab ab ab ab ab ab ab ab ab ab ab ab ab ab ab ab ab ab \\rcd cd cd cd cd cd cd cd cd cd cd cd cd cd cd cd cd cd cd cd \": \"ab ab ab ab ab ab ab ab ab ab ab ab ab ab ab ab ab ab ab ab \\rcd cd cd cd cd cd cd cd cd cd cd cd cd cd cd cd cd cd cd cd \", \"ab ab ab ab ab ab ab ab ab ab ab ab ab ab ab ab ab ab ab ab \\u0085cd cd cd cd cd cd cd cd cd cd cd cd cd cd cd cd cd cd cd cd \": \"ab ab ab ab ab ab ab ab ab ab ab ab ab ab ab ab ab ab ab ab \\Ncd cd cd cd cd cd cd cd cd cd cd cd cd cd cd cd cd cd cd cd \", word word word word word word word word word word word word word word word word word word word word word word word word word word word word word word: 'word word word word word word word word word word word word word word word word word word word word word word word word word word word word word word', \"word word word word word word word word word word word word word word word word word word word word word word word word word word word word word word\\n\": \"word word word word word word word word word word word word word word word word word word word word word word word word word word word word word word\\n\", \"word word word word word word word word word word word word word word word word word word word word word word word word word word word word word word\\n\\n\": \"word word word word word word word word word word word word word word word word word word word word word word word word word word word word word word\\n\\n\", \"word word word word word word word word word word word word word word word word word word word word word word word word word word word word word word \": 'word word word word word word word word word word word word word word word word word word word word word word word word word word word word word word ', xxxxxxxxxxxxxxxxxxxxxxxxxxxxxxxxxxxxxxxxxxxxxxxxxxxxxxxxxxxxxxxxxxxxxxxxxxxxxxxxxxxxxxxxxxxxxxxxxxxxxxxxxxxxxxxxxxxxxxxx: 'xxxxxxxxxxxxxxxxxxxxxxxxxxxxxxxxxxxxxxxxxxxxxxxxxxxxxxxxxxxxxxxxxxxxxxxxxxxxxxxxxxxxxxxxxxxxxxxxxxxxxxxxxxxxxxxxxxxxxxxx', \"日本語 テキスト 日本語 テキスト 日本語 テキスト 日本語 テキスト 日本語 テキスト 日本語 テキスト 日本語 テキスト 日本語 テキスト 日本語 テキスト 日本語 テキスト 日本語 テキスト 日本語 テキスト 日本語 テキスト 日本語 テキスト 日本語 テキスト \": '日本語 テキスト 日本語 テキスト 日本語 テキスト 日本語 テキスト 日本語 テキスト 日本語 テキスト 日本語 テキスト 日本語 テキスト 日本語 テキスト 日本語 テキスト 日本語 テキスト 日本語 テキスト 日本語 テキスト 日本語 テキスト 日本語 テキスト '}\n") <= SAME
flowseq [quote_all] => Ok("[\"lorem ipsum lorem ipsum lorem ipsum lorem ipsum lorem ipsum lorem ipsum \\ndolor sit dolor sit dolor sit dolor sit dolor sit dolor sit \", \"  lorem ipsum lorem ipsum lorem ipsum lorem ipsum lorem ipsum lorem ipsum \\ndolor: sit dolor: sit dolor: sit dolor: sit dolor: sit dolor: sit \\n\\n\", \"lorem ipsum lorem ipsum lorem ipsum lorem ipsum lorem ipsum lorem ipsum :\\ndolor sit dolor sit dolor sit dolor sit dolor sit dolor sit :\"]\n") <= SAME
flowmap [quote_all] => Ok("{\"  lorem ipsum lorem ipsum lorem ipsum lorem ipsum lorem ipsum lorem ipsum \\ndolor: sit dolor: sit dolor: sit dolor: sit dolor: sit dolor: sit \\n\\n\": \"  lorem ipsum lorem ipsum lorem ipsum lorem ipsum lorem ipsum lorem ipsum \\ndolor: sit dolor: sit dolor: sit dolor: sit dolor: sit dolor: sit \\n\\n\", \"lorem ipsum lorem ipsum lorem ipsum lorem ipsum lorem ipsum lorem ipsum \\ndolor sit dolor sit dolor sit dolor sit dolor sit dolor sit \": \"lorem ipsum lorem ipsum lorem ipsum lorem ipsum lorem ipsum lorem ipsum \\ndolor sit dolor sit dolor sit dolor sit dolor sit dolor sit \", \"lorem ipsum lorem ipsum lorem ipsum lorem ipsum lorem ipsum lorem ipsum :\\ndolor sit dolor sit dolor sit dolor sit dolor sit dolor sit :\": \"lorem ipsum lorem ipsum lorem ipsum lorem ipsum lorem ipsum lorem ipsum :\\ndolor sit dolor sit dolor sit dolor sit dolor sit dolor sit :\"}\n") <= SAME
enum [quote_all] Text("") => Ok("'Text': ''\n") <= SAME
enum [quote_all] [Pair("", -1)] => Ok("- 'Pair':\n    - ''\n    - -1\n") <= SAME
enum [quote_all] Rec { s: "", c: 'x' } => Ok("'Rec':\n  s: ''\n  c: 'x'\n") <= SAME
enum [quote_all] Text("NULL") => Ok("'Text': 'NULL'\n") <= SAME
enum [quote_all] [Pair("NULL", -1)] => Ok("- 'Pair':\n    - 'NULL'\n    - -1\n") <= SAME
enum [quote_all] Rec { s: "NULL", c: 'N' } => Ok("'Rec':\n  s: 'NULL'\n  c: 'N'\n") <= SAME
enum [quote_all] Text("False") => Ok("'Text': 'False'\n") <= SAME
enum [quote_all] [Pair("False", -1)] => Ok("- 'Pair':\n    - 'False'\n    - -1\n") <= SAME
enum [quote_all] Rec { s: "False", c: 'F' } => Ok("'Rec':\n  s: 'False'\n  c: 'F'\n") <= SAME
enum [quote_all] Text("y") => Ok("'Text': 'y'\n") <= SAME
enum [quote_all] [Pair("y", -1)] => Ok("- 'Pair':\n    - 'y'\n    - -1\n") <= SAME
enum [quote_all] Rec { s: "y", c: 'y' } => Ok("'Rec':\n  s: 'y'\n  c: 'y'\n") <= SAME
enum [quote_all] Text("OFF") => Ok("'Text': 'OFF'\n") <= SAME
enum [quote_all] [Pair("OFF", -1)] => Ok("- 'Pair':\n    - 'OFF'\n    - -1\n") <= SAME
enum [quote_all] Rec { s: "OFF", c: 'O' } => Ok("'Rec':\n  s: 'OFF'\n  c: 'O'\n") <= SAME
enum [quote_all] Text("--- a") => Ok("'Text': '--- a'\n") <= SAME
enum [quote_all] [Pair("--- a", -1)] => Ok("- 'Pair':\n    - '--- a'\n    - -1\n") <= SAME
enum [quote_all] Rec { s: "--- a", c: '-' } => Ok("'Rec':\n  s: '--- a'\n  c: '-'\n") <= SAME
enum [quote_all] Text("... x") => Ok("'Text': '... x'\n") <= SAME
enum [quote_all] [Pair("... x", -1)] => Ok("- 'Pair':\n    - '... x'\n    - -1\n") <= SAME
enum [quote_all] Rec { s: "... x", c: '.' } => Ok("'Rec':\n  s: '... x'\n  c: '.'\n") <= SAME
enum [quote_all] Text("-.INF") => Ok("'Text': '-.INF'\n") <= SAME
enum [quote_all] [Pair("-.INF", -1)] => Ok("- 'Pair':\n    - '-.INF'\n    - -1\n") <= SAME
enum [quote_all] Rec { s: "-.INF", c: '-' } => Ok("'Rec':\n  s: '-.INF'\n  c: '-'\n") <= SAME
enum [quote_all] Text("+-.inf") => Ok("'Text': '+-.inf'\n") <= SAME
enum [quote_all] [Pair("+-.inf", -1)] => Ok("- 'Pair':\n    - '+-.inf'\n    - -1\n") <= SAME
enum [quote_all] Rec { s: "+-.inf", c: '+' } => Ok("'Rec':\n  s: '+-.inf'\n  c: '+'\n") <= SAME
enum [quote_all] Text("NaN") => Ok("'Text': 'NaN'\n") <= SAME
enum [quote_all] [Pair("NaN", -1)] => Ok("- 'Pair':\n    - 'NaN'\n    - -1\n") <= SAME
enum [quote_all] Rec { s: "NaN", c: 'N' } => Ok("'Rec':\n  s: 'NaN'\n  c: 'N'\n") <= SAME
enum [quote_all] Text("infinity") => Ok("'Text': 'infinity'\n") <= SAME
enum [quote_all] [Pair("infinity", -1)] => Ok("- 'Pair':\n    - 'infinity'\n    - -1\n") <= SAME
enum [quote_all] Rec { s: "infinity", c: 'i' } => Ok("'Rec':\n  s: 'infinity'\n  c: 'i'\n") <= SAME
enum [quote_all] Text("0o17") => Ok("'Text': '0o17'\n") <= SAME
enum [quote_all] [Pair("0o17", -1)] => Ok("- 'Pair':\n    - '0o17'\n    - -1\n") <= SAME
enum [quote_all] Rec { s: "0o17", c: '0' } => Ok("'Rec':\n  s: '0o17'\n  c: '0'\n") <= SAME
enum [quote_all] Text("1_000") => Ok("'Text': '1_000'\n") <= SAME
enum [quote_all] [Pair("1_000", -1)] => Ok("- 'Pair':\n    - '1_000'\n    - -1\n") <= SAME
enum [quote_all] Rec { s: "1_000", c: '1' } => Ok("'Rec':\n  s: '1_000'\n  c: '1'\n") <= SAME
enum [quote_all] Text("1.") => Ok("'Text': '1.'\n") <= SAME
enum [quote_all] [Pair("1.", -1)] => Ok("- 'Pair':\n    - '1.'\n    - -1\n") <= SAME
enum [quote_all] Rec { s: "1.", c: '1' } => Ok("'Rec':\n  s: '1.'\n  c: '1'\n") <= SAME
enum [quote_all] Text("1.5e") => Ok("'Text': '1.5e'\n") <= SAME
enum [quote_all] [Pair("1.5e", -1)] => Ok("- 'Pair':\n    - '1.5e'\n    - -1\n") <= SAME
enum [quote_all] Rec { s: "1.5e", c: '1' } => Ok("'Rec':\n  s: '1.5e'\n  c: '1'\n") <= SAME
enum [quote_all] Text("?") => Ok("'Text': '?'\n") <= SAME
enum [quote_all] [Pair("?", -1)] => Ok("- 'Pair':\n    - '?'\n    - -1\n") <= SAME
enum [quote_all] Rec { s: "?", c: '?' } => Ok("'Rec':\n  s: '?'\n  c: '?'\n") <= SAME
enum [quote_all] Text("#") => Ok("'Text': '#'\n") <= SAME
enum [quote_all] [Pair("#", -1)] => Ok("- 'Pair':\n    - '#'\n    - -1\n") <= SAME
enum [quote_all] Rec { s: "#", c: '#' } => Ok("'Rec':\n  s: '#'\n  c: '#'\n") <= SAME
enum [quote_all] Text("-\ta") => Ok("'Text': \"-\\ta\"\n") <= SAME
enum [quote_all] [Pair("-\ta", -1)] => Ok("- 'Pair':\n    - \"-\\ta\"\n    - -1\n") <= SAME
enum [quote_all] Rec { s: "-\ta", c: '-' } => Ok("'Rec':\n  s: \"-\\ta\"\n  c: '-'\n") <= SAME
enum [quote_all] Text(",a") => Ok("'Text': ',a'\n") <= SAME
enum [quote_all] [Pair(",a", -1)] => Ok("- 'Pair':\n    - ',a'\n    - -1\n") <= SAME
enum [quote_all] Rec { s: ",a", c: ',' } => Ok("'Rec':\n  s: ',a'\n  c: ','\n") <= SAME
enum [quote_all] Text("]a") => Ok("'Text': ']a'\n") <= SAME
enum [quote_all] [Pair("]a", -1)] => Ok("- 'Pair':\n    - ']a'\n    - -1\n") <= SAME
enum [quote_all] Rec { s: "]a", c: ']' } => Ok("'Rec':\n  s: ']a'\n  c: ']'\n") <= SAME
enum [quote_all] Text("%a") => Ok("'Text': '%a'\n") <= SAME
enum [quote_all] [Pair("%a", -1)] => Ok("- 'Pair':\n    - '%a'\n    - -1\n") <= SAME
enum [quote_all] Rec { s: "%a", c: '%' } => Ok("'Rec':\n  s: '%a'\n  c: '%'\n") <= SAME
enum [quote_all] Text("!a") => Ok("'Text': '!a'\n") <= SAME
enum [quote_all] [Pair("!a", -1)] => Ok("- 'Pair':\n    - '!a'\n    - -1\n") <= SAME
enum [quote_all] Rec { s: "!a", c: '!' } => Ok("'Rec':\n  s: '!a'\n  c: '!'\n") <= SAME
enum [quote_all] Text("|a") => Ok("'Text': '|a'\n") <= SAME
enum [quote_all] [Pair("|a", -1)] => Ok("- 'Pair':\n    - '|a'\n    - -1\n") <= SAME
enum [quote_all] Rec { s: "|a", c: '|' } => Ok("'Rec':\n  s: '|a'\n  c: '|'\n") <= SAME
enum [quote_all] Text("\"a") => Ok("'Text': '\"a'\n") <= SAME
enum [quote_all] [Pair("\"a", -1)] => Ok("- 'Pair':\n    - '\"a'\n    - -1\n") <= SAME
enum [quote_all] Rec { s: "\"a", c: '"' } => Ok("'Rec':\n  s: '\"a'\n  c: '\"'\n") <= SAME
enum [quote_all] Text("a:") => Ok("'Text': 'a:'\n") <= SAME
enum [quote_all] [Pair("a:", -1)] => Ok("- 'Pair':\n    - 'a:'\n    - -1\n") <= SAME
enum [quote_all] Rec { s: "a:", c: 'a' } => Ok("'Rec':\n  s: 'a:'\n  c: 'a'\n") <= SAME
enum [quote_all] Text("a#b") => Ok("'Text': 'a#b'\n") <= SAME
enum [quote_all] [Pair("a#b", -1)] => Ok("- 'Pair':\n    - 'a#b'\n    - -1\n") <= SAME
enum [quote_all] Rec { s: "a#b", c: 'a' } => Ok("'Rec':\n  s: 'a#b'\n  c: 'a'\n") <= SAME
enum [quote_all] Text("a{b}") => Ok("'Text': 'a{b}'\n") <= SAME
enum [quote_all] [Pair("a{b}", -1)] => Ok("- 'Pair':\n    - 'a{b}'\n    - -1\n") <= SAME
enum [quote_all] Rec { s: "a{b}", c: 'a' } => Ok("'Rec':\n  s: 'a{b}'\n  c: 'a'\n") <= SAME
enum [quote_all] Text("\u{a0}nbsp") => Ok("'Text': '\u{a0}nbsp'\n") <= SAME
enum [quote_all] [Pair("\u{a0}nbsp", -1)] => Ok("- 'Pair':\n    - '\u{a0}nbsp'\n    - -1\n") <= SAME
enum [quote_all] Rec { s: "\u{a0}nbsp", c: '\u{a0}' } => Ok("'Rec':\n  s: '\u{a0}nbsp'\n  c: '\u{a0}'\n") <= SAME
enum [quote_all] Text("mid\u{feff}bom") => Ok("'Text': 'mid\u{feff}bom'\n") <= SAME
enum [quote_all] [Pair("mid\u{feff}bom", -1)] => Ok("- 'Pair':\n    - 'mid\u{feff}bom'\n    - -1\n") <= SAME
enum [quote_all] Rec { s: "mid\u{feff}bom", c: 'm' } => Ok("'Rec':\n  s: 'mid\u{feff}bom'\n  c: 'm'\n") <= SAME
enum [quote_all] Text("line\n") => Ok("'Text': \"line\\n\"\n") <= SAME
enum [quote_all] [Pair("line\n", -1)] => Ok("- 'Pair':\n    - \"line\\n\"\n    - -1\n") <= SAME
enum [quote_all] Rec { s: "line\n", c: 'l' } => Ok("'Rec':\n  s: \"line\\n\"\n  c: 'l'\n") <= SAME
enum [quote_all] Text("\n\n") => Ok("'Text': \"\\n\\n\"\n") <= SAME
enum [quote_all] [Pair("\n\n", -1)] => Ok("- 'Pair':\n    - \"\\n\\n\"\n    - -1\n") <= SAME
enum [quote_all] Rec { s: "\n\n", c: '\n' } => Ok("'Rec':\n  s: \"\\n\\n\"\n  c: \"\\n\"\n") <= SAME
enum [quote_all] Text("a\n\n\nb\n\n\n") => Ok("'Text': \"a\\n\\n\\nb\\n\\n\\n\"\n") <= SAME
enum [quote_all] [Pair("a\n\n\nb\n\n\n", -1)] => Ok("- 'Pair':\n    - \"a\\n\\n\\nb\\n\\n\\n\"\n    - -1\n") <= SAME
enum [quote_all] Rec { s: "a\n\n\nb\n\n\n", c: 'a' } => Ok("'Rec':\n  s: \"a\\n\\n\\nb\\n\\n\\n\"\n  c: 'a'\n") <= SAME
enum [quote_all] Text("a\n  b\n") => Ok("'Text': \"a\\n  b\\n\"\n") <= SAME
enum [quote_all] [Pair("a\n  b\n", -1)] => Ok("- 'Pair':\n    - \"a\\n  b\\n\"\n    - -1\n") <= SAME
enum [quote_all] Rec { s: "a\n  b\n", c: 'a' } => Ok("'Rec':\n  s: \"a\\n  b\\n\"\n  c: 'a'\n") <= SAME
enum [quote_all] Text("# not comment\nline") => Ok("'Text': \"# not comment\\nline\"\n") <= SAME
enum [quote_all] [Pair("# not comment\nline", -1)] => Ok("- 'Pair':\n    - \"# not comment\\nline\"\n    - -1\n") <= SAME
enum [quote_all] Rec { s: "# not comment\nline", c: '#' } => Ok("'Rec':\n  s: \"# not comment\\nline\"\n  c: '#'\n") <= SAME
enum [quote_all] Text("crlf\r\nhere") => Ok("'Text': \"crlf\\r\\nhere\"\n") <= SAME
enum [quote_all] [Pair("crlf\r\nhere", -1)] => Ok("- 'Pair':\n    - \"crlf\\r\\nhere\"\n    - -1\n") <= SAME
enum [quote_all] Rec { s: "crlf\r\nhere", c: 'c' } => Ok("'Rec':\n  s: \"crlf\\r\\nhere\"\n  c: 'c'\n") <= SAME
enum [quote_all] Text("\u{8}") => Ok("'Text': \"\\b\"\n") <= SAME
enum [quote_all] [Pair("\u{8}", -1)] => Ok("- 'Pair':\n    - \"\\b\"\n    - -1\n") <= SAME
enum [quote_all] Rec { s: "\u{8}", c: '\u{8}' } => Ok("'Rec':\n  s: \"\\b\"\n  c: \"\\b\"\n") <= SAME
enum [quote_all] Text("\u{1b}") => Ok("'Text': \"\\e\"\n") <= SAME
enum [quote_all] [Pair("\u{1b}", -1)] => Ok("- 'Pair':\n    - \"\\e\"\n    - -1\n") <= SAME
enum [quote_all] Rec { s: "\u{1b}", c: '\u{1b}' } => Ok("'Rec':\n  s: \"\\e\"\n  c: \"\\e\"\n") <= SAME
enum [quote_all] Text("\u{7f}") => Ok("'Text': \"\\x7F\"\n") <= SAME
enum [quote_all] [Pair("\u{7f}", -1)] => Ok("- 'Pair':\n    - \"\\x7F\"\n    - -1\n") <= SAME
enum [quote_all] Rec { s: "\u{7f}", c: '\u{7f}' } => Ok("'Rec':\n  s: \"\\x7F\"\n  c: \"\\x7F\"\n") <= SAME
enum [quote_all] Text("\u{9f}") => Ok("'Text': \"\\x9F\"\n") <= SAME
enum [quote_all] [Pair("\u{9f}", -1)] => Ok("- 'Pair':\n    - \"\\x9F\"\n    - -1\n") <= SAME
enum [quote_all] Rec { s: "\u{9f}", c: '\u{9f}' } => Ok("'Rec':\n  s: \"\\x9F\"\n  c: \"\\x9F\"\n") <= SAME
enum [quote_all] Text("a\u{2028}b") => Ok("'Text': 'a\u{2028}b'\n") <= SAME
enum [quote_all] [Pair("a\u{2028}b", -1)] => Ok("- 'Pair':\n    - 'a\u{2028}b'\n    - -1\n") <= SAME
enum [quote_all] Rec { s: "a\u{2028}b", c: 'a' } => Ok("'Rec':\n  s: 'a\u{2028}b'\n  c: 'a'\n") <= SAME
enum [quote_all] Text("''") => Ok("'Text': \"''\"\n") <= SAME
enum [quote_all] [Pair("''", -1)] => Ok("- 'Pair':\n    - \"''\"\n    - -1\n") <= SAME
enum [quote_all] Rec { s: "''", c: '\'' } => Ok("'Rec':\n  s: \"''\"\n  c: \"'\"\n") <= SAME
enum [quote_all] Text("\\") => Ok("'Text': \"\\\\\"\n") <= SAME
enum [quote_all] [Pair("\\", -1)] => Ok("- 'Pair':\n    - \"\\\\\"\n    - -1\n") <= SAME
enum [quote_all] Rec { s: "\\", c: '\\' } => Ok("'Rec':\n  s: \"\\\\\"\n  c: \"\\\\\"\n") <= SAME
enum [quote_all] Text("😀") => Ok("'Text': '😀'\n") <= SAME
enum [quote_all] [Pair("😀", -1)] => Ok("- 'Pair':\n    - '😀'\n    - -1\n") <= SAME
enum [quote_all] Rec { s: "😀", c: '😀' } => Ok("'Rec':\n  s: '😀'\n  c: '😀'\n") <= SAME
enum [quote_all] Text("2001-12-14") => Ok("'Text': '2001-12-14'\n") <= SAME
enum [quote_all] [Pair("2001-12-14", -1)] => Ok("- 'Pair':\n    - '2001-12-14'\n    - -1\n") <= SAME
enum [quote_all] Rec { s: "2001-12-14", c: '2' } => Ok("'Rec':\n  s: '2001-12-14'\n  c: '2'\n") <= SAME
enum [quote_all] Text("word word word word word word word word word word word word word word word word word word word word word word word word word word word word word word ") => Ok("'Text': 'word word word word word word word word word word word word word word word word word word word word word word word word word word word word word word '\n") <= SAME
enum [quote_all] [Pair("word word word word word word word word word word word word word word word word word word word word word word word word word word word word word word ", -1)] => Ok("- 'Pair':\n    - 'word word word word word word word word word word word word word word word word word word word word word word word word word word word word word word '\n    - -1\n") <= SAME
enum [quote_all] Rec { s: "word word word word word word word word word word word word word word word word word word word word word word word word word word word word word word ", c: 'w' } => Ok("'Rec':\n  s: 'word word word word word word word word word word word word word word word word word word word word word word word word word word word word word word '\n  c: 'w'\n") <= SAME
enum [quote_all] Text("xxxxxxxxxxxxxxxxxxxxxxxxxxxxxxxxxxxxxxxxxxxxxxxxxxxxxxxxxxxxxxxxxxxxxxxxxxxxxxxxxxxxxxxxxxxxxxxxxxxxxxxxxxxxxxxxxxxxxxxx") => Ok("'Text': 'xxxxxxxxxxxxxxxxxxxxxxxxxxxxxxxxxxxxxxxxxxxxxxxxxxxxxxxxxxxxxxxxxxxxxxxxxxxxxxxxxxxxxxxxxxxxxxxxxxxxxxxxxxxxxxxxxxxxxxxx'\n") <= SAME
enum [quote_all] [Pair("xxxxxxxxxxxxxxxxxxxxxxxxxxxxxxxxxxxxxxxxxxxxxxxxxxxxxxxxxxxxxxxxxxxxxxxxxxxxxxxxxxxxxxxxxxxxxxxxxxxxxxxxxxxxxxxxxxxxxxxx", -1)] => Ok("- 'Pair':\n    - 'xxxxxxxxxxxxxxxxxxxxxxxxxxxxxxxxxxxxxxxxxxxxxxxxxxxxxxxxxxxxxxxxxxxxxxxxxxxxxxxxxxxxxxxxxxxxxxxxxxxxxxxxxxxxxxxxxxxxxxxx'\n    - -1\n") <= SAME
enum [quote_all] Rec { s: "xxxxxxxxxxxxxxxxxxxxxxxxxxxxxxxxxxxxxxxxxxxxxxxxxxxxxxxxxxxxxxxxxxxxxxxxxxxxxxxxxxxxxxxxxxxxxxxxxxxxxxxxxxxxxxxxxxxxxxxx", c: 'x' } => Ok("'Rec':\n  s: 'xxxxxxxxxxxxxxxxxxxxxxxxxxxxxxxxxxxxxxxxxxxxxxxxxxxxxxxxxxxxxxxxxxxxxxxxxxxxxxxxxxxxxxxxxxxxxxxxxxxxxxxxxxxxxxxxxxxxxxxx'\n  c: 'x'\n") <= SAME
enum [quote_all] Text("aaaaaaaaaaaaaaaaaaaaaaaaaaaaaaaaaaaaaaaaaaaaaaaaaa # bbbbbbbbbbbbbbbbbbbbbbbbbbbbbbbbbbbbbbbbbbbbbbbbbb") => Ok("'Text': 'aaaaaaaaaaaaaaaaaaaaaaaaaaaaaaaaaaaaaaaaaaaaaaaaaa # bbbbbbbbbbbbbbbbbbbbbbbbbbbbbbbbbbbbbbbbbbbbbbbbbb'\n") <= SAME
enum [quote_all] [Pair("aaaaaaaaaaaaaaaaaaaaaaaaaaaaaaaaaaaaaaaaaaaaaaaaaa # bbbbbbbbbbbbbbbbbbbbbbbbbbbbbbbbbbbbbbbbbbbbbbbbbb", -1)] => Ok("- 'Pair':\n    - 'aaaaaaaaaaaaaaaaaaaaaaaaaaaaaaaaaaaaaaaaaaaaaaaaaa # bbbbbbbbbbbbbbbbbbbbbbbbbbbbbbbbbbbbbbbbbbbbbbbbbb'\n    - -1\n") <= SAME
enum [quote_all] Rec { s: "aaaaaaaaaaaaaaaaaaaaaaaaaaaaaaaaaaaaaaaaaaaaaaaaaa # bbbbbbbbbbbbbbbbbbbbbbbbbbbbbbbbbbbbbbbbbbbbbbbbbb", c: 'a' } => Ok("'Rec':\n  s: 'aaaaaaaaaaaaaaaaaaaaaaaaaaaaaaaaaaaaaaaaaaaaaaaaaa # bbbbbbbbbbbbbbbbbbbbbbbbbbbbbbbbbbbbbbbbbbbbbbbbbb'\n  c: 'a'\n") <= SAME
enum [quote_all] Text("日本語 テキスト 日本語 テキスト 日本語 テキスト 日本語 テキスト 日本語 テキスト 日本語 テキスト 日本語 テキスト 日本語 テキスト 日本語 テキスト 日本語 テキスト 日本語 テキスト 日本語 テキスト 日本語 テキスト 日本語 テキスト 日本語 テキスト ") => Ok("'Text': '日本語 テキスト 日本語 テキスト 日本語 テキスト 日本語 テキスト 日本語 テキスト 日本語 テキスト 日本語 テキスト 日本語 テキスト 日本語 テキスト 日本語 テキスト 日本語 テキスト 日本語 テキスト 日本語 テキスト 日本語 テキスト 日本語 テキスト '\n") <= SAME
enum [quote_all] [Pair("日本語 テキスト 日本語 テキスト 日本語 テキスト 日本語 テキスト 日本語 テキスト 日本語 テキスト 日本語 テキスト 日本語 テキスト 日本語 テキスト 日本語 テキスト 日本語 テキスト 日本語 テキスト 日本語 テキスト 日本語 テキスト 日本語 テキスト ", -1)] => Ok("- 'Pair':\n    - '日本語 テキスト 日本語 テキスト 日本語 テキスト 日本語 テキスト 日本語 テキスト 日本語 テキスト 日本語 テキスト 日本語 テキスト 日本語 テキスト 日本語 テキスト 日本語 テキスト 日本語 テキスト 日本語 テキスト 日本語 テキスト 日本語 テキスト '\n    - -1\n") <= SAME
enum [quote_all] Rec { s: "日本語 テキスト 日本語 テキスト 日本語 テキスト 日本語 テキスト 日本語 テキスト 日本語 テキスト 日本語 テキスト 日本語 テキスト 日本語 テキスト 日本語 テキスト 日本語 テキスト 日本語 テキスト 日本語 テキスト 日本語 テキスト 日本語 テキスト ", c: '日' } => Ok("'Rec':\n  s: '日本語 テキスト 日本語 テキスト 日本語 テキスト 日本語 テキスト 日本語 テキスト 日本語 テキスト 日本語 テキスト 日本語 テキスト 日本語 テキスト 日本語 テキスト 日本語 テキスト 日本語 テキスト 日本語 テキスト 日本語 テキスト 日本語 テキスト '\n  c: '日'\n") <= SAME
enum [quote_all] Text("lorem ipsum lorem ipsum lorem ipsum lorem ipsum lorem ipsum lorem ipsum \ndolor sit dolor sit dolor sit dolor sit dolor sit dolor sit ") => Ok("'Text': \"lorem ipsum lorem ipsum lorem ipsum lorem ipsum lorem ipsum lorem ipsum \\ndolor sit dolor sit dolor sit dolor sit dolor sit dolor sit \"\n") <= SAME
enum [quote_all] [Pair("lorem ipsum lorem ipsum lorem ipsum lorem ipsum lorem ipsum lorem ipsum \ndolor sit dolor sit dolor sit dolor sit dolor sit dolor sit ", -1)] => Ok("- 'Pair':\n    - \"lorem ipsum lorem ipsum lorem ipsum lorem ipsum lorem ipsum lorem ipsum \\ndolor sit dolor sit dolor sit dolor sit dolor sit dolor sit \"\n    - -1\n") <= SAME
enum [quote_all] Rec { s: "lorem ipsum lorem ipsum lorem ipsum lorem ipsum lorem ipsum lorem ipsum \ndolor sit dolor sit dolor sit dolor sit dolor sit dolor sit ", c: 'l' } => Ok("'Rec':\n  s: \"lorem ipsum lorem ipsum lorem ipsum lorem ipsum lorem ipsum lorem ipsum \\ndolor sit dolor sit dolor sit dolor sit dolor sit dolor sit \"\n  c: 'l'\n") <= SAME
doc [quote_all] Doc { s: "line one\nline two\n", list: ["  lead\nx", "\n", "~"], opt: None, unit: () } => Ok("s: \"line one\\nline two\\n\"\nlist:\n  - \"  lead\\nx\"\n  - \"\\n\"\n  - '~'\nopt: null\nunit: null\n") <= SAME
root [yaml12] "" => Ok("%YAML 1.2\n---\n\"\"\n") <= SAME
root [yaml12] "~" => Ok("%YAML 1.2\n---\n\"~\"\n") <= SAME
root [yaml12] "null" => Ok("%YAML 1.2\n---\n\"null\"\n") <= SAME
root [yaml12] "NULL" => Ok("%YAML 1.2\n---\n\"NULL\"\n") <= SAME
root [yaml12] "Null" => Ok("%YAML 1.2\n---\n\"Null\"\n") <= SAME
root [yaml12] "true" => Ok("%YAML 1.2\n---\n\"true\"\n") <= SAME
root [yaml12] "False" => Ok("%YAML 1.2\n---\n\"False\"\n") <= SAME
root [yaml12] "TRUE" => Ok("%YAML 1.2\n---\n\"TRUE\"\n") <= SAME
root [yaml12] "yes" => Ok("%YAML 1.2\n---\nyes\n") <= SAME
root [yaml12] "y" => Ok("%YAML 1.2\n---\ny\n") <= SAME
root [yaml12] "No" => Ok("%YAML 1.2\n---\nNo\n") <= SAME
root [yaml12] "on" => Ok("%YAML 1.2\n---\non\n") <= SAME
root [yaml12] "OFF" => Ok("%YAML 1.2\n---\nOFF\n") <= SAME
root [yaml12] "<<" => Ok("%YAML 1.2\n---\n\"<<\"\n") <= SAME
root [yaml12] "---" => Ok("%YAML 1.2\n---\n\"---\"\n") <= SAME
root [yaml12] "--- a" => Ok("%YAML 1.2\n---\n\"--- a\"\n") <= SAME
root [yaml12] "---a" => Ok("%YAML 1.2\n---\n---a\n") <= SAME
root [yaml12] "..." => Ok("%YAML 1.2\n---\n\"...\"\n") <= SAME
root [yaml12] "... x" => Ok("%YAML 1.2\n---\n\"... x\"\n") <= SAME
root [yaml12] ".nan" => Ok("%YAML 1.2\n---\n\".nan\"\n") <= SAME
root [yaml12] ".NaN" => Ok("%YAML 1.2\n---\n\".NaN\"\n") <= SAME
root [yaml12] "-.INF" => Ok("%YAML 1.2\n---\n\"-.INF\"\n") <= SAME
root [yaml12] "+.inf" => Ok("%YAML 1.2\n---\n\"+.inf\"\n") <= SAME
root [yaml12] ".inf" => Ok("%YAML 1.2\n---\n\".inf\"\n") <= SAME
root [yaml12] "+-.inf" => Ok("%YAML 1.2\n---\n+-.inf\n") <= SAME
root [yaml12] ".infx" => Ok("%YAML 1.2\n---\n.infx\n") <= SAME
root [yaml12] "nan" => Ok("%YAML 1.2\n---\n\"nan\"\n") <= SAME
root [yaml12] "NaN" => Ok("%YAML 1.2\n---\n\"NaN\"\n") <= SAME
root [yaml12] "+inf" => Ok("%YAML 1.2\n---\n\"+inf\"\n") <= SAME
root [yaml12] "-Infinity" => Ok("%YAML 1.2\n---\n\"-Infinity\"\n") <= SAME
root [yaml12] "infinity" => Ok("%YAML 1.2\n---\n\"infinity\"\n") <= SAME
root [yaml12] "0x1F" => Ok("%YAML 1.2\n---\n\"0x1F\"\n") <= SAME
root [yaml12] "-0x1f" => Ok("%YAML 1.2\n---\n\"-0x1f\"\n") <= SAME
root [yaml12] "0o17" => Ok("%YAML 1.2\n---\n\"0o17\"\n") <= SAME
root [yaml12] "0b101" => Ok("%YAML 1.2\n---\n\"0b101\"\n") <= SAME
root [yaml12] "0b102" => Ok("%YAML 1.2\n---\n0b102\n") <= SAME
root [yaml12] "1_000" => Ok("%YAML 1.2\n---\n\"1_000\"\n") <= SAME
root [yaml12] "1e9" => Ok("%YAML 1.2\n---\n\"1e9\"\n") <= SAME
root [yaml12] "1E+9" => Ok("%YAML 1.2\n---\n\"1E+9\"\n") <= SAME
root [yaml12] "1." => Ok("%YAML 1.2\n---\n\"1.\"\n") <= SAME
root [yaml12] ".5" => Ok("%YAML 1.2\n---\n\".5\"\n") <= SAME
root [yaml12] "+1.5e-3" => Ok("%YAML 1.2\n---\n\"+1.5e-3\"\n") <= SAME
root [yaml12] "1.5e" => Ok("%YAML 1.2\n---\n1.5e\n") <= SAME
root [yaml12] "12345678901234567890123456789" => Ok("%YAML 1.2\n---\n\"12345678901234567890123456789\"\n") <= SAME
root [yaml12] "-" => Ok("%YAML 1.2\n---\n'-'\n") <= SAME
root [yaml12] "?" => Ok("%YAML 1.2\n---\n\"?\"\n") <= SAME
root [yaml12] "+" => Ok("%YAML 1.2\n---\n+\n") <= SAME
root [yaml12] "." => Ok("%YAML 1.2\n---\n'.'\n") <= SAME
root [yaml12] "#" => Ok("%YAML 1.2\n---\n'#'\n") <= SAME
root [yaml12] "- a" => Ok("%YAML 1.2\n---\n\"- a\"\n") <= SAME
root [yaml12] "-a" => Ok("%YAML 1.2\n---\n-a\n") <= SAME
root [yaml12] "-\ta" => Ok("%YAML 1.2\n---\n\"-\\ta\"\n") <= SAME
root [yaml12] "?x" => Ok("%YAML 1.2\n---\n?x\n") <= SAME
root [yaml12] "? x" => Ok("%YAML 1.2\n---\n\"? x\"\n") <= SAME
root [yaml12] ",a" => Ok("%YAML 1.2\n---\n\",a\"\n") <= SAME
root [yaml12] ":a" => Ok("%YAML 1.2\n---\n\":a\"\n") <= SAME
root [yaml12] "[a" => Ok("%YAML 1.2\n---\n\"[a\"\n") <= SAME
root [yaml12] "]a" => Ok("%YAML 1.2\n---\n\"]a\"\n") <= SAME
root [yaml12] "{a" => Ok("%YAML 1.2\n---\n\"{a\"\n") <= SAME
root [yaml12] "}a" => Ok("%YAML 1.2\n---\n\"}a\"\n") <= SAME
root [yaml12] "%a" => Ok("%YAML 1.2\n---\n\"%a\"\n") <= SAME
root [yaml12] "@a" => Ok("%YAML 1.2\n---\n\"@a\"\n") <= SAME
root [yaml12] "`a" => Ok("%YAML 1.2\n---\n\"`a\"\n") <= SAME
root [yaml12] "!a" => Ok("%YAML 1.2\n---\n\"!a\"\n") <= SAME
root [yaml12] "&a" => Ok("%YAML 1.2\n---\n\"&a\"\n") <= SAME
root [yaml12] "*a" => Ok("%YAML 1.2\n---\n\"*a\"\n") <= SAME
root [yaml12] "|a" => Ok("%YAML 1.2\n---\n\"|a\"\n") <= SAME
root [yaml12] ">a" => Ok("%YAML 1.2\n---\n\">a\"\n") <= SAME
root [yaml12] "'a" => Ok("%YAML 1.2\n---\n\"'a\"\n") <= SAME
root [yaml12] "\"a" => Ok("%YAML 1.2\n---\n\"\\\"a\"\n") <= SAME
root [yaml12] "a: b" => Ok("%YAML 1.2\n---\n\"a: b\"\n") <= SAME
root [yaml12] "a:b" => Ok("%YAML 1.2\n---\na:b\n") <= SAME
root [yaml12] "a:" => Ok("%YAML 1.2\n---\n\"a:\"\n") <= SAME
root [yaml12] "a: " => Ok("%YAML 1.2\n---\n\"a: \"\n") <= SAME
root [yaml12] "a #b" => Ok("%YAML 1.2\n---\n\"a #b\"\n") <= SAME
root [yaml12] "a#b" => Ok("%YAML 1.2\n---\n\"a#b\"\n") <= SAME
root [yaml12] "a,b" => Ok("%YAML 1.2\n---\na,b\n") <= SAME
root [yaml12] "a]b" => Ok("%YAML 1.2\n---\na]b\n") <= SAME
root [yaml12] "a{b}" => Ok("%YAML 1.2\n---\na{b}\n") <= SAME
root [yaml12] " lead" => Ok("%YAML 1.2\n---\n\" lead\"\n") <= SAME
root [yaml12] "trail " => Ok("%YAML 1.2\n---\n\"trail \"\n") <= SAME
root [yaml12] "\u{a0}nbsp" => Ok("%YAML 1.2\n---\n\"\u{a0}nbsp\"\n") <= SAME
root [yaml12] "em\u{2003}" => Ok("%YAML 1.2\n---\n\"em\u{2003}\"\n") <= SAME
root [yaml12] "\u{feff}bom" => Ok("%YAML 1.2\n---\n\"\\uFEFFbom\"\n") <= SAME
root [yaml12] "mid\u{feff}bom" => Ok("%YAML 1.2\n---\nmid\u{feff}bom\n") <= SAME
root [yaml12] "tab\there" => Ok("%YAML 1.2\n---\n\"tab\\there\"\n") <= SAME
root [yaml12] "new\nline" => Ok("%YAML 1.2\n---\n|-\n  new\n  line\n") <= SAME
root [yaml12] "line\n" => Ok("%YAML 1.2\n---\n|\n  line\n") <= SAME
root [yaml12] "line\n\n" => Ok("%YAML 1.2\n---\n|+\n  line\n  \n") <= SAME
root [yaml12] "\n" => Ok("%YAML 1.2\n---\n\"\\n\"\n") <= SAME
root [yaml12] "\n\n" => Ok("%YAML 1.2\n---\n\"\\n\\n\"\n") <= SAME
root [yaml12] "\n\n\n" => Ok("%YAML 1.2\n---\n\"\\n\\n\\n\"\n") <= SAME
root [yaml12] "\nlead" => Ok("%YAML 1.2\n---\n\"\\nlead\"\n") <= SAME
root [yaml12] "a\n\n\nb\n\n\n" => Ok("%YAML 1.2\n---\n|+\n  a\n  \n  \n  b\n  \n  \n") <= SAME
root [yaml12] "  indented\nline" => Ok("%YAML 1.2\n---\n\"  indented\\nline\"\n") <= SAME
root [yaml12] "\n  indented after blank\n" => Ok("%YAML 1.2\n---\n\"\\n  indented after blank\\n\"\n") <= SAME
root [yaml12] "a\n  b\n" => Ok("%YAML 1.2\n---\n|\n  a\n    b\n") <= SAME
root [yaml12] "key: v\nnext" => Ok("%YAML 1.2\n---\n\"key: v\\nnext\"\n") <= SAME
root [yaml12] "ends with colon:\nx:" => Ok("%YAML 1.2\n---\n\"ends with colon:\\nx:\"\n") <= SAME
root [yaml12] "# not comment\nline" => Ok("%YAML 1.2\n---\n\"# not comment\\nline\"\n") <= SAME
root [yaml12] "trailing space \nline" => Ok("%YAML 1.2\n---\n|-\n  trailing space \n  line\n") <= SAME
root [yaml12] "cr\rhere" => Ok("%YAML 1.2\n---\n\"cr\\rhere\"\n") <= SAME
root [yaml12] "crlf\r\nhere" => Ok("%YAML 1.2\n---\n\"crlf\\r\\nhere\"\n") <= SAME
root [yaml12] "\0" => Ok("%YAML 1.2\n---\n\"\\0\"\n") <= SAME
root [yaml12] "\u{7}" => Ok("%YAML 1.2\n---\n\"\\a\"\n") <= SAME
root [yaml12] "\u{8}" => Ok("%YAML 1.2\n---\n\"\\b\"\n") <= SAME
root [yaml12] "\u{b}" => Ok("%YAML 1.2\n---\n\"\\v\"\n") <= SAME
root [yaml12] "\u{c}" => Ok("%YAML 1.2\n---\n\"\\f\"\n") <= SAME
root [yaml12] "\u{1b}" => Ok("%YAML 1.2\n---\n\"\\e\"\n") <= SAME
root [yaml12] "\u{1}" => Ok("%YAML 1.2\n---\n\"\\x01\"\n") <= SAME
root [yaml12] "\u{1f}" => Ok("%YAML 1.2\n---\n\"\\x1F\"\n") <= SAME
root [yaml12] "\u{7f}" => Ok("%YAML 1.2\n---\n\"\\x7F\"\n") <= SAME
root [yaml12] "\u{80}" => Ok("%YAML 1.2\n---\n\"\\x80\"\n") <= SAME
root [yaml12] "\u{85}" => Ok("%YAML 1.2\n---\n\"\\N\"\n") <= SAME
root [yaml12] "\u{9f}" => Ok("%YAML 1.2\n---\n\"\\x9F\"\n") <= SAME
root [yaml12] "\u{2028}" => Ok("%YAML 1.2\n---\n\"\\L\"\n") <= SAME
root [yaml12] "\u{2029}" => Ok("%YAML 1.2\n---\n\"\\P\"\n") <= SAME
root [yaml12] "a\u{2028}b" => Ok("%YAML 1.2\n---\na\u{2028}b\n") <= SAME
root [yaml12] "it's" => Ok("%YAML 1.2\n---\nit's\n") <= SAME
root [yaml12] "'" => Ok("%YAML 1.2\n---\n\"'\"\n") <= SAME
root [yaml12] "''" => Ok("%YAML 1.2\n---\n\"''\"\n") <= SAME
root [yaml12] "say \"hi\"" => Ok("%YAML 1.2\n---\nsay \"hi\"\n") <= SAME
root [yaml12] "back\\slash" => Ok("%YAML 1.2\n---\nback\\slash\n") <= SAME
root [yaml12] "\\" => Ok("%YAML 1.2\n---\n\\\n") <= SAME
root [yaml12] "é" => Ok("%YAML 1.2\n---\né\n") <= SAME
root [yaml12] "日本語" => Ok("%YAML 1.2\n---\n日本語\n") <= SAME
root [yaml12] "😀" => Ok("%YAML 1.2\n---\n😀\n") <= SAME
root [yaml12] "1.0.0" => Ok("%YAML 1.2\n---\n1.0.0\n") <= SAME
root [yaml12] "12:30" => Ok("%YAML 1.2\n---\n12:30\n") <= SAME
root [yaml12] "2001-12-14" => Ok("%YAML 1.2\n---\n2001-12-14\n") <= SAME
root [yaml12] "a b" => Ok("%YAML 1.2\n---\na b\n") <= SAME
root [yaml12] "word word word word word word word word word word word word word word word word word word word word word word word word word word word word word word" => Ok("%YAML 1.2\n---\n>-\n  word word word word word word word word word word word word word word word word\n  word word word word word word word word word word word word word word\n") <= SAME
root [yaml12] "word word word word word word word word word word word word word word word word word word word word word word word word word word word word word word " => Ok("%YAML 1.2\n---\n>-\n  word word word word word word word word word word word word word word word word\n  word word word word word word word word word word word word word word \n") <= SAME
root [yaml12] "word word word word word word word word word word word word word word word word word word word word word word word word word word word word word word\n" => Ok("%YAML 1.2\n---\n|\n  word word word word word word word word word word word word word word word word word word word word word word word word word word word word word word\n") <= SAME
root [yaml12] "word word word word word word word word word word word word word word word word word word word word word word word word word word word word word word\n\n" => Ok("%YAML 1.2\n---\n|+\n  word word word word word word word word word word word word word word word word word word word word word word word word word word word word word word\n  \n") <= SAME
root [yaml12] "xxxxxxxxxxxxxxxxxxxxxxxxxxxxxxxxxxxxxxxxxxxxxxxxxxxxxxxxxxxxxxxxxxxxxxxxxxxxxxxxxxxxxxxxxxxxxxxxxxxxxxxxxxxxxxxxxxxxxxxx" => Ok("%YAML 1.2\n---\n>-\n  xxxxxxxxxxxxxxxxxxxxxxxxxxxxxxxxxxxxxxxxxxxxxxxxxxxxxxxxxxxxxxxxxxxxxxxxxxxxxxxxxxxxxxxxxxxxxxxxxxxxxxxxxxxxxxxxxxxxxxxx\n") <= SAME
root [yaml12] "aaaaaaaaaaaaaaaaaaaaaaaaaaaaaaaaaaaaaaaaaaaaaaaaaa   bbbbbbbbbbbbbbbbbbbbbbbbbbbbbbbbbbbbbbbbbbbbbbbbbb  cccccccccccccccccccccccccccccccccccccccccccccccccc" => Ok("%YAML 1.2\n---\n>-\n  aaaaaaaaaaaaaaaaaaaaaaaaaaaaaaaaaaaaaaaaaaaaaaaaaa  \n  bbbbbbbbbbbbbbbbbbbbbbbbbbbbbbbbbbbbbbbbbbbbbbbbbb  cccccccccccccccccccccccccccccccccccccccccccccccccc\n") <= SAME
root [yaml12] "aaaaaaaaaaaaaaaaaaaaaaaaaaaaaaaaaaaaaaaaaaaaaaaaaa\tbbbbbbbbbbbbbbbbbbbbbbbbbbbbbbbbbbbbbbbbbbbbbbbbbb\tcccccccccccccccccccccccccccccccccccccccccccccccccc" => Ok("%YAML 1.2\n---\n\"aaaaaaaaaaaaaaaaaaaaaaaaaaaaaaaaaaaaaaaaaaaaaaaaaa\\tbbbbbbbbbbbbbbbbbbbbbbbbbbbbbbbbbbbbbbbbbbbbbbbbbb\\tcccccccccccccccccccccccccccccccccccccccccccccccccc\"\n") <= SAME
root [yaml12] "aaaaaaaaaaaaaaaaaaaaaaaaaaaaaaaaaaaaaaaaaaaaaaaaaa # bbbbbbbbbbbbbbbbbbbbbbbbbbbbbbbbbbbbbbbbbbbbbbbbbb" => Ok("%YAML 1.2\n---\n\"aaaaaaaaaaaaaaaaaaaaaaaaaaaaaaaaaaaaaaaaaaaaaaaaaa # bbbbbbbbbbbbbbbbbbbbbbbbbbbbbbbbbbbbbbbbbbbbbbbbbb\"\n") <= SAME
root [yaml12] "aaaaaaaaaaaaaaaaaaaaaaaaaaaaaaaaaaaaaaaaaaaaaaaaaa: bbbbbbbbbbbbbbbbbbbbbbbbbbbbbbbbbbbbbbbbbbbbbbbbbb" => Ok("%YAML 1.2\n---\n\"aaaaaaaaaaaaaaaaaaaaaaaaaaaaaaaaaaaaaaaaaaaaaaaaaa: bbbbbbbbbbbbbbbbbbbbbbbbbbbbbbbbbbbbbbbbbbbbbbbbbb\"\n") <= SAME
root [yaml12] "- lorem ipsum lorem ipsum lorem ipsum lorem ipsum lorem ipsum lorem ipsum lorem ipsum lorem ipsum lorem ipsum lorem ipsum " => Ok("%YAML 1.2\n---\n\"- lorem ipsum lorem ipsum lorem ipsum lorem ipsum lorem ipsum lorem ipsum lorem ipsum lorem ipsum lorem ipsum lorem ipsum \"\n") <= SAME
root [yaml12] "日本語 テキスト 日本語 テキスト 日本語 テキスト 日本語 テキスト 日本語 テキスト 日本語 テキスト 日本語 テキスト 日本語 テキスト 日本語 テキスト 日本語 テキスト 日本語 テキスト 日本語 テキスト 日本語 テキスト 日本語 テキスト 日本語 テキスト " => Ok("%YAML 1.2\n---\n>-\n  日本語 テキスト 日本語 テキスト 日本語 テキスト 日本語 テキスト 日本語 テキスト 日本語 テキスト 日本語 テキスト 日本語 テキスト 日本語\n  テキスト 日本語 テキスト 日本語 テキスト 日本語 テキスト 日本語 テキスト 日本語 テキスト 日本語 テキスト \n") <= SAME
root [yaml12] "ab ab ab ab ab ab ab ab ab ab ab ab ab ab ab ab ab ab ab ab \u{85}cd cd cd cd cd cd cd cd cd cd cd cd cd cd cd cd cd cd cd cd " => Ok("%YAML 1.2\n---\n\"ab ab ab ab ab ab ab ab ab ab ab ab ab ab ab ab ab ab ab ab \\Ncd cd cd cd cd cd cd cd cd cd cd cd cd cd cd cd cd cd cd cd \"\n") <= SAME
root [yaml12] "ab ab ab ab ab ab ab ab ab ab ab ab ab ab ab ab ab ab ab ab \rcd cd cd cd cd cd cd cd cd cd cd cd cd cd cd cd cd cd cd cd " => Ok("%YAML 1.2\n---\n\"ab ab ab ab ab ab ab ab ab ab ab ab ab ab ab ab ab ab ab ab \\rcd cd cd cd cd cd cd cd cd cd cd cd cd cd cd cd cd cd cd cd \"\n") <= SAME
root [yaml12] "lorem ipsum lorem ipsum lorem ipsum lorem ipsum lorem ipsum lorem ipsum \ndolor sit dolor sit dolor sit dolor sit dolor sit dolor sit " => Ok("%YAML 1.2\n---\n|-\n  lorem ipsum lorem ipsum lorem ipsum lorem ipsum lorem ipsum lorem ipsum \n  dolor sit dolor sit dolor sit dolor sit dolor sit dolor sit \n") <= SAME
root [yaml12] "  lorem ipsum lorem ipsum lorem ipsum lorem ipsum lorem ipsum lorem ipsum \ndolor: sit dolor: sit dolor: sit dolor: sit dolor: sit dolor: sit \n\n" => Ok("%YAML 1.2\n---\n|2+\n    lorem ipsum lorem ipsum lorem ipsum lorem ipsum lorem ipsum lorem ipsum \n  dolor: sit dolor: sit dolor: sit dolor: sit dolor: sit dolor: sit \n  \n") <= SAME
root [yaml12] "lorem ipsum lorem ipsum lorem ipsum lorem ipsum lorem ipsum lorem ipsum :\ndolor sit dolor sit dolor sit dolor sit dolor sit dolor sit :" => Ok("%YAML 1.2\n---\n|-\n  lorem ipsum lorem ipsum lorem ipsum lorem ipsum lorem ipsum lorem ipsum :\n  dolor sit dolor sit dolor sit dolor sit dolor sit dolor sit :\n") <= SAME
seq [yaml12] ["", "~", "null", "NULL", "Null", "true", "False", "TRUE", "yes", "y", "No", "on", "OFF", "<<", "---", "--- a", "---a", "...", "... x", ".nan", ".NaN", "-.INF", "+.inf", ".inf", "+-.inf", ".infx", "nan", "NaN", "+inf", "-Infinity", "infinity", "0x1F", "-0x1f", "0o17", "0b101", "0b102", "1_000", "1e9", "1E+9", "1.", ".5", "+1.5e-3", "1.5e", "12345678901234567890123456789", "-", "?", "+", ".", "#", "- a", "-a", "-\ta", "?x", "? x", ",a", ":a", "[a", "]a", "{a", "}a", "%a", "@a", "`a", "!a", "&a", "*a", "|a", ">a", "'a", "\"a", "a: b", "a:b", "a:", "a: ", "a #b", "a#b", "a,b", "a]b", "a{b}", " lead", "trail ", "\u{a0}nbsp", "em\u{2003}", "\u{feff}bom", "mid\u{feff}bom", "tab\there", "new\nline", "line\n", "line\n\n", "\n", "\n\n", "\n\n\n", "\nlead", "a\n\n\nb\n\n\n", "  indented\nline", "\n  indented after blank\n", "a\n  b\n", "key: v\nnext", "ends with colon:\nx:", "# not comment\nline", "trailing space \nline", "cr\rhere", "crlf\r\nhere", "\0", "\u{7}", "\u{8}", "\u{b}", "\u{c}", "\u{1b}", "\u{1}", "\u{1f}", "\u{7f}", "\u{80}", "\u{85}", "\u{9f}", "\u{2028}", "\u{2029}", "a\u{2028}b", "it's", "'", "''", "say \"hi\"", "back\\slash", "\\", "é", "日本語", "😀", "1.0.0", "12:30", "2001-12-14", "a b", "word word word word word word word word word word word word word word word word word word word word word word word word word word word word word word", "word word word word word word word word word word word word word word word word word word word word word word word word word word word word word word ", "word word word word word word word word word word word word word word word word word word word word word word word word word word word word word word\n", "word word word word word word word word word word word word word word word word word word word word word word word word word word word word word word\n\n", "xxxxxxxxxxxxxxxxxxxxxxxxxxxxxxxxxxxxxxxxxxxxxxxxxxxxxxxxxxxxxxxxxxxxxxxxxxxxxxxxxxxxxxxxxxxxxxxxxxxxxxxxxxxxxxxxxxxxxxxx", "aaaaaaaaaaaaaaaaaaaaaaaaaaaaaaaaaaaaaaaaaaaaaaaaaa   bbbbbbbbbbbbbbbbbbbbbbbbbbbbbbbbbbbbbbbbbbbbbbbbbb  cccccccccccccccccccccccccccccccccccccccccccccccccc", "aaaaaaaaaaaaaaaaaaaaaaaaaaaaaaaaaaaaaaaaaaaaaaaaaa\tbbbbbbbbbbbbbbbbbbbbbbbbbbbbbbbbbbbbbbbbbbbbbbbbbb\tcccccccccccccccccccccccccccccccccccccccccccccccccc", "aaaaaaaaaaaaaaaaaaaaaaaaaaaaaaaaaaaaaaaaaaaaaaaaaa # bbbbbbbbbbbbbbbbbbbbbbbbbbbbbbbbbbbbbbbbbbbbbbbbbb", "aaaaaaaaaaaaaaaaaaaaaaaaaaaaaaaaaaaaaaaaaaaaaaaaaa: bbbbbbbbbbbbbbbbbbbbbbbbbbbbbbbbbbbbbbbbbbbbbbbbbb", "- lorem ipsum lorem ipsum lorem ipsum lorem ipsum lorem ipsum lorem ipsum lorem ipsum lorem ipsum lorem ipsum lorem ipsum ", "日本語 テキスト 日本語 テキスト 日本語 テキスト 日本語 テキスト 日本語 テキスト 日本語 テキスト 日本語 テキスト 日本語 テキスト 日本語 テキスト 日本語 テキスト 日本語 テキスト 日本語 テキスト 日本語 テキスト 日本語 テキスト 日本語 テキスト ", "ab ab ab ab ab ab ab ab ab ab ab ab ab ab ab ab ab ab ab ab \u{85}cd cd cd cd cd cd cd cd cd cd cd cd cd cd cd cd cd cd cd cd ", "ab ab ab ab ab ab ab ab ab ab ab ab ab ab ab ab ab ab ab ab \rcd cd cd cd cd cd cd cd cd cd cd cd cd cd cd cd cd cd cd cd ", "lorem ipsum lorem ipsum lorem ipsum lorem ipsum lorem ipsum lorem ipsum \ndolor sit dolor sit dolor sit dolor sit dolor sit dolor sit ", "  lorem ipsum lorem ipsum lorem ipsum lorem ipsum lorem ipsum lorem ipsum \ndolor: sit dolor: sit dolor: sit dolor: sit dolor: sit dolor: sit \n\n", "lorem ipsum lorem ipsum lorem ipsum lorem ipsum lorem ipsum lorem ipsum :\ndolor sit dolor sit dolor sit dolor sit dolor sit dolor sit :"] => Ok("%YAML 1.2\n---\n- \"\"\n- \"~\"\n- \"null\"\n- \"NULL\"\n- \"Null\"\n- \"true\"\n- \"False\"\n- \"TRUE\"\n- yes\n- y\n- No\n- on\n- OFF\n- \"<<\"\n- \"---\"\n- \"--- a\"\n- ---a\n- \"...\"\n- \"... x\"\n- \".nan\"\n- \".NaN\"\n- \"-.INF\"\n- \"+.inf\"\n- \".inf\"\n- +-.inf\n- .infx\n- \"nan\"\n- \"NaN\"\n- \"+inf\"\n- \"-Infinity\"\n- \"infinity\"\n- \"0x1F\"\n- \"-0x1f\"\n- \"0o17\"\n- \"0b101\"\n- 0b102\n- \"1_000\"\n- \"1e9\"\n- \"1E+9\"\n- \"1.\"\n- \".5\"\n- \"+1.5e-3\"\n- 1.5e\n- \"12345678901234567890123456789\"\n- '-'\n- \"?\"\n- +\n- '.'\n- '#'\n- \"- a\"\n- -a\n- \"-\\ta\"\n- ?x\n- \"? x\"\n- \",a\"\n- \":a\"\n- \"[a\"\n- \"]a\"\n- \"{a\"\n- \"}a\"\n- \"%a\"\n- \"@a\"\n- \"`a\"\n- \"!a\"\n- \"&a\"\n- \"*a\"\n- \"|a\"\n- \">a\"\n- \"'a\"\n- \"\\\"a\"\n- \"a: b\"\n- a:b\n- \"a:\"\n- \"a: \"\n- \"a #b\"\n- \"a#b\"\n- a,b\n- a]b\n- a{b}\n- \" lead\"\n- \"trail \"\n- \"\u{a0}nbsp\"\n- \"em\u{2003}\"\n- \"\\uFEFFbom\"\n- mid\u{feff}bom\n- \"tab\\there\"\n- |-\n  new\n  line\n- |\n  line\n- |+\n  line\n  \n- \"\\n\"\n- \"\\n\\n\"\n- \"\\n\\n\\n\"\n- \"\\nlead\"\n- |+\n  a\n  \n  \n  b\n  \n  \n- \"  indented\\nline\"\n- \"\\n  indented after blank\\n\"\n- |\n  a\n    b\n- \"key: v\\nnext\"\n- \"ends with colon:\\nx:\"\n- \"# not comment\\nline\"\n- |-\n  trailing space \n  line\n- \"cr\\rhere\"\n- \"crlf\\r\\nhere\"\n- \"\\0\"\n- \"\\a\"\n- \"\\b\"\n- \"\\v\"\n- \"\\f\"\n- \"\\e\"\n- \"\\x01\"\n- \"\\x1F\"\n- \"\\x7F\"\n- \"\\x80\"\n- \"\\N\"\n- \"\\x9F\"\n- \"\\L\"\n- \"\\P\"\n- a\u{2028}b\n- it's\n- \"'\"\n- \"''\"\n- say \"hi\"\n- back\\slash\n- \\\n- é\n- 日本語\n- 😀\n- 1.0.0\n- 12:30\n- 2001-12-14\n- a b\n- >-\n  word word word word word word word word word word word word word word word word\n  word word word word word word word word word word word word word word\n- >-\n  word word word word word word word word word word word word word word word word\n  word word word word word word word word word word word word word word \n- |\n  word word word word word word word word word word word word word word word word word word word word word word word word word word word word word word\n- |+\n  word word word word word word word word word word word word word word word word word word word word word word word word word word word word word word\n  \n- >-\n  xxxxxxxxxxxxxxxxxxxxxxxxxxxxxxxxxxxxxxxxxxxxxxxxxxxxxxxxxxxxxxxxxxxxxxxxxxxxxxxxxxxxxxxxxxxxxxxxxxxxxxxxxxxxxxxxxxxxxxxx\n- >-\n  aaaaaaaaaaaaaaaaaaaaaaaaaaaaaaaaaaaaaaaaaaaaaaaaaa  \n  bbbbbbbbbbbbbbbbbbbbbbbbbbbbbbbbbbbbbbbbbbbbbbbbbb  cccccccccccccccccccccccccccccccccccccccccccccccccc\n- \"aaaaaaaaaaaaaaaaaaaaaaaaaaaaaaaaaaaaaaaaaaaaaaaaaa\\tbbbbbbbbbbbbbbbbbbbbbbbbbbbbbbbbbbbbbbbbbbbbbbbbbb\\tcccccccccccccccccccccccccccccccccccccccccccccccccc\"\n- \"aaaaaaaaaaaaaaaaaaaaaaaaaaaaaaaaaaaaaaaaaaaaaaaaaa # bbbbbbbbbbbbbbbbbbbbbbbbbbbbbbbbbbbbbbbbbbbbbbbbbb\"\n- \"aaaaaaaaaaaaaaaaaaaaaaaaaaaaaaaaaaaaaaaaaaaaaaaaaa: bbbbbbbbbbbbbbbbbbbbbbbbbbbbbbbbbbbbbbbbbbbbbbbbbb\"\n- \"- lorem ipsum lorem ipsum lorem ipsum lorem ipsum lorem ipsum lorem ipsum lorem ipsum lorem ipsum lorem ipsum lorem ipsum \"\n- >-\n  日本語 テキスト 日本語 テキスト 日本語 テキスト 日本語 テキスト 日本語 テキスト 日本語 テキスト 日本語 テキスト 日本語 テキスト 日本語\n  テキスト 日本語 テキスト 日本語 テキスト 日本語 テキスト 日本語 テキスト 日本語 テキスト 日本語 テキスト \n- \"ab ab ab ab ab ab ab ab ab ab ab ab ab ab ab ab ab ab ab ab \\Ncd cd cd cd cd cd cd cd cd cd cd cd cd cd cd cd cd cd cd cd \"\n- \"ab ab ab ab ab ab ab ab ab ab ab ab ab ab ab ab ab ab ab ab \\rcd cd cd cd cd cd cd cd cd cd cd cd cd cd cd cd cd cd cd cd \"\n- |-\n  lorem ipsum lorem ipsum lorem ipsum lorem ipsum lorem ipsum lorem ipsum \n  dolor sit dolor sit dolor sit dolor sit dolor sit dolor sit \n- |2+\n    lorem ipsum lorem ipsum lorem ipsum lorem ipsum lorem ipsum lorem ipsum \n  dolor: sit dolor: sit dolor: sit dolor: sit dolor: sit dolor: sit \n  \n- |-\n  lorem ipsum lorem ipsum lorem ipsum lorem ipsum lorem ipsum lorem ipsum :\n  dolor sit dolor sit dolor sit dolor sit dolor sit dolor sit :\n") <= SAME
mapval [yaml12] {"k00": "", "k01": "~", "k02": "null", "k03": "NULL", "k04": "Null", "k05": "true", "k06": "False", "k07": "TRUE", "k08": "yes", "k09": "y", "k10": "No", "k11": "on", "k12": "OFF", "k13": "<<", "k14": "---", "k15": "--- a"} => Ok("%YAML 1.2\n---\nk00: \"\"\nk01: \"~\"\nk02: \"null\"\nk03: \"NULL\"\nk04: \"Null\"\nk05: \"true\"\nk06: \"False\"\nk07: \"TRUE\"\nk08: yes\nk09: y\nk10: No\nk11: on\nk12: OFF\nk13: \"<<\"\nk14: \"---\"\nk15: \"--- a\"\n") <= SAME
mapkey [yaml12] {"": 0, "---": 14, "--- a": 15, "<<": 13, "False": 6, "NULL": 3, "No": 10, "Null": 4, "OFF": 12, "TRUE": 7, "null": 2, "on": 11, "true": 5, "y": 9, "yes": 8, "~": 1} => Ok("%YAML 1.2\n---\n\"\": 0\n\"---\": 14\n\"--- a\": 15\n\"<<\": 13\n\"False\": 6\n\"NULL\": 3\nNo: 10\n\"Null\": 4\nOFF: 12\n\"TRUE\": 7\n\"null\": 2\non: 11\n\"true\": 5\ny: 9\nyes: 8\n\"~\": 1\n") <= SAME
nested [yaml12] {"outer": [{"k00": "", "k01": "~", "k02": "null", "k03": "NULL", "k04": "Null", "k05": "true", "k06": "False", "k07": "TRUE", "k08": "yes", "k09": "y", "k10": "No", "k11": "on", "k12": "OFF", "k13": "<<", "k14": "---", "k15": "--- a"}, {"k00": "", "k01": "~", "k02": "null", "k03": "NULL", "k04": "Null", "k05": "true", "k06": "False", "k07": "TRUE", "k08": "yes", "k09": "y", "k10": "No", "k11": "on", "k12": "OFF", "k13": "<<", "k14": "---", "k15": "--- a"}]} => Ok("%YAML 1.2\n---\nouter:\n  - k00: \"\"\n    k01: \"~\"\n    k02: \"null\"\n    k03: \"NULL\"\n    k04: \"Null\"\n    k05: \"true\"\n    k06: \"False\"\n    k07: \"TRUE\"\n    k08: yes\n    k09: y\n    k10: No\n    k11: on\n    k12: OFF\n    k13: \"<<\"\n    k14: \"---\"\n    k15: \"--- a\"\n  - k00: \"\"\n    k01: \"~\"\n    k02: \"null\"\n    k03: \"NULL\"\n    k04: \"Null\"\n    k05: \"true\"\n    k06: \"False\"\n    k07: \"TRUE\"\n    k08: yes\n    k09: y\n    k10: No\n    k11: on\n    k12: OFF\n    k13: \"<<\"\n    k14: \"---\"\n    k15: \"--- a\"\n") <= SAME
mapval [yaml12] {"k00": "---a", "k01": "...", "k02": "... x", "k03": ".nan", "k04": ".NaN", "k05": "-.INF", "k06": "+.inf", "k07": ".inf", "k08": "+-.inf", "k09": ".infx", "k10": "nan", "k11": "NaN", "k12": "+inf", "k13": "-Infinity", "k14": "infinity", "k15": "0x1F"} => Ok("%YAML 1.2\n---\nk00: ---a\nk01: \"...\"\nk02: \"... x\"\nk03: \".nan\"\nk04: \".NaN\"\nk05: \"-.INF\"\nk06: \"+.inf\"\nk07: \".inf\"\nk08: +-.inf\nk09: .infx\nk10: \"nan\"\nk11: \"NaN\"\nk12: \"+inf\"\nk13: \"-Infinity\"\nk14: \"infinity\"\nk15: \"0x1F\"\n") <= SAME
mapkey [yaml12] {"+-.inf": 8, "+.inf": 6, "+inf": 12, "---a": 0, "-.INF": 5, "-Infinity": 13, "...": 1, "... x": 2, ".NaN": 4, ".inf": 7, ".infx": 9, ".nan": 3, "0x1F": 15, "NaN": 11, "infinity": 14, "nan": 10} => Ok("%YAML 1.2\n---\n+-.inf: 8\n\"+.inf\": 6\n\"+inf\": 12\n---a: 0\n\"-.INF\": 5\n\"-Infinity\": 13\n\"...\": 1\n\"... x\": 2\n\".NaN\": 4\n\".inf\": 7\n.infx: 9\n\".nan\": 3\n\"0x1F\": 15\n\"NaN\": 11\n\"infinity\": 14\n\"nan\": 10\n") <= SAME
nested [yaml12] {"outer": [{"k00": "---a", "k01": "...", "k02": "... x", "k03": ".nan", "k04": ".NaN", "k05": "-.INF", "k06": "+.inf", "k07": ".inf", "k08": "+-.inf", "k09": ".infx", "k10": "nan", "k11": "NaN", "k12": "+inf", "k13": "-Infinity", "k14": "infinity", "k15": "0x1F"}, {"k00": "---a", "k01": "...", "k02": "... x", "k03": ".nan", "k04": ".NaN", "k05": "-.INF", "k06": "+.inf", "k07": ".inf", "k08": "+-.inf", "k09": ".infx", "k10": "nan", "k11": "NaN", "k12": "+inf", "k13": "-Infinity", "k14": "infinity", "k15": "0x1F"}]} => Ok("%YAML 1.2\n---\nouter:\n  - k00: ---a\n    k01: \"...\"\n    k02: \"... x\"\n    k03: \".nan\"\n    k04: \".NaN\"\n    k05: \"-.INF\"\n    k06: \"+.inf\"\n    k07: \".inf\"\n    k08: +-.inf\n    k09: .infx\n    k10: \"nan\"\n    k11: \"NaN\"\n    k12: \"+inf\"\n    k13: \"-Infinity\"\n    k14: \"infinity\"\n    k15: \"0x1F\"\n  - k00: ---a\n    k01: \"...\"\n    k02: \"... x\"\n    k03: \".nan\"\n    k04: \".NaN\"\n    k05: \"-.INF\"\n    k06: \"+.inf\"\n    k07: \".inf\"\n    k08: +-.inf\n    k09: .infx\n    k10: \"nan\"\n    k11: \"NaN\"\n    k12: \"+inf\"\n    k13: \"-Infinity\"\n    k14: \"infinity\"\n    k15: \"0x1F\"\n") <= SAME
mapval [yaml12] {"k00": "-0x1f", "k01": "0o17", "k02": "0b101", "k03": "0b102", "k04": "1_000", "k05": "1e9", "k06": "1E+9", "k07": "1.", "k08": ".5", "k09": "+1.5e-3", "k10": "1.5e", "k11": "12345678901234567890123456789", "k12": "-", "k13": "?", "k14": "+", "k15": "."} => Ok("%YAML 1.2\n---\nk00: \"-0x1f\"\nk01: \"0o17\"\nk02: \"0b101\"\nk03: 0b102\nk04: \"1_000\"\nk05: \"1e9\"\nk06: \"1E+9\"\nk07: \"1.\"\nk08: \".5\"\nk09: \"+1.5e-3\"\nk10: 1.5e\nk11: \"12345678901234567890123456789\"\nk12: '-'\nk13: \"?\"\nk14: +\nk15: '.'\n") <= SAME
mapkey [yaml12] {"+": 14, "+1.5e-3": 9, "-": 12, "-0x1f": 0, ".": 15, ".5": 8, "0b101": 2, "0b102": 3, "0o17": 1, "1.": 7, "1.5e": 10, "12345678901234567890123456789": 11, "1E+9": 6, "1_000": 4, "1e9": 5, "?": 13} => Ok("%YAML 1.2\n---\n+: 14\n\"+1.5e-3\": 9\n\"-\": 12\n\"-0x1f\": 0\n.: 15\n\".5\": 8\n\"0b101\": 2\n0b102: 3\n\"0o17\": 1\n\"1.\": 7\n1.5e: 10\n\"12345678901234567890123456789\": 11\n\"1E+9\": 6\n\"1_000\": 4\n\"1e9\": 5\n\"?\": 13\n") <= SAME
nested [yaml12] {"outer": [{"k00": "-0x1f", "k01": "0o17", "k02": "0b101", "k03": "0b102", "k04": "1_000", "k05": "1e9", "k06": "1E+9", "k07": "1.", "k08": ".5", "k09": "+1.5e-3", "k10": "1.5e", "k11": "12345678901234567890123456789", "k12": "-", "k13": "?", "k14": "+", "k15": "."}, {"k00": "-0x1f", "k01": "0o17", "k02": "0b101", "k03": "0b102", "k04": "1_000", "k05": "1e9", "k06": "1E+9", "k07": "1.", "k08": ".5", "k09": "+1.5e-3", "k10": "1.5e", "k11": "12345678901234567890123456789", "k12": "-", "k13": "?", "k14": "+", "k15": "."}]} => Ok("%YAML 1.2\n---\nouter:\n  - k00: \"-0x1f\"\n    k01: \"0o17\"\n    k02: \"0b101\"\n    k03: 0b102\n    k04: \"1_000\"\n    k05: \"1e9\"\n    k06: \"1E+9\"\n    k07: \"1.\"\n    k08: \".5\"\n    k09: \"+1.5e-3\"\n    k10: 1.5e\n    k11: \"12345678901234567890123456789\"\n    k12: '-'\n    k13: \"?\"\n    k14: +\n    k15: '.'\n  - k00: \"-0x1f\"\n    k01: \"0o17\"\n    k02: \"0b101\"\n    k03: 0b102\n    k04: \"1_000\"\n    k05: \"1e9\"\n    k06: \"1E+9\"\n    k07: \"1.\"\n    k08: \".5\"\n    k09: \"+1.5e-3\"\n    k10: 1.5e\n    k11: \"12345678901234567890123456789\"\n    k12: '-'\n    k13: \"?\"\n    k14: +\n    k15: '.'\n") <= SAME
mapval [yaml12] {"k00": "#", "k01": "- a", "k02": "-a", "k03": "-\ta", "k04": "?x", "k05": "? x", "k06": ",a", "k07": ":a", "k08": "[a", "k09": "]a", "k10": "{a", "k11": "}a", "k12": "%a", "k13": "@a", "k14": "`a", "k15": "!a"} => Ok("%YAML 1.2\n---\nk00: '#'\nk01: \"- a\"\nk02: -a\nk03: \"-\\ta\"\nk04: ?x\nk05: \"? x\"\nk06: \",a\"\nk07: \":a\"\nk08: \"[a\"\nk09: \"]a\"\nk10: \"{a\"\nk11: \"}a\"\nk12: \"%a\"\nk13: \"@a\"\nk14: \"`a\"\nk15: \"!a\"\n") <= SAME
mapkey [yaml12] {"!a": 15, "#": 0, "%a": 12, ",a": 6, "-\ta": 3, "- a": 1, "-a": 2, ":a": 7, "? x": 5, "?x": 4, "@a": 13, "[a": 8, "]a": 9, "`a": 14, "{a": 10, "}a": 11} => Ok("%YAML 1.2\n---\n\"!a\": 15\n\"#\": 0\n\"%a\": 12\n\",a\": 6\n\"-\\ta\": 3\n\"- a\": 1\n-a: 2\n\":a\": 7\n\"? x\": 5\n?x: 4\n\"@a\": 13\n\"[a\": 8\n\"]a\": 9\n\"`a\": 14\n\"{a\": 10\n\"}a\": 11\n") <= SAME
nested [yaml12] {"outer": [{"k00": "#", "k01": "- a", "k02": "-a", "k03": "-\ta", "k04": "?x", "k05": "? x", "k06": ",a", "k07": ":a", "k08": "[a", "k09": "]a", "k10": "{a", "k11": "}a", "k12": "%a", "k13": "@a", "k14": "`a", "k15": "!a"}, {"k00": "#", "k01": "- a", "k02": "-a", "k03": "-\ta", "k04": "?x", "k05": "? x", "k06": ",a", "k07": ":a", "k08": "[a", "k09": "]a", "k10": "{a", "k11": "}a", "k12": "%a", "k13": "@a", "k14": "`a", "k15": "!a"}]} => Ok("%YAML 1.2\n---\nouter:\n  - k00: '#'\n    k01: \"- a\"\n    k02: -a\n    k03: \"-\\ta\"\n    k04: ?x\n    k05: \"? x\"\n    k06: \",a\"\n    k07: \":a\"\n    k08: \"[a\"\n    k09: \"]a\"\n    k10: \"{a\"\n    k11: \"}a\"\n    k12: \"%a\"\n    k13: \"@a\"\n    k14: \"`a\"\n    k15: \"!a\"\n  - k00: '#'\n    k01: \"- a\"\n    k02: -a\n    k03: \"-\\ta\"\n    k04: ?x\n    k05: \"? x\"\n    k06: \",a\"\n    k07: \":a\"\n    k08: \"[a\"\n    k09: \"]a\"\n    k10: \"{a\"\n    k11: \"}a\"\n    k12: \"%a\"\n    k13: \"@a\"\n    k14: \"`a\"\n    k15: \"!a\"\n") <= SAME
mapval [yaml12] {"k00": "&a", "k01": "*a", "k02": "|a", "k03": ">a", "k04": "'a", "k05": "\"a", "k06": "a: b", "k07": "a:b", "k08": "a:", "k09": "a: ", "k10": "a #b", "k11": "a#b", "k12": "a,b", "k13": "a]b", "k14": "a{b}", "k15": " lead"} => Ok("%YAML 1.2\n---\nk00: \"&a\"\nk01: \"*a\"\nk02: \"|a\"\nk03: \">a\"\nk04: \"'a\"\nk05: \"\\\"a\"\nk06: \"a: b\"\nk07: a:b\nk08: \"a:\"\nk09: \"a: \"\nk10: \"a #b\"\nk11: \"a#b\"\nk12: a,b\nk13: a]b\nk14: a{b}\nk15: \" lead\"\n") <= SAME
mapkey [yaml12] {" lead": 15, "\"a": 5, "&a": 0, "'a": 4, "*a": 1, ">a": 3, "a #b": 10, "a#b": 11, "a,b": 12, "a:": 8, "a: ": 9, "a: b": 6, "a:b": 7, "a]b": 13, "a{b}": 14, "|a": 2} => Ok("%YAML 1.2\n---\n\" lead\": 15\n\"\\\"a\": 5\n\"&a\": 0\n\"'a\": 4\n\"*a\": 1\n\">a\": 3\n\"a #b\": 10\n\"a#b\": 11\n\"a,b\": 12\n\"a:\": 8\n\"a: \": 9\n\"a: b\": 6\n\"a:b\": 7\n\"a]b\": 13\n\"a{b}\": 14\n\"|a\": 2\n") <= SAME
nested [yaml12] {"outer": [{"k00": "&a", "k01": "*a", "k02": "|a", "k03": ">a", "k04": "'a", "k05": "\"a", "k06": "a: b", "k07": "a:b", "k08": "a:", "k09": "a: ", "k10": "a #b", "k11": "a#b", "k12": "a,b", "k13": "a]b", "k14": "a{b}", "k15": " lead"}, {"k00": "&a", "k01": "*a", "k02": "|a", "k03": ">a", "k04": "'a", "k05": "\"a", "k06": "a: b", "k07": "a:b", "k08": "a:", "k09": "a: ", "k10": "a #b", "k11": "a#b", "k12": "a,b", "k13": "a]b", "k14": "a{b}", "k15": " lead"}]} => Ok("%YAML 1.2\n---\nouter:\n  - k00: \"&a\"\n    k01: \"*a\"\n    k02: \"|a\"\n    k03: \">a\"\n    k04: \"'a\"\n    k05: \"\\\"a\"\n    k06: \"a: b\"\n    k07: a:b\n    k08: \"a:\"\n    k09: \"a: \"\n    k10: \"a #b\"\n    k11: \"a#b\"\n    k12: a,b\n    k13: a]b\n    k14: a{b}\n    k15: \" lead\"\n  - k00: \"&a\"\n    k01: \"*a\"\n    k02: \"|a\"\n    k03: \">a\"\n    k04: \"'a\"\n    k05: \"\\\"a\"\n    k06: \"a: b\"\n    k07: a:b\n    k08: \"a:\"\n    k09: \"a: \"\n    k10: \"a #b\"\n    k11: \"a#b\"\n    k12: a,b\n    k13: a]b\n    k14: a{b}\n    k15: \" lead\"\n") <= SAME
mapval [yaml12] {"k00": "trail ", "k01": "\u{a0}nbsp", "k02": "em\u{2003}", "k03": "\u{feff}bom", "k04": "mid\u{feff}bom", "k05": "tab\there", "k06": "new\nline", "k07": "line\n", "k08": "line\n\n", "k09": "\n", "k10": "\n\n", "k11": "\n\n\n", "k12": "\nlead", "k13": "a\n\n\nb\n\n\n", "k14": "  indented\nline", "k15": "\n  indented after blank\n"} => Ok("%YAML 1.2\n---\nk00: \"trail \"\nk01: \"\u{a0}nbsp\"\nk02: \"em\u{2003}\"\nk03: \"\\uFEFFbom\"\nk04: mid\u{feff}bom\nk05: \"tab\\there\"\nk06: |-\n  new\n  line\nk07: |\n  line\nk08: |+\n  line\n  \nk09: \"\\n\"\nk10: \"\\n\\n\"\nk11: \"\\n\\n\\n\"\nk12: \"\\nlead\"\nk13: |+\n  a\n  \n  \n  b\n  \n  \nk14: \"  indented\\nline\"\nk15: \"\\n  indented after blank\\n\"\n") <= SAME
mapkey [yaml12] {"\n": 9, "\n\n": 10, "\n\n\n": 11, "\n  indented after blank\n": 15, "\nlead": 12, "  indented\nline": 14, "a\n\n\nb\n\n\n": 13, "em\u{2003}": 2, "line\n": 7, "line\n\n": 8, "mid\u{feff}bom": 4, "new\nline": 6, "tab\there": 5, "trail ": 0, "\u{a0}nbsp": 1, "\u{feff}bom": 3} => Ok("%YAML 1.2\n---\n\"\\n\": 9\n\"\\n\\n\": 10\n\"\\n\\n\\n\": 11\n\"\\n  indented after blank\\n\": 15\n\"\\nlead\": 12\n\"  indented\\nline\": 14\n\"a\\n\\n\\nb\\n\\n\\n\": 13\n\"em\u{2003}\": 2\n\"line\\n\": 7\n\"line\\n\\n\": 8\nmid\u{feff}bom: 4\n\"new\\nline\": 6\n\"tab\\there\": 5\n\"trail \": 0\n\"\u{a0}nbsp\": 1\n\"\u{feff}bom\": 3\n") <= SAME
nested [yaml12] {"outer": [{"k00": "trail ", "k01": "\u{a0}nbsp", "k02": "em\u{2003}", "k03": "\u{feff}bom", "k04": "mid\u{feff}bom", "k05": "tab\there", "k06": "new\nline", "k07": "line\n", "k08": "line\n\n", "k09": "\n", "k10": "\n\n", "k11": "\n\n\n", "k12": "\nlead", "k13": "a\n\n\nb\n\n\n", "k14": "  indented\nline", "k15": "\n  indented after blank\n"}, {"k00": "trail ", "k01": "\u{a0}nbsp", "k02": "em\u{2003}", "k03": "\u{feff}bom", "k04": "mid\u{feff}bom", "k05": "tab\there", "k06": "new\nline", "k07": "line\n", "k08": "line\n\n", "k09": "\n", "k10": "\n\n", "k11": "\n\n\n", "k12": "\nlead", "k13": "a\n\n\nb\n\n\n", "k14": "  indented\nline", "k15": "\n  indented after blank\n"}]} => Ok("%YAML 1.2\n---\nouter:\n  - k00: \"trail \"\n    k01: \"\u{a0}nbsp\"\n    k02: \"em\u{2003}\"\n    k03: \"\\uFEFFbom\"\n    k04: mid\u{feff}bom\n    k05: \"tab\\there\"\n    k06: |-\n      new\n      line\n    k07: |\n      line\n    k08: |+\n      line\n      \n    k09: \"\\n\"\n    k10: \"\\n\\n\"\n    k11: \"\\n\\n\\n\"\n    k12: \"\\nlead\"\n    k13: |+\n      a\n      \n      \n      b\n      \n      \n    k14: \"  indented\\nline\"\n    k15: \"\\n  indented after blank\\n\"\n  - k00: \"trail \"\n    k01: \"\u{a0}nbsp\"\n    k02: \"em\u{2003}\"\n    k03: \"\\uFEFFbom\"\n    k04: mid\u{feff}bom\n    k05: \"tab\\there\"\n    k06: |-\n      new\n      line\n    k07: |\n      line\n    k08: |+\n      line\n      \n    k09: \"\\n\"\n    k10: \"\\n\\n\"\n    k11: \"\\n\\n\\n\"\n    k12: \"\\nlead\"\n    k13: |+\n      a\n      \n      \n      b\n      \n      \n    k14: \"  indented\\nline\"\n    k15: \"\\n  indented after blank\\n\"\n") <= SAME
mapval [yaml12] {"k00": "a\n  b\n", "k01": "key: v\nnext", "k02": "ends with colon:\nx:", "k03": "# not comment\nline", "k04": "trailing space \nline", "k05": "cr\rhere", "k06": "crlf\r\nhere", "k07": "\0", "k08": "\u{7}", "k09": "\u{8}", "k10": "\u{b}", "k11": "\u{c}", "k12": "\u{1b}", "k13": "\u{1}", "k14": "\u{1f}", "k15": "\u{7f}"} => Ok("%YAML 1.2\n---\nk00: |\n  a\n    b\nk01: \"key: v\\nnext\"\nk02: \"ends with colon:\\nx:\"\nk03: \"# not comment\\nline\"\nk04: |-\n  trailing space \n  line\nk05: \"cr\\rhere\"\nk06: \"crlf\\r\\nhere\"\nk07: \"\\0\"\nk08: \"\\a\"\nk09: \"\\b\"\nk10: \"\\v\"\nk11: \"\\f\"\nk12: \"\\e\"\nk13: \"\\x01\"\nk14: \"\\x1F\"\nk15: \"\\x7F\"\n") <= SAME
mapkey [yaml12] {"\0": 7, "\u{1}": 13, "\u{7}": 8, "\u{8}": 9, "\u{b}": 10, "\u{c}": 11, "\u{1b}": 12, "\u{1f}": 14, "# not comment\nline": 3, "a\n  b\n": 0, "cr\rhere": 5, "crlf\r\nhere": 6, "ends with colon:\nx:": 2, "key: v\nnext": 1, "trailing space \nline": 4, "\u{7f}": 15} => Ok("%YAML 1.2\n---\n\"\\u0000\": 7\n\"\\u0001\": 13\n\"\\u0007\": 8\n\"\\u0008\": 9\n\"\\u000B\": 10\n\"\\u000C\": 11\n\"\\u001B\": 12\n\"\\u001F\": 14\n\"# not comment\\nline\": 3\n\"a\\n  b\\n\": 0\n\"cr\\rhere\": 5\n\"crlf\\r\\nhere\": 6\n\"ends with colon:\\nx:\": 2\n\"key: v\\nnext\": 1\n\"trailing space \\nline\": 4\n\"\\u007F\": 15\n") <= SAME
nested [yaml12] {"outer": [{"k00": "a\n  b\n", "k01": "key: v\nnext", "k02": "ends with colon:\nx:", "k03": "# not comment\nline", "k04": "trailing space \nline", "k05": "cr\rhere", "k06": "crlf\r\nhere", "k07": "\0", "k08": "\u{7}", "k09": "\u{8}", "k10": "\u{b}", "k11": "\u{c}", "k12": "\u{1b}", "k13": "\u{1}", "k14": "\u{1f}", "k15": "\u{7f}"}, {"k00": "a\n  b\n", "k01": "key: v\nnext", "k02": "ends with colon:\nx:", "k03": "# not comment\nline", "k04": "trailing space \nline", "k05": "cr\rhere", "k06": "crlf\r\nhere", "k07": "\0", "k08": "\u{7}", "k09": "\u{8}", "k10": "\u{b}", "k11": "\u{c}", "k12": "\u{1b}", "k13": "\u{1}", "k14": "\u{1f}", "k15": "\u{7f}"}]} => Ok("%YAML 1.2\n---\nouter:\n  - k00: |\n      a\n        b\n    k01: \"key: v\\nnext\"\n    k02: \"ends with colon:\\nx:\"\n    k03: \"# not comment\\nline\"\n    k04: |-\n      trailing space \n      line\n    k05: \"cr\\rhere\"\n    k06: \"crlf\\r\\nhere\"\n    k07: \"\\0\"\n    k08: \"\\a\"\n    k09: \"\\b\"\n    k10: \"\\v\"\n    k11: \"\\f\"\n    k12: \"\\e\"\n    k13: \"\\x01\"\n    k14: \"\\x1F\"\n    k15: \"\\x7F\"\n  - k00: |\n      a\n        b\n    k01: \"key: v\\nnext\"\n    k02: \"ends with colon:\\nx:\"\n    k03: \"# not comment\\nline\"\n    k04: |-\n      trailing space \n      line\n    k05: \"cr\\rhere\"\n    k06: \"crlf\\r\\nhere\"\n    k07: \"\\0\"\n    k08: \"\\a\"\n    k09: \"\\b\"\n    k10: \"\\v\"\n    k11: \"\\f\"\n    k12: \"\\e\"\n    k13: \"\\x01\"\n    k14: \"\\x1F\"\n    k15: \"\\x7F\"\n") <= SAME
mapval [yaml12] {"k00": "\u{80}", "k01": "\u{85}", "k02": "\u{9f}", "k03": "\u{2028}", "k04": "\u{2029}", "k05": "a\u{2028}b", "k06": "it's", "k07": "'", "k08": "''", "k09": "say \"hi\"", "k10": "back\\slash", "k11": "\\", "k12": "é", "k13": "日本語", "k14": "😀", "k15": "1.0.0"} => Ok("%YAML 1.2\n---\nk00: \"\\x80\"\nk01: \"\\N\"\nk02: \"\\x9F\"\nk03: \"\\L\"\nk04: \"\\P\"\nk05: a\u{2028}b\nk06: it's\nk07: \"'\"\nk08: \"''\"\nk09: say \"hi\"\nk10: back\\slash\nk11: \\\nk12: é\nk13: 日本語\nk14: 😀\nk15: 1.0.0\n") <= SAME
mapkey [yaml12] {"'": 7, "''": 8, "1.0.0": 15, "\\": 11, "a\u{2028}b": 5, "back\\slash": 10, "it's": 6, "say \"hi\"": 9, "\u{80}": 0, "\u{85}": 1, "\u{9f}": 2, "é": 12, "\u{2028}": 3, "\u{2029}": 4, "日本語": 13, "😀": 14} => Ok("%YAML 1.2\n---\n\"'\": 7\n\"''\": 8\n1.0.0: 15\n\\: 11\na\u{2028}b: 5\nback\\slash: 10\nit's: 6\nsay \"hi\": 9\n\"\\u0080\": 0\n\"\\u0085\": 1\n\"\\u009F\": 2\né: 12\n\"\u{2028}\": 3\n\"\u{2029}\": 4\n日本語: 13\n😀: 14\n") <= SAME
nested [yaml12] {"outer": [{"k00": "\u{80}", "k01": "\u{85}", "k02": "\u{9f}", "k03": "\u{2028}", "k04": "\u{2029}", "k05": "a\u{2028}b", "k06": "it's", "k07": "'", "k08": "''", "k09": "say \"hi\"", "k10": "back\\slash", "k11": "\\", "k12": "é", "k13": "日本語", "k14": "😀", "k15": "1.0.0"}, {"k00": "\u{80}", "k01": "\u{85}", "k02": "\u{9f}", "k03": "\u{2028}", "k04": "\u{2029}", "k05": "a\u{2028}b", "k06": "it's", "k07": "'", "k08": "''", "k09": "say \"hi\"", "k10": "back\\slash", "k11": "\\", "k12": "é", "k13": "日本語", "k14": "😀", "k15": "1.0.0"}]} => Ok("%YAML 1.2\n---\nouter:\n  - k00: \"\\x80\"\n    k01: \"\\N\"\n    k02: \"\\x9F\"\n    k03: \"\\L\"\n    k04: \"\\P\"\n    k05: a\u{2028}b\n    k06: it's\n    k07: \"'\"\n    k08: \"''\"\n    k09: say \"hi\"\n    k10: back\\slash\n    k11: \\\n    k12: é\n    k13: 日本語\n    k14: 😀\n    k15: 1.0.0\n  - k00: \"\\x80\"\n    k01: \"\\N\"\n    k02: \"\\x9F\"\n    k03: \"\\L\"\n    k04: \"\\P\"\n    k05: a\u{2028}b\n    k06: it's\n    k07: \"'\"\n    k08: \"''\"\n    k09: say \"hi\"\n    k10: back\\slash\n    k11: \\\n    k12: é\n    k13: 日本語\n    k14: 😀\n    k15: 1.0.0\n") <= SAME
mapval [yaml12] {"k00": "12:30", "k01": "2001-12-14", "k02": "a b", "k03": "word word word word word word word word word word word word word word word word word word word word word word word word word word word word word word", "k04": "word word word word word word word word word word word word word word word word word word word word word word word word word word word word word word ", "k05": "word word word word word word word word word word word word word word word word word word word word word word word word word word word word word word\n", "k06": "word word word word word word word word word word word word word word word word word word word word word word word word word word word word word word\n\n", "k07": "xxxxxxxxxxxxxxxxxxxxxxxxxxxxxxxxxxxxxxxxxxxxxxxxxxxxxxxxxxxxxxxxxxxxxxxxxxxxxxxxxxxxxxxxxxxxxxxxxxxxxxxxxxxxxxxxxxxxxxxx", "k08": "aaaaaaaaaaaaaaaaaaaaaaaaaaaaaaaaaaaaaaaaaaaaaaaaaa   bbbbbbbbbbbbbbbbbbbbbbbbbbbbbbbbbbbbbbbbbbbbbbbbbb  cccccccccccccccccccccccccccccccccccccccccccccccccc", "k09": "aaaaaaaaaaaaaaaaaaaaaaaaaaaaaaaaaaaaaaaaaaaaaaaaaa\tbbbbbbbbbbbbbbbbbbbbbbbbbbbbbbbbbbbbbbbbbbbbbbbbbb\tcccccccccccccccccccccccccccccccccccccccccccccccccc", "k10": "aaaaaaaaaaaaaaaaaaaaaaaaaaaaaaaaaaaaaaaaaaaaaaaaaa # bbbbbbbbbbbbbbbbbbbbbbbbbbbbbbbbbbbbbbbbbbbbbbbbbb", "k11": "aaaaaaaaaaaaaaaaaaaaaaaaaaaaaaaaaaaaaaaaaaaaaaaaaa: bbbbbbbbbbbbbbbbbbbbbbbbbbbbbbbbbbbbbbbbbbbbbbbbbb", "k12": "- lorem ipsum lorem ipsum lorem ipsum lorem ipsum lorem ipsum lorem ipsum lorem ipsum lorem ipsum lorem ipsum lorem ipsum ", "k13": "日本語 テキスト 日本語 テキスト 日本語 テキスト 日本語 テキスト 日本語 テキスト 日本語 テキスト 日本語 テキスト 日本語 テキスト 日本語 テキスト 日本語 テキスト 日本語 テキスト 日本語 テキスト 日本語 テキスト 日本語 テキスト 日本語 テキスト ", "k14": "ab ab ab ab ab ab ab ab ab ab ab ab ab ab ab ab ab ab ab ab \u{85}cd cd cd cd cd cd cd cd cd cd cd cd cd cd cd cd cd cd cd cd ", "k15": "ab ab ab ab ab ab ab ab ab ab ab ab ab ab ab ab ab ab ab ab \rcd cd cd cd cd cd cd cd cd cd cd cd cd cd cd cd cd cd cd cd "} => Ok("%YAML 1.2\n---\nk00: 12:30\nk01: 2001-12-14\nk02: a b\nk03: >-\n  word word word word word word word word word word word word word word word word\n  word word word word word word word word word word word word word word\nk04: >-\n  word word word word word word word word word word word word word word word word\n  word word word word word word word word word word word word word word \nk05: |\n  word word word word word word word word word word word word word word word word word word word word word word word word word word word word word word\nk06: |+\n  word word word word word word word word word word word word word word word word word word word word word word word word word word word word word word\n  \nk07: >-\n  xxxxxxxxxxxxxxxxxxxxxxxxxxxxxxxxxxxxxxxxxxxxxxxxxxxxxxxxxxxxxxxxxxxxxxxxxxxxxxxxxxxxxxxxxxxxxxxxxxxxxxxxxxxxxxxxxxxxxxxx\nk08: >-\n  aaaaaaaaaaaaaaaaaaaaaaaaaaaaaaaaaaaaaaaaaaaaaaaaaa  \n  bbbbbbbbbbbbbbbbbbbbbbbbbbbbbbbbbbbbbbbbbbbbbbbbbb  cccccccccccccccccccccccccccccccccccccccccccccccccc\nk09: \"aaaaaaaaaaaaaaaaaaaaaaaaaaaaaaaaaaaaaaaaaaaaaaaaaa\\tbbbbbbbbbbbbbbbbbbbbbbbbbbbbbbbbbbbbbbbbbbbbbbbbbb\\tcccccccccccccccccccccccccccccccccccccccccccccccccc\"\nk10: \"aaaaaaaaaaaaaaaaaaaaaaaaaaaaaaaaaaaaaaaaaaaaaaaaaa # bbbbbbbbbbbbbbbbbbbbbbbbbbbbbbbbbbbbbbbbbbbbbbbbbb\"\nk11: \"aaaaaaaaaaaaaaaaaaaaaaaaaaaaaaaaaaaaaaaaaaaaaaaaaa: bbbbbbbbbbbbbbbbbbbbbbbbbbbbbbbbbbbbbbbbbbbbbbbbbb\"\nk12: \"- lorem ipsum lorem ipsum lorem ipsum lorem ipsum lorem ipsum lorem ipsum lorem ipsum lorem ipsum lorem ipsum lorem ipsum \"\nk13: >-\n  日本語 テキスト 日本語 テキスト 日本語 テキスト 日本語 テキスト 日本語 テキスト 日本語 テキスト 日本語 テキスト 日本語 テキスト 日本語\n  テキスト 日本語 テキスト 日本語 テキスト 日本語 テキスト 日本語 テキスト 日本語 テキスト 日本語 テキスト \nk14: \"ab ab ab ab ab ab ab ab ab ab ab ab ab ab ab ab ab ab ab ab \\Ncd cd cd cd cd cd cd cd cd cd cd cd cd cd cd cd cd cd cd cd \"\nk15: \"ab ab ab ab ab ab ab ab ab ab ab ab ab ab ab ab ab ab ab ab \\rcd cd cd cd cd cd cd cd cd cd cd cd cd cd cd cd cd cd cd cd \"\n") <= SAME
mapkey [yaml12] {"- lorem ipsum lorem ipsum lorem ipsum lorem ipsum lorem ipsum lorem ipsum lorem ipsum lorem ipsum lorem ipsum lorem ipsum ": 12, "12:30": 0, "2001-12-14": 1, "a b": 2, "aaaaaaaaaaaaaaaaaaaaaaaaaaaaaaaaaaaaaaaaaaaaaaaaaa\tbbbbbbbbbbbbbbbbbbbbbbbbbbbbbbbbbbbbbbbbbbbbbbbbbb\tcccccccccccccccccccccccccccccccccccccccccccccccccc": 9, "aaaaaaaaaaaaaaaaaaaaaaaaaaaaaaaaaaaaaaaaaaaaaaaaaa   bbbbbbbbbbbbbbbbbbbbbbbbbbbbbbbbbbbbbbbbbbbbbbbbbb  cccccccccccccccccccccccccccccccccccccccccccccccccc": 8, "aaaaaaaaaaaaaaaaaaaaaaaaaaaaaaaaaaaaaaaaaaaaaaaaaa # bbbbbbbbbbbbbbbbbbbbbbbbbbbbbbbbbbbbbbbbbbbbbbbbbb": 10, "aaaaaaaaaaaaaaaaaaaaaaaaaaaaaaaaaaaaaaaaaaaaaaaaaa: bbbbbbbbbbbbbbbbbbbbbbbbbbbbbbbbbbbbbbbbbbbbbbbbbb": 11, "ab ab ab ab ab ab ab ab ab ab ab ab ab ab ab ab ab ab ab ab \rcd cd cd cd cd cd cd cd cd cd cd cd cd cd cd cd cd cd cd cd ": 15, "ab ab ab ab ab ab ab ab ab ab ab ab ab ab ab ab ab ab ab ab \u{85}cd cd cd cd cd cd cd cd cd cd cd cd cd cd cd cd cd cd cd cd ": 14, "word word word word word word word word word word word word word word word word word word word word word word word word word word word word word word": 3, "word word word word word word word word word word word word word word word word word word word word word word word word word word word word word word\n": 5, "word word word word word word word word word word word word word word word word word word word word word word word word word word word word word word\n\n": 6, "word word word word word word word word word word word word word word word word word word word word word word word word word word word word word word ": 4, "xxxxxxxxxxxxxxxxxxxxxxxxxxxxxxxxxxxxxxxxxxxxxxxxxxxxxxxxxxxxxxxxxxxxxxxxxxxxxxxxxxxxxxxxxxxxxxxxxxxxxxxxxxxxxxxxxxxxxxxx": 7, "日本語 テキスト 日本語 テキスト 日本語 テキスト 日本語 テキスト 日本語 テキスト 日本語 テキスト 日本語 テキスト 日本語 テキスト 日本語 テキスト 日本語 テキスト 日本語 テキスト 日本語 テキスト 日本語 テキスト 日本語 テキスト 日本語 テキスト ": 13} => Ok("%YAML 1.2\n---\n\"- lorem ipsum lorem ipsum lorem ipsum lorem ipsum lorem ipsum lorem ipsum lorem ipsum lorem ipsum lorem ipsum lorem ipsum \": 12\n\"12:30\": 0\n2001-12-14: 1\na b: 2\n\"aaaaaaaaaaaaaaaaaaaaaaaaaaaaaaaaaaaaaaaaaaaaaaaaaa\\tbbbbbbbbbbbbbbbbbbbbbbbbbbbbbbbbbbbbbbbbbbbbbbbbbb\\tcccccccccccccccccccccccccccccccccccccccccccccccccc\": 9\naaaaaaaaaaaaaaaaaaaaaaaaaaaaaaaaaaaaaaaaaaaaaaaaaa   bbbbbbbbbbbbbbbbbbbbbbbbbbbbbbbbbbbbbbbbbbbbbbbbbb  cccccccccccccccccccccccccccccccccccccccccccccccccc: 8\n\"aaaaaaaaaaaaaaaaaaaaaaaaaaaaaaaaaaaaaaaaaaaaaaaaaa # bbbbbbbbbbbbbbbbbbbbbbbbbbbbbbbbbbbbbbbbbbbbbbbbbb\": 10\n\"aaaaaaaaaaaaaaaaaaaaaaaaaaaaaaaaaaaaaaaaaaaaaaaaaa: bbbbbbbbbbbbbbbbbbbbbbbbbbbbbbbbbbbbbbbbbbbbbbbbbb\": 11\n\"ab ab ab ab ab ab ab ab ab ab ab ab ab ab ab ab ab ab ab ab \\rcd cd cd cd cd cd cd cd cd cd cd cd cd cd cd cd cd cd cd cd \": 15\n\"ab ab ab ab ab ab ab ab ab ab ab ab ab ab ab ab ab ab ab ab \\u0085cd cd cd cd cd cd cd cd cd cd cd cd cd cd cd cd cd cd cd cd \": 14\nword word word word word word word word word word word word word word word word word word word word word word word word word word word word word word: 3\n\"word word word word word word word word word word word word word word word word word word word word word word word word word word word word word word\\n\": 5\n\"word word word word word word word word word word word word word word word word word word word word word word word word word word word word word word\\n\\n\": 6\n\"word word word word word word word word word word word word word word word word word word word word word word word word word word word word word word \": 4\nxxxxxxxxxxxxxxxxxxxxxxxxxxxxxxxxxxxxxxxxxxxxxxxxxxxxxxxxxxxxxxxxxxxxxxxxxxxxxxxxxxxxxxxxxxxxxxxxxxxxxxxxxxxxxxxxxxxxxxxx: 7\n\"日本語 テキスト 日本語 テキスト 日本語 テキスト 日本語 テキスト 日本語 テキスト 日本語 テキスト 日本語 テキスト 日本語 テキスト 日本語 テキスト 日本語 テキスト 日本語 テキスト 日本語 テキスト 日本語 テキスト 日本語 テキスト 日本語 テキスト \": 13\n") <= SAME
nested [yaml12] {"outer": [{"k00": "12:30", "k01": "2001-12-14", "k02": "a b", "k03": "word word word word word word word word word word word word word word word word word word word word word word word word word word word word word word", "k04": "word word word word word word word word word word word word word word word word word word word word word word word word word word word word word word ", "k05": "word word word word word word word word word word word word word word word word word word word word word word word word word word word word word word\n", "k06": "word word word word word word word word word word word word word word word word word word word word word word word word word word word word word word\n\n", "k07": "xxxxxxxxxxxxxxxxxxxxxxxxxxxxxxxxxxxxxxxxxxxxxxxxxxxxxxxxxxxxxxxxxxxxxxxxxxxxxxxxxxxxxxxxxxxxxxxxxxxxxxxxxxxxxxxxxxxxxxxx", "k08": "aaaaaaaaaaaaaaaaaaaaaaaaaaaaaaaaaaaaaaaaaaaaaaaaaa   bbbbbbbbbbbbbbbbbbbbbbbbbbbbbbbbbbbbbbbbbbbbbbbbbb  cccccccccccccccccccccccccccccccccccccccccccccccccc", "k09": "aaaaaaaaaaaaaaaaaaaaaaaaaaaaaaaaaaaaaaaaaaaaaaaaaa\tbbbbbbbbbbbbbbbbbbbbbbbbbbbbbbbbbbbbbbbbbbbbbbbbbb\tcccccccccccccccccccccccccccccccccccccccccccccccccc", "k10": "aaaaaaaaaaaaaaaaaaaaaaaaaaaaaaaaaaaaaaaaaaaaaaaaaa # bbbbbbbbbbbbbbbbbbbbbbbbbbbbbbbbbbbbbbbbbbbbbbbbbb", "k11": "aaaaaaaaaaaaaaaaaaaaaaaaaaaaaaaaaaaaaaaaaaaaaaaaaa: bbbbbbbbbbbbbbbbbbbbbbbbbbbbbbbbbbbbbbbbbbbbbbbbbb", "k12": "- lorem ipsum lorem ipsum lorem ipsum lorem ipsum lorem ipsum lorem ipsum lorem ipsum lorem ipsum lorem ipsum lorem ipsum ", "k13": "日本語 テキスト 日本語 テキスト 日本語 テキスト 日本語 テキスト 日本語 テキスト 日本語 テキスト 日本語 テキスト 日本語 テキスト 日本語 テキスト 日本語 テキスト 日本語 テキスト 日本語 テキスト 日本語 テキスト 日本語 テキスト 日本語 テキスト ", "k14": "ab ab ab ab ab ab ab ab ab ab ab ab ab ab ab ab ab ab ab ab \u{85}cd cd cd cd cd cd cd cd cd cd cd cd cd cd cd cd cd cd cd cd ", "k15": "ab ab ab ab ab ab ab ab ab ab ab ab ab ab ab ab ab ab ab ab \rcd cd cd cd cd cd cd cd cd cd cd cd cd cd cd cd cd cd cd cd "}, {"k00": "12:30", "k01": "2001-12-14", "k02": "a b", "k03": "word word word word word word word word word word word word word word word word word word word word word word word word word word word word word word", "k04": "word word word word word word word word word word word word word word word word word word word word word word word word word word word word word word ", "k05": "word word word word word word word word word word word word word word word word word word word word word word word word word word word word word word\n", "k06": "word word word word word word word word word word word word word word word word word word word word word word word word word word word word word word\n\n", "k07": "xxxxxxxxxxxxxxxxxxxxxxxxxxxxxxxxxxxxxxxxxxxxxxxxxxxxxxxxxxxxxxxxxxxxxxxxxxxxxxxxxxxxxxxxxxxxxxxxxxxxxxxxxxxxxxxxxxxxxxxx", "k08": "aaaaaaaaaaaaaaaaaaaaaaaaaaaaaaaaaaaaaaaaaaaaaaaaaa   bbbbbbbbbbbbbbbbbbbbbbbbbbbbbbbbbbbbbbbbbbbbbbbbbb  cccccccccccccccccccccccccccccccccccccccccccccccccc", "k09": "aaaaaaaaaaaaaaaaaaaaaaaaaaaaaaaaaaaaaaaaaaaaaaaaaa\tbbbbbbbbbbbbbbbbbbbbbbbbbbbbbbbbbbbbbbbbbbbbbbbbbb\tcccccccccccccccccccccccccccccccccccccccccccccccccc", "k10": "aaaaaaaaaaaaaaaaaaaaaaaaaaaaaaaaaaaaaaaaaaaaaaaaaa # bbbbbbbbbbbbbbbbbbbbbbbbbbbbbbbbbbbbbbbbbbbbbbbbbb", "k11": "aaaaaaaaaaaaaaaaaaaaaaaaaaaaaaaaaaaaaaaaaaaaaaaaaa: bbbbbbbbbbbbbbbbbbbbbbbbbbbbbbbbbbbbbbbbbbbbbbbbbb", "k12": "- lorem ipsum lorem ipsum lorem ipsum lorem ipsum lorem ipsum lorem ipsum lorem ipsum lorem ipsum lorem ipsum lorem ipsum ", "k13": "日本語 テキスト 日本語 テキスト 日本語 テキスト 日本語 テキスト 日本語 テキスト 日本語 テキスト 日本語 テキスト 日本語 テキスト 日本語 テキスト 日本語 テキスト 日本語 テキスト 日本語 テキスト 日本語 テキスト 日本語 テキスト 日本語 テキスト ", "k14": "ab ab ab ab ab ab ab ab ab ab ab ab ab ab ab ab ab ab ab ab \u{85}cd cd cd cd cd cd cd cd cd cd cd cd cd cd cd cd cd cd cd cd ", "k15": "ab ab ab ab ab ab ab ab ab ab ab ab ab ab ab ab ab ab ab ab \rcd cd cd cd cd cd cd cd cd cd cd cd cd cd cd cd cd cd cd cd "}]} => Ok("%YAML 1.2\n---\nouter:\n  - k00: 12:30\n    k01: 2001-12-14\n    k02: a b\n    k03: >-\n      word word word word word word word word word word word word word word word word\n      word word word word word word word word word word word word word word\n    k04: >-\n      word word word word word word word word word word word word word word word word\n      word word word word word word word word word word word word word word \n    k05: |\n      word word word word word word word word word word word word word word word word word word word word word word word word word word word word word word\n    k06: |+\n      word word word word word word word word word word word word word word word word word word word word word word word word word word word word word word\n      \n    k07: >-\n      xxxxxxxxxxxxxxxxxxxxxxxxxxxxxxxxxxxxxxxxxxxxxxxxxxxxxxxxxxxxxxxxxxxxxxxxxxxxxxxxxxxxxxxxxxxxxxxxxxxxxxxxxxxxxxxxxxxxxxxx\n    k08: >-\n      aaaaaaaaaaaaaaaaaaaaaaaaaaaaaaaaaaaaaaaaaaaaaaaaaa  \n      bbbbbbbbbbbbbbbbbbbbbbbbbbbbbbbbbbbbbbbbbbbbbbbbbb  cccccccccccccccccccccccccccccccccccccccccccccccccc\n    k09: \"aaaaaaaaaaaaaaaaaaaaaaaaaaaaaaaaaaaaaaaaaaaaaaaaaa\\tbbbbbbbbbbbbbbbbbbbbbbbbbbbbbbbbbbbbbbbbbbbbbbbbbb\\tcccccccccccccccccccccccccccccccccccccccccccccccccc\"\n    k10: \"aaaaaaaaaaaaaaaaaaaaaaaaaaaaaaaaaaaaaaaaaaaaaaaaaa # bbbbbbbbbbbbbbbbbbbbbbbbbbbbbbbbbbbbbbbbbbbbbbbbbb\"\n    k11: \"aaaaaaaaaaaaaaaaaaaaaaaaaaaaaaaaaaaaaaaaaaaaaaaaaa: bbbbbbbbbbbbbbbbbbbbbbbbbbbbbbbbbbbbbbbbbbbbbbbbbb\"\n    k12: \"- lorem ipsum lorem ipsum lorem ipsum lorem ipsum lorem ipsum lorem ipsum lorem ipsum lorem ipsum lorem ipsum lorem ipsum \"\n    k13: >-\n      日本語 テキスト 日本語 テキスト 日本語 テキスト 日本語 テキスト 日本語 テキスト 日本語 テキスト 日本語 テキスト 日本語 テキスト 日本語\n      テキスト 日本語 テキスト 日本語 テキスト 日本語 テキスト 日本語 テキスト 日本語 テキスト 日本語 テキスト \n    k14: \"ab ab ab ab ab ab ab ab ab ab ab ab ab ab ab ab ab ab ab ab \\Ncd cd cd cd cd cd cd cd cd cd cd cd cd cd cd cd cd cd cd cd \"\n    k15: \"ab ab ab ab ab ab ab ab ab ab ab ab ab ab ab ab ab ab ab ab \\rcd cd cd cd cd cd cd cd cd cd cd cd cd cd cd cd cd cd cd cd \"\n  - k00: 12:30\n    k01: 2001-12-14\n    k02: a b\n    k03: >-\n      word word word word word word word word word word word word word word word word\n      word word word word word word word word word word word word word word\n    k04: >-\n      word word word word word word word word word word word word word word word word\n      word word word word word word word word word word word word word word \n    k05: |\n      word word word word word word word word word word word word word word word word word word word word word word word word word word word word word word\n    k06: |+\n      word word word word word word word word word word word word word word word word word word word word word word word word word word word word word word\n      \n    k07: >-\n      xxxxxxxxxxxxxxxxxxxxxxxxxxxxxxxxxxxxxxxxxxxxxxxxxxxxxxxxxxxxxxxxxxxxxxxxxxxxxxxxxxxxxxxxxxxxxxxxxxxxxxxxxxxxxxxxxxxxxxxx\n    k08: >-\n      aaaaaaaaaaaaaaaaaaaaaaaaaaaaaaaaaaaaaaaaaaaaaaaaaa  \n      bbbbbbbbbbbbbbbbbbbbbbbbbbbbbbbbbbbbbbbbbbbbbbbbbb  cccccccccccccccccccccccccccccccccccccccccccccccccc\n    k09: \"aaaaaaaaaaaaaaaaaaaaaaaaaaaaaaaaaaaaaaaaaaaaaaaaaa\\tbbbbbbbbbbbbbbbbbbbbbbbbbbbbbbbbbbbbbbbbbbbbbbbbbb\\tcccccccccccccccccccccccccccccccccccccccccccccccccc\"\n    k10: \"aaaaaaaaaaaaaaaaaaaaaaaaaaaaaaaaaaaaaaaaaaaaaaaaaa # bbbbbbbbbbbbbbbbbbbbbbbbbbbbbbbbbbbbbbbbbbbbbbbbbb\"\n    k11: \"aaaaaaaaaaaaaaaaaaaaaaaaaaaaaaaaaaaaaaaaaaaaaaaaaa: bbbbbbbbbbbbbbbbbbbbbbbbbbbbbbbbbbbbbbbbbbbbbbbbbb\"\n    k12: \"- lorem ipsum lorem ipsum lorem ipsum lorem ipsum lorem ipsum lorem ipsum lorem ipsum lorem ipsum lorem ipsum lorem ipsum \"\n    k13: >-\n      日本語 テキスト 日本語 テキスト 日本語 テキスト 日本語 テキスト 日本語 テキスト 日本語 テキスト 日本語 テキスト 日本語 テキスト 日本語\n      テキスト 日本語 テキスト 日本語 テキスト 日本語 テキスト 日本語 テキスト 日本語 テキスト 日本語 テキスト \n    k14: \"ab ab ab ab ab ab ab ab ab ab ab ab ab ab ab ab ab ab ab ab \\Ncd cd cd cd cd cd cd cd cd cd cd cd cd cd cd cd cd cd cd cd \"\n    k15: \"ab ab ab ab ab ab ab ab ab ab ab ab ab ab ab ab ab ab ab ab \\rcd cd cd cd cd cd cd cd cd cd cd cd cd cd cd cd cd cd cd cd \"\n") <= SAME
mapval [yaml12] {"k00": "lorem ipsum lorem ipsum lorem ipsum lorem ipsum lorem ipsum lorem ipsum \ndolor sit dolor sit dolor sit dolor sit dolor sit dolor sit ", "k01": "  lorem ipsum lorem ipsum lorem ipsum lorem ipsum lorem ipsum lorem ipsum \ndolor: sit dolor: sit dolor: sit dolor: sit dolor: sit dolor: sit \n\n", "k02": "lorem ipsum lorem ipsum lorem ipsum lorem ipsum lorem ipsum lorem ipsum :\ndolor sit dolor sit dolor sit dolor sit dolor sit dolor sit :"} => Ok("%YAML 1.2\n---\nk00: |-\n  lorem ipsum lorem ipsum lorem ipsum lorem ipsum lorem ipsum lorem ipsum \n  dolor sit dolor sit dolor sit dolor sit dolor sit dolor sit \nk01: |2+\n    lorem ipsum lorem ipsum lorem ipsum lorem ipsum lorem ipsum lorem ipsum \n  dolor: sit dolor: sit dolor: sit dolor: sit dolor: sit dolor: sit \n  \nk02: |-\n  lorem ipsum lorem ipsum lorem ipsum lorem ipsum lorem ipsum lorem ipsum :\n  dolor sit dolor sit dolor sit dolor sit dolor sit dolor sit :\n") <= SAME
mapkey [yaml12] {"  lorem ipsum lorem ipsum lorem ipsum lorem ipsum lorem ipsum lorem ipsum \ndolor: sit dolor: sit dolor: sit dolor: sit dolor: sit dolor: sit \n\n": 1, "lorem ipsum lorem ipsum lorem ipsum lorem ipsum lorem ipsum lorem ipsum \ndolor sit dolor sit dolor sit dolor sit dolor sit dolor sit ": 0, "lorem ipsum lorem ipsum lorem ipsum lorem ipsum lorem ipsum lorem ipsum :\ndolor sit dolor sit dolor sit dolor sit dolor sit dolor sit :": 2} => Ok("%YAML 1.2\n---\n\"  lorem ipsum lorem ipsum lorem ipsum lorem ipsum lorem ipsum lorem ipsum \\ndolor: sit dolor: sit dolor: sit dolor: sit dolor: sit dolor: sit \\n\\n\": 1\n\"lorem ipsum lorem ipsum lorem ipsum lorem ipsum lorem ipsum lorem ipsum \\ndolor sit dolor sit dolor sit dolor sit dolor sit dolor sit \": 0\n\"lorem ipsum lorem ipsum lorem ipsum lorem ipsum lorem ipsum lorem ipsum :\\ndolor sit dolor sit dolor sit dolor sit dolor sit dolor sit :\": 2\n") <= SAME
nested [yaml12] {"outer": [{"k00": "lorem ipsum lorem ipsum lorem ipsum lorem ipsum lorem ipsum lorem ipsum \ndolor sit dolor sit dolor sit dolor sit dolor sit dolor sit ", "k01": "  lorem ipsum lorem ipsum lorem ipsum lorem ipsum lorem ipsum lorem ipsum \ndolor: sit dolor: sit dolor: sit dolor: sit dolor: sit dolor: sit \n\n", "k02": "lorem ipsum lorem ipsum lorem ipsum lorem ipsum lorem ipsum lorem ipsum :\ndolor sit dolor sit dolor sit dolor sit dolor sit dolor sit :"}, {"k00": "lorem ipsum lorem ipsum lorem ipsum lorem ipsum lorem ipsum lorem ipsum \ndolor sit dolor sit dolor sit dolor sit dolor sit dolor sit ", "k01": "  lorem ipsum lorem ipsum lorem ipsum lorem ipsum lorem ipsum lorem ipsum \ndolor: sit dolor: sit dolor: sit dolor: sit dolor: sit dolor: sit \n\n", "k02": "lorem ipsum lorem ipsum lorem ipsum lorem ipsum lorem ipsum lorem ipsum :\ndolor sit dolor sit dolor sit dolor sit dolor sit dolor sit :"}]} => Ok("%YAML 1.2\n---\nouter:\n  - k00: |-\n      lorem ipsum lorem ipsum lorem ipsum lorem ipsum lorem ipsum lorem ipsum \n      dolor sit dolor sit dolor sit dolor sit dolor sit dolor sit \n    k01: |2+\n        lorem ipsum lorem ipsum lorem ipsum lorem ipsum lorem ipsum lorem ipsum \n      dolor: sit dolor: sit dolor: sit dolor: sit dolor: sit dolor: sit \n      \n    k02: |-\n      lorem ipsum lorem ipsum lorem ipsum lorem ipsum lorem ipsum lorem ipsum :\n      dolor sit dolor sit dolor sit dolor sit dolor sit dolor sit :\n  - k00: |-\n      lorem ipsum lorem ipsum lorem ipsum lorem ipsum lorem ipsum lorem ipsum \n      dolor sit dolor sit dolor sit dolor sit dolor sit dolor sit \n    k01: |2+\n        lorem ipsum lorem ipsum lorem ipsum lorem ipsum lorem ipsum lorem ipsum \n      dolor: sit dolor: sit dolor: sit dolor: sit dolor: sit dolor: sit \n      \n    k02: |-\n      lorem ipsum lorem ipsum lorem ipsum lorem ipsum lorem ipsum lorem ipsum :\n      dolor sit dolor sit dolor sit dolor sit dolor sit dolor sit :\n") <= SAME
flowseq [yaml12] => Ok("%YAML 1.2\n---\n[\"\", \"~\", \"null\", \"NULL\", \"Null\", \"true\", \"False\", \"TRUE\", yes, y, No, on, OFF, \"<<\", \"---\", \"--- a\"]\n") <= SAME
flowmap [yaml12] => Ok("%YAML 1.2\n---\n{\"\": \"\", \"---\": \"---\", \"--- a\": \"--- a\", \"<<\": \"<<\", \"False\": \"False\", \"NULL\": \"NULL\", No: No, \"Null\": \"Null\", OFF: OFF, \"TRUE\": \"TRUE\", \"null\": \"null\", on: on, \"true\": \"true\", y: y, yes: yes, \"~\": \"~\"}\n") <= SAME
flowseq [yaml12] => Ok("%YAML 1.2\n---\n[---a, \"...\", \"... x\", \".nan\", \".NaN\", \"-.INF\", \"+.inf\", \".inf\", +-.inf, .infx, \"nan\", \"NaN\", \"+inf\", \"-Infinity\", \"infinity\", \"0x1F\"]\n") <= SAME
flowmap [yaml12] => Ok("%YAML 1.2\n---\n{+-.inf: +-.inf, \"+.inf\": \"+.inf\", \"+inf\": \"+inf\", ---a: ---a, \"-.INF\": \"-.INF\", \"-Infinity\": \"-Infinity\", \"...\": \"...\", \"... x\": \"... x\", \".NaN\": \".NaN\", \".inf\": \".inf\", .infx: .infx, \".nan\": \".nan\", \"0x1F\": \"0x1F\", \"NaN\": \"NaN\", \"infinity\": \"infinity\", \"nan\": \"nan\"}\n") <= SAME
flowseq [yaml12] => Ok("%YAML 1.2\n---\n[\"-0x1f\", \"0o17\", \"0b101\", 0b102, \"1_000\", \"1e9\", \"1E+9\", \"1.\", \".5\", \"+1.5e-3\", 1.5e, \"12345678901234567890123456789\", '-', \"?\", +, '.']\n") <= SAME
flowmap [yaml12] => Ok("%YAML 1.2\n---\n{+: +, \"+1.5e-3\": \"+1.5e-3\", \"-\": '-', \"-0x1f\": \"-0x1f\", .: '.', \".5\": \".5\", \"0b101\": \"0b101\", 0b102: 0b102, \"0o17\": \"0o17\", \"1.\": \"1.\", 1.5e: 1.5e, \"12345678901234567890123456789\": \"12345678901234567890123456789\", \"1E+9\": \"1E+9\", \"1_000\": \"1_000\", \"1e9\": \"1e9\", \"?\": \"?\"}\n") <= SAME
flowseq [yaml12] => Ok("%YAML 1.2\n---\n['#', \"- a\", -a, \"-\\ta\", ?x, \"? x\", \",a\", \":a\", \"[a\", \"]a\", \"{a\", \"}a\", \"%a\", \"@a\", \"`a\", \"!a\"]\n") <= SAME
flowmap [yaml12] => Ok("%YAML 1.2\n---\n{\"!a\": \"!a\", \"#\": '#', \"%a\": \"%a\", \",a\": \",a\", \"-\\ta\": \"-\\ta\", \"- a\": \"- a\", -a: -a, \":a\": \":a\", \"? x\": \"? x\", ?x: ?x, \"@a\": \"@a\", \"[a\": \"[a\", \"]a\": \"]a\", \"`a\": \"`a\", \"{a\": \"{a\", \"}a\": \"}a\"}\n") <= SAME
flowseq [yaml12] => Ok("%YAML 1.2\n---\n[\"&a\", \"*a\", \"|a\", \">a\", \"'a\", \"\\\"a\", \"a: b\", a:b, \"a:\", \"a: \", \"a #b\", \"a#b\", \"a,b\", \"a]b\", \"a{b}\", \" lead\"]\n") <= SAME
flowmap [yaml12] => Ok("%YAML 1.2\n---\n{\" lead\": \" lead\", \"\\\"a\": \"\\\"a\", \"&a\": \"&a\", \"'a\": \"'a\", \"*a\": \"*a\", \">a\": \">a\", \"a #b\": \"a #b\", \"a#b\": \"a#b\", \"a,b\": \"a,b\", \"a:\": \"a:\", \"a: \": \"a: \", \"a: b\": \"a: b\", \"a:b\": a:b, \"a]b\": \"a]b\", \"a{b}\": \"a{b}\", \"|a\": \"|a\"}\n") <= SAME
flowseq [yaml12] => Ok("%YAML 1.2\n---\n[\"trail \", \"\u{a0}nbsp\", \"em\u{2003}\", \"\\uFEFFbom\", mid\u{feff}bom, \"tab\\there\", \"new\\nline\", \"line\\n\", \"line\\n\\n\", \"\\n\", \"\\n\\n\", \"\\n\\n\\n\", \"\\nlead\", \"a\\n\\n\\nb\\n\\n\\n\", \"  indented\\nline\", \"\\n  indented after blank\\n\"]\n") <= SAME
flowmap [yaml12] => Ok("%YAML 1.2\n---\n{\"\\n\": \"\\n\", \"\\n\\n\": \"\\n\\n\", \"\\n\\n\\n\": \"\\n\\n\\n\", \"\\n  indented after blank\\n\": \"\\n  indented after blank\\n\", \"\\nlead\": \"\\nlead\", \"  indented\\nline\": \"  indented\\nline\", \"a\\n\\n\\nb\\n\\n\\n\": \"a\\n\\n\\nb\\n\\n\\n\", \"em\u{2003}\": \"em\u{2003}\", \"line\\n\": \"line\\n\", \"line\\n\\n\": \"line\\n\\n\", mid\u{feff}bom: mid\u{feff}bom, \"new\\nline\": \"new\\nline\", \"tab\\there\": \"tab\\there\", \"trail \": \"trail \", \"\u{a0}nbsp\": \"\u{a0}nbsp\", \"\u{feff}bom\": \"\\uFEFFbom\"}\n") <= SAME
flowseq [yaml12] => Ok("%YAML 1.2\n---\n[\"a\\n  b\\n\", \"key: v\\nnext\", \"ends with colon:\\nx:\", \"# not comment\\nline\", \"trailing space \\nline\", \"cr\\rhere\", \"crlf\\r\\nhere\", \"\\0\", \"\\a\", \"\\b\", \"\\v\", \"\\f\", \"\\e\", \"\\x01\", \"\\x1F\", \"\\x7F\"]\n") <= SAME
flowmap [yaml12] => Ok("%YAML 1.2\n---\n{\"\\u0000\": \"\\0\", \"\\u0001\": \"\\x01\", \"\\u0007\": \"\\a\", \"\\u0008\": \"\\b\", \"\\u000B\": \"\\v\", \"\\u000C\": \"\\f\", \"\\u001B\": \"\\e\", \"\\u001F\": \"\\x1F\", \"# not comment\\nline\": \"# not comment\\nline\", \"a\\n  b\\n\": \"a\\n  b\\n\", \"cr\\rhere\": \"cr\\rhere\", \"crlf\\r\\nhere\": \"crlf\\r\\nhere\", \"ends with colon:\\nx:\": \"ends with colon:\\nx:\", \"key: v\\nnext\": \"key: v\\nnext\", \"trailing space \\nline\": \"trailing space \\nline\", \"\\u007F\": \"\\x7F\"}\n") <= SAME
flowseq [yaml12] => Ok("%YAML 1.2\n---\n[\"\\x80\", \"\\N\", \"\\x9F\", \"\\L\", \"\\P\", a\u{2028}b, it's, \"'\", \"''\", say \"hi\", back\\slash, \\, é, 日本語, 😀, 1.0.0]\n") <= SAME
flowmap [yaml12] => Ok("%YAML 1.2\n---\n{\"'\": \"'\", \"''\": \"''\", 1.0.0: 1.0.0, \\: \\, a\u{2028}b: a\u{2028}b, back\\slash: back\\slash, it's: it's, say \"hi\": say \"hi\", \"\\u0080\": \"\\x80\", \"\\u0085\": \"\\N\", \"\\u009F\": \"\\x9F\", é: é, \"\u{2028}\": \"\\L\", \"\u{2029}\": \"\\P\", 日本語: 日本語, 😀: 😀}\n") <= SAME
flowseq [yaml12] => Ok("%YAML 1.2\n---\n[12:30, 2001-12-14, a b, word word word word word word word word word word word word word word word word word word word word word word word word word word word word word word, \"word word word word word word word word word word word word word word word word word word word word word word word word word word word word word word \", \"word word word word word word word word word word word word word word word word word word word word word word word word word word word word word word\\n\", \"word word word word word word word word word word word word word word word word word word word word word word word word word word word word word word\\n\\n\", xxxxxxxxxxxxxxxxxxxxxxxxxxxxxxxxxxxxxxxxxxxxxxxxxxxxxxxxxxxxxxxxxxxxxxxxxxxxxxxxxxxxxxxxxxxxxxxxxxxxxxxxxxxxxxxxxxxxxxxx, aaaaaaaaaaaaaaaaaaaaaaaaaaaaaaaaaaaaaaaaaaaaaaaaaa   bbbbbbbbbbbbbbbbbbbbbbbbbbbbbbbbbbbbbbbbbbbbbbbbbb  cccccccccccccccccccccccccccccccccccccccccccccccccc, \"aaaaaaaaaaaaaaaaaaaaaaaaaaaaaaaaaaaaaaaaaaaaaaaaaa\\tbbbbbbbbbbbbbbbbbbbbbbbbbbbbbbbbbbbbbbbbbbbbbbbbbb\\tcccccccccccccccccccccccccccccccccccccccccccccccccc\", \"aaaaaaaaaaaaaaaaaaaaaaaaaaaaaaaaaaaaaaaaaaaaaaaaaa # bbbbbbbbbbbbbbbbbbbbbbbbbbbbbbbbbbbbbbbbbbbbbbbbbb\", \"aaaaaaaaaaaaaaaaaaaaaaaaaaaaaaaaaaaaaaaaaaaaaaaaaa: bbbbbbbbbbbbbbbbbbbbbbbbbbbbbbbbbbbbbbbbbbbbbbbbbb\", \"- lorem ipsum lorem ipsum lorem ipsum lorem ipsum lorem ipsum lorem ipsum lorem ipsum lorem ipsum lorem ipsum lorem ipsum \", \"日本語 テキスト 日本語 テキスト 日本語 テキスト 日本語 テキスト 日本語 テキスト 日本語 テキスト 日本語 テキスト 日本語 テキスト 日本語 テキスト 日本語 テキスト 日本語 テキスト 日本語 テキスト 日本語 テキスト 日本語 テキスト 日本語 テキスト \", \"ab ab ab ab ab ab ab ab ab ab ab ab ab ab ab ab ab ab ab ab \\Ncd cd cd cd cd cd cd cd cd cd cd cd cd cd cd cd cd cd cd cd \", \"ab ab ab ab ab ab ab ab ab ab ab ab ab ab ab ab ab ab ab ab \\rcd cd cd cd cd cd cd cd cd cd cd cd cd cd cd cd cd cd cd cd \"]\n") <= SAME
flowmap [yaml12] => Ok("%YAML 1.2\n---\n{\"- lorem ipsum lorem ipsum lorem ipsum lorem ipsum lorem ipsum lorem ipsum lorem ipsum lorem ipsum lorem ipsum lorem ipsum \": \"- lorem ipsum lorem ipsum lorem ipsum lorem ipsum lorem ipsum lorem ipsum lorem ipsum lorem ipsum lorem ipsum lorem ipsum \", \"12:30\": 12:30, 2001-12-14: 2001-12-14, a b: a b, \"aaaaaaaaaaaaaaaaaaaaaaaaaaaaaaaaaaaaaaaaaaaaaaaaaa\\tbbbbbbbbbbbbbbbbbbbbbbbbbbbbbbbbbbbbbbbbbbbbbbbbbb\\tcccccccccccccccccccccccccccccccccccccccccccccccccc\": \"aaaaaaaaaaaaaaaaaaaaaaaaaaaaaaaaaaaaaaaaaaaaaaaaaa\\tbbbbbbbbbbbbbbbbbbbbbbbbbbbbbbbbbbbbbbbbbbbbbbbbbb\\tcccccccccccccccccccccccccccccccccccccccccccccccccc\", aaaaaaaaaaaaaaaaaaaaaaaaaaaaaaaaaaaaaaaaaaaaaaaaaa   bbbbbbbbbbbbbbbbbbbbbbbbbbbbbbbbbbbbbbbbbbbbbbbbbb  cccccccccccccccccccccccccccccccccccccccccccccccccc: aaaaaaaaaaaaaaaaaaaaaaaaaaaaaaaaaaaaaaaaaaaaaaaaaa   bbbbbbbbbbbbbbbbbbbbbbbbbbbbbbbbbbbbbbbbbbbbbbbbbb  cccccccccccccccccccccccccccccccccccccccccccccccccc, \"aaaaaaaaaaaaaaaaaaaaaaaaaaaaaaaaaaaaaaaaaaaaaaaaaa # bbbbbbbbbbbbbbbbbbbbbbbbbbbbbbbbbbbbbbbbbbbbbbbbbb\": \"aaaaaaaaaaaaaaaaaaaaaaaaaaaaaaaaaaaaaaaaaaaaaaaaaa # bbbbbbbbbbbbbbbbbbbbbbbbbbbbbbbbbbbbbbbbbbbbbbbbbb\", \"aaaaaaaaaaaaaaaaaaaaaaaaaaaaaaaaaaaaaaaaaaaaaaaaaa: bbbbbbbbbbbbbbbbbbbbbbbbbbbbbbbbbbbbbbbbbbbbbbbbbb\": \"aaaaaaaaaaaaaaaaaaaaaaaaaaaaaaaaaaaaaaaaaaaaaaaaaa: bbbbbbbbbbbbbbbbbbbbbbbbbbbbbbbbbbbbbbbbbbbbbbbbbb\", \"ab ab ab ab ab ab ab ab ab ab ab ab ab ab ab ab ab ab ab ab \\rcd cd cd cd cd cd cd cd cd cd cd cd cd cd cd cd cd cd cd cd \": \"ab ab ab ab ab ab ab ab ab ab ab ab ab ab ab ab ab ab ab ab \\rcd cd cd cd cd cd cd cd cd cd cd cd cd cd cd cd cd cd cd cd \", \"ab ab ab ab ab ab ab ab ab ab ab ab ab ab ab ab ab ab ab ab \\u0085cd cd cd cd cd cd cd cd cd cd cd cd cd cd cd cd cd cd cd cd \": \"ab ab ab ab ab ab ab ab ab ab ab ab ab ab ab ab ab ab ab ab \\Ncd cd cd cd cd cd cd cd cd cd cd cd cd cd cd cd cd cd cd cd \", word word word word word word word word word word word word word word word word word word word word word word word word word word word word word word: word word word word word word word word word word word word word word word word word word word word word word word word word word word word word word, \"word word word word word word word word word word word word word word word word word word word word word word word word word word word word word word\\n\": \"word word word word word word word word word word word word word word word word word word word word word word word word word word word word word word\\n\", \"word word word word word word word word word word word word word word word word word word word word word word word word word word word word word word\\n\\n\": \"word word word word word word word word word word word word word word word word word word word word word word word word word word word word word word\\n\\n\", \"word word word word word word word word word word word word word word word word word word word word word word word word word word word word word word \": \"word word word word word word word word word word word word word word word word word word word word word word word word word word word word word word \", xxxxxxxxxxxxxxxxxxxxxxxxxxxxxxxxxxxxxxxxxxxxxxxxxxxxxxxxxxxxxxxxxxxxxxxxxxxxxxxxxxxxxxxxxxxxxxxxxxxxxxxxxxxxxxxxxxxxxxxx: xxxxxxxxxxxxxxxxxxxxxxxxxxxxxxxxxxxxxxxxxxxxxxxxxxxxxxxxxxxxxxxxxxxxxxxxxxxxxxxxxxxxxxxxxxxxxxxxxxxxxxxxxxxxxxxxxxxxxxxx, \"日本語 テキスト 日本語 テキスト 日本語 テキスト 日本語 テキスト 日本語 テキスト 日本語 テキスト 日本語 テキスト 日本語 テキスト 日本語 テキスト 日本語 テキスト 日本語 テキスト 日本語 テキスト 日本語 テキスト 日本語 テキスト 日本語 テキスト \": \"日本語 テキスト 日本語 テキスト 日本語 テキスト 日本語 テキスト 日本語 テキスト 日本語 テキスト 日本語 テキスト 日本語 テキスト 日本語 テキスト 日本語 テキスト 日本語 テキスト 日本語 テキスト 日本語 テキスト 日本語 テキスト 日本語 テキスト \"}\n") <= SAME
flowseq [yaml12] => Ok("%YAML 1.2\n---\n[\"lorem ipsum lorem ipsum lorem ipsum lorem ipsum lorem ipsum lorem ipsum \\ndolor sit dolor sit dolor sit dolor sit dolor sit dolor sit \", \"  lorem ipsum lorem ipsum lorem ipsum lorem ipsum lorem ipsum lorem ipsum \\ndolor: sit dolor: sit dolor: sit dolor: sit dolor: sit dolor: sit \\n\\n\", \"lorem ipsum lorem ipsum lorem ipsum lorem ipsum lorem ipsum lorem ipsum :\\ndolor sit dolor sit dolor sit dolor sit dolor sit dolor sit :\"]\n") <= SAME
flowmap [yaml12] => Ok("%YAML 1.2\n---\n{\"  lorem ipsum lorem ipsum lorem ipsum lorem ipsum lorem ipsum lorem ipsum \\ndolor: sit dolor: sit dolor: sit dolor: sit dolor: sit dolor: sit \\n\\n\": \"  lorem ipsum lorem ipsum lorem ipsum lorem ipsum lorem ipsum lorem ipsum \\ndolor: sit dolor: sit dolor: sit dolor: sit dolor: sit dolor: sit \\n\\n\", \"lorem ipsum lorem ipsum lorem ipsum lorem ipsum lorem ipsum lorem ipsum \\ndolor sit dolor sit dolor sit dolor sit dolor sit dolor sit \": \"lorem ipsum lorem ipsum lorem ipsum lorem ipsum lorem ipsum lorem ipsum \\ndolor sit dolor sit dolor sit dolor sit dolor sit dolor sit \", \"lorem ipsum lorem ipsum lorem ipsum lorem ipsum lorem ipsum lorem ipsum :\\ndolor sit dolor sit dolor sit dolor sit dolor sit dolor sit :\": \"lorem ipsum lorem ipsum lorem ipsum lorem ipsum lorem ipsum lorem ipsum :\\ndolor sit dolor sit dolor sit dolor sit dolor sit dolor sit :\"}\n") <= SAME
enum [yaml12] Text("") => Ok("%YAML 1.2\n---\nText: \"\"\n") <= SAME
enum [yaml12] [Pair("", -1)] => Ok("%YAML 1.2\n---\n- Pair:\n    - \"\"\n    - -1\n") <= SAME
enum [yaml12] Rec { s: "", c: 'x' } => Ok("%YAML 1.2\n---\nRec:\n  s: \"\"\n  c: x\n") <= SAME
enum [yaml12] Text("NULL") => Ok("%YAML 1.2\n---\nText: \"NULL\"\n") <= SAME
enum [yaml12] [Pair("NULL", -1)] => Ok("%YAML 1.2\n---\n- Pair:\n    - \"NULL\"\n    - -1\n") <= SAME
enum [yaml12] Rec { s: "NULL", c: 'N' } => Ok("%YAML 1.2\n---\nRec:\n  s: \"NULL\"\n  c: N\n") <= SAME
enum [yaml12] Text("False") => Ok("%YAML 1.2\n---\nText: \"False\"\n") <= SAME
enum [yaml12] [Pair("False", -1)] => Ok("%YAML 1.2\n---\n- Pair:\n    - \"False\"\n    - -1\n") <= SAME
enum [yaml12] Rec { s: "False", c: 'F' } => Ok("%YAML 1.2\n---\nRec:\n  s: \"False\"\n  c: F\n") <= SAME
enum [yaml12] Text("y") => Ok("%YAML 1.2\n---\nText: y\n") <= SAME
enum [yaml12] [Pair("y", -1)] => Ok("%YAML 1.2\n---\n- Pair:\n    - y\n    - -1\n") <= SAME
enum [yaml12] Rec { s: "y", c: 'y' } => Ok("%YAML 1.2\n---\nRec:\n  s: y\n  c: y\n") <= SAME
enum [yaml12] Text("OFF") => Ok("%YAML 1.2\n---\nText: OFF\n") <= SAME
enum [yaml12] [Pair("OFF", -1)] => Ok("%YAML 1.2\n---\n- Pair:\n    - OFF\n    - -1\n") <= SAME
enum [yaml12] Rec { s: "OFF", c: 'O' } => Ok("%YAML 1.2\n---\nRec:\n  s: OFF\n  c: O\n") <= SAME
enum [yaml12] Text("--- a") => Ok("%YAML 1.2\n---\nText: \"--- a\"\n") <= SAME
enum [yaml12] [Pair("--- a", -1)] => Ok("%YAML 1.2\n---\n- Pair:\n    - \"--- a\"\n    - -1\n") <= SAME
enum [yaml12] Rec { s: "--- a", c: '-' } => Ok("%YAML 1.2\n---\nRec:\n  s: \"--- a\"\n  c: '-'\n") <= SAME
enum [yaml12] Text("... x") => Ok("%YAML 1.2\n---\nText: \"... x\"\n") <= SAME
enum [yaml12] [Pair("... x", -1)] => Ok("%YAML 1.2\n---\n- Pair:\n    - \"... x\"\n    - -1\n") <= SAME
enum [yaml12] Rec { s: "... x", c: '.' } => Ok("%YAML 1.2\n---\nRec:\n  s: \"... x\"\n  c: '.'\n") <= SAME
enum [yaml12] Text("-.INF") => Ok("%YAML 1.2\n---\nText: \"-.INF\"\n") <= SAME
enum [yaml12] [Pair("-.INF", -1)] => Ok("%YAML 1.2\n---\n- Pair:\n    - \"-.INF\"\n    - -1\n") <= SAME
enum [yaml12] Rec { s: "-.INF", c: '-' } => Ok("%YAML 1.2\n---\nRec:\n  s: \"-.INF\"\n  c: '-'\n") <= SAME
enum [yaml12] Text("+-.inf") => Ok("%YAML 1.2\n---\nText: +-.inf\n") <= SAME
enum [yaml12] [Pair("+-.inf", -1)] => Ok("%YAML 1.2\n---\n- Pair:\n    - +-.inf\n    - -1\n") <= SAME
enum [yaml12] Rec { s: "+-.inf", c: '+' } => Ok("%YAML 1.2\n---\nRec:\n  s: +-.inf\n  c: +\n") <= SAME
enum [yaml12] Text("NaN") => Ok("%YAML 1.2\n---\nText: \"NaN\"\n") <= SAME
enum [yaml12] [Pair("NaN", -1)] => Ok("%YAML 1.2\n---\n- Pair:\n    - \"NaN\"\n    - -1\n") <= SAME
enum [yaml12] Rec { s: "NaN", c: 'N' } => Ok("%YAML 1.2\n---\nRec:\n  s: \"NaN\"\n  c: N\n") <= SAME
enum [yaml12] Text("infinity") => Ok("%YAML 1.2\n---\nText: \"infinity\"\n") <= SAME
enum [yaml12] [Pair("infinity", -1)] => Ok("%YAML 1.2\n---\n- Pair:\n    - \"infinity\"\n    - -1\n") <= SAME
enum [yaml12] Rec { s: "infinity", c: 'i' } => Ok("%YAML 1.2\n---\nRec:\n  s: \"infinity\"\n  c: i\n") <= SAME
enum [yaml12] Text("0o17") => Ok("%YAML 1.2\n---\nText: \"0o17\"\n") <= SAME
enum [yaml12] [Pair("0o17", -1)] => Ok("%YAML 1.2\n---\n- Pair:\n    - \"0o17\"\n    - -1\n") <= SAME
enum [yaml12] Rec { s: "0o17", c: '0' } => Ok("%YAML 1.2\n---\nRec:\n  s: \"0o17\"\n  c: \"0\"\n") <= SAME
enum [yaml12] Text("1_000") => Ok("%YAML 1.2\n---\nText: \"1_000\"\n") <= SAME
enum [yaml12] [Pair("1_000", -1)] => Ok("%YAML 1.2\n---\n- Pair:\n    - \"1_000\"\n    - -1\n") <= SAME
enum [yaml12] Rec { s: "1_000", c: '1' } => Ok("%YAML 1.2\n---\nRec:\n  s: \"1_000\"\n  c: \"1\"\n") <= SAME
enum [yaml12] Text("1.") => Ok("%YAML 1.2\n---\nText: \"1.\"\n") <= SAME
enum [yaml12] [Pair("1.", -1)] => Ok("%YAML 1.2\n---\n- Pair:\n    - \"1.\"\n    - -1\n") <= SAME
enum [yaml12] Rec { s: "1.", c: '1' } => Ok("%YAML 1.2\n---\nRec:\n  s: \"1.\"\n  c: \"1\"\n") <= SAME
enum [yaml12] Text("1.5e") => Ok("%YAML 1.2\n---\nText: 1.5e\n") <= SAME
enum [yaml12] [Pair("1.5e", -1)] => Ok("%YAML 1.2\n---\n- Pair:\n    - 1.5e\n    - -1\n") <= SAME
enum [yaml12] Rec { s: "1.5e", c: '1' } => Ok("%YAML 1.2\n---\nRec:\n  s: 1.5e\n  c: \"1\"\n") <= SAME
enum [yaml12] Text("?") => Ok("%YAML 1.2\n---\nText: \"?\"\n") <= SAME
enum [yaml12] [Pair("?", -1)] => Ok("%YAML 1.2\n---\n- Pair:\n    - \"?\"\n    - -1\n") <= SAME
enum [yaml12] Rec { s: "?", c: '?' } => Ok("%YAML 1.2\n---\nRec:\n  s: \"?\"\n  c: \"?\"\n") <= SAME
enum [yaml12] Text("#") => Ok("%YAML 1.2\n---\nText: '#'\n") <= SAME
enum [yaml12] [Pair("#", -1)] => Ok("%YAML 1.2\n---\n- Pair:\n    - '#'\n    - -1\n") <= SAME
enum [yaml12] Rec { s: "#", c: '#' } => Ok("%YAML 1.2\n---\nRec:\n  s: '#'\n  c: '#'\n") <= SAME
enum [yaml12] Text("-\ta") => Ok("%YAML 1.2\n---\nText: \"-\\ta\"\n") <= SAME
enum [yaml12] [Pair("-\ta", -1)] => Ok("%YAML 1.2\n---\n- Pair:\n    - \"-\\ta\"\n    - -1\n") <= SAME
enum [yaml12] Rec { s: "-\ta", c: '-' } => Ok("%YAML 1.2\n---\nRec:\n  s: \"-\\ta\"\n  c: '-'\n") <= SAME
enum [yaml12] Text(",a") => Ok("%YAML 1.2\n---\nText: \",a\"\n") <= SAME
enum [yaml12] [Pair(",a", -1)] => Ok("%YAML 1.2\n---\n- Pair:\n    - \",a\"\n    - -1\n") <= SAME
enum [yaml12] Rec { s: ",a", c: ',' } => Ok("%YAML 1.2\n---\nRec:\n  s: \",a\"\n  c: \",\"\n") <= SAME
enum [yaml12] Text("]a") => Ok("%YAML 1.2\n---\nText: \"]a\"\n") <= SAME
enum [yaml12] [Pair("]a", -1)] => Ok("%YAML 1.2\n---\n- Pair:\n    - \"]a\"\n    - -1\n") <= SAME
enum [yaml12] Rec { s: "]a", c: ']' } => Ok("%YAML 1.2\n---\nRec:\n  s: \"]a\"\n  c: \"]\"\n") <= SAME
enum [yaml12] Text("%a") => Ok("%YAML 1.2\n---\nText: \"%a\"\n") <= SAME
enum [yaml12] [Pair("%a", -1)] => Ok("%YAML 1.2\n---\n- Pair:\n    - \"%a\"\n    - -1\n") <= SAME
enum [yaml12] Rec { s: "%a", c: '%' } => Ok("%YAML 1.2\n---\nRec:\n  s: \"%a\"\n  c: \"%\"\n") <= SAME
enum [yaml12] Text("!a") => Ok("%YAML 1.2\n---\nText: \"!a\"\n") <= SAME
enum [yaml12] [Pair("!a", -1)] => Ok("%YAML 1.2\n---\n- Pair:\n    - \"!a\"\n    - -1\n") <= SAME
enum [yaml12] Rec { s: "!a", c: '!' } => Ok("%YAML 1.2\n---\nRec:\n  s: \"!a\"\n  c: \"!\"\n") <= SAME
enum [yaml12] Text("|a") => Ok("%YAML 1.2\n---\nText: \"|a\"\n") <= SAME
enum [yaml12] [Pair("|a", -1)] => Ok("%YAML 1.2\n---\n- Pair:\n    - \"|a\"\n    - -1\n") <= SAME
enum [yaml12] Rec { s: "|a", c: '|' } => Ok("%YAML 1.2\n---\nRec:\n  s: \"|a\"\n  c: \"|\"\n") <= SAME
enum [yaml12] Text("\"a") => Ok("%YAML 1.2\n---\nText: \"\\\"a\"\n") <= SAME
enum [yaml12] [Pair("\"a", -1)] => Ok("%YAML 1.2\n---\n- Pair:\n    - \"\\\"a\"\n    - -1\n") <= SAME
enum [yaml12] Rec { s: "\"a", c: '"' } => Ok("%YAML 1.2\n---\nRec:\n  s: \"\\\"a\"\n  c: \"\\\"\"\n") <= SAME
enum [yaml12] Text("a:") => Ok("%YAML 1.2\n---\nText: \"a:\"\n") <= SAME
enum [yaml12] [Pair("a:", -1)] => Ok("%YAML 1.2\n---\n- Pair:\n    - \"a:\"\n    - -1\n") <= SAME
enum [yaml12] Rec { s: "a:", c: 'a' } => Ok("%YAML 1.2\n---\nRec:\n  s: \"a:\"\n  c: a\n") <= SAME
enum [yaml12] Text("a#b") => Ok("%YAML 1.2\n---\nText: \"a#b\"\n") <= SAME
enum [yaml12] [Pair("a#b", -1)] => Ok("%YAML 1.2\n---\n- Pair:\n    - \"a#b\"\n    - -1\n") <= SAME
enum [yaml12] Rec { s: "a#b", c: 'a' } => Ok("%YAML 1.2\n---\nRec:\n  s: \"a#b\"\n  c: a\n") <= SAME
enum [yaml12] Text("a{b}") => Ok("%YAML 1.2\n---\nText: a{b}\n") <= SAME
enum [yaml12] [Pair("a{b}", -1)] => Ok("%YAML 1.2\n---\n- Pair:\n    - a{b}\n    - -1\n") <= SAME
enum [yaml12] Rec { s: "a{b}", c: 'a' } => Ok("%YAML 1.2\n---\nRec:\n  s: a{b}\n  c: a\n") <= SAME
enum [yaml12] Text("\u{a0}nbsp") => Ok("%YAML 1.2\n---\nText: \"\u{a0}nbsp\"\n") <= SAME
enum [yaml12] [Pair("\u{a0}nbsp", -1)] => Ok("%YAML 1.2\n---\n- Pair:\n    - \"\u{a0}nbsp\"\n    - -1\n") <= SAME
enum [yaml12] Rec { s: "\u{a0}nbsp", c: '\u{a0}' } => Ok("%YAML 1.2\n---\nRec:\n  s: \"\u{a0}nbsp\"\n  c: \"\u{a0}\"\n") <= SAME
enum [yaml12] Text("mid\u{feff}bom") => Ok("%YAML 1.2\n---\nText: mid\u{feff}bom\n") <= SAME
enum [yaml12] [Pair("mid\u{feff}bom", -1)] => Ok("%YAML 1.2\n---\n- Pair:\n    - mid\u{feff}bom\n    - -1\n") <= SAME
enum [yaml12] Rec { s: "mid\u{feff}bom", c: 'm' } => Ok("%YAML 1.2\n---\nRec:\n  s: mid\u{feff}bom\n  c: m\n") <= SAME
enum [yaml12] Text("line\n") => Ok("%YAML 1.2\n---\nText: |\n  line\n") <= SAME
enum [yaml12] [Pair("line\n", -1)] => Ok("%YAML 1.2\n---\n- Pair:\n    - |\n      line\n    - -1\n") <= SAME
enum [yaml12] Rec { s: "line\n", c: 'l' } => Ok("%YAML 1.2\n---\nRec:\n  s: |\n    line\n  c: l\n") <= SAME
enum [yaml12] Text("\n\n") => Ok("%YAML 1.2\n---\nText: \"\\n\\n\"\n") <= SAME
enum [yaml12] [Pair("\n\n", -1)] => Ok("%YAML 1.2\n---\n- Pair:\n    - \"\\n\\n\"\n    - -1\n") <= SAME
enum [yaml12] Rec { s: "\n\n", c: '\n' } => Ok("%YAML 1.2\n---\nRec:\n  s: \"\\n\\n\"\n  c: \"\\n\"\n") <= SAME
enum [yaml12] Text("a\n\n\nb\n\n\n") => Ok("%YAML 1.2\n---\nText: |+\n  a\n  \n  \n  b\n  \n  \n") <= SAME
enum [yaml12] [Pair("a\n\n\nb\n\n\n", -1)] => Ok("%YAML 1.2\n---\n- Pair:\n    - |+\n      a\n      \n      \n      b\n      \n      \n    - -1\n") <= SAME
enum [yaml12] Rec { s: "a\n\n\nb\n\n\n", c: 'a' } => Ok("%YAML 1.2\n---\nRec:\n  s: |+\n    a\n    \n    \n    b\n    \n    \n  c: a\n") <= SAME
enum [yaml12] Text("a\n  b\n") => Ok("%YAML 1.2\n---\nText: |\n  a\n    b\n") <= SAME
enum [yaml12] [Pair("a\n  b\n", -1)] => Ok("%YAML 1.2\n---\n- Pair:\n    - |\n      a\n        b\n    - -1\n") <= SAME
enum [yaml12] Rec { s: "a\n  b\n", c: 'a' } => Ok("%YAML 1.2\n---\nRec:\n  s: |\n    a\n      b\n  c: a\n") <= SAME
enum [yaml12] Text("# not comment\nline") => Ok("%YAML 1.2\n---\nText: \"# not comment\\nline\"\n") <= SAME
enum [yaml12] [Pair("# not comment\nline", -1)] => Ok("%YAML 1.2\n---\n- Pair:\n    - \"# not comment\\nline\"\n    - -1\n") <= SAME
enum [yaml12] Rec { s: "# not comment\nline", c: '#' } => Ok("%YAML 1.2\n---\nRec:\n  s: \"# not comment\\nline\"\n  c: '#'\n") <= SAME
enum [yaml12] Text("crlf\r\nhere") => Ok("%YAML 1.2\n---\nText: \"crlf\\r\\nhere\"\n") <= SAME
enum [yaml12] [Pair("crlf\r\nhere", -1)] => Ok("%YAML 1.2\n---\n- Pair:\n    - \"crlf\\r\\nhere\"\n    - -1\n") <= SAME
enum [yaml12] Rec { s: "crlf\r\nhere", c: 'c' } => Ok("%YAML 1.2\n---\nRec:\n  s: \"crlf\\r\\nhere\"\n  c: c\n") <= SAME
enum [yaml12] Text("\u{8}") => Ok("%YAML 1.2\n---\nText: \"\\b\"\n") <= SAME
enum [yaml12] [Pair("\u{8}", -1)] => Ok("%YAML 1.2\n---\n- Pair:\n    - \"\\b\"\n    - -1\n") <= SAME
enum [yaml12] Rec { s: "\u{8}", c: '\u{8}' } => Ok("%YAML 1.2\n---\nRec:\n  s: \"\\b\"\n  c: \"\\b\"\n") <= SAME
enum [yaml12] Text("\u{1b}") => Ok("%YAML 1.2\n---\nText: \"\\e\"\n") <= SAME
enum [yaml12] [Pair("\u{1b}", -1)] => Ok("%YAML 1.2\n---\n- Pair:\n    - \"\\e\"\n    - -1\n") <= SAME
enum [yaml12] Rec { s: "\u{1b}", c: '\u{1b}' } => Ok("%YAML 1.2\n---\nRec:\n  s: \"\\e\"\n  c: \"\\e\"\n") <= SAME
enum [yaml12] Text("\u{7f}") => Ok("%YAML 1.2\n---\nText: \"\\x7F\"\n") <= SAME
enum [yaml12] [Pair("\u{7f}", -1)] => Ok("%YAML 1.2\n---\n- Pair:\n    - \"\\x7F\"\n    - -1\n") <= SAME
enum [yaml12] Rec { s: "\u{7f}", c: '\u{7f}' } => Ok("%YAML 1.2\n---\nRec:\n  s: \"\\x7F\"\n  c: \"\\x7F\"\n") <= SAME
enum [yaml12] Text("\u{9f}") => Ok("%YAML 1.2\n---\nText: \"\\x9F\"\n") <= SAME
enum [yaml12] [Pair("\u{9f}", -1)] => Ok("%YAML 1.2\n---\n- Pair:\n    - \"\\x9F\"\n    - -1\n") <= SAME
enum [yaml12] Rec { s: "\u{9f}", c: '\u{9f}' } => Ok("%YAML 1.2\n---\nRec:\n  s: \"\\x9F\"\n  c: \"\\x9F\"\n") <= SAME
enum [yaml12] Text("a\u{2028}b") => Ok("%YAML 1.2\n---\nText: a\u{2028}b\n") <= SAME
enum [yaml12] [Pair("a\u{2028}b", -1)] => Ok("%YAML 1.2\n---\n- Pair:\n    - a\u{2028}b\n    - -1\n") <= SAME
enum [yaml12] Rec { s: "a\u{2028}b", c: 'a' } => Ok("%YAML 1.2\n---\nRec:\n  s: a\u{2028}b\n  c: a\n") <= SAME
enum [yaml12] Text("''") => Ok("%YAML 1.2\n---\nText: \"''\"\n") <= SAME
enum [yaml12] [Pair("''", -1)] => Ok("%YAML 1.2\n---\n- Pair:\n    - \"''\"\n    - -1\n") <= SAME
enum [yaml12] Rec { s: "''", c: '\'' } => Ok("%YAML 1.2\n---\nRec:\n  s: \"''\"\n  c: \"'\"\n") <= SAME
enum [yaml12] Text("\\") => Ok("%YAML 1.2\n---\nText: \\\n") <= SAME
enum [yaml12] [Pair("\\", -1)] => Ok("%YAML 1.2\n---\n- Pair:\n    - \\\n    - -1\n") <= SAME
enum [yaml12] Rec { s: "\\", c: '\\' } => Ok("%YAML 1.2\n---\nRec:\n  s: \\\n  c: \\\n") <= SAME
enum [yaml12] Text("😀") => Ok("%YAML 1.2\n---\nText: 😀\n") <= SAME
enum [yaml12] [Pair("😀", -1)] => Ok("%YAML 1.2\n---\n- Pair:\n    - 😀\n    - -1\n") <= SAME
enum [yaml12] Rec { s: "😀", c: '😀' } => Ok("%YAML 1.2\n---\nRec:\n  s: 😀\n  c: 😀\n") <= SAME
enum [yaml12] Text("2001-12-14") => Ok("%YAML 1.2\n---\nText: 2001-12-14\n") <= SAME
enum [yaml12] [Pair("2001-12-14", -1)] => Ok("%YAML 1.2\n---\n- Pair:\n    - 2001-12-14\n    - -1\n") <= SAME
enum [yaml12] Rec { s: "2001-12-14", c: '2' } => Ok("%YAML 1.2\n---\nRec:\n  s: 2001-12-14\n  c: \"2\"\n") <= SAME
enum [yaml12] Text("word word word word word word word word word word word word word word word word word word word word word word word word word word word word word word ") => Ok("%YAML 1.2\n---\nText: >-\n  word word word word word word word word word word word word word word word word\n  word word word word word word word word word word word word word word \n") <= SAME
enum [yaml12] [Pair("word word word word word word word word word word word word word word word word word word word word word word word word word word word word word word ", -1)] => Ok("%YAML 1.2\n---\n- Pair:\n    - >-\n      word word word word word word word word word word word word word word word word\n      word word word word word word word word word word word word word word \n    - -1\n") <= SAME
enum [yaml12] Rec { s: "word word word word word word word word word word word word word word word word word word word word word word word word word word word word word word ", c: 'w' } => Ok("%YAML 1.2\n---\nRec:\n  s: >-\n    word word word word word word word word word word word word word word word word\n    word word word word word word word word word word word word word word \n  c: w\n") <= SAME
enum [yaml12] Text("xxxxxxxxxxxxxxxxxxxxxxxxxxxxxxxxxxxxxxxxxxxxxxxxxxxxxxxxxxxxxxxxxxxxxxxxxxxxxxxxxxxxxxxxxxxxxxxxxxxxxxxxxxxxxxxxxxxxxxxx") => Ok("%YAML 1.2\n---\nText: >-\n  xxxxxxxxxxxxxxxxxxxxxxxxxxxxxxxxxxxxxxxxxxxxxxxxxxxxxxxxxxxxxxxxxxxxxxxxxxxxxxxxxxxxxxxxxxxxxxxxxxxxxxxxxxxxxxxxxxxxxxxx\n") <= SAME
enum [yaml12] [Pair("xxxxxxxxxxxxxxxxxxxxxxxxxxxxxxxxxxxxxxxxxxxxxxxxxxxxxxxxxxxxxxxxxxxxxxxxxxxxxxxxxxxxxxxxxxxxxxxxxxxxxxxxxxxxxxxxxxxxxxxx", -1)] => Ok("%YAML 1.2\n---\n- Pair:\n    - >-\n      xxxxxxxxxxxxxxxxxxxxxxxxxxxxxxxxxxxxxxxxxxxxxxxxxxxxxxxxxxxxxxxxxxxxxxxxxxxxxxxxxxxxxxxxxxxxxxxxxxxxxxxxxxxxxxxxxxxxxxxx\n    - -1\n") <= SAME
enum [yaml12] Rec { s: "xxxxxxxxxxxxxxxxxxxxxxxxxxxxxxxxxxxxxxxxxxxxxxxxxxxxxxxxxxxxxxxxxxxxxxxxxxxxxxxxxxxxxxxxxxxxxxxxxxxxxxxxxxxxxxxxxxxxxxxx", c: 'x' } => Ok("%YAML 1.2\n---\nRec:\n  s: >-\n    xxxxxxxxxxxxxxxxxxxxxxxxxxxxxxxxxxxxxxxxxxxxxxxxxxxxxxxxxxxxxxxxxxxxxxxxxxxxxxxxxxxxxxxxxxxxxxxxxxxxxxxxxxxxxxxxxxxxxxxx\n  c: x\n") <= SAME
enum [yaml12] Text("aaaaaaaaaaaaaaaaaaaaaaaaaaaaaaaaaaaaaaaaaaaaaaaaaa # bbbbbbbbbbbbbbbbbbbbbbbbbbbbbbbbbbbbbbbbbbbbbbbbbb") => Ok("%YAML 1.2\n---\nText: \"aaaaaaaaaaaaaaaaaaaaaaaaaaaaaaaaaaaaaaaaaaaaaaaaaa # bbbbbbbbbbbbbbbbbbbbbbbbbbbbbbbbbbbbbbbbbbbbbbbbbb\"\n") <= SAME
enum [yaml12] [Pair("aaaaaaaaaaaaaaaaaaaaaaaaaaaaaaaaaaaaaaaaaaaaaaaaaa # bbbbbbbbbbbbbbbbbbbbbbbbbbbbbbbbbbbbbbbbbbbbbbbbbb", -1)] => Ok("%YAML 1.2\n---\n- Pair:\n    - \"aaaaaaaaaaaaaaaaaaaaaaaaaaaaaaaaaaaaaaaaaaaaaaaaaa # bbbbbbbbbbbbbbbbbbbbbbbbbbbbbbbbbbbbbbbbbbbbbbbbbb\"\n    - -1\n") <= SAME
enum [yaml12] Rec { s: "aaaaaaaaaaaaaaaaaaaaaaaaaaaaaaaaaaaaaaaaaaaaaaaaaa # bbbbbbbbbbbbbbbbbbbbbbbbbbbbbbbbbbbbbbbbbbbbbbbbbb", c: 'a' } => Ok("%YAML 1.2\n---\nRec:\n  s: \"aaaaaaaaaaaaaaaaaaaaaaaaaaaaaaaaaaaaaaaaaaaaaaaaaa # bbbbbbbbbbbbbbbbbbbbbbbbbbbbbbbbbbbbbbbbbbbbbbbbbb\"\n  c: a\n") <= SAME
enum [yaml12] Text("日本語 テキスト 日本語 テキスト 日本語 テキスト 日本語 テキスト 日本語 テキスト 日本語 テキスト 日本語 テキスト 日本語 テキスト 日本語 テキスト 日本語 テキスト 日本語 テキスト 日本語 テキスト 日本語 テキスト 日本語 テキスト 日本語 テキスト ") => Ok("%YAML 1.2\n---\nText: >-\n  日本語 テキスト 日本語 テキスト 日本語 テキスト 日本語 テキスト 日本語 テキスト 日本語 テキスト 日本語 テキスト 日本語 テキスト 日本語\n  テキスト 日本語 テキスト 日本語 テキスト 日本語 テキスト 日本語 テキスト 日本語 テキスト 日本語 テキスト \n") <= SAME
enum [yaml12] [Pair("日本語 テキスト 日本語 テキスト 日本語 テキスト 日本語 テキスト 日本語 テキスト 日本語 テキスト 日本語 テキスト 日本語 テキスト 日本語 テキスト 日本語 テキスト 日本語 テキスト 日本語 テキスト 日本語 テキスト 日本語 テキスト 日本語 テキスト ", -1)] => Ok("%YAML 1.2\n---\n- Pair:\n    - >-\n      日本語 テキスト 日本語 テキスト 日本語 テキスト 日本語 テキスト 日本語 テキスト 日本語 テキスト 日本語 テキスト 日本語 テキスト 日本語\n      テキスト 日本語 テキスト 日本語 テキスト 日本語 テキスト 日本語 テキスト 日本語 テキスト 日本語 テキスト \n    - -1\n") <= SAME
enum [yaml12] Rec { s: "日本語 テキスト 日本語 テキスト 日本語 テキスト 日本語 テキスト 日本語 テキスト 日本語 テキスト 日本語 テキスト 日本語 テキスト 日本語 テキスト 日本語 テキスト 日本語 テキスト 日本語 テキスト 日本語 テキスト 日本語 テキスト 日本語 テキスト ", c: '日' } => Ok("%YAML 1.2\n---\nRec:\n  s: >-\n    日本語 テキスト 日本語 テキスト 日本語 テキスト 日本語 テキスト 日本語 テキスト 日本語 テキスト 日本語 テキスト 日本語 テキスト 日本語\n    テキスト 日本語 テキスト 日本語 テキスト 日本語 テキスト 日本語 テキスト 日本語 テキスト 日本語 テキスト \n  c: 日\n") <= SAME
enum [yaml12] Text("lorem ipsum lorem ipsum lorem ipsum lorem ipsum lorem ipsum lorem ipsum \ndolor sit dolor sit dolor sit dolor sit dolor sit dolor sit ") => Ok("%YAML 1.2\n---\nText: |-\n  lorem ipsum lorem ipsum lorem ipsum lorem ipsum lorem ipsum lorem ipsum \n  dolor sit dolor sit dolor sit dolor sit dolor sit dolor sit \n") <= SAME
enum [yaml12] [Pair("lorem ipsum lorem ipsum lorem ipsum lorem ipsum lorem ipsum lorem ipsum \ndolor sit dolor sit dolor sit dolor sit dolor sit dolor sit ", -1)] => Ok("%YAML 1.2\n---\n- Pair:\n    - |-\n      lorem ipsum lorem ipsum lorem ipsum lorem ipsum lorem ipsum lorem ipsum \n      dolor sit dolor sit dolor sit dolor sit dolor sit dolor sit \n    - -1\n") <= SAME
enum [yaml12] Rec { s: "lorem ipsum lorem ipsum lorem ipsum lorem ipsum lorem ipsum lorem ipsum \ndolor sit dolor sit dolor sit dolor sit dolor sit dolor sit ", c: 'l' } => Ok("%YAML 1.2\n---\nRec:\n  s: |-\n    lorem ipsum lorem ipsum lorem ipsum lorem ipsum lorem ipsum lorem ipsum \n    dolor sit dolor sit dolor sit dolor sit dolor sit dolor sit \n  c: l\n") <= SAME
doc [yaml12] Doc { s: "line one\nline two\n", list: ["  lead\nx", "\n", "~"], opt: None, unit: () } => Ok("%YAML 1.2\n---\ns: |\n  line one\n  line two\nlist:\n  - \"  lead\\nx\"\n  - \"\\n\"\n  - \"~\"\nopt: null\nunit: null\n") <= SAME
root [noblock] "" => Ok("\"\"\n") <= SAME
root [noblock] "~" => Ok("\"~\"\n") <= SAME
root [noblock] "null" => Ok("\"null\"\n") <= SAME
root [noblock] "NULL" => Ok("\"NULL\"\n") <= SAME
root [noblock] "Null" => Ok("\"Null\"\n") <= SAME
root [noblock] "true" => Ok("\"true\"\n") <= SAME
root [noblock] "False" => Ok("\"False\"\n") <= SAME
root [noblock] "TRUE" => Ok("\"TRUE\"\n") <= SAME
root [noblock] "yes" => Ok("\"yes\"\n") <= SAME
root [noblock] "y" => Ok("\"y\"\n") <= SAME
root [noblock] "No" => Ok("\"No\"\n") <= SAME
root [noblock] "on" => Ok("\"on\"\n") <= SAME
root [noblock] "OFF" => Ok("\"OFF\"\n") <= SAME
root [noblock] "<<" => Ok("\"<<\"\n") <= SAME
root [noblock] "---" => Ok("\"---\"\n") <= SAME
root [noblock] "--- a" => Ok("\"--- a\"\n") <= SAME
root [noblock] "---a" => Ok("---a\n") <= SAME
root [noblock] "..." => Ok("\"...\"\n") <= SAME
root [noblock] "... x" => Ok("\"... x\"\n") <= SAME
root [noblock] ".nan" => Ok("\".nan\"\n") <= SAME
root [noblock] ".NaN" => Ok("\".NaN\"\n") <= SAME
root [noblock] "-.INF" => Ok("\"-.INF\"\n") <= SAME
root [noblock] "+.inf" => Ok("\"+.inf\"\n") <= SAME
root [noblock] ".inf" => Ok("\".inf\"\n") <= SAME
root [noblock] "+-.inf" => Ok("+-.inf\n") <= SAME
root [noblock] ".infx" => Ok(".infx\n") <= SAME
root [noblock] "nan" => Ok("\"nan\"\n") <= SAME
root [noblock] "NaN" => Ok("\"NaN\"\n") <= SAME
root [noblock] "+inf" => Ok("\"+inf\"\n") <= SAME
root [noblock] "-Infinity" => Ok("\"-Infinity\"\n") <= SAME
root [noblock] "infinity" => Ok("\"infinity\"\n") <= SAME
root [noblock] "0x1F" => Ok("\"0x1F\"\n") <= SAME
root [noblock] "-0x1f" => Ok("\"-0x1f\"\n") <= SAME
root [noblock] "0o17" => Ok("\"0o17\"\n") <= SAME
root [noblock] "0b101" => Ok("\"0b101\"\n") <= SAME
root [noblock] "0b102" => Ok("0b102\n") <= SAME
root [noblock] "1_000" => Ok("\"1_000\"\n") <= SAME
root [noblock] "1e9" => Ok("\"1e9\"\n") <= SAME
root [noblock] "1E+9" => Ok("\"1E+9\"\n") <= SAME
root [noblock] "1." => Ok("\"1.\"\n") <= SAME
root [noblock] ".5" => Ok("\".5\"\n") <= SAME
root [noblock] "+1.5e-3" => Ok("\"+1.5e-3\"\n") <= SAME
root [noblock] "1.5e" => Ok("1.5e\n") <= SAME
root [noblock] "12345678901234567890123456789" => Ok("\"12345678901234567890123456789\"\n") <= SAME
root [noblock] "-" => Ok("'-'\n") <= SAME
root [noblock] "?" => Ok("\"?\"\n") <= SAME
root [noblock] "+" => Ok("+\n") <= SAME
root [noblock] "." => Ok("'.'\n") <= SAME
root [noblock] "#" => Ok("'#'\n") <= SAME
root [noblock] "- a" => Ok("\"- a\"\n") <= SAME
root [noblock] "-a" => Ok("-a\n") <= SAME
root [noblock] "-\ta" => Ok("\"-\\ta\"\n") <= SAME
root [noblock] "?x" => Ok("?x\n") <= SAME
root [noblock] "? x" => Ok("\"? x\"\n") <= SAME
root [noblock] ",a" => Ok("\",a\"\n") <= SAME
root [noblock] ":a" => Ok("\":a\"\n") <= SAME
root [noblock] "[a" => Ok("\"[a\"\n") <= SAME
root [noblock] "]a" => Ok("\"]a\"\n") <= SAME
root [noblock] "{a" => Ok("\"{a\"\n") <= SAME
root [noblock] "}a" => Ok("\"}a\"\n") <= SAME
root [noblock] "%a" => Ok("\"%a\"\n") <= SAME
root [noblock] "@a" => Ok("\"@a\"\n") <= SAME
root [noblock] "`a" => Ok("\"`a\"\n") <= SAME
root [noblock] "!a" => Ok("\"!a\"\n") <= SAME
root [noblock] "&a" => Ok("\"&a\"\n") <= SAME
root [noblock] "*a" => Ok("\"*a\"\n") <= SAME
root [noblock] "|a" => Ok("\"|a\"\n") <= SAME
root [noblock] ">a" => Ok("\">a\"\n") <= SAME
root [noblock] "'a" => Ok("\"'a\"\n") <= SAME
root [noblock] "\"a" => Ok("\"\\\"a\"\n") <= SAME
root [noblock] "a: b" => Ok("\"a: b\"\n") <= SAME
root [noblock] "a:b" => Ok("a:b\n") <= SAME
root [noblock] "a:" => Ok("\"a:\"\n") <= SAME
root [noblock] "a: " => Ok("\"a: \"\n") <= SAME
root [noblock] "a #b" => Ok("\"a #b\"\n") <= SAME
root [noblock] "a#b" => Ok("\"a#b\"\n") <= SAME
root [noblock] "a,b" => Ok("a,b\n") <= SAME
root [noblock] "a]b" => Ok("a]b\n") <= SAME
root [noblock] "a{b}" => Ok("a{b}\n") <= SAME
root [noblock] " lead" => Ok("\" lead\"\n") <= SAME
root [noblock] "trail " => Ok("\"trail \"\n") <= SAME
root [noblock] "\u{a0}nbsp" => Ok("\"\u{a0}nbsp\"\n") <= SAME
root [noblock] "em\u{2003}" => Ok("\"em\u{2003}\"\n") <= SAME
root [noblock] "\u{feff}bom" => Ok("\"\\uFEFFbom\"\n") <= SAME
root [noblock] "mid\u{feff}bom" => Ok("mid\u{feff}bom\n") <= SAME
root [noblock] "tab\there" => Ok("\"tab\\there\"\n") <= SAME
root [noblock] "new\nline" => Ok("\"new\\nline\"\n") <= SAME
root [noblock] "line\n" => Ok("\"line\\n\"\n") <= SAME
root [noblock] "line\n\n" => Ok("\"line\\n\\n\"\n") <= SAME
root [noblock] "\n" => Ok("\"\\n\"\n") <= SAME
root [noblock] "\n\n" => Ok("\"\\n\\n\"\n") <= SAME
root [noblock] "\n\n\n" => Ok("\"\\n\\n\\n\"\n") <= SAME
root [noblock] "\nlead" => Ok("\"\\nlead\"\n") <= SAME
root [noblock] "a\n\n\nb\n\n\n" => Ok("\"a\\n\\n\\nb\\n\\n\\n\"\n") <= SAME
root [noblock] "  indented\nline" => Ok("\"  indented\\nline\"\n") <= SAME
root [noblock] "\n  indented after blank\n" => Ok("\"\\n  indented after blank\\n\"\n") <= SAME
root [noblock] "a\n  b\n" => Ok("\"a\\n  b\\n\"\n") <= SAME
root [noblock] "key: v\nnext" => Ok("\"key: v\\nnext\"\n") <= SAME
root [noblock] "ends with colon:\nx:" => Ok("\"ends with colon:\\nx:\"\n") <= SAME
root [noblock] "# not comment\nline" => Ok("\"# not comment\\nline\"\n") <= SAME
root [noblock] "trailing space \nline" => Ok("\"trailing space \\nline\"\n") <= SAME
root [noblock] "cr\rhere" => Ok("\"cr\\rhere\"\n") <= SAME
root [noblock] "crlf\r\nhere" => Ok("\"crlf\\r\\nhere\"\n") <= SAME
root [noblock] "\0" => Ok("\"\\0\"\n") <= SAME
root [noblock] "\u{7}" => Ok("\"\\a\"\n") <= SAME
root [noblock] "\u{8}" => Ok("\"\\b\"\n") <= SAME
root [noblock] "\u{b}" => Ok("\"\\v\"\n") <= SAME
root [noblock] "\u{c}" => Ok("\"\\f\"\n") <= SAME
root [noblock] "\u{1b}" => Ok("\"\\e\"\n") <= SAME
root [noblock] "\u{1}" => Ok("\"\\x01\"\n") <= SAME
root [noblock] "\u{1f}" => Ok("\"\\x1F\"\n") <= SAME
root [noblock] "\u{7f}" => Ok("\"\\x7F\"\n") <= SAME
root [noblock] "\u{80}" => Ok("\"\\x80\"\n") <= SAME
root [noblock] "\u{85}" => Ok("\"\\N\"\n") <= SAME
root [noblock] "\u{9f}" => Ok("\"\\x9F\"\n") <= SAME
root [noblock] "\u{2028}" => Ok("\"\\L\"\n") <= SAME
root [noblock] "\u{2029}" => Ok("\"\\P\"\n") <= SAME
root [noblock] "a\u{2028}b" => Ok("a\u{2028}b\n") <= SAME
root [noblock] "it's" => Ok("it's\n") <= SAME
root [noblock] "'" => Ok("\"'\"\n") <= SAME
root [noblock] "''" => Ok("\"''\"\n") <= SAME
root [noblock] "say \"hi\"" => Ok("say \"hi\"\n") <= SAME
root [noblock] "back\\slash" => Ok("back\\slash\n") <= SAME
root [noblock] "\\" => Ok("\\\n") <= SAME
root [noblock] "é" => Ok("é\n") <= SAME
root [noblock] "日本語" => Ok("日本語\n") <= SAME
root [noblock] "😀" => Ok("😀\n") <= SAME
root [noblock] "1.0.0" => Ok("1.0.0\n") <= SAME
root [noblock] "12:30" => Ok("12:30\n") <= SAME
root [noblock] "2001-12-14" => Ok("2001-12-14\n") <= SAME
root [noblock] "a b" => Ok("a b\n") <= SAME
root [noblock] "word word word word word word word word word word word word word word word word word word word word word word word word word word word word word word" => Ok("word word word word word word word word word word word word word word word word word word word word word word word word word word word word word word\n") <= SAME
root [noblock] "word word word word word word word word word word word word word word word word word word word word word word word word word word word word word word " => Ok("\"word word word word word word word word word word word word word word word word word word word word word word word word word word word word word word \"\n") <= SAME
root [noblock] "word word word word word word word word word word word word word word word word word word word word word word word word word word word word word word\n" => Ok("\"word word word word word word word word word word word word word word word word word word word word word word word word word word word word word word\\n\"\n") <= SAME
root [noblock] "word word word word word word word word word word word word word word word word word word word word word word word word word word word word word word\n\n" => Ok("\"word word word word word word word word word word word word word word word word word word word word word word word word word word word word word word\\n\\n\"\n") <= SAME
root [noblock] "xxxxxxxxxxxxxxxxxxxxxxxxxxxxxxxxxxxxxxxxxxxxxxxxxxxxxxxxxxxxxxxxxxxxxxxxxxxxxxxxxxxxxxxxxxxxxxxxxxxxxxxxxxxxxxxxxxxxxxxx" => Ok("xxxxxxxxxxxxxxxxxxxxxxxxxxxxxxxxxxxxxxxxxxxxxxxxxxxxxxxxxxxxxxxxxxxxxxxxxxxxxxxxxxxxxxxxxxxxxxxxxxxxxxxxxxxxxxxxxxxxxxxx\n") <= SAME
root [noblock] "aaaaaaaaaaaaaaaaaaaaaaaaaaaaaaaaaaaaaaaaaaaaaaaaaa   bbbbbbbbbbbbbbbbbbbbbbbbbbbbbbbbbbbbbbbbbbbbbbbbbb  cccccccccccccccccccccccccccccccccccccccccccccccccc" => Ok("aaaaaaaaaaaaaaaaaaaaaaaaaaaaaaaaaaaaaaaaaaaaaaaaaa   bbbbbbbbbbbbbbbbbbbbbbbbbbbbbbbbbbbbbbbbbbbbbbbbbb  cccccccccccccccccccccccccccccccccccccccccccccccccc\n") <= SAME
root [noblock] "aaaaaaaaaaaaaaaaaaaaaaaaaaaaaaaaaaaaaaaaaaaaaaaaaa\tbbbbbbbbbbbbbbbbbbbbbbbbbbbbbbbbbbbbbbbbbbbbbbbbbb\tcccccccccccccccccccccccccccccccccccccccccccccccccc" => Ok("\"aaaaaaaaaaaaaaaaaaaaaaaaaaaaaaaaaaaaaaaaaaaaaaaaaa\\tbbbbbbbbbbbbbbbbbbbbbbbbbbbbbbbbbbbbbbbbbbbbbbbbbb\\tcccccccccccccccccccccccccccccccccccccccccccccccccc\"\n") <= SAME
root [noblock] "aaaaaaaaaaaaaaaaaaaaaaaaaaaaaaaaaaaaaaaaaaaaaaaaaa # bbbbbbbbbbbbbbbbbbbbbbbbbbbbbbbbbbbbbbbbbbbbbbbbbb" => Ok("\"aaaaaaaaaaaaaaaaaaaaaaaaaaaaaaaaaaaaaaaaaaaaaaaaaa # bbbbbbbbbbbbbbbbbbbbbbbbbbbbbbbbbbbbbbbbbbbbbbbbbb\"\n") <= SAME
root [noblock] "aaaaaaaaaaaaaaaaaaaaaaaaaaaaaaaaaaaaaaaaaaaaaaaaaa: bbbbbbbbbbbbbbbbbbbbbbbbbbbbbbbbbbbbbbbbbbbbbbbbbb" => Ok("\"aaaaaaaaaaaaaaaaaaaaaaaaaaaaaaaaaaaaaaaaaaaaaaaaaa: bbbbbbbbbbbbbbbbbbbbbbbbbbbbbbbbbbbbbbbbbbbbbbbbbb\"\n") <= SAME
root [noblock] "- lorem ipsum lorem ipsum lorem ipsum lorem ipsum lorem ipsum lorem ipsum lorem ipsum lorem ipsum lorem ipsum lorem ipsum " => Ok("\"- lorem ipsum lorem ipsum lorem ipsum lorem ipsum lorem ipsum lorem ipsum lorem ipsum lorem ipsum lorem ipsum lorem ipsum \"\n") <= SAME
root [noblock] "日本語 テキスト 日本語 テキスト 日本語 テキスト 日本語 テキスト 日本語 テキスト 日本語 テキスト 日本語 テキスト 日本語 テキスト 日本語 テキスト 日本語 テキスト 日本語 テキスト 日本語 テキスト 日本語 テキスト 日本語 テキスト 日本語 テキスト " => Ok("\"日本語 テキスト 日本語 テキスト 日本語 テキスト 日本語 テキスト 日本語 テキスト 日本語 テキスト 日本語 テキスト 日本語 テキスト 日本語 テキスト 日本語 テキスト 日本語 テキスト 日本語 テキスト 日本語 テキスト 日本語 テキスト 日本語 テキスト \"\n") <= SAME
root [noblock] "ab ab ab ab ab ab ab ab ab ab ab ab ab ab ab ab ab ab ab ab \u{85}cd cd cd cd cd cd cd cd cd cd cd cd cd cd cd cd cd cd cd cd " => Ok("\"ab ab ab ab ab ab ab ab ab ab ab ab ab ab ab ab ab ab ab ab \\Ncd cd cd cd cd cd cd cd cd cd cd cd cd cd cd cd cd cd cd cd \"\n") <= SAME
root [noblock] "ab ab ab ab ab ab ab ab ab ab ab ab ab ab ab ab ab ab ab ab \rcd cd cd cd cd cd cd cd cd cd cd cd cd cd cd cd cd cd cd cd " => Ok("\"ab ab ab ab ab ab ab ab ab ab ab ab ab ab ab ab ab ab ab ab \\rcd cd cd cd cd cd cd cd cd cd cd cd cd cd cd cd cd cd cd cd \"\n") <= SAME
root [noblock] "lorem ipsum lorem ipsum lorem ipsum lorem ipsum lorem ipsum lorem ipsum \ndolor sit dolor sit dolor sit dolor sit dolor sit dolor sit " => Ok("\"lorem ipsum lorem ipsum lorem ipsum lorem ipsum lorem ipsum lorem ipsum \\ndolor sit dolor sit dolor sit dolor sit dolor sit dolor sit \"\n") <= SAME
root [noblock] "  lorem ipsum lorem ipsum lorem ipsum lorem ipsum lorem ipsum lorem ipsum \ndolor: sit dolor: sit dolor: sit dolor: sit dolor: sit dolor: sit \n\n" => Ok("\"  lorem ipsum lorem ipsum lorem ipsum lorem ipsum lorem ipsum lorem ipsum \\ndolor: sit dolor: sit dolor: sit dolor: sit dolor: sit dolor: sit \\n\\n\"\n") <= SAME
root [noblock] "lorem ipsum lorem ipsum lorem ipsum lorem ipsum lorem ipsum lorem ipsum :\ndolor sit dolor sit dolor sit dolor sit dolor sit dolor sit :" => Ok("\"lorem ipsum lorem ipsum lorem ipsum lorem ipsum lorem ipsum lorem ipsum :\\ndolor sit dolor sit dolor sit dolor sit dolor sit dolor sit :\"\n") <= SAME
seq [noblock] ["", "~", "null", "NULL", "Null", "true", "False", "TRUE", "yes", "y", "No", "on", "OFF", "<<", "---", "--- a", "---a", "...", "... x", ".nan", ".NaN", "-.INF", "+.inf", ".inf", "+-.inf", ".infx", "nan", "NaN", "+inf", "-Infinity", "infinity", "0x1F", "-0x1f", "0o17", "0b101", "0b102", "1_000", "1e9", "1E+9", "1.", ".5", "+1.5e-3", "1.5e", "12345678901234567890123456789", "-", "?", "+", ".", "#", "- a", "-a", "-\ta", "?x", "? x", ",a", ":a", "[a", "]a", "{a", "}a", "%a", "@a", "`a", "!a", "&a", "*a", "|a", ">a", "'a", "\"a", "a: b", "a:b", "a:", "a: ", "a #b", "a#b", "a,b", "a]b", "a{b}", " lead", "trail ", "\u{a0}nbsp", "em\u{2003}", "\u{feff}bom", "mid\u{feff}bom", "tab\there", "new\nline", "line\n", "line\n\n", "\n", "\n\n", "\n\n\n", "\nlead", "a\n\n\nb\n\n\n", "  indented\nline", "\n  indented after blank\n", "a\n  b\n", "key: v\nnext", "ends with colon:\nx:", "# not comment\nline", "trailing space \nline", "cr\rhere", "crlf\r\nhere", "\0", "\u{7}", "\u{8}", "\u{b}", "\u{c}", "\u{1b}", "\u{1}", "\u{1f}", "\u{7f}", "\u{80}", "\u{85}", "\u{9f}", "\u{2028}", "\u{2029}", "a\u{2028}b", "it's", "'", "''", "say \"hi\"", "back\\slash", "\\", "é", "日本語", "😀", "1.0.0", "12:30", "2001-12-14", "a b", "word word word word word word word word word word word word word word word word word word word word word word word word word word word word word word", "word word word word word word word word word word word word word word word word word word word word word word word word word word word word word word ", "word word word word word word word word word word word word word word word word word word word word word word word word word word word word word word\n", "word word word word word word word word word word word word word word word word word word word word word word word word word word word word word word\n\n", "xxxxxxxxxxxxxxxxxxxxxxxxxxxxxxxxxxxxxxxxxxxxxxxxxxxxxxxxxxxxxxxxxxxxxxxxxxxxxxxxxxxxxxxxxxxxxxxxxxxxxxxxxxxxxxxxxxxxxxxx", "aaaaaaaaaaaaaaaaaaaaaaaaaaaaaaaaaaaaaaaaaaaaaaaaaa   bbbbbbbbbbbbbbbbbbbbbbbbbbbbbbbbbbbbbbbbbbbbbbbbbb  cccccccccccccccccccccccccccccccccccccccccccccccccc", "aaaaaaaaaaaaaaaaaaaaaaaaaaaaaaaaaaaaaaaaaaaaaaaaaa\tbbbbbbbbbbbbbbbbbbbbbbbbbbbbbbbbbbbbbbbbbbbbbbbbbb\tcccccccccccccccccccccccccccccccccccccccccccccccccc", "aaaaaaaaaaaaaaaaaaaaaaaaaaaaaaaaaaaaaaaaaaaaaaaaaa # bbbbbbbbbbbbbbbbbbbbbbbbbbbbbbbbbbbbbbbbbbbbbbbbbb", "aaaaaaaaaaaaaaaaaaaaaaaaaaaaaaaaaaaaaaaaaaaaaaaaaa: bbbbbbbbbbbbbbbbbbbbbbbbbbbbbbbbbbbbbbbbbbbbbbbbbb", "- lorem ipsum lorem ipsum lorem ipsum lorem ipsum lorem ipsum lorem ipsum lorem ipsum lorem ipsum lorem ipsum lorem ipsum ", "日本語 テキスト 日本語 テキスト 日本語 テキスト 日本語 テキスト 日本語 テキスト 日本語 テキスト 日本語 テキスト 日本語 テキスト 日本語 テキスト 日本語 テキスト 日本語 テキスト 日本語 テキスト 日本語 テキスト 日本語 テキスト 日本語 テキスト ", "ab ab ab ab ab ab ab ab ab ab ab ab ab ab ab ab ab ab ab ab \u{85}cd cd cd cd cd cd cd cd cd cd cd cd cd cd cd cd cd cd cd cd ", "ab ab ab ab ab ab ab ab ab ab ab ab ab ab ab ab ab ab ab ab \rcd cd cd cd cd cd cd cd cd cd cd cd cd cd cd cd cd cd cd cd ", "lorem ipsum lorem ipsum lorem ipsum lorem ipsum lorem ipsum lorem ipsum \ndolor sit dolor sit dolor sit dolor sit dolor sit dolor sit ", "  lorem ipsum lorem ipsum lorem ipsum lorem ipsum lorem ipsum lorem ipsum \ndolor: sit dolor: sit dolor: sit dolor: sit dolor: sit dolor: sit \n\n", "lorem ipsum lorem ipsum lorem ipsum lorem ipsum lorem ipsum lorem ipsum :\ndolor sit dolor sit dolor sit dolor sit dolor sit dolor sit :"] => Ok("- \"\"\n- \"~\"\n- \"null\"\n- \"NULL\"\n- \"Null\"\n- \"true\"\n- \"False\"\n- \"TRUE\"\n- \"yes\"\n- \"y\"\n- \"No\"\n- \"on\"\n- \"OFF\"\n- \"<<\"\n- \"---\"\n- \"--- a\"\n- ---a\n- \"...\"\n- \"... x\"\n- \".nan\"\n- \".NaN\"\n- \"-.INF\"\n- \"+.inf\"\n- \".inf\"\n- +-.inf\n- .infx\n- \"nan\"\n- \"NaN\"\n- \"+inf\"\n- \"-Infinity\"\n- \"infinity\"\n- \"0x1F\"\n- \"-0x1f\"\n- \"0o17\"\n- \"0b101\"\n- 0b102\n- \"1_000\"\n- \"1e9\"\n- \"1E+9\"\n- \"1.\"\n- \".5\"\n- \"+1.5e-3\"\n- 1.5e\n- \"12345678901234567890123456789\"\n- '-'\n- \"?\"\n- +\n- '.'\n- '#'\n- \"- a\"\n- -a\n- \"-\\ta\"\n- ?x\n- \"? x\"\n- \",a\"\n- \":a\"\n- \"[a\"\n- \"]a\"\n- \"{a\"\n- \"}a\"\n- \"%a\"\n- \"@a\"\n- \"`a\"\n- \"!a\"\n- \"&a\"\n- \"*a\"\n- \"|a\"\n- \">a\"\n- \"'a\"\n- \"\\\"a\"\n- \"a: b\"\n- a:b\n- \"a:\"\n- \"a: \"\n- \"a #b\"\n- \"a#b\"\n- a,b\n- a]b\n- a{b}\n- \" lead\"\n- \"trail \"\n- \"\u{a0}nbsp\"\n- \"em\u{2003}\"\n- \"\\uFEFFbom\"\n- mid\u{feff}bom\n- \"tab\\there\"\n- \"new\\nline\"\n- \"line\\n\"\n- \"line\\n\\n\"\n- \"\\n\"\n- \"\\n\\n\"\n- \"\\n\\n\\n\"\n- \"\\nlead\"\n- \"a\\n\\n\\nb\\n\\n\\n\"\n- \"  indented\\nline\"\n- \"\\n  indented after blank\\n\"\n- \"a\\n  b\\n\"\n- \"key: v\\nnext\"\n- \"ends with colon:\\nx:\"\n- \"# not comment\\nline\"\n- \"trailing space \\nline\"\n- \"cr\\rhere\"\n- \"crlf\\r\\nhere\"\n- \"\\0\"\n- \"\\a\"\n- \"\\b\"\n- \"\\v\"\n- \"\\f\"\n- \"\\e\"\n- \"\\x01\"\n- \"\\x1F\"\n- \"\\x7F\"\n- \"\\x80\"\n- \"\\N\"\n- \"\\x9F\"\n- \"\\L\"\n- \"\\P\"\n- a\u{2028}b\n- it's\n- \"'\"\n- \"''\"\n- say \"hi\"\n- back\\slash\n- \\\n- é\n- 日本語\n- 😀\n- 1.0.0\n- 12:30\n- 2001-12-14\n- a b\n- word word word word word word word word word word word word word word word word word word word word word word word word word word word word word word\n- \"word word word word word word word word word word word word word word word word word word word word word word word word word word word word word word \"\n- \"word word word word word word word word word word word word word word word word word word word word word word word word word word word word word word\\n\"\n- \"word word word word word word word word word word word word word word word word word word word word word word word word word word word word word word\\n\\n\"\n- xxxxxxxxxxxxxxxxxxxxxxxxxxxxxxxxxxxxxxxxxxxxxxxxxxxxxxxxxxxxxxxxxxxxxxxxxxxxxxxxxxxxxxxxxxxxxxxxxxxxxxxxxxxxxxxxxxxxxxxx\n- aaaaaaaaaaaaaaaaaaaaaaaaaaaaaaaaaaaaaaaaaaaaaaaaaa   bbbbbbbbbbbbbbbbbbbbbbbbbbbbbbbbbbbbbbbbbbbbbbbbbb  cccccccccccccccccccccccccccccccccccccccccccccccccc\n- \"aaaaaaaaaaaaaaaaaaaaaaaaaaaaaaaaaaaaaaaaaaaaaaaaaa\\tbbbbbbbbbbbbbbbbbbbbbbbbbbbbbbbbbbbbbbbbbbbbbbbbbb\\tcccccccccccccccccccccccccccccccccccccccccccccccccc\"\n- \"aaaaaaaaaaaaaaaaaaaaaaaaaaaaaaaaaaaaaaaaaaaaaaaaaa # bbbbbbbbbbbbbbbbbbbbbbbbbbbbbbbbbbbbbbbbbbbbbbbbbb\"\n- \"aaaaaaaaaaaaaaaaaaaaaaaaaaaaaaaaaaaaaaaaaaaaaaaaaa: bbbbbbbbbbbbbbbbbbbbbbbbbbbbbbbbbbbbbbbbbbbbbbbbbb\"\n- \"- lorem ipsum lorem ipsum lorem ipsum lorem ipsum lorem ipsum lorem ipsum lorem ipsum lorem ipsum lorem ipsum lorem ipsum \"\n- \"日本語 テキスト 日本語 テキスト 日本語 テキスト 日本語 テキスト 日本語 テキスト 日本語 テキスト 日本語 テキスト 日本語 テキスト 日本語 テキスト 日本語 テキスト 日本語 テキスト 日本語 テキスト 日本語 テキスト 日本語 テキスト 日本語 テキスト \"\n- \"ab ab ab ab ab ab ab ab ab ab ab ab ab ab ab ab ab ab ab ab \\Ncd cd cd cd cd cd cd cd cd cd cd cd cd cd cd cd cd cd cd cd \"\n- \"ab ab ab ab ab ab ab ab ab ab ab ab ab ab ab ab ab ab ab ab \\rcd cd cd cd cd cd cd cd cd cd cd cd cd cd cd cd cd cd cd cd \"\n- \"lorem ipsum lorem ipsum lorem ipsum lorem ipsum lorem ipsum lorem ipsum \\ndolor sit dolor sit dolor sit dolor sit dolor sit dolor sit \"\n- \"  lorem ipsum lorem ipsum lorem ipsum lorem ipsum lorem ipsum lorem ipsum \\ndolor: sit dolor: sit dolor: sit dolor: sit dolor: sit dolor: sit \\n\\n\"\n- \"lorem ipsum lorem ipsum lorem ipsum lorem ipsum lorem ipsum lorem ipsum :\\ndolor sit dolor sit dolor sit dolor sit dolor sit dolor sit :\"\n") <= SAME
mapval [noblock] {"k00": "", "k01": "~", "k02": "null", "k03": "NULL", "k04": "Null", "k05": "true", "k06": "False", "k07": "TRUE", "k08": "yes", "k09": "y", "k10": "No", "k11": "on", "k12": "OFF", "k13": "<<", "k14": "---", "k15": "--- a"} => Ok("k00: \"\"\nk01: \"~\"\nk02: \"null\"\nk03: \"NULL\"\nk04: \"Null\"\nk05: \"true\"\nk06: \"False\"\nk07: \"TRUE\"\nk08: \"yes\"\nk09: \"y\"\nk10: \"No\"\nk11: \"on\"\nk12: \"OFF\"\nk13: \"<<\"\nk14: \"---\"\nk15: \"--- a\"\n") <= SAME
mapkey [noblock] {"": 0, "---": 14, "--- a": 15, "<<": 13, "False": 6, "NULL": 3, "No": 10, "Null": 4, "OFF": 12, "TRUE": 7, "null": 2, "on": 11, "true": 5, "y": 9, "yes": 8, "~": 1} => Ok("\"\": 0\n\"---\": 14\n\"--- a\": 15\n\"<<\": 13\n\"False\": 6\n\"NULL\": 3\n\"No\": 10\n\"Null\": 4\n\"OFF\": 12\n\"TRUE\": 7\n\"null\": 2\n\"on\": 11\n\"true\": 5\n\"y\": 9\n\"yes\": 8\n\"~\": 1\n") <= SAME
nested [noblock] {"outer": [{"k00": "", "k01": "~", "k02": "null", "k03": "NULL", "k04": "Null", "k05": "true", "k06": "False", "k07": "TRUE", "k08": "yes", "k09": "y", "k10": "No", "k11": "on", "k12": "OFF", "k13": "<<", "k14": "---", "k15": "--- a"}, {"k00": "", "k01": "~", "k02": "null", "k03": "NULL", "k04": "Null", "k05": "true", "k06": "False", "k07": "TRUE", "k08": "yes", "k09": "y", "k10": "No", "k11": "on", "k12": "OFF", "k13": "<<", "k14": "---", "k15": "--- a"}]} => Ok("outer:\n  - k00: \"\"\n    k01: \"~\"\n    k02: \"null\"\n    k03: \"NULL\"\n    k04: \"Null\"\n    k05: \"true\"\n    k06: \"False\"\n    k07: \"TRUE\"\n    k08: \"yes\"\n    k09: \"y\"\n    k10: \"No\"\n    k11: \"on\"\n    k12: \"OFF\"\n    k13: \"<<\"\n    k14: \"---\"\n    k15: \"--- a\"\n  - k00: \"\"\n    k01: \"~\"\n    k02: \"null\"\n    k03: \"NULL\"\n    k04: \"Null\"\n    k05: \"true\"\n    k06: \"False\"\n    k07: \"TRUE\"\n    k08: \"yes\"\n    k09: \"y\"\n    k10: \"No\"\n    k11: \"on\"\n    k12: \"OFF\"\n    k13: \"<<\"\n    k14: \"---\"\n    k15: \"--- a\"\n") <= SAME
mapval [noblock] {"k00": "---a", "k01": "...", "k02": "... x", "k03": ".nan", "k04": ".NaN", "k05": "-.INF", "k06": "+.inf", "k07": ".inf", "k08": "+-.inf", "k09": ".infx", "k10": "nan", "k11": "NaN", "k12": "+inf", "k13": "-Infinity", "k14": "infinity", "k15": "0x1F"} => Ok("k00: ---a\nk01: \"...\"\nk02: \"... x\"\nk03: \".nan\"\nk04: \".NaN\"\nk05: \"-.INF\"\nk06: \"+.inf\"\nk07: \".inf\"\nk08: +-.inf\nk09: .infx\nk10: \"nan\"\nk11: \"NaN\"\nk12: \"+inf\"\nk13: \"-Infinity\"\nk14: \"infinity\"\nk15: \"0x1F\"\n") <= SAME
mapkey [noblock] {"+-.inf": 8, "+.inf": 6, "+inf": 12, "---a": 0, "-.INF": 5, "-Infinity": 13, "...": 1, "... x": 2, ".NaN": 4, ".inf": 7, ".infx": 9, ".nan": 3, "0x1F": 15, "NaN": 11, "infinity": 14, "nan": 10} => Ok("+-.inf: 8\n\"+.inf\": 6\n\"+inf\": 12\n---a: 0\n\"-.INF\": 5\n\"-Infinity\": 13\n\"...\": 1\n\"... x\": 2\n\".NaN\": 4\n\".inf\": 7\n.infx: 9\n\".nan\": 3\n\"0x1F\": 15\n\"NaN\": 11\n\"infinity\": 14\n\"nan\": 10\n") <= SAME
nested [noblock] {"outer": [{"k00": "---a", "k01": "...", "k02": "... x", "k03": ".nan", "k04": ".NaN", "k05": "-.INF", "k06": "+.inf", "k07": ".inf", "k08": "+-.inf", "k09": ".infx", "k10": "nan", "k11": "NaN", "k12": "+inf", "k13": "-Infinity", "k14": "infinity", "k15": "0x1F"}, {"k00": "---a", "k01": "...", "k02": "... x", "k03": ".nan", "k04": ".NaN", "k05": "-.INF", "k06": "+.inf", "k07": ".inf", "k08": "+-.inf", "k09": ".infx", "k10": "nan", "k11": "NaN", "k12": "+inf", "k13": "-Infinity", "k14": "infinity", "k15": "0x1F"}]} => Ok("outer:\n  - k00: ---a\n    k01: \"...\"\n    k02: \"... x\"\n    k03: \".nan\"\n    k04: \".NaN\"\n    k05: \"-.INF\"\n    k06: \"+.inf\"\n    k07: \".inf\"\n    k08: +-.inf\n    k09: .infx\n    k10: \"nan\"\n    k11: \"NaN\"\n    k12: \"+inf\"\n    k13: \"-Infinity\"\n    k14: \"infinity\"\n    k15: \"0x1F\"\n  - k00: ---a\n    k01: \"...\"\n    k02: \"... x\"\n    k03: \".nan\"\n    k04: \".NaN\"\n    k05: \"-.INF\"\n    k06: \"+.inf\"\n    k07: \".inf\"\n    k08: +-.inf\n    k09: .infx\n    k10: \"nan\"\n    k11: \"NaN\"\n    k12: \"+inf\"\n    k13: \"-Infinity\"\n    k14: \"infinity\"\n    k15: \"0x1F\"\n") <= SAME
mapval [noblock] {"k00": "-0x1f", "k01": "0o17", "k02": "0b101", "k03": "0b102", "k04": "1_000", "k05": "1e9", "k06": "1E+9", "k07": "1.", "k08": ".5", "k09": "+1.5e-3", "k10": "1.5e", "k11": "12345678901234567890123456789", "k12": "-", "k13": "?", "k14": "+", "k15": "."} => Ok("k00: \"-0x1f\"\nk01: \"0o17\"\nk02: \"0b101\"\nk03: 0b102\nk04: \"1_000\"\nk05: \"1e9\"\nk06: \"1E+9\"\nk07: \"1.\"\nk08: \".5\"\nk09: \"+1.5e-3\"\nk10: 1.5e\nk11: \"12345678901234567890123456789\"\nk12: '-'\nk13: \"?\"\nk14: +\nk15: '.'\n") <= SAME
mapkey [noblock] {"+": 14, "+1.5e-3": 9, "-": 12, "-0x1f": 0, ".": 15, ".5": 8, "0b101": 2, "0b102": 3, "0o17": 1, "1.": 7, "1.5e": 10, "12345678901234567890123456789": 11, "1E+9": 6, "1_000": 4, "1e9": 5, "?": 13} => Ok("+: 14\n\"+1.5e-3\": 9\n\"-\": 12\n\"-0x1f\": 0\n.: 15\n\".5\": 8\n\"0b101\": 2\n0b102: 3\n\"0o17\": 1\n\"1.\": 7\n1.5e: 10\n\"12345678901234567890123456789\": 11\n\"1E+9\": 6\n\"1_000\": 4\n\"1e9\": 5\n\"?\": 13\n") <= SAME
nested [noblock] {"outer": [{"k00": "-0x1f", "k01": "0o17", "k02": "0b101", "k03": "0b102", "k04": "1_000", "k05": "1e9", "k06": "1E+9", "k07": "1.", "k08": ".5", "k09": "+1.5e-3", "k10": "1.5e", "k11": "12345678901234567890123456789", "k12": "-", "k13": "?", "k14": "+", "k15": "."}, {"k00": "-0x1f", "k01": "0o17", "k02": "0b101", "k03": "0b102", "k04": "1_000", "k05": "1e9", "k06": "1E+9", "k07": "1.", "k08": ".5", "k09": "+1.5e-3", "k10": "1.5e", "k11": "12345678901234567890123456789", "k12": "-", "k13": "?", "k14": "+", "k15": "."}]} => Ok("outer:\n  - k00: \"-0x1f\"\n    k01: \"0o17\"\n    k02: \"0b101\"\n    k03: 0b102\n    k04: \"1_000\"\n    k05: \"1e9\"\n    k06: \"1E+9\"\n    k07: \"1.\"\n    k08: \".5\"\n    k09: \"+1.5e-3\"\n    k10: 1.5e\n    k11: \"12345678901234567890123456789\"\n    k12: '-'\n    k13: \"?\"\n    k14: +\n    k15: '.'\n  - k00: \"-0x1f\"\n    k01: \"0o17\"\n    k02: \"0b101\"\n    k03: 0b102\n    k04: \"1_000\"\n    k05: \"1e9\"\n    k06: \"1E+9\"\n    k07: \"1.\"\n    k08: \".5\"\n    k09: \"+1.5e-3\"\n    k10: 1.5e\n    k11: \"12345678901234567890123456789\"\n    k12: '-'\n    k13: \"?\"\n    k14: +\n    k15: '.'\n") <= SAME
mapval [noblock] {"k00": "#", "k01": "- a", "k02": "-a", "k03": "-\ta", "k04": "?x", "k05": "? x", "k06": ",a", "k07": ":a", "k08": "[a", "k09": "]a", "k10": "{a", "k11": "}a", "k12": "%a", "k13": "@a", "k14": "`a", "k15": "!a"} => Ok("k00: '#'\nk01: \"- a\"\nk02: -a\nk03: \"-\\ta\"\nk04: ?x\nk05: \"? x\"\nk06: \",a\"\nk07: \":a\"\nk08: \"[a\"\nk09: \"]a\"\nk10: \"{a\"\nk11: \"}a\"\nk12: \"%a\"\nk13: \"@a\"\nk14: \"`a\"\nk15: \"!a\"\n") <= SAME
mapkey [noblock] {"!a": 15, "#": 0, "%a": 12, ",a": 6, "-\ta": 3, "- a": 1, "-a": 2, ":a": 7, "? x": 5, "?x": 4, "@a": 13, "[a": 8, "]a": 9, "`a": 14, "{a": 10, "}a": 11} => Ok("\"!a\": 15\n\"#\": 0\n\"%a\": 12\n\",a\": 6\n\"-\\ta\": 3\n\"- a\": 1\n-a: 2\n\":a\": 7\n\"? x\": 5\n?x: 4\n\"@a\": 13\n\"[a\": 8\n\"]a\": 9\n\"`a\": 14\n\"{a\": 10\n\"}a\": 11\n") <= SAME
nested [noblock] {"outer": [{"k00": "#", "k01": "- a", "k02": "-a", "k03": "-\ta", "k04": "?x", "k05": "? x", "k06": ",a", "k07": ":a", "k08": "[a", "k09": "]a", "k10": "{a", "k11": "}a", "k12": "%a", "k13": "@a", "k14": "`a", "k15": "!a"}, {"k00": "#", "k01": "- a", "k02": "-a", "k03": "-\ta", "k04": "?x", "k05": "? x", "k06": ",a", "k07": ":a", "k08": "[a", "k09": "]a", "k10": "{a", "k11": "}a", "k12": "%a", "k13": "@a", "k14": "`a", "k15": "!a"}]} => Ok("outer:\n  - k00: '#'\n    k01: \"- a\"\n    k02: -a\n    k03: \"-\\ta\"\n    k04: ?x\n    k05: \"? x\"\n    k06: \",a\"\n    k07: \":a\"\n    k08: \"[a\"\n    k09: \"]a\"\n    k10: \"{a\"\n    k11: \"}a\"\n    k12: \"%a\"\n    k13: \"@a\"\n    k14: \"`a\"\n    k15: \"!a\"\n  - k00: '#'\n    k01: \"- a\"\n    k02: -a\n    k03: \"-\\ta\"\n    k04: ?x\n    k05: \"? x\"\n    k06: \",a\"\n    k07: \":a\"\n    k08: \"[a\"\n    k09: \"]a\"\n    k10: \"{a\"\n    k11: \"}a\"\n    k12: \"%a\"\n    k13: \"@a\"\n    k14: \"`a\"\n    k15: \"!a\"\n") <= SAME
mapval [noblock] {"k00": "&a", "k01": "*a", "k02": "|a", "k03": ">a", "k04": "'a", "k05": "\"a", "k06": "a: b", "k07": "a:b", "k08": "a:", "k09": "a: ", "k10": "a #b", "k11": "a#b", "k12": "a,b", "k13": "a]b", "k14": "a{b}", "k15": " lead"} => Ok("k00: \"&a\"\nk01: \"*a\"\nk02: \"|a\"\nk03: \">a\"\nk04: \"'a\"\nk05: \"\\\"a\"\nk06: \"a: b\"\nk07: a:b\nk08: \"a:\"\nk09: \"a: \"\nk10: \"a #b\"\nk11: \"a#b\"\nk12: a,b\nk13: a]b\nk14: a{b}\nk15: \" lead\"\n") <= SAME
mapkey [noblock] {" lead": 15, "\"a": 5, "&a": 0, "'a": 4, "*a": 1, ">a": 3, "a #b": 10, "a#b": 11, "a,b": 12, "a:": 8, "a: ": 9, "a: b": 6, "a:b": 7, "a]b": 13, "a{b}": 14, "|a": 2} => Ok("\" lead\": 15\n\"\\\"a\": 5\n\"&a\": 0\n\"'a\": 4\n\"*a\": 1\n\">a\": 3\n\"a #b\": 10\n\"a#b\": 11\n\"a,b\": 12\n\"a:\": 8\n\"a: \": 9\n\"a: b\": 6\n\"a:b\": 7\n\"a]b\": 13\n\"a{b}\": 14\n\"|a\": 2\n") <= SAME
nested [noblock] {"outer": [{"k00": "&a", "k01": "*a", "k02": "|a", "k03": ">a", "k04": "'a", "k05": "\"a", "k06": "a: b", "k07": "a:b", "k08": "a:", "k09": "a: ", "k10": "a #b", "k11": "a#b", "k12": "a,b", "k13": "a]b", "k14": "a{b}", "k15": " lead"}, {"k00": "&a", "k01": "*a", "k02": "|a", "k03": ">a", "k04": "'a", "k05": "\"a", "k06": "a: b", "k07": "a:b", "k08": "a:", "k09": "a: ", "k10": "a #b", "k11": "a#b", "k12": "a,b", "k13": "a]b", "k14": "a{b}", "k15": " lead"}]} => Ok("outer:\n  - k00: \"&a\"\n    k01: \"*a\"\n    k02: \"|a\"\n    k03: \">a\"\n    k04: \"'a\"\n    k05: \"\\\"a\"\n    k06: \"a: b\"\n    k07: a:b\n    k08: \"a:\"\n    k09: \"a: \"\n    k10: \"a #b\"\n    k11: \"a#b\"\n    k12: a,b\n    k13: a]b\n    k14: a{b}\n    k15: \" lead\"\n  - k00: \"&a\"\n    k01: \"*a\"\n    k02: \"|a\"\n    k03: \">a\"\n    k04: \"'a\"\n    k05: \"\\\"a\"\n    k06: \"a: b\"\n    k07: a:b\n    k08: \"a:\"\n    k09: \"a: \"\n    k10: \"a #b\"\n    k11: \"a#b\"\n    k12: a,b\n    k13: a]b\n    k14: a{b}\n    k15: \" lead\"\n") <= SAME
mapval [noblock] {"k00": "trail ", "k01": "\u{a0}nbsp", "k02": "em\u{2003}", "k03": "\u{feff}bom", "k04": "mid\u{feff}bom", "k05": "tab\there", "k06": "new\nline", "k07": "line\n", "k08": "line\n\n", "k09": "\n", "k10": "\n\n", "k11": "\n\n\n", "k12": "\nlead", "k13": "a\n\n\nb\n\n\n", "k14": "  indented\nline", "k15": "\n  indented after blank\n"} => Ok("k00: \"trail \"\nk01: \"\u{a0}nbsp\"\nk02: \"em\u{2003}\"\nk03: \"\\uFEFFbom\"\nk04: mid\u{feff}bom\nk05: \"tab\\there\"\nk06: \"new\\nline\"\nk07: \"line\\n\"\nk08: \"line\\n\\n\"\nk09: \"\\n\"\nk10: \"\\n\\n\"\nk11: \"\\n\\n\\n\"\nk12: \"\\nlead\"\nk13: \"a\\n\\n\\nb\\n\\n\\n\"\nk14: \"  indented\\nline\"\nk15: \"\\n  indented after blank\\n\"\n") <= SAME
mapkey [noblock] {"\n": 9, "\n\n": 10, "\n\n\n": 11, "\n  indented after blank\n": 15, "\nlead": 12, "  indented\nline": 14, "a\n\n\nb\n\n\n": 13, "em\u{2003}": 2, "line\n": 7, "line\n\n": 8, "mid\u{feff}bom": 4, "new\nline": 6, "tab\there": 5, "trail ": 0, "\u{a0}nbsp": 1, "\u{feff}bom": 3} => Ok("\"\\n\": 9\n\"\\n\\n\": 10\n\"\\n\\n\\n\": 11\n\"\\n  indented after blank\\n\": 15\n\"\\nlead\": 12\n\"  indented\\nline\": 14\n\"a\\n\\n\\nb\\n\\n\\n\": 13\n\"em\u{2003}\": 2\n\"line\\n\": 7\n\"line\\n\\n\": 8\nmid\u{feff}bom: 4\n\"new\\nline\": 6\n\"tab\\there\": 5\n\"trail \": 0\n\"\u{a0}nbsp\": 1\n\"\u{feff}bom\": 3\n") <= SAME
nested [noblock] {"outer": [{"k00": "trail ", "k01": "\u{a0}nbsp", "k02": "em\u{2003}", "k03": "\u{feff}bom", "k04": "mid\u{feff}bom", "k05": "tab\there", "k06": "new\nline", "k07": "line\n", "k08": "line\n\n", "k09": "\n", "k10": "\n\n", "k11": "\n\n\n", "k12": "\nlead", "k13": "a\n\n\nb\n\n\n", "k14": "  indented\nline", "k15": "\n  indented after blank\n"}, {"k00": "trail ", "k01": "\u{a0}nbsp", "k02": "em\u{2003}", "k03": "\u{feff}bom", "k04": "mid\u{feff}bom", "k05": "tab\there", "k06": "new\nline", "k07": "line\n", "k08": "line\n\n", "k09": "\n", "k10": "\n\n", "k11": "\n\n\n", "k12": "\nlead", "k13": "a\n\n\nb\n\n\n", "k14": "  indented\nline", "k15": "\n  indented after blank\n"}]} => Ok("outer:\n  - k00: \"trail \"\n    k01: \"\u{a0}nbsp\"\n    k02: \"em\u{2003}\"\n    k03: \"\\uFEFFbom\"\n    k04: mid\u{feff}bom\n    k05: \"tab\\there\"\n    k06: \"new\\nline\"\n    k07: \"line\\n\"\n    k08: \"line\\n\\n\"\n    k09: \"\\n\"\n    k10: \"\\n\\n\"\n    k11: \"\\n\\n\\n\"\n    k12: \"\\nlead\"\n    k13: \"a\\n\\n\\nb\\n\\n\\n\"\n    k14: \"  indented\\nline\"\n    k15: \"\\n  indented after blank\\n\"\n  - k00: \"trail \"\n    k01: \"\u{a0}nbsp\"\n    k02: \"em\u{2003}\"\n    k03: \"\\uFEFFbom\"\n    k04: mid\u{feff}bom\n    k05: \"tab\\there\"\n    k06: \"new\\nline\"\n    k07: \"line\\n\"\n    k08: \"line\\n\\n\"\n    k09: \"\\n\"\n    k10: \"\\n\\n\"\n    k11: \"\\n\\n\\n\"\n    k12: \"\\nlead\"\n    k13: \"a\\n\\n\\nb\\n\\n\\n\"\n    k14: \"  indented\\nline\"\n    k15: \"\\n  indented after blank\\n\"\n") <= SAME
mapval [noblock] {"k00": "a\n  b\n", "k01": "key: v\nnext", "k02": "ends with colon:\nx:", "k03": "# not comment\nline", "k04": "trailing space \nline", "k05": "cr\rhere", "k06": "crlf\r\nhere", "k07": "\0", "k08": "\u{7}", "k09": "\u{8}", "k10": "\u{b}", "k11": "\u{c}", "k12": "\u{1b}", "k13": "\u{1}", "k14": "\u{1f}", "k15": "\u{7f}"} => Ok("k00: \"a\\n  b\\n\"\nk01: \"key: v\\nnext\"\nk02: \"ends with colon:\\nx:\"\nk03: \"# not comment\\nline\"\nk04: \"trailing space \\nline\"\nk05: \"cr\\rhere\"\nk06: \"crlf\\r\\nhere\"\nk07: \"\\0\"\nk08: \"\\a\"\nk09: \"\\b\"\nk10: \"\\v\"\nk11: \"\\f\"\nk12: \"\\e\"\nk13: \"\\x01\"\nk14: \"\\x1F\"\nk15: \"\\x7F\"\n") <= SAME
mapkey [noblock] {"\0": 7, "\u{1}": 13, "\u{7}": 8, "\u{8}": 9, "\u{b}": 10, "\u{c}": 11, "\u{1b}": 12, "\u{1f}": 14, "# not comment\nline": 3, "a\n  b\n": 0, "cr\rhere": 5, "crlf\r\nhere": 6, "ends with colon:\nx:": 2, "key: v\nnext": 1, "trailing space \nline": 4, "\u{7f}": 15} => Ok("\"\\u0000\": 7\n\"\\u0001\": 13\n\"\\u0007\": 8\n\"\\u0008\": 9\n\"\\u000B\": 10\n\"\\u000C\": 11\n\"\\u001B\": 12\n\"\\u001F\": 14\n\"# not comment\\nline\": 3\n\"a\\n  b\\n\": 0\n\"cr\\rhere\": 5\n\"crlf\\r\\nhere\": 6\n\"ends with colon:\\nx:\": 2\n\"key: v\\nnext\": 1\n\"trailing space \\nline\": 4\n\"\\u007F\": 15\n") <= SAME
nested [noblock] {"outer": [{"k00": "a\n  b\n", "k01": "key: v\nnext", "k02": "ends with colon:\nx:", "k03": "# not comment\nline", "k04": "trailing space \nline", "k05": "cr\rhere", "k06": "crlf\r\nhere", "k07": "\0", "k08": "\u{7}", "k09": "\u{8}", "k10": "\u{b}", "k11": "\u{c}", "k12": "\u{1b}", "k13": "\u{1}", "k14": "\u{1f}", "k15": "\u{7f}"}, {"k00": "a\n  b\n", "k01": "key: v\nnext", "k02": "ends with colon:\nx:", "k03": "# not comment\nline", "k04": "trailing space \nline", "k05": "cr\rhere", "k06": "crlf\r\nhere", "k07": "\0", "k08": "\u{7}", "k09": "\u{8}", "k10": "\u{b}", "k11": "\u{c}", "k12": "\u{1b}", "k13": "\u{1}", "k14": "\u{1f}", "k15": "\u{7f}"}]} => Ok("outer:\n  - k00: \"a\\n  b\\n\"\n    k01: \"key: v\\nnext\"\n    k02: \"ends with colon:\\nx:\"\n    k03: \"# not comment\\nline\"\n    k04: \"trailing space \\nline\"\n    k05: \"cr\\rhere\"\n    k06: \"crlf\\r\\nhere\"\n    k07: \"\\0\"\n    k08: \"\\a\"\n    k09: \"\\b\"\n    k10: \"\\v\"\n    k11: \"\\f\"\n    k12: \"\\e\"\n    k13: \"\\x01\"\n    k14: \"\\x1F\"\n    k15: \"\\x7F\"\n  - k00: \"a\\n  b\\n\"\n    k01: \"key: v\\nnext\"\n    k02: \"ends with colon:\\nx:\"\n    k03: \"# not comment\\nline\"\n    k04: \"trailing space \\nline\"\n    k05: \"cr\\rhere\"\n    k06: \"crlf\\r\\nhere\"\n    k07: \"\\0\"\n    k08: \"\\a\"\n    k09: \"\\b\"\n    k10: \"\\v\"\n    k11: \"\\f\"\n    k12: \"\\e\"\n    k13: \"\\x01\"\n    k14: \"\\x1F\"\n    k15: \"\\x7F\"\n") <= SAME
mapval [noblock] {"k00": "\u{80}", "k01": "\u{85}", "k02": "\u{9f}", "k03": "\u{2028}", "k04": "\u{2029}", "k05": "a\u{2028}b", "k06": "it's", "k07": "'", "k08": "''", "k09": "say \"hi\"", "k10": "back\\slash", "k11": "\\", "k12": "é", "k13": "日本語", "k14": "😀", "k15": "1.0.0"} => Ok("k00: \"\\x80\"\nk01: \"\\N\"\nk02: \"\\x9F\"\nk03: \"\\L\"\nk04: \"\\P\"\nk05: a\u{2028}b\nk06: it's\nk07: \"'\"\nk08: \"''\"\nk09: say \"hi\"\nk10: back\\slash\nk11: \\\nk12: é\nk13: 日本語\nk14: 😀\nk15: 1.0.0\n") <= SAME
mapkey [noblock] {"'": 7, "''": 8, "1.0.0": 15, "\\": 11, "a\u{2028}b": 5, "back\\slash": 10, "it's": 6, "say \"hi\"": 9, "\u{80}": 0, "\u{85}": 1, "\u{9f}": 2, "é": 12, "\u{2028}": 3, "\u{2029}": 4, "日本語": 13, "😀": 14} => Ok("\"'\": 7\n\"''\": 8\n1.0.0: 15\n\\: 11\na\u{2028}b: 5\nback\\slash: 10\nit's: 6\nsay \"hi\": 9\n\"\\u0080\": 0\n\"\\u0085\": 1\n\"\\u009F\": 2\né: 12\n\"\u{2028}\": 3\n\"\u{2029}\": 4\n日本語: 13\n😀: 14\n") <= SAME
nested [noblock] {"outer": [{"k00": "\u{80}", "k01": "\u{85}", "k02": "\u{9f}", "k03": "\u{2028}", "k04": "\u{2029}", "k05": "a\u{2028}b", "k06": "it's", "k07": "'", "k08": "''", "k09": "say \"hi\"", "k10": "back\\slash", "k11": "\\", "k12": "é", "k13": "日本語", "k14": "😀", "k15": "1.0.0"}, {"k00": "\u{80}", "k01": "\u{85}", "k02": "\u{9f}", "k03": "\u{2028}", "k04": "\u{2029}", "k05": "a\u{2028}b", "k06": "it's", "k07": "'", "k08": "''", "k09": "say \"hi\"", "k10": "back\\slash", "k11": "\\", "k12": "é", "k13": "日本語", "k14": "😀", "k15": "1.0.0"}]} => Ok("outer:\n  - k00: \"\\x80\"\n    k01: \"\\N\"\n    k02: \"\\x9F\"\n    k03: \"\\L\"\n    k04: \"\\P\"\n    k05: a\u{2028}b\n    k06: it's\n    k07: \"'\"\n    k08: \"''\"\n    k09: say \"hi\"\n    k10: back\\slash\n    k11: \\\n    k12: é\n    k13: 日本語\n    k14: 😀\n    k15: 1.0.0\n  - k00: \"\\x80\"\n    k01: \"\\N\"\n    k02: \"\\x9F\"\n    k03: \"\\L\"\n    k04: \"\\P\"\n    k05: a\u{2028}b\n    k06: it's\n    k07: \"'\"\n    k08: \"''\"\n    k09: say \"hi\"\n    k10: back\\slash\n    k11: \\\n    k12: é\n    k13: 日本語\n    k14: 😀\n    k15: 1.0.0\n") <= SAME
mapval [noblock] {"k00": "12:30", "k01": "2001-12-14", "k02": "a b", "k03": "word word word word word word word word word word word word word word word word word word word word word word word word word word word word word word", "k04": "word word word word word word word word word word word word word word word word word word word word word word word word word word word word word word ", "k05": "word word word word word word word word word word word word word word word word word word word word word word word word word word word word word word\n", "k06": "word word word word word word word word word word word word word word word word word word word word word word word word word word word word word word\n\n", "k07": "xxxxxxxxxxxxxxxxxxxxxxxxxxxxxxxxxxxxxxxxxxxxxxxxxxxxxxxxxxxxxxxxxxxxxxxxxxxxxxxxxxxxxxxxxxxxxxxxxxxxxxxxxxxxxxxxxxxxxxxx", "k08": "aaaaaaaaaaaaaaaaaaaaaaaaaaaaaaaaaaaaaaaaaaaaaaaaaa   bbbbbbbbbbbbbbbbbbbbbbbbbbbbbbbbbbbbbbbbbbbbbbbbbb  cccccccccccccccccccccccccccccccccccccccccccccccccc", "k09": "aaaaaaaaaaaaaaaaaaaaaaaaaaaaaaaaaaaaaaaaaaaaaaaaaa\tbbbbbbbbbbbbbbbbbbbbbbbbbbbbbbbbbbbbbbbbbbbbbbbbbb\tcccccccccccccccccccccccccccccccccccccccccccccccccc", "k10": "aaaaaaaaaaaaaaaaaaaaaaaaaaaaaaaaaaaaaaaaaaaaaaaaaa # bbbbbbbbbbbbbbbbbbbbbbbbbbbbbbbbbbbbbbbbbbbbbbbbbb", "k11": "aaaaaaaaaaaaaaaaaaaaaaaaaaaaaaaaaaaaaaaaaaaaaaaaaa: bbbbbbbbbbbbbbbbbbbbbbbbbbbbbbbbbbbbbbbbbbbbbbbbbb", "k12": "- lorem ipsum lorem ipsum lorem ipsum lorem ipsum lorem ipsum lorem ipsum lorem ipsum lorem ipsum lorem ipsum lorem ipsum ", "k13": "日本語 テキスト 日本語 テキスト 日本語 テキスト 日本語 テキスト 日本語 テキスト 日本語 テキスト 日本語 テキスト 日本語 テキスト 日本語 テキスト 日本語 テキスト 日本語 テキスト 日本語 テキスト 日本語 テキスト 日本語 テキスト 日本語 テキスト ", "k14": "ab ab ab ab ab ab ab ab ab ab ab ab ab ab ab ab ab ab ab ab \u{85}cd cd cd cd cd cd cd cd cd cd cd cd cd cd cd cd cd cd cd cd ", "k15": "ab ab ab ab ab ab ab ab ab ab ab ab ab ab ab ab ab ab ab ab \rcd cd cd cd cd cd cd cd cd cd cd cd cd cd cd cd cd cd cd cd "} => Ok("k00: 12:30\nk01: 2001-12-14\nk02: a b\nk03: word word word word word word word word word word word word word word word word word word word word word word word word word word word word word word\nk04: \"word word word word word word word word word word word word word word word word word word word word word word word word word word word word word word \"\nk05: \"word word word word word word word word word word word word word word word word word word word word word word word word word word word word word word\\n\"\nk06: \"word word word word word word word word word word word word word word word word word word word word word word word word word word word word word word\\n\\n\"\nk07: xxxxxxxxxxxxxxxxxxxxxxxxxxxxxxxxxxxxxxxxxxxxxxxxxxxxxxxxxxxxxxxxxxxxxxxxxxxxxxxxxxxxxxxxxxxxxxxxxxxxxxxxxxxxxxxxxxxxxxxx\nk08: aaaaaaaaaaaaaaaaaaaaaaaaaaaaaaaaaaaaaaaaaaaaaaaaaa   bbbbbbbbbbbbbbbbbbbbbbbbbbbbbbbbbbbbbbbbbbbbbbbbbb  cccccccccccccccccccccccccccccccccccccccccccccccccc\nk09: \"aaaaaaaaaaaaaaaaaaaaaaaaaaaaaaaaaaaaaaaaaaaaaaaaaa\\tbbbbbbbbbbbbbbbbbbbbbbbbbbbbbbbbbbbbbbbbbbbbbbbbbb\\tcccccccccccccccccccccccccccccccccccccccccccccccccc\"\nk10: \"aaaaaaaaaaaaaaaaaaaaaaaaaaaaaaaaaaaaaaaaaaaaaaaaaa # bbbbbbbbbbbbbbbbbbbbbbbbbbbbbbbbbbbbbbbbbbbbbbbbbb\"\nk11: \"aaaaaaaaaaaaaaaaaaaaaaaaaaaaaaaaaaaaaaaaaaaaaaaaaa: bbbbbbbbbbbbbbbbbbbbbbbbbbbbbbbbbbbbbbbbbbbbbbbbbb\"\nk12: \"- lorem ipsum lorem ipsum lorem ipsum lorem ipsum lorem ipsum lorem ipsum lorem ipsum lorem ipsum lorem ipsum lorem ipsum \"\nk13: \"日本語 テキスト 日本語 テキスト 日本語 テキスト 日本語 テキスト 日本語 テキスト 日本語 テキスト 日本語 テキスト 日本語 テキスト 日本語 テキスト 日本語 テキスト 日本語 テキスト 日本語 テキスト 日本語 テキスト 日本語 テキスト 日本語 テキスト \"\nk14: \"ab ab ab ab ab ab ab ab ab ab ab ab ab ab ab ab ab ab ab ab \\Ncd cd cd cd cd cd cd cd cd cd cd cd cd cd cd cd cd cd cd cd \"\nk15: \"ab ab ab ab ab ab ab ab ab ab ab ab ab ab ab ab ab ab ab ab \\rcd cd cd cd cd cd cd cd cd cd cd cd cd cd cd cd cd cd cd cd \"\n") <= SAME
mapkey [noblock] {"- lorem ipsum lorem ipsum lorem ipsum lorem ipsum lorem ipsum lorem ipsum lorem ipsum lorem ipsum lorem ipsum lorem ipsum ": 12, "12:30": 0, "2001-12-14": 1, "a b": 2, "aaaaaaaaaaaaaaaaaaaaaaaaaaaaaaaaaaaaaaaaaaaaaaaaaa\tbbbbbbbbbbbbbbbbbbbbbbbbbbbbbbbbbbbbbbbbbbbbbbbbbb\tcccccccccccccccccccccccccccccccccccccccccccccccccc": 9, "aaaaaaaaaaaaaaaaaaaaaaaaaaaaaaaaaaaaaaaaaaaaaaaaaa   bbbbbbbbbbbbbbbbbbbbbbbbbbbbbbbbbbbbbbbbbbbbbbbbbb  cccccccccccccccccccccccccccccccccccccccccccccccccc": 8, "aaaaaaaaaaaaaaaaaaaaaaaaaaaaaaaaaaaaaaaaaaaaaaaaaa # bbbbbbbbbbbbbbbbbbbbbbbbbbbbbbbbbbbbbbbbbbbbbbbbbb": 10, "aaaaaaaaaaaaaaaaaaaaaaaaaaaaaaaaaaaaaaaaaaaaaaaaaa: bbbbbbbbbbbbbbbbbbbbbbbbbbbbbbbbbbbbbbbbbbbbbbbbbb": 11, "ab ab ab ab ab ab ab ab ab ab ab ab ab ab ab ab ab ab ab ab \rcd cd cd cd cd cd cd cd cd cd cd cd cd cd cd cd cd cd cd cd ": 15, "ab ab ab ab ab ab ab ab ab ab ab ab ab ab ab ab ab ab ab ab \u{85}cd cd cd cd cd cd cd cd cd cd cd cd cd cd cd cd cd cd cd cd ": 14, "word word word word word word word word word word word word word word word word word word word word word word word word word word word word word word": 3, "word word word word word word word word word word word word word word word word word word word word word word word word word word word word word word\n": 5, "word word word word word word word word word word word word word word word word word word word word word word word word word word word word word word\n\n": 6, "word word word word word word word word word word word word word word word word word word word word word word word word word word word word word word ": 4, "xxxxxxxxxxxxxxxxxxxxxxxxxxxxxxxxxxxxxxxxxxxxxxxxxxxxxxxxxxxxxxxxxxxxxxxxxxxxxxxxxxxxxxxxxxxxxxxxxxxxxxxxxxxxxxxxxxxxxxxx": 7, "日本語 テキスト 日本語 テキスト 日本語 テキスト 日本語 テキスト 日本語 テキスト 日本語 テキスト 日本語 テキスト 日本語 テキスト 日本語 テキスト 日本語 テキスト 日本語 テキスト 日本語 テキスト 日本語 テキスト 日本語 テキスト 日本語 テキスト ": 13} => Ok("\"- lorem ipsum lorem ipsum lorem ipsum lorem ipsum lorem ipsum lorem ipsum lorem ipsum lorem ipsum lorem ipsum lorem ipsum \": 12\n\"12:30\": 0\n2001-12-14: 1\na b: 2\n\"aaaaaaaaaaaaaaaaaaaaaaaaaaaaaaaaaaaaaaaaaaaaaaaaaa\\tbbbbbbbbbbbbbbbbbbbbbbbbbbbbbbbbbbbbbbbbbbbbbbbbbb\\tcccccccccccccccccccccccccccccccccccccccccccccccccc\": 9\naaaaaaaaaaaaaaaaaaaaaaaaaaaaaaaaaaaaaaaaaaaaaaaaaa   bbbbbbbbbbbbbbbbbbbbbbbbbbbbbbbbbbbbbbbbbbbbbbbbbb  cccccccccccccccccccccccccccccccccccccccccccccccccc: 8\n\"aaaaaaaaaaaaaaaaaaaaaaaaaaaaaaaaaaaaaaaaaaaaaaaaaa # bbbbbbbbbbbbbbbbbbbbbbbbbbbbbbbbbbbbbbbbbbbbbbbbbb\": 10\n\"aaaaaaaaaaaaaaaaaaaaaaaaaaaaaaaaaaaaaaaaaaaaaaaaaa: bbbbbbbbbbbbbbbbbbbbbbbbbbbbbbbbbbbbbbbbbbbbbbbbbb\": 11\n\"ab ab ab ab ab ab ab ab ab ab ab ab ab ab ab ab ab ab ab ab \\rcd cd cd cd cd cd cd cd cd cd cd cd cd cd cd cd cd cd cd cd \": 15\n\"ab ab ab ab ab ab ab ab ab ab ab ab ab ab ab ab ab ab ab ab \\u0085cd cd cd cd cd cd cd cd cd cd cd cd cd cd cd cd cd cd cd cd \": 14\nword word word word word word word word word word word word word word word word word word word word word word word word word word word word word word: 3\n\"word word word word word word word word word word word word word word word word word word word word word word word word word word word word word word\\n\": 5\n\"word word word word word word word word word word word word word word word word word word word word word word word word word word word word word word\\n\\n\": 6\n\"word word word word word word word word word word word word word word word word word word word word word word word word word word word word word word \": 4\nxxxxxxxxxxxxxxxxxxxxxxxxxxxxxxxxxxxxxxxxxxxxxxxxxxxxxxxxxxxxxxxxxxxxxxxxxxxxxxxxxxxxxxxxxxxxxxxxxxxxxxxxxxxxxxxxxxxxxxxx: 7\n\"日本語 テキスト 日本語 テキスト 日本語 テキスト 日本語 テキスト 日本語 テキスト 日本語 テキスト 日本語 テキスト 日本語 テキスト 日本語 テキスト 日本語 テキスト 日本語 テキスト 日本語 テキスト 日本語 テキスト 日本語 テキスト 日本語 テキスト \": 13\n") <= SAME
nested [noblock] {"outer": [{"k00": "12:30", "k01": "2001-12-14", "k02": "a b", "k03": "word word word word word word word word word word word word word word word word word word word word word word word word word word word word word word", "k04": "word word word word word word word word word word word word word word word word word word word word word word word word word word word word word word ", "k05": "word word word word word word word word word word word word word word word word word word word word word word word word word word word word word word\n", "k06": "word word word word word word word word word word word word word word word word word word word word word word word word word word word word word word\n\n", "k07": "xxxxxxxxxxxxxxxxxxxxxxxxxxxxxxxxxxxxxxxxxxxxxxxxxxxxxxxxxxxxxxxxxxxxxxxxxxxxxxxxxxxxxxxxxxxxxxxxxxxxxxxxxxxxxxxxxxxxxxxx", "k08": "aaaaaaaaaaaaaaaaaaaaaaaaaaaaaaaaaaaaaaaaaaaaaaaaaa   bbbbbbbbbbbbbbbbbbbbbbbbbbbbbbbbbbbbbbbbbbbbbbbbbb  cccccccccccccccccccccccccccccccccccccccccccccccccc", "k09": "aaaaaaaaaaaaaaaaaaaaaaaaaaaaaaaaaaaaaaaaaaaaaaaaaa\tbbbbbbbbbbbbbbbbbbbbbbbbbbbbbbbbbbbbbbbbbbbbbbbbbb\tcccccccccccccccccccccccccccccccccccccccccccccccccc", "k10": "aaaaaaaaaaaaaaaaaaaaaaaaaaaaaaaaaaaaaaaaaaaaaaaaaa # bbbbbbbbbbbbbbbbbbbbbbbbbbbbbbbbbbbbbbbbbbbbbbbbbb", "k11": "aaaaaaaaaaaaaaaaaaaaaaaaaaaaaaaaaaaaaaaaaaaaaaaaaa: bbbbbbbbbbbbbbbbbbbbbbbbbbbbbbbbbbbbbbbbbbbbbbbbbb", "k12": "- lorem ipsum lorem ipsum lorem ipsum lorem ipsum lorem ipsum lorem ipsum lorem ipsum lorem ipsum lorem ipsum lorem ipsum ", "k13": "日本語 テキスト 日本語 テキスト 日本語 テキスト 日本語 テキスト 日本語 テキスト 日本語 テキスト 日本語 テキスト 日本語 テキスト 日本語 テキスト 日本語 テキスト 日本語 テキスト 日本語 テキスト 日本語 テキスト 日本語 テキスト 日本語 テキスト ", "k14": "ab ab ab ab ab ab ab ab ab ab ab ab ab ab ab ab ab ab ab ab \u{85}cd cd cd cd cd cd cd cd cd cd cd cd cd cd cd cd cd cd cd cd ", "k15": "ab ab ab ab ab ab ab ab ab ab ab ab ab ab ab ab ab ab ab ab \rcd cd cd cd cd cd cd cd cd cd cd cd cd cd cd cd cd cd cd cd "}, {"k00": "12:30", "k01": "2001-12-14", "k02": "a b", "k03": "word word word word word word word word word word word word word word word word word word word word word word word word word word word word word word", "k04": "word word word word word word word word word word word word word word word word word word word word word word word word word word word word word word ", "k05": "word word word word word word word word word word word word word word word word word word word word word word word word word word word word word word\n", "k06": "word word word word word word word word word word word word word word word word word word word word word word word word word word word word word word\n\n", "k07": "xxxxxxxxxxxxxxxxxxxxxxxxxxxxxxxxxxxxxxxxxxxxxxxxxxxxxxxxxxxxxxxxxxxxxxxxxxxxxxxxxxxxxxxxxxxxxxxxxxxxxxxxxxxxxxxxxxxxxxxx", "k08": "aaaaaaaaaaaaaaaaaaaaaaaaaaaaaaaaaaaaaaaaaaaaaaaaaa   bbbbbbbbbbbbbbbbbbbbbbbbbbbbbbbbbbbbbbbbbbbbbbbbbb  cccccccccccccccccccccccccccccccccccccccccccccccccc", "k09": "aaaaaaaaaaaaaaaaaaaaaaaaaaaaaaaaaaaaaaaaaaaaaaaaaa\tbbbbbbbbbbbbbbbbbbbbbbbbbbbbbbbbbbbbbbbbbbbbbbbbbb\tcccccccccccccccccccccccccccccccccccccccccccccccccc", "k10": "aaaaaaaaaaaaaaaaaaaaaaaaaaaaaaaaaaaaaaaaaaaaaaaaaa # bbbbbbbbbbbbbbbbbbbbbbbbbbbbbbbbbbbbbbbbbbbbbbbbbb", "k11": "aaaaaaaaaaaaaaaaaaaaaaaaaaaaaaaaaaaaaaaaaaaaaaaaaa: bbbbbbbbbbbbbbbbbbbbbbbbbbbbbbbbbbbbbbbbbbbbbbbbbb", "k12": "- lorem ipsum lorem ipsum lorem ipsum lorem ipsum lorem ipsum lorem ipsum lorem ipsum lorem ipsum lorem ipsum lorem ipsum ", "k13": "日本語 テキスト 日本語 テキスト 日本語 テキスト 日本語 テキスト 日本語 テキスト 日本語 テキスト 日本語 テキスト 日本語 テキスト 日本語 テキスト 日本語 テキスト 日本語 テキスト 日本語 テキスト 日本語 テキスト 日本語 テキスト 日本語 テキスト ", "k14": "ab ab ab ab ab ab ab ab ab ab ab ab ab ab ab ab ab ab ab ab \u{85}cd cd cd cd cd cd cd cd cd cd cd cd cd cd cd cd cd cd cd cd ", "k15": "ab ab ab ab ab ab ab ab ab ab ab ab ab ab ab ab ab ab ab ab \rcd cd cd cd cd cd cd cd cd cd cd cd cd cd cd cd cd cd cd cd "}]} => Ok("outer:\n  - k00: 12:30\n    k01: 2001-12-14\n    k02: a b\n    k03: word word word word word word word word word word word word word word word word word word word word word word word word word word word word word word\n    k04: \"word word word word word word word word word word word word word word word word word word word word word word word word word word word word word word \"\n    k05: \"word word word word word word word word word word word word word word word word word word word word word word word word word word word word word word\\n\"\n    k06: \"word word word word word word word word word word word word word word word word word word word word word word word word word word word word word word\\n\\n\"\n    k07: xxxxxxxxxxxxxxxxxxxxxxxxxxxxxxxxxxxxxxxxxxxxxxxxxxxxxxxxxxxxxxxxxxxxxxxxxxxxxxxxxxxxxxxxxxxxxxxxxxxxxxxxxxxxxxxxxxxxxxxx\n    k08: aaaaaaaaaaaaaaaaaaaaaaaaaaaaaaaaaaaaaaaaaaaaaaaaaa   bbbbbbbbbbbbbbbbbbbbbbbbbbbbbbbbbbbbbbbbbbbbbbbbbb  cccccccccccccccccccccccccccccccccccccccccccccccccc\n    k09: \"aaaaaaaaaaaaaaaaaaaaaaaaaaaaaaaaaaaaaaaaaaaaaaaaaa\\tbbbbbbbbbbbbbbbbbbbbbbbbbbbbbbbbbbbbbbbbbbbbbbbbbb\\tcccccccccccccccccccccccccccccccccccccccccccccccccc\"\n    k10: \"aaaaaaaaaaaaaaaaaaaaaaaaaaaaaaaaaaaaaaaaaaaaaaaaaa # bbbbbbbbbbbbbbbbbbbbbbbbbbbbbbbbbbbbbbbbbbbbbbbbbb\"\n    k11: \"aaaaaaaaaaaaaaaaaaaaaaaaaaaaaaaaaaaaaaaaaaaaaaaaaa: bbbbbbbbbbbbbbbbbbbbbbbbbbbbbbbbbbbbbbbbbbbbbbbbbb\"\n    k12: \"- lorem ipsum lorem ipsum lorem ipsum lorem ipsum lorem ipsum lorem ipsum lorem ipsum lorem ipsum lorem ipsum lorem ipsum \"\n    k13: \"日本語 テキスト 日本語 テキスト 日本語 テキスト 日本語 テキスト 日本語 テキスト 日本語 テキスト 日本語 テキスト 日本語 テキスト 日本語 テキスト 日本語 テキスト 日本語 テキスト 日本語 テキスト 日本語 テキスト 日本語 テキスト 日本語 テキスト \"\n    k14: \"ab ab ab ab ab ab ab ab ab ab ab ab ab ab ab ab ab ab ab ab \\Ncd cd cd cd cd cd cd cd cd cd cd cd cd cd cd cd cd cd cd cd \"\n    k15: \"ab ab ab ab ab ab ab ab ab ab ab ab ab ab ab ab ab ab ab ab \\rcd cd cd cd cd cd cd cd cd cd cd cd cd cd cd cd cd cd cd cd \"\n  - k00: 12:30\n    k01: 2001-12-14\n    k02: a b\n    k03: word word word word word word word word word word word word word word word word word word word word word word word word word word word word word word\n    k04: \"word word word word word word word word word word word word word word word word word word word word word word word word word word word word word word \"\n    k05: \"word word word word word word word word word word word word word word word word word word word word word word word word word word word word word word\\n\"\n    k06: \"word word word word word word word word word word word word word word word word word word word word word word word word word word word word word word\\n\\n\"\n    k07: xxxxxxxxxxxxxxxxxxxxxxxxxxxxxxxxxxxxxxxxxxxxxxxxxxxxxxxxxxxxxxxxxxxxxxxxxxxxxxxxxxxxxxxxxxxxxxxxxxxxxxxxxxxxxxxxxxxxxxxx\n    k08: aaaaaaaaaaaaaaaaaaaaaaaaaaaaaaaaaaaaaaaaaaaaaaaaaa   bbbbbbbbbbbbbbbbbbbbbbbbbbbbbbbbbbbbbbbbbbbbbbbbbb  cccccccccccccccccccccccccccccccccccccccccccccccccc\n    k09: \"aaaaaaaaaaaaaaaaaaaaaaaaaaaaaaaaaaaaaaaaaaaaaaaaaa\\tbbbbbbbbbbbbbbbbbbbbbbbbbbbbbbbbbbbbbbbbbbbbbbbbbb\\tcccccccccccccccccccccccccccccccccccccccccccccccccc\"\n    k10: \"aaaaaaaaaaaaaaaaaaaaaaaaaaaaaaaaaaaaaaaaaaaaaaaaaa # bbbbbbbbbbbbbbbbbbbbbbbbbbbbbbbbbbbbbbbbbbbbbbbbbb\"\n    k11: \"aaaaaaaaaaaaaaaaaaaaaaaaaaaaaaaaaaaaaaaaaaaaaaaaaa: bbbbbbbbbbbbbbbbbbbbbbbbbbbbbbbbbbbbbbbbbbbbbbbbbb\"\n    k12: \"- lorem ipsum lorem ipsum lorem ipsum lorem ipsum lorem ipsum lorem ipsum lorem ipsum lorem ipsum lorem ipsum lorem ipsum \"\n    k13: \"日本語 テキスト 日本語 テキスト 日本語 テキスト 日本語 テキスト 日本語 テキスト 日本語 テキスト 日本語 テキスト 日本語 テキスト 日本語 テキスト 日本語 テキスト 日本語 テキスト 日本語 テキスト 日本語 テキスト 日本語 テキスト 日本語 テキスト \"\n    k14: \"ab ab ab ab ab ab ab ab ab ab ab ab ab ab ab ab ab ab ab ab \\Ncd cd cd cd cd cd cd cd cd cd cd cd cd cd cd cd cd cd cd cd \"\n    k15: \"ab ab ab ab ab ab ab ab ab ab ab ab ab ab ab ab ab ab ab ab \\rcd cd cd cd cd cd cd cd cd cd cd cd cd cd cd cd cd cd cd cd \"\n") <= SAME
mapval [noblock] {"k00": "lorem ipsum lorem ipsum lorem ipsum lorem ipsum lorem ipsum lorem ipsum \ndolor sit dolor sit dolor sit dolor sit dolor sit dolor sit ", "k01": "  lorem ipsum lorem ipsum lorem ipsum lorem ipsum lorem ipsum lorem ipsum \ndolor: sit dolor: sit dolor: sit dolor: sit dolor: sit dolor: sit \n\n", "k02": "lorem ipsum lorem ipsum lorem ipsum lorem ipsum lorem ipsum lorem ipsum :\ndolor sit dolor sit dolor sit dolor sit dolor sit dolor sit :"} => Ok("k00: \"lorem ipsum lorem ipsum lorem ipsum lorem ipsum lorem ipsum lorem ipsum \\ndolor sit dolor sit dolor sit dolor sit dolor sit dolor sit \"\nk01: \"  lorem ipsum lorem ipsum lorem ipsum lorem ipsum lorem ipsum lorem ipsum \\ndolor: sit dolor: sit dolor: sit dolor: sit dolor: sit dolor: sit \\n\\n\"\nk02: \"lorem ipsum lorem ipsum lorem ipsum lorem ipsum lorem ipsum lorem ipsum :\\ndolor sit dolor sit dolor sit dolor sit dolor sit dolor sit :\"\n") <= SAME
mapkey [noblock] {"  lorem ipsum lorem ipsum lorem ipsum lorem ipsum lorem ipsum lorem ipsum \ndolor: sit dolor: sit dolor: sit dolor: sit dolor: sit dolor: sit \n\n": 1, "lorem ipsum lorem ipsum lorem ipsum lorem ipsum lorem ipsum lorem ipsum \ndolor sit dolor sit dolor sit dolor sit dolor sit dolor sit ": 0, "lorem ipsum lorem ipsum lorem ipsum lorem ipsum lorem ipsum lorem ipsum :\ndolor sit dolor sit dolor sit dolor sit dolor sit dolor sit :": 2} => Ok("\"  lorem ipsum lorem ipsum lorem ipsum lorem ipsum lorem ipsum lorem ipsum \\ndolor: sit dolor: sit dolor: sit dolor: sit dolor: sit dolor: sit \\n\\n\": 1\n\"lorem ipsum lorem ipsum lorem ipsum lorem ipsum lorem ipsum lorem ipsum \\ndolor sit dolor sit dolor sit dolor sit dolor sit dolor sit \": 0\n\"lorem ipsum lorem ipsum lorem ipsum lorem ipsum lorem ipsum lorem ipsum :\\ndolor sit dolor sit dolor sit dolor sit dolor sit dolor sit :\": 2\n") <= SAME
nested [noblock] {"outer": [{"k00": "lorem ipsum lorem ipsum lorem ipsum lorem ipsum lorem ipsum lorem ipsum \ndolor sit dolor sit dolor sit dolor sit dolor sit dolor sit ", "k01": "  lorem ipsum lorem ipsum lorem ipsum lorem ipsum lorem ipsum lorem ipsum \ndolor: sit dolor: sit dolor: sit dolor: sit dolor: sit dolor: sit \n\n", "k02": "lorem ipsum lorem ipsum lorem ipsum lorem ipsum lorem ipsum lorem ipsum :\ndolor sit dolor sit dolor sit dolor sit dolor sit dolor sit :"}, {"k00": "lorem ipsum lorem ipsum lorem ipsum lorem ipsum lorem ipsum lorem ipsum \ndolor sit dolor sit dolor sit dolor sit dolor sit dolor sit ", "k01": "  lorem ipsum lorem ipsum lorem ipsum lorem ipsum lorem ipsum lorem ipsum \ndolor: sit dolor: sit dolor: sit dolor: sit dolor: sit dolor: sit \n\n", "k02": "lorem ipsum lorem ipsum lorem ipsum lorem ipsum lorem ipsum lorem ipsum :\ndolor sit dolor sit dolor sit dolor sit dolor sit dolor sit :"}]} => Ok("outer:\n  - k00: \"lorem ipsum lorem ipsum lorem ipsum lorem ipsum lorem ipsum lorem ipsum \\ndolor sit dolor sit dolor sit dolor sit dolor sit dolor sit \"\n    k01: \"  lorem ipsum lorem ipsum lorem ipsum lorem ipsum lorem ipsum lorem ipsum \\ndolor: sit dolor: sit dolor: sit dolor: sit dolor: sit dolor: sit \\n\\n\"\n    k02: \"lorem ipsum lorem ipsum lorem ipsum lorem ipsum lorem ipsum lorem ipsum :\\ndolor sit dolor sit dolor sit dolor sit dolor sit dolor sit :\"\n  - k00: \"lorem ipsum lorem ipsum lorem ipsum lorem ipsum lorem ipsum lorem ipsum \\ndolor sit dolor sit dolor sit dolor sit dolor sit dolor sit \"\n    k01: \"  lorem ipsum lorem ipsum lorem ipsum lorem ipsum lorem ipsum lorem ipsum \\ndolor: sit dolor: sit dolor: sit dolor: sit dolor: sit dolor: sit \\n\\n\"\n    k02: \"lorem ipsum lorem ipsum lorem ipsum lorem ipsum lorem ipsum lorem ipsum :\\ndolor sit dolor sit dolor sit dolor sit dolor sit dolor sit :\"\n") <= SAME
flowseq [noblock] => Ok("[\"\", \"~\", \"null\", \"NULL\", \"Null\", \"true\", \"False\", \"TRUE\", \"yes\", \"y\", \"No\", \"on\", \"OFF\", \"<<\", \"---\", \"--- a\"]\n") <= SAME
flowmap [noblock] => Ok("{\"\": \"\", \"---\": \"---\", \"--- a\": \"--- a\", \"<<\": \"<<\", \"False\": \"False\", \"NULL\": \"NULL\", \"No\": \"No\", \"Null\": \"Null\", \"OFF\": \"OFF\", \"TRUE\": \"TRUE\", \"null\": \"null\", \"on\": \"on\", \"true\": \"true\", \"y\": \"y\", \"yes\": \"yes\", \"~\": \"~\"}\n") <= SAME
flowseq [noblock] => Ok("[---a, \"...\", \"... x\", \".nan\", \".NaN\", \"-.INF\", \"+.inf\", \".inf\", +-.inf, .infx, \"nan\", \"NaN\", \"+inf\", \"-Infinity\", \"infinity\", \"0x1F\"]\n") <= SAME
flowmap [noblock] => Ok("{+-.inf: +-.inf, \"+.inf\": \"+.inf\", \"+inf\": \"+inf\", ---a: ---a, \"-.INF\": \"-.INF\", \"-Infinity\": \"-Infinity\", \"...\": \"...\", \"... x\": \"... x\", \".NaN\": \".NaN\", \".inf\": \".inf\", .infx: .infx, \".nan\": \".nan\", \"0x1F\": \"0x1F\", \"NaN\": \"NaN\", \"infinity\": \"infinity\", \"nan\": \"nan\"}\n") <= SAME
flowseq [noblock] => Ok("[\"-0x1f\", \"0o17\", \"0b101\", 0b102, \"1_000\", \"1e9\", \"1E+9\", \"1.\", \".5\", \"+1.5e-3\", 1.5e, \"12345678901234567890123456789\", '-', \"?\", +, '.']\n") <= SAME
flowmap [noblock] => Ok("{+: +, \"+1.5e-3\": \"+1.5e-3\", \"-\": '-', \"-0x1f\": \"-0x1f\", .: '.', \".5\": \".5\", \"0b101\": \"0b101\", 0b102: 0b102, \"0o17\": \"0o17\", \"1.\": \"1.\", 1.5e: 1.5e, \"12345678901234567890123456789\": \"12345678901234567890123456789\", \"1E+9\": \"1E+9\", \"1_000\": \"1_000\", \"1e9\": \"1e9\", \"?\": \"?\"}\n") <= SAME
flowseq [noblock] => Ok("['#', \"- a\", -a, \"-\\ta\", ?x, \"? x\", \",a\", \":a\", \"[a\", \"]a\", \"{a\", \"}a\", \"%a\", \"@a\", \"`a\", \"!a\"]\n") <= SAME
flowmap [noblock] => Ok("{\"!a\": \"!a\", \"#\": '#', \"%a\": \"%a\", \",a\": \",a\", \"-\\ta\": \"-\\ta\", \"- a\": \"- a\", -a: -a, \":a\": \":a\", \"? x\": \"? x\", ?x: ?x, \"@a\": \"@a\", \"[a\": \"[a\", \"]a\": \"]a\", \"`a\": \"`a\", \"{a\": \"{a\", \"}a\": \"}a\"}\n") <= SAME
flowseq [noblock] => Ok("[\"&a\", \"*a\", \"|a\", \">a\", \"'a\", \"\\\"a\", \"a: b\", a:b, \"a:\", \"a: \", \"a #b\", \"a#b\", \"a,b\", \"a]b\", \"a{b}\", \" lead\"]\n") <= SAME
flowmap [noblock] => Ok("{\" lead\": \" lead\", \"\\\"a\": \"\\\"a\", \"&a\": \"&a\", \"'a\": \"'a\", \"*a\": \"*a\", \">a\": \">a\", \"a #b\": \"a #b\", \"a#b\": \"a#b\", \"a,b\": \"a,b\", \"a:\": \"a:\", \"a: \": \"a: \", \"a: b\": \"a: b\", \"a:b\": a:b, \"a]b\": \"a]b\", \"a{b}\": \"a{b}\", \"|a\": \"|a\"}\n") <= SAME
flowseq [noblock] => Ok("[\"trail \", \"\u{a0}nbsp\", \"em\u{2003}\", \"\\uFEFFbom\", mid\u{feff}bom, \"tab\\there\", \"new\\nline\", \"line\\n\", \"line\\n\\n\", \"\\n\", \"\\n\\n\", \"\\n\\n\\n\", \"\\nlead\", \"a\\n\\n\\nb\\n\\n\\n\", \"  indented\\nline\", \"\\n  indented after blank\\n\"]\n") <= SAME
flowmap [noblock] => Ok("{\"\\n\": \"\\n\", \"\\n\\n\": \"\\n\\n\", \"\\n\\n\\n\": \"\\n\\n\\n\", \"\\n  indented after blank\\n\": \"\\n  indented after blank\\n\", \"\\nlead\": \"\\nlead\", \"  indented\\nline\": \"  indented\\nline\", \"a\\n\\n\\nb\\n\\n\\n\": \"a\\n\\n\\nb\\n\\n\\n\", \"em\u{2003}\": \"em\u{2003}\", \"line\\n\": \"line\\n\", \"line\\n\\n\": \"line\\n\\n\", mid\u{feff}bom: mid\u{feff}bom, \"new\\nline\": \"new\\nline\", \"tab\\there\": \"tab\\there\", \"trail \": \"trail \", \"\u{a0}nbsp\": \"\u{a0}nbsp\", \"\u{feff}bom\": \"\\uFEFFbom\"}\n") <= SAME
flowseq [noblock] => Ok("[\"a\\n  b\\n\", \"key: v\\nnext\", \"ends with colon:\\nx:\", \"# not comment\\nline\", \"trailing space \\nline\", \"cr\\rhere\", \"crlf\\r\\nhere\", \"\\0\", \"\\a\", \"\\b\", \"\\v\", \"\\f\", \"\\e\", \"\\x01\", \"\\x1F\", \"\\x7F\"]\n") <= SAME
flowmap [noblock] => Ok("{\"\\u0000\": \"\\0\", \"\\u0001\": \"\\x01\", \"\\u0007\": \"\\a\", \"\\u0008\": \"\\b\", \"\\u000B\": \"\\v\", \"\\u000C\": \"\\f\", \"\\u001B\": \"\\e\", \"\\u001F\": \"\\x1F\", \"# not comment\\nline\": \"# not comment\\nline\", \"a\\n  b\\n\": \"a\\n  b\\n\", \"cr\\rhere\": \"cr\\rhere\", \"crlf\\r\\nhere\": \"crlf\\r\\nhere\", \"ends with colon:\\nx:\": \"ends with colon:\\nx:\", \"key: v\\nnext\": \"key: v\\nnext\", \"trailing space \\nline\": \"trailing space \\nline\", \"\\u007F\": \"\\x7F\"}\n") <= SAME
flowseq [noblock] => Ok("[\"\\x80\", \"\\N\", \"\\x9F\", \"\\L\", \"\\P\", a\u{2028}b, it's, \"'\", \"''\", say \"hi\", back\\slash, \\, é, 日本語, 😀, 1.0.0]\n") <= SAME
flowmap [noblock] => Ok("{\"'\": \"'\", \"''\": \"''\", 1.0.0: 1.0.0, \\: \\, a\u{2028}b: a\u{2028}b, back\\slash: back\\slash, it's: it's, say \"hi\": say \"hi\", \"\\u0080\": \"\\x80\", \"\\u0085\": \"\\N\", \"\\u009F\": \"\\x9F\", é: é, \"\u{2028}\": \"\\L\", \"\u{2029}\": \"\\P\", 日本語: 日本語, 😀: 😀}\n") <= SAME
flowseq [noblock] => Ok("[12:30, 2001-12-14, a b, word word word word word word word word word word word word word word word word word word word word word word word word word word word word word word, \"word word word word word word word word word word word word word word word word word word word word word word word word word word word word word word \", \"word word word word word word word word word word word word word word word word word word word word word word word word word word word word word word\\n\", \"word word word word word word word word word word word word word word word word word word word word word word word word word word word word word word\\n\\n\", xxxxxxxxxxxxxxxxxxxxxxxxxxxxxxxxxxxxxxxxxxxxxxxxxxxxxxxxxxxxxxxxxxxxxxxxxxxxxxxxxxxxxxxxxxxxxxxxxxxxxxxxxxxxxxxxxxxxxxxx, aaaaaaaaaaaaaaaaaaaaaaaaaaaaaaaaaaaaaaaaaaaaaaaaaa   bbbbbbbbbbbbbbbbbbbbbbbbbbbbbbbbbbbbbbbbbbbbbbbbbb  cccccccccccccccccccccccccccccccccccccccccccccccccc, \"aaaaaaaaaaaaaaaaaaaaaaaaaaaaaaaaaaaaaaaaaaaaaaaaaa\\tbbbbbbbbbbbbbbbbbbbbbbbbbbbbbbbbbbbbbbbbbbbbbbbbbb\\tcccccccccccccccccccccccccccccccccccccccccccccccccc\", \"aaaaaaaaaaaaaaaaaaaaaaaaaaaaaaaaaaaaaaaaaaaaaaaaaa # bbbbbbbbbbbbbbbbbbbbbbbbbbbbbbbbbbbbbbbbbbbbbbbbbb\", \"aaaaaaaaaaaaaaaaaaaaaaaaaaaaaaaaaaaaaaaaaaaaaaaaaa: bbbbbbbbbbbbbbbbbbbbbbbbbbbbbbbbbbbbbbbbbbbbbbbbbb\", \"- lorem ipsum lorem ipsum lorem ipsum lorem ipsum lorem ipsum lorem ipsum lorem ipsum lorem ipsum lorem ipsum lorem ipsum \", \"日本語 テキスト 日本語 テキスト 日本語 テキスト 日本語 テキスト 日本語 テキスト 日本語 テキスト 日本語 テキスト 日本語 テキスト 日本語 テキスト 日本語 テキスト 日本語 テキスト 日本語 テキスト 日本語 テキスト 日本語 テキスト 日本語 テキスト \", \"ab ab ab ab ab ab ab ab ab ab ab ab ab ab ab ab ab ab ab ab \\Ncd cd cd cd cd cd cd cd cd cd cd cd cd cd cd cd cd cd cd cd \", \"ab ab ab ab ab ab ab ab ab ab ab ab ab ab ab ab ab ab ab ab \\rcd cd cd cd cd cd cd cd cd cd cd cd cd cd cd cd cd cd cd cd \"]\n") <= SAME
flowmap [noblock] => Ok("{\"- lorem ipsum lorem ipsum lorem ipsum lorem ipsum lorem ipsum lorem ipsum lorem ipsum lorem ipsum lorem ipsum lorem ipsum \": \"- lorem ipsum lorem ipsum lorem ipsum lorem ipsum lorem ipsum lorem ipsum lorem ipsum lorem ipsum lorem ipsum lorem ipsum \", \"12:30\": 12:30, 2001-12-14: 2001-12-14, a b: a b, \"aaaaaaaaaaaaaaaaaaaaaaaaaaaaaaaaaaaaaaaaaaaaaaaaaa\\tbbbbbbbbbbbbbbbbbbbbbbbbbbbbbbbbbbbbbbbbbbbbbbbbbb\\tcccccccccccccccccccccccccccccccccccccccccccccccccc\": \"aaaaaaaaaaaaaaaaaaaaaaaaaaaaaaaaaaaaaaaaaaaaaaaaaa\\tbbbbbbbbbbbbbbbbbbbbbbbbbbbbbbbbbbbbbbbbbbbbbbbbbb\\tcccccccccccccccccccccccccccccccccccccccccccccccccc\", aaaaaaaaaaaaaaaaaaaaaaaaaaaaaaaaaaaaaaaaaaaaaaaaaa   bbbbbbbbbbbbbbbbbbbbbbbbbbbbbbbbbbbbbbbbbbbbbbbbbb  cccccccccccccccccccccccccccccccccccccccccccccccccc: aaaaaaaaaaaaaaaaaaaaaaaaaaaaaaaaaaaaaaaaaaaaaaaaaa   bbbbbbbbbbbbbbbbbbbbbbbbbbbbbbbbbbbbbbbbbbbbbbbbbb  cccccccccccccccccccccccccccccccccccccccccccccccccc, \"aaaaaaaaaaaaaaaaaaaaaaaaaaaaaaaaaaaaaaaaaaaaaaaaaa # bbbbbbbbbbbbbbbbbbbbbbbbbbbbbbbbbbbbbbbbbbbbbbbbbb\": \"aaaaaaaaaaaaaaaaaaaaaaaaaaaaaaaaaaaaaaaaaaaaaaaaaa # bbbbbbbbbbbbbbbbbbbbbbbbbbbbbbbbbbbbbbbbbbbbbbbbbb\", \"aaaaaaaaaaaaaaaaaaaaaaaaaaaaaaaaaaaaaaaaaaaaaaaaaa: bbbbbbbbbbbbbbbbbbbbbbbbbbbbbbbbbbbbbbbbbbbbbbbbbb\": \"aaaaaaaaaaaaaaaaaaaaaaaaaaaaaaaaaaaaaaaaaaaaaaaaaa: bbbbbbbbbbbbbbbbbbbbbbbbbbbbbbbbbbbbbbbbbbbbbbbbbb\", \"ab ab ab ab ab ab ab ab ab ab ab ab ab ab ab ab ab ab ab ab \\rcd cd cd cd cd cd cd cd cd cd cd cd cd cd cd cd cd cd cd cd \": \"ab ab ab ab ab ab ab ab ab ab ab ab ab ab ab ab ab ab ab ab \\rcd cd cd cd cd cd cd cd cd cd cd cd cd cd cd cd cd cd cd cd \", \"ab ab ab ab ab ab ab ab ab ab ab ab ab ab ab ab ab ab ab ab \\u0085cd cd cd cd cd cd cd cd cd cd cd cd cd cd cd cd cd cd cd cd \": \"ab ab ab ab ab ab ab ab ab ab ab ab ab ab ab ab ab ab ab ab \\Ncd cd cd cd cd cd cd cd cd cd cd cd cd cd cd cd cd cd cd cd \", word word word word word word word word word word word word word word word word word word word word word word word word word word word word word word: word word word word word word word word word word word word word word word word word word word word word word word word word word word word word word, \"word word word word word word word word word word word word word word word word word word word word word word word word word word word word word word\\n\": \"word word word word word word word word word word word word word word word word word word word word word word word word word word word word word word\\n\", \"word word word word word word word word word word word word word word word word word word word word word word word word word word word word word word\\n\\n\": \"word word word word word word word word word word word word word word word word word word word word word word word word word word word word word word\\n\\n\", \"word word word word word word word word word word word word word word word word word word word word word word word word word word word word word word \": \"word word word word word word word word word word word word word word word word word word word word word word word word word word word word word word \", xxxxxxxxxxxxxxxxxxxxxxxxxxxxxxxxxxxxxxxxxxxxxxxxxxxxxxxxxxxxxxxxxxxxxxxxxxxxxxxxxxxxxxxxxxxxxxxxxxxxxxxxxxxxxxxxxxxxxxxx: xxxxxxxxxxxxxxxxxxxxxxxxxxxxxxxxxxxxxxxxxxxxxxxxxxxxxxxxxxxxxxxxxxxxxxxxxxxxxxxxxxxxxxxxxxxxxxxxxxxxxxxxxxxxxxxxxxxxxxxx, \"日本語 テキスト 日本語 テキスト 日本語 テキスト 日本語 テキスト 日本語 テキスト 日本語 テキスト 日本語 テキスト 日本語 テキスト 日本語 テキスト 日本語 テキスト 日本語 テキスト 日本語 テキスト 日本語 テキスト 日本語 テキスト 日本語 テキスト \": \"日本語 テキスト 日本語 テキスト 日本語 テキスト 日本語 テキスト 日本語 テキスト 日本語 テキスト 日本語 テキスト 日本語 テキスト 日本語 テキスト 日本語 テキスト 日本語 テキスト 日本語 テキスト 日本語 テキスト 日本語 テキスト 日本語 テキスト \"}\n") <= SAME
flowseq [noblock] => Ok("[\"lorem ipsum lorem ipsum lorem ipsum lorem ipsum lorem ipsum lorem ipsum \\ndolor sit dolor sit dolor sit dolor sit dolor sit dolor sit \", \"  lorem ipsum lorem ipsum lorem ipsum lorem ipsum lorem ipsum lorem ipsum \\ndolor: sit dolor: sit dolor: sit dolor: sit dolor: sit dolor: sit \\n\\n\", \"lorem ipsum lorem ipsum lorem ipsum lorem ipsum lorem ipsum lorem ipsum :\\ndolor sit dolor sit dolor sit dolor sit dolor sit dolor sit :\"]\n") <= SAME
flowmap [noblock] => Ok("{\"  lorem ipsum lorem ipsum lorem ipsum lorem ipsum lorem ipsum lorem ipsum \\ndolor: sit dolor: sit dolor: sit dolor: sit dolor: sit dolor: sit \\n\\n\": \"  lorem ipsum lorem ipsum lorem ipsum lorem ipsum lorem ipsum lorem ipsum \\ndolor: sit dolor: sit dolor: sit dolor: sit dolor: sit dolor: sit \\n\\n\", \"lorem ipsum lorem ipsum lorem ipsum lorem ipsum lorem ipsum lorem ipsum \\ndolor sit dolor sit dolor sit dolor sit dolor sit dolor sit \": \"lorem ipsum lorem ipsum lorem ipsum lorem ipsum lorem ipsum lorem ipsum \\ndolor sit dolor sit dolor sit dolor sit dolor sit dolor sit \", \"lorem ipsum lorem ipsum lorem ipsum lorem ipsum lorem ipsum lorem ipsum :\\ndolor sit dolor sit dolor sit dolor sit dolor sit dolor sit :\": \"lorem ipsum lorem ipsum lorem ipsum lorem ipsum lorem ipsum lorem ipsum :\\ndolor sit dolor sit dolor sit dolor sit dolor sit dolor sit :\"}\n") <= SAME
enum [noblock] Text("") => Ok("Text: \"\"\n") <= SAME
enum [noblock] [Pair("", -1)] => Ok("- Pair:\n    - \"\"\n    - -1\n") <= SAME
enum [noblock] Rec { s: "", c: 'x' } => Ok("Rec:\n  s: \"\"\n  c: x\n") <= SAME
enum [noblock] Text("NULL") => Ok("Text: \"NULL\"\n") <= SAME
enum [noblock] [Pair("NULL", -1)] => Ok("- Pair:\n    - \"NULL\"\n    - -1\n") <= SAME
enum [noblock] Rec { s: "NULL", c: 'N' } => Ok("Rec:\n  s: \"NULL\"\n  c: \"N\"\n") <= SAME
enum [noblock] Text("False") => Ok("Text: \"False\"\n") <= SAME
enum [noblock] [Pair("False", -1)] => Ok("- Pair:\n    - \"False\"\n    - -1\n") <= SAME
enum [noblock] Rec { s: "False", c: 'F' } => Ok("Rec:\n  s: \"False\"\n  c: F\n") <= SAME
enum [noblock] Text("y") => Ok("Text: \"y\"\n") <= SAME
enum [noblock] [Pair("y", -1)] => Ok("- Pair:\n    - \"y\"\n    - -1\n") <= SAME
enum [noblock] Rec { s: "y", c: 'y' } => Ok("Rec:\n  s: \"y\"\n  c: \"y\"\n") <= SAME
enum [noblock] Text("OFF") => Ok("Text: \"OFF\"\n") <= SAME
enum [noblock] [Pair("OFF", -1)] => Ok("- Pair:\n    - \"OFF\"\n    - -1\n") <= SAME
enum [noblock] Rec { s: "OFF", c: 'O' } => Ok("Rec:\n  s: \"OFF\"\n  c: O\n") <= SAME
enum [noblock] Text("--- a") => Ok("Text: \"--- a\"\n") <= SAME
enum [noblock] [Pair("--- a", -1)] => Ok("- Pair:\n    - \"--- a\"\n    - -1\n") <= SAME
enum [noblock] Rec { s: "--- a", c: '-' } => Ok("Rec:\n  s: \"--- a\"\n  c: '-'\n") <= SAME
enum [noblock] Text("... x") => Ok("Text: \"... x\"\n") <= SAME
enum [noblock] [Pair("... x", -1)] => Ok("- Pair:\n    - \"... x\"\n    - -1\n") <= SAME
enum [noblock] Rec { s: "... x", c: '.' } => Ok("Rec:\n  s: \"... x\"\n  c: '.'\n") <= SAME
enum [noblock] Text("-.INF") => Ok("Text: \"-.INF\"\n") <= SAME
enum [noblock] [Pair("-.INF", -1)] => Ok("- Pair:\n    - \"-.INF\"\n    - -1\n") <= SAME
enum [noblock] Rec { s: "-.INF", c: '-' } => Ok("Rec:\n  s: \"-.INF\"\n  c: '-'\n") <= SAME
enum [noblock] Text("+-.inf") => Ok("Text: +-.inf\n") <= SAME
enum [noblock] [Pair("+-.inf", -1)] => Ok("- Pair:\n    - +-.inf\n    - -1\n") <= SAME
enum [noblock] Rec { s: "+-.inf", c: '+' } => Ok("Rec:\n  s: +-.inf\n  c: +\n") <= SAME
enum [noblock] Text("NaN") => Ok("Text: \"NaN\"\n") <= SAME
enum [noblock] [Pair("NaN", -1)] => Ok("- Pair:\n    - \"NaN\"\n    - -1\n") <= SAME
enum [noblock] Rec { s: "NaN", c: 'N' } => Ok("Rec:\n  s: \"NaN\"\n  c: \"N\"\n") <= SAME
enum [noblock] Text("infinity") => Ok("Text: \"infinity\"\n") <= SAME
enum [noblock] [Pair("infinity", -1)] => Ok("- Pair:\n    - \"infinity\"\n    - -1\n") <= SAME
enum [noblock] Rec { s: "infinity", c: 'i' } => Ok("Rec:\n  s: \"infinity\"\n  c: i\n") <= SAME
enum [noblock] Text("0o17") => Ok("Text: \"0o17\"\n") <= SAME
enum [noblock] [Pair("0o17", -1)] => Ok("- Pair:\n    - \"0o17\"\n    - -1\n") <= SAME
enum [noblock] Rec { s: "0o17", c: '0' } => Ok("Rec:\n  s: \"0o17\"\n  c: \"0\"\n") <= SAME
enum [noblock] Text("1_000") => Ok("Text: \"1_000\"\n") <= SAME
enum [noblock] [Pair("1_000", -1)] => Ok("- Pair:\n    - \"1_000\"\n    - -1\n") <= SAME
enum [noblock] Rec { s: "1_000", c: '1' } => Ok("Rec:\n  s: \"1_000\"\n  c: \"1\"\n") <= SAME
enum [noblock] Text("1.") => Ok("Text: \"1.\"\n") <= SAME
enum [noblock] [Pair("1.", -1)] => Ok("- Pair:\n    - \"1.\"\n    - -1\n") <= SAME
enum [noblock] Rec { s: "1.", c: '1' } => Ok("Rec:\n  s: \"1.\"\n  c: \"1\"\n") <= SAME
enum [noblock] Text("1.5e") => Ok("Text: 1.5e\n") <= SAME
enum [noblock] [Pair("1.5e", -1)] => Ok("- Pair:\n    - 1.5e\n    - -1\n") <= SAME
enum [noblock] Rec { s: "1.5e", c: '1' } => Ok("Rec:\n  s: 1.5e\n  c: \"1\"\n") <= SAME
enum [noblock] Text("?") => Ok("Text: \"?\"\n") <= SAME
enum [noblock] [Pair("?", -1)] => Ok("- Pair:\n    - \"?\"\n    - -1\n") <= SAME
enum [noblock] Rec { s: "?", c: '?' } => Ok("Rec:\n  s: \"?\"\n  c: \"?\"\n") <= SAME
enum [noblock] Text("#") => Ok("Text: '#'\n") <= SAME
enum [noblock] [Pair("#", -1)] => Ok("- Pair:\n    - '#'\n    - -1\n") <= SAME
enum [noblock] Rec { s: "#", c: '#' } => Ok("Rec:\n  s: '#'\n  c: '#'\n") <= SAME
enum [noblock] Text("-\ta") => Ok("Text: \"-\\ta\"\n") <= SAME
enum [noblock] [Pair("-\ta", -1)] => Ok("- Pair:\n    - \"-\\ta\"\n    - -1\n") <= SAME
enum [noblock] Rec { s: "-\ta", c: '-' } => Ok("Rec:\n  s: \"-\\ta\"\n  c: '-'\n") <= SAME
enum [noblock] Text(",a") => Ok("Text: \",a\"\n") <= SAME
enum [noblock] [Pair(",a", -1)] => Ok("- Pair:\n    - \",a\"\n    - -1\n") <= SAME
enum [noblock] Rec { s: ",a", c: ',' } => Ok("Rec:\n  s: \",a\"\n  c: \",\"\n") <= SAME
enum [noblock] Text("]a") => Ok("Text: \"]a\"\n") <= SAME
enum [noblock] [Pair("]a", -1)] => Ok("- Pair:\n    - \"]a\"\n    - -1\n") <= SAME
enum [noblock] Rec { s: "]a", c: ']' } => Ok("Rec:\n  s: \"]a\"\n  c: \"]\"\n") <= SAME
enum [noblock] Text("%a") => Ok("Text: \"%a\"\n") <= SAME
enum [noblock] [Pair("%a", -1)] => Ok("- Pair:\n    - \"%a\"\n    - -1\n") <= SAME
enum [noblock] Rec { s: "%a", c: '%' } => Ok("Rec:\n  s: \"%a\"\n  c: \"%\"\n") <= SAME
enum [noblock] Text("!a") => Ok("Text: \"!a\"\n") <= SAME
enum [noblock] [Pair("!a", -1)] => Ok("- Pair:\n    - \"!a\"\n    - -1\n") <= SAME
enum [noblock] Rec { s: "!a", c: '!' } => Ok("Rec:\n  s: \"!a\"\n  c: \"!\"\n") <= SAME
enum [noblock] Text("|a") => Ok("Text: \"|a\"\n") <= SAME
enum [noblock] [Pair("|a", -1)] => Ok("- Pair:\n    - \"|a\"\n    - -1\n") <= SAME
enum [noblock] Rec { s: "|a", c: '|' } => Ok("Rec:\n  s: \"|a\"\n  c: \"|\"\n") <= SAME
enum [noblock] Text("\"a") => Ok("Text: \"\\\"a\"\n") <= SAME
enum [noblock] [Pair("\"a", -1)] => Ok("- Pair:\n    - \"\\\"a\"\n    - -1\n") <= SAME
enum [noblock] Rec { s: "\"a", c: '"' } => Ok("Rec:\n  s: \"\\\"a\"\n  c: \"\\\"\"\n") <= SAME
enum [noblock] Text("a:") => Ok("Text: \"a:\"\n") <= SAME
enum [noblock] [Pair("a:", -1)] => Ok("- Pair:\n    - \"a:\"\n    - -1\n") <= SAME
enum [noblock] Rec { s: "a:", c: 'a' } => Ok("Rec:\n  s: \"a:\"\n  c: a\n") <= SAME
enum [noblock] Text("a#b") => Ok("Text: \"a#b\"\n") <= SAME
enum [noblock] [Pair("a#b", -1)] => Ok("- Pair:\n    - \"a#b\"\n    - -1\n") <= SAME
enum [noblock] Rec { s: "a#b", c: 'a' } => Ok("Rec:\n  s: \"a#b\"\n  c: a\n") <= SAME
enum [noblock] Text("a{b}") => Ok("Text: a{b}\n") <= SAME
enum [noblock] [Pair("a{b}", -1)] => Ok("- Pair:\n    - a{b}\n    - -1\n") <= SAME
enum [noblock] Rec { s: "a{b}", c: 'a' } => Ok("Rec:\n  s: a{b}\n  c: a\n") <= SAME
enum [noblock] Text("\u{a0}nbsp") => Ok("Text: \"\u{a0}nbsp\"\n") <= SAME
enum [noblock] [Pair("\u{a0}nbsp", -1)] => Ok("- Pair:\n    - \"\u{a0}nbsp\"\n    - -1\n") <= SAME
enum [noblock] Rec { s: "\u{a0}nbsp", c: '\u{a0}' } => Ok("Rec:\n  s: \"\u{a0}nbsp\"\n  c: \"\u{a0}\"\n") <= SAME
enum [noblock] Text("mid\u{feff}bom") => Ok("Text: mid\u{feff}bom\n") <= SAME
enum [noblock] [Pair("mid\u{feff}bom", -1)] => Ok("- Pair:\n    - mid\u{feff}bom\n    - -1\n") <= SAME
enum [noblock] Rec { s: "mid\u{feff}bom", c: 'm' } => Ok("Rec:\n  s: mid\u{feff}bom\n  c: m\n") <= SAME
enum [noblock] Text("line\n") => Ok("Text: \"line\\n\"\n") <= SAME
enum [noblock] [Pair("line\n", -1)] => Ok("- Pair:\n    - \"line\\n\"\n    - -1\n") <= SAME
enum [noblock] Rec { s: "line\n", c: 'l' } => Ok("Rec:\n  s: \"line\\n\"\n  c: l\n") <= SAME
enum [noblock] Text("\n\n") => Ok("Text: \"\\n\\n\"\n") <= SAME
enum [noblock] [Pair("\n\n", -1)] => Ok("- Pair:\n    - \"\\n\\n\"\n    - -1\n") <= SAME
enum [noblock] Rec { s: "\n\n", c: '\n' } => Ok("Rec:\n  s: \"\\n\\n\"\n  c: \"\\n\"\n") <= SAME
enum [noblock] Text("a\n\n\nb\n\n\n") => Ok("Text: \"a\\n\\n\\nb\\n\\n\\n\"\n") <= SAME
enum [noblock] [Pair("a\n\n\nb\n\n\n", -1)] => Ok("- Pair:\n    - \"a\\n\\n\\nb\\n\\n\\n\"\n    - -1\n") <= SAME
enum [noblock] Rec { s: "a\n\n\nb\n\n\n", c: 'a' } => Ok("Rec:\n  s: \"a\\n\\n\\nb\\n\\n\\n\"\n  c: a\n") <= SAME
enum [noblock] Text("a\n  b\n") => Ok("Text: \"a\\n  b\\n\"\n") <= SAME
enum [noblock] [Pair("a\n  b\n", -1)] => Ok("- Pair:\n    - \"a\\n  b\\n\"\n    - -1\n") <= SAME
enum [noblock] Rec { s: "a\n  b\n", c: 'a' } => Ok("Rec:\n  s: \"a\\n  b\\n\"\n  c: a\n") <= SAME
enum [noblock] Text("# not comment\nline") => Ok("Text: \"# not comment\\nline\"\n") <= SAME
enum [noblock] [Pair("# not comment\nline", -1)] => Ok("- Pair:\n    - \"# not comment\\nline\"\n    - -1\n") <= SAME
enum [noblock] Rec { s: "# not comment\nline", c: '#' } => Ok("Rec:\n  s: \"# not comment\\nline\"\n  c: '#'\n") <= SAME
enum [noblock] Text("crlf\r\nhere") => Ok("Text: \"crlf\\r\\nhere\"\n") <= SAME
enum [noblock] [Pair("crlf\r\nhere", -1)] => Ok("- Pair:\n    - \"crlf\\r\\nhere\"\n    - -1\n") <= SAME
enum [noblock] Rec { s: "crlf\r\nhere", c: 'c' } => Ok("Rec:\n  s: \"crlf\\r\\nhere\"\n  c: c\n") <= SAME
enum [noblock] Text("\u{8}") => Ok("Text: \"\\b\"\n") <= SAME
enum [noblock] [Pair("\u{8}", -1)] => Ok("- Pair:\n    - \"\\b\"\n    - -1\n") <= SAME
enum [noblock] Rec { s: "\u{8}", c: '\u{8}' } => Ok("Rec:\n  s: \"\\b\"\n  c: \"\\b\"\n") <= SAME
enum [noblock] Text("\u{1b}") => Ok("Text: \"\\e\"\n") <= SAME
enum [noblock] [Pair("\u{1b}", -1)] => Ok("- Pair:\n    - \"\\e\"\n    - -1\n") <= SAME
enum [noblock] Rec { s: "\u{1b}", c: '\u{1b}' } => Ok("Rec:\n  s: \"\\e\"\n  c: \"\\e\"\n") <= SAME
enum [noblock] Text("\u{7f}") => Ok("Text: \"\\x7F\"\n") <= SAME
enum [noblock] [Pair("\u{7f}", -1)] => Ok("- Pair:\n    - \"\\x7F\"\n    - -1\n") <= SAME
enum [noblock] Rec { s: "\u{7f}", c: '\u{7f}' } => Ok("Rec:\n  s: \"\\x7F\"\n  c: \"\\x7F\"\n") <= SAME
enum [noblock] Text("\u{9f}") => Ok("Text: \"\\x9F\"\n") <= SAME
enum [noblock] [Pair("\u{9f}", -1)] => Ok("- Pair:\n    - \"\\x9F\"\n    - -1\n") <= SAME
enum [noblock] Rec { s: "\u{9f}", c: '\u{9f}' } => Ok("Rec:\n  s: \"\\x9F\"\n  c: \"\\x9F\"\n") <= SAME
enum [noblock] Text("a\u{2028}b") => Ok("Text: a\u{2028}b\n") <= SAME
enum [noblock] [Pair("a\u{2028}b", -1)] => Ok("- Pair:\n    - a\u{2028}b\n    - -1\n") <= SAME
enum [noblock] Rec { s: "a\u{2028}b", c: 'a' } => Ok("Rec:\n  s: a\u{2028}b\n  c: a\n") <= SAME
enum [noblock] Text("''") => Ok("Text: \"''\"\n") <= SAME
enum [noblock] [Pair("''", -1)] => Ok("- Pair:\n    - \"''\"\n    - -1\n") <= SAME
enum [noblock] Rec { s: "''", c: '\'' } => Ok("Rec:\n  s: \"''\"\n  c: \"'\"\n") <= SAME
enum [noblock] Text("\\") => Ok("Text: \\\n") <= SAME
enum [noblock] [Pair("\\", -1)] => Ok("- Pair:\n    - \\\n    - -1\n") <= SAME
enum [noblock] Rec { s: "\\", c: '\\' } => Ok("Rec:\n  s: \\\n  c: \\\n") <= SAME
enum [noblock] Text("😀") => Ok("Text: 😀\n") <= SAME
enum [noblock] [Pair("😀", -1)] => Ok("- Pair:\n    - 😀\n    - -1\n") <= SAME
enum [noblock] Rec { s: "😀", c: '😀' } => Ok("Rec:\n  s: 😀\n  c: 😀\n") <= SAME
enum [noblock] Text("2001-12-14") => Ok("Text: 2001-12-14\n") <= SAME
enum [noblock] [Pair("2001-12-14", -1)] => Ok("- Pair:\n    - 2001-12-14\n    - -1\n") <= SAME
enum [noblock] Rec { s: "2001-12-14", c: '2' } => Ok("Rec:\n  s: 2001-12-14\n  c: \"2\"\n") <= SAME
enum [noblock] Text("word word word word word word word word word word word word word word word word word word word word word word word word word word word word word word ") => Ok("Text: \"word word word word word word word word word word word word word word word word word word word word word word word word word word word word word word \"\n") <= SAME
enum [noblock] [Pair("word word word word word word word word word word word word word word word word word word word word word word word word word word word word word word ", -1)] => Ok("- Pair:\n    - \"word word word word word word word word word word word word word word word word word word word word word word word word word word word word word word \"\n    - -1\n") <= SAME
enum [noblock] Rec { s: "word word word word word word word word word word word word word word word word word word word word word word word word word word word word word word ", c: 'w' } => Ok("Rec:\n  s: \"word word word word word word word word word word word word word word word word word word word word word word word word word word word word word word \"\n  c: w\n") <= SAME
enum [noblock] Text("xxxxxxxxxxxxxxxxxxxxxxxxxxxxxxxxxxxxxxxxxxxxxxxxxxxxxxxxxxxxxxxxxxxxxxxxxxxxxxxxxxxxxxxxxxxxxxxxxxxxxxxxxxxxxxxxxxxxxxxx") => Ok("Text: xxxxxxxxxxxxxxxxxxxxxxxxxxxxxxxxxxxxxxxxxxxxxxxxxxxxxxxxxxxxxxxxxxxxxxxxxxxxxxxxxxxxxxxxxxxxxxxxxxxxxxxxxxxxxxxxxxxxxxxx\n") <= SAME
enum [noblock] [Pair("xxxxxxxxxxxxxxxxxxxxxxxxxxxxxxxxxxxxxxxxxxxxxxxxxxxxxxxxxxxxxxxxxxxxxxxxxxxxxxxxxxxxxxxxxxxxxxxxxxxxxxxxxxxxxxxxxxxxxxxx", -1)] => Ok("- Pair:\n    - xxxxxxxxxxxxxxxxxxxxxxxxxxxxxxxxxxxxxxxxxxxxxxxxxxxxxxxxxxxxxxxxxxxxxxxxxxxxxxxxxxxxxxxxxxxxxxxxxxxxxxxxxxxxxxxxxxxxxxxx\n    - -1\n") <= SAME
enum [noblock] Rec { s: "xxxxxxxxxxxxxxxxxxxxxxxxxxxxxxxxxxxxxxxxxxxxxxxxxxxxxxxxxxxxxxxxxxxxxxxxxxxxxxxxxxxxxxxxxxxxxxxxxxxxxxxxxxxxxxxxxxxxxxxx", c: 'x' } => Ok("Rec:\n  s: xxxxxxxxxxxxxxxxxxxxxxxxxxxxxxxxxxxxxxxxxxxxxxxxxxxxxxxxxxxxxxxxxxxxxxxxxxxxxxxxxxxxxxxxxxxxxxxxxxxxxxxxxxxxxxxxxxxxxxxx\n  c: x\n") <= SAME
enum [noblock] Text("aaaaaaaaaaaaaaaaaaaaaaaaaaaaaaaaaaaaaaaaaaaaaaaaaa # bbbbbbbbbbbbbbbbbbbbbbbbbbbbbbbbbbbbbbbbbbbbbbbbbb") => Ok("Text: \"aaaaaaaaaaaaaaaaaaaaaaaaaaaaaaaaaaaaaaaaaaaaaaaaaa # bbbbbbbbbbbbbbbbbbbbbbbbbbbbbbbbbbbbbbbbbbbbbbbbbb\"\n") <= SAME
enum [noblock] [Pair("aaaaaaaaaaaaaaaaaaaaaaaaaaaaaaaaaaaaaaaaaaaaaaaaaa # bbbbbbbbbbbbbbbbbbbbbbbbbbbbbbbbbbbbbbbbbbbbbbbbbb", -1)] => Ok("- Pair:\n    - \"aaaaaaaaaaaaaaaaaaaaaaaaaaaaaaaaaaaaaaaaaaaaaaaaaa # bbbbbbbbbbbbbbbbbbbbbbbbbbbbbbbbbbbbbbbbbbbbbbbbbb\"\n    - -1\n") <= SAME
enum [noblock] Rec { s: "aaaaaaaaaaaaaaaaaaaaaaaaaaaaaaaaaaaaaaaaaaaaaaaaaa # bbbbbbbbbbbbbbbbbbbbbbbbbbbbbbbbbbbbbbbbbbbbbbbbbb", c: 'a' } => Ok("Rec:\n  s: \"aaaaaaaaaaaaaaaaaaaaaaaaaaaaaaaaaaaaaaaaaaaaaaaaaa # bbbbbbbbbbbbbbbbbbbbbbbbbbbbbbbbbbbbbbbbbbbbbbbbbb\"\n  c: a\n") <= SAME
enum [noblock] Text("日本語 テキスト 日本語 テキスト 日本語 テキスト 日本語 テキスト 日本語 テキスト 日本語 テキスト 日本語 テキスト 日本語 テキスト 日本語 テキスト 日本語 テキスト 日本語 テキスト 日本語 テキスト 日本語 テキスト 日本語 テキスト 日本語 テキスト ") => Ok("Text: \"日本語 テキスト 日本語 テキスト 日本語 テキスト 日本語 テキスト 日本語 テキスト 日本語 テキスト 日本語 テキスト 日本語 テキスト 日本語 テキスト 日本語 テキスト 日本語 テキスト 日本語 テキスト 日本語 テキスト 日本語 テキスト 日本語 テキスト \"\n") <= SAME
enum [noblock] [Pair("日本語 テキスト 日本語 テキスト 日本語 テキスト 日本語 テキスト 日本語 テキスト 日本語 テキスト 日本語 テキスト 日本語 テキスト 日本語 テキスト 日本語 テキスト 日本語 テキスト 日本語 テキスト 日本語 テキスト 日本語 テキスト 日本語 テキスト ", -1)] => Ok("- Pair:\n    - \"日本語 テキスト 日本語 テキスト 日本語 テキスト 日本語 テキスト 日本語 テキスト 日本語 テキスト 日本語 テキスト 日本語 テキスト 日本語 テキスト 日本語 テキスト 日本語 テキスト 日本語 テキスト 日本語 テキスト 日本語 テキスト 日本語 テキスト \"\n    - -1\n") <= SAME
enum [noblock] Rec { s: "日本語 テキスト 日本語 テキスト 日本語 テキスト 日本語 テキスト 日本語 テキスト 日本語 テキスト 日本語 テキスト 日本語 テキスト 日本語 テキスト 日本語 テキスト 日本語 テキスト 日本語 テキスト 日本語 テキスト 日本語 テキスト 日本語 テキスト ", c: '日' } => Ok("Rec:\n  s: \"日本語 テキスト 日本語 テキスト 日本語 テキスト 日本語 テキスト 日本語 テキスト 日本語 テキスト 日本語 テキスト 日本語 テキスト 日本語 テキスト 日本語 テキスト 日本語 テキスト 日本語 テキスト 日本語 テキスト 日本語 テキスト 日本語 テキスト \"\n  c: 日\n") <= SAME
enum [noblock] Text("lorem ipsum lorem ipsum lorem ipsum lorem ipsum lorem ipsum lorem ipsum \ndolor sit dolor sit dolor sit dolor sit dolor sit dolor sit ") => Ok("Text: \"lorem ipsum lorem ipsum lorem ipsum lorem ipsum lorem ipsum lorem ipsum \\ndolor sit dolor sit dolor sit dolor sit dolor sit dolor sit \"\n") <= SAME
enum [noblock] [Pair("lorem ipsum lorem ipsum lorem ipsum lorem ipsum lorem ipsum lorem ipsum \ndolor sit dolor sit dolor sit dolor sit dolor sit dolor sit ", -1)] => Ok("- Pair:\n    - \"lorem ipsum lorem ipsum lorem ipsum lorem ipsum lorem ipsum lorem ipsum \\ndolor sit dolor sit dolor sit dolor sit dolor sit dolor sit \"\n    - -1\n") <= SAME
enum [noblock] Rec { s: "lorem ipsum lorem ipsum lorem ipsum lorem ipsum lorem ipsum lorem ipsum \ndolor sit dolor sit dolor sit dolor sit dolor sit dolor sit ", c: 'l' } => Ok("Rec:\n  s: \"lorem ipsum lorem ipsum lorem ipsum lorem ipsum lorem ipsum lorem ipsum \\ndolor sit dolor sit dolor sit dolor sit dolor sit dolor sit \"\n  c: l\n") <= SAME
doc [noblock] Doc { s: "line one\nline two\n", list: ["  lead\nx", "\n", "~"], opt: None, unit: () } => Ok("s: \"line one\\nline two\\n\"\nlist:\n  - \"  lead\\nx\"\n  - \"\\n\"\n  - \"~\"\nopt: null\nunit: null\n") <= SAME
root [indent4] "" => Ok("\"\"\n") <= SAME
root [indent4] "~" => Ok("\"~\"\n") <= SAME
root [indent4] "null" => Ok("\"null\"\n") <= SAME
root [indent4] "NULL" => Ok("\"NULL\"\n") <= SAME
root [indent4] "Null" => Ok("\"Null\"\n") <= SAME
root [indent4] "true" => Ok("\"true\"\n") <= SAME
root [indent4] "False" => Ok("\"False\"\n") <= SAME
root [indent4] "TRUE" => Ok("\"TRUE\"\n") <= SAME
root [indent4] "yes" => Ok("\"yes\"\n") <= SAME
root [indent4] "y" => Ok("\"y\"\n") <= SAME
root [indent4] "No" => Ok("\"No\"\n") <= SAME
root [indent4] "on" => Ok("\"on\"\n") <= SAME
root [indent4] "OFF" => Ok("\"OFF\"\n") <= SAME
root [indent4] "<<" => Ok("\"<<\"\n") <= SAME
root [indent4] "---" => Ok("\"---\"\n") <= SAME
root [indent4] "--- a" => Ok("\"--- a\"\n") <= SAME
root [indent4] "---a" => Ok("---a\n") <= SAME
root [indent4] "..." => Ok("\"...\"\n") <= SAME
root [indent4] "... x" => Ok("\"... x\"\n") <= SAME
root [indent4] ".nan" => Ok("\".nan\"\n") <= SAME
root [indent4] ".NaN" => Ok("\".NaN\"\n") <= SAME
root [indent4] "-.INF" => Ok("\"-.INF\"\n") <= SAME
root [indent4] "+.inf" => Ok("\"+.inf\"\n") <= SAME
root [indent4] ".inf" => Ok("\".inf\"\n") <= SAME
root [indent4] "+-.inf" => Ok("+-.inf\n") <= SAME
root [indent4] ".infx" => Ok(".infx\n") <= SAME
root [indent4] "nan" => Ok("\"nan\"\n") <= SAME
root [indent4] "NaN" => Ok("\"NaN\"\n") <= SAME
root [indent4] "+inf" => Ok("\"+inf\"\n") <= SAME
root [indent4] "-Infinity" => Ok("\"-Infinity\"\n") <= SAME
root [indent4] "infinity" => Ok("\"infinity\"\n") <= SAME
root [indent4] "0x1F" => Ok("\"0x1F\"\n") <= SAME
root [indent4] "-0x1f" => Ok("\"-0x1f\"\n") <= SAME
root [indent4] "0o17" => Ok("\"0o17\"\n") <= SAME
root [indent4] "0b101" => Ok("\"0b101\"\n") <= SAME
root [indent4] "0b102" => Ok("0b102\n") <= SAME
root [indent4] "1_000" => Ok("\"1_000\"\n") <= SAME
root [indent4] "1e9" => Ok("\"1e9\"\n") <= SAME
root [indent4] "1E+9" => Ok("\"1E+9\"\n") <= SAME
root [indent4] "1." => Ok("\"1.\"\n") <= SAME
root [indent4] ".5" => Ok("\".5\"\n") <= SAME
root [indent4] "+1.5e-3" => Ok("\"+1.5e-3\"\n") <= SAME
root [indent4] "1.5e" => Ok("1.5e\n") <= SAME
root [indent4] "12345678901234567890123456789" => Ok("\"12345678901234567890123456789\"\n") <= SAME
root [indent4] "-" => Ok("'-'\n") <= SAME
root [indent4] "?" => Ok("\"?\"\n") <= SAME
root [indent4] "+" => Ok("+\n") <= SAME
root [indent4] "." => Ok("'.'\n") <= SAME
root [indent4] "#" => Ok("'#'\n") <= SAME
root [indent4] "- a" => Ok("\"- a\"\n") <= SAME
root [indent4] "-a" => Ok("-a\n") <= SAME
root [indent4] "-\ta" => Ok("\"-\\ta\"\n") <= SAME
root [indent4] "?x" => Ok("?x\n") <= SAME
root [indent4] "? x" => Ok("\"? x\"\n") <= SAME
root [indent4] ",a" => Ok("\",a\"\n") <= SAME
root [indent4] ":a" => Ok("\":a\"\n") <= SAME
root [indent4] "[a" => Ok("\"[a\"\n") <= SAME
root [indent4] "]a" => Ok("\"]a\"\n") <= SAME
root [indent4] "{a" => Ok("\"{a\"\n") <= SAME
root [indent4] "}a" => Ok("\"}a\"\n") <= SAME
root [indent4] "%a" => Ok("\"%a\"\n") <= SAME
root [indent4] "@a" => Ok("\"@a\"\n") <= SAME
root [indent4] "`a" => Ok("\"`a\"\n") <= SAME
root [indent4] "!a" => Ok("\"!a\"\n") <= SAME
root [indent4] "&a" => Ok("\"&a\"\n") <= SAME
root [indent4] "*a" => Ok("\"*a\"\n") <= SAME
root [indent4] "|a" => Ok("\"|a\"\n") <= SAME
root [indent4] ">a" => Ok("\">a\"\n") <= SAME
root [indent4] "'a" => Ok("\"'a\"\n") <= SAME
root [indent4] "\"a" => Ok("\"\\\"a\"\n") <= SAME
root [indent4] "a: b" => Ok("\"a: b\"\n") <= SAME
root [indent4] "a:b" => Ok("a:b\n") <= SAME
root [indent4] "a:" => Ok("\"a:\"\n") <= SAME
root [indent4] "a: " => Ok("\"a: \"\n") <= SAME
root [indent4] "a #b" => Ok("\"a #b\"\n") <= SAME
root [indent4] "a#b" => Ok("\"a#b\"\n") <= SAME
root [indent4] "a,b" => Ok("a,b\n") <= SAME
root [indent4] "a]b" => Ok("a]b\n") <= SAME
root [indent4] "a{b}" => Ok("a{b}\n") <= SAME
root [indent4] " lead" => Ok("\" lead\"\n") <= SAME
root [indent4] "trail " => Ok("\"trail \"\n") <= SAME
root [indent4] "\u{a0}nbsp" => Ok("\"\u{a0}nbsp\"\n") <= SAME
root [indent4] "em\u{2003}" => Ok("\"em\u{2003}\"\n") <= SAME
root [indent4] "\u{feff}bom" => Ok("\"\\uFEFFbom\"\n") <= SAME
root [indent4] "mid\u{feff}bom" => Ok("mid\u{feff}bom\n") <= SAME
root [indent4] "tab\there" => Ok("\"tab\\there\"\n") <= SAME
root [indent4] "new\nline" => Ok("|-\n    new\n    line\n") <= SAME
root [indent4] "line\n" => Ok("|\n    line\n") <= SAME
root [indent4] "line\n\n" => Ok("|+\n    line\n    \n") <= SAME
root [indent4] "\n" => Ok("\"\\n\"\n") <= SAME
root [indent4] "\n\n" => Ok("\"\\n\\n\"\n") <= SAME
root [indent4] "\n\n\n" => Ok("\"\\n\\n\\n\"\n") <= SAME
root [indent4] "\nlead" => Ok("\"\\nlead\"\n") <= SAME
root [indent4] "a\n\n\nb\n\n\n" => Ok("|+\n    a\n    \n    \n    b\n    \n    \n") <= SAME
root [indent4] "  indented\nline" => Ok("\"  indented\\nline\"\n") <= SAME
root [indent4] "\n  indented after blank\n" => Ok("\"\\n  indented after blank\\n\"\n") <= SAME
root [indent4] "a\n  b\n" => Ok("|\n    a\n      b\n") <= SAME
root [indent4] "key: v\nnext" => Ok("\"key: v\\nnext\"\n") <= SAME
root [indent4] "ends with colon:\nx:" => Ok("\"ends with colon:\\nx:\"\n") <= SAME
root [indent4] "# not comment\nline" => Ok("\"# not comment\\nline\"\n") <= SAME
root [indent4] "trailing space \nline" => Ok("|-\n    trailing space \n    line\n") <= SAME
root [indent4] "cr\rhere" => Ok("\"cr\\rhere\"\n") <= SAME
root [indent4] "crlf\r\nhere" => Ok("\"crlf\\r\\nhere\"\n") <= SAME
root [indent4] "\0" => Ok("\"\\0\"\n") <= SAME
root [indent4] "\u{7}" => Ok("\"\\a\"\n") <= SAME
root [indent4] "\u{8}" => Ok("\"\\b\"\n") <= SAME
root [indent4] "\u{b}" => Ok("\"\\v\"\n") <= SAME
root [indent4] "\u{c}" => Ok("\"\\f\"\n") <= SAME
root [indent4] "\u{1b}" => Ok("\"\\e\"\n") <= SAME
root [indent4] "\u{1}" => Ok("\"\\x01\"\n") <= SAME
root [indent4] "\u{1f}" => Ok("\"\\x1F\"\n") <= SAME
root [indent4] "\u{7f}" => Ok("\"\\x7F\"\n") <= SAME
root [indent4] "\u{80}" => Ok("\"\\x80\"\n") <= SAME
root [indent4] "\u{85}" => Ok("\"\\N\"\n") <= SAME
root [indent4] "\u{9f}" => Ok("\"\\x9F\"\n") <= SAME
root [indent4] "\u{2028}" => Ok("\"\\L\"\n") <= SAME
root [indent4] "\u{2029}" => Ok("\"\\P\"\n") <= SAME
root [indent4] "a\u{2028}b" => Ok("a\u{2028}b\n") <= SAME
root [indent4] "it's" => Ok("it's\n") <= SAME
root [indent4] "'" => Ok("\"'\"\n") <= SAME
root [indent4] "''" => Ok("\"''\"\n") <= SAME
root [indent4] "say \"hi\"" => Ok("say \"hi\"\n") <= SAME
root [indent4] "back\\slash" => Ok("back\\slash\n") <= SAME
root [indent4] "\\" => Ok("\\\n") <= SAME
root [indent4] "é" => Ok("é\n") <= SAME
root [indent4] "日本語" => Ok("日本語\n") <= SAME
root [indent4] "😀" => Ok("😀\n") <= SAME
root [indent4] "1.0.0" => Ok("1.0.0\n") <= SAME
root [indent4] "12:30" => Ok("12:30\n") <= SAME
root [indent4] "2001-12-14" => Ok("2001-12-14\n") <= SAME
root [indent4] "a b" => Ok("a b\n") <= SAME
root [indent4] "word word word word word word word word word word word word word word word word word word word word word word word word word word word word word word" => Ok(">-\n    word word word word word word word word word word word word word word word word\n    word word word word word word word word word word word word word word\n") <= SAME
root [indent4] "word word word word word word word word word word word word word word word word word word word word word word word word word word word word word word " => Ok(">-\n    word word word word word word word word word word word word word word word word\n    word word word word word word word word word word word word word word \n") <= SAME
root [indent4] "word word word word word word word word word word word word word word word word word word word word word word word word word word word word word word\n" => Ok("|\n    word word word word word word word word word word word word word word word word word word word word word word word word word word word word word word\n") <= SAME
root [indent4] "word word word word word word word word word word word word word word word word word word word word word word word word word word word word word word\n\n" => Ok("|+\n    word word word word word word word word word word word word word word word word word word word word word word word word word word word word word word\n    \n") <= SAME
root [indent4] "xxxxxxxxxxxxxxxxxxxxxxxxxxxxxxxxxxxxxxxxxxxxxxxxxxxxxxxxxxxxxxxxxxxxxxxxxxxxxxxxxxxxxxxxxxxxxxxxxxxxxxxxxxxxxxxxxxxxxxxx" => Ok(">-\n    xxxxxxxxxxxxxxxxxxxxxxxxxxxxxxxxxxxxxxxxxxxxxxxxxxxxxxxxxxxxxxxxxxxxxxxxxxxxxxxxxxxxxxxxxxxxxxxxxxxxxxxxxxxxxxxxxxxxxxxx\n") <= SAME
root [indent4] "aaaaaaaaaaaaaaaaaaaaaaaaaaaaaaaaaaaaaaaaaaaaaaaaaa   bbbbbbbbbbbbbbbbbbbbbbbbbbbbbbbbbbbbbbbbbbbbbbbbbb  cccccccccccccccccccccccccccccccccccccccccccccccccc" => Ok(">-\n    aaaaaaaaaaaaaaaaaaaaaaaaaaaaaaaaaaaaaaaaaaaaaaaaaa  \n    bbbbbbbbbbbbbbbbbbbbbbbbbbbbbbbbbbbbbbbbbbbbbbbbbb  cccccccccccccccccccccccccccccccccccccccccccccccccc\n") <= SAME
root [indent4] "aaaaaaaaaaaaaaaaaaaaaaaaaaaaaaaaaaaaaaaaaaaaaaaaaa\tbbbbbbbbbbbbbbbbbbbbbbbbbbbbbbbbbbbbbbbbbbbbbbbbbb\tcccccccccccccccccccccccccccccccccccccccccccccccccc" => Ok("\"aaaaaaaaaaaaaaaaaaaaaaaaaaaaaaaaaaaaaaaaaaaaaaaaaa\\tbbbbbbbbbbbbbbbbbbbbbbbbbbbbbbbbbbbbbbbbbbbbbbbbbb\\tcccccccccccccccccccccccccccccccccccccccccccccccccc\"\n") <= SAME
root [indent4] "aaaaaaaaaaaaaaaaaaaaaaaaaaaaaaaaaaaaaaaaaaaaaaaaaa # bbbbbbbbbbbbbbbbbbbbbbbbbbbbbbbbbbbbbbbbbbbbbbbbbb" => Ok("\"aaaaaaaaaaaaaaaaaaaaaaaaaaaaaaaaaaaaaaaaaaaaaaaaaa # bbbbbbbbbbbbbbbbbbbbbbbbbbbbbbbbbbbbbbbbbbbbbbbbbb\"\n") <= SAME
root [indent4] "aaaaaaaaaaaaaaaaaaaaaaaaaaaaaaaaaaaaaaaaaaaaaaaaaa: bbbbbbbbbbbbbbbbbbbbbbbbbbbbbbbbbbbbbbbbbbbbbbbbbb" => Ok("\"aaaaaaaaaaaaaaaaaaaaaaaaaaaaaaaaaaaaaaaaaaaaaaaaaa: bbbbbbbbbbbbbbbbbbbbbbbbbbbbbbbbbbbbbbbbbbbbbbbbbb\"\n") <= SAME
root [indent4] "- lorem ipsum lorem ipsum lorem ipsum lorem ipsum lorem ipsum lorem ipsum lorem ipsum lorem ipsum lorem ipsum lorem ipsum " => Ok("\"- lorem ipsum lorem ipsum lorem ipsum lorem ipsum lorem ipsum lorem ipsum lorem ipsum lorem ipsum lorem ipsum lorem ipsum \"\n") <= SAME
root [indent4] "日本語 テキスト 日本語 テキスト 日本語 テキスト 日本語 テキスト 日本語 テキスト 日本語 テキスト 日本語 テキスト 日本語 テキスト 日本語 テキスト 日本語 テキスト 日本語 テキスト 日本語 テキスト 日本語 テキスト 日本語 テキスト 日本語 テキスト " => Ok(">-\n    日本語 テキスト 日本語 テキスト 日本語 テキスト 日本語 テキスト 日本語 テキスト 日本語 テキスト 日本語 テキスト 日本語 テキスト 日本語\n    テキスト 日本語 テキスト 日本語 テキスト 日本語 テキスト 日本語 テキスト 日本語 テキスト 日本語 テキスト \n") <= SAME
root [indent4] "ab ab ab ab ab ab ab ab ab ab ab ab ab ab ab ab ab ab ab ab \u{85}cd cd cd cd cd cd cd cd cd cd cd cd cd cd cd cd cd cd cd cd " => Ok("\"ab ab ab ab ab ab ab ab ab ab ab ab ab ab ab ab ab ab ab ab \\Ncd cd cd cd cd cd cd cd cd cd cd cd cd cd cd cd cd cd cd cd \"\n") <= SAME
root [indent4] "ab ab ab ab ab ab ab ab ab ab ab ab ab ab ab ab ab ab ab ab \rcd cd cd cd cd cd cd cd cd cd cd cd cd cd cd cd cd cd cd cd " => Ok("\"ab ab ab ab ab ab ab ab ab ab ab ab ab ab ab ab ab ab ab ab \\rcd cd cd cd cd cd cd cd cd cd cd cd cd cd cd cd cd cd cd cd \"\n") <= SAME
root [indent4] "lorem ipsum lorem ipsum lorem ipsum lorem ipsum lorem ipsum lorem ipsum \ndolor sit dolor sit dolor sit dolor sit dolor sit dolor sit " => Ok("|-\n    lorem ipsum lorem ipsum lorem ipsum lorem ipsum lorem ipsum lorem ipsum \n    dolor sit dolor sit dolor sit dolor sit dolor sit dolor sit \n") <= SAME
root [indent4] "  lorem ipsum lorem ipsum lorem ipsum lorem ipsum lorem ipsum lorem ipsum \ndolor: sit dolor: sit dolor: sit dolor: sit dolor: sit dolor: sit \n\n" => Ok("\"  lorem ipsum lorem ipsum lorem ipsum lorem ipsum lorem ipsum lorem ipsum \\ndolor: sit dolor: sit dolor: sit dolor: sit dolor: sit dolor: sit \\n\\n\"\n") <= SAME
root [indent4] "lorem ipsum lorem ipsum lorem ipsum lorem ipsum lorem ipsum lorem ipsum :\ndolor sit dolor sit dolor sit dolor sit dolor sit dolor sit :" => Ok("|-\n    lorem ipsum lorem ipsum lorem ipsum lorem ipsum lorem ipsum lorem ipsum :\n    dolor sit dolor sit dolor sit dolor sit dolor sit dolor sit :\n") <= SAME
seq [indent4] ["", "~", "null", "NULL", "Null", "true", "False", "TRUE", "yes", "y", "No", "on", "OFF", "<<", "---", "--- a", "---a", "...", "... x", ".nan", ".NaN", "-.INF", "+.inf", ".inf", "+-.inf", ".infx", "nan", "NaN", "+inf", "-Infinity", "infinity", "0x1F", "-0x1f", "0o17", "0b101", "0b102", "1_000", "1e9", "1E+9", "1.", ".5", "+1.5e-3", "1.5e", "12345678901234567890123456789", "-", "?", "+", ".", "#", "- a", "-a", "-\ta", "?x", "? x", ",a", ":a", "[a", "]a", "{a", "}a", "%a", "@a", "`a", "!a", "&a", "*a", "|a", ">a", "'a", "\"a", "a: b", "a:b", "a:", "a: ", "a #b", "a#b", "a,b", "a]b", "a{b}", " lead", "trail ", "\u{a0}nbsp", "em\u{2003}", "\u{feff}bom", "mid\u{feff}bom", "tab\there", "new\nline", "line\n", "line\n\n", "\n", "\n\n", "\n\n\n", "\nlead", "a\n\n\nb\n\n\n", "  indented\nline", "\n  indented after blank\n", "a\n  b\n", "key: v\nnext", "ends with colon:\nx:", "# not comment\nline", "trailing space \nline", "cr\rhere", "crlf\r\nhere", "\0", "\u{7}", "\u{8}", "\u{b}", "\u{c}", "\u{1b}", "\u{1}", "\u{1f}", "\u{7f}", "\u{80}", "\u{85}", "\u{9f}", "\u{2028}", "\u{2029}", "a\u{2028}b", "it's", "'", "''", "say \"hi\"", "back\\slash", "\\", "é", "日本語", "😀", "1.0.0", "12:30", "2001-12-14", "a b", "word word word word word word word word word word word word word word word word word word word word word word word word word word word word word word", "word word word word word word word word word word word word word word word word word word word word word word word word word word word word word word ", "word word word word word word word word word word word word word word word word word word word word word word word word word word word word word word\n", "word word word word word word word word word word word word word word word word word word word word word word word word word word word word word word\n\n", "xxxxxxxxxxxxxxxxxxxxxxxxxxxxxxxxxxxxxxxxxxxxxxxxxxxxxxxxxxxxxxxxxxxxxxxxxxxxxxxxxxxxxxxxxxxxxxxxxxxxxxxxxxxxxxxxxxxxxxxx", "aaaaaaaaaaaaaaaaaaaaaaaaaaaaaaaaaaaaaaaaaaaaaaaaaa   bbbbbbbbbbbbbbbbbbbbbbbbbbbbbbbbbbbbbbbbbbbbbbbbbb  cccccccccccccccccccccccccccccccccccccccccccccccccc", "aaaaaaaaaaaaaaaaaaaaaaaaaaaaaaaaaaaaaaaaaaaaaaaaaa\tbbbbbbbbbbbbbbbbbbbbbbbbbbbbbbbbbbbbbbbbbbbbbbbbbb\tcccccccccccccccccccccccccccccccccccccccccccccccccc", "aaaaaaaaaaaaaaaaaaaaaaaaaaaaaaaaaaaaaaaaaaaaaaaaaa # bbbbbbbbbbbbbbbbbbbbbbbbbbbbbbbbbbbbbbbbbbbbbbbbbb", "aaaaaaaaaaaaaaaaaaaaaaaaaaaaaaaaaaaaaaaaaaaaaaaaaa: bbbbbbbbbbbbbbbbbbbbbbbbbbbbbbbbbbbbbbbbbbbbbbbbbb", "- lorem ipsum lorem ipsum lorem ipsum lorem ipsum lorem ipsum lorem ipsum lorem ipsum lorem ipsum lorem ipsum lorem ipsum ", "日本語 テキスト 日本語 テキスト 日本語 テキスト 日本語 テキスト 日本語 テキスト 日本語 テキスト 日本語 テキスト 日本語 テキスト 日本語 テキスト 日本語 テキスト 日本語 テキスト 日本語 テキスト 日本語 テキスト 日本語 テキスト 日本語 テキスト ", "ab ab ab ab ab ab ab ab ab ab ab ab ab ab ab ab ab ab ab ab \u{85}cd cd cd cd cd cd cd cd cd cd cd cd cd cd cd cd cd cd cd cd ", "ab ab ab ab ab ab ab ab ab ab ab ab ab ab ab ab ab ab ab ab \rcd cd cd cd cd cd cd cd cd cd cd cd cd cd cd cd cd cd cd cd ", "lorem ipsum lorem ipsum lorem ipsum lorem ipsum lorem ipsum lorem ipsum \ndolor sit dolor sit dolor sit dolor sit dolor sit dolor sit ", "  lorem ipsum lorem ipsum lorem ipsum lorem ipsum lorem ipsum lorem ipsum \ndolor: sit dolor: sit dolor: sit dolor: sit dolor: sit dolor: sit \n\n", "lorem ipsum lorem ipsum lorem ipsum lorem ipsum lorem ipsum lorem ipsum :\ndolor sit dolor sit dolor sit dolor sit dolor sit dolor sit :"] => Ok("- \"\"\n- \"~\"\n- \"null\"\n- \"NULL\"\n- \"Null\"\n- \"true\"\n- \"False\"\n- \"TRUE\"\n- \"yes\"\n- \"y\"\n- \"No\"\n- \"on\"\n- \"OFF\"\n- \"<<\"\n- \"---\"\n- \"--- a\"\n- ---a\n- \"...\"\n- \"... x\"\n- \".nan\"\n- \".NaN\"\n- \"-.INF\"\n- \"+.inf\"\n- \".inf\"\n- +-.inf\n- .infx\n- \"nan\"\n- \"NaN\"\n- \"+inf\"\n- \"-Infinity\"\n- \"infinity\"\n- \"0x1F\"\n- \"-0x1f\"\n- \"0o17\"\n- \"0b101\"\n- 0b102\n- \"1_000\"\n- \"1e9\"\n- \"1E+9\"\n- \"1.\"\n- \".5\"\n- \"+1.5e-3\"\n- 1.5e\n- \"12345678901234567890123456789\"\n- '-'\n- \"?\"\n- +\n- '.'\n- '#'\n- \"- a\"\n- -a\n- \"-\\ta\"\n- ?x\n- \"? x\"\n- \",a\"\n- \":a\"\n- \"[a\"\n- \"]a\"\n- \"{a\"\n- \"}a\"\n- \"%a\"\n- \"@a\"\n- \"`a\"\n- \"!a\"\n- \"&a\"\n- \"*a\"\n- \"|a\"\n- \">a\"\n- \"'a\"\n- \"\\\"a\"\n- \"a: b\"\n- a:b\n- \"a:\"\n- \"a: \"\n- \"a #b\"\n- \"a#b\"\n- a,b\n- a]b\n- a{b}\n- \" lead\"\n- \"trail \"\n- \"\u{a0}nbsp\"\n- \"em\u{2003}\"\n- \"\\uFEFFbom\"\n- mid\u{feff}bom\n- \"tab\\there\"\n- |-\n    new\n    line\n- |\n    line\n- |+\n    line\n    \n- \"\\n\"\n- \"\\n\\n\"\n- \"\\n\\n\\n\"\n- \"\\nlead\"\n- |+\n    a\n    \n    \n    b\n    \n    \n- \"  indented\\nline\"\n- \"\\n  indented after blank\\n\"\n- |\n    a\n      b\n- \"key: v\\nnext\"\n- \"ends with colon:\\nx:\"\n- \"# not comment\\nline\"\n- |-\n    trailing space \n    line\n- \"cr\\rhere\"\n- \"crlf\\r\\nhere\"\n- \"\\0\"\n- \"\\a\"\n- \"\\b\"\n- \"\\v\"\n- \"\\f\"\n- \"\\e\"\n- \"\\x01\"\n- \"\\x1F\"\n- \"\\x7F\"\n- \"\\x80\"\n- \"\\N\"\n- \"\\x9F\"\n- \"\\L\"\n- \"\\P\"\n- a\u{2028}b\n- it's\n- \"'\"\n- \"''\"\n- say \"hi\"\n- back\\slash\n- \\\n- é\n- 日本語\n- 😀\n- 1.0.0\n- 12:30\n- 2001-12-14\n- a b\n- >-\n    word word word word word word word word word word word word word word word word\n    word word word word word word word word word word word word word word\n- >-\n    word word word word word word word word word word word word word word word word\n    word word word word word word word word word word word word word word \n- |\n    word word word word word word word word word word word word word word word word word word word word word word word word word word word word word word\n- |+\n    word word word word word word word word word word word word word word word word word word word word word word word word word word word word word word\n    \n- >-\n    xxxxxxxxxxxxxxxxxxxxxxxxxxxxxxxxxxxxxxxxxxxxxxxxxxxxxxxxxxxxxxxxxxxxxxxxxxxxxxxxxxxxxxxxxxxxxxxxxxxxxxxxxxxxxxxxxxxxxxxx\n- >-\n    aaaaaaaaaaaaaaaaaaaaaaaaaaaaaaaaaaaaaaaaaaaaaaaaaa  \n    bbbbbbbbbbbbbbbbbbbbbbbbbbbbbbbbbbbbbbbbbbbbbbbbbb  cccccccccccccccccccccccccccccccccccccccccccccccccc\n- \"aaaaaaaaaaaaaaaaaaaaaaaaaaaaaaaaaaaaaaaaaaaaaaaaaa\\tbbbbbbbbbbbbbbbbbbbbbbbbbbbbbbbbbbbbbbbbbbbbbbbbbb\\tcccccccccccccccccccccccccccccccccccccccccccccccccc\"\n- \"aaaaaaaaaaaaaaaaaaaaaaaaaaaaaaaaaaaaaaaaaaaaaaaaaa # bbbbbbbbbbbbbbbbbbbbbbbbbbbbbbbbbbbbbbbbbbbbbbbbbb\"\n- \"aaaaaaaaaaaaaaaaaaaaaaaaaaaaaaaaaaaaaaaaaaaaaaaaaa: bbbbbbbbbbbbbbbbbbbbbbbbbbbbbbbbbbbbbbbbbbbbbbbbbb\"\n- \"- lorem ipsum lorem ipsum lorem ipsum lorem ipsum lorem ipsum lorem ipsum lorem ipsum lorem ipsum lorem ipsum lorem ipsum \"\n- >-\n    日本語 テキスト 日本語 テキスト 日本語 テキスト 日本語 テキスト 日本語 テキスト 日本語 テキスト 日本語 テキスト 日本語 テキスト 日本語\n    テキスト 日本語 テキスト 日本語 テキスト 日本語 テキスト 日本語 テキスト 日本語 テキスト 日本語 テキスト \n- \"ab ab ab ab ab ab ab ab ab ab ab ab ab ab ab ab ab ab ab ab \\Ncd cd cd cd cd cd cd cd cd cd cd cd cd cd cd cd cd cd cd cd \"\n- \"ab ab ab ab ab ab ab ab ab ab ab ab ab ab ab ab ab ab ab ab \\rcd cd cd cd cd cd cd cd cd cd cd cd cd cd cd cd cd cd cd cd \"\n- |-\n    lorem ipsum lorem ipsum lorem ipsum lorem ipsum lorem ipsum lorem ipsum \n    dolor sit dolor sit dolor sit dolor sit dolor sit dolor sit \n- \"  lorem ipsum lorem ipsum lorem ipsum lorem ipsum lorem ipsum lorem ipsum \\ndolor: sit dolor: sit dolor: sit dolor: sit dolor: sit dolor: sit \\n\\n\"\n- |-\n    lorem ipsum lorem ipsum lorem ipsum lorem ipsum lorem ipsum lorem ipsum :\n    dolor sit dolor sit dolor sit dolor sit dolor sit dolor sit :\n") <= SAME
mapval [indent4] {"k00": "", "k01": "~", "k02": "null", "k03": "NULL", "k04": "Null", "k05": "true", "k06": "False", "k07": "TRUE", "k08": "yes", "k09": "y", "k10": "No", "k11": "on", "k12": "OFF", "k13": "<<", "k14": "---", "k15": "--- a"} => Ok("k00: \"\"\nk01: \"~\"\nk02: \"null\"\nk03: \"NULL\"\nk04: \"Null\"\nk05: \"true\"\nk06: \"False\"\nk07: \"TRUE\"\nk08: \"yes\"\nk09: \"y\"\nk10: \"No\"\nk11: \"on\"\nk12: \"OFF\"\nk13: \"<<\"\nk14: \"---\"\nk15: \"--- a\"\n") <= SAME
mapkey [indent4] {"": 0, "---": 14, "--- a": 15, "<<": 13, "False": 6, "NULL": 3, "No": 10, "Null": 4, "OFF": 12, "TRUE": 7, "null": 2, "on": 11, "true": 5, "y": 9, "yes": 8, "~": 1} => Ok("\"\": 0\n\"---\": 14\n\"--- a\": 15\n\"<<\": 13\n\"False\": 6\n\"NULL\": 3\n\"No\": 10\n\"Null\": 4\n\"OFF\": 12\n\"TRUE\": 7\n\"null\": 2\n\"on\": 11\n\"true\": 5\n\"y\": 9\n\"yes\": 8\n\"~\": 1\n") <= SAME
nested [indent4] {"outer": [{"k00": "", "k01": "~", "k02": "null", "k03": "NULL", "k04": "Null", "k05": "true", "k06": "False", "k07": "TRUE", "k08": "yes", "k09": "y", "k10": "No", "k11": "on", "k12": "OFF", "k13": "<<", "k14": "---", "k15": "--- a"}, {"k00": "", "k01": "~", "k02": "null", "k03": "NULL", "k04": "Null", "k05": "true", "k06": "False", "k07": "TRUE", "k08": "yes", "k09": "y", "k10": "No", "k11": "on", "k12": "OFF", "k13": "<<", "k14": "---", "k15": "--- a"}]} => Ok("outer:\n    - k00: \"\"\n      k01: \"~\"\n      k02: \"null\"\n      k03: \"NULL\"\n      k04: \"Null\"\n      k05: \"true\"\n      k06: \"False\"\n      k07: \"TRUE\"\n      k08: \"yes\"\n      k09: \"y\"\n      k10: \"No\"\n      k11: \"on\"\n      k12: \"OFF\"\n      k13: \"<<\"\n      k14: \"---\"\n      k15: \"--- a\"\n    - k00: \"\"\n      k01: \"~\"\n      k02: \"null\"\n      k03: \"NULL\"\n      k04: \"Null\"\n      k05: \"true\"\n      k06: \"False\"\n      k07: \"TRUE\"\n      k08: \"yes\"\n      k09: \"y\"\n      k10: \"No\"\n      k11: \"on\"\n      k12: \"OFF\"\n      k13: \"<<\"\n      k14: \"---\"\n      k15: \"--- a\"\n") <= SAME
mapval [indent4] {"k00": "---a", "k01": "...", "k02": "... x", "k03": ".nan", "k04": ".NaN", "k05": "-.INF", "k06": "+.inf", "k07": ".inf", "k08": "+-.inf", "k09": ".infx", "k10": "nan", "k11": "NaN", "k12": "+inf", "k13": "-Infinity", "k14": "infinity", "k15": "0x1F"} => Ok("k00: ---a\nk01: \"...\"\nk02: \"... x\"\nk03: \".nan\"\nk04: \".NaN\"\nk05: \"-.INF\"\nk06: \"+.inf\"\nk07: \".inf\"\nk08: +-.inf\nk09: .infx\nk10: \"nan\"\nk11: \"NaN\"\nk12: \"+inf\"\nk13: \"-Infinity\"\nk14: \"infinity\"\nk15: \"0x1F\"\n") <= SAME
mapkey [indent4] {"+-.inf": 8, "+.inf": 6, "+inf": 12, "---a": 0, "-.INF": 5, "-Infinity": 13, "...": 1, "... x": 2, ".NaN": 4, ".inf": 7, ".infx": 9, ".nan": 3, "0x1F": 15, "NaN": 11, "infinity": 14, "nan": 10} => Ok("+-.inf: 8\n\"+.inf\": 6\n\"+inf\": 12\n---a: 0\n\"-.INF\": 5\n\"-Infinity\": 13\n\"...\": 1\n\"... x\": 2\n\".NaN\": 4\n\".inf\": 7\n.infx: 9\n\".nan\": 3\n\"0x1F\": 15\n\"NaN\": 11\n\"infinity\": 14\n\"nan\": 10\n") <= SAME
nested [indent4] {"outer": [{"k00": "---a", "k01": "...", "k02": "... x", "k03": ".nan", "k04": ".NaN", "k05": "-.INF", "k06": "+.inf", "k07": ".inf", "k08": "+-.inf", "k09": ".infx", "k10": "nan", "k11": "NaN", "k12": "+inf", "k13": "-Infinity", "k14": "infinity", "k15": "0x1F"}, {"k00": "---a", "k01": "...", "k02": "... x", "k03": ".nan", "k04": ".NaN", "k05": "-.INF", "k06": "+.inf", "k07": ".inf", "k08": "+-.inf", "k09": ".infx", "k10": "nan", "k11": "NaN", "k12": "+inf", "k13": "-Infinity", "k14": "infinity", "k15": "0x1F"}]} => Ok("outer:\n    - k00: ---a\n      k01: \"...\"\n      k02: \"... x\"\n      k03: \".nan\"\n      k04: \".NaN\"\n      k05: \"-.INF\"\n      k06: \"+.inf\"\n      k07: \".inf\"\n      k08: +-.inf\n      k09: .infx\n      k10: \"nan\"\n      k11: \"NaN\"\n      k12: \"+inf\"\n      k13: \"-Infinity\"\n      k14: \"infinity\"\n      k15: \"0x1F\"\n    - k00: ---a\n      k01: \"...\"\n      k02: \"... x\"\n      k03: \".nan\"\n      k04: \".NaN\"\n      k05: \"-.INF\"\n      k06: \"+.inf\"\n      k07: \".inf\"\n      k08: +-.inf\n      k09: .infx\n      k10: \"nan\"\n      k11: \"NaN\"\n      k12: \"+inf\"\n      k13: \"-Infinity\"\n      k14: \"infinity\"\n      k15: \"0x1F\"\n") <= SAME
mapval [indent4] {"k00": "-0x1f", "k01": "0o17", "k02": "0b101", "k03": "0b102", "k04": "1_000", "k05": "1e9", "k06": "1E+9", "k07": "1.", "k08": ".5", "k09": "+1.5e-3", "k10": "1.5e", "k11": "12345678901234567890123456789", "k12": "-", "k13": "?", "k14": "+", "k15": "."} => Ok("k00: \"-0x1f\"\nk01: \"0o17\"\nk02: \"0b101\"\nk03: 0b102\nk04: \"1_000\"\nk05: \"1e9\"\nk06: \"1E+9\"\nk07: \"1.\"\nk08: \".5\"\nk09: \"+1.5e-3\"\nk10: 1.5e\nk11: \"12345678901234567890123456789\"\nk12: '-'\nk13: \"?\"\nk14: +\nk15: '.'\n") <= SAME
mapkey [indent4] {"+": 14, "+1.5e-3": 9, "-": 12, "-0x1f": 0, ".": 15, ".5": 8, "0b101": 2, "0b102": 3, "0o17": 1, "1.": 7, "1.5e": 10, "12345678901234567890123456789": 11, "1E+9": 6, "1_000": 4, "1e9": 5, "?": 13} => Ok("+: 14\n\"+1.5e-3\": 9\n\"-\": 12\n\"-0x1f\": 0\n.: 15\n\".5\": 8\n\"0b101\": 2\n0b102: 3\n\"0o17\": 1\n\"1.\": 7\n1.5e: 10\n\"12345678901234567890123456789\": 11\n\"1E+9\": 6\n\"1_000\": 4\n\"1e9\": 5\n\"?\": 13\n") <= SAME
nested [indent4] {"outer": [{"k00": "-0x1f", "k01": "0o17", "k02": "0b101", "k03": "0b102", "k04": "1_000", "k05": "1e9", "k06": "1E+9", "k07": "1.", "k08": ".5", "k09": "+1.5e-3", "k10": "1.5e", "k11": "12345678901234567890123456789", "k12": "-", "k13": "?", "k14": "+", "k15": "."}, {"k00": "-0x1f", "k01": "0o17", "k02": "0b101", "k03": "0b102", "k04": "1_000", "k05": "1e9", "k06": "1E+9", "k07": "1.", "k08": ".5", "k09": "+1.5e-3", "k10": "1.5e", "k11": "12345678901234567890123456789", "k12": "-", "k13": "?", "k14": "+", "k15": "."}]} => Ok("outer:\n    - k00: \"-0x1f\"\n      k01: \"0o17\"\n      k02: \"0b101\"\n      k03: 0b102\n      k04: \"1_000\"\n      k05: \"1e9\"\n      k06: \"1E+9\"\n      k07: \"1.\"\n      k08: \".5\"\n      k09: \"+1.5e-3\"\n      k10: 1.5e\n      k11: \"12345678901234567890123456789\"\n      k12: '-'\n      k13: \"?\"\n      k14: +\n      k15: '.'\n    - k00: \"-0x1f\"\n      k01: \"0o17\"\n      k02: \"0b101\"\n      k03: 0b102\n      k04: \"1_000\"\n      k05: \"1e9\"\n      k06: \"1E+9\"\n      k07: \"1.\"\n      k08: \".5\"\n      k09: \"+1.5e-3\"\n      k10: 1.5e\n      k11: \"12345678901234567890123456789\"\n      k12: '-'\n      k13: \"?\"\n      k14: +\n      k15: '.'\n") <= SAME
mapval [indent4] {"k00": "#", "k01": "- a", "k02": "-a", "k03": "-\ta", "k04": "?x", "k05": "? x", "k06": ",a", "k07": ":a", "k08": "[a", "k09": "]a", "k10": "{a", "k11": "}a", "k12": "%a", "k13": "@a", "k14": "`a", "k15": "!a"} => Ok("k00: '#'\nk01: \"- a\"\nk02: -a\nk03: \"-\\ta\"\nk04: ?x\nk05: \"? x\"\nk06: \",a\"\nk07: \":a\"\nk08: \"[a\"\nk09: \"]a\"\nk10: \"{a\"\nk11: \"}a\"\nk12: \"%a\"\nk13: \"@a\"\nk14: \"`a\"\nk15: \"!a\"\n") <= SAME
mapkey [indent4] {"!a": 15, "#": 0, "%a": 12, ",a": 6, "-\ta": 3, "- a": 1, "-a": 2, ":a": 7, "? x": 5, "?x": 4, "@a": 13, "[a": 8, "]a": 9, "`a": 14, "{a": 10, "}a": 11} => Ok("\"!a\": 15\n\"#\": 0\n\"%a\": 12\n\",a\": 6\n\"-\\ta\": 3\n\"- a\": 1\n-a: 2\n\":a\": 7\n\"? x\": 5\n?x: 4\n\"@a\": 13\n\"[a\": 8\n\"]a\": 9\n\"`a\": 14\n\"{a\": 10\n\"}a\": 11\n") <= SAME
nested [indent4] {"outer": [{"k00": "#", "k01": "- a", "k02": "-a", "k03": "-\ta", "k04": "?x", "k05": "? x", "k06": ",a", "k07": ":a", "k08": "[a", "k09": "]a", "k10": "{a", "k11": "}a", "k12": "%a", "k13": "@a", "k14": "`a", "k15": "!a"}, {"k00": "#", "k01": "- a", "k02": "-a", "k03": "-\ta", "k04": "?x", "k05": "? x", "k06": ",a", "k07": ":a", "k08": "[a", "k09": "]a", "k10": "{a", "k11": "}a", "k12": "%a", "k13": "@a", "k14": "`a", "k15": "!a"}]} => Ok("outer:\n    - k00: '#'\n      k01: \"- a\"\n      k02: -a\n      k03: \"-\\ta\"\n      k04: ?x\n      k05: \"? x\"\n      k06: \",a\"\n      k07: \":a\"\n      k08: \"[a\"\n      k09: \"]a\"\n      k10: \"{a\"\n      k11: \"}a\"\n      k12: \"%a\"\n      k13: \"@a\"\n      k14: \"`a\"\n      k15: \"!a\"\n    - k00: '#'\n      k01: \"- a\"\n      k02: -a\n      k03: \"-\\ta\"\n      k04: ?x\n      k05: \"? x\"\n      k06: \",a\"\n      k07: \":a\"\n      k08: \"[a\"\n      k09: \"]a\"\n      k10: \"{a\"\n      k11: \"}a\"\n      k12: \"%a\"\n      k13: \"@a\"\n      k14: \"`a\"\n      k15: \"!a\"\n") <= SAME
mapval [indent4] {"k00": "&a", "k01": "*a", "k02": "|a", "k03": ">a", "k04": "'a", "k05": "\"a", "k06": "a: b", "k07": "a:b", "k08": "a:", "k09": "a: ", "k10": "a #b", "k11": "a#b", "k12": "a,b", "k13": "a]b", "k14": "a{b}", "k15": " lead"} => Ok("k00: \"&a\"\nk01: \"*a\"\nk02: \"|a\"\nk03: \">a\"\nk04: \"'a\"\nk05: \"\\\"a\"\nk06: \"a: b\"\nk07: a:b\nk08: \"a:\"\nk09: \"a: \"\nk10: \"a #b\"\nk11: \"a#b\"\nk12: a,b\nk13: a]b\nk14: a{b}\nk15: \" lead\"\n") <= SAME
mapkey [indent4] {" lead": 15, "\"a": 5, "&a": 0, "'a": 4, "*a": 1, ">a": 3, "a #b": 10, "a#b": 11, "a,b": 12, "a:": 8, "a: ": 9, "a: b": 6, "a:b": 7, "a]b": 13, "a{b}": 14, "|a": 2} => Ok("\" lead\": 15\n\"\\\"a\": 5\n\"&a\": 0\n\"'a\": 4\n\"*a\": 1\n\">a\": 3\n\"a #b\": 10\n\"a#b\": 11\n\"a,b\": 12\n\"a:\": 8\n\"a: \": 9\n\"a: b\": 6\n\"a:b\": 7\n\"a]b\": 13\n\"a{b}\": 14\n\"|a\": 2\n") <= SAME
nested [indent4] {"outer": [{"k00": "&a", "k01": "*a", "k02": "|a", "k03": ">a", "k04": "'a", "k05": "\"a", "k06": "a: b", "k07": "a:b", "k08": "a:", "k09": "a: ", "k10": "a #b", "k11": "a#b", "k12": "a,b", "k13": "a]b", "k14": "a{b}", "k15": " lead"}, {"k00": "&a", "k01": "*a", "k02": "|a", "k03": ">a", "k04": "'a", "k05": "\"a", "k06": "a: b", "k07": "a:b", "k08": "a:", "k09": "a: ", "k10": "a #b", "k11": "a#b", "k12": "a,b", "k13": "a]b", "k14": "a{b}", "k15": " lead"}]} => Ok("outer:\n    - k00: \"&a\"\n      k01: \"*a\"\n      k02: \"|a\"\n      k03: \">a\"\n      k04: \"'a\"\n      k05: \"\\\"a\"\n      k06: \"a: b\"\n      k07: a:b\n      k08: \"a:\"\n      k09: \"a: \"\n      k10: \"a #b\"\n      k11: \"a#b\"\n      k12: a,b\n      k13: a]b\n      k14: a{b}\n      k15: \" lead\"\n    - k00: \"&a\"\n      k01: \"*a\"\n      k02: \"|a\"\n      k03: \">a\"\n      k04: \"'a\"\n      k05: \"\\\"a\"\n      k06: \"a: b\"\n      k07: a:b\n      k08: \"a:\"\n      k09: \"a: \"\n      k10: \"a #b\"\n      k11: \"a#b\"\n      k12: a,b\n      k13: a]b\n      k14: a{b}\n      k15: \" lead\"\n") <= SAME
mapval [indent4] {"k00": "trail ", "k01": "\u{a0}nbsp", "k02": "em\u{2003}", "k03": "\u{feff}bom", "k04": "mid\u{feff}bom", "k05": "tab\there", "k06": "new\nline", "k07": "line\n", "k08": "line\n\n", "k09": "\n", "k10": "\n\n", "k11": "\n\n\n", "k12": "\nlead", "k13": "a\n\n\nb\n\n\n", "k14": "  indented\nline", "k15": "\n  indented after blank\n"} => Ok("k00: \"trail \"\nk01: \"\u{a0}nbsp\"\nk02: \"em\u{2003}\"\nk03: \"\\uFEFFbom\"\nk04: mid\u{feff}bom\nk05: \"tab\\there\"\nk06: |-\n    new\n    line\nk07: |\n    line\nk08: |+\n    line\n    \nk09: \"\\n\"\nk10: \"\\n\\n\"\nk11: \"\\n\\n\\n\"\nk12: \"\\nlead\"\nk13: |+\n    a\n    \n    \n    b\n    \n    \nk14: \"  indented\\nline\"\nk15: \"\\n  indented after blank\\n\"\n") <= SAME
mapkey [indent4] {"\n": 9, "\n\n": 10, "\n\n\n": 11, "\n  indented after blank\n": 15, "\nlead": 12, "  indented\nline": 14, "a\n\n\nb\n\n\n": 13, "em\u{2003}": 2, "line\n": 7, "line\n\n": 8, "mid\u{feff}bom": 4, "new\nline": 6, "tab\there": 5, "trail ": 0, "\u{a0}nbsp": 1, "\u{feff}bom": 3} => Ok("\"\\n\": 9\n\"\\n\\n\": 10\n\"\\n\\n\\n\": 11\n\"\\n  indented after blank\\n\": 15\n\"\\nlead\": 12\n\"  indented\\nline\": 14\n\"a\\n\\n\\nb\\n\\n\\n\": 13\n\"em\u{2003}\": 2\n\"line\\n\": 7\n\"line\\n\\n\": 8\nmid\u{feff}bom: 4\n\"new\\nline\": 6\n\"tab\\there\": 5\n\"trail \": 0\n\"\u{a0}nbsp\": 1\n\"\u{feff}bom\": 3\n") <= SAME
nested [indent4] {"outer": [{"k00": "trail ", "k01": "\u{a0}nbsp", "k02": "em\u{2003}", "k03": "\u{feff}bom", "k04": "mid\u{feff}bom", "k05": "tab\there", "k06": "new\nline", "k07": "line\n", "k08": "line\n\n", "k09": "\n", "k10": "\n\n", "k11": "\n\n\n", "k12": "\nlead", "k13": "a\n\n\nb\n\n\n", "k14": "  indented\nline", "k15": "\n  indented after blank\n"}, {"k00": "trail ", "k01": "\u{a0}nbsp", "k02": "em\u{2003}", "k03": "\u{feff}bom", "k04": "mid\u{feff}bom", "k05": "tab\there", "k06": "new\nline", "k07": "line\n", "k08": "line\n\n", "k09": "\n", "k10": "\n\n", "k11": "\n\n\n", "k12": "\nlead", "k13": "a\n\n\nb\n\n\n", "k14": "  indented\nline", "k15": "\n  indented after blank\n"}]} => Ok("outer:\n    - k00: \"trail \"\n      k01: \"\u{a0}nbsp\"\n      k02: \"em\u{2003}\"\n      k03: \"\\uFEFFbom\"\n      k04: mid\u{feff}bom\n      k05: \"tab\\there\"\n      k06: |-\n            new\n            line\n      k07: |\n            line\n      k08: |+\n            line\n            \n      k09: \"\\n\"\n      k10: \"\\n\\n\"\n      k11: \"\\n\\n\\n\"\n      k12: \"\\nlead\"\n      k13: |+\n            a\n            \n            \n            b\n            \n            \n      k14: \"  indented\\nline\"\n      k15: \"\\n  indented after blank\\n\"\n    - k00: \"trail \"\n      k01: \"\u{a0}nbsp\"\n      k02: \"em\u{2003}\"\n      k03: \"\\uFEFFbom\"\n      k04: mid\u{feff}bom\n      k05: \"tab\\there\"\n      k06: |-\n            new\n            line\n      k07: |\n            line\n      k08: |+\n            line\n            \n      k09: \"\\n\"\n      k10: \"\\n\\n\"\n      k11: \"\\n\\n\\n\"\n      k12: \"\\nlead\"\n      k13: |+\n            a\n            \n            \n            b\n            \n            \n      k14: \"  indented\\nline\"\n      k15: \"\\n  indented after blank\\n\"\n") <= SAME
mapval [indent4] {"k00": "a\n  b\n", "k01": "key: v\nnext", "k02": "ends with colon:\nx:", "k03": "# not comment\nline", "k04": "trailing space \nline", "k05": "cr\rhere", "k06": "crlf\r\nhere", "k07": "\0", "k08": "\u{7}", "k09": "\u{8}", "k10": "\u{b}", "k11": "\u{c}", "k12": "\u{1b}", "k13": "\u{1}", "k14": "\u{1f}", "k15": "\u{7f}"} => Ok("k00: |\n    a\n      b\nk01: \"key: v\\nnext\"\nk02: \"ends with colon:\\nx:\"\nk03: \"# not comment\\nline\"\nk04: |-\n    trailing space \n    line\nk05: \"cr\\rhere\"\nk06: \"crlf\\r\\nhere\"\nk07: \"\\0\"\nk08: \"\\a\"\nk09: \"\\b\"\nk10: \"\\v\"\nk11: \"\\f\"\nk12: \"\\e\"\nk13: \"\\x01\"\nk14: \"\\x1F\"\nk15: \"\\x7F\"\n") <= SAME
mapkey [indent4] {"\0": 7, "\u{1}": 13, "\u{7}": 8, "\u{8}": 9, "\u{b}": 10, "\u{c}": 11, "\u{1b}": 12, "\u{1f}": 14, "# not comment\nline": 3, "a\n  b\n": 0, "cr\rhere": 5, "crlf\r\nhere": 6, "ends with colon:\nx:": 2, "key: v\nnext": 1, "trailing space \nline": 4, "\u{7f}": 15} => Ok("\"\\u0000\": 7\n\"\\u0001\": 13\n\"\\u0007\": 8\n\"\\u0008\": 9\n\"\\u000B\": 10\n\"\\u000C\": 11\n\"\\u001B\": 12\n\"\\u001F\": 14\n\"# not comment\\nline\": 3\n\"a\\n  b\\n\": 0\n\"cr\\rhere\": 5\n\"crlf\\r\\nhere\": 6\n\"ends with colon:\\nx:\": 2\n\"key: v\\nnext\": 1\n\"trailing space \\nline\": 4\n\"\\u007F\": 15\n") <= SAME
nested [indent4] {"outer": [{"k00": "a\n  b\n", "k01": "key: v\nnext", "k02": "ends with colon:\nx:", "k03": "# not comment\nline", "k04": "trailing space \nline", "k05": "cr\rhere", "k06": "crlf\r\nhere", "k07": "\0", "k08": "\u{7}", "k09": "\u{8}", "k10": "\u{b}", "k11": "\u{c}", "k12": "\u{1b}", "k13": "\u{1}", "k14": "\u{1f}", "k15": "\u{7f}"}, {"k00": "a\n  b\n", "k01": "key: v\nnext", "k02": "ends with colon:\nx:", "k03": "# not comment\nline", "k04": "trailing space \nline", "k05": "cr\rhere", "k06": "crlf\r\nhere", "k07": "\0", "k08": "\u{7}", "k09": "\u{8}", "k10": "\u{b}", "k11": "\u{c}", "k12": "\u{1b}", "k13": "\u{1}", "k14": "\u{1f}", "k15": "\u{7f}"}]} => Ok("outer:\n    - k00: |\n            a\n              b\n      k01: \"key: v\\nnext\"\n      k02: \"ends with colon:\\nx:\"\n      k03: \"# not comment\\nline\"\n      k04: |-\n            trailing space \n            line\n      k05: \"cr\\rhere\"\n      k06: \"crlf\\r\\nhere\"\n      k07: \"\\0\"\n      k08: \"\\a\"\n      k09: \"\\b\"\n      k10: \"\\v\"\n      k11: \"\\f\"\n      k12: \"\\e\"\n      k13: \"\\x01\"\n      k14: \"\\x1F\"\n      k15: \"\\x7F\"\n    - k00: |\n            a\n              b\n      k01: \"key: v\\nnext\"\n      k02: \"ends with colon:\\nx:\"\n      k03: \"# not comment\\nline\"\n      k04: |-\n            trailing space \n            line\n      k05: \"cr\\rhere\"\n      k06: \"crlf\\r\\nhere\"\n      k07: \"\\0\"\n      k08: \"\\a\"\n      k09: \"\\b\"\n      k10: \"\\v\"\n      k11: \"\\f\"\n      k12: \"\\e\"\n      k13: \"\\x01\"\n      k14: \"\\x1F\"\n      k15: \"\\x7F\"\n") <= SAME
mapval [indent4] {"k00": "\u{80}", "k01": "\u{85}", "k02": "\u{9f}", "k03": "\u{2028}", "k04": "\u{2029}", "k05": "a\u{2028}b", "k06": "it's", "k07": "'", "k08": "''", "k09": "say \"hi\"", "k10": "back\\slash", "k11": "\\", "k12": "é", "k13": "日本語", "k14": "😀", "k15": "1.0.0"} => Ok("k00: \"\\x80\"\nk01: \"\\N\"\nk02: \"\\x9F\"\nk03: \"\\L\"\nk04: \"\\P\"\nk05: a\u{2028}b\nk06: it's\nk07: \"'\"\nk08: \"''\"\nk09: say \"hi\"\nk10: back\\slash\nk11: \\\nk12: é\nk13: 日本語\nk14: 😀\nk15: 1.0.0\n") <= SAME
mapkey [indent4] {"'": 7, "''": 8, "1.0.0": 15, "\\": 11, "a\u{2028}b": 5, "back\\slash": 10, "it's": 6, "say \"hi\"": 9, "\u{80}": 0, "\u{85}": 1, "\u{9f}": 2, "é": 12, "\u{2028}": 3, "\u{2029}": 4, "日本語": 13, "😀": 14} => Ok("\"'\": 7\n\"''\": 8\n1.0.0: 15\n\\: 11\na\u{2028}b: 5\nback\\slash: 10\nit's: 6\nsay \"hi\": 9\n\"\\u0080\": 0\n\"\\u0085\": 1\n\"\\u009F\": 2\né: 12\n\"\u{2028}\": 3\n\"\u{2029}\": 4\n日本語: 13\n😀: 14\n") <= SAME
nested [indent4] {"outer": [{"k00": "\u{80}", "k01": "\u{85}", "k02": "\u{9f}", "k03": "\u{2028}", "k04": "\u{2029}", "k05": "a\u{2028}b", "k06": "it's", "k07": "'", "k08": "''", "k09": "say \"hi\"", "k10": "back\\slash", "k11": "\\", "k12": "é", "k13": "日本語", "k14": "😀", "k15": "1.0.0"}, {"k00": "\u{80}", "k01": "\u{85}", "k02": "\u{9f}", "k03": "\u{2028}", "k04": "\u{2029}", "k05": "a\u{2028}b", "k06": "it's", "k07": "'", "k08": "''", "k09": "say \"hi\"", "k10": "back\\slash", "k11": "\\", "k12": "é", "k13": "日本語", "k14": "😀", "k15": "1.0.0"}]} => Ok("outer:\n    - k00: \"\\x80\"\n      k01: \"\\N\"\n      k02: \"\\x9F\"\n      k03: \"\\L\"\n      k04: \"\\P\"\n      k05: a\u{2028}b\n      k06: it's\n      k07: \"'\"\n      k08: \"''\"\n      k09: say \"hi\"\n      k10: back\\slash\n      k11: \\\n      k12: é\n      k13: 日本語\n      k14: 😀\n      k15: 1.0.0\n    - k00: \"\\x80\"\n      k01: \"\\N\"\n      k02: \"\\x9F\"\n      k03: \"\\L\"\n      k04: \"\\P\"\n      k05: a\u{2028}b\n      k06: it's\n      k07: \"'\"\n      k08: \"''\"\n      k09: say \"hi\"\n      k10: back\\slash\n      k11: \\\n      k12: é\n      k13: 日本語\n      k14: 😀\n      k15: 1.0.0\n") <= SAME
mapval [indent4] {"k00": "12:30", "k01": "2001-12-14", "k02": "a b", "k03": "word word word word word word word word word word word word word word word word word word word word word word word word word word word word word word", "k04": "word word word word word word word word word word word word word word word word word word word word word word word word word word word word word word ", "k05": "word word word word word word word word word word word word word word word word word word word word word word word word word word word word word word\n", "k06": "word word word word word word word word word word word word word word word word word word word word word word word word word word word word word word\n\n", "k07": "xxxxxxxxxxxxxxxxxxxxxxxxxxxxxxxxxxxxxxxxxxxxxxxxxxxxxxxxxxxxxxxxxxxxxxxxxxxxxxxxxxxxxxxxxxxxxxxxxxxxxxxxxxxxxxxxxxxxxxxx", "k08": "aaaaaaaaaaaaaaaaaaaaaaaaaaaaaaaaaaaaaaaaaaaaaaaaaa   bbbbbbbbbbbbbbbbbbbbbbbbbbbbbbbbbbbbbbbbbbbbbbbbbb  cccccccccccccccccccccccccccccccccccccccccccccccccc", "k09": "aaaaaaaaaaaaaaaaaaaaaaaaaaaaaaaaaaaaaaaaaaaaaaaaaa\tbbbbbbbbbbbbbbbbbbbbbbbbbbbbbbbbbbbbbbbbbbbbbbbbbb\tcccccccccccccccccccccccccccccccccccccccccccccccccc", "k10": "aaaaaaaaaaaaaaaaaaaaaaaaaaaaaaaaaaaaaaaaaaaaaaaaaa # bbbbbbbbbbbbbbbbbbbbbbbbbbbbbbbbbbbbbbbbbbbbbbbbbb", "k11": "aaaaaaaaaaaaaaaaaaaaaaaaaaaaaaaaaaaaaaaaaaaaaaaaaa: bbbbbbbbbbbbbbbbbbbbbbbbbbbbbbbbbbbbbbbbbbbbbbbbbb", "k12": "- lorem ipsum lorem ipsum lorem ipsum lorem ipsum lorem ipsum lorem ipsum lorem ipsum lorem ipsum lorem ipsum lorem ipsum ", "k13": "日本語 テキスト 日本語 テキスト 日本語 テキスト 日本語 テキスト 日本語 テキスト 日本語 テキスト 日本語 テキスト 日本語 テキスト 日本語 テキスト 日本語 テキスト 日本語 テキスト 日本語 テキスト 日本語 テキスト 日本語 テキスト 日本語 テキスト ", "k14": "ab ab ab ab ab ab ab ab ab ab ab ab ab ab ab ab ab ab ab ab \u{85}cd cd cd cd cd cd cd cd cd cd cd cd cd cd cd cd cd cd cd cd ", "k15": "ab ab ab ab ab ab ab ab ab ab ab ab ab ab ab ab ab ab ab ab \rcd cd cd cd cd cd cd cd cd cd cd cd cd cd cd cd cd cd cd cd "} => Ok("k00: 12:30\nk01: 2001-12-14\nk02: a b\nk03: >-\n    word word word word word word word word word word word word word word word word\n    word word word word word word word word word word word word word word\nk04: >-\n    word word word word word word word word word word word word word word word word\n    word word word word word word word word word word word word word word \nk05: |\n    word word word word word word word word word word word word word word word word word word word word word word word word word word word word word word\nk06: |+\n    word word word word word word word word word word word word word word word word word word word word word word word word word word word word word word\n    \nk07: >-\n    xxxxxxxxxxxxxxxxxxxxxxxxxxxxxxxxxxxxxxxxxxxxxxxxxxxxxxxxxxxxxxxxxxxxxxxxxxxxxxxxxxxxxxxxxxxxxxxxxxxxxxxxxxxxxxxxxxxxxxxx\nk08: >-\n    aaaaaaaaaaaaaaaaaaaaaaaaaaaaaaaaaaaaaaaaaaaaaaaaaa  \n    bbbbbbbbbbbbbbbbbbbbbbbbbbbbbbbbbbbbbbbbbbbbbbbbbb  cccccccccccccccccccccccccccccccccccccccccccccccccc\nk09: \"aaaaaaaaaaaaaaaaaaaaaaaaaaaaaaaaaaaaaaaaaaaaaaaaaa\\tbbbbbbbbbbbbbbbbbbbbbbbbbbbbbbbbbbbbbbbbbbbbbbbbbb\\tcccccccccccccccccccccccccccccccccccccccccccccccccc\"\nk10: \"aaaaaaaaaaaaaaaaaaaaaaaaaaaaaaaaaaaaaaaaaaaaaaaaaa # bbbbbbbbbbbbbbbbbbbbbbbbbbbbbbbbbbbbbbbbbbbbbbbbbb\"\nk11: \"aaaaaaaaaaaaaaaaaaaaaaaaaaaaaaaaaaaaaaaaaaaaaaaaaa: bbbbbbbbbbbbbbbbbbbbbbbbbbbbbbbbbbbbbbbbbbbbbbbbbb\"\nk12: \"- lorem ipsum lorem ipsum lorem ipsum lorem ipsum lorem ipsum lorem ipsum lorem ipsum lorem ipsum lorem ipsum lorem ipsum \"\nk13: >-\n    日本語 テキスト 日本語 テキスト 日本語 テキスト 日本語 テキスト 日本語 テキスト 日本語 テキスト 日本語 テキスト 日本語 テキスト 日本語\n    テキスト 日本語 テキスト 日本語 テキスト 日本語 テキスト 日本語 テキスト 日本語 テキスト 日本語 テキスト \nk14: \"ab ab ab ab ab ab ab ab ab ab ab ab ab ab ab ab ab ab ab ab \\Ncd cd cd cd cd cd cd cd cd cd cd cd cd cd cd cd cd cd cd cd \"\nk15: \"ab ab ab ab ab ab ab ab ab ab ab ab ab ab ab ab ab ab ab ab \\rcd cd cd cd cd cd cd cd cd cd cd cd cd cd cd cd cd cd cd cd \"\n") <= SAME
mapkey [indent4] {"- lorem ipsum lorem ipsum lorem ipsum lorem ipsum lorem ipsum lorem ipsum lorem ipsum lorem ipsum lorem ipsum lorem ipsum ": 12, "12:30": 0, "2001-12-14": 1, "a b": 2, "aaaaaaaaaaaaaaaaaaaaaaaaaaaaaaaaaaaaaaaaaaaaaaaaaa\tbbbbbbbbbbbbbbbbbbbbbbbbbbbbbbbbbbbbbbbbbbbbbbbbbb\tcccccccccccccccccccccccccccccccccccccccccccccccccc": 9, "aaaaaaaaaaaaaaaaaaaaaaaaaaaaaaaaaaaaaaaaaaaaaaaaaa   bbbbbbbbbbbbbbbbbbbbbbbbbbbbbbbbbbbbbbbbbbbbbbbbbb  cccccccccccccccccccccccccccccccccccccccccccccccccc": 8, "aaaaaaaaaaaaaaaaaaaaaaaaaaaaaaaaaaaaaaaaaaaaaaaaaa # bbbbbbbbbbbbbbbbbbbbbbbbbbbbbbbbbbbbbbbbbbbbbbbbbb": 10, "aaaaaaaaaaaaaaaaaaaaaaaaaaaaaaaaaaaaaaaaaaaaaaaaaa: bbbbbbbbbbbbbbbbbbbbbbbbbbbbbbbbbbbbbbbbbbbbbbbbbb": 11, "ab ab ab ab ab ab ab ab ab ab ab ab ab ab ab ab ab ab ab ab \rcd cd cd cd cd cd cd cd cd cd cd cd cd cd cd cd cd cd cd cd ": 15, "ab ab ab ab ab ab ab ab ab ab ab ab ab ab ab ab ab ab ab ab \u{85}cd cd cd cd cd cd cd cd cd cd cd cd cd cd cd cd cd cd cd cd ": 14, "word word word word word word word word word word word word word word word word word word word word word word word word word word word word word word": 3, "word word word word word word word word word word word word word word word word word word word word word word word word word word word word word word\n": 5, "word word word word word word word word word word word word word word word word word word word word word word word word word word word word word word\n\n": 6, "word word word word word word word word word word word word word word word word word word word word word word word word word word word word word word ": 4, "xxxxxxxxxxxxxxxxxxxxxxxxxxxxxxxxxxxxxxxxxxxxxxxxxxxxxxxxxxxxxxxxxxxxxxxxxxxxxxxxxxxxxxxxxxxxxxxxxxxxxxxxxxxxxxxxxxxxxxxx": 7, "日本語 テキスト 日本語 テキスト 日本語 テキスト 日本語 テキスト 日本語 テキスト 日本語 テキスト 日本語 テキスト 日本語 テキスト 日本語 テキスト 日本語 テキスト 日本語 テキスト 日本語 テキスト 日本語 テキスト 日本語 テキスト 日本語 テキスト ": 13} => Ok("\"- lorem ipsum lorem ipsum lorem ipsum lorem ipsum lorem ipsum lorem ipsum lorem ipsum lorem ipsum lorem ipsum lorem ipsum \": 12\n\"12:30\": 0\n2001-12-14: 1\na b: 2\n\"aaaaaaaaaaaaaaaaaaaaaaaaaaaaaaaaaaaaaaaaaaaaaaaaaa\\tbbbbbbbbbbbbbbbbbbbbbbbbbbbbbbbbbbbbbbbbbbbbbbbbbb\\tcccccccccccccccccccccccccccccccccccccccccccccccccc\": 9\naaaaaaaaaaaaaaaaaaaaaaaaaaaaaaaaaaaaaaaaaaaaaaaaaa   bbbbbbbbbbbbbbbbbbbbbbbbbbbbbbbbbbbbbbbbbbbbbbbbbb  cccccccccccccccccccccccccccccccccccccccccccccccccc: 8\n\"aaaaaaaaaaaaaaaaaaaaaaaaaaaaaaaaaaaaaaaaaaaaaaaaaa # bbbbbbbbbbbbbbbbbbbbbbbbbbbbbbbbbbbbbbbbbbbbbbbbbb\": 10\n\"aaaaaaaaaaaaaaaaaaaaaaaaaaaaaaaaaaaaaaaaaaaaaaaaaa: bbbbbbbbbbbbbbbbbbbbbbbbbbbbbbbbbbbbbbbbbbbbbbbbbb\": 11\n\"ab ab ab ab ab ab ab ab ab ab ab ab ab ab ab ab ab ab ab ab \\rcd cd cd cd cd cd cd cd cd cd cd cd cd cd cd cd cd cd cd cd \": 15\n\"ab ab ab ab ab ab ab ab ab ab ab ab ab ab ab ab ab ab ab ab \\u0085cd cd cd cd cd cd cd cd cd cd cd cd cd cd cd cd cd cd cd cd \": 14\nword word word word word word word word word word word word word word word word word word word word word word word word word word word word word word: 3\n\"word word word word word word word word word word word word word word word word word word word word word word word word word word word word word word\\n\": 5\n\"word word word word word word word word word word word word word word word word word word word word word word word word word word word word word word\\n\\n\": 6\n\"word word word word word word word word word word word word word word word word word word word word word word word word word word word word word word \": 4\nxxxxxxxxxxxxxxxxxxxxxxxxxxxxxxxxxxxxxxxxxxxxxxxxxxxxxxxxxxxxxxxxxxxxxxxxxxxxxxxxxxxxxxxxxxxxxxxxxxxxxxxxxxxxxxxxxxxxxxxx: 7\n\"日本語 テキスト 日本語 テキスト 日本語 テキスト 日本語 テキスト 日本語 テキスト 日本語 テキスト 日本語 テキスト 日本語 テキスト 日本語 テキスト 日本語 テキスト 日本語 テキスト 日本語 テキスト 日本語 テキスト 日本語 テキスト 日本語 テキスト \": 13\n") <= SAME
nested [indent4] {"outer": [{"k00": "12:30", "k01": "2001-12-14", "k02": "a b", "k03": "word word word word word word word word word word word word word word word word word word word word word word word word word word word word word word", "k04": "word word word word word word word word word word word word word word word word word word word word word word word word word word word word word word ", "k05": "word word word word word word word word word word word word word word word word word word word word word word word word word word word word word word\n", "k06": "word word word word word word word word word word word word word word word word word word word word word word word word word word word word word word\n\n", "k07": "xxxxxxxxxxxxxxxxxxxxxxxxxxxxxxxxxxxxxxxxxxxxxxxxxxxxxxxxxxxxxxxxxxxxxxxxxxxxxxxxxxxxxxxxxxxxxxxxxxxxxxxxxxxxxxxxxxxxxxxx", "k08": "aaaaaaaaaaaaaaaaaaaaaaaaaaaaaaaaaaaaaaaaaaaaaaaaaa   bbbbbbbbbbbbbbbbbbbbbbbbbbbbbbbbbbbbbbbbbbbbbbbbbb  cccccccccccccccccccccccccccccccccccccccccccccccccc", "k09": "aaaaaaaaaaaaaaaaaaaaaaaaaaaaaaaaaaaaaaaaaaaaaaaaaa\tbbbbbbbbbbbbbbbbbbbbbbbbbbbbbbbbbbbbbbbbbbbbbbbbbb\tcccccccccccccccccccccccccccccccccccccccccccccccccc", "k10": "aaaaaaaaaaaaaaaaaaaaaaaaaaaaaaaaaaaaaaaaaaaaaaaaaa # bbbbbbbbbbbbbbbbbbbbbbbbbbbbbbbbbbbbbbbbbbbbbbbbbb", "k11": "aaaaaaaaaaaaaaaaaaaaaaaaaaaaaaaaaaaaaaaaaaaaaaaaaa: bbbbbbbbbbbbbbbbbbbbbbbbbbbbbbbbbbbbbbbbbbbbbbbbbb", "k12": "- lorem ipsum lorem ipsum lorem ipsum lorem ipsum lorem ipsum lorem ipsum lorem ipsum lorem ipsum lorem ipsum lorem ipsum ", "k13": "日本語 テキスト 日本語 テキスト 日本語 テキスト 日本語 テキスト 日本語 テキスト 日本語 テキスト 日本語 テキスト 日本語 テキスト 日本語 テキスト 日本語 テキスト 日本語 テキスト 日本語 テキスト 日本語 テキスト 日本語 テキスト 日本語 テキスト ", "k14": "ab ab ab ab ab ab ab ab ab ab ab ab ab ab ab ab ab ab ab ab \u{85}cd cd cd cd cd cd cd cd cd cd cd cd cd cd cd cd cd cd cd cd ", "k15": "ab ab ab ab ab ab ab ab ab ab ab ab ab ab ab ab ab ab ab ab \rcd cd cd cd cd cd cd cd cd cd cd cd cd cd cd cd cd cd cd cd "}, {"k00": "12:30", "k01": "2001-12-14", "k02": "a b", "k03": "word word word word word word word word word word word word word word word word word word word word word word word word word word word word word word", "k04": "word word word word word word word word word word word word word word word word word word word word word word word word word word word word word word ", "k05": "word word word word word word word word word word word word word word word word word word word word word word word word word word word word word word\n", "k06": "word word word word word word word word word word word word word word word word word word word word word word word word word word word word word word\n\n", "k07": "xxxxxxxxxxxxxxxxxxxxxxxxxxxxxxxxxxxxxxxxxxxxxxxxxxxxxxxxxxxxxxxxxxxxxxxxxxxxxxxxxxxxxxxxxxxxxxxxxxxxxxxxxxxxxxxxxxxxxxxx", "k08": "aaaaaaaaaaaaaaaaaaaaaaaaaaaaaaaaaaaaaaaaaaaaaaaaaa   bbbbbbbbbbbbbbbbbbbbbbbbbbbbbbbbbbbbbbbbbbbbbbbbbb  cccccccccccccccccccccccccccccccccccccccccccccccccc", "k09": "aaaaaaaaaaaaaaaaaaaaaaaaaaaaaaaaaaaaaaaaaaaaaaaaaa\tbbbbbbbbbbbbbbbbbbbbbbbbbbbbbbbbbbbbbbbbbbbbbbbbbb\tcccccccccccccccccccccccccccccccccccccccccccccccccc", "k10": "aaaaaaaaaaaaaaaaaaaaaaaaaaaaaaaaaaaaaaaaaaaaaaaaaa # bbbbbbbbbbbbbbbbbbbbbbbbbbbbbbbbbbbbbbbbbbbbbbbbbb", "k11": "aaaaaaaaaaaaaaaaaaaaaaaaaaaaaaaaaaaaaaaaaaaaaaaaaa: bbbbbbbbbbbbbbbbbbbbbbbbbbbbbbbbbbbbbbbbbbbbbbbbbb", "k12": "- lorem ipsum lorem ipsum lorem ipsum lorem ipsum lorem ipsum lorem ipsum lorem ipsum lorem ipsum lorem ipsum lorem ipsum ", "k13": "日本語 テキスト 日本語 テキスト 日本語 テキスト 日本語 テキスト 日本語 テキスト 日本語 テキスト 日本語 テキスト 日本語 テキスト 日本語 テキスト 日本語 テキスト 日本語 テキスト 日本語 テキスト 日本語 テキスト 日本語 テキスト 日本語 テキスト ", "k14": "ab ab ab ab ab ab ab ab ab ab ab ab ab ab ab ab ab ab ab ab \u{85}cd cd cd cd cd cd cd cd cd cd cd cd cd cd cd cd cd cd cd cd ", "k15": "ab ab ab ab ab ab ab ab ab ab ab ab ab ab ab ab ab ab ab ab \rcd cd cd cd cd cd cd cd cd cd cd cd cd cd cd cd cd cd cd cd "}]} => Ok("outer:\n    - k00: 12:30\n      k01: 2001-12-14\n      k02: a b\n      k03: >-\n            word word word word word word word word word word word word word word word word\n            word word word word word word word word word word word word word word\n      k04: >-\n            word word word word word word word word word word word word word word word word\n            word word word word word word word word word word word word word word \n      k05: |\n            word word word word word word word word word word word word word word word word word word word word word word word word word word word word word word\n      k06: |+\n            word word word word word word word word word word word word word word word word word word word word word word word word word word word word word word\n            \n      k07: >-\n            xxxxxxxxxxxxxxxxxxxxxxxxxxxxxxxxxxxxxxxxxxxxxxxxxxxxxxxxxxxxxxxxxxxxxxxxxxxxxxxxxxxxxxxxxxxxxxxxxxxxxxxxxxxxxxxxxxxxxxxx\n      k08: >-\n            aaaaaaaaaaaaaaaaaaaaaaaaaaaaaaaaaaaaaaaaaaaaaaaaaa  \n            bbbbbbbbbbbbbbbbbbbbbbbbbbbbbbbbbbbbbbbbbbbbbbbbbb  cccccccccccccccccccccccccccccccccccccccccccccccccc\n      k09: \"aaaaaaaaaaaaaaaaaaaaaaaaaaaaaaaaaaaaaaaaaaaaaaaaaa\\tbbbbbbbbbbbbbbbbbbbbbbbbbbbbbbbbbbbbbbbbbbbbbbbbbb\\tcccccccccccccccccccccccccccccccccccccccccccccccccc\"\n      k10: \"aaaaaaaaaaaaaaaaaaaaaaaaaaaaaaaaaaaaaaaaaaaaaaaaaa # bbbbbbbbbbbbbbbbbbbbbbbbbbbbbbbbbbbbbbbbbbbbbbbbbb\"\n      k11: \"aaaaaaaaaaaaaaaaaaaaaaaaaaaaaaaaaaaaaaaaaaaaaaaaaa: bbbbbbbbbbbbbbbbbbbbbbbbbbbbbbbbbbbbbbbbbbbbbbbbbb\"\n      k12: \"- lorem ipsum lorem ipsum lorem ipsum lorem ipsum lorem ipsum lorem ipsum lorem ipsum lorem ipsum lorem ipsum lorem ipsum \"\n      k13: >-\n            日本語 テキスト 日本語 テキスト 日本語 テキスト 日本語 テキスト 日本語 テキスト 日本語 テキスト 日本語 テキスト 日本語 テキスト 日本語\n            テキスト 日本語 テキスト 日本語 テキスト 日本語 テキスト 日本語 テキスト 日本語 テキスト 日本語 テキスト \n      k14: \"ab ab ab ab ab ab ab ab ab ab ab ab ab ab ab ab ab ab ab ab \\Ncd cd cd cd cd cd cd cd cd cd cd cd cd cd cd cd cd cd cd cd \"\n      k15: \"ab ab ab ab ab ab ab ab ab ab ab ab ab ab ab ab ab ab ab ab \\rcd cd cd cd cd cd cd cd cd cd cd cd cd cd cd cd cd cd cd cd \"\n    - k00: 12:30\n      k01: 2001-12-14\n      k02: a b\n      k03: >-\n            word word word word word word word word word word word word word word word word\n            word word word word word word word word word word word word word word\n      k04: >-\n            word word word word word word word word word word word word word word word word\n            word word word word word word word word word word word word word word \n      k05: |\n            word word word word word word word word word word word word word word word word word word word word word word word word word word word word word word\n      k06: |+\n            word word word word word word word word word word word word word word word word word word word word word word word word word word word word word word\n            \n      k07: >-\n            xxxxxxxxxxxxxxxxxxxxxxxxxxxxxxxxxxxxxxxxxxxxxxxxxxxxxxxxxxxxxxxxxxxxxxxxxxxxxxxxxxxxxxxxxxxxxxxxxxxxxxxxxxxxxxxxxxxxxxxx\n      k08: >-\n            aaaaaaaaaaaaaaaaaaaaaaaaaaaaaaaaaaaaaaaaaaaaaaaaaa  \n            bbbbbbbbbbbbbbbbbbbbbbbbbbbbbbbbbbbbbbbbbbbbbbbbbb  cccccccccccccccccccccccccccccccccccccccccccccccccc\n      k09: \"aaaaaaaaaaaaaaaaaaaaaaaaaaaaaaaaaaaaaaaaaaaaaaaaaa\\tbbbbbbbbbbbbbbbbbbbbbbbbbbbbbbbbbbbbbbbbbbbbbbbbbb\\tcccccccccccccccccccccccccccccccccccccccccccccccccc\"\n      k10: \"aaaaaaaaaaaaaaaaaaaaaaaaaaaaaaaaaaaaaaaaaaaaaaaaaa # bbbbbbbbbbbbbbbbbbbbbbbbbbbbbbbbbbbbbbbbbbbbbbbbbb\"\n      k11: \"aaaaaaaaaaaaaaaaaaaaaaaaaaaaaaaaaaaaaaaaaaaaaaaaaa: bbbbbbbbbbbbbbbbbbbbbbbbbbbbbbbbbbbbbbbbbbbbbbbbbb\"\n      k12: \"- lorem ipsum lorem ipsum lorem ipsum lorem ipsum lorem ipsum lorem ipsum lorem ipsum lorem ipsum lorem ipsum lorem ipsum \"\n      k13: >-\n            日本語 テキスト 日本語 テキスト 日本語 テキスト 日本語 テキスト 日本語 テキスト 日本語 テキスト 日本語 テキスト 日本語 テキスト 日本語\n            テキスト 日本語 テキスト 日本語 テキスト 日本語 テキスト 日本語 テキスト 日本語 テキスト 日本語 テキスト \n      k14: \"ab ab ab ab ab ab ab ab ab ab ab ab ab ab ab ab ab ab ab ab \\Ncd cd cd cd cd cd cd cd cd cd cd cd cd cd cd cd cd cd cd cd \"\n      k15: \"ab ab ab ab ab ab ab ab ab ab ab ab ab ab ab ab ab ab ab ab \\rcd cd cd cd cd cd cd cd cd cd cd cd cd cd cd cd cd cd cd cd \"\n") <= SAME
mapval [indent4] {"k00": "lorem ipsum lorem ipsum lorem ipsum lorem ipsum lorem ipsum lorem ipsum \ndolor sit dolor sit dolor sit dolor sit dolor sit dolor sit ", "k01": "  lorem ipsum lorem ipsum lorem ipsum lorem ipsum lorem ipsum lorem ipsum \ndolor: sit dolor: sit dolor: sit dolor: sit dolor: sit dolor: sit \n\n", "k02": "lorem ipsum lorem ipsum lorem ipsum lorem ipsum lorem ipsum lorem ipsum :\ndolor sit dolor sit dolor sit dolor sit dolor sit dolor sit :"} => Ok("k00: |-\n    lorem ipsum lorem ipsum lorem ipsum lorem ipsum lorem ipsum lorem ipsum \n    dolor sit dolor sit dolor sit dolor sit dolor sit dolor sit \nk01: \"  lorem ipsum lorem ipsum lorem ipsum lorem ipsum lorem ipsum lorem ipsum \\ndolor: sit dolor: sit dolor: sit dolor: sit dolor: sit dolor: sit \\n\\n\"\nk02: |-\n    lorem ipsum lorem ipsum lorem ipsum lorem ipsum lorem ipsum lorem ipsum :\n    dolor sit dolor sit dolor sit dolor sit dolor sit dolor sit :\n") <= SAME
mapkey [indent4] {"  lorem ipsum lorem ipsum lorem ipsum lorem ipsum lorem ipsum lorem ipsum \ndolor: sit dolor: sit dolor: sit dolor: sit dolor: sit dolor: sit \n\n": 1, "lorem ipsum lorem ipsum lorem ipsum lorem ipsum lorem ipsum lorem ipsum \ndolor sit dolor sit dolor sit dolor sit dolor sit dolor sit ": 0, "lorem ipsum lorem ipsum lorem ipsum lorem ipsum lorem ipsum lorem ipsum :\ndolor sit dolor sit dolor sit dolor sit dolor sit dolor sit :": 2} => Ok("\"  lorem ipsum lorem ipsum lorem ipsum lorem ipsum lorem ipsum lorem ipsum \\ndolor: sit dolor: sit dolor: sit dolor: sit dolor: sit dolor: sit \\n\\n\": 1\n\"lorem ipsum lorem ipsum lorem ipsum lorem ipsum lorem ipsum lorem ipsum \\ndolor sit dolor sit dolor sit dolor sit dolor sit dolor sit \": 0\n\"lorem ipsum lorem ipsum lorem ipsum lorem ipsum lorem ipsum lorem ipsum :\\ndolor sit dolor sit dolor sit dolor sit dolor sit dolor sit :\": 2\n") <= SAME
nested [indent4] {"outer": [{"k00": "lorem ipsum lorem ipsum lorem ipsum lorem ipsum lorem ipsum lorem ipsum \ndolor sit dolor sit dolor sit dolor sit dolor sit dolor sit ", "k01": "  lorem ipsum lorem ipsum lorem ipsum lorem ipsum lorem ipsum lorem ipsum \ndolor: sit dolor: sit dolor: sit dolor: sit dolor: sit dolor: sit \n\n", "k02": "lorem ipsum lorem ipsum lorem ipsum lorem ipsum lorem ipsum lorem ipsum :\ndolor sit dolor sit dolor sit dolor sit dolor sit dolor sit :"}, {"k00": "lorem ipsum lorem ipsum lorem ipsum lorem ipsum lorem ipsum lorem ipsum \ndolor sit dolor sit dolor sit dolor sit dolor sit dolor sit ", "k01": "  lorem ipsum lorem ipsum lorem ipsum lorem ipsum lorem ipsum lorem ipsum \ndolor: sit dolor: sit dolor: sit dolor: sit dolor: sit dolor: sit \n\n", "k02": "lorem ipsum lorem ipsum lorem ipsum lorem ipsum lorem ipsum lorem ipsum :\ndolor sit dolor sit dolor sit dolor sit dolor sit dolor sit :"}]} => Ok("outer:\n    - k00: |-\n            lorem ipsum lorem ipsum lorem ipsum lorem ipsum lorem ipsum lorem ipsum \n            dolor sit dolor sit dolor sit dolor sit dolor sit dolor sit \n      k01: \"  lorem ipsum lorem ipsum lorem ipsum lorem ipsum lorem ipsum lorem ipsum \\ndolor: sit dolor: sit dolor: sit dolor: sit dolor: sit dolor: sit \\n\\n\"\n      k02: |-\n            lorem ipsum lorem ipsum lorem ipsum lorem ipsum lorem ipsum lorem ipsum :\n            dolor sit dolor sit dolor sit dolor sit dolor sit dolor sit :\n    - k00: |-\n            lorem ipsum lorem ipsum lorem ipsum lorem ipsum lorem ipsum lorem ipsum \n            dolor sit dolor sit dolor sit dolor sit dolor sit dolor sit \n      k01: \"  lorem ipsum lorem ipsum lorem ipsum lorem ipsum lorem ipsum lorem ipsum \\ndolor: sit dolor: sit dolor: sit dolor: sit dolor: sit dolor: sit \\n\\n\"\n      k02: |-\n            lorem ipsum lorem ipsum lorem ipsum lorem ipsum lorem ipsum lorem ipsum :\n            dolor sit dolor sit dolor sit dolor sit dolor sit dolor sit :\n") <= SAME
flowseq [indent4] => Ok("[\"\", \"~\", \"null\", \"NULL\", \"Null\", \"true\", \"False\", \"TRUE\", \"yes\", \"y\", \"No\", \"on\", \"OFF\", \"<<\", \"---\", \"--- a\"]\n") <= SAME
flowmap [indent4] => Ok("{\"\": \"\", \"---\": \"---\", \"--- a\": \"--- a\", \"<<\": \"<<\", \"False\": \"False\", \"NULL\": \"NULL\", \"No\": \"No\", \"Null\": \"Null\", \"OFF\": \"OFF\", \"TRUE\": \"TRUE\", \"null\": \"null\", \"on\": \"on\", \"true\": \"true\", \"y\": \"y\", \"yes\": \"yes\", \"~\": \"~\"}\n") <= SAME
flowseq [indent4] => Ok("[---a, \"...\", \"... x\", \".nan\", \".NaN\", \"-.INF\", \"+.inf\", \".inf\", +-.inf, .infx, \"nan\", \"NaN\", \"+inf\", \"-Infinity\", \"infinity\", \"0x1F\"]\n") <= SAME
flowmap [indent4] => Ok("{+-.inf: +-.inf, \"+.inf\": \"+.inf\", \"+inf\": \"+inf\", ---a: ---a, \"-.INF\": \"-.INF\", \"-Infinity\": \"-Infinity\", \"...\": \"...\", \"... x\": \"... x\", \".NaN\": \".NaN\", \".inf\": \".inf\", .infx: .infx, \".nan\": \".nan\", \"0x1F\": \"0x1F\", \"NaN\": \"NaN\", \"infinity\": \"infinity\", \"nan\": \"nan\"}\n") <= SAME
flowseq [indent4] => Ok("[\"-0x1f\", \"0o17\", \"0b101\", 0b102, \"1_000\", \"1e9\", \"1E+9\", \"1.\", \".5\", \"+1.5e-3\", 1.5e, \"12345678901234567890123456789\", '-', \"?\", +, '.']\n") <= SAME
flowmap [indent4] => Ok("{+: +, \"+1.5e-3\": \"+1.5e-3\", \"-\": '-', \"-0x1f\": \"-0x1f\", .: '.', \".5\": \".5\", \"0b101\": \"0b101\", 0b102: 0b102, \"0o17\": \"0o17\", \"1.\": \"1.\", 1.5e: 1.5e, \"12345678901234567890123456789\": \"12345678901234567890123456789\", \"1E+9\": \"1E+9\", \"1_000\": \"1_000\", \"1e9\": \"1e9\", \"?\": \"?\"}\n") <= SAME
flowseq [indent4] => Ok("['#', \"- a\", -a, \"-\\ta\", ?x, \"? x\", \",a\", \":a\", \"[a\", \"]a\", \"{a\", \"}a\", \"%a\", \"@a\", \"`a\", \"!a\"]\n") <= SAME
flowmap [indent4] => Ok("{\"!a\": \"!a\", \"#\": '#', \"%a\": \"%a\", \",a\": \",a\", \"-\\ta\": \"-\\ta\", \"- a\": \"- a\", -a: -a, \":a\": \":a\", \"? x\": \"? x\", ?x: ?x, \"@a\": \"@a\", \"[a\": \"[a\", \"]a\": \"]a\", \"`a\": \"`a\", \"{a\": \"{a\", \"}a\": \"}a\"}\n") <= SAME
flowseq [indent4] => Ok("[\"&a\", \"*a\", \"|a\", \">a\", \"'a\", \"\\\"a\", \"a: b\", a:b, \"a:\", \"a: \", \"a #b\", \"a#b\", \"a,b\", \"a]b\", \"a{b}\", \" lead\"]\n") <= SAME
flowmap [indent4] => Ok("{\" lead\": \" lead\", \"\\\"a\": \"\\\"a\", \"&a\": \"&a\", \"'a\": \"'a\", \"*a\": \"*a\", \">a\": \">a\", \"a #b\": \"a #b\", \"a#b\": \"a#b\", \"a,b\": \"a,b\", \"a:\": \"a:\", \"a: \": \"a: \", \"a: b\": \"a: b\", \"a:b\": a:b, \"a]b\": \"a]b\", \"a{b}\": \"a{b}\", \"|a\": \"|a\"}\n") <= SAME
flowseq [indent4] => Ok("[\"trail \", \"\u{a0}nbsp\", \"em\u{2003}\", \"\\uFEFFbom\", mid\u{feff}bom, \"tab\\there\", \"new\\nline\", \"line\\n\", \"line\\n\\n\", \"\\n\", \"\\n\\n\", \"\\n\\n\\n\", \"\\nlead\", \"a\\n\\n\\nb\\n\\n\\n\", \"  indented\\nline\", \"\\n  indented after blank\\n\"]\n") <= SAME
flowmap [indent4] => Ok("{\"\\n\": \"\\n\", \"\\n\\n\": \"\\n\\n\", \"\\n\\n\\n\": \"\\n\\n\\n\", \"\\n  indented after blank\\n\": \"\\n  indented after blank\\n\", \"\\nlead\": \"\\nlead\", \"  indented\\nline\": \"  indented\\nline\", \"a\\n\\n\\nb\\n\\n\\n\": \"a\\n\\n\\nb\\n\\n\\n\", \"em\u{2003}\": \"em\u{2003}\", \"line\\n\": \"line\\n\", \"line\\n\\n\": \"line\\n\\n\", mid\u{feff}bom: mid\u{feff}bom, \"new\\nline\": \"new\\nline\", \"tab\\there\": \"tab\\there\", \"trail \": \"trail \", \"\u{a0}nbsp\": \"\u{a0}nbsp\", \"\u{feff}bom\": \"\\uFEFFbom\"}\n") <= SAME
flowseq [indent4] => Ok("[\"a\\n  b\\n\", \"key: v\\nnext\", \"ends with colon:\\nx:\", \"# not comment\\nline\", \"trailing space \\nline\", \"cr\\rhere\", \"crlf\\r\\nhere\", \"\\0\", \"\\a\", \"\\b\", \"\\v\", \"\\f\", \"\\e\", \"\\x01\", \"\\x1F\", \"\\x7F\"]\n") <= SAME
flowmap [indent4] => Ok("{\"\\u0000\": \"\\0\", \"\\u0001\": \"\\x01\", \"\\u0007\": \"\\a\", \"\\u0008\": \"\\b\", \"\\u000B\": \"\\v\", \"\\u000C\": \"\\f\", \"\\u001B\": \"\\e\", \"\\u001F\": \"\\x1F\", \"# not comment\\nline\": \"# not comment\\nline\", \"a\\n  b\\n\": \"a\\n  b\\n\", \"cr\\rhere\": \"cr\\rhere\", \"crlf\\r\\nhere\": \"crlf\\r\\nhere\", \"ends with colon:\\nx:\": \"ends with colon:\\nx:\", \"key: v\\nnext\": \"key: v\\nnext\", \"trailing space \\nline\": \"trailing space \\nline\", \"\\u007F\": \"\\x7F\"}\n") <= SAME
flowseq [indent4] => Ok("[\"\\x80\", \"\\N\", \"\\x9F\", \"\\L\", \"\\P\", a\u{2028}b, it's, \"'\", \"''\", say \"hi\", back\\slash, \\, é, 日本語, 😀, 1.0.0]\n") <= SAME
flowmap [indent4] => Ok("{\"'\": \"'\", \"''\": \"''\", 1.0.0: 1.0.0, \\: \\, a\u{2028}b: a\u{2028}b, back\\slash: back\\slash, it's: it's, say \"hi\": say \"hi\", \"\\u0080\": \"\\x80\", \"\\u0085\": \"\\N\", \"\\u009F\": \"\\x9F\", é: é, \"\u{2028}\": \"\\L\", \"\u{2029}\": \"\\P\", 日本語: 日本語, 😀: 😀}\n") <= SAME
flowseq [indent4] => Ok("[12:30, 2001-12-14, a b, word word word word word word word word word word word word word word word word word word word word word word word word word word word word word word, \"word word word word word word word word word word word word word word word word word word word word word word word word word word word word word word \", \"word word word word word word word word word word word word word word word word word word word word word word word word word word word word word word\\n\", \"word word word word word word word word word word word word word word word word word word word word word word word word word word word word word word\\n\\n\", xxxxxxxxxxxxxxxxxxxxxxxxxxxxxxxxxxxxxxxxxxxxxxxxxxxxxxxxxxxxxxxxxxxxxxxxxxxxxxxxxxxxxxxxxxxxxxxxxxxxxxxxxxxxxxxxxxxxxxxx, aaaaaaaaaaaaaaaaaaaaaaaaaaaaaaaaaaaaaaaaaaaaaaaaaa   bbbbbbbbbbbbbbbbbbbbbbbbbbbbbbbbbbbbbbbbbbbbbbbbbb  cccccccccccccccccccccccccccccccccccccccccccccccccc, \"aaaaaaaaaaaaaaaaaaaaaaaaaaaaaaaaaaaaaaaaaaaaaaaaaa\\tbbbbbbbbbbbbbbbbbbbbbbbbbbbbbbbbbbbbbbbbbbbbbbbbbb\\tcccccccccccccccccccccccccccccccccccccccccccccccccc\", \"aaaaaaaaaaaaaaaaaaaaaaaaaaaaaaaaaaaaaaaaaaaaaaaaaa # bbbbbbbbbbbbbbbbbbbbbbbbbbbbbbbbbbbbbbbbbbbbbbbbbb\", \"aaaaaaaaaaaaaaaaaaaaaaaaaaaaaaaaaaaaaaaaaaaaaaaaaa: bbbbbbbbbbbbbbbbbbbbbbbbbbbbbbbbbbbbbbbbbbbbbbbbbb\", \"- lorem ipsum lorem ipsum lorem ipsum lorem ipsum lorem ipsum lorem ipsum lorem ipsum lorem ipsum lorem ipsum lorem ipsum \", \"日本語 テキスト 日本語 テキスト 日本語 テキスト 日本語 テキスト 日本語 テキスト 日本語 テキスト 日本語 テキスト 日本語 テキスト 日本語 テキスト 日本語 テキスト 日本語 テキスト 日本語 テキスト 日本語 テキスト 日本語 テキスト 日本語 テキスト \", \"ab ab ab ab ab ab ab ab ab ab ab ab ab ab ab ab ab ab ab ab \\Ncd cd cd cd cd cd cd cd cd cd cd cd cd cd cd cd cd cd cd cd \", \"ab ab ab ab ab ab ab ab ab ab ab ab ab ab ab ab ab ab ab ab \\rcd cd cd cd cd cd cd cd cd cd cd cd cd cd cd cd cd cd cd cd \"]\n") <= SAME
flowmap [indent4] => Ok("{\"- lorem ipsum lorem ipsum lorem ipsum lorem ipsum lorem ipsum lorem ipsum lorem ipsum lorem ipsum lorem ipsum lorem ipsum \": \"- lorem ipsum lorem ipsum lorem ipsum lorem ipsum lorem ipsum lorem ipsum lorem ipsum lorem ipsum lorem ipsum lorem ipsum \", \"12:30\": 12:30, 2001-12-14: 2001-12-14, a b: a b, \"aaaaaaaaaaaaaaaaaaaaaaaaaaaaaaaaaaaaaaaaaaaaaaaaaa\\tbbbbbbbbbbbbbbbbbbbbbbbbbbbbbbbbbbbbbbbbbbbbbbbbbb\\tcccccccccccccccccccccccccccccccccccccccccccccccccc\": \"aaaaaaaaaaaaaaaaaaaaaaaaaaaaaaaaaaaaaaaaaaaaaaaaaa\\tbbbbbbbbbbbbbbbbbbbbbbbbbbbbbbbbbbbbbbbbbbbbbbbbbb\\tcccccccccccccccccccccccccccccccccccccccccccccccccc\", aaaaaaaaaaaaaaaaaaaaaaaaaaaaaaaaaaaaaaaaaaaaaaaaaa   bbbbbbbbbbbbbbbbbbbbbbbbbbbbbbbbbbbbbbbbbbbbbbbbbb  cccccccccccccccccccccccccccccccccccccccccccccccccc: aaaaaaaaaaaaaaaaaaaaaaaaaaaaaaaaaaaaaaaaaaaaaaaaaa   bbbbbbbbbbbbbbbbbbbbbbbbbbbbbbbbbbbbbbbbbbbbbbbbbb  cccccccccccccccccccccccccccccccccccccccccccccccccc, \"aaaaaaaaaaaaaaaaaaaaaaaaaaaaaaaaaaaaaaaaaaaaaaaaaa # bbbbbbbbbbbbbbbbbbbbbbbbbbbbbbbbbbbbbbbbbbbbbbbbbb\": \"aaaaaaaaaaaaaaaaaaaaaaaaaaaaaaaaaaaaaaaaaaaaaaaaaa # bbbbbbbbbbbbbbbbbbbbbbbbbbbbbbbbbbbbbbbbbbbbbbbbbb\", \"aaaaaaaaaaaaaaaaaaaaaaaaaaaaaaaaaaaaaaaaaaaaaaaaaa: bbbbbbbbbbbbbbbbbbbbbbbbbbbbbbbbbbbbbbbbbbbbbbbbbb\": \"aaaaaaaaaaaaaaaaaaaaaaaaaaaaaaaaaaaaaaaaaaaaaaaaaa: bbbbbbbbbbbbbbbbbbbbbbbbbbbbbbbbbbbbbbbbbbbbbbbbbb\", \"ab ab ab ab ab ab ab ab ab ab ab ab ab ab ab ab ab ab ab ab \\rcd cd cd cd cd cd cd cd cd cd cd cd cd cd cd cd cd cd cd cd \": \"ab ab ab ab ab ab ab ab ab ab ab ab ab ab ab ab ab ab ab ab \\rcd cd cd cd cd cd cd cd cd cd cd cd cd cd cd cd cd cd cd cd \", \"ab ab ab ab ab ab ab ab ab ab ab ab ab ab ab ab ab ab ab ab \\u0085cd cd cd cd cd cd cd cd cd cd cd cd cd cd cd cd cd cd cd cd \": \"ab ab ab ab ab ab ab ab ab ab ab ab ab ab ab ab ab ab ab ab \\Ncd cd cd cd cd cd cd cd cd cd cd cd cd cd cd cd cd cd cd cd \", word word word word word word word word word word word word word word word word word word word word word word word word word word word word word word: word word word word word word word word word word word word word word word word word word word word word word word word word word word word word word, \"word word word word word word word word word word word word word word word word word word word word word word word word word word word word word word\\n\": \"word word word word word word word word word word word word word word word word word word word word word word word word word word word word word word\\n\", \"word word word word word word word word word word word word word word word word word word word word word word word word word word word word word word\\n\\n\": \"word word word word word word word word word word word word word word word word word word word word word word word word word word word word word word\\n\\n\", \"word word word word word word word word word word word word word word word word word word word word word word word word word word word word word word \": \"word word word word word word word word word word word word word word word word word word word word word word word word word word word word word word \", xxxxxxxxxxxxxxxxxxxxxxxxxxxxxxxxxxxxxxxxxxxxxxxxxxxxxxxxxxxxxxxxxxxxxxxxxxxxxxxxxxxxxxxxxxxxxxxxxxxxxxxxxxxxxxxxxxxxxxxx: xxxxxxxxxxxxxxxxxxxxxxxxxxxxxxxxxxxxxxxxxxxxxxxxxxxxxxxxxxxxxxxxxxxxxxxxxxxxxxxxxxxxxxxxxxxxxxxxxxxxxxxxxxxxxxxxxxxxxxxx, \"日本語 テキスト 日本語 テキスト 日本語 テキスト 日本語 テキスト 日本語 テキスト 日本語 テキスト 日本語 テキスト 日本語 テキスト 日本語 テキスト 日本語 テキスト 日本語 テキスト 日本語 テキスト 日本語 テキスト 日本語 テキスト 日本語 テキスト \": \"日本語 テキスト 日本語 テキスト 日本語 テキスト 日本語 テキスト 日本語 テキスト 日本語 テキスト 日本語 テキスト 日本語 テキスト 日本語 テキスト 日本語 テキスト 日本語 テキスト 日本語 テキスト 日本語 テキスト 日本語 テキスト 日本語 テキスト \"}\n") <= SAME
flowseq [indent4] => Ok("[\"lorem ipsum lorem ipsum lorem ipsum lorem ipsum lorem ipsum lorem ipsum \\ndolor sit dolor sit dolor sit dolor sit dolor sit dolor sit \", \"  lorem ipsum lorem ipsum lorem ipsum lorem ipsum lorem ipsum lorem ipsum \\ndolor: sit dolor: sit dolor: sit dolor: sit dolor: sit dolor: sit \\n\\n\", \"lorem ipsum lorem ipsum lorem ipsum lorem ipsum lorem ipsum lorem ipsum :\\ndolor sit dolor sit dolor sit dolor sit dolor sit dolor sit :\"]\n") <= SAME
flowmap [indent4] => Ok("{\"  lorem ipsum lorem ipsum lorem ipsum lorem ipsum lorem ipsum lorem ipsum \\ndolor: sit dolor: sit dolor: sit dolor: sit dolor: sit dolor: sit \\n\\n\": \"  lorem ipsum lorem ipsum lorem ipsum lorem ipsum lorem ipsum lorem ipsum \\ndolor: sit dolor: sit dolor: sit dolor: sit dolor: sit dolor: sit \\n\\n\", \"lorem ipsum lorem ipsum lorem ipsum lorem ipsum lorem ipsum lorem ipsum \\ndolor sit dolor sit dolor sit dolor sit dolor sit dolor sit \": \"lorem ipsum lorem ipsum lorem ipsum lorem ipsum lorem ipsum lorem ipsum \\ndolor sit dolor sit dolor sit dolor sit dolor sit dolor sit \", \"lorem ipsum lorem ipsum lorem ipsum lorem ipsum lorem ipsum lorem ipsum :\\ndolor sit dolor sit dolor sit dolor sit dolor sit dolor sit :\": \"lorem ipsum lorem ipsum lorem ipsum lorem ipsum lorem ipsum lorem ipsum :\\ndolor sit dolor sit dolor sit dolor sit dolor sit dolor sit :\"}\n") <= SAME
enum [indent4] Text("") => Ok("Text: \"\"\n") <= SAME
enum [indent4] [Pair("", -1)] => Ok("- Pair:\n        - \"\"\n        - -1\n") <= SAME
enum [indent4] Rec { s: "", c: 'x' } => Ok("Rec:\n    s: \"\"\n    c: x\n") <= SAME
enum [indent4] Text("NULL") => Ok("Text: \"NULL\"\n") <= SAME
enum [indent4] [Pair("NULL", -1)] => Ok("- Pair:\n        - \"NULL\"\n        - -1\n") <= SAME
enum [indent4] Rec { s: "NULL", c: 'N' } => Ok("Rec:\n    s: \"NULL\"\n    c: \"N\"\n") <= SAME
enum [indent4] Text("False") => Ok("Text: \"False\"\n") <= SAME
enum [indent4] [Pair("False", -1)] => Ok("- Pair:\n        - \"False\"\n        - -1\n") <= SAME
enum [indent4] Rec { s: "False", c: 'F' } => Ok("Rec:\n    s: \"False\"\n    c: F\n") <= SAME
enum [indent4] Text("y") => Ok("Text: \"y\"\n") <= SAME
enum [indent4] [Pair("y", -1)] => Ok("- Pair:\n        - \"y\"\n        - -1\n") <= SAME
enum [indent4] Rec { s: "y", c: 'y' } => Ok("Rec:\n    s: \"y\"\n    c: \"y\"\n") <= SAME
enum [indent4] Text("OFF") => Ok("Text: \"OFF\"\n") <= SAME
enum [indent4] [Pair("OFF", -1)] => Ok("- Pair:\n        - \"OFF\"\n        - -1\n") <= SAME
enum [indent4] Rec { s: "OFF", c: 'O' } => Ok("Rec:\n    s: \"OFF\"\n    c: O\n") <= SAME
enum [indent4] Text("--- a") => Ok("Text: \"--- a\"\n") <= SAME
enum [indent4] [Pair("--- a", -1)] => Ok("- Pair:\n        - \"--- a\"\n        - -1\n") <= SAME
enum [indent4] Rec { s: "--- a", c: '-' } => Ok("Rec:\n    s: \"--- a\"\n    c: '-'\n") <= SAME
enum [indent4] Text("... x") => Ok("Text: \"... x\"\n") <= SAME
enum [indent4] [Pair("... x", -1)] => Ok("- Pair:\n        - \"... x\"\n        - -1\n") <= SAME
enum [indent4] Rec { s: "... x", c: '.' } => Ok("Rec:\n    s: \"... x\"\n    c: '.'\n") <= SAME
enum [indent4] Text("-.INF") => Ok("Text: \"-.INF\"\n") <= SAME
enum [indent4] [Pair("-.INF", -1)] => Ok("- Pair:\n        - \"-.INF\"\n        - -1\n") <= SAME
enum [indent4] Rec { s: "-.INF", c: '-' } => Ok("Rec:\n    s: \"-.INF\"\n    c: '-'\n") <= SAME
enum [indent4] Text("+-.inf") => Ok("Text: +-.inf\n") <= SAME
enum [indent4] [Pair("+-.inf", -1)] => Ok("- Pair:\n        - +-.inf\n        - -1\n") <= SAME
enum [indent4] Rec { s: "+-.inf", c: '+' } => Ok("Rec:\n    s: +-.inf\n    c: +\n") <= SAME
enum [indent4] Text("NaN") => Ok("Text: \"NaN\"\n") <= SAME
enum [indent4] [Pair("NaN", -1)] => Ok("- Pair:\n        - \"NaN\"\n        - -1\n") <= SAME
enum [indent4] Rec { s: "NaN", c: 'N' } => Ok("Rec:\n    s: \"NaN\"\n    c: \"N\"\n") <= SAME
enum [indent4] Text("infinity") => Ok("Text: \"infinity\"\n") <= SAME
enum [indent4] [Pair("infinity", -1)] => Ok("- Pair:\n        - \"infinity\"\n        - -1\n") <= SAME
enum [indent4] Rec { s: "infinity", c: 'i' } => Ok("Rec:\n    s: \"infinity\"\n    c: i\n") <= SAME
enum [indent4] Text("0o17") => Ok("Text: \"0o17\"\n") <= SAME
enum [indent4] [Pair("0o17", -1)] => Ok("- Pair:\n        - \"0o17\"\n        - -1\n") <= SAME
enum [indent4] Rec { s: "0o17", c: '0' } => Ok("Rec:\n    s: \"0o17\"\n    c: \"0\"\n") <= SAME
enum [indent4] Text("1_000") => Ok("Text: \"1_000\"\n") <= SAME
enum [indent4] [Pair("1_000", -1)] => Ok("- Pair:\n        - \"1_000\"\n        - -1\n") <= SAME
enum [indent4] Rec { s: "1_000", c: '1' } => Ok("Rec:\n    s: \"1_000\"\n    c: \"1\"\n") <= SAME
enum [indent4] Text("1.") => Ok("Text: \"1.\"\n") <= SAME
enum [indent4] [Pair("1.", -1)] => Ok("- Pair:\n        - \"1.\"\n        - -1\n") <= SAME
enum [indent4] Rec { s: "1.", c: '1' } => Ok("Rec:\n    s: \"1.\"\n    c: \"1\"\n") <= SAME
enum [indent4] Text("1.5e") => Ok("Text: 1.5e\n") <= SAME
enum [indent4] [Pair("1.5e", -1)] => Ok("- Pair:\n        - 1.5e\n        - -1\n") <= SAME
enum [indent4] Rec { s: "1.5e", c: '1' } => Ok("Rec:\n    s: 1.5e\n    c: \"1\"\n") <= SAME
enum [indent4] Text("?") => Ok("Text: \"?\"\n") <= SAME
enum [indent4] [Pair("?", -1)] => Ok("- Pair:\n        - \"?\"\n        - -1\n") <= SAME
enum [indent4] Rec { s: "?", c: '?' } => Ok("Rec:\n    s: \"?\"\n    c: \"?\"\n") <= SAME
enum [indent4] Text("#") => Ok("Text: '#'\n") <= SAME
enum [indent4] [Pair("#", -1)] => Ok("- Pair:\n        - '#'\n        - -1\n") <= SAME
enum [indent4] Rec { s: "#", c: '#' } => Ok("Rec:\n    s: '#'\n    c: '#'\n") <= SAME
enum [indent4] Text("-\ta") => Ok("Text: \"-\\ta\"\n") <= SAME
enum [indent4] [Pair("-\ta", -1)] => Ok("- Pair:\n        - \"-\\ta\"\n        - -1\n") <= SAME
enum [indent4] Rec { s: "-\ta", c: '-' } => Ok("Rec:\n    s: \"-\\ta\"\n    c: '-'\n") <= SAME
enum [indent4] Text(",a") => Ok("Text: \",a\"\n") <= SAME
enum [indent4] [Pair(",a", -1)] => Ok("- Pair:\n        - \",a\"\n        - -1\n") <= SAME
enum [indent4] Rec { s: ",a", c: ',' } => Ok("Rec:\n    s: \",a\"\n    c: \",\"\n") <= SAME
enum [indent4] Text("]a") => Ok("Text: \"]a\"\n") <= SAME
enum [indent4] [Pair("]a", -1)] => Ok("- Pair:\n        - \"]a\"\n        - -1\n") <= SAME
enum [indent4] Rec { s: "]a", c: ']' } => Ok("Rec:\n    s: \"]a\"\n    c: \"]\"\n") <= SAME
enum [indent4] Text("%a") => Ok("Text: \"%a\"\n") <= SAME
enum [indent4] [Pair("%a", -1)] => Ok("- Pair:\n        - \"%a\"\n        - -1\n") <= SAME
enum [indent4] Rec { s: "%a", c: '%' } => Ok("Rec:\n    s: \"%a\"\n    c: \"%\"\n") <= SAME
enum [indent4] Text("!a") => Ok("Text: \"!a\"\n") <= SAME
enum [indent4] [Pair("!a", -1)] => Ok("- Pair:\n        - \"!a\"\n        - -1\n") <= SAME
enum [indent4] Rec { s: "!a", c: '!' } => Ok("Rec:\n    s: \"!a\"\n    c: \"!\"\n") <= SAME
enum [indent4] Text("|a") => Ok("Text: \"|a\"\n") <= SAME
enum [indent4] [Pair("|a", -1)] => Ok("- Pair:\n        - \"|a\"\n        - -1\n") <= SAME
enum [indent4] Rec { s: "|a", c: '|' } => Ok("Rec:\n    s: \"|a\"\n    c: \"|\"\n") <= SAME
enum [indent4] Text("\"a") => Ok("Text: \"\\\"a\"\n") <= SAME
enum [indent4] [Pair("\"a", -1)] => Ok("- Pair:\n        - \"\\\"a\"\n        - -1\n") <= SAME
enum [indent4] Rec { s: "\"a", c: '"' } => Ok("Rec:\n    s: \"\\\"a\"\n    c: \"\\\"\"\n") <= SAME
enum [indent4] Text("a:") => Ok("Text: \"a:\"\n") <= SAME
enum [indent4] [Pair("a:", -1)] => Ok("- Pair:\n        - \"a:\"\n        - -1\n") <= SAME
enum [indent4] Rec { s: "a:", c: 'a' } => Ok("Rec:\n    s: \"a:\"\n    c: a\n") <= SAME
enum [indent4] Text("a#b") => Ok("Text: \"a#b\"\n") <= SAME
enum [indent4] [Pair("a#b", -1)] => Ok("- Pair:\n        - \"a#b\"\n        - -1\n") <= SAME
enum [indent4] Rec { s: "a#b", c: 'a' } => Ok("Rec:\n    s: \"a#b\"\n    c: a\n") <= SAME
enum [indent4] Text("a{b}") => Ok("Text: a{b}\n") <= SAME
enum [indent4] [Pair("a{b}", -1)] => Ok("- Pair:\n        - a{b}\n        - -1\n") <= SAME
enum [indent4] Rec { s: "a{b}", c: 'a' } => Ok("Rec:\n    s: a{b}\n    c: a\n") <= SAME
enum [indent4] Text("\u{a0}nbsp") => Ok("Text: \"\u{a0}nbsp\"\n") <= SAME
enum [indent4] [Pair("\u{a0}nbsp", -1)] => Ok("- Pair:\n        - \"\u{a0}nbsp\"\n        - -1\n") <= SAME
enum [indent4] Rec { s: "\u{a0}nbsp", c: '\u{a0}' } => Ok("Rec:\n    s: \"\u{a0}nbsp\"\n    c: \"\u{a0}\"\n") <= SAME
enum [indent4] Text("mid\u{feff}bom") => Ok("Text: mid\u{feff}bom\n") <= SAME
enum [indent4] [Pair("mid\u{feff}bom", -1)] => Ok("- Pair:\n        - mid\u{feff}bom\n        - -1\n") <= SAME
enum [indent4] Rec { s: "mid\u{feff}bom", c: 'm' } => Ok("Rec:\n    s: mid\u{feff}bom\n    c: m\n") <= SAME
enum [indent4] Text("line\n") => Ok("Text: |\n    line\n") <= SAME
enum [indent4] [Pair("line\n", -1)] => Ok("- Pair:\n        - |\n            line\n        - -1\n") <= SAME
enum [indent4] Rec { s: "line\n", c: 'l' } => Ok("Rec:\n    s: |\n        line\n    c: l\n") <= SAME
enum [indent4] Text("\n\n") => Ok("Text: \"\\n\\n\"\n") <= SAME
enum [indent4] [Pair("\n\n", -1)] => Ok("- Pair:\n        - \"\\n\\n\"\n        - -1\n") <= SAME
enum [indent4] Rec { s: "\n\n", c: '\n' } => Ok("Rec:\n    s: \"\\n\\n\"\n    c: \"\\n\"\n") <= SAME
enum [indent4] Text("a\n\n\nb\n\n\n") => Ok("Text: |+\n    a\n    \n    \n    b\n    \n    \n") <= SAME
enum [indent4] [Pair("a\n\n\nb\n\n\n", -1)] => Ok("- Pair:\n        - |+\n            a\n            \n            \n            b\n            \n            \n        - -1\n") <= SAME
enum [indent4] Rec { s: "a\n\n\nb\n\n\n", c: 'a' } => Ok("Rec:\n    s: |+\n        a\n        \n        \n        b\n        \n        \n    c: a\n") <= SAME
enum [indent4] Text("a\n  b\n") => Ok("Text: |\n    a\n      b\n") <= SAME
enum [indent4] [Pair("a\n  b\n", -1)] => Ok("- Pair:\n        - |\n            a\n              b\n        - -1\n") <= SAME
enum [indent4] Rec { s: "a\n  b\n", c: 'a' } => Ok("Rec:\n    s: |\n        a\n          b\n    c: a\n") <= SAME
enum [indent4] Text("# not comment\nline") => Ok("Text: \"# not comment\\nline\"\n") <= SAME
enum [indent4] [Pair("# not comment\nline", -1)] => Ok("- Pair:\n        - \"# not comment\\nline\"\n        - -1\n") <= SAME
enum [indent4] Rec { s: "# not comment\nline", c: '#' } => Ok("Rec:\n    s: \"# not comment\\nline\"\n    c: '#'\n") <= SAME
enum [indent4] Text("crlf\r\nhere") => Ok("Text: \"crlf\\r\\nhere\"\n") <= SAME
enum [indent4] [Pair("crlf\r\nhere", -1)] => Ok("- Pair:\n        - \"crlf\\r\\nhere\"\n        - -1\n") <= SAME
enum [indent4] Rec { s: "crlf\r\nhere", c: 'c' } => Ok("Rec:\n    s: \"crlf\\r\\nhere\"\n    c: c\n") <= SAME
enum [indent4] Text("\u{8}") => Ok("Text: \"\\b\"\n") <= SAME
enum [indent4] [Pair("\u{8}", -1)] => Ok("- Pair:\n        - \"\\b\"\n        - -1\n") <= SAME
enum [indent4] Rec { s: "\u{8}", c: '\u{8}' } => Ok("Rec:\n    s: \"\\b\"\n    c: \"\\b\"\n") <= SAME
enum [indent4] Text("\u{1b}") => Ok("Text: \"\\e\"\n") <= SAME
enum [indent4] [Pair("\u{1b}", -1)] => Ok("- Pair:\n        - \"\\e\"\n        - -1\n") <= SAME
enum [indent4] Rec { s: "\u{1b}", c: '\u{1b}' } => Ok("Rec:\n    s: \"\\e\"\n    c: \"\\e\"\n") <= SAME
enum [indent4] Text("\u{7f}") => Ok("Text: \"\\x7F\"\n") <= SAME
enum [indent4] [Pair("\u{7f}", -1)] => Ok("- Pair:\n        - \"\\x7F\"\n        - -1\n") <= SAME
enum [indent4] Rec { s: "\u{7f}", c: '\u{7f}' } => Ok("Rec:\n    s: \"\\x7F\"\n    c: \"\\x7F\"\n") <= SAME
enum [indent4] Text("\u{9f}") => Ok("Text: \"\\x9F\"\n") <= SAME
enum [indent4] [Pair("\u{9f}", -1)] => Ok("- Pair:\n        - \"\\x9F\"\n        - -1\n") <= SAME
enum [indent4] Rec { s: "\u{9f}", c: '\u{9f}' } => Ok("Rec:\n    s: \"\\x9F\"\n    c: \"\\x9F\"\n") <= SAME
enum [indent4] Text("a\u{2028}b") => Ok("Text: a\u{2028}b\n") <= SAME
enum [indent4] [Pair("a\u{2028}b", -1)] => Ok("- Pair:\n        - a\u{2028}b\n        - -1\n") <= SAME
enum [indent4] Rec { s: "a\u{2028}b", c: 'a' } => Ok("Rec:\n    s: a\u{2028}b\n    c: a\n") <= SAME
enum [indent4] Text("''") => Ok("Text: \"''\"\n") <= SAME
enum [indent4] [Pair("''", -1)] => Ok("- Pair:\n        - \"''\"\n        - -1\n") <= SAME
enum [indent4] Rec { s: "''", c: '\'' } => Ok("Rec:\n    s: \"''\"\n    c: \"'\"\n") <= SAME
enum [indent4] Text("\\") => Ok("Text: \\\n") <= SAME
enum [indent4] [Pair("\\", -1)] => Ok("- Pair:\n        - \\\n        - -1\n") <= SAME
enum [indent4] Rec { s: "\\", c: '\\' } => Ok("Rec:\n    s: \\\n    c: \\\n") <= SAME
enum [indent4] Text("😀") => Ok("Text: 😀\n") <= SAME
enum [indent4] [Pair("😀", -1)] => Ok("- Pair:\n        - 😀\n        - -1\n") <= SAME
enum [indent4] Rec { s: "😀", c: '😀' } => Ok("Rec:\n    s: 😀\n    c: 😀\n") <= SAME
enum [indent4] Text("2001-12-14") => Ok("Text: 2001-12-14\n") <= SAME
enum [indent4] [Pair("2001-12-14", -1)] => Ok("- Pair:\n        - 2001-12-14\n        - -1\n") <= SAME
enum [indent4] Rec { s: "2001-12-14", c: '2' } => Ok("Rec:\n    s: 2001-12-14\n    c: \"2\"\n") <= SAME
enum [indent4] Text("word word word word word word word word word word word word word word word word word word word word word word word word word word word word word word ") => Ok("Text: >-\n    word word word word word word word word word word word word word word word word\n    word word word word word word word word word word word word word word \n") <= SAME
enum [indent4] [Pair("word word word word word word word word word word word word word word word word word word word word word word word word word word word word word word ", -1)] => Ok("- Pair:\n        - >-\n            word word word word word word word word word word word word word word word word\n            word word word word word word word word word word word word word word \n        - -1\n") <= SAME
enum [indent4] Rec { s: "word word word word word word word word word word word word word word word word word word word word word word word word word word word word word word ", c: 'w' } => Ok("Rec:\n    s: >-\n        word word word word word word word word word word word word word word word word\n        word word word word word word word word word word word word word word \n    c: w\n") <= SAME
enum [indent4] Text("xxxxxxxxxxxxxxxxxxxxxxxxxxxxxxxxxxxxxxxxxxxxxxxxxxxxxxxxxxxxxxxxxxxxxxxxxxxxxxxxxxxxxxxxxxxxxxxxxxxxxxxxxxxxxxxxxxxxxxxx") => Ok("Text: >-\n    xxxxxxxxxxxxxxxxxxxxxxxxxxxxxxxxxxxxxxxxxxxxxxxxxxxxxxxxxxxxxxxxxxxxxxxxxxxxxxxxxxxxxxxxxxxxxxxxxxxxxxxxxxxxxxxxxxxxxxxx\n") <= SAME
enum [indent4] [Pair("xxxxxxxxxxxxxxxxxxxxxxxxxxxxxxxxxxxxxxxxxxxxxxxxxxxxxxxxxxxxxxxxxxxxxxxxxxxxxxxxxxxxxxxxxxxxxxxxxxxxxxxxxxxxxxxxxxxxxxxx", -1)] => Ok("- Pair:\n        - >-\n            xxxxxxxxxxxxxxxxxxxxxxxxxxxxxxxxxxxxxxxxxxxxxxxxxxxxxxxxxxxxxxxxxxxxxxxxxxxxxxxxxxxxxxxxxxxxxxxxxxxxxxxxxxxxxxxxxxxxxxxx\n        - -1\n") <= SAME
enum [indent4] Rec { s: "xxxxxxxxxxxxxxxxxxxxxxxxxxxxxxxxxxxxxxxxxxxxxxxxxxxxxxxxxxxxxxxxxxxxxxxxxxxxxxxxxxxxxxxxxxxxxxxxxxxxxxxxxxxxxxxxxxxxxxxx", c: 'x' } => Ok("Rec:\n    s: >-\n        xxxxxxxxxxxxxxxxxxxxxxxxxxxxxxxxxxxxxxxxxxxxxxxxxxxxxxxxxxxxxxxxxxxxxxxxxxxxxxxxxxxxxxxxxxxxxxxxxxxxxxxxxxxxxxxxxxxxxxxx\n    c: x\n") <= SAME
enum [indent4] Text("aaaaaaaaaaaaaaaaaaaaaaaaaaaaaaaaaaaaaaaaaaaaaaaaaa # bbbbbbbbbbbbbbbbbbbbbbbbbbbbbbbbbbbbbbbbbbbbbbbbbb") => Ok("Text: \"aaaaaaaaaaaaaaaaaaaaaaaaaaaaaaaaaaaaaaaaaaaaaaaaaa # bbbbbbbbbbbbbbbbbbbbbbbbbbbbbbbbbbbbbbbbbbbbbbbbbb\"\n") <= SAME
enum [indent4] [Pair("aaaaaaaaaaaaaaaaaaaaaaaaaaaaaaaaaaaaaaaaaaaaaaaaaa # bbbbbbbbbbbbbbbbbbbbbbbbbbbbbbbbbbbbbbbbbbbbbbbbbb", -1)] => Ok("- Pair:\n        - \"aaaaaaaaaaaaaaaaaaaaaaaaaaaaaaaaaaaaaaaaaaaaaaaaaa # bbbbbbbbbbbbbbbbbbbbbbbbbbbbbbbbbbbbbbbbbbbbbbbbbb\"\n        - -1\n") <= SAME
enum [indent4] Rec { s: "aaaaaaaaaaaaaaaaaaaaaaaaaaaaaaaaaaaaaaaaaaaaaaaaaa # bbbbbbbbbbbbbbbbbbbbbbbbbbbbbbbbbbbbbbbbbbbbbbbbbb", c: 'a' } => Ok("Rec:\n    s: \"aaaaaaaaaaaaaaaaaaaaaaaaaaaaaaaaaaaaaaaaaaaaaaaaaa # bbbbbbbbbbbbbbbbbbbbbbbbbbbbbbbbbbbbbbbbbbbbbbbbbb\"\n    c: a\n") <= SAME
enum [indent4] Text("日本語 テキスト 日本語 テキスト 日本語 テキスト 日本語 テキスト 日本語 テキスト 日本語 テキスト 日本語 テキスト 日本語 テキスト 日本語 テキスト 日本語 テキスト 日本語 テキスト 日本語 テキスト 日本語 テキスト 日本語 テキスト 日本語 テキスト ") => Ok("Text: >-\n    日本語 テキスト 日本語 テキスト 日本語 テキスト 日本語 テキスト 日本語 テキスト 日本語 テキスト 日本語 テキスト 日本語 テキスト 日本語\n    テキスト 日本語 テキスト 日本語 テキスト 日本語 テキスト 日本語 テキスト 日本語 テキスト 日本語 テキスト \n") <= SAME
enum [indent4] [Pair("日本語 テキスト 日本語 テキスト 日本語 テキスト 日本語 テキスト 日本語 テキスト 日本語 テキスト 日本語 テキスト 日本語 テキスト 日本語 テキスト 日本語 テキスト 日本語 テキスト 日本語 テキスト 日本語 テキスト 日本語 テキスト 日本語 テキスト ", -1)] => Ok("- Pair:\n        - >-\n            日本語 テキスト 日本語 テキスト 日本語 テキスト 日本語 テキスト 日本語 テキスト 日本語 テキスト 日本語 テキスト 日本語 テキスト 日本語\n            テキスト 日本語 テキスト 日本語 テキスト 日本語 テキスト 日本語 テキスト 日本語 テキスト 日本語 テキスト \n        - -1\n") <= SAME
enum [indent4] Rec { s: "日本語 テキスト 日本語 テキスト 日本語 テキスト 日本語 テキスト 日本語 テキスト 日本語 テキスト 日本語 テキスト 日本語 テキスト 日本語 テキスト 日本語 テキスト 日本語 テキスト 日本語 テキスト 日本語 テキスト 日本語 テキスト 日本語 テキスト ", c: '日' } => Ok("Rec:\n    s: >-\n        日本語 テキスト 日本語 テキスト 日本語 テキスト 日本語 テキスト 日本語 テキスト 日本語 テキスト 日本語 テキスト 日本語 テキスト 日本語\n        テキスト 日本語 テキスト 日本語 テキスト 日本語 テキスト 日本語 テキスト 日本語 テキスト 日本語 テキスト \n    c: 日\n") <= SAME
enum [indent4] Text("lorem ipsum lorem ipsum lorem ipsum lorem ipsum lorem ipsum lorem ipsum \ndolor sit dolor sit dolor sit dolor sit dolor sit dolor sit ") => Ok("Text: |-\n    lorem ipsum lorem ipsum lorem ipsum lorem ipsum lorem ipsum lorem ipsum \n    dolor sit dolor sit dolor sit dolor sit dolor sit dolor sit \n") <= SAME
enum [indent4] [Pair("lorem ipsum lorem ipsum lorem ipsum lorem ipsum lorem ipsum lorem ipsum \ndolor sit dolor sit dolor sit dolor sit dolor sit dolor sit ", -1)] => Ok("- Pair:\n        - |-\n            lorem ipsum lorem ipsum lorem ipsum lorem ipsum lorem ipsum lorem ipsum \n            dolor sit dolor sit dolor sit dolor sit dolor sit dolor sit \n        - -1\n") <= SAME
enum [indent4] Rec { s: "lorem ipsum lorem ipsum lorem ipsum lorem ipsum lorem ipsum lorem ipsum \ndolor sit dolor sit dolor sit dolor sit dolor sit dolor sit ", c: 'l' } => Ok("Rec:\n    s: |-\n        lorem ipsum lorem ipsum lorem ipsum lorem ipsum lorem ipsum lorem ipsum \n        dolor sit dolor sit dolor sit dolor sit dolor sit dolor sit \n    c: l\n") <= SAME
doc [indent4] Doc { s: "line one\nline two\n", list: ["  lead\nx", "\n", "~"], opt: None, unit: () } => Ok("s: |\n    line one\n    line two\nlist:\n    - \"  lead\\nx\"\n    - \"\\n\"\n    - \"~\"\nopt: null\nunit: null\n") <= SAME
root [wrap12] "" => Ok("\"\"\n") <= SAME
root [wrap12] "~" => Ok("\"~\"\n") <= SAME
root [wrap12] "null" => Ok("\"null\"\n") <= SAME
root [wrap12] "NULL" => Ok("\"NULL\"\n") <= SAME
root [wrap12] "Null" => Ok("\"Null\"\n") <= SAME
root [wrap12] "true" => Ok("\"true\"\n") <= SAME
root [wrap12] "False" => Ok("\"False\"\n") <= SAME
root [wrap12] "TRUE" => Ok("\"TRUE\"\n") <= SAME
root [wrap12] "yes" => Ok("\"yes\"\n") <= SAME
root [wrap12] "y" => Ok("\"y\"\n") <= SAME
root [wrap12] "No" => Ok("\"No\"\n") <= SAME
root [wrap12] "on" => Ok("\"on\"\n") <= SAME
root [wrap12] "OFF" => Ok("\"OFF\"\n") <= SAME
root [wrap12] "<<" => Ok("\"<<\"\n") <= SAME
root [wrap12] "---" => Ok("\"---\"\n") <= SAME
root [wrap12] "--- a" => Ok("\"--- a\"\n") <= SAME
root [wrap12] "---a" => Ok("---a\n") <= SAME
root [wrap12] "..." => Ok("\"...\"\n") <= SAME
root [wrap12] "... x" => Ok("\"... x\"\n") <= SAME
root [wrap12] ".nan" => Ok("\".nan\"\n") <= SAME
root [wrap12] ".NaN" => Ok("\".NaN\"\n") <= SAME
root [wrap12] "-.INF" => Ok("\"-.INF\"\n") <= SAME
root [wrap12] "+.inf" => Ok("\"+.inf\"\n") <= SAME
root [wrap12] ".inf" => Ok("\".inf\"\n") <= SAME
root [wrap12] "+-.inf" => Ok("+-.inf\n") <= SAME
root [wrap12] ".infx" => Ok(".infx\n") <= SAME
root [wrap12] "nan" => Ok("\"nan\"\n") <= SAME
root [wrap12] "NaN" => Ok("\"NaN\"\n") <= SAME
root [wrap12] "+inf" => Ok("\"+inf\"\n") <= SAME
root [wrap12] "-Infinity" => Ok("\"-Infinity\"\n") <= SAME
root [wrap12] "infinity" => Ok("\"infinity\"\n") <= SAME
root [wrap12] "0x1F" => Ok("\"0x1F\"\n") <= SAME
root [wrap12] "-0x1f" => Ok("\"-0x1f\"\n") <= SAME
root [wrap12] "0o17" => Ok("\"0o17\"\n") <= SAME
root [wrap12] "0b101" => Ok("\"0b101\"\n") <= SAME
root [wrap12] "0b102" => Ok("0b102\n") <= SAME
root [wrap12] "1_000" => Ok("\"1_000\"\n") <= SAME
root [wrap12] "1e9" => Ok("\"1e9\"\n") <= SAME
root [wrap12] "1E+9" => Ok("\"1E+9\"\n") <= SAME
root [wrap12] "1." => Ok("\"1.\"\n") <= SAME
root [wrap12] ".5" => Ok("\".5\"\n") <= SAME
root [wrap12] "+1.5e-3" => Ok("\"+1.5e-3\"\n") <= SAME
root [wrap12] "1.5e" => Ok("1.5e\n") <= SAME
root [wrap12] "12345678901234567890123456789" => Ok("\"12345678901234567890123456789\"\n") <= SAME
root [wrap12] "-" => Ok("'-'\n") <= SAME
root [wrap12] "?" => Ok("\"?\"\n") <= SAME
root [wrap12] "+" => Ok("+\n") <= SAME
root [wrap12] "." => Ok("'.'\n") <= SAME
root [wrap12] "#" => Ok("'#'\n") <= SAME
root [wrap12] "- a" => Ok("\"- a\"\n") <= SAME
root [wrap12] "-a" => Ok("-a\n") <= SAME
root [wrap12] "-\ta" => Ok("\"-\\ta\"\n") <= SAME
root [wrap12] "?x" => Ok("?x\n") <= SAME
root [wrap12] "? x" => Ok("\"? x\"\n") <= SAME
root [wrap12] ",a" => Ok("\",a\"\n") <= SAME
root [wrap12] ":a" => Ok("\":a\"\n") <= SAME
root [wrap12] "[a" => Ok("\"[a\"\n") <= SAME
root [wrap12] "]a" => Ok("\"]a\"\n") <= SAME
root [wrap12] "{a" => Ok("\"{a\"\n") <= SAME
root [wrap12] "}a" => Ok("\"}a\"\n") <= SAME
root [wrap12] "%a" => Ok("\"%a\"\n") <= SAME
root [wrap12] "@a" => Ok("\"@a\"\n") <= SAME
root [wrap12] "`a" => Ok("\"`a\"\n") <= SAME
root [wrap12] "!a" => Ok("\"!a\"\n") <= SAME
root [wrap12] "&a" => Ok("\"&a\"\n") <= SAME
root [wrap12] "*a" => Ok("\"*a\"\n") <= SAME
root [wrap12] "|a" => Ok("\"|a\"\n") <= SAME
root [wrap12] ">a" => Ok("\">a\"\n") <= SAME
root [wrap12] "'a" => Ok("\"'a\"\n") <= SAME
root [wrap12] "\"a" => Ok("\"\\\"a\"\n") <= SAME
root [wrap12] "a: b" => Ok("\"a: b\"\n") <= SAME
root [wrap12] "a:b" => Ok("a:b\n") <= SAME
root [wrap12] "a:" => Ok("\"a:\"\n") <= SAME
root [wrap12] "a: " => Ok("\"a: \"\n") <= SAME
root [wrap12] "a #b" => Ok("\"a #b\"\n") <= SAME
root [wrap12] "a#b" => Ok("\"a#b\"\n") <= SAME
root [wrap12] "a,b" => Ok("a,b\n") <= SAME
root [wrap12] "a]b" => Ok("a]b\n") <= SAME
root [wrap12] "a{b}" => Ok("a{b}\n") <= SAME
root [wrap12] " lead" => Ok("\" lead\"\n") <= SAME
root [wrap12] "trail " => Ok("\"trail \"\n") <= SAME
root [wrap12] "\u{a0}nbsp" => Ok("\"\u{a0}nbsp\"\n") <= SAME
root [wrap12] "em\u{2003}" => Ok("\"em\u{2003}\"\n") <= SAME
root [wrap12] "\u{feff}bom" => Ok("\"\\uFEFFbom\"\n") <= SAME
root [wrap12] "mid\u{feff}bom" => Ok("mid\u{feff}bom\n") <= SAME
root [wrap12] "tab\there" => Ok("\"tab\\there\"\n") <= SAME
root [wrap12] "new\nline" => Ok("|-\n  new\n  line\n") <= SAME
root [wrap12] "line\n" => Ok("|\n  line\n") <= SAME
root [wrap12] "line\n\n" => Ok("|+\n  line\n  \n") <= SAME
root [wrap12] "\n" => Ok("\"\\n\"\n") <= SAME
root [wrap12] "\n\n" => Ok("\"\\n\\n\"\n") <= SAME
root [wrap12] "\n\n\n" => Ok("\"\\n\\n\\n\"\n") <= SAME
root [wrap12] "\nlead" => Ok("\"\\nlead\"\n") <= SAME
root [wrap12] "a\n\n\nb\n\n\n" => Ok("|+\n  a\n  \n  \n  b\n  \n  \n") <= SAME
root [wrap12] "  indented\nline" => Ok("|2-\n    indented\n  line\n") <= SAME
root [wrap12] "\n  indented after blank\n" => Ok("|2\n  \n    indented after blank\n") <= SAME
root [wrap12] "a\n  b\n" => Ok("|\n  a\n    b\n") <= SAME
root [wrap12] "key: v\nnext" => Ok("\"key: v\\nnext\"\n") <= SAME
root [wrap12] "ends with colon:\nx:" => Ok("|-\n  ends with colon:\n  x:\n") <= SAME
root [wrap12] "# not comment\nline" => Ok("|-\n  # not comment\n  line\n") <= SAME
root [wrap12] "trailing space \nline" => Ok("|-\n  trailing space \n  line\n") <= SAME
root [wrap12] "cr\rhere" => Ok("\"cr\\rhere\"\n") <= SAME
root [wrap12] "crlf\r\nhere" => Ok("\"crlf\\r\\nhere\"\n") <= SAME
root [wrap12] "\0" => Ok("\"\\0\"\n") <= SAME
root [wrap12] "\u{7}" => Ok("\"\\a\"\n") <= SAME
root [wrap12] "\u{8}" => Ok("\"\\b\"\n") <= SAME
root [wrap12] "\u{b}" => Ok("\"\\v\"\n") <= SAME
root [wrap12] "\u{c}" => Ok("\"\\f\"\n") <= SAME
root [wrap12] "\u{1b}" => Ok("\"\\e\"\n") <= SAME
root [wrap12] "\u{1}" => Ok("\"\\x01\"\n") <= SAME
root [wrap12] "\u{1f}" => Ok("\"\\x1F\"\n") <= SAME
root [wrap12] "\u{7f}" => Ok("\"\\x7F\"\n") <= SAME
root [wrap12] "\u{80}" => Ok("\"\\x80\"\n") <= SAME
root [wrap12] "\u{85}" => Ok("\"\\N\"\n") <= SAME
root [wrap12] "\u{9f}" => Ok("\"\\x9F\"\n") <= SAME
root [wrap12] "\u{2028}" => Ok("\"\\L\"\n") <= SAME
root [wrap12] "\u{2029}" => Ok("\"\\P\"\n") <= SAME
root [wrap12] "a\u{2028}b" => Ok("a\u{2028}b\n") <= SAME
root [wrap12] "it's" => Ok("it's\n") <= SAME
root [wrap12] "'" => Ok("\"'\"\n") <= SAME
root [wrap12] "''" => Ok("\"''\"\n") <= SAME
root [wrap12] "say \"hi\"" => Ok("say \"hi\"\n") <= SAME
root [wrap12] "back\\slash" => Ok("back\\slash\n") <= SAME
root [wrap12] "\\" => Ok("\\\n") <= SAME
root [wrap12] "é" => Ok("é\n") <= SAME
root [wrap12] "日本語" => Ok("日本語\n") <= SAME
root [wrap12] "😀" => Ok("😀\n") <= SAME
root [wrap12] "1.0.0" => Ok("1.0.0\n") <= SAME
root [wrap12] "12:30" => Ok("12:30\n") <= SAME
root [wrap12] "2001-12-14" => Ok("2001-12-14\n") <= SAME
root [wrap12] "a b" => Ok("a b\n") <= SAME
root [wrap12] "word word word word word word word word word word word word word word word word word word word word word word word word word word word word word word" => Ok(">-\n  word word\n  word word word\n  word word\n  word word word\n  word word\n  word word word\n  word word word\n  word word\n  word word word\n  word word\n  word word word\n  word word\n") <= SAME
root [wrap12] "word word word word word word word word word word word word word word word word word word word word word word word word word word word word word word " => Ok(">-\n  word word\n  word word word\n  word word\n  word word word\n  word word\n  word word word\n  word word word\n  word word\n  word word word\n  word word\n  word word word\n  word word \n") <= SAME
root [wrap12] "word word word word word word word word word word word word word word word word word word word word word word word word word word word word word word\n" => Ok("|\n  word word word word word word word word word word word word word word word word word word word word word word word word word word word word word word\n") <= SAME
root [wrap12] "word word word word word word word word word word word word word word word word word word word word word word word word word word word word word word\n\n" => Ok("|+\n  word word word word word word word word word word word word word word word word word word word word word word word word word word word word word word\n  \n") <= SAME
root [wrap12] "xxxxxxxxxxxxxxxxxxxxxxxxxxxxxxxxxxxxxxxxxxxxxxxxxxxxxxxxxxxxxxxxxxxxxxxxxxxxxxxxxxxxxxxxxxxxxxxxxxxxxxxxxxxxxxxxxxxxxxxx" => Ok(">-\n  xxxxxxxxxxxxxxxxxxxxxxxxxxxxxxxxxxxxxxxxxxxxxxxxxxxxxxxxxxxxxxxxxxxxxxxxxxxxxxxxxxxxxxxxxxxxxxxxxxxxxxxxxxxxxxxxxxxxxxxx\n") <= SAME
root [wrap12] "aaaaaaaaaaaaaaaaaaaaaaaaaaaaaaaaaaaaaaaaaaaaaaaaaa   bbbbbbbbbbbbbbbbbbbbbbbbbbbbbbbbbbbbbbbbbbbbbbbbbb  cccccccccccccccccccccccccccccccccccccccccccccccccc" => Ok(">-\n  aaaaaaaaaaaaaaaaaaaaaaaaaaaaaaaaaaaaaaaaaaaaaaaaaa   bbbbbbbbbbbbbbbbbbbbbbbbbbbbbbbbbbbbbbbbbbbbbbbbbb  cccccccccccccccccccccccccccccccccccccccccccccccccc\n") <= SAME
root [wrap12] "aaaaaaaaaaaaaaaaaaaaaaaaaaaaaaaaaaaaaaaaaaaaaaaaaa\tbbbbbbbbbbbbbbbbbbbbbbbbbbbbbbbbbbbbbbbbbbbbbbbbbb\tcccccccccccccccccccccccccccccccccccccccccccccccccc" => Ok("\"aaaaaaaaaaaaaaaaaaaaaaaaaaaaaaaaaaaaaaaaaaaaaaaaaa\\tbbbbbbbbbbbbbbbbbbbbbbbbbbbbbbbbbbbbbbbbbbbbbbbbbb\\tcccccccccccccccccccccccccccccccccccccccccccccccccc\"\n") <= SAME
root [wrap12] "aaaaaaaaaaaaaaaaaaaaaaaaaaaaaaaaaaaaaaaaaaaaaaaaaa # bbbbbbbbbbbbbbbbbbbbbbbbbbbbbbbbbbbbbbbbbbbbbbbbbb" => Ok("\"aaaaaaaaaaaaaaaaaaaaaaaaaaaaaaaaaaaaaaaaaaaaaaaaaa # bbbbbbbbbbbbbbbbbbbbbbbbbbbbbbbbbbbbbbbbbbbbbbbbbb\"\n") <= SAME
root [wrap12] "aaaaaaaaaaaaaaaaaaaaaaaaaaaaaaaaaaaaaaaaaaaaaaaaaa: bbbbbbbbbbbbbbbbbbbbbbbbbbbbbbbbbbbbbbbbbbbbbbbbbb" => Ok("\"aaaaaaaaaaaaaaaaaaaaaaaaaaaaaaaaaaaaaaaaaaaaaaaaaa: bbbbbbbbbbbbbbbbbbbbbbbbbbbbbbbbbbbbbbbbbbbbbbbbbb\"\n") <= SAME
root [wrap12] "- lorem ipsum lorem ipsum lorem ipsum lorem ipsum lorem ipsum lorem ipsum lorem ipsum lorem ipsum lorem ipsum lorem ipsum " => Ok("\"- lorem ipsum lorem ipsum lorem ipsum lorem ipsum lorem ipsum lorem ipsum lorem ipsum lorem ipsum lorem ipsum lorem ipsum \"\n") <= SAME
root [wrap12] "日本語 テキスト 日本語 テキスト 日本語 テキスト 日本語 テキスト 日本語 テキスト 日本語 テキスト 日本語 テキスト 日本語 テキスト 日本語 テキスト 日本語 テキスト 日本語 テキスト 日本語 テキスト 日本語 テキスト 日本語 テキスト 日本語 テキスト " => Ok(">-\n  日本語 テキスト\n  日本語 テキスト 日本語\n  テキスト 日本語 テキスト\n  日本語 テキスト 日本語\n  テキスト 日本語 テキスト\n  日本語 テキスト 日本語\n  テキスト 日本語 テキスト\n  日本語 テキスト 日本語\n  テキスト 日本語\n  テキスト 日本語 テキスト\n  日本語 テキスト \n") <= SAME
root [wrap12] "ab ab ab ab ab ab ab ab ab ab ab ab ab ab ab ab ab ab ab ab \u{85}cd cd cd cd cd cd cd cd cd cd cd cd cd cd cd cd cd cd cd cd " => Ok("\"ab ab ab ab ab ab ab ab ab ab ab ab ab ab ab ab ab ab ab ab \\Ncd cd cd cd cd cd cd cd cd cd cd cd cd cd cd cd cd cd cd cd \"\n") <= SAME
root [wrap12] "ab ab ab ab ab ab ab ab ab ab ab ab ab ab ab ab ab ab ab ab \rcd cd cd cd cd cd cd cd cd cd cd cd cd cd cd cd cd cd cd cd " => Ok("\"ab ab ab ab ab ab ab ab ab ab ab ab ab ab ab ab ab ab ab ab \\rcd cd cd cd cd cd cd cd cd cd cd cd cd cd cd cd cd cd cd cd \"\n") <= SAME
root [wrap12] "lorem ipsum lorem ipsum lorem ipsum lorem ipsum lorem ipsum lorem ipsum \ndolor sit dolor sit dolor sit dolor sit dolor sit dolor sit " => Ok("|-\n  lorem ipsum lorem ipsum lorem ipsum lorem ipsum lorem ipsum lorem ipsum \n  dolor sit dolor sit dolor sit dolor sit dolor sit dolor sit \n") <= SAME
root [wrap12] "  lorem ipsum lorem ipsum lorem ipsum lorem ipsum lorem ipsum lorem ipsum \ndolor: sit dolor: sit dolor: sit dolor: sit dolor: sit dolor: sit \n\n" => Ok("|2+\n    lorem ipsum lorem ipsum lorem ipsum lorem ipsum lorem ipsum lorem ipsum \n  dolor: sit dolor: sit dolor: sit dolor: sit dolor: sit dolor: sit \n  \n") <= SAME
root [wrap12] "lorem ipsum lorem ipsum lorem ipsum lorem ipsum lorem ipsum lorem ipsum :\ndolor sit dolor sit dolor sit dolor sit dolor sit dolor sit :" => Ok("|-\n  lorem ipsum lorem ipsum lorem ipsum lorem ipsum lorem ipsum lorem ipsum :\n  dolor sit dolor sit dolor sit dolor sit dolor sit dolor sit :\n") <= SAME
seq [wrap12] ["", "~", "null", "NULL", "Null", "true", "False", "TRUE", "yes", "y", "No", "on", "OFF", "<<", "---", "--- a", "---a", "...", "... x", ".nan", ".NaN", "-.INF", "+.inf", ".inf", "+-.inf", ".infx", "nan", "NaN", "+inf", "-Infinity", "infinity", "0x1F", "-0x1f", "0o17", "0b101", "0b102", "1_000", "1e9", "1E+9", "1.", ".5", "+1.5e-3", "1.5e", "12345678901234567890123456789", "-", "?", "+", ".", "#", "- a", "-a", "-\ta", "?x", "? x", ",a", ":a", "[a", "]a", "{a", "}a", "%a", "@a", "`a", "!a", "&a", "*a", "|a", ">a", "'a", "\"a", "a: b", "a:b", "a:", "a: ", "a #b", "a#b", "a,b", "a]b", "a{b}", " lead", "trail ", "\u{a0}nbsp", "em\u{2003}", "\u{feff}bom", "mid\u{feff}bom", "tab\there", "new\nline", "line\n", "line\n\n", "\n", "\n\n", "\n\n\n", "\nlead", "a\n\n\nb\n\n\n", "  indented\nline", "\n  indented after blank\n", "a\n  b\n", "key: v\nnext", "ends with colon:\nx:", "# not comment\nline", "trailing space \nline", "cr\rhere", "crlf\r\nhere", "\0", "\u{7}", "\u{8}", "\u{b}", "\u{c}", "\u{1b}", "\u{1}", "\u{1f}", "\u{7f}", "\u{80}", "\u{85}", "\u{9f}", "\u{2028}", "\u{2029}", "a\u{2028}b", "it's", "'", "''", "say \"hi\"", "back\\slash", "\\", "é", "日本語", "😀", "1.0.0", "12:30", "2001-12-14", "a b", "word word word word word word word word word word word word word word word word word word word word word word word word word word word word word word", "word word word word word word word word word word word word word word word word word word word word word word word word word word word word word word ", "word word word word word word word word word word word word word word word word word word word word word word word word word word word word word word\n", "word word word word word word word word word word word word word word word word word word word word word word word word word word word word word word\n\n", "xxxxxxxxxxxxxxxxxxxxxxxxxxxxxxxxxxxxxxxxxxxxxxxxxxxxxxxxxxxxxxxxxxxxxxxxxxxxxxxxxxxxxxxxxxxxxxxxxxxxxxxxxxxxxxxxxxxxxxxx", "aaaaaaaaaaaaaaaaaaaaaaaaaaaaaaaaaaaaaaaaaaaaaaaaaa   bbbbbbbbbbbbbbbbbbbbbbbbbbbbbbbbbbbbbbbbbbbbbbbbbb  cccccccccccccccccccccccccccccccccccccccccccccccccc", "aaaaaaaaaaaaaaaaaaaaaaaaaaaaaaaaaaaaaaaaaaaaaaaaaa\tbbbbbbbbbbbbbbbbbbbbbbbbbbbbbbbbbbbbbbbbbbbbbbbbbb\tcccccccccccccccccccccccccccccccccccccccccccccccccc", "aaaaaaaaaaaaaaaaaaaaaaaaaaaaaaaaaaaaaaaaaaaaaaaaaa # bbbbbbbbbbbbbbbbbbbbbbbbbbbbbbbbbbbbbbbbbbbbbbbbbb", "aaaaaaaaaaaaaaaaaaaaaaaaaaaaaaaaaaaaaaaaaaaaaaaaaa: bbbbbbbbbbbbbbbbbbbbbbbbbbbbbbbbbbbbbbbbbbbbbbbbbb", "- lorem ipsum lorem ipsum lorem ipsum lorem ipsum lorem ipsum lorem ipsum lorem ipsum lorem ipsum lorem ipsum lorem ipsum ", "日本語 テキスト 日本語 テキスト 日本語 テキスト 日本語 テキスト 日本語 テキスト 日本語 テキスト 日本語 テキスト 日本語 テキスト 日本語 テキスト 日本語 テキスト 日本語 テキスト 日本語 テキスト 日本語 テキスト 日本語 テキスト 日本語 テキスト ", "ab ab ab ab ab ab ab ab ab ab ab ab ab ab ab ab ab ab ab ab \u{85}cd cd cd cd cd cd cd cd cd cd cd cd cd cd cd cd cd cd cd cd ", "ab ab ab ab ab ab ab ab ab ab ab ab ab ab ab ab ab ab ab ab \rcd cd cd cd cd cd cd cd cd cd cd cd cd cd cd cd cd cd cd cd ", "lorem ipsum lorem ipsum lorem ipsum lorem ipsum lorem ipsum lorem ipsum \ndolor sit dolor sit dolor sit dolor sit dolor sit dolor sit ", "  lorem ipsum lorem ipsum lorem ipsum lorem ipsum lorem ipsum lorem ipsum \ndolor: sit dolor: sit dolor: sit dolor: sit dolor: sit dolor: sit \n\n", "lorem ipsum lorem ipsum lorem ipsum lorem ipsum lorem ipsum lorem ipsum :\ndolor sit dolor sit dolor sit dolor sit dolor sit dolor sit :"] => Ok("- \"\"\n- \"~\"\n- \"null\"\n- \"NULL\"\n- \"Null\"\n- \"true\"\n- \"False\"\n- \"TRUE\"\n- \"yes\"\n- \"y\"\n- \"No\"\n- \"on\"\n- \"OFF\"\n- \"<<\"\n- \"---\"\n- \"--- a\"\n- ---a\n- \"...\"\n- \"... x\"\n- \".nan\"\n- \".NaN\"\n- \"-.INF\"\n- \"+.inf\"\n- \".inf\"\n- +-.inf\n- .infx\n- \"nan\"\n- \"NaN\"\n- \"+inf\"\n- \"-Infinity\"\n- \"infinity\"\n- \"0x1F\"\n- \"-0x1f\"\n- \"0o17\"\n- \"0b101\"\n- 0b102\n- \"1_000\"\n- \"1e9\"\n- \"1E+9\"\n- \"1.\"\n- \".5\"\n- \"+1.5e-3\"\n- 1.5e\n- \"12345678901234567890123456789\"\n- '-'\n- \"?\"\n- +\n- '.'\n- '#'\n- \"- a\"\n- -a\n- \"-\\ta\"\n- ?x\n- \"? x\"\n- \",a\"\n- \":a\"\n- \"[a\"\n- \"]a\"\n- \"{a\"\n- \"}a\"\n- \"%a\"\n- \"@a\"\n- \"`a\"\n- \"!a\"\n- \"&a\"\n- \"*a\"\n- \"|a\"\n- \">a\"\n- \"'a\"\n- \"\\\"a\"\n- \"a: b\"\n- a:b\n- \"a:\"\n- \"a: \"\n- \"a #b\"\n- \"a#b\"\n- a,b\n- a]b\n- a{b}\n- \" lead\"\n- \"trail \"\n- \"\u{a0}nbsp\"\n- \"em\u{2003}\"\n- \"\\uFEFFbom\"\n- mid\u{feff}bom\n- \"tab\\there\"\n- |-\n  new\n  line\n- |\n  line\n- |+\n  line\n  \n- \"\\n\"\n- \"\\n\\n\"\n- \"\\n\\n\\n\"\n- \"\\nlead\"\n- |+\n  a\n  \n  \n  b\n  \n  \n- |2-\n    indented\n  line\n- |2\n  \n    indented after blank\n- |\n  a\n    b\n- \"key: v\\nnext\"\n- |-\n  ends with colon:\n  x:\n- |-\n  # not comment\n  line\n- |-\n  trailing space \n  line\n- \"cr\\rhere\"\n- \"crlf\\r\\nhere\"\n- \"\\0\"\n- \"\\a\"\n- \"\\b\"\n- \"\\v\"\n- \"\\f\"\n- \"\\e\"\n- \"\\x01\"\n- \"\\x1F\"\n- \"\\x7F\"\n- \"\\x80\"\n- \"\\N\"\n- \"\\x9F\"\n- \"\\L\"\n- \"\\P\"\n- a\u{2028}b\n- it's\n- \"'\"\n- \"''\"\n- say \"hi\"\n- back\\slash\n- \\\n- é\n- 日本語\n- 😀\n- 1.0.0\n- 12:30\n- 2001-12-14\n- a b\n- >-\n  word word\n  word word word\n  word word\n  word word word\n  word word\n  word word word\n  word word word\n  word word\n  word word word\n  word word\n  word word word\n  word word\n- >-\n  word word\n  word word word\n  word word\n  word word word\n  word word\n  word word word\n  word word word\n  word word\n  word word word\n  word word\n  word word word\n  word word \n- |\n  word word word word word word word word word word word word word word word word word word word word word word word word word word word word word word\n- |+\n  word word word word word word word word word word word word word word word word word word word word word word word word word word word word word word\n  \n- >-\n  xxxxxxxxxxxxxxxxxxxxxxxxxxxxxxxxxxxxxxxxxxxxxxxxxxxxxxxxxxxxxxxxxxxxxxxxxxxxxxxxxxxxxxxxxxxxxxxxxxxxxxxxxxxxxxxxxxxxxxxx\n- >-\n  aaaaaaaaaaaaaaaaaaaaaaaaaaaaaaaaaaaaaaaaaaaaaaaaaa   bbbbbbbbbbbbbbbbbbbbbbbbbbbbbbbbbbbbbbbbbbbbbbbbbb  cccccccccccccccccccccccccccccccccccccccccccccccccc\n- \"aaaaaaaaaaaaaaaaaaaaaaaaaaaaaaaaaaaaaaaaaaaaaaaaaa\\tbbbbbbbbbbbbbbbbbbbbbbbbbbbbbbbbbbbbbbbbbbbbbbbbbb\\tcccccccccccccccccccccccccccccccccccccccccccccccccc\"\n- \"aaaaaaaaaaaaaaaaaaaaaaaaaaaaaaaaaaaaaaaaaaaaaaaaaa # bbbbbbbbbbbbbbbbbbbbbbbbbbbbbbbbbbbbbbbbbbbbbbbbbb\"\n- \"aaaaaaaaaaaaaaaaaaaaaaaaaaaaaaaaaaaaaaaaaaaaaaaaaa: bbbbbbbbbbbbbbbbbbbbbbbbbbbbbbbbbbbbbbbbbbbbbbbbbb\"\n- \"- lorem ipsum lorem ipsum lorem ipsum lorem ipsum lorem ipsum lorem ipsum lorem ipsum lorem ipsum lorem ipsum lorem ipsum \"\n- >-\n  日本語 テキスト\n  日本語 テキスト 日本語\n  テキスト 日本語 テキスト\n  日本語 テキスト 日本語\n  テキスト 日本語 テキスト\n  日本語 テキスト 日本語\n  テキスト 日本語 テキスト\n  日本語 テキスト 日本語\n  テキスト 日本語\n  テキスト 日本語 テキスト\n  日本語 テキスト \n- \"ab ab ab ab ab ab ab ab ab ab ab ab ab ab ab ab ab ab ab ab \\Ncd cd cd cd cd cd cd cd cd cd cd cd cd cd cd cd cd cd cd cd \"\n- \"ab ab ab ab ab ab ab ab ab ab ab ab ab ab ab ab ab ab ab ab \\rcd cd cd cd cd cd cd cd cd cd cd cd cd cd cd cd cd cd cd cd \"\n- |-\n  lorem ipsum lorem ipsum lorem ipsum lorem ipsum lorem ipsum lorem ipsum \n  dolor sit dolor sit dolor sit dolor sit dolor sit dolor sit \n- |2+\n    lorem ipsum lorem ipsum lorem ipsum lorem ipsum lorem ipsum lorem ipsum \n  dolor: sit dolor: sit dolor: sit dolor: sit dolor: sit dolor: sit \n  \n- |-\n  lorem ipsum lorem ipsum lorem ipsum lorem ipsum lorem ipsum lorem ipsum :\n  dolor sit dolor sit dolor sit dolor sit dolor sit dolor sit :\n") <= SAME
mapval [wrap12] {"k00": "", "k01": "~", "k02": "null", "k03": "NULL", "k04": "Null", "k05": "true", "k06": "False", "k07": "TRUE", "k08": "yes", "k09": "y", "k10": "No", "k11": "on", "k12": "OFF", "k13": "<<", "k14": "---", "k15": "--- a"} => Ok("k00: \"\"\nk01: \"~\"\nk02: \"null\"\nk03: \"NULL\"\nk04: \"Null\"\nk05: \"true\"\nk06: \"False\"\nk07: \"TRUE\"\nk08: \"yes\"\nk09: \"y\"\nk10: \"No\"\nk11: \"on\"\nk12: \"OFF\"\nk13: \"<<\"\nk14: \"---\"\nk15: \"--- a\"\n") <= SAME
mapkey [wrap12] {"": 0, "---": 14, "--- a": 15, "<<": 13, "False": 6, "NULL": 3, "No": 10, "Null": 4, "OFF": 12, "TRUE": 7, "null": 2, "on": 11, "true": 5, "y": 9, "yes": 8, "~": 1} => Ok("\"\": 0\n\"---\": 14\n\"--- a\": 15\n\"<<\": 13\n\"False\": 6\n\"NULL\": 3\n\"No\": 10\n\"Null\": 4\n\"OFF\": 12\n\"TRUE\": 7\n\"null\": 2\n\"on\": 11\n\"true\": 5\n\"y\": 9\n\"yes\": 8\n\"~\": 1\n") <= SAME
nested [wrap12] {"outer": [{"k00": "", "k01": "~", "k02": "null", "k03": "NULL", "k04": "Null", "k05": "true", "k06": "False", "k07": "TRUE", "k08": "yes", "k09": "y", "k10": "No", "k11": "on", "k12": "OFF", "k13": "<<", "k14": "---", "k15": "--- a"}, {"k00": "", "k01": "~", "k02": "null", "k03": "NULL", "k04": "Null", "k05": "true", "k06": "False", "k07": "TRUE", "k08": "yes", "k09": "y", "k10": "No", "k11": "on", "k12": "OFF", "k13": "<<", "k14": "---", "k15": "--- a"}]} => Ok("outer:\n  - k00: \"\"\n    k01: \"~\"\n    k02: \"null\"\n    k03: \"NULL\"\n    k04: \"Null\"\n    k05: \"true\"\n    k06: \"False\"\n    k07: \"TRUE\"\n    k08: \"yes\"\n    k09: \"y\"\n    k10: \"No\"\n    k11: \"on\"\n    k12: \"OFF\"\n    k13: \"<<\"\n    k14: \"---\"\n    k15: \"--- a\"\n  - k00: \"\"\n    k01: \"~\"\n    k02: \"null\"\n    k03: \"NULL\"\n    k04: \"Null\"\n    k05: \"true\"\n    k06: \"False\"\n    k07: \"TRUE\"\n    k08: \"yes\"\n    k09: \"y\"\n    k10: \"No\"\n    k11: \"on\"\n    k12: \"OFF\"\n    k13: \"<<\"\n    k14: \"---\"\n    k15: \"--- a\"\n") <= SAME
mapval [wrap12] {"k00": "---a", "k01": "...", "k02": "... x", "k03": ".nan", "k04": ".NaN", "k05": "-.INF", "k06": "+.inf", "k07": ".inf", "k08": "+-.inf", "k09": ".infx", "k10": "nan", "k11": "NaN", "k12": "+inf", "k13": "-Infinity", "k14": "infinity", "k15": "0x1F"} => Ok("k00: ---a\nk01: \"...\"\nk02: \"... x\"\nk03: \".nan\"\nk04: \".NaN\"\nk05: \"-.INF\"\nk06: \"+.inf\"\nk07: \".inf\"\nk08: +-.inf\nk09: .infx\nk10: \"nan\"\nk11: \"NaN\"\nk12: \"+inf\"\nk13: \"-Infinity\"\nk14: \"infinity\"\nk15: \"0x1F\"\n") <= SAME
mapkey [wrap12] {"+-.inf": 8, "+.inf": 6, "+inf": 12, "---a": 0, "-.INF": 5, "-Infinity": 13, "...": 1, "... x": 2, ".NaN": 4, ".inf": 7, ".infx": 9, ".nan": 3, "0x1F": 15, "NaN": 11, "infinity": 14, "nan": 10} => Ok("+-.inf: 8\n\"+.inf\": 6\n\"+inf\": 12\n---a: 0\n\"-.INF\": 5\n\"-Infinity\": 13\n\"...\": 1\n\"... x\": 2\n\".NaN\": 4\n\".inf\": 7\n.infx: 9\n\".nan\": 3\n\"0x1F\": 15\n\"NaN\": 11\n\"infinity\": 14\n\"nan\": 10\n") <= SAME
nested [wrap12] {"outer": [{"k00": "---a", "k01": "...", "k02": "... x", "k03": ".nan", "k04": ".NaN", "k05": "-.INF", "k06": "+.inf", "k07": ".inf", "k08": "+-.inf", "k09": ".infx", "k10": "nan", "k11": "NaN", "k12": "+inf", "k13": "-Infinity", "k14": "infinity", "k15": "0x1F"}, {"k00": "---a", "k01": "...", "k02": "... x", "k03": ".nan", "k04": ".NaN", "k05": "-.INF", "k06": "+.inf", "k07": ".inf", "k08": "+-.inf", "k09": ".infx", "k10": "nan", "k11": "NaN", "k12": "+inf", "k13": "-Infinity", "k14": "infinity", "k15": "0x1F"}]} => Ok("outer:\n  - k00: ---a\n    k01: \"...\"\n    k02: \"... x\"\n    k03: \".nan\"\n    k04: \".NaN\"\n    k05: \"-.INF\"\n    k06: \"+.inf\"\n    k07: \".inf\"\n    k08: +-.inf\n    k09: .infx\n    k10: \"nan\"\n    k11: \"NaN\"\n    k12: \"+inf\"\n    k13: \"-Infinity\"\n    k14: \"infinity\"\n    k15: \"0x1F\"\n  - k00: ---a\n    k01: \"...\"\n    k02: \"... x\"\n    k03: \".nan\"\n    k04: \".NaN\"\n    k05: \"-.INF\"\n    k06: \"+.inf\"\n    k07: \".inf\"\n    k08: +-.inf\n    k09: .infx\n    k10: \"nan\"\n    k11: \"NaN\"\n    k12: \"+inf\"\n    k13: \"-Infinity\"\n    k14: \"infinity\"\n    k15: \"0x1F\"\n") <= SAME
mapval [wrap12] {"k00": "-0x1f", "k01": "0o17", "k02": "0b101", "k03": "0b102", "k04": "1_000", "k05": "1e9", "k06": "1E+9", "k07": "1.", "k08": ".5", "k09": "+1.5e-3", "k10": "1.5e", "k11": "12345678901234567890123456789", "k12": "-", "k13": "?", "k14": "+", "k15": "."} => Ok("k00: \"-0x1f\"\nk01: \"0o17\"\nk02: \"0b101\"\nk03: 0b102\nk04: \"1_000\"\nk05: \"1e9\"\nk06: \"1E+9\"\nk07: \"1.\"\nk08: \".5\"\nk09: \"+1.5e-3\"\nk10: 1.5e\nk11: \"12345678901234567890123456789\"\nk12: '-'\nk13: \"?\"\nk14: +\nk15: '.'\n") <= SAME
mapkey [wrap12] {"+": 14, "+1.5e-3": 9, "-": 12, "-0x1f": 0, ".": 15, ".5": 8, "0b101": 2, "0b102": 3, "0o17": 1, "1.": 7, "1.5e": 10, "12345678901234567890123456789": 11, "1E+9": 6, "1_000": 4, "1e9": 5, "?": 13} => Ok("+: 14\n\"+1.5e-3\": 9\n\"-\": 12\n\"-0x1f\": 0\n.: 15\n\".5\": 8\n\"0b101\": 2\n0b102: 3\n\"0o17\": 1\n\"1.\": 7\n1.5e: 10\n\"12345678901234567890123456789\": 11\n\"1E+9\": 6\n\"1_000\": 4\n\"1e9\": 5\n\"?\": 13\n") <= SAME
nested [wrap12] {"outer": [{"k00": "-0x1f", "k01": "0o17", "k02": "0b101", "k03": "0b102", "k04": "1_000", "k05": "1e9", "k06": "1E+9", "k07": "1.", "k08": ".5", "k09": "+1.5e-3", "k10": "1.5e", "k11": "12345678901234567890123456789", "k12": "-", "k13": "?", "k14": "+", "k15": "."}, {"k00": "-0x1f", "k01": "0o17", "k02": "0b101", "k03": "0b102", "k04": "1_000", "k05": "1e9", "k06": "1E+9", "k07": "1.", "k08": ".5", "k09": "+1.5e-3", "k10": "1.5e", "k11": "12345678901234567890123456789", "k12": "-", "k13": "?", "k14": "+", "k15": "."}]} => Ok("outer:\n  - k00: \"-0x1f\"\n    k01: \"0o17\"\n    k02: \"0b101\"\n    k03: 0b102\n    k04: \"1_000\"\n    k05: \"1e9\"\n    k06: \"1E+9\"\n    k07: \"1.\"\n    k08: \".5\"\n    k09: \"+1.5e-3\"\n    k10: 1.5e\n    k11: \"12345678901234567890123456789\"\n    k12: '-'\n    k13: \"?\"\n    k14: +\n    k15: '.'\n  - k00: \"-0x1f\"\n    k01: \"0o17\"\n    k02: \"0b101\"\n    k03: 0b102\n    k04: \"1_000\"\n    k05: \"1e9\"\n    k06: \"1E+9\"\n    k07: \"1.\"\n    k08: \".5\"\n    k09: \"+1.5e-3\"\n    k10: 1.5e\n    k11: \"12345678901234567890123456789\"\n    k12: '-'\n    k13: \"?\"\n    k14: +\n    k15: '.'\n") <= SAME
mapval [wrap12] {"k00": "#", "k01": "- a", "k02": "-a", "k03": "-\ta", "k04": "?x", "k05": "? x", "k06": ",a", "k07": ":a", "k08": "[a", "k09": "]a", "k10": "{a", "k11": "}a", "k12": "%a", "k13": "@a", "k14": "`a", "k15": "!a"} => Ok("k00: '#'\nk01: \"- a\"\nk02: -a\nk03: \"-\\ta\"\nk04: ?x\nk05: \"? x\"\nk06: \",a\"\nk07: \":a\"\nk08: \"[a\"\nk09: \"]a\"\nk10: \"{a\"\nk11: \"}a\"\nk12: \"%a\"\nk13: \"@a\"\nk14: \"`a\"\nk15: \"!a\"\n") <= SAME
mapkey [wrap12] {"!a": 15, "#": 0, "%a": 12, ",a": 6, "-\ta": 3, "- a": 1, "-a": 2, ":a": 7, "? x": 5, "?x": 4, "@a": 13, "[a": 8, "]a": 9, "`a": 14, "{a": 10, "}a": 11} => Ok("\"!a\": 15\n\"#\": 0\n\"%a\": 12\n\",a\": 6\n\"-\\ta\": 3\n\"- a\": 1\n-a: 2\n\":a\": 7\n\"? x\": 5\n?x: 4\n\"@a\": 13\n\"[a\": 8\n\"]a\": 9\n\"`a\": 14\n\"{a\": 10\n\"}a\": 11\n") <= SAME
nested [wrap12] {"outer": [{"k00": "#", "k01": "- a", "k02": "-a", "k03": "-\ta", "k04": "?x", "k05": "? x", "k06": ",a", "k07": ":a", "k08": "[a", "k09": "]a", "k10": "{a", "k11": "}a", "k12": "%a", "k13": "@a", "k14": "`a", "k15": "!a"}, {"k00": "#", "k01": "- a", "k02": "-a", "k03": "-\ta", "k04": "?x", "k05": "? x", "k06": ",a", "k07": ":a", "k08": "[a", "k09": "]a", "k10": "{a", "k11": "}a", "k12": "%a", "k13": "@a", "k14": "`a", "k15": "!a"}]} => Ok("outer:\n  - k00: '#'\n    k01: \"- a\"\n    k02: -a\n    k03: \"-\\ta\"\n    k04: ?x\n    k05: \"? x\"\n    k06: \",a\"\n    k07: \":a\"\n    k08: \"[a\"\n    k09: \"]a\"\n    k10: \"{a\"\n    k11: \"}a\"\n    k12: \"%a\"\n    k13: \"@a\"\n    k14: \"`a\"\n    k15: \"!a\"\n  - k00: '#'\n    k01: \"- a\"\n    k02: -a\n    k03: \"-\\ta\"\n    k04: ?x\n    k05: \"? x\"\n    k06: \",a\"\n    k07: \":a\"\n    k08: \"[a\"\n    k09: \"]a\"\n    k10: \"{a\"\n    k11: \"}a\"\n    k12: \"%a\"\n    k13: \"@a\"\n    k14: \"`a\"\n    k15: \"!a\"\n") <= SAME
mapval [wrap12] {"k00": "&a", "k01": "*a", "k02": "|a", "k03": ">a", "k04": "'a", "k05": "\"a", "k06": "a: b", "k07": "a:b", "k08": "a:", "k09": "a: ", "k10": "a #b", "k11": "a#b", "k12": "a,b", "k13": "a]b", "k14": "a{b}", "k15": " lead"} => Ok("k00: \"&a\"\nk01: \"*a\"\nk02: \"|a\"\nk03: \">a\"\nk04: \"'a\"\nk05: \"\\\"a\"\nk06: \"a: b\"\nk07: a:b\nk08: \"a:\"\nk09: \"a: \"\nk10: \"a #b\"\nk11: \"a#b\"\nk12: a,b\nk13: a]b\nk14: a{b}\nk15: \" lead\"\n") <= SAME
mapkey [wrap12] {" lead": 15, "\"a": 5, "&a": 0, "'a": 4, "*a": 1, ">a": 3, "a #b": 10, "a#b": 11, "a,b": 12, "a:": 8, "a: ": 9, "a: b": 6, "a:b": 7, "a]b": 13, "a{b}": 14, "|a": 2} => Ok("\" lead\": 15\n\"\\\"a\": 5\n\"&a\": 0\n\"'a\": 4\n\"*a\": 1\n\">a\": 3\n\"a #b\": 10\n\"a#b\": 11\n\"a,b\": 12\n\"a:\": 8\n\"a: \": 9\n\"a: b\": 6\n\"a:b\": 7\n\"a]b\": 13\n\"a{b}\": 14\n\"|a\": 2\n") <= SAME
nested [wrap12] {"outer": [{"k00": "&a", "k01": "*a", "k02": "|a", "k03": ">a", "k04": "'a", "k05": "\"a", "k06": "a: b", "k07": "a:b", "k08": "a:", "k09": "a: ", "k10": "a #b", "k11": "a#b", "k12": "a,b", "k13": "a]b", "k14": "a{b}", "k15": " lead"}, {"k00": "&a", "k01": "*a", "k02": "|a", "k03": ">a", "k04": "'a", "k05": "\"a", "k06": "a: b", "k07": "a:b", "k08": "a:", "k09": "a: ", "k10": "a #b", "k11": "a#b", "k12": "a,b", "k13": "a]b", "k14": "a{b}", "k15": " lead"}]} => Ok("outer:\n  - k00: \"&a\"\n    k01: \"*a\"\n    k02: \"|a\"\n    k03: \">a\"\n    k04: \"'a\"\n    k05: \"\\\"a\"\n    k06: \"a: b\"\n    k07: a:b\n    k08: \"a:\"\n    k09: \"a: \"\n    k10: \"a #b\"\n    k11: \"a#b\"\n    k12: a,b\n    k13: a]b\n    k14: a{b}\n    k15: \" lead\"\n  - k00: \"&a\"\n    k01: \"*a\"\n    k02: \"|a\"\n    k03: \">a\"\n    k04: \"'a\"\n    k05: \"\\\"a\"\n    k06: \"a: b\"\n    k07: a:b\n    k08: \"a:\"\n    k09: \"a: \"\n    k10: \"a #b\"\n    k11: \"a#b\"\n    k12: a,b\n    k13: a]b\n    k14: a{b}\n    k15: \" lead\"\n") <= SAME
mapval [wrap12] {"k00": "trail ", "k01": "\u{a0}nbsp", "k02": "em\u{2003}", "k03": "\u{feff}bom", "k04": "mid\u{feff}bom", "k05": "tab\there", "k06": "new\nline", "k07": "line\n", "k08": "line\n\n", "k09": "\n", "k10": "\n\n", "k11": "\n\n\n", "k12": "\nlead", "k13": "a\n\n\nb\n\n\n", "k14": "  indented\nline", "k15": "\n  indented after blank\n"} => Ok("k00: \"trail \"\nk01: \"\u{a0}nbsp\"\nk02: \"em\u{2003}\"\nk03: \"\\uFEFFbom\"\nk04: mid\u{feff}bom\nk05: \"tab\\there\"\nk06: |-\n  new\n  line\nk07: |\n  line\nk08: |+\n  line\n  \nk09: \"\\n\"\nk10: \"\\n\\n\"\nk11: \"\\n\\n\\n\"\nk12: \"\\nlead\"\nk13: |+\n  a\n  \n  \n  b\n  \n  \nk14: |2-\n    indented\n  line\nk15: |2\n  \n    indented after blank\n") <= SAME
mapkey [wrap12] {"\n": 9, "\n\n": 10, "\n\n\n": 11, "\n  indented after blank\n": 15, "\nlead": 12, "  indented\nline": 14, "a\n\n\nb\n\n\n": 13, "em\u{2003}": 2, "line\n": 7, "line\n\n": 8, "mid\u{feff}bom": 4, "new\nline": 6, "tab\there": 5, "trail ": 0, "\u{a0}nbsp": 1, "\u{feff}bom": 3} => Ok("\"\\n\": 9\n\"\\n\\n\": 10\n\"\\n\\n\\n\": 11\n\"\\n  indented after blank\\n\": 15\n\"\\nlead\": 12\n\"  indented\\nline\": 14\n\"a\\n\\n\\nb\\n\\n\\n\": 13\n\"em\u{2003}\": 2\n\"line\\n\": 7\n\"line\\n\\n\": 8\nmid\u{feff}bom: 4\n\"new\\nline\": 6\n\"tab\\there\": 5\n\"trail \": 0\n\"\u{a0}nbsp\": 1\n\"\u{feff}bom\": 3\n") <= SAME
nested [wrap12] {"outer": [{"k00": "trail ", "k01": "\u{a0}nbsp", "k02": "em\u{2003}", "k03": "\u{feff}bom", "k04": "mid\u{feff}bom", "k05": "tab\there", "k06": "new\nline", "k07": "line\n", "k08": "line\n\n", "k09": "\n", "k10": "\n\n", "k11": "\n\n\n", "k12": "\nlead", "k13": "a\n\n\nb\n\n\n", "k14": "  indented\nline", "k15": "\n  indented after blank\n"}, {"k00": "trail ", "k01": "\u{a0}nbsp", "k02": "em\u{2003}", "k03": "\u{feff}bom", "k04": "mid\u{feff}bom", "k05": "tab\there", "k06": "new\nline", "k07": "line\n", "k08": "line\n\n", "k09": "\n", "k10": "\n\n", "k11": "\n\n\n", "k12": "\nlead", "k13": "a\n\n\nb\n\n\n", "k14": "  indented\nline", "k15": "\n  indented after blank\n"}]} => Ok("outer:\n  - k00: \"trail \"\n    k01: \"\u{a0}nbsp\"\n    k02: \"em\u{2003}\"\n    k03: \"\\uFEFFbom\"\n    k04: mid\u{feff}bom\n    k05: \"tab\\there\"\n    k06: |-\n      new\n      line\n    k07: |\n      line\n    k08: |+\n      line\n      \n    k09: \"\\n\"\n    k10: \"\\n\\n\"\n    k11: \"\\n\\n\\n\"\n    k12: \"\\nlead\"\n    k13: |+\n      a\n      \n      \n      b\n      \n      \n    k14: |2-\n        indented\n      line\n    k15: |2\n      \n        indented after blank\n  - k00: \"trail \"\n    k01: \"\u{a0}nbsp\"\n    k02: \"em\u{2003}\"\n    k03: \"\\uFEFFbom\"\n    k04: mid\u{feff}bom\n    k05: \"tab\\there\"\n    k06: |-\n      new\n      line\n    k07: |\n      line\n    k08: |+\n      line\n      \n    k09: \"\\n\"\n    k10: \"\\n\\n\"\n    k11: \"\\n\\n\\n\"\n    k12: \"\\nlead\"\n    k13: |+\n      a\n      \n      \n      b\n      \n      \n    k14: |2-\n        indented\n      line\n    k15: |2\n      \n        indented after blank\n") <= SAME
mapval [wrap12] {"k00": "a\n  b\n", "k01": "key: v\nnext", "k02": "ends with colon:\nx:", "k03": "# not comment\nline", "k04": "trailing space \nline", "k05": "cr\rhere", "k06": "crlf\r\nhere", "k07": "\0", "k08": "\u{7}", "k09": "\u{8}", "k10": "\u{b}", "k11": "\u{c}", "k12": "\u{1b}", "k13": "\u{1}", "k14": "\u{1f}", "k15": "\u{7f}"} => Ok("k00: |\n  a\n    b\nk01: \"key: v\\nnext\"\nk02: |-\n  ends with colon:\n  x:\nk03: |-\n  # not comment\n  line\nk04: |-\n  trailing space \n  line\nk05: \"cr\\rhere\"\nk06: \"crlf\\r\\nhere\"\nk07: \"\\0\"\nk08: \"\\a\"\nk09: \"\\b\"\nk10: \"\\v\"\nk11: \"\\f\"\nk12: \"\\e\"\nk13: \"\\x01\"\nk14: \"\\x1F\"\nk15: \"\\x7F\"\n") <= SAME
mapkey [wrap12] {"\0": 7, "\u{1}": 13, "\u{7}": 8, "\u{8}": 9, "\u{b}": 10, "\u{c}": 11, "\u{1b}": 12, "\u{1f}": 14, "# not comment\nline": 3, "a\n  b\n": 0, "cr\rhere": 5, "crlf\r\nhere": 6, "ends with colon:\nx:": 2, "key: v\nnext": 1, "trailing space \nline": 4, "\u{7f}": 15} => Ok("\"\\u0000\": 7\n\"\\u0001\": 13\n\"\\u0007\": 8\n\"\\u0008\": 9\n\"\\u000B\": 10\n\"\\u000C\": 11\n\"\\u001B\": 12\n\"\\u001F\": 14\n\"# not comment\\nline\": 3\n\"a\\n  b\\n\": 0\n\"cr\\rhere\": 5\n\"crlf\\r\\nhere\": 6\n\"ends with colon:\\nx:\": 2\n\"key: v\\nnext\": 1\n\"trailing space \\nline\": 4\n\"\\u007F\": 15\n") <= SAME
nested [wrap12] {"outer": [{"k00": "a\n  b\n", "k01": "key: v\nnext", "k02": "ends with colon:\nx:", "k03": "# not comment\nline", "k04": "trailing space \nline", "k05": "cr\rhere", "k06": "crlf\r\nhere", "k07": "\0", "k08": "\u{7}", "k09": "\u{8}", "k10": "\u{b}", "k11": "\u{c}", "k12": "\u{1b}", "k13": "\u{1}", "k14": "\u{1f}", "k15": "\u{7f}"}, {"k00": "a\n  b\n", "k01": "key: v\nnext", "k02": "ends with colon:\nx:", "k03": "# not comment\nline", "k04": "trailing space \nline", "k05": "cr\rhere", "k06": "crlf\r\nhere", "k07": "\0", "k08": "\u{7}", "k09": "\u{8}", "k10": "\u{b}", "k11": "\u{c}", "k12": "\u{1b}", "k13": "\u{1}", "k14": "\u{1f}", "k15": "\u{7f}"}]} => Ok("outer:\n  - k00: |\n      a\n        b\n    k01: \"key: v\\nnext\"\n    k02: |-\n      ends with colon:\n      x:\n    k03: |-\n      # not comment\n      line\n    k04: |-\n      trailing space \n      line\n    k05: \"cr\\rhere\"\n    k06: \"crlf\\r\\nhere\"\n    k07: \"\\0\"\n    k08: \"\\a\"\n    k09: \"\\b\"\n    k10: \"\\v\"\n    k11: \"\\f\"\n    k12: \"\\e\"\n    k13: \"\\x01\"\n    k14: \"\\x1F\"\n    k15: \"\\x7F\"\n  - k00: |\n      a\n        b\n    k01: \"key: v\\nnext\"\n    k02: |-\n      ends with colon:\n      x:\n    k03: |-\n      # not comment\n      line\n    k04: |-\n      trailing space \n      line\n    k05: \"cr\\rhere\"\n    k06: \"crlf\\r\\nhere\"\n    k07: \"\\0\"\n    k08: \"\\a\"\n    k09: \"\\b\"\n    k10: \"\\v\"\n    k11: \"\\f\"\n    k12: \"\\e\"\n    k13: \"\\x01\"\n    k14: \"\\x1F\"\n    k15: \"\\x7F\"\n") <= SAME
mapval [wrap12] {"k00": "\u{80}", "k01": "\u{85}", "k02": "\u{9f}", "k03": "\u{2028}", "k04": "\u{2029}", "k05": "a\u{2028}b", "k06": "it's", "k07": "'", "k08": "''", "k09": "say \"hi\"", "k10": "back\\slash", "k11": "\\", "k12": "é", "k13": "日本語", "k14": "😀", "k15": "1.0.0"} => Ok("k00: \"\\x80\"\nk01: \"\\N\"\nk02: \"\\x9F\"\nk03: \"\\L\"\nk04: \"\\P\"\nk05: a\u{2028}b\nk06: it's\nk07: \"'\"\nk08: \"''\"\nk09: say \"hi\"\nk10: back\\slash\nk11: \\\nk12: é\nk13: 日本語\nk14: 😀\nk15: 1.0.0\n") <= SAME
mapkey [wrap12] {"'": 7, "''": 8, "1.0.0": 15, "\\": 11, "a\u{2028}b": 5, "back\\slash": 10, "it's": 6, "say \"hi\"": 9, "\u{80}": 0, "\u{85}": 1, "\u{9f}": 2, "é": 12, "\u{2028}": 3, "\u{2029}": 4, "日本語": 13, "😀": 14} => Ok("\"'\": 7\n\"''\": 8\n1.0.0: 15\n\\: 11\na\u{2028}b: 5\nback\\slash: 10\nit's: 6\nsay \"hi\": 9\n\"\\u0080\": 0\n\"\\u0085\": 1\n\"\\u009F\": 2\né: 12\n\"\u{2028}\": 3\n\"\u{2029}\": 4\n日本語: 13\n😀: 14\n") <= SAME
nested [wrap12] {"outer": [{"k00": "\u{80}", "k01": "\u{85}", "k02": "\u{9f}", "k03": "\u{2028}", "k04": "\u{2029}", "k05": "a\u{2028}b", "k06": "it's", "k07": "'", "k08": "''", "k09": "say \"hi\"", "k10": "back\\slash", "k11": "\\", "k12": "é", "k13": "日本語", "k14": "😀", "k15": "1.0.0"}, {"k00": "\u{80}", "k01": "\u{85}", "k02": "\u{9f}", "k03": "\u{2028}", "k04": "\u{2029}", "k05": "a\u{2028}b", "k06": "it's", "k07": "'", "k08": "''", "k09": "say \"hi\"", "k10": "back\\slash", "k11": "\\", "k12": "é", "k13": "日本語", "k14": "😀", "k15": "1.0.0"}]} => Ok("outer:\n  - k00: \"\\x80\"\n    k01: \"\\N\"\n    k02: \"\\x9F\"\n    k03: \"\\L\"\n    k04: \"\\P\"\n    k05: a\u{2028}b\n    k06: it's\n    k07: \"'\"\n    k08: \"''\"\n    k09: say \"hi\"\n    k10: back\\slash\n    k11: \\\n    k12: é\n    k13: 日本語\n    k14: 😀\n    k15: 1.0.0\n  - k00: \"\\x80\"\n    k01: \"\\N\"\n    k02: \"\\x9F\"\n    k03: \"\\L\"\n    k04: \"\\P\"\n    k05: a\u{2028}b\n    k06: it's\n    k07: \"'\"\n    k08: \"''\"\n    k09: say \"hi\"\n    k10: back\\slash\n    k11: \\\n    k12: é\n    k13: 日本語\n    k14: 😀\n    k15: 1.0.0\n") <= SAME
mapval [wrap12] {"k00": "12:30", "k01": "2001-12-14", "k02": "a b", "k03": "word word word word word word word word word word word word word word word word word word word word word word word word word word word word word word", "k04": "word word word word word word word word word word word word word word word word word word word word word word word word word word word word word word ", "k05": "word word word word word word word word word word word word word word word word word word word word word word word word word word word word word word\n", "k06": "word word word word word word word word word word word word word word word word word word word word word word word word word word word word word word\n\n", "k07": "xxxxxxxxxxxxxxxxxxxxxxxxxxxxxxxxxxxxxxxxxxxxxxxxxxxxxxxxxxxxxxxxxxxxxxxxxxxxxxxxxxxxxxxxxxxxxxxxxxxxxxxxxxxxxxxxxxxxxxxx", "k08": "aaaaaaaaaaaaaaaaaaaaaaaaaaaaaaaaaaaaaaaaaaaaaaaaaa   bbbbbbbbbbbbbbbbbbbbbbbbbbbbbbbbbbbbbbbbbbbbbbbbbb  cccccccccccccccccccccccccccccccccccccccccccccccccc", "k09": "aaaaaaaaaaaaaaaaaaaaaaaaaaaaaaaaaaaaaaaaaaaaaaaaaa\tbbbbbbbbbbbbbbbbbbbbbbbbbbbbbbbbbbbbbbbbbbbbbbbbbb\tcccccccccccccccccccccccccccccccccccccccccccccccccc", "k10": "aaaaaaaaaaaaaaaaaaaaaaaaaaaaaaaaaaaaaaaaaaaaaaaaaa # bbbbbbbbbbbbbbbbbbbbbbbbbbbbbbbbbbbbbbbbbbbbbbbbbb", "k11": "aaaaaaaaaaaaaaaaaaaaaaaaaaaaaaaaaaaaaaaaaaaaaaaaaa: bbbbbbbbbbbbbbbbbbbbbbbbbbbbbbbbbbbbbbbbbbbbbbbbbb", "k12": "- lorem ipsum lorem ipsum lorem ipsum lorem ipsum lorem ipsum lorem ipsum lorem ipsum lorem ipsum lorem ipsum lorem ipsum ", "k13": "日本語 テキスト 日本語 テキスト 日本語 テキスト 日本語 テキスト 日本語 テキスト 日本語 テキスト 日本語 テキスト 日本語 テキスト 日本語 テキスト 日本語 テキスト 日本語 テキスト 日本語 テキスト 日本語 テキスト 日本語 テキスト 日本語 テキスト ", "k14": "ab ab ab ab ab ab ab ab ab ab ab ab ab ab ab ab ab ab ab ab \u{85}cd cd cd cd cd cd cd cd cd cd cd cd cd cd cd cd cd cd cd cd ", "k15": "ab ab ab ab ab ab ab ab ab ab ab ab ab ab ab ab ab ab ab ab \rcd cd cd cd cd cd cd cd cd cd cd cd cd cd cd cd cd cd cd cd "} => Ok("k00: 12:30\nk01: 2001-12-14\nk02: a b\nk03: >-\n  word word\n  word word word\n  word word\n  word word word\n  word word\n  word word word\n  word word word\n  word word\n  word word word\n  word word\n  word word word\n  word word\nk04: >-\n  word word\n  word word word\n  word word\n  word word word\n  word word\n  word word word\n  word word word\n  word word\n  word word word\n  word word\n  word word word\n  word word \nk05: |\n  word word word word word word word word word word word word word word word word word word word word word word word word word word word word word word\nk06: |+\n  word word word word word word word word word word word word word word word word word word word word word word word word word word word word word word\n  \nk07: >-\n  xxxxxxxxxxxxxxxxxxxxxxxxxxxxxxxxxxxxxxxxxxxxxxxxxxxxxxxxxxxxxxxxxxxxxxxxxxxxxxxxxxxxxxxxxxxxxxxxxxxxxxxxxxxxxxxxxxxxxxxx\nk08: >-\n  aaaaaaaaaaaaaaaaaaaaaaaaaaaaaaaaaaaaaaaaaaaaaaaaaa   bbbbbbbbbbbbbbbbbbbbbbbbbbbbbbbbbbbbbbbbbbbbbbbbbb  cccccccccccccccccccccccccccccccccccccccccccccccccc\nk09: \"aaaaaaaaaaaaaaaaaaaaaaaaaaaaaaaaaaaaaaaaaaaaaaaaaa\\tbbbbbbbbbbbbbbbbbbbbbbbbbbbbbbbbbbbbbbbbbbbbbbbbbb\\tcccccccccccccccccccccccccccccccccccccccccccccccccc\"\nk10: \"aaaaaaaaaaaaaaaaaaaaaaaaaaaaaaaaaaaaaaaaaaaaaaaaaa # bbbbbbbbbbbbbbbbbbbbbbbbbbbbbbbbbbbbbbbbbbbbbbbbbb\"\nk11: \"aaaaaaaaaaaaaaaaaaaaaaaaaaaaaaaaaaaaaaaaaaaaaaaaaa: bbbbbbbbbbbbbbbbbbbbbbbbbbbbbbbbbbbbbbbbbbbbbbbbbb\"\nk12: \"- lorem ipsum lorem ipsum lorem ipsum lorem ipsum lorem ipsum lorem ipsum lorem ipsum lorem ipsum lorem ipsum lorem ipsum \"\nk13: >-\n  日本語 テキスト\n  日本語 テキスト 日本語\n  テキスト 日本語 テキスト\n  日本語 テキスト 日本語\n  テキスト 日本語 テキスト\n  日本語 テキスト 日本語\n  テキスト 日本語 テキスト\n  日本語 テキスト 日本語\n  テキスト 日本語\n  テキスト 日本語 テキスト\n  日本語 テキスト \nk14: \"ab ab ab ab ab ab ab ab ab ab ab ab ab ab ab ab ab ab ab ab \\Ncd cd cd cd cd cd cd cd cd cd cd cd cd cd cd cd cd cd cd cd \"\nk15: \"ab ab ab ab ab ab ab ab ab ab ab ab ab ab ab ab ab ab ab ab \\rcd cd cd cd cd cd cd cd cd cd cd cd cd cd cd cd cd cd cd cd \"\n") <= SAME
mapkey [wrap12] {"- lorem ipsum lorem ipsum lorem ipsum lorem ipsum lorem ipsum lorem ipsum lorem ipsum lorem ipsum lorem ipsum lorem ipsum ": 12, "12:30": 0, "2001-12-14": 1, "a b": 2, "aaaaaaaaaaaaaaaaaaaaaaaaaaaaaaaaaaaaaaaaaaaaaaaaaa\tbbbbbbbbbbbbbbbbbbbbbbbbbbbbbbbbbbbbbbbbbbbbbbbbbb\tcccccccccccccccccccccccccccccccccccccccccccccccccc": 9, "aaaaaaaaaaaaaaaaaaaaaaaaaaaaaaaaaaaaaaaaaaaaaaaaaa   bbbbbbbbbbbbbbbbbbbbbbbbbbbbbbbbbbbbbbbbbbbbbbbbbb  cccccccccccccccccccccccccccccccccccccccccccccccccc": 8, "aaaaaaaaaaaaaaaaaaaaaaaaaaaaaaaaaaaaaaaaaaaaaaaaaa # bbbbbbbbbbbbbbbbbbbbbbbbbbbbbbbbbbbbbbbbbbbbbbbbbb": 10, "aaaaaaaaaaaaaaaaaaaaaaaaaaaaaaaaaaaaaaaaaaaaaaaaaa: bbbbbbbbbbbbbbbbbbbbbbbbbbbbbbbbbbbbbbbbbbbbbbbbbb": 11, "ab ab ab ab ab ab ab ab ab ab ab ab ab ab ab ab ab ab ab ab \rcd cd cd cd cd cd cd cd cd cd cd cd cd cd cd cd cd cd cd cd ": 15, "ab ab ab ab ab ab ab ab ab ab ab ab ab ab ab ab ab ab ab ab \u{85}cd cd cd cd cd cd cd cd cd cd cd cd cd cd cd cd cd cd cd cd ": 14, "word word word word word word word word word word word word word word word word word word word word word word word word word word word word word word": 3, "word word word word word word word word word word word word word word word word word word word word word word word word word word word word word word\n": 5, "word word word word word word word word word word word word word word word word word word word word word word word word word word word word word word\n\n": 6, "word word word word word word word word word word word word word word word word word word word word word word word word word word word word word word ": 4, "xxxxxxxxxxxxxxxxxxxxxxxxxxxxxxxxxxxxxxxxxxxxxxxxxxxxxxxxxxxxxxxxxxxxxxxxxxxxxxxxxxxxxxxxxxxxxxxxxxxxxxxxxxxxxxxxxxxxxxxx": 7, "日本語 テキスト 日本語 テキスト 日本語 テキスト 日本語 テキスト 日本語 テキスト 日本語 テキスト 日本語 テキスト 日本語 テキスト 日本語 テキスト 日本語 テキスト 日本語 テキスト 日本語 テキスト 日本語 テキスト 日本語 テキスト 日本語 テキスト ": 13} => Ok("\"- lorem ipsum lorem ipsum lorem ipsum lorem ipsum lorem ipsum lorem ipsum lorem ipsum lorem ipsum lorem ipsum lorem ipsum \": 12\n\"12:30\": 0\n2001-12-14: 1\na b: 2\n\"aaaaaaaaaaaaaaaaaaaaaaaaaaaaaaaaaaaaaaaaaaaaaaaaaa\\tbbbbbbbbbbbbbbbbbbbbbbbbbbbbbbbbbbbbbbbbbbbbbbbbbb\\tcccccccccccccccccccccccccccccccccccccccccccccccccc\": 9\naaaaaaaaaaaaaaaaaaaaaaaaaaaaaaaaaaaaaaaaaaaaaaaaaa   bbbbbbbbbbbbbbbbbbbbbbbbbbbbbbbbbbbbbbbbbbbbbbbbbb  cccccccccccccccccccccccccccccccccccccccccccccccccc: 8\n\"aaaaaaaaaaaaaaaaaaaaaaaaaaaaaaaaaaaaaaaaaaaaaaaaaa # bbbbbbbbbbbbbbbbbbbbbbbbbbbbbbbbbbbbbbbbbbbbbbbbbb\": 10\n\"aaaaaaaaaaaaaaaaaaaaaaaaaaaaaaaaaaaaaaaaaaaaaaaaaa: bbbbbbbbbbbbbbbbbbbbbbbbbbbbbbbbbbbbbbbbbbbbbbbbbb\": 11\n\"ab ab ab ab ab ab ab ab ab ab ab ab ab ab ab ab ab ab ab ab \\rcd cd cd cd cd cd cd cd cd cd cd cd cd cd cd cd cd cd cd cd \": 15\n\"ab ab ab ab ab ab ab ab ab ab ab ab ab ab ab ab ab ab ab ab \\u0085cd cd cd cd cd cd cd cd cd cd cd cd cd cd cd cd cd cd cd cd \": 14\nword word word word word word word word word word word word word word word word word word word word word word word word word word word word word word: 3\n\"word word word word word word word word word word word word word word word word word word word word word word word word word word word word word word\\n\": 5\n\"word word word word word word word word word word word word word word word word word word word word word word word word word word word word word word\\n\\n\": 6\n\"word word word word word word word word word word word word word word word word word word word word word word word word word word word word word word \": 4\nxxxxxxxxxxxxxxxxxxxxxxxxxxxxxxxxxxxxxxxxxxxxxxxxxxxxxxxxxxxxxxxxxxxxxxxxxxxxxxxxxxxxxxxxxxxxxxxxxxxxxxxxxxxxxxxxxxxxxxxx: 7\n\"日本語 テキスト 日本語 テキスト 日本語 テキスト 日本語 テキスト 日本語 テキスト 日本語 テキスト 日本語 テキスト 日本語 テキスト 日本語 テキスト 日本語 テキスト 日本語 テキスト 日本語 テキスト 日本語 テキスト 日本語 テキスト 日本語 テキスト \": 13\n") <= SAME
nested [wrap12] {"outer": [{"k00": "12:30", "k01": "2001-12-14", "k02": "a b", "k03": "word word word word word word word word word word word word word word word word word word word word word word word word word word word word word word", "k04": "word word word word word word word word word word word word word word word word word word word word word word word word word word word word word word ", "k05": "word word word word word word word word word word word word word word word word word word word word word word word word word word word word word word\n", "k06": "word word word word word word word word word word word word word word word word word word word word word word word word word word word word word word\n\n", "k07": "xxxxxxxxxxxxxxxxxxxxxxxxxxxxxxxxxxxxxxxxxxxxxxxxxxxxxxxxxxxxxxxxxxxxxxxxxxxxxxxxxxxxxxxxxxxxxxxxxxxxxxxxxxxxxxxxxxxxxxxx", "k08": "aaaaaaaaaaaaaaaaaaaaaaaaaaaaaaaaaaaaaaaaaaaaaaaaaa   bbbbbbbbbbbbbbbbbbbbbbbbbbbbbbbbbbbbbbbbbbbbbbbbbb  cccccccccccccccccccccccccccccccccccccccccccccccccc", "k09": "aaaaaaaaaaaaaaaaaaaaaaaaaaaaaaaaaaaaaaaaaaaaaaaaaa\tbbbbbbbbbbbbbbbbbbbbbbbbbbbbbbbbbbbbbbbbbbbbbbbbbb\tcccccccccccccccccccccccccccccccccccccccccccccccccc", "k10": "aaaaaaaaaaaaaaaaaaaaaaaaaaaaaaaaaaaaaaaaaaaaaaaaaa # bbbbbbbbbbbbbbbbbbbbbbbbbbbbbbbbbbbbbbbbbbbbbbbbbb", "k11": "aaaaaaaaaaaaaaaaaaaaaaaaaaaaaaaaaaaaaaaaaaaaaaaaaa: bbbbbbbbbbbbbbbbbbbbbbbbbbbbbbbbbbbbbbbbbbbbbbbbbb", "k12": "- lorem ipsum lorem ipsum lorem ipsum lorem ipsum lorem ipsum lorem ipsum lorem ipsum lorem ipsum lorem ipsum lorem ipsum ", "k13": "日本語 テキスト 日本語 テキスト 日本語 テキスト 日本語 テキスト 日本語 テキスト 日本語 テキスト 日本語 テキスト 日本語 テキスト 日本語 テキスト 日本語 テキスト 日本語 テキスト 日本語 テキスト 日本語 テキスト 日本語 テキスト 日本語 テキスト ", "k14": "ab ab ab ab ab ab ab ab ab ab ab ab ab ab ab ab ab ab ab ab \u{85}cd cd cd cd cd cd cd cd cd cd cd cd cd cd cd cd cd cd cd cd ", "k15": "ab ab ab ab ab ab ab ab ab ab ab ab ab ab ab ab ab ab ab ab \rcd cd cd cd cd cd cd cd cd cd cd cd cd cd cd cd cd cd cd cd "}, {"k00": "12:30", "k01": "2001-12-14", "k02": "a b", "k03": "word word word word word word word word word word word word word word word word word word word word word word word word word word word word word word", "k04": "word word word word word word word word word word word word word word word word word word word word word word word word word word word word word word ", "k05": "word word word word word word word word word word word word word word word word word word word word word word word word word word word word word word\n", "k06": "word word word word word word word word word word word word word word word word word word word word word word word word word word word word word word\n\n", "k07": "xxxxxxxxxxxxxxxxxxxxxxxxxxxxxxxxxxxxxxxxxxxxxxxxxxxxxxxxxxxxxxxxxxxxxxxxxxxxxxxxxxxxxxxxxxxxxxxxxxxxxxxxxxxxxxxxxxxxxxxx", "k08": "aaaaaaaaaaaaaaaaaaaaaaaaaaaaaaaaaaaaaaaaaaaaaaaaaa   bbbbbbbbbbbbbbbbbbbbbbbbbbbbbbbbbbbbbbbbbbbbbbbbbb  cccccccccccccccccccccccccccccccccccccccccccccccccc", "k09": "aaaaaaaaaaaaaaaaaaaaaaaaaaaaaaaaaaaaaaaaaaaaaaaaaa\tbbbbbbbbbbbbbbbbbbbbbbbbbbbbbbbbbbbbbbbbbbbbbbbbbb\tcccccccccccccccccccccccccccccccccccccccccccccccccc", "k10": "aaaaaaaaaaaaaaaaaaaaaaaaaaaaaaaaaaaaaaaaaaaaaaaaaa # bbbbbbbbbbbbbbbbbbbbbbbbbbbbbbbbbbbbbbbbbbbbbbbbbb", "k11": "aaaaaaaaaaaaaaaaaaaaaaaaaaaaaaaaaaaaaaaaaaaaaaaaaa: bbbbbbbbbbbbbbbbbbbbbbbbbbbbbbbbbbbbbbbbbbbbbbbbbb", "k12": "- lorem ipsum lorem ipsum lorem ipsum lorem ipsum lorem ipsum lorem ipsum lorem ipsum lorem ipsum lorem ipsum lorem ipsum ", "k13": "日本語 テキスト 日本語 テキスト 日本語 テキスト 日本語 テキスト 日本語 テキスト 日本語 テキスト 日本語 テキスト 日本語 テキスト 日本語 テキスト 日本語 テキスト 日本語 テキスト 日本語 テキスト 日本語 テキスト 日本語 テキスト 日本語 テキスト ", "k14": "ab ab ab ab ab ab ab ab ab ab ab ab ab ab ab ab ab ab ab ab \u{85}cd cd cd cd cd cd cd cd cd cd cd cd cd cd cd cd cd cd cd cd ", "k15": "ab ab ab ab ab ab ab ab ab ab ab ab ab ab ab ab ab ab ab ab \rcd cd cd cd cd cd cd cd cd cd cd cd cd cd cd cd cd cd cd cd "}]} => Ok("outer:\n  - k00: 12:30\n    k01: 2001-12-14\n    k02: a b\n    k03: >-\n      word word\n      word word word\n      word word\n      word word word\n      word word\n      word word word\n      word word word\n      word word\n      word word word\n      word word\n      word word word\n      word word\n    k04: >-\n      word word\n      word word word\n      word word\n      word word word\n      word word\n      word word word\n      word word word\n      word word\n      word word word\n      word word\n      word word word\n      word word \n    k05: |\n      word word word word word word word word word word word word word word word word word word word word word word word word word word word word word word\n    k06: |+\n      word word word word word word word word word word word word word word word word word word word word word word word word word word word word word word\n      \n    k07: >-\n      xxxxxxxxxxxxxxxxxxxxxxxxxxxxxxxxxxxxxxxxxxxxxxxxxxxxxxxxxxxxxxxxxxxxxxxxxxxxxxxxxxxxxxxxxxxxxxxxxxxxxxxxxxxxxxxxxxxxxxxx\n    k08: >-\n      aaaaaaaaaaaaaaaaaaaaaaaaaaaaaaaaaaaaaaaaaaaaaaaaaa   bbbbbbbbbbbbbbbbbbbbbbbbbbbbbbbbbbbbbbbbbbbbbbbbbb  cccccccccccccccccccccccccccccccccccccccccccccccccc\n    k09: \"aaaaaaaaaaaaaaaaaaaaaaaaaaaaaaaaaaaaaaaaaaaaaaaaaa\\tbbbbbbbbbbbbbbbbbbbbbbbbbbbbbbbbbbbbbbbbbbbbbbbbbb\\tcccccccccccccccccccccccccccccccccccccccccccccccccc\"\n    k10: \"aaaaaaaaaaaaaaaaaaaaaaaaaaaaaaaaaaaaaaaaaaaaaaaaaa # bbbbbbbbbbbbbbbbbbbbbbbbbbbbbbbbbbbbbbbbbbbbbbbbbb\"\n    k11: \"aaaaaaaaaaaaaaaaaaaaaaaaaaaaaaaaaaaaaaaaaaaaaaaaaa: bbbbbbbbbbbbbbbbbbbbbbbbbbbbbbbbbbbbbbbbbbbbbbbbbb\"\n    k12: \"- lorem ipsum lorem ipsum lorem ipsum lorem ipsum lorem ipsum lorem ipsum lorem ipsum lorem ipsum lorem ipsum lorem ipsum \"\n    k13: >-\n      日本語 テキスト\n      日本語 テキスト 日本語\n      テキスト 日本語 テキスト\n      日本語 テキスト 日本語\n      テキスト 日本語 テキスト\n      日本語 テキスト 日本語\n      テキスト 日本語 テキスト\n      日本語 テキスト 日本語\n      テキスト 日本語\n      テキスト 日本語 テキスト\n      日本語 テキスト \n    k14: \"ab ab ab ab ab ab ab ab ab ab ab ab ab ab ab ab ab ab ab ab \\Ncd cd cd cd cd cd cd cd cd cd cd cd cd cd cd cd cd cd cd cd \"\n    k15: \"ab ab ab ab ab ab ab ab ab ab ab ab ab ab ab ab ab ab ab ab \\rcd cd cd cd cd cd cd cd cd cd cd cd cd cd cd cd cd cd cd cd \"\n  - k00: 12:30\n    k01: 2001-12-14\n    k02: a b\n    k03: >-\n      word word\n      word word word\n      word word\n      word word word\n      word word\n      word word word\n      word word word\n      word word\n      word word word\n      word word\n      word word word\n      word word\n    k04: >-\n      word word\n      word word word\n      word word\n      word word word\n      word word\n      word word word\n      word word word\n      word word\n      word word word\n      word word\n      word word word\n      word word \n    k05: |\n      word word word word word word word word word word word word word word word word word word word word word word word word word word word word word word\n    k06: |+\n      word word word word word word word word word word word word word word word word word word word word word word word word word word word word word word\n      \n    k07: >-\n      xxxxxxxxxxxxxxxxxxxxxxxxxxxxxxxxxxxxxxxxxxxxxxxxxxxxxxxxxxxxxxxxxxxxxxxxxxxxxxxxxxxxxxxxxxxxxxxxxxxxxxxxxxxxxxxxxxxxxxxx\n    k08: >-\n      aaaaaaaaaaaaaaaaaaaaaaaaaaaaaaaaaaaaaaaaaaaaaaaaaa   bbbbbbbbbbbbbbbbbbbbbbbbbbbbbbbbbbbbbbbbbbbbbbbbbb  cccccccccccccccccccccccccccccccccccccccccccccccccc\n    k09: \"aaaaaaaaaaaaaaaaaaaaaaaaaaaaaaaaaaaaaaaaaaaaaaaaaa\\tbbbbbbbbbbbbbbbbbbbbbbbbbbbbbbbbbbbbbbbbbbbbbbbbbb\\tcccccccccccccccccccccccccccccccccccccccccccccccccc\"\n    k10: \"aaaaaaaaaaaaaaaaaaaaaaaaaaaaaaaaaaaaaaaaaaaaaaaaaa # bbbbbbbbbbbbbbbbbbbbbbbbbbbbbbbbbbbbbbbbbbbbbbbbbb\"\n    k11: \"aaaaaaaaaaaaaaaaaaaaaaaaaaaaaaaaaaaaaaaaaaaaaaaaaa: bbbbbbbbbbbbbbbbbbbbbbbbbbbbbbbbbbbbbbbbbbbbbbbbbb\"\n    k12: \"- lorem ipsum lorem ipsum lorem ipsum lorem ipsum lorem ipsum lorem ipsum lorem ipsum lorem ipsum lorem ipsum lorem ipsum \"\n    k13: >-\n      日本語 テキスト\n      日本語 テキスト 日本語\n      テキスト 日本語 テキスト\n      日本語 テキスト 日本語\n      テキスト 日本語 テキスト\n      日本語 テキスト 日本語\n      テキスト 日本語 テキスト\n      日本語 テキスト 日本語\n      テキスト 日本語\n      テキスト 日本語 テキスト\n      日本語 テキスト \n    k14: \"ab ab ab ab ab ab ab ab ab ab ab ab ab ab ab ab ab ab ab ab \\Ncd cd cd cd cd cd cd cd cd cd cd cd cd cd cd cd cd cd cd cd \"\n    k15: \"ab ab ab ab ab ab ab ab ab ab ab ab ab ab ab ab ab ab ab ab \\rcd cd cd cd cd cd cd cd cd cd cd cd cd cd cd cd cd cd cd cd \"\n") <= SAME
mapval [wrap12] {"k00": "lorem ipsum lorem ipsum lorem ipsum lorem ipsum lorem ipsum lorem ipsum \ndolor sit dolor sit dolor sit dolor sit dolor sit dolor sit ", "k01": "  lorem ipsum lorem ipsum lorem ipsum lorem ipsum lorem ipsum lorem ipsum \ndolor: sit dolor: sit dolor: sit dolor: sit dolor: sit dolor: sit \n\n", "k02": "lorem ipsum lorem ipsum lorem ipsum lorem ipsum lorem ipsum lorem ipsum :\ndolor sit dolor sit dolor sit dolor sit dolor sit dolor sit :"} => Ok("k00: |-\n  lorem ipsum lorem ipsum lorem ipsum lorem ipsum lorem ipsum lorem ipsum \n  dolor sit dolor sit dolor sit dolor sit dolor sit dolor sit \nk01: |2+\n    lorem ipsum lorem ipsum lorem ipsum lorem ipsum lorem ipsum lorem ipsum \n  dolor: sit dolor: sit dolor: sit dolor: sit dolor: sit dolor: sit \n  \nk02: |-\n  lorem ipsum lorem ipsum lorem ipsum lorem ipsum lorem ipsum lorem ipsum :\n  dolor sit dolor sit dolor sit dolor sit dolor sit dolor sit :\n") <= SAME
mapkey [wrap12] {"  lorem ipsum lorem ipsum lorem ipsum lorem ipsum lorem ipsum lorem ipsum \ndolor: sit dolor: sit dolor: sit dolor: sit dolor: sit dolor: sit \n\n": 1, "lorem ipsum lorem ipsum lorem ipsum lorem ipsum lorem ipsum lorem ipsum \ndolor sit dolor sit dolor sit dolor sit dolor sit dolor sit ": 0, "lorem ipsum lorem ipsum lorem ipsum lorem ipsum lorem ipsum lorem ipsum :\ndolor sit dolor sit dolor sit dolor sit dolor sit dolor sit :": 2} => Ok("\"  lorem ipsum lorem ipsum lorem ipsum lorem ipsum lorem ipsum lorem ipsum \\ndolor: sit dolor: sit dolor: sit dolor: sit dolor: sit dolor: sit \\n\\n\": 1\n\"lorem ipsum lorem ipsum lorem ipsum lorem ipsum lorem ipsum lorem ipsum \\ndolor sit dolor sit dolor sit dolor sit dolor sit dolor sit \": 0\n\"lorem ipsum lorem ipsum lorem ipsum lorem ipsum lorem ipsum lorem ipsum :\\ndolor sit dolor sit dolor sit dolor sit dolor sit dolor sit :\": 2\n") <= SAME
nested [wrap12] {"outer": [{"k00": "lorem ipsum lorem ipsum lorem ipsum lorem ipsum lorem ipsum lorem ipsum \ndolor sit dolor sit dolor sit dolor sit dolor sit dolor sit ", "k01": "  lorem ipsum lorem ipsum lorem ipsum lorem ipsum lorem ipsum lorem ipsum \ndolor: sit dolor: sit dolor: sit dolor: sit dolor: sit dolor: sit \n\n", "k02": "lorem ipsum lorem ipsum lorem ipsum lorem ipsum lorem ipsum lorem ipsum :\ndolor sit dolor sit dolor sit dolor sit dolor sit dolor sit :"}, {"k00": "lorem ipsum lorem ipsum lorem ipsum lorem ipsum lorem ipsum lorem ipsum \ndolor sit dolor sit dolor sit dolor sit dolor sit dolor sit ", "k01": "  lorem ipsum lorem ipsum lorem ipsum lorem ipsum lorem ipsum lorem ipsum \ndolor: sit dolor: sit dolor: sit dolor: sit dolor: sit dolor: sit \n\n", "k02": "lorem ipsum lorem ipsum lorem ipsum lorem ipsum lorem ipsum lorem ipsum :\ndolor sit dolor sit dolor sit dolor sit dolor sit dolor sit :"}]} => Ok("outer:\n  - k00: |-\n      lorem ipsum lorem ipsum lorem ipsum lorem ipsum lorem ipsum lorem ipsum \n      dolor sit dolor sit dolor sit dolor sit dolor sit dolor sit \n    k01: |2+\n        lorem ipsum lorem ipsum lorem ipsum lorem ipsum lorem ipsum lorem ipsum \n      dolor: sit dolor: sit dolor: sit dolor: sit dolor: sit dolor: sit \n      \n    k02: |-\n      lorem ipsum lorem ipsum lorem ipsum lorem ipsum lorem ipsum lorem ipsum :\n      dolor sit dolor sit dolor sit dolor sit dolor sit dolor sit :\n  - k00: |-\n      lorem ipsum lorem ipsum lorem ipsum lorem ipsum lorem ipsum lorem ipsum \n      dolor sit dolor sit dolor sit dolor sit dolor sit dolor sit \n    k01: |2+\n        lorem ipsum lorem ipsum lorem ipsum lorem ipsum lorem ipsum lorem ipsum \n      dolor: sit dolor: sit dolor: sit dolor: sit dolor: sit dolor: sit \n      \n    k02: |-\n      lorem ipsum lorem ipsum lorem ipsum lorem ipsum lorem ipsum lorem ipsum :\n      dolor sit dolor sit dolor sit dolor sit dolor sit dolor sit :\n") <= SAME
flowseq [wrap12] => Ok("[\"\", \"~\", \"null\", \"NULL\", \"Null\", \"true\", \"False\", \"TRUE\", \"yes\", \"y\", \"No\", \"on\", \"OFF\", \"<<\", \"---\", \"--- a\"]\n") <= SAME
flowmap [wrap12] => Ok("{\"\": \"\", \"---\": \"---\", \"--- a\": \"--- a\", \"<<\": \"<<\", \"False\": \"False\", \"NULL\": \"NULL\", \"No\": \"No\", \"Null\": \"Null\", \"OFF\": \"OFF\", \"TRUE\": \"TRUE\", \"null\": \"null\", \"on\": \"on\", \"true\": \"true\", \"y\": \"y\", \"yes\": \"yes\", \"~\": \"~\"}\n") <= SAME
flowseq [wrap12] => Ok("[---a, \"...\", \"... x\", \".nan\", \".NaN\", \"-.INF\", \"+.inf\", \".inf\", +-.inf, .infx, \"nan\", \"NaN\", \"+inf\", \"-Infinity\", \"infinity\", \"0x1F\"]\n") <= SAME
flowmap [wrap12] => Ok("{+-.inf: +-.inf, \"+.inf\": \"+.inf\", \"+inf\": \"+inf\", ---a: ---a, \"-.INF\": \"-.INF\", \"-Infinity\": \"-Infinity\", \"...\": \"...\", \"... x\": \"... x\", \".NaN\": \".NaN\", \".inf\": \".inf\", .infx: .infx, \".nan\": \".nan\", \"0x1F\": \"0x1F\", \"NaN\": \"NaN\", \"infinity\": \"infinity\", \"nan\": \"nan\"}\n") <= SAME
flowseq [wrap12] => Ok("[\"-0x1f\", \"0o17\", \"0b101\", 0b102, \"1_000\", \"1e9\", \"1E+9\", \"1.\", \".5\", \"+1.5e-3\", 1.5e, \"12345678901234567890123456789\", '-', \"?\", +, '.']\n") <= SAME
flowmap [wrap12] => Ok("{+: +, \"+1.5e-3\": \"+1.5e-3\", \"-\": '-', \"-0x1f\": \"-0x1f\", .: '.', \".5\": \".5\", \"0b101\": \"0b101\", 0b102: 0b102, \"0o17\": \"0o17\", \"1.\": \"1.\", 1.5e: 1.5e, \"12345678901234567890123456789\": \"12345678901234567890123456789\", \"1E+9\": \"1E+9\", \"1_000\": \"1_000\", \"1e9\": \"1e9\", \"?\": \"?\"}\n") <= SAME
flowseq [wrap12] => Ok("['#', \"- a\", -a, \"-\\ta\", ?x, \"? x\", \",a\", \":a\", \"[a\", \"]a\", \"{a\", \"}a\", \"%a\", \"@a\", \"`a\", \"!a\"]\n") <= SAME
flowmap [wrap12] => Ok("{\"!a\": \"!a\", \"#\": '#', \"%a\": \"%a\", \",a\": \",a\", \"-\\ta\": \"-\\ta\", \"- a\": \"- a\", -a: -a, \":a\": \":a\", \"? x\": \"? x\", ?x: ?x, \"@a\": \"@a\", \"[a\": \"[a\", \"]a\": \"]a\", \"`a\": \"`a\", \"{a\": \"{a\", \"}a\": \"}a\"}\n") <= SAME
flowseq [wrap12] => Ok("[\"&a\", \"*a\", \"|a\", \">a\", \"'a\", \"\\\"a\", \"a: b\", a:b, \"a:\", \"a: \", \"a #b\", \"a#b\", \"a,b\", \"a]b\", \"a{b}\", \" lead\"]\n") <= SAME
flowmap [wrap12] => Ok("{\" lead\": \" lead\", \"\\\"a\": \"\\\"a\", \"&a\": \"&a\", \"'a\": \"'a\", \"*a\": \"*a\", \">a\": \">a\", \"a #b\": \"a #b\", \"a#b\": \"a#b\", \"a,b\": \"a,b\", \"a:\": \"a:\", \"a: \": \"a: \", \"a: b\": \"a: b\", \"a:b\": a:b, \"a]b\": \"a]b\", \"a{b}\": \"a{b}\", \"|a\": \"|a\"}\n") <= SAME
flowseq [wrap12] => Ok("[\"trail \", \"\u{a0}nbsp\", \"em\u{2003}\", \"\\uFEFFbom\", mid\u{feff}bom, \"tab\\there\", \"new\\nline\", \"line\\n\", \"line\\n\\n\", \"\\n\", \"\\n\\n\", \"\\n\\n\\n\", \"\\nlead\", \"a\\n\\n\\nb\\n\\n\\n\", \"  indented\\nline\", \"\\n  indented after blank\\n\"]\n") <= SAME
flowmap [wrap12] => Ok("{\"\\n\": \"\\n\", \"\\n\\n\": \"\\n\\n\", \"\\n\\n\\n\": \"\\n\\n\\n\", \"\\n  indented after blank\\n\": \"\\n  indented after blank\\n\", \"\\nlead\": \"\\nlead\", \"  indented\\nline\": \"  indented\\nline\", \"a\\n\\n\\nb\\n\\n\\n\": \"a\\n\\n\\nb\\n\\n\\n\", \"em\u{2003}\": \"em\u{2003}\", \"line\\n\": \"line\\n\", \"line\\n\\n\": \"line\\n\\n\", mid\u{feff}bom: mid\u{feff}bom, \"new\\nline\": \"new\\nline\", \"tab\\there\": \"tab\\there\", \"trail \": \"trail \", \"\u{a0}nbsp\": \"\u{a0}nbsp\", \"\u{feff}bom\": \"\\uFEFFbom\"}\n") <= SAME
flowseq [wrap12] => Ok("[\"a\\n  b\\n\", \"key: v\\nnext\", \"ends with colon:\\nx:\", \"# not comment\\nline\", \"trailing space \\nline\", \"cr\\rhere\", \"crlf\\r\\nhere\", \"\\0\", \"\\a\", \"\\b\", \"\\v\", \"\\f\", \"\\e\", \"\\x01\", \"\\x1F\", \"\\x7F\"]\n") <= SAME
flowmap [wrap12] => Ok("{\"\\u0000\": \"\\0\", \"\\u0001\": \"\\x01\", \"\\u0007\": \"\\a\", \"\\u0008\": \"\\b\", \"\\u000B\": \"\\v\", \"\\u000C\": \"\\f\", \"\\u001B\": \"\\e\", \"\\u001F\": \"\\x1F\", \"# not comment\\nline\": \"# not comment\\nline\", \"a\\n  b\\n\": \"a\\n  b\\n\", \"cr\\rhere\": \"cr\\rhere\", \"crlf\\r\\nhere\": \"crlf\\r\\nhere\", \"ends with colon:\\nx:\": \"ends with colon:\\nx:\", \"key: v\\nnext\": \"key: v\\nnext\", \"trailing space \\nline\": \"trailing space \\nline\", \"\\u007F\": \"\\x7F\"}\n") <= SAME
flowseq [wrap12] => Ok("[\"\\x80\", \"\\N\", \"\\x9F\", \"\\L\", \"\\P\", a\u{2028}b, it's, \"'\", \"''\", say \"hi\", back\\slash, \\, é, 日本語, 😀, 1.0.0]\n") <= SAME
flowmap [wrap12] => Ok("{\"'\": \"'\", \"''\": \"''\", 1.0.0: 1.0.0, \\: \\, a\u{2028}b: a\u{2028}b, back\\slash: back\\slash, it's: it's, say \"hi\": say \"hi\", \"\\u0080\": \"\\x80\", \"\\u0085\": \"\\N\", \"\\u009F\": \"\\x9F\", é: é, \"\u{2028}\": \"\\L\", \"\u{2029}\": \"\\P\", 日本語: 日本語, 😀: 😀}\n") <= SAME
flowseq [wrap12] => Ok("[12:30, 2001-12-14, a b, word word word word word word word word word word word word word word word word word word word word word word word word word word word word word word, \"word word word word word word word word word word word word word word word word word word word word word word word word word word word word word word \", \"word word word word word word word word word word word word word word word word word word word word word word word word word word word word word word\\n\", \"word word word word word word word word word word word word word word word word word word word word word word word word word word word word word word\\n\\n\", xxxxxxxxxxxxxxxxxxxxxxxxxxxxxxxxxxxxxxxxxxxxxxxxxxxxxxxxxxxxxxxxxxxxxxxxxxxxxxxxxxxxxxxxxxxxxxxxxxxxxxxxxxxxxxxxxxxxxxxx, aaaaaaaaaaaaaaaaaaaaaaaaaaaaaaaaaaaaaaaaaaaaaaaaaa   bbbbbbbbbbbbbbbbbbbbbbbbbbbbbbbbbbbbbbbbbbbbbbbbbb  cccccccccccccccccccccccccccccccccccccccccccccccccc, \"aaaaaaaaaaaaaaaaaaaaaaaaaaaaaaaaaaaaaaaaaaaaaaaaaa\\tbbbbbbbbbbbbbbbbbbbbbbbbbbbbbbbbbbbbbbbbbbbbbbbbbb\\tcccccccccccccccccccccccccccccccccccccccccccccccccc\", \"aaaaaaaaaaaaaaaaaaaaaaaaaaaaaaaaaaaaaaaaaaaaaaaaaa # bbbbbbbbbbbbbbbbbbbbbbbbbbbbbbbbbbbbbbbbbbbbbbbbbb\", \"aaaaaaaaaaaaaaaaaaaaaaaaaaaaaaaaaaaaaaaaaaaaaaaaaa: bbbbbbbbbbbbbbbbbbbbbbbbbbbbbbbbbbbbbbbbbbbbbbbbbb\", \"- lorem ipsum lorem ipsum lorem ipsum lorem ipsum lorem ipsum lorem ipsum lorem ipsum lorem ipsum lorem ipsum lorem ipsum \", \"日本語 テキスト 日本語 テキスト 日本語 テキスト 日本語 テキスト 日本語 テキスト 日本語 テキスト 日本語 テキスト 日本語 テキスト 日本語 テキスト 日本語 テキスト 日本語 テキスト 日本語 テキスト 日本語 テキスト 日本語 テキスト 日本語 テキスト \", \"ab ab ab ab ab ab ab ab ab ab ab ab ab ab ab ab ab ab ab ab \\Ncd cd cd cd cd cd cd cd cd cd cd cd cd cd cd cd cd cd cd cd \", \"ab ab ab ab ab ab ab ab ab ab ab ab ab ab ab ab ab ab ab ab \\rcd cd cd cd cd cd cd cd cd cd cd cd cd cd cd cd cd cd cd cd \"]\n") <= SAME
flowmap [wrap12] => Ok("{\"- lorem ipsum lorem ipsum lorem ipsum lorem ipsum lorem ipsum lorem ipsum lorem ipsum lorem ipsum lorem ipsum lorem ipsum \": \"- lorem ipsum lorem ipsum lorem ipsum lorem ipsum lorem ipsum lorem ipsum lorem ipsum lorem ipsum lorem ipsum lorem ipsum \", \"12:30\": 12:30, 2001-12-14: 2001-12-14, a b: a b, \"aaaaaaaaaaaaaaaaaaaaaaaaaaaaaaaaaaaaaaaaaaaaaaaaaa\\tbbbbbbbbbbbbbbbbbbbbbbbbbbbbbbbbbbbbbbbbbbbbbbbbbb\\tcccccccccccccccccccccccccccccccccccccccccccccccccc\": \"aaaaaaaaaaaaaaaaaaaaaaaaaaaaaaaaaaaaaaaaaaaaaaaaaa\\tbbbbbbbbbbbbbbbbbbbbbbbbbbbbbbbbbbbbbbbbbbbbbbbbbb\\tcccccccccccccccccccccccccccccccccccccccccccccccccc\", aaaaaaaaaaaaaaaaaaaaaaaaaaaaaaaaaaaaaaaaaaaaaaaaaa   bbbbbbbbbbbbbbbbbbbbbbbbbbbbbbbbbbbbbbbbbbbbbbbbbb  cccccccccccccccccccccccccccccccccccccccccccccccccc: aaaaaaaaaaaaaaaaaaaaaaaaaaaaaaaaaaaaaaaaaaaaaaaaaa   bbbbbbbbbbbbbbbbbbbbbbbbbbbbbbbbbbbbbbbbbbbbbbbbbb  cccccccccccccccccccccccccccccccccccccccccccccccccc, \"aaaaaaaaaaaaaaaaaaaaaaaaaaaaaaaaaaaaaaaaaaaaaaaaaa # bbbbbbbbbbbbbbbbbbbbbbbbbbbbbbbbbbbbbbbbbbbbbbbbbb\": \"aaaaaaaaaaaaaaaaaaaaaaaaaaaaaaaaaaaaaaaaaaaaaaaaaa # bbbbbbbbbbbbbbbbbbbbbbbbbbbbbbbbbbbbbbbbbbbbbbbbbb\", \"aaaaaaaaaaaaaaaaaaaaaaaaaaaaaaaaaaaaaaaaaaaaaaaaaa: bbbbbbbbbbbbbbbbbbbbbbbbbbbbbbbbbbbbbbbbbbbbbbbbbb\": \"aaaaaaaaaaaaaaaaaaaaaaaaaaaaaaaaaaaaaaaaaaaaaaaaaa: bbbbbbbbbbbbbbbbbbbbbbbbbbbbbbbbbbbbbbbbbbbbbbbbbb\", \"ab ab ab ab ab ab ab ab ab ab ab ab ab ab ab ab ab ab ab ab \\rcd cd cd cd cd cd cd cd cd cd cd cd cd cd cd cd cd cd cd cd \": \"ab ab ab ab ab ab ab ab ab ab ab ab ab ab ab ab ab ab ab ab \\rcd cd cd cd cd cd cd cd cd cd cd cd cd cd cd cd cd cd cd cd \", \"ab ab ab ab ab ab ab ab ab ab ab ab ab ab ab ab ab ab ab ab \\u0085cd cd cd cd cd cd cd cd cd cd cd cd cd cd cd cd cd cd cd cd \": \"ab ab ab ab ab ab ab ab ab ab ab ab ab ab ab ab ab ab ab ab \\Ncd cd cd cd cd cd cd cd cd cd cd cd cd cd cd cd cd cd cd cd \", word word word word word word word word word word word word word word word word word word word word word word word word word word word word word word: word word word word word word word word word word word word word word word word word word word word word word word word word word word word word word, \"word word word word word word word word word word word word word word word word word word word word word word word word word word word word word word\\n\": \"word word word word word word word word word word word word word word word word word word word word word word word word word word word word word word\\n\", \"word word word word word word word word word word word word word word word word word word word word word word word word word word word word word word\\n\\n\": \"word word word word word word word word word word word word word word word word word word word word word word word word word word word word word word\\n\\n\", \"word word word word word word word word word word word word word word word word word word word word word word word word word word word word word word \": \"word word word word word word word word word word word word word word word word word word word word word word word word word word word word word word \", xxxxxxxxxxxxxxxxxxxxxxxxxxxxxxxxxxxxxxxxxxxxxxxxxxxxxxxxxxxxxxxxxxxxxxxxxxxxxxxxxxxxxxxxxxxxxxxxxxxxxxxxxxxxxxxxxxxxxxxx: xxxxxxxxxxxxxxxxxxxxxxxxxxxxxxxxxxxxxxxxxxxxxxxxxxxxxxxxxxxxxxxxxxxxxxxxxxxxxxxxxxxxxxxxxxxxxxxxxxxxxxxxxxxxxxxxxxxxxxxx, \"日本語 テキスト 日本語 テキスト 日本語 テキスト 日本語 テキスト 日本語 テキスト 日本語 テキスト 日本語 テキスト 日本語 テキスト 日本語 テキスト 日本語 テキスト 日本語 テキスト 日本語 テキスト 日本語 テキスト 日本語 テキスト 日本語 テキスト \": \"日本語 テキスト 日本語 テキスト 日本語 テキスト 日本語 テキスト 日本語 テキスト 日本語 テキスト 日本語 テキスト 日本語 テキスト 日本語 テキスト 日本語 テキスト 日本語 テキスト 日本語 テキスト 日本語 テキスト 日本語 テキスト 日本語 テキスト \"}\n") <= SAME
flowseq [wrap12] => Ok("[\"lorem ipsum lorem ipsum lorem ipsum lorem ipsum lorem ipsum lorem ipsum \\ndolor sit dolor sit dolor sit dolor sit dolor sit dolor sit \", \"  lorem ipsum lorem ipsum lorem ipsum lorem ipsum lorem ipsum lorem ipsum \\ndolor: sit dolor: sit dolor: sit dolor: sit dolor: sit dolor: sit \\n\\n\", \"lorem ipsum lorem ipsum lorem ipsum lorem ipsum lorem ipsum lorem ipsum :\\ndolor sit dolor sit dolor sit dolor sit dolor sit dolor sit :\"]\n") <= SAME
flowmap [wrap12] => Ok("{\"  lorem ipsum lorem ipsum lorem ipsum lorem ipsum lorem ipsum lorem ipsum \\ndolor: sit dolor: sit dolor: sit dolor: sit dolor: sit dolor: sit \\n\\n\": \"  lorem ipsum lorem ipsum lorem ipsum lorem ipsum lorem ipsum lorem ipsum \\ndolor: sit dolor: sit dolor: sit dolor: sit dolor: sit dolor: sit \\n\\n\", \"lorem ipsum lorem ipsum lorem ipsum lorem ipsum lorem ipsum lorem ipsum \\ndolor sit dolor sit dolor sit dolor sit dolor sit dolor sit \": \"lorem ipsum lorem ipsum lorem ipsum lorem ipsum lorem ipsum lorem ipsum \\ndolor sit dolor sit dolor sit dolor sit dolor sit dolor sit \", \"lorem ipsum lorem ipsum lorem ipsum lorem ipsum lorem ipsum lorem ipsum :\\ndolor sit dolor sit dolor sit dolor sit dolor sit dolor sit :\": \"lorem ipsum lorem ipsum lorem ipsum lorem ipsum lorem ipsum lorem ipsum :\\ndolor sit dolor sit dolor sit dolor sit dolor sit dolor sit :\"}\n") <= SAME
enum [wrap12] Text("") => Ok("Text: \"\"\n") <= SAME
enum [wrap12] [Pair("", -1)] => Ok("- Pair:\n    - \"\"\n    - -1\n") <= SAME
enum [wrap12] Rec { s: "", c: 'x' } => Ok("Rec:\n  s: \"\"\n  c: x\n") <= SAME
enum [wrap12] Text("NULL") => Ok("Text: \"NULL\"\n") <= SAME
enum [wrap12] [Pair("NULL", -1)] => Ok("- Pair:\n    - \"NULL\"\n    - -1\n") <= SAME
enum [wrap12] Rec { s: "NULL", c: 'N' } => Ok("Rec:\n  s: \"NULL\"\n  c: \"N\"\n") <= SAME
enum [wrap12] Text("False") => Ok("Text: \"False\"\n") <= SAME
enum [wrap12] [Pair("False", -1)] => Ok("- Pair:\n    - \"False\"\n    - -1\n") <= SAME
enum [wrap12] Rec { s: "False", c: 'F' } => Ok("Rec:\n  s: \"False\"\n  c: F\n") <= SAME
enum [wrap12] Text("y") => Ok("Text: \"y\"\n") <= SAME
enum [wrap12] [Pair("y", -1)] => Ok("- Pair:\n    - \"y\"\n    - -1\n") <= SAME
enum [wrap12] Rec { s: "y", c: 'y' } => Ok("Rec:\n  s: \"y\"\n  c: \"y\"\n") <= SAME
enum [wrap12] Text("OFF") => Ok("Text: \"OFF\"\n") <= SAME
enum [wrap12] [Pair("OFF", -1)] => Ok("- Pair:\n    - \"OFF\"\n    - -1\n") <= SAME
enum [wrap12] Rec { s: "OFF", c: 'O' } => Ok("Rec:\n  s: \"OFF\"\n  c: O\n") <= SAME
enum [wrap12] Text("--- a") => Ok("Text: \"--- a\"\n") <= SAME
enum [wrap12] [Pair("--- a", -1)] => Ok("- Pair:\n    - \"--- a\"\n    - -1\n") <= SAME
enum [wrap12] Rec { s: "--- a", c: '-' } => Ok("Rec:\n  s: \"--- a\"\n  c: '-'\n") <= SAME
enum [wrap12] Text("... x") => Ok("Text: \"... x\"\n") <= SAME
enum [wrap12] [Pair("... x", -1)] => Ok("- Pair:\n    - \"... x\"\n    - -1\n") <= SAME
enum [wrap12] Rec { s: "... x", c: '.' } => Ok("Rec:\n  s: \"... x\"\n  c: '.'\n") <= SAME
enum [wrap12] Text("-.INF") => Ok("Text: \"-.INF\"\n") <= SAME
enum [wrap12] [Pair("-.INF", -1)] => Ok("- Pair:\n    - \"-.INF\"\n    - -1\n") <= SAME
enum [wrap12] Rec { s: "-.INF", c: '-' } => Ok("Rec:\n  s: \"-.INF\"\n  c: '-'\n") <= SAME
enum [wrap12] Text("+-.inf") => Ok("Text: +-.inf\n") <= SAME
enum [wrap12] [Pair("+-.inf", -1)] => Ok("- Pair:\n    - +-.inf\n    - -1\n") <= SAME
enum [wrap12] Rec { s: "+-.inf", c: '+' } => Ok("Rec:\n  s: +-.inf\n  c: +\n") <= SAME
enum [wrap12] Text("NaN") => Ok("Text: \"NaN\"\n") <= SAME
enum [wrap12] [Pair("NaN", -1)] => Ok("- Pair:\n    - \"NaN\"\n    - -1\n") <= SAME
enum [wrap12] Rec { s: "NaN", c: 'N' } => Ok("Rec:\n  s: \"NaN\"\n  c: \"N\"\n") <= SAME
enum [wrap12] Text("infinity") => Ok("Text: \"infinity\"\n") <= SAME
enum [wrap12] [Pair("infinity", -1)] => Ok("- Pair:\n    - \"infinity\"\n    - -1\n") <= SAME
enum [wrap12] Rec { s: "infinity", c: 'i' } => Ok("Rec:\n  s: \"infinity\"\n  c: i\n") <= SAME
enum [wrap12] Text("0o17") => Ok("Text: \"0o17\"\n") <= SAME
enum [wrap12] [Pair("0o17", -1)] => Ok("- Pair:\n    - \"0o17\"\n    - -1\n") <= SAME
enum [wrap12] Rec { s: "0o17", c: '0' } => Ok("Rec:\n  s: \"0o17\"\n  c: \"0\"\n") <= SAME
enum [wrap12] Text("1_000") => Ok("Text: \"1_000\"\n") <= SAME
enum [wrap12] [Pair("1_000", -1)] => Ok("- Pair:\n    - \"1_000\"\n    - -1\n") <= SAME
enum [wrap12] Rec { s: "1_000", c: '1' } => Ok("Rec:\n  s: \"1_000\"\n  c: \"1\"\n") <= SAME
enum [wrap12] Text("1.") => Ok("Text: \"1.\"\n") <= SAME
enum [wrap12] [Pair("1.", -1)] => Ok("- Pair:\n    - \"1.\"\n    - -1\n") <= SAME
enum [wrap12] Rec { s: "1.", c: '1' } => Ok("Rec:\n  s: \"1.\"\n  c: \"1\"\n") <= SAME
enum [wrap12] Text("1.5e") => Ok("Text: 1.5e\n") <= SAME
enum [wrap12] [Pair("1.5e", -1)] => Ok("- Pair:\n    - 1.5e\n    - -1\n") <= SAME
enum [wrap12] Rec { s: "1.5e", c: '1' } => Ok("Rec:\n  s: 1.5e\n  c: \"1\"\n") <= SAME
enum [wrap12] Text("?") => Ok("Text: \"?\"\n") <= SAME
enum [wrap12] [Pair("?", -1)] => Ok("- Pair:\n    - \"?\"\n    - -1\n") <= SAME
enum [wrap12] Rec { s: "?", c: '?' } => Ok("Rec:\n  s: \"?\"\n  c: \"?\"\n") <= SAME
enum [wrap12] Text("#") => Ok("Text: '#'\n") <= SAME
enum [wrap12] [Pair("#", -1)] => Ok("- Pair:\n    - '#'\n    - -1\n") <= SAME
enum [wrap12] Rec { s: "#", c: '#' } => Ok("Rec:\n  s: '#'\n  c: '#'\n") <= SAME
enum [wrap12] Text("-\ta") => Ok("Text: \"-\\ta\"\n") <= SAME
enum [wrap12] [Pair("-\ta", -1)] => Ok("- Pair:\n    - \"-\\ta\"\n    - -1\n") <= SAME
enum [wrap12] Rec { s: "-\ta", c: '-' } => Ok("Rec:\n  s: \"-\\ta\"\n  c: '-'\n") <= SAME
enum [wrap12] Text(",a") => Ok("Text: \",a\"\n") <= SAME
enum [wrap12] [Pair(",a", -1)] => Ok("- Pair:\n    - \",a\"\n    - -1\n") <= SAME
enum [wrap12] Rec { s: ",a", c: ',' } => Ok("Rec:\n  s: \",a\"\n  c: \",\"\n") <= SAME
enum [wrap12] Text("]a") => Ok("Text: \"]a\"\n") <= SAME
enum [wrap12] [Pair("]a", -1)] => Ok("- Pair:\n    - \"]a\"\n    - -1\n") <= SAME
enum [wrap12] Rec { s: "]a", c: ']' } => Ok("Rec:\n  s: \"]a\"\n  c: \"]\"\n") <= SAME
enum [wrap12] Text("%a") => Ok("Text: \"%a\"\n") <= SAME
enum [wrap12] [Pair("%a", -1)] => Ok("- Pair:\n    - \"%a\"\n    - -1\n") <= SAME
enum [wrap12] Rec { s: "%a", c: '%' } => Ok("Rec:\n  s: \"%a\"\n  c: \"%\"\n") <= SAME
enum [wrap12] Text("!a") => Ok("Text: \"!a\"\n") <= SAME
enum [wrap12] [Pair("!a", -1)] => Ok("- Pair:\n    - \"!a\"\n    - -1\n") <= SAME
enum [wrap12] Rec { s: "!a", c: '!' } => Ok("Rec:\n  s: \"!a\"\n  c: \"!\"\n") <= SAME
enum [wrap12] Text("|a") => Ok("Text: \"|a\"\n") <= SAME
enum [wrap12] [Pair("|a", -1)] => Ok("- Pair:\n    - \"|a\"\n    - -1\n") <= SAME
enum [wrap12] Rec { s: "|a", c: '|' } => Ok("Rec:\n  s: \"|a\"\n  c: \"|\"\n") <= SAME
enum [wrap12] Text("\"a") => Ok("Text: \"\\\"a\"\n") <= SAME
enum [wrap12] [Pair("\"a", -1)] => Ok("- Pair:\n    - \"\\\"a\"\n    - -1\n") <= SAME
enum [wrap12] Rec { s: "\"a", c: '"' } => Ok("Rec:\n  s: \"\\\"a\"\n  c: \"\\\"\"\n") <= SAME
enum [wrap12] Text("a:") => Ok("Text: \"a:\"\n") <= SAME
enum [wrap12] [Pair("a:", -1)] => Ok("- Pair:\n    - \"a:\"\n    - -1\n") <= SAME
enum [wrap12] Rec { s: "a:", c: 'a' } => Ok("Rec:\n  s: \"a:\"\n  c: a\n") <= SAME
enum [wrap12] Text("a#b") => Ok("Text: \"a#b\"\n") <= SAME
enum [wrap12] [Pair("a#b", -1)] => Ok("- Pair:\n    - \"a#b\"\n    - -1\n") <= SAME
enum [wrap12] Rec { s: "a#b", c: 'a' } => Ok("Rec:\n  s: \"a#b\"\n  c: a\n") <= SAME
enum [wrap12] Text("a{b}") => Ok("Text: a{b}\n") <= SAME
enum [wrap12] [Pair("a{b}", -1)] => Ok("- Pair:\n    - a{b}\n    - -1\n") <= SAME
enum [wrap12] Rec { s: "a{b}", c: 'a' } => Ok("Rec:\n  s: a{b}\n  c: a\n") <= SAME
enum [wrap12] Text("\u{a0}nbsp") => Ok("Text: \"\u{a0}nbsp\"\n") <= SAME
enum [wrap12] [Pair("\u{a0}nbsp", -1)] => Ok("- Pair:\n    - \"\u{a0}nbsp\"\n    - -1\n") <= SAME
enum [wrap12] Rec { s: "\u{a0}nbsp", c: '\u{a0}' } => Ok("Rec:\n  s: \"\u{a0}nbsp\"\n  c: \"\u{a0}\"\n") <= SAME
enum [wrap12] Text("mid\u{feff}bom") => Ok("Text: mid\u{feff}bom\n") <= SAME
enum [wrap12] [Pair("mid\u{feff}bom", -1)] => Ok("- Pair:\n    - mid\u{feff}bom\n    - -1\n") <= SAME
enum [wrap12] Rec { s: "mid\u{feff}bom", c: 'm' } => Ok("Rec:\n  s: mid\u{feff}bom\n  c: m\n") <= SAME
enum [wrap12] Text("line\n") => Ok("Text: |\n  line\n") <= SAME
enum [wrap12] [Pair("line\n", -1)] => Ok("- Pair:\n    - |\n      line\n    - -1\n") <= SAME
enum [wrap12] Rec { s: "line\n", c: 'l' } => Ok("Rec:\n  s: |\n    line\n  c: l\n") <= SAME
enum [wrap12] Text("\n\n") => Ok("Text: \"\\n\\n\"\n") <= SAME
enum [wrap12] [Pair("\n\n", -1)] => Ok("- Pair:\n    - \"\\n\\n\"\n    - -1\n") <= SAME
enum [wrap12] Rec { s: "\n\n", c: '\n' } => Ok("Rec:\n  s: \"\\n\\n\"\n  c: \"\\n\"\n") <= SAME
enum [wrap12] Text("a\n\n\nb\n\n\n") => Ok("Text: |+\n  a\n  \n  \n  b\n  \n  \n") <= SAME
enum [wrap12] [Pair("a\n\n\nb\n\n\n", -1)] => Ok("- Pair:\n    - |+\n      a\n      \n      \n      b\n      \n      \n    - -1\n") <= SAME
enum [wrap12] Rec { s: "a\n\n\nb\n\n\n", c: 'a' } => Ok("Rec:\n  s: |+\n    a\n    \n    \n    b\n    \n    \n  c: a\n") <= SAME
enum [wrap12] Text("a\n  b\n") => Ok("Text: |\n  a\n    b\n") <= SAME
enum [wrap12] [Pair("a\n  b\n", -1)] => Ok("- Pair:\n    - |\n      a\n        b\n    - -1\n") <= SAME
enum [wrap12] Rec { s: "a\n  b\n", c: 'a' } => Ok("Rec:\n  s: |\n    a\n      b\n  c: a\n") <= SAME
enum [wrap12] Text("# not comment\nline") => Ok("Text: |-\n  # not comment\n  line\n") <= SAME
enum [wrap12] [Pair("# not comment\nline", -1)] => Ok("- Pair:\n    - |-\n      # not comment\n      line\n    - -1\n") <= SAME
enum [wrap12] Rec { s: "# not comment\nline", c: '#' } => Ok("Rec:\n  s: |-\n    # not comment\n    line\n  c: '#'\n") <= SAME
enum [wrap12] Text("crlf\r\nhere") => Ok("Text: \"crlf\\r\\nhere\"\n") <= SAME
enum [wrap12] [Pair("crlf\r\nhere", -1)] => Ok("- Pair:\n    - \"crlf\\r\\nhere\"\n    - -1\n") <= SAME
enum [wrap12] Rec { s: "crlf\r\nhere", c: 'c' } => Ok("Rec:\n  s: \"crlf\\r\\nhere\"\n  c: c\n") <= SAME
enum [wrap12] Text("\u{8}") => Ok("Text: \"\\b\"\n") <= SAME
enum [wrap12] [Pair("\u{8}", -1)] => Ok("- Pair:\n    - \"\\b\"\n    - -1\n") <= SAME
enum [wrap12] Rec { s: "\u{8}", c: '\u{8}' } => Ok("Rec:\n  s: \"\\b\"\n  c: \"\\b\"\n") <= SAME
enum [wrap12] Text("\u{1b}") => Ok("Text: \"\\e\"\n") <= SAME
enum [wrap12] [Pair("\u{1b}", -1)] => Ok("- Pair:\n    - \"\\e\"\n    - -1\n") <= SAME
enum [wrap12] Rec { s: "\u{1b}", c: '\u{1b}' } => Ok("Rec:\n  s: \"\\e\"\n  c: \"\\e\"\n") <= SAME
enum [wrap12] Text("\u{7f}") => Ok("Text: \"\\x7F\"\n") <= SAME
enum [wrap12] [Pair("\u{7f}", -1)] => Ok("- Pair:\n    - \"\\x7F\"\n    - -1\n") <= SAME
enum [wrap12] Rec { s: "\u{7f}", c: '\u{7f}' } => Ok("Rec:\n  s: \"\\x7F\"\n  c: \"\\x7F\"\n") <= SAME
enum [wrap12] Text("\u{9f}") => Ok("Text: \"\\x9F\"\n") <= SAME
enum [wrap12] [Pair("\u{9f}", -1)] => Ok("- Pair:\n    - \"\\x9F\"\n    - -1\n") <= SAME
enum [wrap12] Rec { s: "\u{9f}", c: '\u{9f}' } => Ok("Rec:\n  s: \"\\x9F\"\n  c: \"\\x9F\"\n") <= SAME
enum [wrap12] Text("a\u{2028}b") => Ok("Text: a\u{2028}b\n") <= SAME
enum [wrap12] [Pair("a\u{2028}b", -1)] => Ok("- Pair:\n    - a\u{2028}b\n    - -1\n") <= SAME
enum [wrap12] Rec { s: "a\u{2028}b", c: 'a' } => Ok("Rec:\n  s: a\u{2028}b\n  c: a\n") <= SAME
enum [wrap12] Text("''") => Ok("Text: \"''\"\n") <= SAME
enum [wrap12] [Pair("''", -1)] => Ok("- Pair:\n    - \"''\"\n    - -1\n") <= SAME
enum [wrap12] Rec { s: "''", c: '\'' } => Ok("Rec:\n  s: \"''\"\n  c: \"'\"\n") <= SAME
enum [wrap12] Text("\\") => Ok("Text: \\\n") <= SAME
enum [wrap12] [Pair("\\", -1)] => Ok("- Pair:\n    - \\\n    - -1\n") <= SAME
enum [wrap12] Rec { s: "\\", c: '\\' } => Ok("Rec:\n  s: \\\n  c: \\\n") <= SAME
enum [wrap12] Text("😀") => Ok("Text: 😀\n") <= SAME
enum [wrap12] [Pair("😀", -1)] => Ok("- Pair:\n    - 😀\n    - -1\n") <= SAME
enum [wrap12] Rec { s: "😀", c: '😀' } => Ok("Rec:\n  s: 😀\n  c: 😀\n") <= SAME
enum [wrap12] Text("2001-12-14") => Ok("Text: 2001-12-14\n") <= SAME
enum [wrap12] [Pair("2001-12-14", -1)] => Ok("- Pair:\n    - 2001-12-14\n    - -1\n") <= SAME
enum [wrap12] Rec { s: "2001-12-14", c: '2' } => Ok("Rec:\n  s: 2001-12-14\n  c: \"2\"\n") <= SAME
enum [wrap12] Text("word word word word word word word word word word word word word word word word word word word word word word word word word word word word word word ") => Ok("Text: >-\n  word word\n  word word word\n  word word\n  word word word\n  word word\n  word word word\n  word word word\n  word word\n  word word word\n  word word\n  word word word\n  word word \n") <= SAME
enum [wrap12] [Pair("word word word word word word word word word word word word word word word word word word word word word word word word word word word word word word ", -1)] => Ok("- Pair:\n    - >-\n      word word\n      word word word\n      word word\n      word word word\n      word word\n      word word word\n      word word word\n      word word\n      word word word\n      word word\n      word word word\n      word word \n    - -1\n") <= SAME
enum [wrap12] Rec { s: "word word word word word word word word word word word word word word word word word word word word word word word word word word word word word word ", c: 'w' } => Ok("Rec:\n  s: >-\n    word word\n    word word word\n    word word\n    word word word\n    word word\n    word word word\n    word word word\n    word word\n    word word word\n    word word\n    word word word\n    word word \n  c: w\n") <= SAME
enum [wrap12] Text("xxxxxxxxxxxxxxxxxxxxxxxxxxxxxxxxxxxxxxxxxxxxxxxxxxxxxxxxxxxxxxxxxxxxxxxxxxxxxxxxxxxxxxxxxxxxxxxxxxxxxxxxxxxxxxxxxxxxxxxx") => Ok("Text: >-\n  xxxxxxxxxxxxxxxxxxxxxxxxxxxxxxxxxxxxxxxxxxxxxxxxxxxxxxxxxxxxxxxxxxxxxxxxxxxxxxxxxxxxxxxxxxxxxxxxxxxxxxxxxxxxxxxxxxxxxxxx\n") <= SAME
enum [wrap12] [Pair("xxxxxxxxxxxxxxxxxxxxxxxxxxxxxxxxxxxxxxxxxxxxxxxxxxxxxxxxxxxxxxxxxxxxxxxxxxxxxxxxxxxxxxxxxxxxxxxxxxxxxxxxxxxxxxxxxxxxxxxx", -1)] => Ok("- Pair:\n    - >-\n      xxxxxxxxxxxxxxxxxxxxxxxxxxxxxxxxxxxxxxxxxxxxxxxxxxxxxxxxxxxxxxxxxxxxxxxxxxxxxxxxxxxxxxxxxxxxxxxxxxxxxxxxxxxxxxxxxxxxxxxx\n    - -1\n") <= SAME
enum [wrap12] Rec { s: "xxxxxxxxxxxxxxxxxxxxxxxxxxxxxxxxxxxxxxxxxxxxxxxxxxxxxxxxxxxxxxxxxxxxxxxxxxxxxxxxxxxxxxxxxxxxxxxxxxxxxxxxxxxxxxxxxxxxxxxx", c: 'x' } => Ok("Rec:\n  s: >-\n    xxxxxxxxxxxxxxxxxxxxxxxxxxxxxxxxxxxxxxxxxxxxxxxxxxxxxxxxxxxxxxxxxxxxxxxxxxxxxxxxxxxxxxxxxxxxxxxxxxxxxxxxxxxxxxxxxxxxxxxx\n  c: x\n") <= SAME
enum [wrap12] Text("aaaaaaaaaaaaaaaaaaaaaaaaaaaaaaaaaaaaaaaaaaaaaaaaaa # bbbbbbbbbbbbbbbbbbbbbbbbbbbbbbbbbbbbbbbbbbbbbbbbbb") => Ok("Text: \"aaaaaaaaaaaaaaaaaaaaaaaaaaaaaaaaaaaaaaaaaaaaaaaaaa # bbbbbbbbbbbbbbbbbbbbbbbbbbbbbbbbbbbbbbbbbbbbbbbbbb\"\n") <= SAME
enum [wrap12] [Pair("aaaaaaaaaaaaaaaaaaaaaaaaaaaaaaaaaaaaaaaaaaaaaaaaaa # bbbbbbbbbbbbbbbbbbbbbbbbbbbbbbbbbbbbbbbbbbbbbbbbbb", -1)] => Ok("- Pair:\n    - \"aaaaaaaaaaaaaaaaaaaaaaaaaaaaaaaaaaaaaaaaaaaaaaaaaa # bbbbbbbbbbbbbbbbbbbbbbbbbbbbbbbbbbbbbbbbbbbbbbbbbb\"\n    - -1\n") <= SAME
enum [wrap12] Rec { s: "aaaaaaaaaaaaaaaaaaaaaaaaaaaaaaaaaaaaaaaaaaaaaaaaaa # bbbbbbbbbbbbbbbbbbbbbbbbbbbbbbbbbbbbbbbbbbbbbbbbbb", c: 'a' } => Ok("Rec:\n  s: \"aaaaaaaaaaaaaaaaaaaaaaaaaaaaaaaaaaaaaaaaaaaaaaaaaa # bbbbbbbbbbbbbbbbbbbbbbbbbbbbbbbbbbbbbbbbbbbbbbbbbb\"\n  c: a\n") <= SAME
enum [wrap12] Text("日本語 テキスト 日本語 テキスト 日本語 テキスト 日本語 テキスト 日本語 テキスト 日本語 テキスト 日本語 テキスト 日本語 テキスト 日本語 テキスト 日本語 テキスト 日本語 テキスト 日本語 テキスト 日本語 テキスト 日本語 テキスト 日本語 テキスト ") => Ok("Text: >-\n  日本語 テキスト\n  日本語 テキスト 日本語\n  テキスト 日本語 テキスト\n  日本語 テキスト 日本語\n  テキスト 日本語 テキスト\n  日本語 テキスト 日本語\n  テキスト 日本語 テキスト\n  日本語 テキスト 日本語\n  テキスト 日本語\n  テキスト 日本語 テキスト\n  日本語 テキスト \n") <= SAME
enum [wrap12] [Pair("日本語 テキスト 日本語 テキスト 日本語 テキスト 日本語 テキスト 日本語 テキスト 日本語 テキスト 日本語 テキスト 日本語 テキスト 日本語 テキスト 日本語 テキスト 日本語 テキスト 日本語 テキスト 日本語 テキスト 日本語 テキスト 日本語 テキスト ", -1)] => Ok("- Pair:\n    - >-\n      日本語 テキスト\n      日本語 テキスト 日本語\n      テキスト 日本語 テキスト\n      日本語 テキスト 日本語\n      テキスト 日本語 テキスト\n      日本語 テキスト 日本語\n      テキスト 日本語 テキスト\n      日本語 テキスト 日本語\n      テキスト 日本語\n      テキスト 日本語 テキスト\n      日本語 テキスト \n    - -1\n") <= SAME
enum [wrap12] Rec { s: "日本語 テキスト 日本語 テキスト 日本語 テキスト 日本語 テキスト 日本語 テキスト 日本語 テキスト 日本語 テキスト 日本語 テキスト 日本語 テキスト 日本語 テキスト 日本語 テキスト 日本語 テキスト 日本語 テキスト 日本語 テキスト 日本語 テキスト ", c: '日' } => Ok("Rec:\n  s: >-\n    日本語 テキスト\n    日本語 テキスト 日本語\n    テキスト 日本語 テキスト\n    日本語 テキスト 日本語\n    テキスト 日本語 テキスト\n    日本語 テキスト 日本語\n    テキスト 日本語 テキスト\n    日本語 テキスト 日本語\n    テキスト 日本語\n    テキスト 日本語 テキスト\n    日本語 テキスト \n  c: 日\n") <= SAME
enum [wrap12] Text("lorem ipsum lorem ipsum lorem ipsum lorem ipsum lorem ipsum lorem ipsum \ndolor sit dolor sit dolor sit dolor sit dolor sit dolor sit ") => Ok("Text: |-\n  lorem ipsum lorem ipsum lorem ipsum lorem ipsum lorem ipsum lorem ipsum \n  dolor sit dolor sit dolor sit dolor sit dolor sit dolor sit \n") <= SAME
enum [wrap12] [Pair("lorem ipsum lorem ipsum lorem ipsum lorem ipsum lorem ipsum lorem ipsum \ndolor sit dolor sit dolor sit dolor sit dolor sit dolor sit ", -1)] => Ok("- Pair:\n    - |-\n      lorem ipsum lorem ipsum lorem ipsum lorem ipsum lorem ipsum lorem ipsum \n      dolor sit dolor sit dolor sit dolor sit dolor sit dolor sit \n    - -1\n") <= SAME
enum [wrap12] Rec { s: "lorem ipsum lorem ipsum lorem ipsum lorem ipsum lorem ipsum lorem ipsum \ndolor sit dolor sit dolor sit dolor sit dolor sit dolor sit ", c: 'l' } => Ok("Rec:\n  s: |-\n    lorem ipsum lorem ipsum lorem ipsum lorem ipsum lorem ipsum lorem ipsum \n    dolor sit dolor sit dolor sit dolor sit dolor sit dolor sit \n  c: l\n") <= SAME
doc [wrap12] Doc { s: "line one\nline two\n", list: ["  lead\nx", "\n", "~"], opt: None, unit: () } => Ok("s: |\n  line one\n  line two\nlist:\n  - \"  lead\\nx\"\n  - \"\\n\"\n  - \"~\"\nopt: null\nunit: null\n") <= SAME
root [indent3compact] "" => Ok("\"\"\n") <= SAME
root [indent3compact] "~" => Ok("\"~\"\n") <= SAME
root [indent3compact] "null" => Ok("\"null\"\n") <= SAME
root [indent3compact] "NULL" => Ok("\"NULL\"\n") <= SAME
root [indent3compact] "Null" => Ok("\"Null\"\n") <= SAME
root [indent3compact] "true" => Ok("\"true\"\n") <= SAME
root [indent3compact] "False" => Ok("\"False\"\n") <= SAME
root [indent3compact] "TRUE" => Ok("\"TRUE\"\n") <= SAME
root [indent3compact] "yes" => Ok("\"yes\"\n") <= SAME
root [indent3compact] "y" => Ok("\"y\"\n") <= SAME
root [indent3compact] "No" => Ok("\"No\"\n") <= SAME
root [indent3compact] "on" => Ok("\"on\"\n") <= SAME
root [indent3compact] "OFF" => Ok("\"OFF\"\n") <= SAME
root [indent3compact] "<<" => Ok("\"<<\"\n") <= SAME
root [indent3compact] "---" => Ok("\"---\"\n") <= SAME
root [indent3compact] "--- a" => Ok("\"--- a\"\n") <= SAME
root [indent3compact] "---a" => Ok("---a\n") <= SAME
root [indent3compact] "..." => Ok("\"...\"\n") <= SAME
root [indent3compact] "... x" => Ok("\"... x\"\n") <= SAME
root [indent3compact] ".nan" => Ok("\".nan\"\n") <= SAME
root [indent3compact] ".NaN" => Ok("\".NaN\"\n") <= SAME
root [indent3compact] "-.INF" => Ok("\"-.INF\"\n") <= SAME
root [indent3compact] "+.inf" => Ok("\"+.inf\"\n") <= SAME
root [indent3compact] ".inf" => Ok("\".inf\"\n") <= SAME
root [indent3compact] "+-.inf" => Ok("+-.inf\n") <= SAME
root [indent3compact] ".infx" => Ok(".infx\n") <= SAME
root [indent3compact] "nan" => Ok("\"nan\"\n") <= SAME
root [indent3compact] "NaN" => Ok("\"NaN\"\n") <= SAME
root [indent3compact] "+inf" => Ok("\"+inf\"\n") <= SAME
root [indent3compact] "-Infinity" => Ok("\"-Infinity\"\n") <= SAME
root [indent3compact] "infinity" => Ok("\"infinity\"\n") <= SAME
root [indent3compact] "0x1F" => Ok("\"0x1F\"\n") <= SAME
root [indent3compact] "-0x1f" => Ok("\"-0x1f\"\n") <= SAME
root [indent3compact] "0o17" => Ok("\"0o17\"\n") <= SAME
root [indent3compact] "0b101" => Ok("\"0b101\"\n") <= SAME
root [indent3compact] "0b102" => Ok("0b102\n") <= SAME
root [indent3compact] "1_000" => Ok("\"1_000\"\n") <= SAME
root [indent3compact] "1e9" => Ok("\"1e9\"\n") <= SAME
root [indent3compact] "1E+9" => Ok("\"1E+9\"\n") <= SAME
root [indent3compact] "1." => Ok("\"1.\"\n") <= SAME
root [indent3compact] ".5" => Ok("\".5\"\n") <= SAME
root [indent3compact] "+1.5e-3" => Ok("\"+1.5e-3\"\n") <= SAME
root [indent3compact] "1.5e" => Ok("1.5e\n") <= SAME
root [indent3compact] "12345678901234567890123456789" => Ok("\"12345678901234567890123456789\"\n") <= SAME
root [indent3compact] "-" => Ok("'-'\n") <= SAME
root [indent3compact] "?" => Ok("\"?\"\n") <= SAME
root [indent3compact] "+" => Ok("+\n") <= SAME
root [indent3compact] "." => Ok("'.'\n") <= SAME
root [indent3compact] "#" => Ok("'#'\n") <= SAME
root [indent3compact] "- a" => Ok("\"- a\"\n") <= SAME
root [indent3compact] "-a" => Ok("-a\n") <= SAME
root [indent3compact] "-\ta" => Ok("\"-\\ta\"\n") <= SAME
root [indent3compact] "?x" => Ok("?x\n") <= SAME
root [indent3compact] "? x" => Ok("\"? x\"\n") <= SAME
root [indent3compact] ",a" => Ok("\",a\"\n") <= SAME
root [indent3compact] ":a" => Ok("\":a\"\n") <= SAME
root [indent3compact] "[a" => Ok("\"[a\"\n") <= SAME
root [indent3compact] "]a" => Ok("\"]a\"\n") <= SAME
root [indent3compact] "{a" => Ok("\"{a\"\n") <= SAME
root [indent3compact] "}a" => Ok("\"}a\"\n") <= SAME
root [indent3compact] "%a" => Ok("\"%a\"\n") <= SAME
root [indent3compact] "@a" => Ok("\"@a\"\n") <= SAME
root [indent3compact] "`a" => Ok("\"`a\"\n") <= SAME
root [indent3compact] "!a" => Ok("\"!a\"\n") <= SAME
root [indent3compact] "&a" => Ok("\"&a\"\n") <= SAME
root [indent3compact] "*a" => Ok("\"*a\"\n") <= SAME
root [indent3compact] "|a" => Ok("\"|a\"\n") <= SAME
root [indent3compact] ">a" => Ok("\">a\"\n") <= SAME
root [indent3compact] "'a" => Ok("\"'a\"\n") <= SAME
root [indent3compact] "\"a" => Ok("\"\\\"a\"\n") <= SAME
root [indent3compact] "a: b" => Ok("\"a: b\"\n") <= SAME
root [indent3compact] "a:b" => Ok("a:b\n") <= SAME
root [indent3compact] "a:" => Ok("\"a:\"\n") <= SAME
root [indent3compact] "a: " => Ok("\"a: \"\n") <= SAME
root [indent3compact] "a #b" => Ok("\"a #b\"\n") <= SAME
root [indent3compact] "a#b" => Ok("\"a#b\"\n") <= SAME
root [indent3compact] "a,b" => Ok("a,b\n") <= SAME
root [indent3compact] "a]b" => Ok("a]b\n") <= SAME
root [indent3compact] "a{b}" => Ok("a{b}\n") <= SAME
root [indent3compact] " lead" => Ok("\" lead\"\n") <= SAME
root [indent3compact] "trail " => Ok("\"trail \"\n") <= SAME
root [indent3compact] "\u{a0}nbsp" => Ok("\"\u{a0}nbsp\"\n") <= SAME
root [indent3compact] "em\u{2003}" => Ok("\"em\u{2003}\"\n") <= SAME
root [indent3compact] "\u{feff}bom" => Ok("\"\\uFEFFbom\"\n") <= SAME
root [indent3compact] "mid\u{feff}bom" => Ok("mid\u{feff}bom\n") <= SAME
root [indent3compact] "tab\there" => Ok("\"tab\\there\"\n") <= SAME
root [indent3compact] "new\nline" => Ok("|-\n   new\n   line\n") <= SAME
root [indent3compact] "line\n" => Ok("|\n   line\n") <= SAME
root [indent3compact] "line\n\n" => Ok("|+\n   line\n   \n") <= SAME
root [indent3compact] "\n" => Ok("\"\\n\"\n") <= SAME
root [indent3compact] "\n\n" => Ok("\"\\n\\n\"\n") <= SAME
root [indent3compact] "\n\n\n" => Ok("\"\\n\\n\\n\"\n") <= SAME
root [indent3compact] "\nlead" => Ok("\"\\nlead\"\n") <= SAME
root [indent3compact] "a\n\n\nb\n\n\n" => Ok("|+\n   a\n   \n   \n   b\n   \n   \n") <= SAME
root [indent3compact] "  indented\nline" => Ok("\"  indented\\nline\"\n") <= SAME
root [indent3compact] "\n  indented after blank\n" => Ok("\"\\n  indented after blank\\n\"\n") <= SAME
root [indent3compact] "a\n  b\n" => Ok("|\n   a\n     b\n") <= SAME
root [indent3compact] "key: v\nnext" => Ok("\"key: v\\nnext\"\n") <= SAME
root [indent3compact] "ends with colon:\nx:" => Ok("\"ends with colon:\\nx:\"\n") <= SAME
root [indent3compact] "# not comment\nline" => Ok("\"# not comment\\nline\"\n") <= SAME
root [indent3compact] "trailing space \nline" => Ok("|-\n   trailing space \n   line\n") <= SAME
root [indent3compact] "cr\rhere" => Ok("\"cr\\rhere\"\n") <= SAME
root [indent3compact] "crlf\r\nhere" => Ok("\"crlf\\r\\nhere\"\n") <= SAME
root [indent3compact] "\0" => Ok("\"\\0\"\n") <= SAME
root [indent3compact] "\u{7}" => Ok("\"\\a\"\n") <= SAME
root [indent3compact] "\u{8}" => Ok("\"\\b\"\n") <= SAME
root [indent3compact] "\u{b}" => Ok("\"\\v\"\n") <= SAME
root [indent3compact] "\u{c}" => Ok("\"\\f\"\n") <= SAME
root [indent3compact] "\u{1b}" => Ok("\"\\e\"\n") <= SAME
root [indent3compact] "\u{1}" => Ok("\"\\x01\"\n") <= SAME
root [indent3compact] "\u{1f}" => Ok("\"\\x1F\"\n") <= SAME
root [indent3compact] "\u{7f}" => Ok("\"\\x7F\"\n") <= SAME
root [indent3compact] "\u{80}" => Ok("\"\\x80\"\n") <= SAME
root [indent3compact] "\u{85}" => Ok("\"\\N\"\n") <= SAME
root [indent3compact] "\u{9f}" => Ok("\"\\x9F\"\n") <= SAME
root [indent3compact] "\u{2028}" => Ok("\"\\L\"\n") <= SAME
root [indent3compact] "\u{2029}" => Ok("\"\\P\"\n") <= SAME
root [indent3compact] "a\u{2028}b" => Ok("a\u{2028}b\n") <= SAME
root [indent3compact] "it's" => Ok("it's\n") <= SAME
root [indent3compact] "'" => Ok("\"'\"\n") <= SAME
root [indent3compact] "''" => Ok("\"''\"\n") <= SAME
root [indent3compact] "say \"hi\"" => Ok("say \"hi\"\n") <= SAME
root [indent3compact] "back\\slash" => Ok("back\\slash\n") <= SAME
root [indent3compact] "\\" => Ok("\\\n") <= SAME
root [indent3compact] "é" => Ok("é\n") <= SAME
root [indent3compact] "日本語" => Ok("日本語\n") <= SAME
root [indent3compact] "😀" => Ok("😀\n") <= SAME
root [indent3compact] "1.0.0" => Ok("1.0.0\n") <= SAME
root [indent3compact] "12:30" => Ok("12:30\n") <= SAME
root [indent3compact] "2001-12-14" => Ok("2001-12-14\n") <= SAME
root [indent3compact] "a b" => Ok("a b\n") <= SAME
root [indent3compact] "word word word word word word word word word word word word word word word word word word word word word word word word word word word word word word" => Ok(">-\n   word word word word word word word word word word word word word word word word\n   word word word word word word word word word word word word word word\n") <= SAME
root [indent3compact] "word word word word word word word word word word word word word word word word word word word word word word word word word word word word word word " => Ok(">-\n   word word word word word word word word word word word word word word word word\n   word word word word word word word word word word word word word word \n") <= SAME
root [indent3compact] "word word word word word word word word word word word word word word word word word word word word word word word word word word word word word word\n" => Ok("|\n   word word word word word word word word word word word word word word word word word word word word word word word word word word word word word word\n") <= SAME
root [indent3compact] "word word word word word word word word word word word word word word word word word word word word word word word word word word word word word word\n\n" => Ok("|+\n   word word word word word word word word word word word word word word word word word word word word word word word word word word word word word word\n   \n") <= SAME
root [indent3compact] "xxxxxxxxxxxxxxxxxxxxxxxxxxxxxxxxxxxxxxxxxxxxxxxxxxxxxxxxxxxxxxxxxxxxxxxxxxxxxxxxxxxxxxxxxxxxxxxxxxxxxxxxxxxxxxxxxxxxxxxx" => Ok(">-\n   xxxxxxxxxxxxxxxxxxxxxxxxxxxxxxxxxxxxxxxxxxxxxxxxxxxxxxxxxxxxxxxxxxxxxxxxxxxxxxxxxxxxxxxxxxxxxxxxxxxxxxxxxxxxxxxxxxxxxxxx\n") <= SAME
root [indent3compact] "aaaaaaaaaaaaaaaaaaaaaaaaaaaaaaaaaaaaaaaaaaaaaaaaaa   bbbbbbbbbbbbbbbbbbbbbbbbbbbbbbbbbbbbbbbbbbbbbbbbbb  cccccccccccccccccccccccccccccccccccccccccccccccccc" => Ok(">-\n   aaaaaaaaaaaaaaaaaaaaaaaaaaaaaaaaaaaaaaaaaaaaaaaaaa  \n   bbbbbbbbbbbbbbbbbbbbbbbbbbbbbbbbbbbbbbbbbbbbbbbbbb  cccccccccccccccccccccccccccccccccccccccccccccccccc\n") <= SAME
root [indent3compact] "aaaaaaaaaaaaaaaaaaaaaaaaaaaaaaaaaaaaaaaaaaaaaaaaaa\tbbbbbbbbbbbbbbbbbbbbbbbbbbbbbbbbbbbbbbbbbbbbbbbbbb\tcccccccccccccccccccccccccccccccccccccccccccccccccc" => Ok("\"aaaaaaaaaaaaaaaaaaaaaaaaaaaaaaaaaaaaaaaaaaaaaaaaaa\\tbbbbbbbbbbbbbbbbbbbbbbbbbbbbbbbbbbbbbbbbbbbbbbbbbb\\tcccccccccccccccccccccccccccccccccccccccccccccccccc\"\n") <= SAME
root [indent3compact] "aaaaaaaaaaaaaaaaaaaaaaaaaaaaaaaaaaaaaaaaaaaaaaaaaa # bbbbbbbbbbbbbbbbbbbbbbbbbbbbbbbbbbbbbbbbbbbbbbbbbb" => Ok("\"aaaaaaaaaaaaaaaaaaaaaaaaaaaaaaaaaaaaaaaaaaaaaaaaaa # bbbbbbbbbbbbbbbbbbbbbbbbbbbbbbbbbbbbbbbbbbbbbbbbbb\"\n") <= SAME
root [indent3compact] "aaaaaaaaaaaaaaaaaaaaaaaaaaaaaaaaaaaaaaaaaaaaaaaaaa: bbbbbbbbbbbbbbbbbbbbbbbbbbbbbbbbbbbbbbbbbbbbbbbbbb" => Ok("\"aaaaaaaaaaaaaaaaaaaaaaaaaaaaaaaaaaaaaaaaaaaaaaaaaa: bbbbbbbbbbbbbbbbbbbbbbbbbbbbbbbbbbbbbbbbbbbbbbbbbb\"\n") <= SAME
root [indent3compact] "- lorem ipsum lorem ipsum lorem ipsum lorem ipsum lorem ipsum lorem ipsum lorem ipsum lorem ipsum lorem ipsum lorem ipsum " => Ok("\"- lorem ipsum lorem ipsum lorem ipsum lorem ipsum lorem ipsum lorem ipsum lorem ipsum lorem ipsum lorem ipsum lorem ipsum \"\n") <= SAME
root [indent3compact] "日本語 テキスト 日本語 テキスト 日本語 テキスト 日本語 テキスト 日本語 テキスト 日本語 テキスト 日本語 テキスト 日本語 テキスト 日本語 テキスト 日本語 テキスト 日本語 テキスト 日本語 テキスト 日本語 テキスト 日本語 テキスト 日本語 テキスト " => Ok(">-\n   日本語 テキスト 日本語 テキスト 日本語 テキスト 日本語 テキスト 日本語 テキスト 日本語 テキスト 日本語 テキスト 日本語 テキスト 日本語\n   テキスト 日本語 テキスト 日本語 テキスト 日本語 テキスト 日本語 テキスト 日本語 テキスト 日本語 テキスト \n") <= SAME
root [indent3compact] "ab ab ab ab ab ab ab ab ab ab ab ab ab ab ab ab ab ab ab ab \u{85}cd cd cd cd cd cd cd cd cd cd cd cd cd cd cd cd cd cd cd cd " => Ok("\"ab ab ab ab ab ab ab ab ab ab ab ab ab ab ab ab ab ab ab ab \\Ncd cd cd cd cd cd cd cd cd cd cd cd cd cd cd cd cd cd cd cd \"\n") <= SAME
root [indent3compact] "ab ab ab ab ab ab ab ab ab ab ab ab ab ab ab ab ab ab ab ab \rcd cd cd cd cd cd cd cd cd cd cd cd cd cd cd cd cd cd cd cd " => Ok("\"ab ab ab ab ab ab ab ab ab ab ab ab ab ab ab ab ab ab ab ab \\rcd cd cd cd cd cd cd cd cd cd cd cd cd cd cd cd cd cd cd cd \"\n") <= SAME
root [indent3compact] "lorem ipsum lorem ipsum lorem ipsum lorem ipsum lorem ipsum lorem ipsum \ndolor sit dolor sit dolor sit dolor sit dolor sit dolor sit " => Ok("|-\n   lorem ipsum lorem ipsum lorem ipsum lorem ipsum lorem ipsum lorem ipsum \n   dolor sit dolor sit dolor sit dolor sit dolor sit dolor sit \n") <= SAME
root [indent3compact] "  lorem ipsum lorem ipsum lorem ipsum lorem ipsum lorem ipsum lorem ipsum \ndolor: sit dolor: sit dolor: sit dolor: sit dolor: sit dolor: sit \n\n" => Ok("\"  lorem ipsum lorem ipsum lorem ipsum lorem ipsum lorem ipsum lorem ipsum \\ndolor: sit dolor: sit dolor: sit dolor: sit dolor: sit dolor: sit \\n\\n\"\n") <= SAME
root [indent3compact] "lorem ipsum lorem ipsum lorem ipsum lorem ipsum lorem ipsum lorem ipsum :\ndolor sit dolor sit dolor sit dolor sit dolor sit dolor sit :" => Ok("|-\n   lorem ipsum lorem ipsum lorem ipsum lorem ipsum lorem ipsum lorem ipsum :\n   dolor sit dolor sit dolor sit dolor sit dolor sit dolor sit :\n") <= SAME
seq [indent3compact] ["", "~", "null", "NULL", "Null", "true", "False", "TRUE", "yes", "y", "No", "on", "OFF", "<<", "---", "--- a", "---a", "...", "... x", ".nan", ".NaN", "-.INF", "+.inf", ".inf", "+-.inf", ".infx", "nan", "NaN", "+inf", "-Infinity", "infinity", "0x1F", "-0x1f", "0o17", "0b101", "0b102", "1_000", "1e9", "1E+9", "1.", ".5", "+1.5e-3", "1.5e", "12345678901234567890123456789", "-", "?", "+", ".", "#", "- a", "-a", "-\ta", "?x", "? x", ",a", ":a", "[a", "]a", "{a", "}a", "%a", "@a", "`a", "!a", "&a", "*a", "|a", ">a", "'a", "\"a", "a: b", "a:b", "a:", "a: ", "a #b", "a#b", "a,b", "a]b", "a{b}", " lead", "trail ", "\u{a0}nbsp", "em\u{2003}", "\u{feff}bom", "mid\u{feff}bom", "tab\there", "new\nline", "line\n", "line\n\n", "\n", "\n\n", "\n\n\n", "\nlead", "a\n\n\nb\n\n\n", "  indented\nline", "\n  indented after blank\n", "a\n  b\n", "key: v\nnext", "ends with colon:\nx:", "# not comment\nline", "trailing space \nline", "cr\rhere", "crlf\r\nhere", "\0", "\u{7}", "\u{8}", "\u{b}", "\u{c}", "\u{1b}", "\u{1}", "\u{1f}", "\u{7f}", "\u{80}", "\u{85}", "\u{9f}", "\u{2028}", "\u{2029}", "a\u{2028}b", "it's", "'", "''", "say \"hi\"", "back\\slash", "\\", "é", "日本語", "😀", "1.0.0", "12:30", "2001-12-14", "a b", "word word word word word word word word word word word word word word word word word word word word word word word word word word word word word word", "word word word word word word word word word word word word word word word word word word word word word word word word word word word word word word ", "word word word word word word word word word word word word word word word word word word word word word word word word word word word word word word\n", "word word word word word word word word word word word word word word word word word word word word word word word word word word word word word word\n\n", "xxxxxxxxxxxxxxxxxxxxxxxxxxxxxxxxxxxxxxxxxxxxxxxxxxxxxxxxxxxxxxxxxxxxxxxxxxxxxxxxxxxxxxxxxxxxxxxxxxxxxxxxxxxxxxxxxxxxxxxx", "aaaaaaaaaaaaaaaaaaaaaaaaaaaaaaaaaaaaaaaaaaaaaaaaaa   bbbbbbbbbbbbbbbbbbbbbbbbbbbbbbbbbbbbbbbbbbbbbbbbbb  cccccccccccccccccccccccccccccccccccccccccccccccccc", "aaaaaaaaaaaaaaaaaaaaaaaaaaaaaaaaaaaaaaaaaaaaaaaaaa\tbbbbbbbbbbbbbbbbbbbbbbbbbbbbbbbbbbbbbbbbbbbbbbbbbb\tcccccccccccccccccccccccccccccccccccccccccccccccccc", "aaaaaaaaaaaaaaaaaaaaaaaaaaaaaaaaaaaaaaaaaaaaaaaaaa # bbbbbbbbbbbbbbbbbbbbbbbbbbbbbbbbbbbbbbbbbbbbbbbbbb", "aaaaaaaaaaaaaaaaaaaaaaaaaaaaaaaaaaaaaaaaaaaaaaaaaa: bbbbbbbbbbbbbbbbbbbbbbbbbbbbbbbbbbbbbbbbbbbbbbbbbb", "- lorem ipsum lorem ipsum lorem ipsum lorem ipsum lorem ipsum lorem ipsum lorem ipsum lorem ipsum lorem ipsum lorem ipsum ", "日本語 テキスト 日本語 テキスト 日本語 テキスト 日本語 テキスト 日本語 テキスト 日本語 テキスト 日本語 テキスト 日本語 テキスト 日本語 テキスト 日本語 テキスト 日本語 テキスト 日本語 テキスト 日本語 テキスト 日本語 テキスト 日本語 テキスト ", "ab ab ab ab ab ab ab ab ab ab ab ab ab ab ab ab ab ab ab ab \u{85}cd cd cd cd cd cd cd cd cd cd cd cd cd cd cd cd cd cd cd cd ", "ab ab ab ab ab ab ab ab ab ab ab ab ab ab ab ab ab ab ab ab \rcd cd cd cd cd cd cd cd cd cd cd cd cd cd cd cd cd cd cd cd ", "lorem ipsum lorem ipsum lorem ipsum lorem ipsum lorem ipsum lorem ipsum \ndolor sit dolor sit dolor sit dolor sit dolor sit dolor sit ", "  lorem ipsum lorem ipsum lorem ipsum lorem ipsum lorem ipsum lorem ipsum \ndolor: sit dolor: sit dolor: sit dolor: sit dolor: sit dolor: sit \n\n", "lorem ipsum lorem ipsum lorem ipsum lorem ipsum lorem ipsum lorem ipsum :\ndolor sit dolor sit dolor sit dolor sit dolor sit dolor sit :"] => Ok("- \"\"\n- \"~\"\n- \"null\"\n- \"NULL\"\n- \"Null\"\n- \"true\"\n- \"False\"\n- \"TRUE\"\n- \"yes\"\n- \"y\"\n- \"No\"\n- \"on\"\n- \"OFF\"\n- \"<<\"\n- \"---\"\n- \"--- a\"\n- ---a\n- \"...\"\n- \"... x\"\n- \".nan\"\n- \".NaN\"\n- \"-.INF\"\n- \"+.inf\"\n- \".inf\"\n- +-.inf\n- .infx\n- \"nan\"\n- \"NaN\"\n- \"+inf\"\n- \"-Infinity\"\n- \"infinity\"\n- \"0x1F\"\n- \"-0x1f\"\n- \"0o17\"\n- \"0b101\"\n- 0b102\n- \"1_000\"\n- \"1e9\"\n- \"1E+9\"\n- \"1.\"\n- \".5\"\n- \"+1.5e-3\"\n- 1.5e\n- \"12345678901234567890123456789\"\n- '-'\n- \"?\"\n- +\n- '.'\n- '#'\n- \"- a\"\n- -a\n- \"-\\ta\"\n- ?x\n- \"? x\"\n- \",a\"\n- \":a\"\n- \"[a\"\n- \"]a\"\n- \"{a\"\n- \"}a\"\n- \"%a\"\n- \"@a\"\n- \"`a\"\n- \"!a\"\n- \"&a\"\n- \"*a\"\n- \"|a\"\n- \">a\"\n- \"'a\"\n- \"\\\"a\"\n- \"a: b\"\n- a:b\n- \"a:\"\n- \"a: \"\n- \"a #b\"\n- \"a#b\"\n- a,b\n- a]b\n- a{b}\n- \" lead\"\n- \"trail \"\n- \"\u{a0}nbsp\"\n- \"em\u{2003}\"\n- \"\\uFEFFbom\"\n- mid\u{feff}bom\n- \"tab\\there\"\n- |-\n   new\n   line\n- |\n   line\n- |+\n   line\n   \n- \"\\n\"\n- \"\\n\\n\"\n- \"\\n\\n\\n\"\n- \"\\nlead\"\n- |+\n   a\n   \n   \n   b\n   \n   \n- \"  indented\\nline\"\n- \"\\n  indented after blank\\n\"\n- |\n   a\n     b\n- \"key: v\\nnext\"\n- \"ends with colon:\\nx:\"\n- \"# not comment\\nline\"\n- |-\n   trailing space \n   line\n- \"cr\\rhere\"\n- \"crlf\\r\\nhere\"\n- \"\\0\"\n- \"\\a\"\n- \"\\b\"\n- \"\\v\"\n- \"\\f\"\n- \"\\e\"\n- \"\\x01\"\n- \"\\x1F\"\n- \"\\x7F\"\n- \"\\x80\"\n- \"\\N\"\n- \"\\x9F\"\n- \"\\L\"\n- \"\\P\"\n- a\u{2028}b\n- it's\n- \"'\"\n- \"''\"\n- say \"hi\"\n- back\\slash\n- \\\n- é\n- 日本語\n- 😀\n- 1.0.0\n- 12:30\n- 2001-12-14\n- a b\n- >-\n   word word word word word word word word word word word word word word word word\n   word word word word word word word word word word word word word word\n- >-\n   word word word word word word word word word word word word word word word word\n   word word word word word word word word word word word word word word \n- |\n   word word word word word word word word word word word word word word word word word word word word word word word word word word word word word word\n- |+\n   word word word word word word word word word word word word word word word word word word word word word word word word word word word word word word\n   \n- >-\n   xxxxxxxxxxxxxxxxxxxxxxxxxxxxxxxxxxxxxxxxxxxxxxxxxxxxxxxxxxxxxxxxxxxxxxxxxxxxxxxxxxxxxxxxxxxxxxxxxxxxxxxxxxxxxxxxxxxxxxxx\n- >-\n   aaaaaaaaaaaaaaaaaaaaaaaaaaaaaaaaaaaaaaaaaaaaaaaaaa  \n   bbbbbbbbbbbbbbbbbbbbbbbbbbbbbbbbbbbbbbbbbbbbbbbbbb  cccccccccccccccccccccccccccccccccccccccccccccccccc\n- \"aaaaaaaaaaaaaaaaaaaaaaaaaaaaaaaaaaaaaaaaaaaaaaaaaa\\tbbbbbbbbbbbbbbbbbbbbbbbbbbbbbbbbbbbbbbbbbbbbbbbbbb\\tcccccccccccccccccccccccccccccccccccccccccccccccccc\"\n- \"aaaaaaaaaaaaaaaaaaaaaaaaaaaaaaaaaaaaaaaaaaaaaaaaaa # bbbbbbbbbbbbbbbbbbbbbbbbbbbbbbbbbbbbbbbbbbbbbbbbbb\"\n- \"aaaaaaaaaaaaaaaaaaaaaaaaaaaaaaaaaaaaaaaaaaaaaaaaaa: bbbbbbbbbbbbbbbbbbbbbbbbbbbbbbbbbbbbbbbbbbbbbbbbbb\"\n- \"- lorem ipsum lorem ipsum lorem ipsum lorem ipsum lorem ipsum lorem ipsum lorem ipsum lorem ipsum lorem ipsum lorem ipsum \"\n- >-\n   日本語 テキスト 日本語 テキスト 日本語 テキスト 日本語 テキスト 日本語 テキスト 日本語 テキスト 日本語 テキスト 日本語 テキスト 日本語\n   テキスト 日本語 テキスト 日本語 テキスト 日本語 テキスト 日本語 テキスト 日本語 テキスト 日本語 テキスト \n- \"ab ab ab ab ab ab ab ab ab ab ab ab ab ab ab ab ab ab ab ab \\Ncd cd cd cd cd cd cd cd cd cd cd cd cd cd cd cd cd cd cd cd \"\n- \"ab ab ab ab ab ab ab ab ab ab ab ab ab ab ab ab ab ab ab ab \\rcd cd cd cd cd cd cd cd cd cd cd cd cd cd cd cd cd cd cd cd \"\n- |-\n   lorem ipsum lorem ipsum lorem ipsum lorem ipsum lorem ipsum lorem ipsum \n   dolor sit dolor sit dolor sit dolor sit dolor sit dolor sit \n- \"  lorem ipsum lorem ipsum lorem ipsum lorem ipsum lorem ipsum lorem ipsum \\ndolor: sit dolor: sit dolor: sit dolor: sit dolor: sit dolor: sit \\n\\n\"\n- |-\n   lorem ipsum lorem ipsum lorem ipsum lorem ipsum lorem ipsum lorem ipsum :\n   dolor sit dolor sit dolor sit dolor sit dolor sit dolor sit :\n") <= SAME
mapval [indent3compact] {"k00": "", "k01": "~", "k02": "null", "k03": "NULL", "k04": "Null", "k05": "true", "k06": "False", "k07": "TRUE", "k08": "yes", "k09": "y", "k10": "No", "k11": "on", "k12": "OFF", "k13": "<<", "k14": "---", "k15": "--- a"} => Ok("k00: \"\"\nk01: \"~\"\nk02: \"null\"\nk03: \"NULL\"\nk04: \"Null\"\nk05: \"true\"\nk06: \"False\"\nk07: \"TRUE\"\nk08: \"yes\"\nk09: \"y\"\nk10: \"No\"\nk11: \"on\"\nk12: \"OFF\"\nk13: \"<<\"\nk14: \"---\"\nk15: \"--- a\"\n") <= SAME
mapkey [indent3compact] {"": 0, "---": 14, "--- a": 15, "<<": 13, "False": 6, "NULL": 3, "No": 10, "Null": 4, "OFF": 12, "TRUE": 7, "null": 2, "on": 11, "true": 5, "y": 9, "yes": 8, "~": 1} => Ok("\"\": 0\n\"---\": 14\n\"--- a\": 15\n\"<<\": 13\n\"False\": 6\n\"NULL\": 3\n\"No\": 10\n\"Null\": 4\n\"OFF\": 12\n\"TRUE\": 7\n\"null\": 2\n\"on\": 11\n\"true\": 5\n\"y\": 9\n\"yes\": 8\n\"~\": 1\n") <= SAME
nested [indent3compact] {"outer": [{"k00": "", "k01": "~", "k02": "null", "k03": "NULL", "k04": "Null", "k05": "true", "k06": "False", "k07": "TRUE", "k08": "yes", "k09": "y", "k10": "No", "k11": "on", "k12": "OFF", "k13": "<<", "k14": "---", "k15": "--- a"}, {"k00": "", "k01": "~", "k02": "null", "k03": "NULL", "k04": "Null", "k05": "true", "k06": "False", "k07": "TRUE", "k08": "yes", "k09": "y", "k10": "No", "k11": "on", "k12": "OFF", "k13": "<<", "k14": "---", "k15": "--- a"}]} => Ok("outer:\n- k00: \"\"\n  k01: \"~\"\n  k02: \"null\"\n  k03: \"NULL\"\n  k04: \"Null\"\n  k05: \"true\"\n  k06: \"False\"\n  k07: \"TRUE\"\n  k08: \"yes\"\n  k09: \"y\"\n  k10: \"No\"\n  k11: \"on\"\n  k12: \"OFF\"\n  k13: \"<<\"\n  k14: \"---\"\n  k15: \"--- a\"\n- k00: \"\"\n  k01: \"~\"\n  k02: \"null\"\n  k03: \"NULL\"\n  k04: \"Null\"\n  k05: \"true\"\n  k06: \"False\"\n  k07: \"TRUE\"\n  k08: \"yes\"\n  k09: \"y\"\n  k10: \"No\"\n  k11: \"on\"\n  k12: \"OFF\"\n  k13: \"<<\"\n  k14: \"---\"\n  k15: \"--- a\"\n") <= SAME
mapval [indent3compact] {"k00": "---a", "k01": "...", "k02": "... x", "k03": ".nan", "k04": ".NaN", "k05": "-.INF", "k06": "+.inf", "k07": ".inf", "k08": "+-.inf", "k09": ".infx", "k10": "nan", "k11": "NaN", "k12": "+inf", "k13": "-Infinity", "k14": "infinity", "k15": "0x1F"} => Ok("k00: ---a\nk01: \"...\"\nk02: \"... x\"\nk03: \".nan\"\nk04: \".NaN\"\nk05: \"-.INF\"\nk06: \"+.inf\"\nk07: \".inf\"\nk08: +-.inf\nk09: .infx\nk10: \"nan\"\nk11: \"NaN\"\nk12: \"+inf\"\nk13: \"-Infinity\"\nk14: \"infinity\"\nk15: \"0x1F\"\n") <= SAME
mapkey [indent3compact] {"+-.inf": 8, "+.inf": 6, "+inf": 12, "---a": 0, "-.INF": 5, "-Infinity": 13, "...": 1, "... x": 2, ".NaN": 4, ".inf": 7, ".infx": 9, ".nan": 3, "0x1F": 15, "NaN": 11, "infinity": 14, "nan": 10} => Ok("+-.inf: 8\n\"+.inf\": 6\n\"+inf\": 12\n---a: 0\n\"-.INF\": 5\n\"-Infinity\": 13\n\"...\": 1\n\"... x\": 2\n\".NaN\": 4\n\".inf\": 7\n.infx: 9\n\".nan\": 3\n\"0x1F\": 15\n\"NaN\": 11\n\"infinity\": 14\n\"nan\": 10\n") <= SAME
nested [indent3compact] {"outer": [{"k00": "---a", "k01": "...", "k02": "... x", "k03": ".nan", "k04": ".NaN", "k05": "-.INF", "k06": "+.inf", "k07": ".inf", "k08": "+-.inf", "k09": ".infx", "k10": "nan", "k11": "NaN", "k12": "+inf", "k13": "-Infinity", "k14": "infinity", "k15": "0x1F"}, {"k00": "---a", "k01": "...", "k02": "... x", "k03": ".nan", "k04": ".NaN", "k05": "-.INF", "k06": "+.inf", "k07": ".inf", "k08": "+-.inf", "k09": ".infx", "k10": "nan", "k11": "NaN", "k12": "+inf", "k13": "-Infinity", "k14": "infinity", "k15": "0x1F"}]} => Ok("outer:\n- k00: ---a\n  k01: \"...\"\n  k02: \"... x\"\n  k03: \".nan\"\n  k04: \".NaN\"\n  k05: \"-.INF\"\n  k06: \"+.inf\"\n  k07: \".inf\"\n  k08: +-.inf\n  k09: .infx\n  k10: \"nan\"\n  k11: \"NaN\"\n  k12: \"+inf\"\n  k13: \"-Infinity\"\n  k14: \"infinity\"\n  k15: \"0x1F\"\n- k00: ---a\n  k01: \"...\"\n  k02: \"... x\"\n  k03: \".nan\"\n  k04: \".NaN\"\n  k05: \"-.INF\"\n  k06: \"+.inf\"\n  k07: \".inf\"\n  k08: +-.inf\n  k09: .infx\n  k10: \"nan\"\n  k11: \"NaN\"\n  k12: \"+inf\"\n  k13: \"-Infinity\"\n  k14: \"infinity\"\n  k15: \"0x1F\"\n") <= SAME
mapval [indent3compact] {"k00": "-0x1f", "k01": "0o17", "k02": "0b101", "k03": "0b102", "k04": "1_000", "k05": "1e9", "k06": "1E+9", "k07": "1.", "k08": ".5", "k09": "+1.5e-3", "k10": "1.5e", "k11": "12345678901234567890123456789", "k12": "-", "k13": "?", "k14": "+", "k15": "."} => Ok("k00: \"-0x1f\"\nk01: \"0o17\"\nk02: \"0b101\"\nk03: 0b102\nk04: \"1_000\"\nk05: \"1e9\"\nk06: \"1E+9\"\nk07: \"1.\"\nk08: \".5\"\nk09: \"+1.5e-3\"\nk10: 1.5e\nk11: \"12345678901234567890123456789\"\nk12: '-'\nk13: \"?\"\nk14: +\nk15: '.'\n") <= SAME
mapkey [indent3compact] {"+": 14, "+1.5e-3": 9, "-": 12, "-0x1f": 0, ".": 15, ".5": 8, "0b101": 2, "0b102": 3, "0o17": 1, "1.": 7, "1.5e": 10, "12345678901234567890123456789": 11, "1E+9": 6, "1_000": 4, "1e9": 5, "?": 13} => Ok("+: 14\n\"+1.5e-3\": 9\n\"-\": 12\n\"-0x1f\": 0\n.: 15\n\".5\": 8\n\"0b101\": 2\n0b102: 3\n\"0o17\": 1\n\"1.\": 7\n1.5e: 10\n\"12345678901234567890123456789\": 11\n\"1E+9\": 6\n\"1_000\": 4\n\"1e9\": 5\n\"?\": 13\n") <= SAME
nested [indent3compact] {"outer": [{"k00": "-0x1f", "k01": "0o17", "k02": "0b101", "k03": "0b102", "k04": "1_000", "k05": "1e9", "k06": "1E+9", "k07": "1.", "k08": ".5", "k09": "+1.5e-3", "k10": "1.5e", "k11": "12345678901234567890123456789", "k12": "-", "k13": "?", "k14": "+", "k15": "."}, {"k00": "-0x1f", "k01": "0o17", "k02": "0b101", "k03": "0b102", "k04": "1_000", "k05": "1e9", "k06": "1E+9", "k07": "1.", "k08": ".5", "k09": "+1.5e-3", "k10": "1.5e", "k11": "12345678901234567890123456789", "k12": "-", "k13": "?", "k14": "+", "k15": "."}]} => Ok("outer:\n- k00: \"-0x1f\"\n  k01: \"0o17\"\n  k02: \"0b101\"\n  k03: 0b102\n  k04: \"1_000\"\n  k05: \"1e9\"\n  k06: \"1E+9\"\n  k07: \"1.\"\n  k08: \".5\"\n  k09: \"+1.5e-3\"\n  k10: 1.5e\n  k11: \"12345678901234567890123456789\"\n  k12: '-'\n  k13: \"?\"\n  k14: +\n  k15: '.'\n- k00: \"-0x1f\"\n  k01: \"0o17\"\n  k02: \"0b101\"\n  k03: 0b102\n  k04: \"1_000\"\n  k05: \"1e9\"\n  k06: \"1E+9\"\n  k07: \"1.\"\n  k08: \".5\"\n  k09: \"+1.5e-3\"\n  k10: 1.5e\n  k11: \"12345678901234567890123456789\"\n  k12: '-'\n  k13: \"?\"\n  k14: +\n  k15: '.'\n") <= SAME
mapval [indent3compact] {"k00": "#", "k01": "- a", "k02": "-a", "k03": "-\ta", "k04": "?x", "k05": "? x", "k06": ",a", "k07": ":a", "k08": "[a", "k09": "]a", "k10": "{a", "k11": "}a", "k12": "%a", "k13": "@a", "k14": "`a", "k15": "!a"} => Ok("k00: '#'\nk01: \"- a\"\nk02: -a\nk03: \"-\\ta\"\nk04: ?x\nk05: \"? x\"\nk06: \",a\"\nk07: \":a\"\nk08: \"[a\"\nk09: \"]a\"\nk10: \"{a\"\nk11: \"}a\"\nk12: \"%a\"\nk13: \"@a\"\nk14: \"`a\"\nk15: \"!a\"\n") <= SAME
mapkey [indent3compact] {"!a": 15, "#": 0, "%a": 12, ",a": 6, "-\ta": 3, "- a": 1, "-a": 2, ":a": 7, "? x": 5, "?x": 4, "@a": 13, "[a": 8, "]a": 9, "`a": 14, "{a": 10, "}a": 11} => Ok("\"!a\": 15\n\"#\": 0\n\"%a\": 12\n\",a\": 6\n\"-\\ta\": 3\n\"- a\": 1\n-a: 2\n\":a\": 7\n\"? x\": 5\n?x: 4\n\"@a\": 13\n\"[a\": 8\n\"]a\": 9\n\"`a\": 14\n\"{a\": 10\n\"}a\": 11\n") <= SAME
nested [indent3compact] {"outer": [{"k00": "#", "k01": "- a", "k02": "-a", "k03": "-\ta", "k04": "?x", "k05": "? x", "k06": ",a", "k07": ":a", "k08": "[a", "k09": "]a", "k10": "{a", "k11": "}a", "k12": "%a", "k13": "@a", "k14": "`a", "k15": "!a"}, {"k00": "#", "k01": "- a", "k02": "-a", "k03": "-\ta", "k04": "?x", "k05": "? x", "k06": ",a", "k07": ":a", "k08": "[a", "k09": "]a", "k10": "{a", "k11": "}a", "k12": "%a", "k13": "@a", "k14": "`a", "k15": "!a"}]} => Ok("outer:\n- k00: '#'\n  k01: \"- a\"\n  k02: -a\n  k03: \"-\\ta\"\n  k04: ?x\n  k05: \"? x\"\n  k06: \",a\"\n  k07: \":a\"\n  k08: \"[a\"\n  k09: \"]a\"\n  k10: \"{a\"\n  k11: \"}a\"\n  k12: \"%a\"\n  k13: \"@a\"\n  k14: \"`a\"\n  k15: \"!a\"\n- k00: '#'\n  k01: \"- a\"\n  k02: -a\n  k03: \"-\\ta\"\n  k04: ?x\n  k05: \"? x\"\n  k06: \",a\"\n  k07: \":a\"\n  k08: \"[a\"\n  k09: \"]a\"\n  k10: \"{a\"\n  k11: \"}a\"\n  k12: \"%a\"\n  k13: \"@a\"\n  k14: \"`a\"\n  k15: \"!a\"\n") <= SAME
mapval [indent3compact] {"k00": "&a", "k01": "*a", "k02": "|a", "k03": ">a", "k04": "'a", "k05": "\"a", "k06": "a: b", "k07": "a:b", "k08": "a:", "k09": "a: ", "k10": "a #b", "k11": "a#b", "k12": "a,b", "k13": "a]b", "k14": "a{b}", "k15": " lead"} => Ok("k00: \"&a\"\nk01: \"*a\"\nk02: \"|a\"\nk03: \">a\"\nk04: \"'a\"\nk05: \"\\\"a\"\nk06: \"a: b\"\nk07: a:b\nk08: \"a:\"\nk09: \"a: \"\nk10: \"a #b\"\nk11: \"a#b\"\nk12: a,b\nk13: a]b\nk14: a{b}\nk15: \" lead\"\n") <= SAME
mapkey [indent3compact] {" lead": 15, "\"a": 5, "&a": 0, "'a": 4, "*a": 1, ">a": 3, "a #b": 10, "a#b": 11, "a,b": 12, "a:": 8, "a: ": 9, "a: b": 6, "a:b": 7, "a]b": 13, "a{b}": 14, "|a": 2} => Ok("\" lead\": 15\n\"\\\"a\": 5\n\"&a\": 0\n\"'a\": 4\n\"*a\": 1\n\">a\": 3\n\"a #b\": 10\n\"a#b\": 11\n\"a,b\": 12\n\"a:\": 8\n\"a: \": 9\n\"a: b\": 6\n\"a:b\": 7\n\"a]b\": 13\n\"a{b}\": 14\n\"|a\": 2\n") <= SAME
nested [indent3compact] {"outer": [{"k00": "&a", "k01": "*a", "k02": "|a", "k03": ">a", "k04": "'a", "k05": "\"a", "k06": "a: b", "k07": "a:b", "k08": "a:", "k09": "a: ", "k10": "a #b", "k11": "a#b", "k12": "a,b", "k13": "a]b", "k14": "a{b}", "k15": " lead"}, {"k00": "&a", "k01": "*a", "k02": "|a", "k03": ">a", "k04": "'a", "k05": "\"a", "k06": "a: b", "k07": "a:b", "k08": "a:", "k09": "a: ", "k10": "a #b", "k11": "a#b", "k12": "a,b", "k13": "a]b", "k14": "a{b}", "k15": " lead"}]} => Ok("outer:\n- k00: \"&a\"\n  k01: \"*a\"\n  k02: \"|a\"\n  k03: \">a\"\n  k04: \"'a\"\n  k05: \"\\\"a\"\n  k06: \"a: b\"\n  k07: a:b\n  k08: \"a:\"\n  k09: \"a: \"\n  k10: \"a #b\"\n  k11: \"a#b\"\n  k12: a,b\n  k13: a]b\n  k14: a{b}\n  k15: \" lead\"\n- k00: \"&a\"\n  k01: \"*a\"\n  k02: \"|a\"\n  k03: \">a\"\n  k04: \"'a\"\n  k05: \"\\\"a\"\n  k06: \"a: b\"\n  k07: a:b\n  k08: \"a:\"\n  k09: \"a: \"\n  k10: \"a #b\"\n  k11: \"a#b\"\n  k12: a,b\n  k13: a]b\n  k14: a{b}\n  k15: \" lead\"\n") <= SAME
mapval [indent3compact] {"k00": "trail ", "k01": "\u{a0}nbsp", "k02": "em\u{2003}", "k03": "\u{feff}bom", "k04": "mid\u{feff}bom", "k05": "tab\there", "k06": "new\nline", "k07": "line\n", "k08": "line\n\n", "k09": "\n", "k10": "\n\n", "k11": "\n\n\n", "k12": "\nlead", "k13": "a\n\n\nb\n\n\n", "k14": "  indented\nline", "k15": "\n  indented after blank\n"} => Ok("k00: \"trail \"\nk01: \"\u{a0}nbsp\"\nk02: \"em\u{2003}\"\nk03: \"\\uFEFFbom\"\nk04: mid\u{feff}bom\nk05: \"tab\\there\"\nk06: |-\n   new\n   line\nk07: |\n   line\nk08: |+\n   line\n   \nk09: \"\\n\"\nk10: \"\\n\\n\"\nk11: \"\\n\\n\\n\"\nk12: \"\\nlead\"\nk13: |+\n   a\n   \n   \n   b\n   \n   \nk14: \"  indented\\nline\"\nk15: \"\\n  indented after blank\\n\"\n") <= SAME
mapkey [indent3compact] {"\n": 9, "\n\n": 10, "\n\n\n": 11, "\n  indented after blank\n": 15, "\nlead": 12, "  indented\nline": 14, "a\n\n\nb\n\n\n": 13, "em\u{2003}": 2, "line\n": 7, "line\n\n": 8, "mid\u{feff}bom": 4, "new\nline": 6, "tab\there": 5, "trail ": 0, "\u{a0}nbsp": 1, "\u{feff}bom": 3} => Ok("\"\\n\": 9\n\"\\n\\n\": 10\n\"\\n\\n\\n\": 11\n\"\\n  indented after blank\\n\": 15\n\"\\nlead\": 12\n\"  indented\\nline\": 14\n\"a\\n\\n\\nb\\n\\n\\n\": 13\n\"em\u{2003}\": 2\n\"line\\n\": 7\n\"line\\n\\n\": 8\nmid\u{feff}bom: 4\n\"new\\nline\": 6\n\"tab\\there\": 5\n\"trail \": 0\n\"\u{a0}nbsp\": 1\n\"\u{feff}bom\": 3\n") <= SAME
nested [indent3compact] {"outer": [{"k00": "trail ", "k01": "\u{a0}nbsp", "k02": "em\u{2003}", "k03": "\u{feff}bom", "k04": "mid\u{feff}bom", "k05": "tab\there", "k06": "new\nline", "k07": "line\n", "k08": "line\n\n", "k09": "\n", "k10": "\n\n", "k11": "\n\n\n", "k12": "\nlead", "k13": "a\n\n\nb\n\n\n", "k14": "  indented\nline", "k15": "\n  indented after blank\n"}, {"k00": "trail ", "k01": "\u{a0}nbsp", "k02": "em\u{2003}", "k03": "\u{feff}bom", "k04": "mid\u{feff}bom", "k05": "tab\there", "k06": "new\nline", "k07": "line\n", "k08": "line\n\n", "k09": "\n", "k10": "\n\n", "k11": "\n\n\n", "k12": "\nlead", "k13": "a\n\n\nb\n\n\n", "k14": "  indented\nline", "k15": "\n  indented after blank\n"}]} => Ok("outer:\n- k00: \"trail \"\n  k01: \"\u{a0}nbsp\"\n  k02: \"em\u{2003}\"\n  k03: \"\\uFEFFbom\"\n  k04: mid\u{feff}bom\n  k05: \"tab\\there\"\n  k06: |-\n      new\n      line\n  k07: |\n      line\n  k08: |+\n      line\n      \n  k09: \"\\n\"\n  k10: \"\\n\\n\"\n  k11: \"\\n\\n\\n\"\n  k12: \"\\nlead\"\n  k13: |+\n      a\n      \n      \n      b\n      \n      \n  k14: \"  indented\\nline\"\n  k15: \"\\n  indented after blank\\n\"\n- k00: \"trail \"\n  k01: \"\u{a0}nbsp\"\n  k02: \"em\u{2003}\"\n  k03: \"\\uFEFFbom\"\n  k04: mid\u{feff}bom\n  k05: \"tab\\there\"\n  k06: |-\n      new\n      line\n  k07: |\n      line\n  k08: |+\n      line\n      \n  k09: \"\\n\"\n  k10: \"\\n\\n\"\n  k11: \"\\n\\n\\n\"\n  k12: \"\\nlead\"\n  k13: |+\n      a\n      \n      \n      b\n      \n      \n  k14: \"  indented\\nline\"\n  k15: \"\\n  indented after blank\\n\"\n") <= SAME
mapval [indent3compact] {"k00": "a\n  b\n", "k01": "key: v\nnext", "k02": "ends with colon:\nx:", "k03": "# not comment\nline", "k04": "trailing space \nline", "k05": "cr\rhere", "k06": "crlf\r\nhere", "k07": "\0", "k08": "\u{7}", "k09": "\u{8}", "k10": "\u{b}", "k11": "\u{c}", "k12": "\u{1b}", "k13": "\u{1}", "k14": "\u{1f}", "k15": "\u{7f}"} => Ok("k00: |\n   a\n     b\nk01: \"key: v\\nnext\"\nk02: \"ends with colon:\\nx:\"\nk03: \"# not comment\\nline\"\nk04: |-\n   trailing space \n   line\nk05: \"cr\\rhere\"\nk06: \"crlf\\r\\nhere\"\nk07: \"\\0\"\nk08: \"\\a\"\nk09: \"\\b\"\nk10: \"\\v\"\nk11: \"\\f\"\nk12: \"\\e\"\nk13: \"\\x01\"\nk14: \"\\x1F\"\nk15: \"\\x7F\"\n") <= SAME
mapkey [indent3compact] {"\0": 7, "\u{1}": 13, "\u{7}": 8, "\u{8}": 9, "\u{b}": 10, "\u{c}": 11, "\u{1b}": 12, "\u{1f}": 14, "# not comment\nline": 3, "a\n  b\n": 0, "cr\rhere": 5, "crlf\r\nhere": 6, "ends with colon:\nx:": 2, "key: v\nnext": 1, "trailing space \nline": 4, "\u{7f}": 15} => Ok("\"\\u0000\": 7\n\"\\u0001\": 13\n\"\\u0007\": 8\n\"\\u0008\": 9\n\"\\u000B\": 10\n\"\\u000C\": 11\n\"\\u001B\": 12\n\"\\u001F\": 14\n\"# not comment\\nline\": 3\n\"a\\n  b\\n\": 0\n\"cr\\rhere\": 5\n\"crlf\\r\\nhere\": 6\n\"ends with colon:\\nx:\": 2\n\"key: v\\nnext\": 1\n\"trailing space \\nline\": 4\n\"\\u007F\": 15\n") <= SAME
nested [indent3compact] {"outer": [{"k00": "a\n  b\n", "k01": "key: v\nnext", "k02": "ends with colon:\nx:", "k03": "# not comment\nline", "k04": "trailing space \nline", "k05": "cr\rhere", "k06": "crlf\r\nhere", "k07": "\0", "k08": "\u{7}", "k09": "\u{8}", "k10": "\u{b}", "k11": "\u{c}", "k12": "\u{1b}", "k13": "\u{1}", "k14": "\u{1f}", "k15": "\u{7f}"}, {"k00": "a\n  b\n", "k01": "key: v\nnext", "k02": "ends with colon:\nx:", "k03": "# not comment\nline", "k04": "trailing space \nline", "k05": "cr\rhere", "k06": "crlf\r\nhere", "k07": "\0", "k08": "\u{7}", "k09": "\u{8}", "k10": "\u{b}", "k11": "\u{c}", "k12": "\u{1b}", "k13": "\u{1}", "k14": "\u{1f}", "k15": "\u{7f}"}]} => Ok("outer:\n- k00: |\n      a\n        b\n  k01: \"key: v\\nnext\"\n  k02: \"ends with colon:\\nx:\"\n  k03: \"# not comment\\nline\"\n  k04: |-\n      trailing space \n      line\n  k05: \"cr\\rhere\"\n  k06: \"crlf\\r\\nhere\"\n  k07: \"\\0\"\n  k08: \"\\a\"\n  k09: \"\\b\"\n  k10: \"\\v\"\n  k11: \"\\f\"\n  k12: \"\\e\"\n  k13: \"\\x01\"\n  k14: \"\\x1F\"\n  k15: \"\\x7F\"\n- k00: |\n      a\n        b\n  k01: \"key: v\\nnext\"\n  k02: \"ends with colon:\\nx:\"\n  k03: \"# not comment\\nline\"\n  k04: |-\n      trailing space \n      line\n  k05: \"cr\\rhere\"\n  k06: \"crlf\\r\\nhere\"\n  k07: \"\\0\"\n  k08: \"\\a\"\n  k09: \"\\b\"\n  k10: \"\\v\"\n  k11: \"\\f\"\n  k12: \"\\e\"\n  k13: \"\\x01\"\n  k14: \"\\x1F\"\n  k15: \"\\x7F\"\n") <= SAME
mapval [indent3compact] {"k00": "\u{80}", "k01": "\u{85}", "k02": "\u{9f}", "k03": "\u{2028}", "k04": "\u{2029}", "k05": "a\u{2028}b", "k06": "it's", "k07": "'", "k08": "''", "k09": "say \"hi\"", "k10": "back\\slash", "k11": "\\", "k12": "é", "k13": "日本語", "k14": "😀", "k15": "1.0.0"} => Ok("k00: \"\\x80\"\nk01: \"\\N\"\nk02: \"\\x9F\"\nk03: \"\\L\"\nk04: \"\\P\"\nk05: a\u{2028}b\nk06: it's\nk07: \"'\"\nk08: \"''\"\nk09: say \"hi\"\nk10: back\\slash\nk11: \\\nk12: é\nk13: 日本語\nk14: 😀\nk15: 1.0.0\n") <= SAME
mapkey [indent3compact] {"'": 7, "''": 8, "1.0.0": 15, "\\": 11, "a\u{2028}b": 5, "back\\slash": 10, "it's": 6, "say \"hi\"": 9, "\u{80}": 0, "\u{85}": 1, "\u{9f}": 2, "é": 12, "\u{2028}": 3, "\u{2029}": 4, "日本語": 13, "😀": 14} => Ok("\"'\": 7\n\"''\": 8\n1.0.0: 15\n\\: 11\na\u{2028}b: 5\nback\\slash: 10\nit's: 6\nsay \"hi\": 9\n\"\\u0080\": 0\n\"\\u0085\": 1\n\"\\u009F\": 2\né: 12\n\"\u{2028}\": 3\n\"\u{2029}\": 4\n日本語: 13\n😀: 14\n") <= SAME
nested [indent3compact] {"outer": [{"k00": "\u{80}", "k01": "\u{85}", "k02": "\u{9f}", "k03": "\u{2028}", "k04": "\u{2029}", "k05": "a\u{2028}b", "k06": "it's", "k07": "'", "k08": "''", "k09": "say \"hi\"", "k10": "back\\slash", "k11": "\\", "k12": "é", "k13": "日本語", "k14": "😀", "k15": "1.0.0"}, {"k00": "\u{80}", "k01": "\u{85}", "k02": "\u{9f}", "k03": "\u{2028}", "k04": "\u{2029}", "k05": "a\u{2028}b", "k06": "it's", "k07": "'", "k08": "''", "k09": "say \"hi\"", "k10": "back\\slash", "k11": "\\", "k12": "é", "k13": "日本語", "k14": "😀", "k15": "1.0.0"}]} => Ok("outer:\n- k00: \"\\x80\"\n  k01: \"\\N\"\n  k02: \"\\x9F\"\n  k03: \"\\L\"\n  k04: \"\\P\"\n  k05: a\u{2028}b\n  k06: it's\n  k07: \"'\"\n  k08: \"''\"\n  k09: say \"hi\"\n  k10: back\\slash\n  k11: \\\n  k12: é\n  k13: 日本語\n  k14: 😀\n  k15: 1.0.0\n- k00: \"\\x80\"\n  k01: \"\\N\"\n  k02: \"\\x9F\"\n  k03: \"\\L\"\n  k04: \"\\P\"\n  k05: a\u{2028}b\n  k06: it's\n  k07: \"'\"\n  k08: \"''\"\n  k09: say \"hi\"\n  k10: back\\slash\n  k11: \\\n  k12: é\n  k13: 日本語\n  k14: 😀\n  k15: 1.0.0\n") <= SAME
mapval [indent3compact] {"k00": "12:30", "k01": "2001-12-14", "k02": "a b", "k03": "word word word word word word word word word word word word word word word word word word word word word word word word word word word word word word", "k04": "word word word word word word word word word word word word word word word word word word word word word word word word word word word word word word ", "k05": "word word word word word word word word word word word word word word word word word word word word word word word word word word word word word word\n", "k06": "word word word word word word word word word word word word word word word word word word word word word word word word word word word word word word\n\n", "k07": "xxxxxxxxxxxxxxxxxxxxxxxxxxxxxxxxxxxxxxxxxxxxxxxxxxxxxxxxxxxxxxxxxxxxxxxxxxxxxxxxxxxxxxxxxxxxxxxxxxxxxxxxxxxxxxxxxxxxxxxx", "k08": "aaaaaaaaaaaaaaaaaaaaaaaaaaaaaaaaaaaaaaaaaaaaaaaaaa   bbbbbbbbbbbbbbbbbbbbbbbbbbbbbbbbbbbbbbbbbbbbbbbbbb  cccccccccccccccccccccccccccccccccccccccccccccccccc", "k09": "aaaaaaaaaaaaaaaaaaaaaaaaaaaaaaaaaaaaaaaaaaaaaaaaaa\tbbbbbbbbbbbbbbbbbbbbbbbbbbbbbbbbbbbbbbbbbbbbbbbbbb\tcccccccccccccccccccccccccccccccccccccccccccccccccc", "k10": "aaaaaaaaaaaaaaaaaaaaaaaaaaaaaaaaaaaaaaaaaaaaaaaaaa # bbbbbbbbbbbbbbbbbbbbbbbbbbbbbbbbbbbbbbbbbbbbbbbbbb", "k11": "aaaaaaaaaaaaaaaaaaaaaaaaaaaaaaaaaaaaaaaaaaaaaaaaaa: bbbbbbbbbbbbbbbbbbbbbbbbbbbbbbbbbbbbbbbbbbbbbbbbbb", "k12": "- lorem ipsum lorem ipsum lorem ipsum lorem ipsum lorem ipsum lorem ipsum lorem ipsum lorem ipsum lorem ipsum lorem ipsum ", "k13": "日本語 テキスト 日本語 テキスト 日本語 テキスト 日本語 テキスト 日本語 テキスト 日本語 テキスト 日本語 テキスト 日本語 テキスト 日本語 テキスト 日本語 テキスト 日本語 テキスト 日本語 テキスト 日本語 テキスト 日本語 テキスト 日本語 テキスト ", "k14": "ab ab ab ab ab ab ab ab ab ab ab ab ab ab ab ab ab ab ab ab \u{85}cd cd cd cd cd cd cd cd cd cd cd cd cd cd cd cd cd cd cd cd ", "k15": "ab ab ab ab ab ab ab ab ab ab ab ab ab ab ab ab ab ab ab ab \rcd cd cd cd cd cd cd cd cd cd cd cd cd cd cd cd cd cd cd cd "} => Ok("k00: 12:30\nk01: 2001-12-14\nk02: a b\nk03: >-\n   word word word word word word word word word word word word word word word word\n   word word word word word word word word word word word word word word\nk04: >-\n   word word word word word word word word word word word word word word word word\n   word word word word word word word word word word word word word word \nk05: |\n   word word word word word word word word word word word word word word word word word word word word word word word word word word word word word word\nk06: |+\n   word word word word word word word word word word word word word word word word word word word word word word word word word word word word word word\n   \nk07: >-\n   xxxxxxxxxxxxxxxxxxxxxxxxxxxxxxxxxxxxxxxxxxxxxxxxxxxxxxxxxxxxxxxxxxxxxxxxxxxxxxxxxxxxxxxxxxxxxxxxxxxxxxxxxxxxxxxxxxxxxxxx\nk08: >-\n   aaaaaaaaaaaaaaaaaaaaaaaaaaaaaaaaaaaaaaaaaaaaaaaaaa  \n   bbbbbbbbbbbbbbbbbbbbbbbbbbbbbbbbbbbbbbbbbbbbbbbbbb  cccccccccccccccccccccccccccccccccccccccccccccccccc\nk09: \"aaaaaaaaaaaaaaaaaaaaaaaaaaaaaaaaaaaaaaaaaaaaaaaaaa\\tbbbbbbbbbbbbbbbbbbbbbbbbbbbbbbbbbbbbbbbbbbbbbbbbbb\\tcccccccccccccccccccccccccccccccccccccccccccccccccc\"\nk10: \"aaaaaaaaaaaaaaaaaaaaaaaaaaaaaaaaaaaaaaaaaaaaaaaaaa # bbbbbbbbbbbbbbbbbbbbbbbbbbbbbbbbbbbbbbbbbbbbbbbbbb\"\nk11: \"aaaaaaaaaaaaaaaaaaaaaaaaaaaaaaaaaaaaaaaaaaaaaaaaaa: bbbbbbbbbbbbbbbbbbbbbbbbbbbbbbbbbbbbbbbbbbbbbbbbbb\"\nk12: \"- lorem ipsum lorem ipsum lorem ipsum lorem ipsum lorem ipsum lorem ipsum lorem ipsum lorem ipsum lorem ipsum lorem ipsum \"\nk13: >-\n   日本語 テキスト 日本語 テキスト 日本語 テキスト 日本語 テキスト 日本語 テキスト 日本語 テキスト 日本語 テキスト 日本語 テキスト 日本語\n   テキスト 日本語 テキスト 日本語 テキスト 日本語 テキスト 日本語 テキスト 日本語 テキスト 日本語 テキスト \nk14: \"ab ab ab ab ab ab ab ab ab ab ab ab ab ab ab ab ab ab ab ab \\Ncd cd cd cd cd cd cd cd cd cd cd cd cd cd cd cd cd cd cd cd \"\nk15: \"ab ab ab ab ab ab ab ab ab ab ab ab ab ab ab ab ab ab ab ab \\rcd cd cd cd cd cd cd cd cd cd cd cd cd cd cd cd cd cd cd cd \"\n") <= SAME
mapkey [indent3compact] {"- lorem ipsum lorem ipsum lorem ipsum lorem ipsum lorem ipsum lorem ipsum lorem ipsum lorem ipsum lorem ipsum lorem ipsum ": 12, "12:30": 0, "2001-12-14": 1, "a b": 2, "aaaaaaaaaaaaaaaaaaaaaaaaaaaaaaaaaaaaaaaaaaaaaaaaaa\tbbbbbbbbbbbbbbbbbbbbbbbbbbbbbbbbbbbbbbbbbbbbbbbbbb\tcccccccccccccccccccccccccccccccccccccccccccccccccc": 9, "aaaaaaaaaaaaaaaaaaaaaaaaaaaaaaaaaaaaaaaaaaaaaaaaaa   bbbbbbbbbbbbbbbbbbbbbbbbbbbbbbbbbbbbbbbbbbbbbbbbbb  cccccccccccccccccccccccccccccccccccccccccccccccccc": 8, "aaaaaaaaaaaaaaaaaaaaaaaaaaaaaaaaaaaaaaaaaaaaaaaaaa # bbbbbbbbbbbbbbbbbbbbbbbbbbbbbbbbbbbbbbbbbbbbbbbbbb": 10, "aaaaaaaaaaaaaaaaaaaaaaaaaaaaaaaaaaaaaaaaaaaaaaaaaa: bbbbbbbbbbbbbbbbbbbbbbbbbbbbbbbbbbbbbbbbbbbbbbbbbb": 11, "ab ab ab ab ab ab ab ab ab ab ab ab ab ab ab ab ab ab ab ab \rcd cd cd cd cd cd cd cd cd cd cd cd cd cd cd cd cd cd cd cd ": 15, "ab ab ab ab ab ab ab ab ab ab ab ab ab ab ab ab ab ab ab ab \u{85}cd cd cd cd cd cd cd cd cd cd cd cd cd cd cd cd cd cd cd cd ": 14, "word word word word word word word word word word word word word word word word word word word word word word word word word word word word word word": 3, "word word word word word word word word word word word word word word word word word word word word word word word word word word word word word word\n": 5, "word word word word word word word word word word word word word word word word word word word word word word word word word word word word word word\n\n": 6, "word word word word word word word word word word word word word word word word word word word word word word word word word word word word word word ": 4, "xxxxxxxxxxxxxxxxxxxxxxxxxxxxxxxxxxxxxxxxxxxxxxxxxxxxxxxxxxxxxxxxxxxxxxxxxxxxxxxxxxxxxxxxxxxxxxxxxxxxxxxxxxxxxxxxxxxxxxxx": 7, "日本語 テキスト 日本語 テキスト 日本語 テキスト 日本語 テキスト 日本語 テキスト 日本語 テキスト 日本語 テキスト 日本語 テキスト 日本語 テキスト 日本語 テキスト 日本語 テキスト 日本語 テキスト 日本語 テキスト 日本語 テキスト 日本語 テキスト ": 13} => Ok("\"- lorem ipsum lorem ipsum lorem ipsum lorem ipsum lorem ipsum lorem ipsum lorem ipsum lorem ipsum lorem ipsum lorem ipsum \": 12\n\"12:30\": 0\n2001-12-14: 1\na b: 2\n\"aaaaaaaaaaaaaaaaaaaaaaaaaaaaaaaaaaaaaaaaaaaaaaaaaa\\tbbbbbbbbbbbbbbbbbbbbbbbbbbbbbbbbbbbbbbbbbbbbbbbbbb\\tcccccccccccccccccccccccccccccccccccccccccccccccccc\": 9\naaaaaaaaaaaaaaaaaaaaaaaaaaaaaaaaaaaaaaaaaaaaaaaaaa   bbbbbbbbbbbbbbbbbbbbbbbbbbbbbbbbbbbbbbbbbbbbbbbbbb  cccccccccccccccccccccccccccccccccccccccccccccccccc: 8\n\"aaaaaaaaaaaaaaaaaaaaaaaaaaaaaaaaaaaaaaaaaaaaaaaaaa # bbbbbbbbbbbbbbbbbbbbbbbbbbbbbbbbbbbbbbbbbbbbbbbbbb\": 10\n\"aaaaaaaaaaaaaaaaaaaaaaaaaaaaaaaaaaaaaaaaaaaaaaaaaa: bbbbbbbbbbbbbbbbbbbbbbbbbbbbbbbbbbbbbbbbbbbbbbbbbb\": 11\n\"ab ab ab ab ab ab ab ab ab ab ab ab ab ab ab ab ab ab ab ab \\rcd cd cd cd cd cd cd cd cd cd cd cd cd cd cd cd cd cd cd cd \": 15\n\"ab ab ab ab ab ab ab ab ab ab ab ab ab ab ab ab ab ab ab ab \\u0085cd cd cd cd cd cd cd cd cd cd cd cd cd cd cd cd cd cd cd cd \": 14\nword word word word word word word word word word word word word word word word word word word word word word word word word word word word word word: 3\n\"word word word word word word word word word word word word word word word word word word word word word word word word word word word word word word\\n\": 5\n\"word word word word word word word word word word word word word word word word word word word word word word word word word word word word word word\\n\\n\": 6\n\"word word word word word word word word word word word word word word word word word word word word word word word word word word word word word word \": 4\nxxxxxxxxxxxxxxxxxxxxxxxxxxxxxxxxxxxxxxxxxxxxxxxxxxxxxxxxxxxxxxxxxxxxxxxxxxxxxxxxxxxxxxxxxxxxxxxxxxxxxxxxxxxxxxxxxxxxxxxx: 7\n\"日本語 テキスト 日本語 テキスト 日本語 テキスト 日本語 テキスト 日本語 テキスト 日本語 テキスト 日本語 テキスト 日本語 テキスト 日本語 テキスト 日本語 テキスト 日本語 テキスト 日本語 テキスト 日本語 テキスト 日本語 テキスト 日本語 テキスト \": 13\n") <= SAME
nested [indent3compact] {"outer": [{"k00": "12:30", "k01": "2001-12-14", "k02": "a b", "k03": "word word word word word word word word word word word word word word word word word word word word word word word word word word word word word word", "k04": "word word word word word word word word word word word word word word word word word word word word word word word word word word word word word word ", "k05": "word word word word word word word word word word word word word word word word word word word word word word word word word word word word word word\n", "k06": "word word word word word word word word word word word word word word word word word word word word word word word word word word word word word word\n\n", "k07": "xxxxxxxxxxxxxxxxxxxxxxxxxxxxxxxxxxxxxxxxxxxxxxxxxxxxxxxxxxxxxxxxxxxxxxxxxxxxxxxxxxxxxxxxxxxxxxxxxxxxxxxxxxxxxxxxxxxxxxxx", "k08": "aaaaaaaaaaaaaaaaaaaaaaaaaaaaaaaaaaaaaaaaaaaaaaaaaa   bbbbbbbbbbbbbbbbbbbbbbbbbbbbbbbbbbbbbbbbbbbbbbbbbb  cccccccccccccccccccccccccccccccccccccccccccccccccc", "k09": "aaaaaaaaaaaaaaaaaaaaaaaaaaaaaaaaaaaaaaaaaaaaaaaaaa\tbbbbbbbbbbbbbbbbbbbbbbbbbbbbbbbbbbbbbbbbbbbbbbbbbb\tcccccccccccccccccccccccccccccccccccccccccccccccccc", "k10": "aaaaaaaaaaaaaaaaaaaaaaaaaaaaaaaaaaaaaaaaaaaaaaaaaa # bbbbbbbbbbbbbbbbbbbbbbbbbbbbbbbbbbbbbbbbbbbbbbbbbb", "k11": "aaaaaaaaaaaaaaaaaaaaaaaaaaaaaaaaaaaaaaaaaaaaaaaaaa: bbbbbbbbbbbbbbbbbbbbbbbbbbbbbbbbbbbbbbbbbbbbbbbbbb", "k12": "- lorem ipsum lorem ipsum lorem ipsum lorem ipsum lorem ipsum lorem ipsum lorem ipsum lorem ipsum lorem ipsum lorem ipsum ", "k13": "日本語 テキスト 日本語 テキスト 日本語 テキスト 日本語 テキスト 日本語 テキスト 日本語 テキスト 日本語 テキスト 日本語 テキスト 日本語 テキスト 日本語 テキスト 日本語 テキスト 日本語 テキスト 日本語 テキスト 日本語 テキスト 日本語 テキスト ", "k14": "ab ab ab ab ab ab ab ab ab ab ab ab ab ab ab ab ab ab ab ab \u{85}cd cd cd cd cd cd cd cd cd cd cd cd cd cd cd cd cd cd cd cd ", "k15": "ab ab ab ab ab ab ab ab ab ab ab ab ab ab ab ab ab ab ab ab \rcd cd cd cd cd cd cd cd cd cd cd cd cd cd cd cd cd cd cd cd "}, {"k00": "12:30", "k01": "2001-12-14", "k02": "a b", "k03": "word word word word word word word word word word word word word word word word word word word word word word word word word word word word word word", "k04": "word word word word word word word word word word word word word word word word word word word word word word word word word word word word word word ", "k05": "word word word word word word word word word word word word word word word word word word word word word word word word word word word word word word\n", "k06": "word word word word word word word word word word word word word word word word word word word word word word word word word word word word word word\n\n", "k07": "xxxxxxxxxxxxxxxxxxxxxxxxxxxxxxxxxxxxxxxxxxxxxxxxxxxxxxxxxxxxxxxxxxxxxxxxxxxxxxxxxxxxxxxxxxxxxxxxxxxxxxxxxxxxxxxxxxxxxxxx", "k08": "aaaaaaaaaaaaaaaaaaaaaaaaaaaaaaaaaaaaaaaaaaaaaaaaaa   bbbbbbbbbbbbbbbbbbbbbbbbbbbbbbbbbbbbbbbbbbbbbbbbbb  cccccccccccccccccccccccccccccccccccccccccccccccccc", "k09": "aaaaaaaaaaaaaaaaaaaaaaaaaaaaaaaaaaaaaaaaaaaaaaaaaa\tbbbbbbbbbbbbbbbbbbbbbbbbbbbbbbbbbbbbbbbbbbbbbbbbbb\tcccccccccccccccccccccccccccccccccccccccccccccccccc", "k10": "aaaaaaaaaaaaaaaaaaaaaaaaaaaaaaaaaaaaaaaaaaaaaaaaaa # bbbbbbbbbbbbbbbbbbbbbbbbbbbbbbbbbbbbbbbbbbbbbbbbbb", "k11": "aaaaaaaaaaaaaaaaaaaaaaaaaaaaaaaaaaaaaaaaaaaaaaaaaa: bbbbbbbbbbbbbbbbbbbbbbbbbbbbbbbbbbbbbbbbbbbbbbbbbb", "k12": "- lorem ipsum lorem ipsum lorem ipsum lorem ipsum lorem ipsum lorem ipsum lorem ipsum lorem ipsum lorem ipsum lorem ipsum ", "k13": "日本語 テキスト 日本語 テキスト 日本語 テキスト 日本語 テキスト 日本語 テキスト 日本語 テキスト 日本語 テキスト 日本語 テキスト 日本語 テキスト 日本語 テキスト 日本語 テキスト 日本語 テキスト 日本語 テキスト 日本語 テキスト 日本語 テキスト ", "k14": "ab ab ab ab ab ab ab ab ab ab ab ab ab ab ab ab ab ab ab ab \u{85}cd cd cd cd cd cd cd cd cd cd cd cd cd cd cd cd cd cd cd cd ", "k15": "ab ab ab ab ab ab ab ab ab ab ab ab ab ab ab ab ab ab ab ab \rcd cd cd cd cd cd cd cd cd cd cd cd cd cd cd cd cd cd cd cd "}]} => Ok("outer:\n- k00: 12:30\n  k01: 2001-12-14\n  k02: a b\n  k03: >-\n      word word word word word word word word word word word word word word word word\n      word word word word word word word word word word word word word word\n  k04: >-\n      word word word word word word word word word word word word word word word word\n      word word word word word word word word word word word word word word \n  k05: |\n      word word word word word word word word word word word word word word word word word word word word word word word word word word word word word word\n  k06: |+\n      word word word word word word word word word word word word word word word word word word word word word word word word word word word word word word\n      \n  k07: >-\n      xxxxxxxxxxxxxxxxxxxxxxxxxxxxxxxxxxxxxxxxxxxxxxxxxxxxxxxxxxxxxxxxxxxxxxxxxxxxxxxxxxxxxxxxxxxxxxxxxxxxxxxxxxxxxxxxxxxxxxxx\n  k08: >-\n      aaaaaaaaaaaaaaaaaaaaaaaaaaaaaaaaaaaaaaaaaaaaaaaaaa  \n      bbbbbbbbbbbbbbbbbbbbbbbbbbbbbbbbbbbbbbbbbbbbbbbbbb  cccccccccccccccccccccccccccccccccccccccccccccccccc\n  k09: \"aaaaaaaaaaaaaaaaaaaaaaaaaaaaaaaaaaaaaaaaaaaaaaaaaa\\tbbbbbbbbbbbbbbbbbbbbbbbbbbbbbbbbbbbbbbbbbbbbbbbbbb\\tcccccccccccccccccccccccccccccccccccccccccccccccccc\"\n  k10: \"aaaaaaaaaaaaaaaaaaaaaaaaaaaaaaaaaaaaaaaaaaaaaaaaaa # bbbbbbbbbbbbbbbbbbbbbbbbbbbbbbbbbbbbbbbbbbbbbbbbbb\"\n  k11: \"aaaaaaaaaaaaaaaaaaaaaaaaaaaaaaaaaaaaaaaaaaaaaaaaaa: bbbbbbbbbbbbbbbbbbbbbbbbbbbbbbbbbbbbbbbbbbbbbbbbbb\"\n  k12: \"- lorem ipsum lorem ipsum lorem ipsum lorem ipsum lorem ipsum lorem ipsum lorem ipsum lorem ipsum lorem ipsum lorem ipsum \"\n  k13: >-\n      日本語 テキスト 日本語 テキスト 日本語 テキスト 日本語 テキスト 日本語 テキスト 日本語 テキスト 日本語 テキスト 日本語 テキスト 日本語\n      テキスト 日本語 テキスト 日本語 テキスト 日本語 テキスト 日本語 テキスト 日本語 テキスト 日本語 テキスト \n  k14: \"ab ab ab ab ab ab ab ab ab ab ab ab ab ab ab ab ab ab ab ab \\Ncd cd cd cd cd cd cd cd cd cd cd cd cd cd cd cd cd cd cd cd \"\n  k15: \"ab ab ab ab ab ab ab ab ab ab ab ab ab ab ab ab ab ab ab ab \\rcd cd cd cd cd cd cd cd cd cd cd cd cd cd cd cd cd cd cd cd \"\n- k00: 12:30\n  k01: 2001-12-14\n  k02: a b\n  k03: >-\n      word word word word word word word word word word word word word word word word\n      word word word word word word word word word word word word word word\n  k04: >-\n      word word word word word word word word word word word word word word word word\n      word word word word word word word word word word word word word word \n  k05: |\n      word word word word word word word word word word word word word word word word word word word word word word word word word word word word word word\n  k06: |+\n      word word word word word word word word word word word word word word word word word word word word word word word word word word word word word word\n      \n  k07: >-\n      xxxxxxxxxxxxxxxxxxxxxxxxxxxxxxxxxxxxxxxxxxxxxxxxxxxxxxxxxxxxxxxxxxxxxxxxxxxxxxxxxxxxxxxxxxxxxxxxxxxxxxxxxxxxxxxxxxxxxxxx\n  k08: >-\n      aaaaaaaaaaaaaaaaaaaaaaaaaaaaaaaaaaaaaaaaaaaaaaaaaa  \n      bbbbbbbbbbbbbbbbbbbbbbbbbbbbbbbbbbbbbbbbbbbbbbbbbb  cccccccccccccccccccccccccccccccccccccccccccccccccc\n  k09: \"aaaaaaaaaaaaaaaaaaaaaaaaaaaaaaaaaaaaaaaaaaaaaaaaaa\\tbbbbbbbbbbbbbbbbbbbbbbbbbbbbbbbbbbbbbbbbbbbbbbbbbb\\tcccccccccccccccccccccccccccccccccccccccccccccccccc\"\n  k10: \"aaaaaaaaaaaaaaaaaaaaaaaaaaaaaaaaaaaaaaaaaaaaaaaaaa # bbbbbbbbbbbbbbbbbbbbbbbbbbbbbbbbbbbbbbbbbbbbbbbbbb\"\n  k11: \"aaaaaaaaaaaaaaaaaaaaaaaaaaaaaaaaaaaaaaaaaaaaaaaaaa: bbbbbbbbbbbbbbbbbbbbbbbbbbbbbbbbbbbbbbbbbbbbbbbbbb\"\n  k12: \"- lorem ipsum lorem ipsum lorem ipsum lorem ipsum lorem ipsum lorem ipsum lorem ipsum lorem ipsum lorem ipsum lorem ipsum \"\n  k13: >-\n      日本語 テキスト 日本語 テキスト 日本語 テキスト 日本語 テキスト 日本語 テキスト 日本語 テキスト 日本語 テキスト 日本語 テキスト 日本語\n      テキスト 日本語 テキスト 日本語 テキスト 日本語 テキスト 日本語 テキスト 日本語 テキスト 日本語 テキスト \n  k14: \"ab ab ab ab ab ab ab ab ab ab ab ab ab ab ab ab ab ab ab ab \\Ncd cd cd cd cd cd cd cd cd cd cd cd cd cd cd cd cd cd cd cd \"\n  k15: \"ab ab ab ab ab ab ab ab ab ab ab ab ab ab ab ab ab ab ab ab \\rcd cd cd cd cd cd cd cd cd cd cd cd cd cd cd cd cd cd cd cd \"\n") <= SAME
mapval [indent3compact] {"k00": "lorem ipsum lorem ipsum lorem ipsum lorem ipsum lorem ipsum lorem ipsum \ndolor sit dolor sit dolor sit dolor sit dolor sit dolor sit ", "k01": "  lorem ipsum lorem ipsum lorem ipsum lorem ipsum lorem ipsum lorem ipsum \ndolor: sit dolor: sit dolor: sit dolor: sit dolor: sit dolor: sit \n\n", "k02": "lorem ipsum lorem ipsum lorem ipsum lorem ipsum lorem ipsum lorem ipsum :\ndolor sit dolor sit dolor sit dolor sit dolor sit dolor sit :"} => Ok("k00: |-\n   lorem ipsum lorem ipsum lorem ipsum lorem ipsum lorem ipsum lorem ipsum \n   dolor sit dolor sit dolor sit dolor sit dolor sit dolor sit \nk01: \"  lorem ipsum lorem ipsum lorem ipsum lorem ipsum lorem ipsum lorem ipsum \\ndolor: sit dolor: sit dolor: sit dolor: sit dolor: sit dolor: sit \\n\\n\"\nk02: |-\n   lorem ipsum lorem ipsum lorem ipsum lorem ipsum lorem ipsum lorem ipsum :\n   dolor sit dolor sit dolor sit dolor sit dolor sit dolor sit :\n") <= SAME
mapkey [indent3compact] {"  lorem ipsum lorem ipsum lorem ipsum lorem ipsum lorem ipsum lorem ipsum \ndolor: sit dolor: sit dolor: sit dolor: sit dolor: sit dolor: sit \n\n": 1, "lorem ipsum lorem ipsum lorem ipsum lorem ipsum lorem ipsum lorem ipsum \ndolor sit dolor sit dolor sit dolor sit dolor sit dolor sit ": 0, "lorem ipsum lorem ipsum lorem ipsum lorem ipsum lorem ipsum lorem ipsum :\ndolor sit dolor sit dolor sit dolor sit dolor sit dolor sit :": 2} => Ok("\"  lorem ipsum lorem ipsum lorem ipsum lorem ipsum lorem ipsum lorem ipsum \\ndolor: sit dolor: sit dolor: sit dolor: sit dolor: sit dolor: sit \\n\\n\": 1\n\"lorem ipsum lorem ipsum lorem ipsum lorem ipsum lorem ipsum lorem ipsum \\ndolor sit dolor sit dolor sit dolor sit dolor sit dolor sit \": 0\n\"lorem ipsum lorem ipsum lorem ipsum lorem ipsum lorem ipsum lorem ipsum :\\ndolor sit dolor sit dolor sit dolor sit dolor sit dolor sit :\": 2\n") <= SAME
nested [indent3compact] {"outer": [{"k00": "lorem ipsum lorem ipsum lorem ipsum lorem ipsum lorem ipsum lorem ipsum \ndolor sit dolor sit dolor sit dolor sit dolor sit dolor sit ", "k01": "  lorem ipsum lorem ipsum lorem ipsum lorem ipsum lorem ipsum lorem ipsum \ndolor: sit dolor: sit dolor: sit dolor: sit dolor: sit dolor: sit \n\n", "k02": "lorem ipsum lorem ipsum lorem ipsum lorem ipsum lorem ipsum lorem ipsum :\ndolor sit dolor sit dolor sit dolor sit dolor sit dolor sit :"}, {"k00": "lorem ipsum lorem ipsum lorem ipsum lorem ipsum lorem ipsum lorem ipsum \ndolor sit dolor sit dolor sit dolor sit dolor sit dolor sit ", "k01": "  lorem ipsum lorem ipsum lorem ipsum lorem ipsum lorem ipsum lorem ipsum \ndolor: sit dolor: sit dolor: sit dolor: sit dolor: sit dolor: sit \n\n", "k02": "lorem ipsum lorem ipsum lorem ipsum lorem ipsum lorem ipsum lorem ipsum :\ndolor sit dolor sit dolor sit dolor sit dolor sit dolor sit :"}]} => Ok("outer:\n- k00: |-\n      lorem ipsum lorem ipsum lorem ipsum lorem ipsum lorem ipsum lorem ipsum \n      dolor sit dolor sit dolor sit dolor sit dolor sit dolor sit \n  k01: \"  lorem ipsum lorem ipsum lorem ipsum lorem ipsum lorem ipsum lorem ipsum \\ndolor: sit dolor: sit dolor: sit dolor: sit dolor: sit dolor: sit \\n\\n\"\n  k02: |-\n      lorem ipsum lorem ipsum lorem ipsum lorem ipsum lorem ipsum lorem ipsum :\n      dolor sit dolor sit dolor sit dolor sit dolor sit dolor sit :\n- k00: |-\n      lorem ipsum lorem ipsum lorem ipsum lorem ipsum lorem ipsum lorem ipsum \n      dolor sit dolor sit dolor sit dolor sit dolor sit dolor sit \n  k01: \"  lorem ipsum lorem ipsum lorem ipsum lorem ipsum lorem ipsum lorem ipsum \\ndolor: sit dolor: sit dolor: sit dolor: sit dolor: sit dolor: sit \\n\\n\"\n  k02: |-\n      lorem ipsum lorem ipsum lorem ipsum lorem ipsum lorem ipsum lorem ipsum :\n      dolor sit dolor sit dolor sit dolor sit dolor sit dolor sit :\n") <= SAME
flowseq [indent3compact] => Ok("[\"\", \"~\", \"null\", \"NULL\", \"Null\", \"true\", \"False\", \"TRUE\", \"yes\", \"y\", \"No\", \"on\", \"OFF\", \"<<\", \"---\", \"--- a\"]\n") <= SAME
flowmap [indent3compact] => Ok("{\"\": \"\", \"---\": \"---\", \"--- a\": \"--- a\", \"<<\": \"<<\", \"False\": \"False\", \"NULL\": \"NULL\", \"No\": \"No\", \"Null\": \"Null\", \"OFF\": \"OFF\", \"TRUE\": \"TRUE\", \"null\": \"null\", \"on\": \"on\", \"true\": \"true\", \"y\": \"y\", \"yes\": \"yes\", \"~\": \"~\"}\n") <= SAME
flowseq [indent3compact] => Ok("[---a, \"...\", \"... x\", \".nan\", \".NaN\", \"-.INF\", \"+.inf\", \".inf\", +-.inf, .infx, \"nan\", \"NaN\", \"+inf\", \"-Infinity\", \"infinity\", \"0x1F\"]\n") <= SAME
flowmap [indent3compact] => Ok("{+-.inf: +-.inf, \"+.inf\": \"+.inf\", \"+inf\": \"+inf\", ---a: ---a, \"-.INF\": \"-.INF\", \"-Infinity\": \"-Infinity\", \"...\": \"...\", \"... x\": \"... x\", \".NaN\": \".NaN\", \".inf\": \".inf\", .infx: .infx, \".nan\": \".nan\", \"0x1F\": \"0x1F\", \"NaN\": \"NaN\", \"infinity\": \"infinity\", \"nan\": \"nan\"}\n") <= SAME
flowseq [indent3compact] => Ok("[\"-0x1f\", \"0o17\", \"0b101\", 0b102, \"1_000\", \"1e9\", \"1E+9\", \"1.\", \".5\", \"+1.5e-3\", 1.5e, \"12345678901234567890123456789\", '-', \"?\", +, '.']\n") <= SAME
flowmap [indent3compact] => Ok("{+: +, \"+1.5e-3\": \"+1.5e-3\", \"-\": '-', \"-0x1f\": \"-0x1f\", .: '.', \".5\": \".5\", \"0b101\": \"0b101\", 0b102: 0b102, \"0o17\": \"0o17\", \"1.\": \"1.\", 1.5e: 1.5e, \"12345678901234567890123456789\": \"12345678901234567890123456789\", \"1E+9\": \"1E+9\", \"1_000\": \"1_000\", \"1e9\": \"1e9\", \"?\": \"?\"}\n") <= SAME
flowseq [indent3compact] => Ok("['#', \"- a\", -a, \"-\\ta\", ?x, \"? x\", \",a\", \":a\", \"[a\", \"]a\", \"{a\", \"}a\", \"%a\", \"@a\", \"`a\", \"!a\"]\n") <= SAME
flowmap [indent3compact] => Ok("{\"!a\": \"!a\", \"#\": '#', \"%a\": \"%a\", \",a\": \",a\", \"-\\ta\": \"-\\ta\", \"- a\": \"- a\", -a: -a, \":a\": \":a\", \"? x\": \"? x\", ?x: ?x, \"@a\": \"@a\", \"[a\": \"[a\", \"]a\": \"]a\", \"`a\": \"`a\", \"{a\": \"{a\", \"}a\": \"}a\"}\n") <= SAME
flowseq [indent3compact] => Ok("[\"&a\", \"*a\", \"|a\", \">a\", \"'a\", \"\\\"a\", \"a: b\", a:b, \"a:\", \"a: \", \"a #b\", \"a#b\", \"a,b\", \"a]b\", \"a{b}\", \" lead\"]\n") <= SAME
flowmap [indent3compact] => Ok("{\" lead\": \" lead\", \"\\\"a\": \"\\\"a\", \"&a\": \"&a\", \"'a\": \"'a\", \"*a\": \"*a\", \">a\": \">a\", \"a #b\": \"a #b\", \"a#b\": \"a#b\", \"a,b\": \"a,b\", \"a:\": \"a:\", \"a: \": \"a: \", \"a: b\": \"a: b\", \"a:b\": a:b, \"a]b\": \"a]b\", \"a{b}\": \"a{b}\", \"|a\": \"|a\"}\n") <= SAME
flowseq [indent3compact] => Ok("[\"trail \", \"\u{a0}nbsp\", \"em\u{2003}\", \"\\uFEFFbom\", mid\u{feff}bom, \"tab\\there\", \"new\\nline\", \"line\\n\", \"line\\n\\n\", \"\\n\", \"\\n\\n\", \"\\n\\n\\n\", \"\\nlead\", \"a\\n\\n\\nb\\n\\n\\n\", \"  indented\\nline\", \"\\n  indented after blank\\n\"]\n") <= SAME
flowmap [indent3compact] => Ok("{\"\\n\": \"\\n\", \"\\n\\n\": \"\\n\\n\", \"\\n\\n\\n\": \"\\n\\n\\n\", \"\\n  indented after blank\\n\": \"\\n  indented after blank\\n\", \"\\nlead\": \"\\nlead\", \"  indented\\nline\": \"  indented\\nline\", \"a\\n\\n\\nb\\n\\n\\n\": \"a\\n\\n\\nb\\n\\n\\n\", \"em\u{2003}\": \"em\u{2003}\", \"line\\n\": \"line\\n\", \"line\\n\\n\": \"line\\n\\n\", mid\u{feff}bom: mid\u{feff}bom, \"new\\nline\": \"new\\nline\", \"tab\\there\": \"tab\\there\", \"trail \": \"trail \", \"\u{a0}nbsp\": \"\u{a0}nbsp\", \"\u{feff}bom\": \"\\uFEFFbom\"}\n") <= SAME
flowseq [indent3compact] => Ok("[\"a\\n  b\\n\", \"key: v\\nnext\", \"ends with colon:\\nx:\", \"# not comment\\nline\", \"trailing space \\nline\", \"cr\\rhere\", \"crlf\\r\\nhere\", \"\\0\", \"\\a\", \"\\b\", \"\\v\", \"\\f\", \"\\e\", \"\\x01\", \"\\x1F\", \"\\x7F\"]\n") <= SAME
flowmap [indent3compact] => Ok("{\"\\u0000\": \"\\0\", \"\\u0001\": \"\\x01\", \"\\u0007\": \"\\a\", \"\\u0008\": \"\\b\", \"\\u000B\": \"\\v\", \"\\u000C\": \"\\f\", \"\\u001B\": \"\\e\", \"\\u001F\": \"\\x1F\", \"# not comment\\nline\": \"# not comment\\nline\", \"a\\n  b\\n\": \"a\\n  b\\n\", \"cr\\rhere\": \"cr\\rhere\", \"crlf\\r\\nhere\": \"crlf\\r\\nhere\", \"ends with colon:\\nx:\": \"ends with colon:\\nx:\", \"key: v\\nnext\": \"key: v\\nnext\", \"trailing space \\nline\": \"trailing space \\nline\", \"\\u007F\": \"\\x7F\"}\n") <= SAME
flowseq [indent3compact] => Ok("[\"\\x80\", \"\\N\", \"\\x9F\", \"\\L\", \"\\P\", a\u{2028}b, it's, \"'\", \"''\", say \"hi\", back\\slash, \\, é, 日本語, 😀, 1.0.0]\n") <= SAME
flowmap [indent3compact] => Ok("{\"'\": \"'\", \"''\": \"''\", 1.0.0: 1.0.0, \\: \\, a\u{2028}b: a\u{2028}b, back\\slash: back\\slash, it's: it's, say \"hi\": say \"hi\", \"\\u0080\": \"\\x80\", \"\\u0085\": \"\\N\", \"\\u009F\": \"\\x9F\", é: é, \"\u{2028}\": \"\\L\", \"\u{2029}\": \"\\P\", 日本語: 日本語, 😀: 😀}\n") <= SAME
flowseq [indent3compact] => Ok("[12:30, 2001-12-14, a b, word word word word word word word word word word word word word word word word word word word word word word word word word word word word word word, \"word word word word word word word word word word word word word word word word word word word word word word word word word word word word word word \", \"word word word word word word word word word word word word word word word word word word word word word word word word word word word word word word\\n\", \"word word word word word word word word word word word word word word word word word word word word word word word word word word word word word word\\n\\n\", xxxxxxxxxxxxxxxxxxxxxxxxxxxxxxxxxxxxxxxxxxxxxxxxxxxxxxxxxxxxxxxxxxxxxxxxxxxxxxxxxxxxxxxxxxxxxxxxxxxxxxxxxxxxxxxxxxxxxxxx, aaaaaaaaaaaaaaaaaaaaaaaaaaaaaaaaaaaaaaaaaaaaaaaaaa   bbbbbbbbbbbbbbbbbbbbbbbbbbbbbbbbbbbbbbbbbbbbbbbbbb  cccccccccccccccccccccccccccccccccccccccccccccccccc, \"aaaaaaaaaaaaaaaaaaaaaaaaaaaaaaaaaaaaaaaaaaaaaaaaaa\\tbbbbbbbbbbbbbbbbbbbbbbbbbbbbbbbbbbbbbbbbbbbbbbbbbb\\tcccccccccccccccccccccccccccccccccccccccccccccccccc\", \"aaaaaaaaaaaaaaaaaaaaaaaaaaaaaaaaaaaaaaaaaaaaaaaaaa # bbbbbbbbbbbbbbbbbbbbbbbbbbbbbbbbbbbbbbbbbbbbbbbbbb\", \"aaaaaaaaaaaaaaaaaaaaaaaaaaaaaaaaaaaaaaaaaaaaaaaaaa: bbbbbbbbbbbbbbbbbbbbbbbbbbbbbbbbbbbbbbbbbbbbbbbbbb\", \"- lorem ipsum lorem ipsum lorem ipsum lorem ipsum lorem ipsum lorem ipsum lorem ipsum lorem ipsum lorem ipsum lorem ipsum \", \"日本語 テキスト 日本語 テキスト 日本語 テキスト 日本語 テキスト 日本語 テキスト 日本語 テキスト 日本語 テキスト 日本語 テキスト 日本語 テキスト 日本語 テキスト 日本語 テキスト 日本語 テキスト 日本語 テキスト 日本語 テキスト 日本語 テキスト \", \"ab ab ab ab ab ab ab ab ab ab ab ab ab ab ab ab ab ab ab ab \\Ncd cd cd cd cd cd cd cd cd cd cd cd cd cd cd cd cd cd cd cd \", \"ab ab ab ab ab ab ab ab ab ab ab ab ab ab ab ab ab ab ab ab \\rcd cd cd cd cd cd cd cd cd cd cd cd cd cd cd cd cd cd cd cd \"]\n") <= SAME
flowmap [indent3compact] => Ok("{\"- lorem ipsum lorem ipsum lorem ipsum lorem ipsum lorem ipsum lorem ipsum lorem ipsum lorem ipsum lorem ipsum lorem ipsum \": \"- lorem ipsum lorem ipsum lorem ipsum lorem ipsum lorem ipsum lorem ipsum lorem ipsum lorem ipsum lorem ipsum lorem ipsum \", \"12:30\": 12:30, 2001-12-14: 2001-12-14, a b: a b, \"aaaaaaaaaaaaaaaaaaaaaaaaaaaaaaaaaaaaaaaaaaaaaaaaaa\\tbbbbbbbbbbbbbbbbbbbbbbbbbbbbbbbbbbbbbbbbbbbbbbbbbb\\tcccccccccccccccccccccccccccccccccccccccccccccccccc\": \"aaaaaaaaaaaaaaaaaaaaaaaaaaaaaaaaaaaaaaaaaaaaaaaaaa\\tbbbbbbbbbbbbbbbbbbbbbbbbbbbbbbbbbbbbbbbbbbbbbbbbbb\\tcccccccccccccccccccccccccccccccccccccccccccccccccc\", aaaaaaaaaaaaaaaaaaaaaaaaaaaaaaaaaaaaaaaaaaaaaaaaaa   bbbbbbbbbbbbbbbbbbbbbbbbbbbbbbbbbbbbbbbbbbbbbbbbbb  cccccccccccccccccccccccccccccccccccccccccccccccccc: aaaaaaaaaaaaaaaaaaaaaaaaaaaaaaaaaaaaaaaaaaaaaaaaaa   bbbbbbbbbbbbbbbbbbbbbbbbbbbbbbbbbbbbbbbbbbbbbbbbbb  cccccccccccccccccccccccccccccccccccccccccccccccccc, \"aaaaaaaaaaaaaaaaaaaaaaaaaaaaaaaaaaaaaaaaaaaaaaaaaa # bbbbbbbbbbbbbbbbbbbbbbbbbbbbbbbbbbbbbbbbbbbbbbbbbb\": \"aaaaaaaaaaaaaaaaaaaaaaaaaaaaaaaaaaaaaaaaaaaaaaaaaa # bbbbbbbbbbbbbbbbbbbbbbbbbbbbbbbbbbbbbbbbbbbbbbbbbb\", \"aaaaaaaaaaaaaaaaaaaaaaaaaaaaaaaaaaaaaaaaaaaaaaaaaa: bbbbbbbbbbbbbbbbbbbbbbbbbbbbbbbbbbbbbbbbbbbbbbbbbb\": \"aaaaaaaaaaaaaaaaaaaaaaaaaaaaaaaaaaaaaaaaaaaaaaaaaa: bbbbbbbbbbbbbbbbbbbbbbbbbbbbbbbbbbbbbbbbbbbbbbbbbb\", \"ab ab ab ab ab ab ab ab ab ab ab ab ab ab ab ab ab ab ab ab \\rcd cd cd cd cd cd cd cd cd cd cd cd cd cd cd cd cd cd cd cd \": \"ab ab ab ab ab ab ab ab ab ab ab ab ab ab ab ab ab ab ab ab \\rcd cd cd cd cd cd cd cd cd cd cd cd cd cd cd cd cd cd cd cd \", \"ab ab ab ab ab ab ab ab ab ab ab ab ab ab ab ab ab ab ab ab \\u0085cd cd cd cd cd cd cd cd cd cd cd cd cd cd cd cd cd cd cd cd \": \"ab ab ab ab ab ab ab ab ab ab ab ab ab ab ab ab ab ab ab ab \\Ncd cd cd cd cd cd cd cd cd cd cd cd cd cd cd cd cd cd cd cd \", word word word word word word word word word word word word word word word word word word word word word word word word word word word word word word: word word word word word word word word word word word word word word word word word word word word word word word word word word word word word word, \"word word word word word word word word word word word word word word word word word word word word word word word word word word word word word word\\n\": \"word word word word word word word word word word word word word word word word word word word word word word word word word word word word word word\\n\", \"word word word word word word word word word word word word word word word word word word word word word word word word word word word word word word\\n\\n\": \"word word word word word word word word word word word word word word word word word word word word word word word word word word word word word word\\n\\n\", \"word word word word word word word word word word word word word word word word word word word word word word word word word word word word word word \": \"word word word word word word word word word word word word word word word word word word word word word word word word word word word word word word \", xxxxxxxxxxxxxxxxxxxxxxxxxxxxxxxxxxxxxxxxxxxxxxxxxxxxxxxxxxxxxxxxxxxxxxxxxxxxxxxxxxxxxxxxxxxxxxxxxxxxxxxxxxxxxxxxxxxxxxxx: xxxxxxxxxxxxxxxxxxxxxxxxxxxxxxxxxxxxxxxxxxxxxxxxxxxxxxxxxxxxxxxxxxxxxxxxxxxxxxxxxxxxxxxxxxxxxxxxxxxxxxxxxxxxxxxxxxxxxxxx, \"日本語 テキスト 日本語 テキスト 日本語 テキスト 日本語 テキスト 日本語 テキスト 日本語 テキスト 日本語 テキスト 日本語 テキスト 日本語 テキスト 日本語 テキスト 日本語 テキスト 日本語 テキスト 日本語 テキスト 日本語 テキスト 日本語 テキスト \": \"日本語 テキスト 日本語 テキスト 日本語 テキスト 日本語 テキスト 日本語 テキスト 日本語 テキスト 日本語 テキスト 日本語 テキスト 日本語 テキスト 日本語 テキスト 日本語 テキスト 日本語 テキスト 日本語 テキスト 日本語 テキスト 日本語 テキスト \"}\n") <= SAME
flowseq [indent3compact] => Ok("[\"lorem ipsum lorem ipsum lorem ipsum lorem ipsum lorem ipsum lorem ipsum \\ndolor sit dolor sit dolor sit dolor sit dolor sit dolor sit \", \"  lorem ipsum lorem ipsum lorem ipsum lorem ipsum lorem ipsum lorem ipsum \\ndolor: sit dolor: sit dolor: sit dolor: sit dolor: sit dolor: sit \\n\\n\", \"lorem ipsum lorem ipsum lorem ipsum lorem ipsum lorem ipsum lorem ipsum :\\ndolor sit dolor sit dolor sit dolor sit dolor sit dolor sit :\"]\n") <= SAME
flowmap [indent3compact] => Ok("{\"  lorem ipsum lorem ipsum lorem ipsum lorem ipsum lorem ipsum lorem ipsum \\ndolor: sit dolor: sit dolor: sit dolor: sit dolor: sit dolor: sit \\n\\n\": \"  lorem ipsum lorem ipsum lorem ipsum lorem ipsum lorem ipsum lorem ipsum \\ndolor: sit dolor: sit dolor: sit dolor: sit dolor: sit dolor: sit \\n\\n\", \"lorem ipsum lorem ipsum lorem ipsum lorem ipsum lorem ipsum lorem ipsum \\ndolor sit dolor sit dolor sit dolor sit dolor sit dolor sit \": \"lorem ipsum lorem ipsum lorem ipsum lorem ipsum lorem ipsum lorem ipsum \\ndolor sit dolor sit dolor sit dolor sit dolor sit dolor sit \", \"lorem ipsum lorem ipsum lorem ipsum lorem ipsum lorem ipsum lorem ipsum :\\ndolor sit dolor sit dolor sit dolor sit dolor sit dolor sit :\": \"lorem ipsum lorem ipsum lorem ipsum lorem ipsum lorem ipsum lorem ipsum :\\ndolor sit dolor sit dolor sit dolor sit dolor sit dolor sit :\"}\n") <= SAME
enum [indent3compact] Text("") => Ok("Text: \"\"\n") <= SAME
enum [indent3compact] [Pair("", -1)] => Ok("- Pair:\n      - \"\"\n      - -1\n") <= SAME
enum [indent3compact] Rec { s: "", c: 'x' } => Ok("Rec:\n   s: \"\"\n   c: x\n") <= SAME
enum [indent3compact] Text("NULL") => Ok("Text: \"NULL\"\n") <= SAME
enum [indent3compact] [Pair("NULL", -1)] => Ok("- Pair:\n      - \"NULL\"\n      - -1\n") <= SAME
enum [indent3compact] Rec { s: "NULL", c: 'N' } => Ok("Rec:\n   s: \"NULL\"\n   c: \"N\"\n") <= SAME
enum [indent3compact] Text("False") => Ok("Text: \"False\"\n") <= SAME
enum [indent3compact] [Pair("False", -1)] => Ok("- Pair:\n      - \"False\"\n      - -1\n") <= SAME
enum [indent3compact] Rec { s: "False", c: 'F' } => Ok("Rec:\n   s: \"False\"\n   c: F\n") <= SAME
enum [indent3compact] Text("y") => Ok("Text: \"y\"\n") <= SAME
enum [indent3compact] [Pair("y", -1)] => Ok("- Pair:\n      - \"y\"\n      - -1\n") <= SAME
enum [indent3compact] Rec { s: "y", c: 'y' } => Ok("Rec:\n   s: \"y\"\n   c: \"y\"\n") <= SAME
enum [indent3compact] Text("OFF") => Ok("Text: \"OFF\"\n") <= SAME
enum [indent3compact] [Pair("OFF", -1)] => Ok("- Pair:\n      - \"OFF\"\n      - -1\n") <= SAME
enum [indent3compact] Rec { s: "OFF", c: 'O' } => Ok("Rec:\n   s: \"OFF\"\n   c: O\n") <= SAME
enum [indent3compact] Text("--- a") => Ok("Text: \"--- a\"\n") <= SAME
enum [indent3compact] [Pair("--- a", -1)] => Ok("- Pair:\n      - \"--- a\"\n      - -1\n") <= SAME
enum [indent3compact] Rec { s: "--- a", c: '-' } => Ok("Rec:\n   s: \"--- a\"\n   c: '-'\n") <= SAME
enum [indent3compact] Text("... x") => Ok("Text: \"... x\"\n") <= SAME
enum [indent3compact] [Pair("... x", -1)] => Ok("- Pair:\n      - \"... x\"\n      - -1\n") <= SAME
enum [indent3compact] Rec { s: "... x", c: '.' } => Ok("Rec:\n   s: \"... x\"\n   c: '.'\n") <= SAME
enum [indent3compact] Text("-.INF") => Ok("Text: \"-.INF\"\n") <= SAME
enum [indent3compact] [Pair("-.INF", -1)] => Ok("- Pair:\n      - \"-.INF\"\n      - -1\n") <= SAME
enum [indent3compact] Rec { s: "-.INF", c: '-' } => Ok("Rec:\n   s: \"-.INF\"\n   c: '-'\n") <= SAME
enum [indent3compact] Text("+-.inf") => Ok("Text: +-.inf\n") <= SAME
enum [indent3compact] [Pair("+-.inf", -1)] => Ok("- Pair:\n      - +-.inf\n      - -1\n") <= SAME
enum [indent3compact] Rec { s: "+-.inf", c: '+' } => Ok("Rec:\n   s: +-.inf\n   c: +\n") <= SAME
enum [indent3compact] Text("NaN") => Ok("Text: \"NaN\"\n") <= SAME
enum [indent3compact] [Pair("NaN", -1)] => Ok("- Pair:\n      - \"NaN\"\n      - -1\n") <= SAME
enum [indent3compact] Rec { s: "NaN", c: 'N' } => Ok("Rec:\n   s: \"NaN\"\n   c: \"N\"\n") <= SAME
enum [indent3compact] Text("infinity") => Ok("Text: \"infinity\"\n") <= SAME
enum [indent3compact] [Pair("infinity", -1)] => Ok("- Pair:\n      - \"infinity\"\n      - -1\n") <= SAME
enum [indent3compact] Rec { s: "infinity", c: 'i' } => Ok("Rec:\n   s: \"infinity\"\n   c: i\n") <= SAME
enum [indent3compact] Text("0o17") => Ok("Text: \"0o17\"\n") <= SAME
enum [indent3compact] [Pair("0o17", -1)] => Ok("- Pair:\n      - \"0o17\"\n      - -1\n") <= SAME
enum [indent3compact] Rec { s: "0o17", c: '0' } => Ok("Rec:\n   s: \"0o17\"\n   c: \"0\"\n") <= SAME
enum [indent3compact] Text("1_000") => Ok("Text: \"1_000\"\n") <= SAME
enum [indent3compact] [Pair("1_000", -1)] => Ok("- Pair:\n      - \"1_000\"\n      - -1\n") <= SAME
enum [indent3compact] Rec { s: "1_000", c: '1' } => Ok("Rec:\n   s: \"1_000\"\n   c: \"1\"\n") <= SAME
enum [indent3compact] Text("1.") => Ok("Text: \"1.\"\n") <= SAME
enum [indent3compact] [Pair("1.", -1)] => Ok("- Pair:\n      - \"1.\"\n      - -1\n") <= SAME
enum [indent3compact] Rec { s: "1.", c: '1' } => Ok("Rec:\n   s: \"1.\"\n   c: \"1\"\n") <= SAME
enum [indent3compact] Text("1.5e") => Ok("Text: 1.5e\n") <= SAME
enum [indent3compact] [Pair("1.5e", -1)] => Ok("- Pair:\n      - 1.5e\n      - -1\n") <= SAME
enum [indent3compact] Rec { s: "1.5e", c: '1' } => Ok("Rec:\n   s: 1.5e\n   c: \"1\"\n") <= SAME
enum [indent3compact] Text("?") => Ok("Text: \"?\"\n") <= SAME
enum [indent3compact] [Pair("?", -1)] => Ok("- Pair:\n      - \"?\"\n      - -1\n") <= SAME
enum [indent3compact] Rec { s: "?", c: '?' } => Ok("Rec:\n   s: \"?\"\n   c: \"?\"\n") <= SAME
enum [indent3compact] Text("#") => Ok("Text: '#'\n") <= SAME
enum [indent3compact] [Pair("#", -1)] => Ok("- Pair:\n      - '#'\n      - -1\n") <= SAME
enum [indent3compact] Rec { s: "#", c: '#' } => Ok("Rec:\n   s: '#'\n   c: '#'\n") <= SAME
enum [indent3compact] Text("-\ta") => Ok("Text: \"-\\ta\"\n") <= SAME
enum [indent3compact] [Pair("-\ta", -1)] => Ok("- Pair:\n      - \"-\\ta\"\n      - -1\n") <= SAME
enum [indent3compact] Rec { s: "-\ta", c: '-' } => Ok("Rec:\n   s: \"-\\ta\"\n   c: '-'\n") <= SAME
enum [indent3compact] Text(",a") => Ok("Text: \",a\"\n") <= SAME
enum [indent3compact] [Pair(",a", -1)] => Ok("- Pair:\n      - \",a\"\n      - -1\n") <= SAME
enum [indent3compact] Rec { s: ",a", c: ',' } => Ok("Rec:\n   s: \",a\"\n   c: \",\"\n") <= SAME
enum [indent3compact] Text("]a") => Ok("Text: \"]a\"\n") <= SAME
enum [indent3compact] [Pair("]a", -1)] => Ok("- Pair:\n      - \"]a\"\n      - -1\n") <= SAME
enum [indent3compact] Rec { s: "]a", c: ']' } => Ok("Rec:\n   s: \"]a\"\n   c: \"]\"\n") <= SAME
enum [indent3compact] Text("%a") => Ok("Text: \"%a\"\n") <= SAME
enum [indent3compact] [Pair("%a", -1)] => Ok("- Pair:\n      - \"%a\"\n      - -1\n") <= SAME
enum [indent3compact] Rec { s: "%a", c: '%' } => Ok("Rec:\n   s: \"%a\"\n   c: \"%\"\n") <= SAME
enum [indent3compact] Text("!a") => Ok("Text: \"!a\"\n") <= SAME
enum [indent3compact] [Pair("!a", -1)] => Ok("- Pair:\n      - \"!a\"\n      - -1\n") <= SAME
enum [indent3compact] Rec { s: "!a", c: '!' } => Ok("Rec:\n   s: \"!a\"\n   c: \"!\"\n") <= SAME
enum [indent3compact] Text("|a") => Ok("Text: \"|a\"\n") <= SAME
enum [indent3compact] [Pair("|a", -1)] => Ok("- Pair:\n      - \"|a\"\n      - -1\n") <= SAME
enum [indent3compact] Rec { s: "|a", c: '|' } => Ok("Rec:\n   s: \"|a\"\n   c: \"|\"\n") <= SAME
enum [indent3compact] Text("\"a") => Ok("Text: \"\\\"a\"\n") <= SAME
enum [indent3compact] [Pair("\"a", -1)] => Ok("- Pair:\n      - \"\\\"a\"\n      - -1\n") <= SAME
enum [indent3compact] Rec { s: "\"a", c: '"' } => Ok("Rec:\n   s: \"\\\"a\"\n   c: \"\\\"\"\n") <= SAME
enum [indent3compact] Text("a:") => Ok("Text: \"a:\"\n") <= SAME
enum [indent3compact] [Pair("a:", -1)] => Ok("- Pair:\n      - \"a:\"\n      - -1\n") <= SAME
enum [indent3compact] Rec { s: "a:", c: 'a' } => Ok("Rec:\n   s: \"a:\"\n   c: a\n") <= SAME
enum [indent3compact] Text("a#b") => Ok("Text: \"a#b\"\n") <= SAME
enum [indent3compact] [Pair("a#b", -1)] => Ok("- Pair:\n      - \"a#b\"\n      - -1\n") <= SAME
enum [indent3compact] Rec { s: "a#b", c: 'a' } => Ok("Rec:\n   s: \"a#b\"\n   c: a\n") <= SAME
enum [indent3compact] Text("a{b}") => Ok("Text: a{b}\n") <= SAME
enum [indent3compact] [Pair("a{b}", -1)] => Ok("- Pair:\n      - a{b}\n      - -1\n") <= SAME
enum [indent3compact] Rec { s: "a{b}", c: 'a' } => Ok("Rec:\n   s: a{b}\n   c: a\n") <= SAME
enum [indent3compact] Text("\u{a0}nbsp") => Ok("Text: \"\u{a0}nbsp\"\n") <= SAME
enum [indent3compact] [Pair("\u{a0}nbsp", -1)] => Ok("- Pair:\n      - \"\u{a0}nbsp\"\n      - -1\n") <= SAME
enum [indent3compact] Rec { s: "\u{a0}nbsp", c: '\u{a0}' } => Ok("Rec:\n   s: \"\u{a0}nbsp\"\n   c: \"\u{a0}\"\n") <= SAME
enum [indent3compact] Text("mid\u{feff}bom") => Ok("Text: mid\u{feff}bom\n") <= SAME
enum [indent3compact] [Pair("mid\u{feff}bom", -1)] => Ok("- Pair:\n      - mid\u{feff}bom\n      - -1\n") <= SAME
enum [indent3compact] Rec { s: "mid\u{feff}bom", c: 'm' } => Ok("Rec:\n   s: mid\u{feff}bom\n   c: m\n") <= SAME
enum [indent3compact] Text("line\n") => Ok("Text: |\n   line\n") <= SAME
enum [indent3compact] [Pair("line\n", -1)] => Ok("- Pair:\n      - |\n         line\n      - -1\n") <= SAME
enum [indent3compact] Rec { s: "line\n", c: 'l' } => Ok("Rec:\n   s: |\n      line\n   c: l\n") <= SAME
enum [indent3compact] Text("\n\n") => Ok("Text: \"\\n\\n\"\n") <= SAME
enum [indent3compact] [Pair("\n\n", -1)] => Ok("- Pair:\n      - \"\\n\\n\"\n      - -1\n") <= SAME
enum [indent3compact] Rec { s: "\n\n", c: '\n' } => Ok("Rec:\n   s: \"\\n\\n\"\n   c: \"\\n\"\n") <= SAME
enum [indent3compact] Text("a\n\n\nb\n\n\n") => Ok("Text: |+\n   a\n   \n   \n   b\n   \n   \n") <= SAME
enum [indent3compact] [Pair("a\n\n\nb\n\n\n", -1)] => Ok("- Pair:\n      - |+\n         a\n         \n         \n         b\n         \n         \n      - -1\n") <= SAME
enum [indent3compact] Rec { s: "a\n\n\nb\n\n\n", c: 'a' } => Ok("Rec:\n   s: |+\n      a\n      \n      \n      b\n      \n      \n   c: a\n") <= SAME
enum [indent3compact] Text("a\n  b\n") => Ok("Text: |\n   a\n     b\n") <= SAME
enum [indent3compact] [Pair("a\n  b\n", -1)] => Ok("- Pair:\n      - |\n         a\n           b\n      - -1\n") <= SAME
enum [indent3compact] Rec { s: "a\n  b\n", c: 'a' } => Ok("Rec:\n   s: |\n      a\n        b\n   c: a\n") <= SAME
enum [indent3compact] Text("# not comment\nline") => Ok("Text: \"# not comment\\nline\"\n") <= SAME
enum [indent3compact] [Pair("# not comment\nline", -1)] => Ok("- Pair:\n      - \"# not comment\\nline\"\n      - -1\n") <= SAME
enum [indent3compact] Rec { s: "# not comment\nline", c: '#' } => Ok("Rec:\n   s: \"# not comment\\nline\"\n   c: '#'\n") <= SAME
enum [indent3compact] Text("crlf\r\nhere") => Ok("Text: \"crlf\\r\\nhere\"\n") <= SAME
enum [indent3compact] [Pair("crlf\r\nhere", -1)] => Ok("- Pair:\n      - \"crlf\\r\\nhere\"\n      - -1\n") <= SAME
enum [indent3compact] Rec { s: "crlf\r\nhere", c: 'c' } => Ok("Rec:\n   s: \"crlf\\r\\nhere\"\n   c: c\n") <= SAME
enum [indent3compact] Text("\u{8}") => Ok("Text: \"\\b\"\n") <= SAME
enum [indent3compact] [Pair("\u{8}", -1)] => Ok("- Pair:\n      - \"\\b\"\n      - -1\n") <= SAME
enum [indent3compact] Rec { s: "\u{8}", c: '\u{8}' } => Ok("Rec:\n   s: \"\\b\"\n   c: \"\\b\"\n") <= SAME
enum [indent3compact] Text("\u{1b}") => Ok("Text: \"\\e\"\n") <= SAME
enum [indent3compact] [Pair("\u{1b}", -1)] => Ok("- Pair:\n      - \"\\e\"\n      - -1\n") <= SAME
enum [indent3compact] Rec { s: "\u{1b}", c: '\u{1b}' } => Ok("Rec:\n   s: \"\\e\"\n   c: \"\\e\"\n") <= SAME
enum [indent3compact] Text("\u{7f}") => Ok("Text: \"\\x7F\"\n") <= SAME
enum [indent3compact] [Pair("\u{7f}", -1)] => Ok("- Pair:\n      - \"\\x7F\"\n      - -1\n") <= SAME
enum [indent3compact] Rec { s: "\u{7f}", c: '\u{7f}' } => Ok("Rec:\n   s: \"\\x7F\"\n   c: \"\\x7F\"\n") <= SAME
enum [indent3compact] Text("\u{9f}") => Ok("Text: \"\\x9F\"\n") <= SAME
enum [indent3compact] [Pair("\u{9f}", -1)] => Ok("- Pair:\n      - \"\\x9F\"\n      - -1\n") <= SAME
enum [indent3compact] Rec { s: "\u{9f}", c: '\u{9f}' } => Ok("Rec:\n   s: \"\\x9F\"\n   c: \"\\x9F\"\n") <= SAME
enum [indent3compact] Text("a\u{2028}b") => Ok("Text: a\u{2028}b\n") <= SAME
enum [indent3compact] [Pair("a\u{2028}b", -1)] => Ok("- Pair:\n      - a\u{2028}b\n      - -1\n") <= SAME
enum [indent3compact] Rec { s: "a\u{2028}b", c: 'a' } => Ok("Rec:\n   s: a\u{2028}b\n   c: a\n") <= SAME
enum [indent3compact] Text("''") => Ok("Text: \"''\"\n") <= SAME
enum [indent3compact] [Pair("''", -1)] => Ok("- Pair:\n      - \"''\"\n      - -1\n") <= SAME
enum [indent3compact] Rec { s: "''", c: '\'' } => Ok("Rec:\n   s: \"''\"\n   c: \"'\"\n") <= SAME
enum [indent3compact] Text("\\") => Ok("Text: \\\n") <= SAME
enum [indent3compact] [Pair("\\", -1)] => Ok("- Pair:\n      - \\\n      - -1\n") <= SAME
enum [indent3compact] Rec { s: "\\", c: '\\' } => Ok("Rec:\n   s: \\\n   c: \\\n") <= SAME
enum [indent3compact] Text("😀") => Ok("Text: 😀\n") <= SAME
enum [indent3compact] [Pair("😀", -1)] => Ok("- Pair:\n      - 😀\n      - -1\n") <= SAME
enum [indent3compact] Rec { s: "😀", c: '😀' } => Ok("Rec:\n   s: 😀\n   c: 😀\n") <= SAME
enum [indent3compact] Text("2001-12-14") => Ok("Text: 2001-12-14\n") <= SAME
enum [indent3compact] [Pair("2001-12-14", -1)] => Ok("- Pair:\n      - 2001-12-14\n      - -1\n") <= SAME
enum [indent3compact] Rec { s: "2001-12-14", c: '2' } => Ok("Rec:\n   s: 2001-12-14\n   c: \"2\"\n") <= SAME
enum [indent3compact] Text("word word word word word word word word word word word word word word word word word word word word word word word word word word word word word word ") => Ok("Text: >-\n   word word word word word word word word word word word word word word word word\n   word word word word word word word word word word word word word word \n") <= SAME
enum [indent3compact] [Pair("word word word word word word word word word word word word word word word word word word word word word word word word word word word word word word ", -1)] => Ok("- Pair:\n      - >-\n         word word word word word word word word word word word word word word word word\n         word word word word word word word word word word word word word word \n      - -1\n") <= SAME
enum [indent3compact] Rec { s: "word word word word word word word word word word word word word word word word word word word word word word word word word word word word word word ", c: 'w' } => Ok("Rec:\n   s: >-\n      word word word word word word word word word word word word word word word word\n      word word word word word word word word word word word word word word \n   c: w\n") <= SAME
enum [indent3compact] Text("xxxxxxxxxxxxxxxxxxxxxxxxxxxxxxxxxxxxxxxxxxxxxxxxxxxxxxxxxxxxxxxxxxxxxxxxxxxxxxxxxxxxxxxxxxxxxxxxxxxxxxxxxxxxxxxxxxxxxxxx") => Ok("Text: >-\n   xxxxxxxxxxxxxxxxxxxxxxxxxxxxxxxxxxxxxxxxxxxxxxxxxxxxxxxxxxxxxxxxxxxxxxxxxxxxxxxxxxxxxxxxxxxxxxxxxxxxxxxxxxxxxxxxxxxxxxxx\n") <= SAME
enum [indent3compact] [Pair("xxxxxxxxxxxxxxxxxxxxxxxxxxxxxxxxxxxxxxxxxxxxxxxxxxxxxxxxxxxxxxxxxxxxxxxxxxxxxxxxxxxxxxxxxxxxxxxxxxxxxxxxxxxxxxxxxxxxxxxx", -1)] => Ok("- Pair:\n      - >-\n         xxxxxxxxxxxxxxxxxxxxxxxxxxxxxxxxxxxxxxxxxxxxxxxxxxxxxxxxxxxxxxxxxxxxxxxxxxxxxxxxxxxxxxxxxxxxxxxxxxxxxxxxxxxxxxxxxxxxxxxx\n      - -1\n") <= SAME
enum [indent3compact] Rec { s: "xxxxxxxxxxxxxxxxxxxxxxxxxxxxxxxxxxxxxxxxxxxxxxxxxxxxxxxxxxxxxxxxxxxxxxxxxxxxxxxxxxxxxxxxxxxxxxxxxxxxxxxxxxxxxxxxxxxxxxxx", c: 'x' } => Ok("Rec:\n   s: >-\n      xxxxxxxxxxxxxxxxxxxxxxxxxxxxxxxxxxxxxxxxxxxxxxxxxxxxxxxxxxxxxxxxxxxxxxxxxxxxxxxxxxxxxxxxxxxxxxxxxxxxxxxxxxxxxxxxxxxxxxxx\n   c: x\n") <= SAME
enum [indent3compact] Text("aaaaaaaaaaaaaaaaaaaaaaaaaaaaaaaaaaaaaaaaaaaaaaaaaa # bbbbbbbbbbbbbbbbbbbbbbbbbbbbbbbbbbbbbbbbbbbbbbbbbb") => Ok("Text: \"aaaaaaaaaaaaaaaaaaaaaaaaaaaaaaaaaaaaaaaaaaaaaaaaaa # bbbbbbbbbbbbbbbbbbbbbbbbbbbbbbbbbbbbbbbbbbbbbbbbbb\"\n") <= SAME
enum [indent3compact] [Pair("aaaaaaaaaaaaaaaaaaaaaaaaaaaaaaaaaaaaaaaaaaaaaaaaaa # bbbbbbbbbbbbbbbbbbbbbbbbbbbbbbbbbbbbbbbbbbbbbbbbbb", -1)] => Ok("- Pair:\n      - \"aaaaaaaaaaaaaaaaaaaaaaaaaaaaaaaaaaaaaaaaaaaaaaaaaa # bbbbbbbbbbbbbbbbbbbbbbbbbbbbbbbbbbbbbbbbbbbbbbbbbb\"\n      - -1\n") <= SAME
enum [indent3compact] Rec { s: "aaaaaaaaaaaaaaaaaaaaaaaaaaaaaaaaaaaaaaaaaaaaaaaaaa # bbbbbbbbbbbbbbbbbbbbbbbbbbbbbbbbbbbbbbbbbbbbbbbbbb", c: 'a' } => Ok("Rec:\n   s: \"aaaaaaaaaaaaaaaaaaaaaaaaaaaaaaaaaaaaaaaaaaaaaaaaaa # bbbbbbbbbbbbbbbbbbbbbbbbbbbbbbbbbbbbbbbbbbbbbbbbbb\"\n   c: a\n") <= SAME
enum [indent3compact] Text("日本語 テキスト 日本語 テキスト 日本語 テキスト 日本語 テキスト 日本語 テキスト 日本語 テキスト 日本語 テキスト 日本語 テキスト 日本語 テキスト 日本語 テキスト 日本語 テキスト 日本語 テキスト 日本語 テキスト 日本語 テキスト 日本語 テキスト ") => Ok("Text: >-\n   日本語 テキスト 日本語 テキスト 日本語 テキスト 日本語 テキスト 日本語 テキスト 日本語 テキスト 日本語 テキスト 日本語 テキスト 日本語\n   テキスト 日本語 テキスト 日本語 テキスト 日本語 テキスト 日本語 テキスト 日本語 テキスト 日本語 テキスト \n") <= SAME
enum [indent3compact] [Pair("日本語 テキスト 日本語 テキスト 日本語 テキスト 日本語 テキスト 日本語 テキスト 日本語 テキスト 日本語 テキスト 日本語 テキスト 日本語 テキスト 日本語 テキスト 日本語 テキスト 日本語 テキスト 日本語 テキスト 日本語 テキスト 日本語 テキスト ", -1)] => Ok("- Pair:\n      - >-\n         日本語 テキスト 日本語 テキスト 日本語 テキスト 日本語 テキスト 日本語 テキスト 日本語 テキスト 日本語 テキスト 日本語 テキスト 日本語\n         テキスト 日本語 テキスト 日本語 テキスト 日本語 テキスト 日本語 テキスト 日本語 テキスト 日本語 テキスト \n      - -1\n") <= SAME
enum [indent3compact] Rec { s: "日本語 テキスト 日本語 テキスト 日本語 テキスト 日本語 テキスト 日本語 テキスト 日本語 テキスト 日本語 テキスト 日本語 テキスト 日本語 テキスト 日本語 テキスト 日本語 テキスト 日本語 テキスト 日本語 テキスト 日本語 テキスト 日本語 テキスト ", c: '日' } => Ok("Rec:\n   s: >-\n      日本語 テキスト 日本語 テキスト 日本語 テキスト 日本語 テキスト 日本語 テキスト 日本語 テキスト 日本語 テキスト 日本語 テキスト 日本語\n      テキスト 日本語 テキスト 日本語 テキスト 日本語 テキスト 日本語 テキスト 日本語 テキスト 日本語 テキスト \n   c: 日\n") <= SAME
enum [indent3compact] Text("lorem ipsum lorem ipsum lorem ipsum lorem ipsum lorem ipsum lorem ipsum \ndolor sit dolor sit dolor sit dolor sit dolor sit dolor sit ") => Ok("Text: |-\n   lorem ipsum lorem ipsum lorem ipsum lorem ipsum lorem ipsum lorem ipsum \n   dolor sit dolor sit dolor sit dolor sit dolor sit dolor sit \n") <= SAME
enum [indent3compact] [Pair("lorem ipsum lorem ipsum lorem ipsum lorem ipsum lorem ipsum lorem ipsum \ndolor sit dolor sit dolor sit dolor sit dolor sit dolor sit ", -1)] => Ok("- Pair:\n      - |-\n         lorem ipsum lorem ipsum lorem ipsum lorem ipsum lorem ipsum lorem ipsum \n         dolor sit dolor sit dolor sit dolor sit dolor sit dolor sit \n      - -1\n") <= SAME
enum [indent3compact] Rec { s: "lorem ipsum lorem ipsum lorem ipsum lorem ipsum lorem ipsum lorem ipsum \ndolor sit dolor sit dolor sit dolor sit dolor sit dolor sit ", c: 'l' } => Ok("Rec:\n   s: |-\n      lorem ipsum lorem ipsum lorem ipsum lorem ipsum lorem ipsum lorem ipsum \n      dolor sit dolor sit dolor sit dolor sit dolor sit dolor sit \n   c: l\n") <= SAME
doc [indent3compact] Doc { s: "line one\nline two\n", list: ["  lead\nx", "\n", "~"], opt: None, unit: () } => Ok("s: |\n   line one\n   line two\nlist:\n- \"  lead\\nx\"\n- \"\\n\"\n- \"~\"\nopt: null\nunit: null\n") <= SAME
lit [default] "" => Ok("|-\n") <= ""
fold [default] "" => Ok("\"\"\n") <= ""
litval [default] "" => Ok("lit: |-\n") <= {"lit": ""}
foldinseq [default] "" => Ok("- fold: \"\"\n") <= [{"fold": ""}]
litinflow [default] "" => Ok("[\"\"]\n") <= [""]
litinseqseq [default] "" => Ok("- - |-\n- - |-\n") <= [[""], [""]]
lit [default] "short" => Ok("|-\n  short\n") <= "short"
fold [default] "short" => Ok("short\n") <= "short"
litval [default] "short" => Ok("lit: |-\n  short\n") <= {"lit": "short"}
foldinseq [default] "short" => Ok("- fold: short\n") <= [{"fold": "short"}]
litinflow [default] "short" => Ok("[short]\n") <= ["short"]
litinseqseq [default] "short" => Ok("- - |-\n    short\n- - |-\n    short\n") <= [["short"], ["short"]]
lit [default] "\n" => Ok("|\n  \n") <= "\n"
fold [default] "\n" => Ok(">\n  \n  \n") <= "\n"
litval [default] "\n" => Ok("lit: |\n  \n") <= {"lit": "\n"}
foldinseq [default] "\n" => Ok("- fold: >\n    \n    \n") <= [{"fold": "\n"}]
litinflow [default] "\n" => Ok("[\"\\n\"]\n") <= ["\n"]
litinseqseq [default] "\n" => Ok("- - |\n    \n- - |\n    \n") <= [[""], ["\n"]]
lit [default] "\n\n" => Ok("|+\n  \n  \n") <= "\n\n"
fold [default] "\n\n" => Ok(">\n  \n  \n  \n") <= "\n"
litval [default] "\n\n" => Ok("lit: |+\n  \n  \n") <= {"lit": "\n\n"}
foldinseq [default] "\n\n" => Ok("- fold: >\n    \n    \n    \n") <= [{"fold": "\n"}]
litinflow [default] "\n\n" => Ok("[\"\\n\\n\"]\n") <= ["\n\n"]
litinseqseq [default] "\n\n" => Ok("- - |+\n    \n    \n- - |+\n    \n    \n") <= [["\n\n"], ["\n\n"]]
lit [default] "a\n" => Ok("|\n  a\n") <= "a\n"
fold [default] "a\n" => Ok(">\n  a\n  \n") <= "a\n"
litval [default] "a\n" => Ok("lit: |\n  a\n") <= {"lit": "a\n"}
foldinseq [default] "a\n" => Ok("- fold: >\n    a\n    \n") <= [{"fold": "a\n"}]
litinflow [default] "a\n" => Ok("[\"a\\n\"]\n") <= ["a\n"]
litinseqseq [default] "a\n" => Ok("- - |\n    a\n- - |\n    a\n") <= [["a\n"], ["a\n"]]
lit [default] "a\n\n" => Ok("|+\n  a\n  \n") <= "a\n\n"
fold [default] "a\n\n" => Ok(">\n  a\n  \n  \n") <= "a\n"
litval [default] "a\n\n" => Ok("lit: |+\n  a\n  \n") <= {"lit": "a\n\n"}
foldinseq [default] "a\n\n" => Ok("- fold: >\n    a\n    \n    \n") <= [{"fold": "a\n"}]
litinflow [default] "a\n\n" => Ok("[\"a\\n\\n\"]\n") <= ["a\n\n"]
litinseqseq [default] "a\n\n" => Ok("- - |+\n    a\n    \n- - |+\n    a\n    \n") <= [["a\n\n"], ["a\n\n"]]
lit [default] "a\n\n\n" => Ok("|+\n  a\n  \n  \n") <= "a\n\n\n"
fold [default] "a\n\n\n" => Ok(">\n  a\n  \n  \n  \n") <= "a\n"
litval [default] "a\n\n\n" => Ok("lit: |+\n  a\n  \n  \n") <= {"lit": "a\n\n\n"}
foldinseq [default] "a\n\n\n" => Ok("- fold: >\n    a\n    \n    \n    \n") <= [{"fold": "a\n"}]
litinflow [default] "a\n\n\n" => Ok("[\"a\\n\\n\\n\"]\n") <= ["a\n\n\n"]
litinseqseq [default] "a\n\n\n" => Ok("- - |+\n    a\n    \n    \n- - |+\n    a\n    \n    \n") <= [["a\n\n\n"], ["a\n\n\n"]]
lit [default] "a\nb" => Ok("|-\n  a\n  b\n") <= "a\nb"
fold [default] "a\nb" => Ok(">\n  a\n  b\n") <= "a b\n"
litval [default] "a\nb" => Ok("lit: |-\n  a\n  b\n") <= {"lit": "a\nb"}
foldinseq [default] "a\nb" => Ok("- fold: >\n    a\n    b\n") <= [{"fold": "a b\n"}]
litinflow [default] "a\nb" => Ok("[\"a\\nb\"]\n") <= ["a\nb"]
litinseqseq [default] "a\nb" => Ok("- - |-\n    a\n    b\n- - |-\n    a\n    b\n") <= [["a\nb"], ["a\nb"]]
lit [default] "  lead\nrest\n" => Ok("|2\n    lead\n  rest\n") <= "  lead\nrest\n"
fold [default] "  lead\nrest\n" => Ok(">2\n    lead\n  rest\n  \n") <= "  lead\nrest\n"
litval [default] "  lead\nrest\n" => Ok("lit: |2\n    lead\n  rest\n") <= {"lit": "  lead\nrest\n"}
foldinseq [default] "  lead\nrest\n" => Ok("- fold: >2\n      lead\n    rest\n    \n") <= [{"fold": "  lead\nrest\n"}]
litinflow [default] "  lead\nrest\n" => Ok("[\"  lead\\nrest\\n\"]\n") <= ["  lead\nrest\n"]
litinseqseq [default] "  lead\nrest\n" => Ok("- - |2\n      lead\n    rest\n- - |2\n      lead\n    rest\n") <= [["  lead\nrest\n"], ["  lead\nrest\n"]]
lit [default] "\n  lead after blank" => Ok("|2-\n  \n    lead after blank\n") <= "\n  lead after blank"
fold [default] "\n  lead after blank" => Ok(">2\n  \n    lead after blank\n") <= "\n  lead after blank\n"
litval [default] "\n  lead after blank" => Ok("lit: |2-\n  \n    lead after blank\n") <= {"lit": "\n  lead after blank"}
foldinseq [default] "\n  lead after blank" => Ok("- fold: >2\n    \n      lead after blank\n") <= [{"fold": "\n  lead after blank\n"}]
litinflow [default] "\n  lead after blank" => Ok("[\"\\n  lead after blank\"]\n") <= ["\n  lead after blank"]
litinseqseq [default] "\n  lead after blank" => Ok("- - |2-\n    \n      lead after blank\n- - |2-\n    \n      lead after blank\n") <= [["\n  lead after blank"], ["\n  lead after blank"]]
lit [default] "cr\rinside\n" => Ok("\"cr\\rinside\\n\"\n") <= "cr\rinside\n"
fold [default] "cr\rinside\n" => Ok("\"cr\\rinside\\n\"\n") <= "cr\rinside\n"
litval [default] "cr\rinside\n" => Ok("lit: \"cr\\rinside\\n\"\n") <= {"lit": "cr\rinside\n"}
foldinseq [default] "cr\rinside\n" => Ok("- fold: \"cr\\rinside\\n\"\n") <= [{"fold": "cr\rinside\n"}]
litinflow [default] "cr\rinside\n" => Ok("[\"cr\\rinside\\n\"]\n") <= ["cr\rinside\n"]
litinseqseq [default] "cr\rinside\n" => Ok("- - \"cr\\rinside\\n\"\n- - \"cr\\rinside\\n\"\n") <= [["cr\rinside\n"], ["cr\rinside\n"]]
lit [default] "tab\tinside\nmore\n" => Ok("|\n  tab\tinside\n  more\n") <= "tab\tinside\nmore\n"
fold [default] "tab\tinside\nmore\n" => Ok(">\n  tab\tinside\n  more\n  \n") <= "tab\tinside more\n"
litval [default] "tab\tinside\nmore\n" => Ok("lit: |\n  tab\tinside\n  more\n") <= {"lit": "tab\tinside\nmore\n"}
foldinseq [default] "tab\tinside\nmore\n" => Ok("- fold: >\n    tab\tinside\n    more\n    \n") <= [{"fold": "tab\tinside more\n"}]
litinflow [default] "tab\tinside\nmore\n" => Ok("[\"tab\\tinside\\nmore\\n\"]\n") <= ["tab\tinside\nmore\n"]
litinseqseq [default] "tab\tinside\nmore\n" => Ok("- - |\n    tab\tinside\n    more\n- - |\n    tab\tinside\n    more\n") <= [["tab\tinside\nmore\n"], ["tab\tinside\nmore\n"]]
lit [default] "bell\u{7}\n" => Ok("\"bell\\a\\n\"\n") <= "bell\u{7}\n"
fold [default] "bell\u{7}\n" => Ok("\"bell\\a\\n\"\n") <= "bell\u{7}\n"
litval [default] "bell\u{7}\n" => Ok("lit: \"bell\\a\\n\"\n") <= {"lit": "bell\u{7}\n"}
foldinseq [default] "bell\u{7}\n" => Ok("- fold: \"bell\\a\\n\"\n") <= [{"fold": "bell\u{7}\n"}]
litinflow [default] "bell\u{7}\n" => Ok("[\"bell\\a\\n\"]\n") <= ["bell\u{7}\n"]
litinseqseq [default] "bell\u{7}\n" => Ok("- - \"bell\\a\\n\"\n- - \"bell\\a\\n\"\n") <= [["bell\u{7}\n"], ["bell\u{7}\n"]]
lit [default] "nel\u{85}inside the long enough text to be folded by the wrapper type\n" => Ok("\"nel\\Ninside the long enough text to be folded by the wrapper type\\n\"\n") <= "nel\u{85}inside the long enough text to be folded by the wrapper type\n"
fold [default] "nel\u{85}inside the long enough text to be folded by the wrapper type\n" => Ok("\"nel\\Ninside the long enough text to be folded by the wrapper type\\n\"\n") <= "nel\u{85}inside the long enough text to be folded by the wrapper type\n"
litval [default] "nel\u{85}inside the long enough text to be folded by the wrapper type\n" => Ok("lit: \"nel\\Ninside the long enough text to be folded by the wrapper type\\n\"\n") <= {"lit": "nel\u{85}inside the long enough text to be folded by the wrapper type\n"}
foldinseq [default] "nel\u{85}inside the long enough text to be folded by the wrapper type\n" => Ok("- fold: \"nel\\Ninside the long enough text to be folded by the wrapper type\\n\"\n") <= [{"fold": "nel\u{85}inside the long enough text to be folded by the wrapper type\n"}]
litinflow [default] "nel\u{85}inside the long enough text to be folded by the wrapper type\n" => Ok("[\"nel\\Ninside the long enough text to be folded by the wrapper type\\n\"]\n") <= ["nel\u{85}inside the long enough text to be folded by the wrapper type\n"]
litinseqseq [default] "nel\u{85}inside the long enough text to be folded by the wrapper type\n" => Ok("- - \"nel\\Ninside the long enough text to be folded by the wrapper type\\n\"\n- - \"nel\\Ninside the long enough text to be folded by the wrapper type\\n\"\n") <= [["nel\u{85}inside the long enough text to be folded by the wrapper type\n"], ["nel\u{85}inside the long enough text to be folded by the wrapper type\n"]]
lit [default] "a long enough text that the folded wrapper will really fold it at a space" => Ok("|-\n  a long enough text that the folded wrapper will really fold it at a space\n") <= "a long enough text that the folded wrapper will really fold it at a space"
fold [default] "a long enough text that the folded wrapper will really fold it at a space" => Ok(">\n  a long enough text that the folded wrapper will really fold it at a space\n") <= "a long enough text that the folded wrapper will really fold it at a space\n"
litval [default] "a long enough text that the folded wrapper will really fold it at a space" => Ok("lit: |-\n  a long enough text that the folded wrapper will really fold it at a space\n") <= {"lit": "a long enough text that the folded wrapper will really fold it at a space"}
foldinseq [default] "a long enough text that the folded wrapper will really fold it at a space" => Ok("- fold: >\n    a long enough text that the folded wrapper will really fold it at a space\n") <= [{"fold": "a long enough text that the folded wrapper will really fold it at a space\n"}]
litinflow [default] "a long enough text that the folded wrapper will really fold it at a space" => Ok("[a long enough text that the folded wrapper will really fold it at a space]\n") <= ["a long enough text that the folded wrapper will really fold it at a space"]
litinseqseq [default] "a long enough text that the folded wrapper will really fold it at a space" => Ok("- - |-\n    a long enough text that the folded wrapper will really fold it at a space\n- - |-\n    a long enough text that the folded wrapper will really fold it at a space\n") <= [["a long enough text that the folded wrapper will really fold it at a space"], ["a long enough text that the folded wrapper will really fold it at a space"]]
lit [default] "a long enough text   with runs  of spaces that the folded wrapper will fold" => Ok("|-\n  a long enough text   with runs  of spaces that the folded wrapper will fold\n") <= "a long enough text   with runs  of spaces that the folded wrapper will fold"
fold [default] "a long enough text   with runs  of spaces that the folded wrapper will fold" => Ok(">\n  a long enough text   with runs  of spaces that the folded wrapper will fold\n") <= "a long enough text   with runs  of spaces that the folded wrapper will fold\n"
litval [default] "a long enough text   with runs  of spaces that the folded wrapper will fold" => Ok("lit: |-\n  a long enough text   with runs  of spaces that the folded wrapper will fold\n") <= {"lit": "a long enough text   with runs  of spaces that the folded wrapper will fold"}
foldinseq [default] "a long enough text   with runs  of spaces that the folded wrapper will fold" => Ok("- fold: >\n    a long enough text   with runs  of spaces that the folded wrapper will fold\n") <= [{"fold": "a long enough text   with runs  of spaces that the folded wrapper will fold\n"}]
litinflow [default] "a long enough text   with runs  of spaces that the folded wrapper will fold" => Ok("[a long enough text   with runs  of spaces that the folded wrapper will fold]\n") <= ["a long enough text   with runs  of spaces that the folded wrapper will fold"]
litinseqseq [default] "a long enough text   with runs  of spaces that the folded wrapper will fold" => Ok("- - |-\n    a long enough text   with runs  of spaces that the folded wrapper will fold\n- - |-\n    a long enough text   with runs  of spaces that the folded wrapper will fold\n") <= [["a long enough text   with runs  of spaces that the folded wrapper will fold"], ["a long enough text   with runs  of spaces that the folded wrapper will fold"]]
lit [default] " leading space and a long enough text that the folded wrapper will fold it" => Ok("|2-\n   leading space and a long enough text that the folded wrapper will fold it\n") <= " leading space and a long enough text that the folded wrapper will fold it"
fold [default] " leading space and a long enough text that the folded wrapper will fold it" => Ok(">2\n   leading space and a long enough text that the folded wrapper will fold it\n") <= " leading space and a long enough text that the folded wrapper will fold it\n"
litval [default] " leading space and a long enough text that the folded wrapper will fold it" => Ok("lit: |2-\n   leading space and a long enough text that the folded wrapper will fold it\n") <= {"lit": " leading space and a long enough text that the folded wrapper will fold it"}
foldinseq [default] " leading space and a long enough text that the folded wrapper will fold it" => Ok("- fold: >2\n     leading space and a long enough text that the folded wrapper will fold it\n") <= [{"fold": " leading space and a long enough text that the folded wrapper will fold it\n"}]
litinflow [default] " leading space and a long enough text that the folded wrapper will fold it" => Ok("[\" leading space and a long enough text that the folded wrapper will fold it\"]\n") <= [" leading space and a long enough text that the folded wrapper will fold it"]
litinseqseq [default] " leading space and a long enough text that the folded wrapper will fold it" => Ok("- - |2-\n     leading space and a long enough text that the folded wrapper will fold it\n- - |2-\n     leading space and a long enough text that the folded wrapper will fold it\n") <= [[" leading space and a long enough text that the folded wrapper will fold it"], [" leading space and a long enough text that the folded wrapper will fold it"]]
lit [default] "para one is long enough to be folded somewhere\n\npara two\n  more indented\n" => Ok("|\n  para one is long enough to be folded somewhere\n  \n  para two\n    more indented\n") <= "para one is long enough to be folded somewhere\n\npara two\n  more indented\n"
fold [default] "para one is long enough to be folded somewhere\n\npara two\n  more indented\n" => Ok(">\n  para one is long enough to be folded somewhere\n  \n  para two\n    more indented\n  \n") <= "para one is long enough to be folded somewhere\npara two\n  more indented\n"
litval [default] "para one is long enough to be folded somewhere\n\npara two\n  more indented\n" => Ok("lit: |\n  para one is long enough to be folded somewhere\n  \n  para two\n    more indented\n") <= {"lit": "para one is long enough to be folded somewhere\n\npara two\n  more indented\n"}
foldinseq [default] "para one is long enough to be folded somewhere\n\npara two\n  more indented\n" => Ok("- fold: >\n    para one is long enough to be folded somewhere\n    \n    para two\n      more indented\n    \n") <= [{"fold": "para one is long enough to be folded somewhere\npara two\n  more indented\n"}]
litinflow [default] "para one is long enough to be folded somewhere\n\npara two\n  more indented\n" => Ok("[\"para one is long enough to be folded somewhere\\n\\npara two\\n  more indented\\n\"]\n") <= ["para one is long enough to be folded somewhere\n\npara two\n  more indented\n"]
litinseqseq [default] "para one is long enough to be folded somewhere\n\npara two\n  more indented\n" => Ok("- - |\n    para one is long enough to be folded somewhere\n    \n    para two\n      more indented\n- - |\n    para one is long enough to be folded somewhere\n    \n    para two\n      more indented\n") <= [["para one is long enough to be folded somewhere\n\npara two\n  more indented\n"], ["para one is long enough to be folded somewhere\n\npara two\n  more indented\n"]]
lit [default] "trailing spaces are kept by the folded style                                   " => Ok("|-\n  trailing spaces are kept by the folded style                                   \n") <= "trailing spaces are kept by the folded style                                   "
fold [default] "trailing spaces are kept by the folded style                                   " => Ok(">\n  trailing spaces are kept by the folded style                                   \n") <= "trailing spaces are kept by the folded style                                   \n"
litval [default] "trailing spaces are kept by the folded style                                   " => Ok("lit: |-\n  trailing spaces are kept by the folded style                                   \n") <= {"lit": "trailing spaces are kept by the folded style                                   "}
foldinseq [default] "trailing spaces are kept by the folded style                                   " => Ok("- fold: >\n    trailing spaces are kept by the folded style                                   \n") <= [{"fold": "trailing spaces are kept by the folded style                                   \n"}]
litinflow [default] "trailing spaces are kept by the folded style                                   " => Ok("[\"trailing spaces are kept by the folded style                                   \"]\n") <= ["trailing spaces are kept by the folded style                                   "]
litinseqseq [default] "trailing spaces are kept by the folded style                                   " => Ok("- - |-\n    trailing spaces are kept by the folded style                                   \n- - |-\n    trailing spaces are kept by the folded style                                   \n") <= [["trailing spaces are kept by the folded style                                   "], ["trailing spaces are kept by the folded style                                   "]]
lit [default] "- looks like a list\n- item\n" => Ok("|\n  - looks like a list\n  - item\n") <= "- looks like a list\n- item\n"
fold [default] "- looks like a list\n- item\n" => Ok(">\n  - looks like a list\n  - item\n  \n") <= "- looks like a list - item\n"
litval [default] "- looks like a list\n- item\n" => Ok("lit: |\n  - looks like a list\n  - item\n") <= {"lit": "- looks like a list\n- item\n"}
foldinseq [default] "- looks like a list\n- item\n" => Ok("- fold: >\n    - looks like a list\n    - item\n    \n") <= [{"fold": "- looks like a list - item\n"}]
litinflow [default] "- looks like a list\n- item\n" => Ok("[\"- looks like a list\\n- item\\n\"]\n") <= ["- looks like a list\n- item\n"]
litinseqseq [default] "- looks like a list\n- item\n" => Ok("- - |\n    - looks like a list\n    - item\n- - |\n    - looks like a list\n    - item\n") <= [["- looks like a list\n- item\n"], ["- looks like a list\n- item\n"]]
lit [default] "# looks like a comment\n" => Ok("|\n  # looks like a comment\n") <= "# looks like a comment\n"
fold [default] "# looks like a comment\n" => Ok(">\n  # looks like a comment\n  \n") <= "# looks like a comment\n"
litval [default] "# looks like a comment\n" => Ok("lit: |\n  # looks like a comment\n") <= {"lit": "# looks like a comment\n"}
foldinseq [default] "# looks like a comment\n" => Ok("- fold: >\n    # looks like a comment\n    \n") <= [{"fold": "# looks like a comment\n"}]
litinflow [default] "# looks like a comment\n" => Ok("[\"# looks like a comment\\n\"]\n") <= ["# looks like a comment\n"]
litinseqseq [default] "# looks like a comment\n" => Ok("- - |\n    # looks like a comment\n- - |\n    # looks like a comment\n") <= [["# looks like a comment\n"], ["# looks like a comment\n"]]
lit [default] "key: value\n" => Ok("|\n  key: value\n") <= "key: value\n"
fold [default] "key: value\n" => Ok(">\n  key: value\n  \n") <= "key: value\n"
litval [default] "key: value\n" => Ok("lit: |\n  key: value\n") <= {"lit": "key: value\n"}
foldinseq [default] "key: value\n" => Ok("- fold: >\n    key: value\n    \n") <= [{"fold": "key: value\n"}]
litinflow [default] "key: value\n" => Ok("[\"key: value\\n\"]\n") <= ["key: value\n"]
litinseqseq [default] "key: value\n" => Ok("- - |\n    key: value\n- - |\n    key: value\n") <= [["key: value\n"], ["key: value\n"]]
lit [quote_all] "" => Ok("|-\n") <= ""
fold [quote_all] "" => Ok("''\n") <= ""
litval [quote_all] "" => Ok("lit: |-\n") <= {"lit": ""}
foldinseq [quote_all] "" => Ok("- fold: ''\n") <= [{"fold": ""}]
litinflow [quote_all] "" => Ok("['']\n") <= [""]
litinseqseq [quote_all] "" => Ok("- - |-\n- - |-\n") <= [[""], [""]]
lit [quote_all] "short" => Ok("|-\n  short\n") <= "short"
fold [quote_all] "short" => Ok("'short'\n") <= "short"
litval [quote_all] "short" => Ok("lit: |-\n  short\n") <= {"lit": "short"}
foldinseq [quote_all] "short" => Ok("- fold: 'short'\n") <= [{"fold": "short"}]
litinflow [quote_all] "short" => Ok("['short']\n") <= ["short"]
litinseqseq [quote_all] "short" => Ok("- - |-\n    short\n- - |-\n    short\n") <= [["short"], ["short"]]
lit [quote_all] "\n" => Ok("|\n  \n") <= "\n"
fold [quote_all] "\n" => Ok(">\n  \n  \n") <= "\n"
litval [quote_all] "\n" => Ok("lit: |\n  \n") <= {"lit": "\n"}
foldinseq [quote_all] "\n" => Ok("- fold: >\n    \n    \n") <= [{"fold": "\n"}]
litinflow [quote_all] "\n" => Ok("[\"\\n\"]\n") <= ["\n"]
litinseqseq [quote_all] "\n" => Ok("- - |\n    \n- - |\n    \n") <= [[""], ["\n"]]
lit [quote_all] "\n\n" => Ok("|+\n  \n  \n") <= "\n\n"
fold [quote_all] "\n\n" => Ok(">\n  \n  \n  \n") <= "\n"
litval [quote_all] "\n\n" => Ok("lit: |+\n  \n  \n") <= {"lit": "\n\n"}
foldinseq [quote_all] "\n\n" => Ok("- fold: >\n    \n    \n    \n") <= [{"fold": "\n"}]
litinflow [quote_all] "\n\n" => Ok("[\"\\n\\n\"]\n") <= ["\n\n"]
litinseqseq [quote_all] "\n\n" => Ok("- - |+\n    \n    \n- - |+\n    \n    \n") <= [["\n\n"], ["\n\n"]]
lit [quote_all] "a\n" => Ok("|\n  a\n") <= "a\n"
fold [quote_all] "a\n" => Ok(">\n  a\n  \n") <= "a\n"
litval [quote_all] "a\n" => Ok("lit: |\n  a\n") <= {"lit": "a\n"}
foldinseq [quote_all] "a\n" => Ok("- fold: >\n    a\n    \n") <= [{"fold": "a\n"}]
litinflow [quote_all] "a\n" => Ok("[\"a\\n\"]\n") <= ["a\n"]
litinseqseq [quote_all] "a\n" => Ok("- - |\n    a\n- - |\n    a\n") <= [["a\n"], ["a\n"]]
lit [quote_all] "a\n\n" => Ok("|+\n  a\n  \n") <= "a\n\n"
fold [quote_all] "a\n\n" => Ok(">\n  a\n  \n  \n") <= "a\n"
litval [quote_all] "a\n\n" => Ok("lit: |+\n  a\n  \n") <= {"lit": "a\n\n"}
foldinseq [quote_all] "a\n\n" => Ok("- fold: >\n    a\n    \n    \n") <= [{"fold": "a\n"}]
litinflow [quote_all] "a\n\n" => Ok("[\"a\\n\\n\"]\n") <= ["a\n\n"]
litinseqseq [quote_all] "a\n\n" => Ok("- - |+\n    a\n    \n- - |+\n    a\n    \n") <= [["a\n\n"], ["a\n\n"]]
lit [quote_all] "a\n\n\n" => Ok("|+\n  a\n  \n  \n") <= "a\n\n\n"
fold [quote_all] "a\n\n\n" => Ok(">\n  a\n  \n  \n  \n") <= "a\n"
litval [quote_all] "a\n\n\n" => Ok("lit: |+\n  a\n  \n  \n") <= {"lit": "a\n\n\n"}
foldinseq [quote_all] "a\n\n\n" => Ok("- fold: >\n    a\n    \n    \n    \n") <= [{"fold": "a\n"}]
litinflow [quote_all] "a\n\n\n" => Ok("[\"a\\n\\n\\n\"]\n") <= ["a\n\n\n"]
litinseqseq [quote_all] "a\n\n\n" => Ok("- - |+\n    a\n    \n    \n- - |+\n    a\n    \n    \n") <= [["a\n\n\n"], ["a\n\n\n"]]
lit [quote_all] "a\nb" => Ok("|-\n  a\n  b\n") <= "a\nb"
fold [quote_all] "a\nb" => Ok(">\n  a\n  b\n") <= "a b\n"
litval [quote_all] "a\nb" => Ok("lit: |-\n  a\n  b\n") <= {"lit": "a\nb"}
foldinseq [quote_all] "a\nb" => Ok("- fold: >\n    a\n    b\n") <= [{"fold": "a b\n"}]
litinflow [quote_all] "a\nb" => Ok("[\"a\\nb\"]\n") <= ["a\nb"]
litinseqseq [quote_all] "a\nb" => Ok("- - |-\n    a\n    b\n- - |-\n    a\n    b\n") <= [["a\nb"], ["a\nb"]]
lit [quote_all] "  lead\nrest\n" => Ok("|2\n    lead\n  rest\n") <= "  lead\nrest\n"
fold [quote_all] "  lead\nrest\n" => Ok(">2\n    lead\n  rest\n  \n") <= "  lead\nrest\n"
litval [quote_all] "  lead\nrest\n" => Ok("lit: |2\n    lead\n  rest\n") <= {"lit": "  lead\nrest\n"}
foldinseq [quote_all] "  lead\nrest\n" => Ok("- fold: >2\n      lead\n    rest\n    \n") <= [{"fold": "  lead\nrest\n"}]
litinflow [quote_all] "  lead\nrest\n" => Ok("[\"  lead\\nrest\\n\"]\n") <= ["  lead\nrest\n"]
litinseqseq [quote_all] "  lead\nrest\n" => Ok("- - |2\n      lead\n    rest\n- - |2\n      lead\n    rest\n") <= [["  lead\nrest\n"], ["  lead\nrest\n"]]
lit [quote_all] "\n  lead after blank" => Ok("|2-\n  \n    lead after blank\n") <= "\n  lead after blank"
fold [quote_all] "\n  lead after blank" => Ok(">2\n  \n    lead after blank\n") <= "\n  lead after blank\n"
litval [quote_all] "\n  lead after blank" => Ok("lit: |2-\n  \n    lead after blank\n") <= {"lit": "\n  lead after blank"}
foldinseq [quote_all] "\n  lead after blank" => Ok("- fold: >2\n    \n      lead after blank\n") <= [{"fold": "\n  lead after blank\n"}]
litinflow [quote_all] "\n  lead after blank" => Ok("[\"\\n  lead after blank\"]\n") <= ["\n  lead after blank"]
litinseqseq [quote_all] "\n  lead after blank" => Ok("- - |2-\n    \n      lead after blank\n- - |2-\n    \n      lead after blank\n") <= [["\n  lead after blank"], ["\n  lead after blank"]]
lit [quote_all] "cr\rinside\n" => Ok("\"cr\\rinside\\n\"\n") <= "cr\rinside\n"
fold [quote_all] "cr\rinside\n" => Ok("\"cr\\rinside\\n\"\n") <= "cr\rinside\n"
litval [quote_all] "cr\rinside\n" => Ok("lit: \"cr\\rinside\\n\"\n") <= {"lit": "cr\rinside\n"}
foldinseq [quote_all] "cr\rinside\n" => Ok("- fold: \"cr\\rinside\\n\"\n") <= [{"fold": "cr\rinside\n"}]
litinflow [quote_all] "cr\rinside\n" => Ok("[\"cr\\rinside\\n\"]\n") <= ["cr\rinside\n"]
litinseqseq [quote_all] "cr\rinside\n" => Ok("- - \"cr\\rinside\\n\"\n- - \"cr\\rinside\\n\"\n") <= [["cr\rinside\n"], ["cr\rinside\n"]]
lit [quote_all] "tab\tinside\nmore\n" => Ok("|\n  tab\tinside\n  more\n") <= "tab\tinside\nmore\n"
fold [quote_all] "tab\tinside\nmore\n" => Ok(">\n  tab\tinside\n  more\n  \n") <= "tab\tinside more\n"
litval [quote_all] "tab\tinside\nmore\n" => Ok("lit: |\n  tab\tinside\n  more\n") <= {"lit": "tab\tinside\nmore\n"}
foldinseq [quote_all] "tab\tinside\nmore\n" => Ok("- fold: >\n    tab\tinside\n    more\n    \n") <= [{"fold": "tab\tinside more\n"}]
litinflow [quote_all] "tab\tinside\nmore\n" => Ok("[\"tab\\tinside\\nmore\\n\"]\n") <= ["tab\tinside\nmore\n"]
litinseqseq [quote_all] "tab\tinside\nmore\n" => Ok("- - |\n    tab\tinside\n    more\n- - |\n    tab\tinside\n    more\n") <= [["tab\tinside\nmore\n"], ["tab\tinside\nmore\n"]]
lit [quote_all] "bell\u{7}\n" => Ok("\"bell\\a\\n\"\n") <= "bell\u{7}\n"
fold [quote_all] "bell\u{7}\n" => Ok("\"bell\\a\\n\"\n") <= "bell\u{7}\n"
litval [quote_all] "bell\u{7}\n" => Ok("lit: \"bell\\a\\n\"\n") <= {"lit": "bell\u{7}\n"}
foldinseq [quote_all] "bell\u{7}\n" => Ok("- fold: \"bell\\a\\n\"\n") <= [{"fold": "bell\u{7}\n"}]
litinflow [quote_all] "bell\u{7}\n" => Ok("[\"bell\\a\\n\"]\n") <= ["bell\u{7}\n"]
litinseqseq [quote_all] "bell\u{7}\n" => Ok("- - \"bell\\a\\n\"\n- - \"bell\\a\\n\"\n") <= [["bell\u{7}\n"], ["bell\u{7}\n"]]
lit [quote_all] "nel\u{85}inside the long enough text to be folded by the wrapper type\n" => Ok("\"nel\\Ninside the long enough text to be folded by the wrapper type\\n\"\n") <= "nel\u{85}inside the long enough text to be folded by the wrapper type\n"
fold [quote_all] "nel\u{85}inside the long enough text to be folded by the wrapper type\n" => Ok("\"nel\\Ninside the long enough text to be folded by the wrapper type\\n\"\n") <= "nel\u{85}inside the long enough text to be folded by the wrapper type\n"
litval [quote_all] "nel\u{85}inside the long enough text to be folded by the wrapper type\n" => Ok("lit: \"nel\\Ninside the long enough text to be folded by the wrapper type\\n\"\n") <= {"lit": "nel\u{85}inside the long enough text to be folded by the wrapper type\n"}
foldinseq [quote_all] "nel\u{85}inside the long enough text to be folded by the wrapper type\n" => Ok("- fold: \"nel\\Ninside the long enough text to be folded by the wrapper type\\n\"\n") <= [{"fold": "nel\u{85}inside the long enough text to be folded by the wrapper type\n"}]
litinflow [quote_all] "nel\u{85}inside the long enough text to be folded by the wrapper type\n" => Ok("[\"nel\\Ninside the long enough text to be folded by the wrapper type\\n\"]\n") <= ["nel\u{85}inside the long enough text to be folded by the wrapper type\n"]
litinseqseq [quote_all] "nel\u{85}inside the long enough text to be folded by the wrapper type\n" => Ok("- - \"nel\\Ninside the long enough text to be folded by the wrapper type\\n\"\n- - \"nel\\Ninside the long enough text to be folded by the wrapper type\\n\"\n") <= [["nel\u{85}inside the long enough text to be folded by the wrapper type\n"], ["nel\u{85}inside the long enough text to be folded by the wrapper type\n"]]
lit [quote_all] "a long enough text that the folded wrapper will really fold it at a space" => Ok("|-\n  a long enough text that the folded wrapper will really fold it at a space\n") <= "a long enough text that the folded wrapper will really fold it at a space"
fold [quote_all] "a long enough text that the folded wrapper will really fold it at a space" => Ok(">\n  a long enough text that the folded wrapper will really fold it at a space\n") <= "a long enough text that the folded wrapper will really fold it at a space\n"
litval [quote_all] "a long enough text that the folded wrapper will really fold it at a space" => Ok("lit: |-\n  a long enough text that the folded wrapper will really fold it at a space\n") <= {"lit": "a long enough text that the folded wrapper will really fold it at a space"}
foldinseq [quote_all] "a long enough text that the folded wrapper will really fold it at a space" => Ok("- fold: >\n    a long enough text that the folded wrapper will really fold it at a space\n") <= [{"fold": "a long enough text that the folded wrapper will really fold it at a space\n"}]
litinflow [quote_all] "a long enough text that the folded wrapper will really fold it at a space" => Ok("['a long enough text that the folded wrapper will really fold it at a space']\n") <= ["a long enough text that the folded wrapper will really fold it at a space"]
litinseqseq [quote_all] "a long enough text that the folded wrapper will really fold it at a space" => Ok("- - |-\n    a long enough text that the folded wrapper will really fold it at a space\n- - |-\n    a long enough text that the folded wrapper will really fold it at a space\n") <= [["a long enough text that the folded wrapper will really fold it at a space"], ["a long enough text that the folded wrapper will really fold it at a space"]]
lit [quote_all] "a long enough text   with runs  of spaces that the folded wrapper will fold" => Ok("|-\n  a long enough text   with runs  of spaces that the folded wrapper will fold\n") <= "a long enough text   with runs  of spaces that the folded wrapper will fold"
fold [quote_all] "a long enough text   with runs  of spaces that the folded wrapper will fold" => Ok(">\n  a long enough text   with runs  of spaces that the folded wrapper will fold\n") <= "a long enough text   with runs  of spaces that the folded wrapper will fold\n"
litval [quote_all] "a long enough text   with runs  of spaces that the folded wrapper will fold" => Ok("lit: |-\n  a long enough text   with runs  of spaces that the folded wrapper will fold\n") <= {"lit": "a long enough text   with runs  of spaces that the folded wrapper will fold"}
foldinseq [quote_all] "a long enough text   with runs  of spaces that the folded wrapper will fold" => Ok("- fold: >\n    a long enough text   with runs  of spaces that the folded wrapper will fold\n") <= [{"fold": "a long enough text   with runs  of spaces that the folded wrapper will fold\n"}]
litinflow [quote_all] "a long enough text   with runs  of spaces that the folded wrapper will fold" => Ok("['a long enough text   with runs  of spaces that the folded wrapper will fold']\n") <= ["a long enough text   with runs  of spaces that the folded wrapper will fold"]
litinseqseq [quote_all] "a long enough text   with runs  of spaces that the folded wrapper will fold" => Ok("- - |-\n    a long enough text   with runs  of spaces that the folded wrapper will fold\n- - |-\n    a long enough text   with runs  of spaces that the folded wrapper will fold\n") <= [["a long enough text   with runs  of spaces that the folded wrapper will fold"], ["a long enough text   with runs  of spaces that the folded wrapper will fold"]]
lit [quote_all] " leading space and a long enough text that the folded wrapper will fold it" => Ok("|2-\n   leading space and a long enough text that the folded wrapper will fold it\n") <= " leading space and a long enough text that the folded wrapper will fold it"
fold [quote_all] " leading space and a long enough text that the folded wrapper will fold it" => Ok(">2\n   leading space and a long enough text that the folded wrapper will fold it\n") <= " leading space and a long enough text that the folded wrapper will fold it\n"
litval [quote_all] " leading space and a long enough text that the folded wrapper will fold it" => Ok("lit: |2-\n   leading space and a long enough text that the folded wrapper will fold it\n") <= {"lit": " leading space and a long enough text that the folded wrapper will fold it"}
foldinseq [quote_all] " leading space and a long enough text that the folded wrapper will fold it" => Ok("- fold: >2\n     leading space and a long enough text that the folded wrapper will fold it\n") <= [{"fold": " leading space and a long enough text that the folded wrapper will fold it\n"}]
litinflow [quote_all] " leading space and a long enough text that the folded wrapper will fold it" => Ok("[' leading space and a long enough text that the folded wrapper will fold it']\n") <= [" leading space and a long enough text that the folded wrapper will fold it"]
litinseqseq [quote_all] " leading space and a long enough text that the folded wrapper will fold it" => Ok("- - |2-\n     leading space and a long enough text that the folded wrapper will fold it\n- - |2-\n     leading space and a long enough text that the folded wrapper will fold it\n") <= [[" leading space and a long enough text that the folded wrapper will fold it"], [" leading space and a long enough text that the folded wrapper will fold it"]]
lit [quote_all] "para one is long enough to be folded somewhere\n\npara two\n  more indented\n" => Ok("|\n  para one is long enough to be folded somewhere\n  \n  para two\n    more indented\n") <= "para one is long enough to be folded somewhere\n\npara two\n  more indented\n"
fold [quote_all] "para one is long enough to be folded somewhere\n\npara two\n  more indented\n" => Ok(">\n  para one is long enough to be folded somewhere\n  \n  para two\n    more indented\n  \n") <= "para one is long enough to be folded somewhere\npara two\n  more indented\n"
litval [quote_all] "para one is long enough to be folded somewhere\n\npara two\n  more indented\n" => Ok("lit: |\n  para one is long enough to be folded somewhere\n  \n  para two\n    more indented\n") <= {"lit": "para one is long enough to be folded somewhere\n\npara two\n  more indented\n"}
foldinseq [quote_all] "para one is long enough to be folded somewhere\n\npara two\n  more indented\n" => Ok("- fold: >\n    para one is long enough to be folded somewhere\n    \n    para two\n      more indented\n    \n") <= [{"fold": "para one is long enough to be folded somewhere\npara two\n  more indented\n"}]
litinflow [quote_all] "para one is long enough to be folded somewhere\n\npara two\n  more indented\n" => Ok("[\"para one is long enough to be folded somewhere\\n\\npara two\\n  more indented\\n\"]\n") <= ["para one is long enough to be folded somewhere\n\npara two\n  more indented\n"]
litinseqseq [quote_all] "para one is long enough to be folded somewhere\n\npara two\n  more indented\n" => Ok("- - |\n    para one is long enough to be folded somewhere\n    \n    para two\n      more indented\n- - |\n    para one is long enough to be folded somewhere\n    \n    para two\n      more indented\n") <= [["para one is long enough to be folded somewhere\n\npara two\n  more indented\n"], ["para one is long enough to be folded somewhere\n\npara two\n  more indented\n"]]
lit [quote_all] "trailing spaces are kept by the folded style                                   " => Ok("|-\n  trailing spaces are kept by the folded style                                   \n") <= "trailing spaces are kept by the folded style                                   "
fold [quote_all] "trailing spaces are kept by the folded style                                   " => Ok(">\n  trailing spaces are kept by the folded style                                   \n") <= "trailing spaces are kept by the folded style                                   \n"
litval [quote_all] "trailing spaces are kept by the folded style                                   " => Ok("lit: |-\n  trailing spaces are kept by the folded style                                   \n") <= {"lit": "trailing spaces are kept by the folded style                                   "}
foldinseq [quote_all] "trailing spaces are kept by the folded style                                   " => Ok("- fold: >\n    trailing spaces are kept by the folded style                                   \n") <= [{"fold": "trailing spaces are kept by the folded style                                   \n"}]
litinflow [quote_all] "trailing spaces are kept by the folded style                                   " => Ok("['trailing spaces are kept by the folded style                                   ']\n") <= ["trailing spaces are kept by the folded style                                   "]
litinseqseq [quote_all] "trailing spaces are kept by the folded style                                   " => Ok("- - |-\n    trailing spaces are kept by the folded style                                   \n- - |-\n    trailing spaces are kept by the folded style                                   \n") <= [["trailing spaces are kept by the folded style                                   "], ["trailing spaces are kept by the folded style                                   "]]
lit [quote_all] "- looks like a list\n- item\n" => Ok("|\n  - looks like a list\n  - item\n") <= "- looks like a list\n- item\n"
fold [quote_all] "- looks like a list\n- item\n" => Ok(">\n  - looks like a list\n  - item\n  \n") <= "- looks like a list - item\n"
litval [quote_all] "- looks like a list\n- item\n" => Ok("lit: |\n  - looks like a list\n  - item\n") <= {"lit": "- looks like a list\n- item\n"}
foldinseq [quote_all] "- looks like a list\n- item\n" => Ok("- fold: >\n    - looks like a list\n    - item\n    \n") <= [{"fold": "- looks like a list - item\n"}]
litinflow [quote_all] "- looks like a list\n- item\n" => Ok("[\"- looks like a list\\n- item\\n\"]\n") <= ["- looks like a list\n- item\n"]
litinseqseq [quote_all] "- looks like a list\n- item\n" => Ok("- - |\n    - looks like a list\n    - item\n- - |\n    - looks like a list\n    - item\n") <= [["- looks like a list\n- item\n"], ["- looks like a list\n- item\n"]]
lit [quote_all] "# looks like a comment\n" => Ok("|\n  # looks like a comment\n") <= "# looks like a comment\n"
fold [quote_all] "# looks like a comment\n" => Ok(">\n  # looks like a comment\n  \n") <= "# looks like a comment\n"
litval [quote_all] "# looks like a comment\n" => Ok("lit: |\n  # looks like a comment\n") <= {"lit": "# looks like a comment\n"}
foldinseq [quote_all] "# looks like a comment\n" => Ok("- fold: >\n    # looks like a comment\n    \n") <= [{"fold": "# looks like a comment\n"}]
litinflow [quote_all] "# looks like a comment\n" => Ok("[\"# looks like a comment\\n\"]\n") <= ["# looks like a comment\n"]
litinseqseq [quote_all] "# looks like a comment\n" => Ok("- - |\n    # looks like a comment\n- - |\n    # looks like a comment\n") <= [["# looks like a comment\n"], ["# looks like a comment\n"]]
lit [quote_all] "key: value\n" => Ok("|\n  key: value\n") <= "key: value\n"
fold [quote_all] "key: value\n" => Ok(">\n  key: value\n  \n") <= "key: value\n"
litval [quote_all] "key: value\n" => Ok("lit: |\n  key: value\n") <= {"lit": "key: value\n"}
foldinseq [quote_all] "key: value\n" => Ok("- fold: >\n    key: value\n    \n") <= [{"fold": "key: value\n"}]
litinflow [quote_all] "key: value\n" => Ok("[\"key: value\\n\"]\n") <= ["key: value\n"]
litinseqseq [quote_all] "key: value\n" => Ok("- - |\n    key: value\n- - |\n    key: value\n") <= [["key: value\n"], ["key: value\n"]]
lit [yaml12] "" => Ok("%YAML 1.2\n---\n|-\n") <= ""
fold [yaml12] "" => Ok("%YAML 1.2\n---\n\"\"\n") <= ""
litval [yaml12] "" => Ok("%YAML 1.2\n---\nlit: |-\n") <= {"lit": ""}
foldinseq [yaml12] "" => Ok("%YAML 1.2\n---\n- fold: \"\"\n") <= [{"fold": ""}]
litinflow [yaml12] "" => Ok("%YAML 1.2\n---\n[\"\"]\n") <= [""]
litinseqseq [yaml12] "" => Ok("%YAML 1.2\n---\n- - |-\n- - |-\n") <= [[""], [""]]
lit [yaml12] "short" => Ok("%YAML 1.2\n---\n|-\n  short\n") <= "short"
fold [yaml12] "short" => Ok("%YAML 1.2\n---\nshort\n") <= "short"
litval [yaml12] "short" => Ok("%YAML 1.2\n---\nlit: |-\n  short\n") <= {"lit": "short"}
foldinseq [yaml12] "short" => Ok("%YAML 1.2\n---\n- fold: short\n") <= [{"fold": "short"}]
litinflow [yaml12] "short" => Ok("%YAML 1.2\n---\n[short]\n") <= ["short"]
litinseqseq [yaml12] "short" => Ok("%YAML 1.2\n---\n- - |-\n    short\n- - |-\n    short\n") <= [["short"], ["short"]]
lit [yaml12] "\n" => Ok("%YAML 1.2\n---\n|\n  \n") <= "\n"
fold [yaml12] "\n" => Ok("%YAML 1.2\n---\n>\n  \n  \n") <= "\n"
litval [yaml12] "\n" => Ok("%YAML 1.2\n---\nlit: |\n  \n") <= {"lit": "\n"}
foldinseq [yaml12] "\n" => Ok("%YAML 1.2\n---\n- fold: >\n    \n    \n") <= [{"fold": "\n"}]
litinflow [yaml12] "\n" => Ok("%YAML 1.2\n---\n[\"\\n\"]\n") <= ["\n"]
litinseqseq [yaml12] "\n" => Ok("%YAML 1.2\n---\n- - |\n    \n- - |\n    \n") <= [[""], ["\n"]]
lit [yaml12] "\n\n" => Ok("%YAML 1.2\n---\n|+\n  \n  \n") <= "\n\n"
fold [yaml12] "\n\n" => Ok("%YAML 1.2\n---\n>\n  \n  \n  \n") <= "\n"
litval [yaml12] "\n\n" => Ok("%YAML 1.2\n---\nlit: |+\n  \n  \n") <= {"lit": "\n\n"}
foldinseq [yaml12] "\n\n" => Ok("%YAML 1.2\n---\n- fold: >\n    \n    \n    \n") <= [{"fold": "\n"}]
litinflow [yaml12] "\n\n" => Ok("%YAML 1.2\n---\n[\"\\n\\n\"]\n") <= ["\n\n"]
litinseqseq [yaml12] "\n\n" => Ok("%YAML 1.2\n---\n- - |+\n    \n    \n- - |+\n    \n    \n") <= [["\n\n"], ["\n\n"]]
lit [yaml12] "a\n" => Ok("%YAML 1.2\n---\n|\n  a\n") <= "a\n"
fold [yaml12] "a\n" => Ok("%YAML 1.2\n---\n>\n  a\n  \n") <= "a\n"
litval [yaml12] "a\n" => Ok("%YAML 1.2\n---\nlit: |\n  a\n") <= {"lit": "a\n"}
foldinseq [yaml12] "a\n" => Ok("%YAML 1.2\n---\n- fold: >\n    a\n    \n") <= [{"fold": "a\n"}]
litinflow [yaml12] "a\n" => Ok("%YAML 1.2\n---\n[\"a\\n\"]\n") <= ["a\n"]
litinseqseq [yaml12] "a\n" => Ok("%YAML 1.2\n---\n- - |\n    a\n- - |\n    a\n") <= [["a\n"], ["a\n"]]
lit [yaml12] "a\n\n" => Ok("%YAML 1.2\n---\n|+\n  a\n  \n") <= "a\n\n"
fold [yaml12] "a\n\n" => Ok("%YAML 1.2\n---\n>\n  a\n  \n  \n") <= "a\n"
litval [yaml12] "a\n\n" => Ok("%YAML 1.2\n---\nlit: |+\n  a\n  \n") <= {"lit": "a\n\n"}
foldinseq [yaml12] "a\n\n" => Ok("%YAML 1.2\n---\n- fold: >\n    a\n    \n    \n") <= [{"fold": "a\n"}]
litinflow [yaml12] "a\n\n" => Ok("%YAML 1.2\n---\n[\"a\\n\\n\"]\n") <= ["a\n\n"]
litinseqseq [yaml12] "a\n\n" => Ok("%YAML 1.2\n---\n- - |+\n    a\n    \n- - |+\n    a\n    \n") <= [["a\n\n"], ["a\n\n"]]
lit [yaml12] "a\n\n\n" => Ok("%YAML 1.2\n---\n|+\n  a\n  \n  \n") <= "a\n\n\n"
fold [yaml12] "a\n\n\n" => Ok("%YAML 1.2\n---\n>\n  a\n  \n  \n  \n") <= "a\n"
litval [yaml12] "a\n\n\n" => Ok("%YAML 1.2\n---\nlit: |+\n  a\n  \n  \n") <= {"lit": "a\n\n\n"}
foldinseq [yaml12] "a\n\n\n" => Ok("%YAML 1.2\n---\n- fold: >\n    a\n    \n    \n    \n") <= [{"fold": "a\n"}]
litinflow [yaml12] "a\n\n\n" => Ok("%YAML 1.2\n---\n[\"a\\n\\n\\n\"]\n") <= ["a\n\n\n"]
litinseqseq [yaml12] "a\n\n\n" => Ok("%YAML 1.2\n---\n- - |+\n    a\n    \n    \n- - |+\n    a\n    \n    \n") <= [["a\n\n\n"], ["a\n\n\n"]]
lit [yaml12] "a\nb" => Ok("%YAML 1.2\n---\n|-\n  a\n  b\n") <= "a\nb"
fold [yaml12] "a\nb" => Ok("%YAML 1.2\n---\n>\n  a\n  b\n") <= "a b\n"
litval [yaml12] "a\nb" => Ok("%YAML 1.2\n---\nlit: |-\n  a\n  b\n") <= {"lit": "a\nb"}
foldinseq [yaml12] "a\nb" => Ok("%YAML 1.2\n---\n- fold: >\n    a\n    b\n") <= [{"fold": "a b\n"}]
litinflow [yaml12] "a\nb" => Ok("%YAML 1.2\n---\n[\"a\\nb\"]\n") <= ["a\nb"]
litinseqseq [yaml12] "a\nb" => Ok("%YAML 1.2\n---\n- - |-\n    a\n    b\n- - |-\n    a\n    b\n") <= [["a\nb"], ["a\nb"]]
lit [yaml12] "  lead\nrest\n" => Ok("%YAML 1.2\n---\n|2\n    lead\n  rest\n") <= "  lead\nrest\n"
fold [yaml12] "  lead\nrest\n" => Ok("%YAML 1.2\n---\n>2\n    lead\n  rest\n  \n") <= "  lead\nrest\n"
litval [yaml12] "  lead\nrest\n" => Ok("%YAML 1.2\n---\nlit: |2\n    lead\n  rest\n") <= {"lit": "  lead\nrest\n"}
foldinseq [yaml12] "  lead\nrest\n" => Ok("%YAML 1.2\n---\n- fold: >2\n      lead\n    rest\n    \n") <= [{"fold": "  lead\nrest\n"}]
litinflow [yaml12] "  lead\nrest\n" => Ok("%YAML 1.2\n---\n[\"  lead\\nrest\\n\"]\n") <= ["  lead\nrest\n"]
litinseqseq [yaml12] "  lead\nrest\n" => Ok("%YAML 1.2\n---\n- - |2\n      lead\n    rest\n- - |2\n      lead\n    rest\n") <= [["  lead\nrest\n"], ["  lead\nrest\n"]]
lit [yaml12] "\n  lead after blank" => Ok("%YAML 1.2\n---\n|2-\n  \n    lead after blank\n") <= "\n  lead after blank"
fold [yaml12] "\n  lead after blank" => Ok("%YAML 1.2\n---\n>2\n  \n    lead after blank\n") <= "\n  lead after blank\n"
litval [yaml12] "\n  lead after blank" => Ok("%YAML 1.2\n---\nlit: |2-\n  \n    lead after blank\n") <= {"lit": "\n  lead after blank"}
foldinseq [yaml12] "\n  lead after blank" => Ok("%YAML 1.2\n---\n- fold: >2\n    \n      lead after blank\n") <= [{"fold": "\n  lead after blank\n"}]
litinflow [yaml12] "\n  lead after blank" => Ok("%YAML 1.2\n---\n[\"\\n  lead after blank\"]\n") <= ["\n  lead after blank"]
litinseqseq [yaml12] "\n  lead after blank" => Ok("%YAML 1.2\n---\n- - |2-\n    \n      lead after blank\n- - |2-\n    \n      lead after blank\n") <= [["\n  lead after blank"], ["\n  lead after blank"]]
lit [yaml12] "cr\rinside\n" => Ok("%YAML 1.2\n---\n\"cr\\rinside\\n\"\n") <= "cr\rinside\n"
fold [yaml12] "cr\rinside\n" => Ok("%YAML 1.2\n---\n\"cr\\rinside\\n\"\n") <= "cr\rinside\n"
litval [yaml12] "cr\rinside\n" => Ok("%YAML 1.2\n---\nlit: \"cr\\rinside\\n\"\n") <= {"lit": "cr\rinside\n"}
foldinseq [yaml12] "cr\rinside\n" => Ok("%YAML 1.2\n---\n- fold: \"cr\\rinside\\n\"\n") <= [{"fold": "cr\rinside\n"}]
litinflow [yaml12] "cr\rinside\n" => Ok("%YAML 1.2\n---\n[\"cr\\rinside\\n\"]\n") <= ["cr\rinside\n"]
litinseqseq [yaml12] "cr\rinside\n" => Ok("%YAML 1.2\n---\n- - \"cr\\rinside\\n\"\n- - \"cr\\rinside\\n\"\n") <= [["cr\rinside\n"], ["cr\rinside\n"]]
lit [yaml12] "tab\tinside\nmore\n" => Ok("%YAML 1.2\n---\n|\n  tab\tinside\n  more\n") <= "tab\tinside\nmore\n"
fold [yaml12] "tab\tinside\nmore\n" => Ok("%YAML 1.2\n---\n>\n  tab\tinside\n  more\n  \n") <= "tab\tinside more\n"
litval [yaml12] "tab\tinside\nmore\n" => Ok("%YAML 1.2\n---\nlit: |\n  tab\tinside\n  more\n") <= {"lit": "tab\tinside\nmore\n"}
foldinseq [yaml12] "tab\tinside\nmore\n" => Ok("%YAML 1.2\n---\n- fold: >\n    tab\tinside\n    more\n    \n") <= [{"fold": "tab\tinside more\n"}]
litinflow [yaml12] "tab\tinside\nmore\n" => Ok("%YAML 1.2\n---\n[\"tab\\tinside\\nmore\\n\"]\n") <= ["tab\tinside\nmore\n"]
litinseqseq [yaml12] "tab\tinside\nmore\n" => Ok("%YAML 1.2\n---\n- - |\n    tab\tinside\n    more\n- - |\n    tab\tinside\n    more\n") <= [["tab\tinside\nmore\n"], ["tab\tinside\nmore\n"]]
lit [yaml12] "bell\u{7}\n" => Ok("%YAML 1.2\n---\n\"bell\\a\\n\"\n") <= "bell\u{7}\n"
fold [yaml12] "bell\u{7}\n" => Ok("%YAML 1.2\n---\n\"bell\\a\\n\"\n") <= "bell\u{7}\n"
litval [yaml12] "bell\u{7}\n" => Ok("%YAML 1.2\n---\nlit: \"bell\\a\\n\"\n") <= {"lit": "bell\u{7}\n"}
foldinseq [yaml12] "bell\u{7}\n" => Ok("%YAML 1.2\n---\n- fold: \"bell\\a\\n\"\n") <= [{"fold": "bell\u{7}\n"}]
litinflow [yaml12] "bell\u{7}\n" => Ok("%YAML 1.2\n---\n[\"bell\\a\\n\"]\n") <= ["bell\u{7}\n"]
litinseqseq [yaml12] "bell\u{7}\n" => Ok("%YAML 1.2\n---\n- - \"bell\\a\\n\"\n- - \"bell\\a\\n\"\n") <= [["bell\u{7}\n"], ["bell\u{7}\n"]]
lit [yaml12] "nel\u{85}inside the long enough text to be folded by the wrapper type\n" => Ok("%YAML 1.2\n---\n\"nel\\Ninside the long enough text to be folded by the wrapper type\\n\"\n") <= "nel\u{85}inside the long enough text to be folded by the wrapper type\n"
fold [yaml12] "nel\u{85}inside the long enough text to be folded by the wrapper type\n" => Ok("%YAML 1.2\n---\n\"nel\\Ninside the long enough text to be folded by the wrapper type\\n\"\n") <= "nel\u{85}inside the long enough text to be folded by the wrapper type\n"
litval [yaml12] "nel\u{85}inside the long enough text to be folded by the wrapper type\n" => Ok("%YAML 1.2\n---\nlit: \"nel\\Ninside the long enough text to be folded by the wrapper type\\n\"\n") <= {"lit": "nel\u{85}inside the long enough text to be folded by the wrapper type\n"}
foldinseq [yaml12] "nel\u{85}inside the long enough text to be folded by the wrapper type\n" => Ok("%YAML 1.2\n---\n- fold: \"nel\\Ninside the long enough text to be folded by the wrapper type\\n\"\n") <= [{"fold": "nel\u{85}inside the long enough text to be folded by the wrapper type\n"}]
litinflow [yaml12] "nel\u{85}inside the long enough text to be folded by the wrapper type\n" => Ok("%YAML 1.2\n---\n[\"nel\\Ninside the long enough text to be folded by the wrapper type\\n\"]\n") <= ["nel\u{85}inside the long enough text to be folded by the wrapper type\n"]
litinseqseq [yaml12] "nel\u{85}inside the long enough text to be folded by the wrapper type\n" => Ok("%YAML 1.2\n---\n- - \"nel\\Ninside the long enough text to be folded by the wrapper type\\n\"\n- - \"nel\\Ninside the long enough text to be folded by the wrapper type\\n\"\n") <= [["nel\u{85}inside the long enough text to be folded by the wrapper type\n"], ["nel\u{85}inside the long enough text to be folded by the wrapper type\n"]]
lit [yaml12] "a long enough text that the folded wrapper will really fold it at a space" => Ok("%YAML 1.2\n---\n|-\n  a long enough text that the folded wrapper will really fold it at a space\n") <= "a long enough text that the folded wrapper will really fold it at a space"
fold [yaml12] "a long enough text that the folded wrapper will really fold it at a space" => Ok("%YAML 1.2\n---\n>\n  a long enough text that the folded wrapper will really fold it at a space\n") <= "a long enough text that the folded wrapper will really fold it at a space\n"
litval [yaml12] "a long enough text that the folded wrapper will really fold it at a space" => Ok("%YAML 1.2\n---\nlit: |-\n  a long enough text that the folded wrapper will really fold it at a space\n") <= {"lit": "a long enough text that the folded wrapper will really fold it at a space"}
foldinseq [yaml12] "a long enough text that the folded wrapper will really fold it at a space" => Ok("%YAML 1.2\n---\n- fold: >\n    a long enough text that the folded wrapper will really fold it at a space\n") <= [{"fold": "a long enough text that the folded wrapper will really fold it at a space\n"}]
litinflow [yaml12] "a long enough text that the folded wrapper will really fold it at a space" => Ok("%YAML 1.2\n---\n[a long enough text that the folded wrapper will really fold it at a space]\n") <= ["a long enough text that the folded wrapper will really fold it at a space"]
litinseqseq [yaml12] "a long enough text that the folded wrapper will really fold it at a space" => Ok("%YAML 1.2\n---\n- - |-\n    a long enough text that the folded wrapper will really fold it at a space\n- - |-\n    a long enough text that the folded wrapper will really fold it at a space\n") <= [["a long enough text that the folded wrapper will really fold it at a space"], ["a long enough text that the folded wrapper will really fold it at a space"]]
lit [yaml12] "a long enough text   with runs  of spaces that the folded wrapper will fold" => Ok("%YAML 1.2\n---\n|-\n  a long enough text   with runs  of spaces that the folded wrapper will fold\n") <= "a long enough text   with runs  of spaces that the folded wrapper will fold"
fold [yaml12] "a long enough text   with runs  of spaces that the folded wrapper will fold" => Ok("%YAML 1.2\n---\n>\n  a long enough text   with runs  of spaces that the folded wrapper will fold\n") <= "a long enough text   with runs  of spaces that the folded wrapper will fold\n"
litval [yaml12] "a long enough text   with runs  of spaces that the folded wrapper will fold" => Ok("%YAML 1.2\n---\nlit: |-\n  a long enough text   with runs  of spaces that the folded wrapper will fold\n") <= {"lit": "a long enough text   with runs  of spaces that the folded wrapper will fold"}
foldinseq [yaml12] "a long enough text   with runs  of spaces that the folded wrapper will fold" => Ok("%YAML 1.2\n---\n- fold: >\n    a long enough text   with runs  of spaces that the folded wrapper will fold\n") <= [{"fold": "a long enough text   with runs  of spaces that the folded wrapper will fold\n"}]
litinflow [yaml12] "a long enough text   with runs  of spaces that the folded wrapper will fold" => Ok("%YAML 1.2\n---\n[a long enough text   with runs  of spaces that the folded wrapper will fold]\n") <= ["a long enough text   with runs  of spaces that the folded wrapper will fold"]
litinseqseq [yaml12] "a long enough text   with runs  of spaces that the folded wrapper will fold" => Ok("%YAML 1.2\n---\n- - |-\n    a long enough text   with runs  of spaces that the folded wrapper will fold\n- - |-\n    a long enough text   with runs  of spaces that the folded wrapper will fold\n") <= [["a long enough text   with runs  of spaces that the folded wrapper will fold"], ["a long enough text   with runs  of spaces that the folded wrapper will fold"]]
lit [yaml12] " leading space and a long enough text that the folded wrapper will fold it" => Ok("%YAML 1.2\n---\n|2-\n   leading space and a long enough text that the folded wrapper will fold it\n") <= " leading space and a long enough text that the folded wrapper will fold it"
fold [yaml12] " leading space and a long enough text that the folded wrapper will fold it" => Ok("%YAML 1.2\n---\n>2\n   leading space and a long enough text that the folded wrapper will fold it\n") <= " leading space and a long enough text that the folded wrapper will fold it\n"
litval [yaml12] " leading space and a long enough text that the folded wrapper will fold it" => Ok("%YAML 1.2\n---\nlit: |2-\n   leading space and a long enough text that the folded wrapper will fold it\n") <= {"lit": " leading space and a long enough text that the folded wrapper will fold it"}
foldinseq [yaml12] " leading space and a long enough text that the folded wrapper will fold it" => Ok("%YAML 1.2\n---\n- fold: >2\n     leading space and a long enough text that the folded wrapper will fold it\n") <= [{"fold": " leading space and a long enough text that the folded wrapper will fold it\n"}]
litinflow [yaml12] " leading space and a long enough text that the folded wrapper will fold it" => Ok("%YAML 1.2\n---\n[\" leading space and a long enough text that the folded wrapper will fold it\"]\n") <= [" leading space and a long enough text that the folded wrapper will fold it"]
litinseqseq [yaml12] " leading space and a long enough text that the folded wrapper will fold it" => Ok("%YAML 1.2\n---\n- - |2-\n     leading space and a long enough text that the folded wrapper will fold it\n- - |2-\n     leading space and a long enough text that the folded wrapper will fold it\n") <= [[" leading space and a long enough text that the folded wrapper will fold it"], [" leading space and a long enough text that the folded wrapper will fold it"]]
lit [yaml12] "para one is long enough to be folded somewhere\n\npara two\n  more indented\n" => Ok("%YAML 1.2\n---\n|\n  para one is long enough to be folded somewhere\n  \n  para two\n    more indented\n") <= "para one is long enough to be folded somewhere\n\npara two\n  more indented\n"
fold [yaml12] "para one is long enough to be folded somewhere\n\npara two\n  more indented\n" => Ok("%YAML 1.2\n---\n>\n  para one is long enough to be folded somewhere\n  \n  para two\n    more indented\n  \n") <= "para one is long enough to be folded somewhere\npara two\n  more indented\n"
litval [yaml12] "para one is long enough to be folded somewhere\n\npara two\n  more indented\n" => Ok("%YAML 1.2\n---\nlit: |\n  para one is long enough to be folded somewhere\n  \n  para two\n    more indented\n") <= {"lit": "para one is long enough to be folded somewhere\n\npara two\n  more indented\n"}
foldinseq [yaml12] "para one is long enough to be folded somewhere\n\npara two\n  more indented\n" => Ok("%YAML 1.2\n---\n- fold: >\n    para one is long enough to be folded somewhere\n    \n    para two\n      more indented\n    \n") <= [{"fold": "para one is long enough to be folded somewhere\npara two\n  more indented\n"}]
litinflow [yaml12] "para one is long enough to be folded somewhere\n\npara two\n  more indented\n" => Ok("%YAML 1.2\n---\n[\"para one is long enough to be folded somewhere\\n\\npara two\\n  more indented\\n\"]\n") <= ["para one is long enough to be folded somewhere\n\npara two\n  more indented\n"]
litinseqseq [yaml12] "para one is long enough to be folded somewhere\n\npara two\n  more indented\n" => Ok("%YAML 1.2\n---\n- - |\n    para one is long enough to be folded somewhere\n    \n    para two\n      more indented\n- - |\n    para one is long enough to be folded somewhere\n    \n    para two\n      more indented\n") <= [["para one is long enough to be folded somewhere\n\npara two\n  more indented\n"], ["para one is long enough to be folded somewhere\n\npara two\n  more indented\n"]]
lit [yaml12] "trailing spaces are kept by the folded style                                   " => Ok("%YAML 1.2\n---\n|-\n  trailing spaces are kept by the folded style                                   \n") <= "trailing spaces are kept by the folded style                                   "
fold [yaml12] "trailing spaces are kept by the folded style                                   " => Ok("%YAML 1.2\n---\n>\n  trailing spaces are kept by the folded style                                   \n") <= "trailing spaces are kept by the folded style                                   \n"
litval [yaml12] "trailing spaces are kept by the folded style                                   " => Ok("%YAML 1.2\n---\nlit: |-\n  trailing spaces are kept by the folded style                                   \n") <= {"lit": "trailing spaces are kept by the folded style                                   "}
foldinseq [yaml12] "trailing spaces are kept by the folded style                                   " => Ok("%YAML 1.2\n---\n- fold: >\n    trailing spaces are kept by the folded style                                   \n") <= [{"fold": "trailing spaces are kept by the folded style                                   \n"}]
litinflow [yaml12] "trailing spaces are kept by the folded style                                   " => Ok("%YAML 1.2\n---\n[\"trailing spaces are kept by the folded style                                   \"]\n") <= ["trailing spaces are kept by the folded style                                   "]
litinseqseq [yaml12] "trailing spaces are kept by the folded style                                   " => Ok("%YAML 1.2\n---\n- - |-\n    trailing spaces are kept by the folded style                                   \n- - |-\n    trailing spaces are kept by the folded style                                   \n") <= [["trailing spaces are kept by the folded style                                   "], ["trailing spaces are kept by the folded style                                   "]]
lit [yaml12] "- looks like a list\n- item\n" => Ok("%YAML 1.2\n---\n|\n  - looks like a list\n  - item\n") <= "- looks like a list\n- item\n"
fold [yaml12] "- looks like a list\n- item\n" => Ok("%YAML 1.2\n---\n>\n  - looks like a list\n  - item\n  \n") <= "- looks like a list - item\n"
litval [yaml12] "- looks like a list\n- item\n" => Ok("%YAML 1.2\n---\nlit: |\n  - looks like a list\n  - item\n") <= {"lit": "- looks like a list\n- item\n"}
foldinseq [yaml12] "- looks like a list\n- item\n" => Ok("%YAML 1.2\n---\n- fold: >\n    - looks like a list\n    - item\n    \n") <= [{"fold": "- looks like a list - item\n"}]
litinflow [yaml12] "- looks like a list\n- item\n" => Ok("%YAML 1.2\n---\n[\"- looks like a list\\n- item\\n\"]\n") <= ["- looks like a list\n- item\n"]
litinseqseq [yaml12] "- looks like a list\n- item\n" => Ok("%YAML 1.2\n---\n- - |\n    - looks like a list\n    - item\n- - |\n    - looks like a list\n    - item\n") <= [["- looks like a list\n- item\n"], ["- looks like a list\n- item\n"]]
lit [yaml12] "# looks like a comment\n" => Ok("%YAML 1.2\n---\n|\n  # looks like a comment\n") <= "# looks like a comment\n"
fold [yaml12] "# looks like a comment\n" => Ok("%YAML 1.2\n---\n>\n  # looks like a comment\n  \n") <= "# looks like a comment\n"
litval [yaml12] "# looks like a comment\n" => Ok("%YAML 1.2\n---\nlit: |\n  # looks like a comment\n") <= {"lit": "# looks like a comment\n"}
foldinseq [yaml12] "# looks like a comment\n" => Ok("%YAML 1.2\n---\n- fold: >\n    # looks like a comment\n    \n") <= [{"fold": "# looks like a comment\n"}]
litinflow [yaml12] "# looks like a comment\n" => Ok("%YAML 1.2\n---\n[\"# looks like a comment\\n\"]\n") <= ["# looks like a comment\n"]
litinseqseq [yaml12] "# looks like a comment\n" => Ok("%YAML 1.2\n---\n- - |\n    # looks like a comment\n- - |\n    # looks like a comment\n") <= [["# looks like a comment\n"], ["# looks like a comment\n"]]
lit [yaml12] "key: value\n" => Ok("%YAML 1.2\n---\n|\n  key: value\n") <= "key: value\n"
fold [yaml12] "key: value\n" => Ok("%YAML 1.2\n---\n>\n  key: value\n  \n") <= "key: value\n"
litval [yaml12] "key: value\n" => Ok("%YAML 1.2\n---\nlit: |\n  key: value\n") <= {"lit": "key: value\n"}
foldinseq [yaml12] "key: value\n" => Ok("%YAML 1.2\n---\n- fold: >\n    key: value\n    \n") <= [{"fold": "key: value\n"}]
litinflow [yaml12] "key: value\n" => Ok("%YAML 1.2\n---\n[\"key: value\\n\"]\n") <= ["key: value\n"]
litinseqseq [yaml12] "key: value\n" => Ok("%YAML 1.2\n---\n- - |\n    key: value\n- - |\n    key: value\n") <= [["key: value\n"], ["key: value\n"]]
lit [noblock] "" => Ok("|-\n") <= ""
fold [noblock] "" => Ok("\"\"\n") <= ""
litval [noblock] "" => Ok("lit: |-\n") <= {"lit": ""}
foldinseq [noblock] "" => Ok("- fold: \"\"\n") <= [{"fold": ""}]
litinflow [noblock] "" => Ok("[\"\"]\n") <= [""]
litinseqseq [noblock] "" => Ok("- - |-\n- - |-\n") <= [[""], [""]]
lit [noblock] "short" => Ok("|-\n  short\n") <= "short"
fold [noblock] "short" => Ok("short\n") <= "short"
litval [noblock] "short" => Ok("lit: |-\n  short\n") <= {"lit": "short"}
foldinseq [noblock] "short" => Ok("- fold: short\n") <= [{"fold": "short"}]
litinflow [noblock] "short" => Ok("[short]\n") <= ["short"]
litinseqseq [noblock] "short" => Ok("- - |-\n    short\n- - |-\n    short\n") <= [["short"], ["short"]]
lit [noblock] "\n" => Ok("|\n  \n") <= "\n"
fold [noblock] "\n" => Ok(">\n  \n  \n") <= "\n"
litval [noblock] "\n" => Ok("lit: |\n  \n") <= {"lit": "\n"}
foldinseq [noblock] "\n" => Ok("- fold: >\n    \n    \n") <= [{"fold": "\n"}]
litinflow [noblock] "\n" => Ok("[\"\\n\"]\n") <= ["\n"]
litinseqseq [noblock] "\n" => Ok("- - |\n    \n- - |\n    \n") <= [[""], ["\n"]]
lit [noblock] "\n\n" => Ok("|+\n  \n  \n") <= "\n\n"
fold [noblock] "\n\n" => Ok(">\n  \n  \n  \n") <= "\n"
litval [noblock] "\n\n" => Ok("lit: |+\n  \n  \n") <= {"lit": "\n\n"}
foldinseq [noblock] "\n\n" => Ok("- fold: >\n    \n    \n    \n") <= [{"fold": "\n"}]
litinflow [noblock] "\n\n" => Ok("[\"\\n\\n\"]\n") <= ["\n\n"]
litinseqseq [noblock] "\n\n" => Ok("- - |+\n    \n    \n- - |+\n    \n    \n") <= [["\n\n"], ["\n\n"]]
lit [noblock] "a\n" => Ok("|\n  a\n") <= "a\n"
fold [noblock] "a\n" => Ok(">\n  a\n  \n") <= "a\n"
litval [noblock] "a\n" => Ok("lit: |\n  a\n") <= {"lit": "a\n"}
foldinseq [noblock] "a\n" => Ok("- fold: >\n    a\n    \n") <= [{"fold": "a\n"}]
litinflow [noblock] "a\n" => Ok("[\"a\\n\"]\n") <= ["a\n"]
litinseqseq [noblock] "a\n" => Ok("- - |\n    a\n- - |\n    a\n") <= [["a\n"], ["a\n"]]
lit [noblock] "a\n\n" => Ok("|+\n  a\n  \n") <= "a\n\n"
fold [noblock] "a\n\n" => Ok(">\n  a\n  \n  \n") <= "a\n"
litval [noblock] "a\n\n" => Ok("lit: |+\n  a\n  \n") <= {"lit": "a\n\n"}
foldinseq [noblock] "a\n\n" => Ok("- fold: >\n    a\n    \n    \n") <= [{"fold": "a\n"}]
litinflow [noblock] "a\n\n" => Ok("[\"a\\n\\n\"]\n") <= ["a\n\n"]
litinseqseq [noblock] "a\n\n" => Ok("- - |+\n    a\n    \n- - |+\n    a\n    \n") <= [["a\n\n"], ["a\n\n"]]
lit [noblock] "a\n\n\n" => Ok("|+\n  a\n  \n  \n") <= "a\n\n\n"
fold [noblock] "a\n\n\n" => Ok(">\n  a\n  \n  \n  \n") <= "a\n"
litval [noblock] "a\n\n\n" => Ok("lit: |+\n  a\n  \n  \n") <= {"lit": "a\n\n\n"}
foldinseq [noblock] "a\n\n\n" => Ok("- fold: >\n    a\n    \n    \n    \n") <= [{"fold": "a\n"}]
litinflow [noblock] "a\n\n\n" => Ok("[\"a\\n\\n\\n\"]\n") <= ["a\n\n\n"]
litinseqseq [noblock] "a\n\n\n" => Ok("- - |+\n    a\n    \n    \n- - |+\n    a\n    \n    \n") <= [["a\n\n\n"], ["a\n\n\n"]]
lit [noblock] "a\nb" => Ok("|-\n  a\n  b\n") <= "a\nb"
fold [noblock] "a\nb" => Ok(">\n  a\n  b\n") <= "a b\n"
litval [noblock] "a\nb" => Ok("lit: |-\n  a\n  b\n") <= {"lit": "a\nb"}
foldinseq [noblock] "a\nb" => Ok("- fold: >\n    a\n    b\n") <= [{"fold": "a b\n"}]
litinflow [noblock] "a\nb" => Ok("[\"a\\nb\"]\n") <= ["a\nb"]
litinseqseq [noblock] "a\nb" => Ok("- - |-\n    a\n    b\n- - |-\n    a\n    b\n") <= [["a\nb"], ["a\nb"]]
lit [noblock] "  lead\nrest\n" => Ok("|2\n    lead\n  rest\n") <= "  lead\nrest\n"
fold [noblock] "  lead\nrest\n" => Ok(">2\n    lead\n  rest\n  \n") <= "  lead\nrest\n"
litval [noblock] "  lead\nrest\n" => Ok("lit: |2\n    lead\n  rest\n") <= {"lit": "  lead\nrest\n"}
foldinseq [noblock] "  lead\nrest\n" => Ok("- fold: >2\n      lead\n    rest\n    \n") <= [{"fold": "  lead\nrest\n"}]
litinflow [noblock] "  lead\nrest\n" => Ok("[\"  lead\\nrest\\n\"]\n") <= ["  lead\nrest\n"]
litinseqseq [noblock] "  lead\nrest\n" => Ok("- - |2\n      lead\n    rest\n- - |2\n      lead\n    rest\n") <= [["  lead\nrest\n"], ["  lead\nrest\n"]]
lit [noblock] "\n  lead after blank" => Ok("|2-\n  \n    lead after blank\n") <= "\n  lead after blank"
fold [noblock] "\n  lead after blank" => Ok(">2\n  \n    lead after blank\n") <= "\n  lead after blank\n"
litval [noblock] "\n  lead after blank" => Ok("lit: |2-\n  \n    lead after blank\n") <= {"lit": "\n  lead after blank"}
foldinseq [noblock] "\n  lead after blank" => Ok("- fold: >2\n    \n      lead after blank\n") <= [{"fold": "\n  lead after blank\n"}]
litinflow [noblock] "\n  lead after blank" => Ok("[\"\\n  lead after blank\"]\n") <= ["\n  lead after blank"]
litinseqseq [noblock] "\n  lead after blank" => Ok("- - |2-\n    \n      lead after blank\n- - |2-\n    \n      lead after blank\n") <= [["\n  lead after blank"], ["\n  lead after blank"]]
lit [noblock] "cr\rinside\n" => Ok("\"cr\\rinside\\n\"\n") <= "cr\rinside\n"
fold [noblock] "cr\rinside\n" => Ok("\"cr\\rinside\\n\"\n") <= "cr\rinside\n"
litval [noblock] "cr\rinside\n" => Ok("lit: \"cr\\rinside\\n\"\n") <= {"lit": "cr\rinside\n"}
foldinseq [noblock] "cr\rinside\n" => Ok("- fold: \"cr\\rinside\\n\"\n") <= [{"fold": "cr\rinside\n"}]
litinflow [noblock] "cr\rinside\n" => Ok("[\"cr\\rinside\\n\"]\n") <= ["cr\rinside\n"]
litinseqseq [noblock] "cr\rinside\n" => Ok("- - \"cr\\rinside\\n\"\n- - \"cr\\rinside\\n\"\n") <= [["cr\rinside\n"], ["cr\rinside\n"]]
lit [noblock] "tab\tinside\nmore\n" => Ok("|\n  tab\tinside\n  more\n") <= "tab\tinside\nmore\n"
fold [noblock] "tab\tinside\nmore\n" => Ok(">\n  tab\tinside\n  more\n  \n") <= "tab\tinside more\n"
litval [noblock] "tab\tinside\nmore\n" => Ok("lit: |\n  tab\tinside\n  more\n") <= {"lit": "tab\tinside\nmore\n"}
foldinseq [noblock] "tab\tinside\nmore\n" => Ok("- fold: >\n    tab\tinside\n    more\n    \n") <= [{"fold": "tab\tinside more\n"}]
litinflow [noblock] "tab\tinside\nmore\n" => Ok("[\"tab\\tinside\\nmore\\n\"]\n") <= ["tab\tinside\nmore\n"]
litinseqseq [noblock] "tab\tinside\nmore\n" => Ok("- - |\n    tab\tinside\n    more\n- - |\n    tab\tinside\n    more\n") <= [["tab\tinside\nmore\n"], ["tab\tinside\nmore\n"]]
lit [noblock] "bell\u{7}\n" => Ok("\"bell\\a\\n\"\n") <= "bell\u{7}\n"
fold [noblock] "bell\u{7}\n" => Ok("\"bell\\a\\n\"\n") <= "bell\u{7}\n"
litval [noblock] "bell\u{7}\n" => Ok("lit: \"bell\\a\\n\"\n") <= {"lit": "bell\u{7}\n"}
foldinseq [noblock] "bell\u{7}\n" => Ok("- fold: \"bell\\a\\n\"\n") <= [{"fold": "bell\u{7}\n"}]
litinflow [noblock] "bell\u{7}\n" => Ok("[\"bell\\a\\n\"]\n") <= ["bell\u{7}\n"]
litinseqseq [noblock] "bell\u{7}\n" => Ok("- - \"bell\\a\\n\"\n- - \"bell\\a\\n\"\n") <= [["bell\u{7}\n"], ["bell\u{7}\n"]]
lit [noblock] "nel\u{85}inside the long enough text to be folded by the wrapper type\n" => Ok("\"nel\\Ninside the long enough text to be folded by the wrapper type\\n\"\n") <= "nel\u{85}inside the long enough text to be folded by the wrapper type\n"
fold [noblock] "nel\u{85}inside the long enough text to be folded by the wrapper type\n" => Ok("\"nel\\Ninside the long enough text to be folded by the wrapper type\\n\"\n") <= "nel\u{85}inside the long enough text to be folded by the wrapper type\n"
litval [noblock] "nel\u{85}inside the long enough text to be folded by the wrapper type\n" => Ok("lit: \"nel\\Ninside the long enough text to be folded by the wrapper type\\n\"\n") <= {"lit": "nel\u{85}inside the long enough text to be folded by the wrapper type\n"}
foldinseq [noblock] "nel\u{85}inside the long enough text to be folded by the wrapper type\n" => Ok("- fold: \"nel\\Ninside the long enough text to be folded by the wrapper type\\n\"\n") <= [{"fold": "nel\u{85}inside the long enough text to be folded by the wrapper type\n"}]
litinflow [noblock] "nel\u{85}inside the long enough text to be folded by the wrapper type\n" => Ok("[\"nel\\Ninside the long enough text to be folded by the wrapper type\\n\"]\n") <= ["nel\u{85}inside the long enough text to be folded by the wrapper type\n"]
litinseqseq [noblock] "nel\u{85}inside the long enough text to be folded by the wrapper type\n" => Ok("- - \"nel\\Ninside the long enough text to be folded by the wrapper type\\n\"\n- - \"nel\\Ninside the long enough text to be folded by the wrapper type\\n\"\n") <= [["nel\u{85}inside the long enough text to be folded by the wrapper type\n"], ["nel\u{85}inside the long enough text to be folded by the wrapper type\n"]]
lit [noblock] "a long enough text that the folded wrapper will really fold it at a space" => Ok("|-\n  a long enough text that the folded wrapper will really fold it at a space\n") <= "a long enough text that the folded wrapper will really fold it at a space"
fold [noblock] "a long enough text that the folded wrapper will really fold it at a space" => Ok(">\n  a long enough text that the folded wrapper will really fold it at a space\n") <= "a long enough text that the folded wrapper will really fold it at a space\n"
litval [noblock] "a long enough text that the folded wrapper will really fold it at a space" => Ok("lit: |-\n  a long enough text that the folded wrapper will really fold it at a space\n") <= {"lit": "a long enough text that the folded wrapper will really fold it at a space"}
foldinseq [noblock] "a long enough text that the folded wrapper will really fold it at a space" => Ok("- fold: >\n    a long enough text that the folded wrapper will really fold it at a space\n") <= [{"fold": "a long enough text that the folded wrapper will really fold it at a space\n"}]
litinflow [noblock] "a long enough text that the folded wrapper will really fold it at a space" => Ok("[a long enough text that the folded wrapper will really fold it at a space]\n") <= ["a long enough text that the folded wrapper will really fold it at a space"]
litinseqseq [noblock] "a long enough text that the folded wrapper will really fold it at a space" => Ok("- - |-\n    a long enough text that the folded wrapper will really fold it at a space\n- - |-\n    a long enough text that the folded wrapper will really fold it at a space\n") <= [["a long enough text that the folded wrapper will really fold it at a space"], ["a long enough text that the folded wrapper will really fold it at a space"]]
lit [noblock] "a long enough text   with runs  of spaces that the folded wrapper will fold" => Ok("|-\n  a long enough text   with runs  of spaces that the folded wrapper will fold\n") <= "a long enough text   with runs  of spaces that the folded wrapper will fold"
fold [noblock] "a long enough text   with runs  of spaces that the folded wrapper will fold" => Ok(">\n  a long enough text   with runs  of spaces that the folded wrapper will fold\n") <= "a long enough text   with runs  of spaces that the folded wrapper will fold\n"
litval [noblock] "a long enough text   with runs  of spaces that the folded wrapper will fold" => Ok("lit: |-\n  a long enough text   with runs  of spaces that the folded wrapper will fold\n") <= {"lit": "a long enough text   with runs  of spaces that the folded wrapper will fold"}
foldinseq [noblock] "a long enough text   with runs  of spaces that the folded wrapper will fold" => Ok("- fold: >\n    a long enough text   with runs  of spaces that the folded wrapper will fold\n") <= [{"fold": "a long enough text   with runs  of spaces that the folded wrapper will fold\n"}]
litinflow [noblock] "a long enough text   with runs  of spaces that the folded wrapper will fold" => Ok("[a long enough text   with runs  of spaces that the folded wrapper will fold]\n") <= ["a long enough text   with runs  of spaces that the folded wrapper will fold"]
litinseqseq [noblock] "a long enough text   with runs  of spaces that the folded wrapper will fold" => Ok("- - |-\n    a long enough text   with runs  of spaces that the folded wrapper will fold\n- - |-\n    a long enough text   with runs  of spaces that the folded wrapper will fold\n") <= [["a long enough text   with runs  of spaces that the folded wrapper will fold"], ["a long enough text   with runs  of spaces that the folded wrapper will fold"]]
lit [noblock] " leading space and a long enough text that the folded wrapper will fold it" => Ok("|2-\n   leading space and a long enough text that the folded wrapper will fold it\n") <= " leading space and a long enough text that the folded wrapper will fold it"
fold [noblock] " leading space and a long enough text that the folded wrapper will fold it" => Ok(">2\n   leading space and a long enough text that the folded wrapper will fold it\n") <= " leading space and a long enough text that the folded wrapper will fold it\n"
litval [noblock] " leading space and a long enough text that the folded wrapper will fold it" => Ok("lit: |2-\n   leading space and a long enough text that the folded wrapper will fold it\n") <= {"lit": " leading space and a long enough text that the folded wrapper will fold it"}
foldinseq [noblock] " leading space and a long enough text that the folded wrapper will fold it" => Ok("- fold: >2\n     leading space and a long enough text that the folded wrapper will fold it\n") <= [{"fold": " leading space and a long enough text that the folded wrapper will fold it\n"}]
litinflow [noblock] " leading space and a long enough text that the folded wrapper will fold it" => Ok("[\" leading space and a long enough text that the folded wrapper will fold it\"]\n") <= [" leading space and a long enough text that the folded wrapper will fold it"]
litinseqseq [noblock] " leading space and a long enough text that the folded wrapper will fold it" => Ok("- - |2-\n     leading space and a long enough text that the folded wrapper will fold it\n- - |2-\n     leading space and a long enough text that the folded wrapper will fold it\n") <= [[" leading space and a long enough text that the folded wrapper will fold it"], [" leading space and a long enough text that the folded wrapper will fold it"]]
lit [noblock] "para one is long enough to be folded somewhere\n\npara two\n  more indented\n" => Ok("|\n  para one is long enough to be folded somewhere\n  \n  para two\n    more indented\n") <= "para one is long enough to be folded somewhere\n\npara two\n  more indented\n"
fold [noblock] "para one is long enough to be folded somewhere\n\npara two\n  more indented\n" => Ok(">\n  para one is long enough to be folded somewhere\n  \n  para two\n    more indented\n  \n") <= "para one is long enough to be folded somewhere\npara two\n  more indented\n"
litval [noblock] "para one is long enough to be folded somewhere\n\npara two\n  more indented\n" => Ok("lit: |\n  para one is long enough to be folded somewhere\n  \n  para two\n    more indented\n") <= {"lit": "para one is long enough to be folded somewhere\n\npara two\n  more indented\n"}
foldinseq [noblock] "para one is long enough to be folded somewhere\n\npara two\n  more indented\n" => Ok("- fold: >\n    para one is long enough to be folded somewhere\n    \n    para two\n      more indented\n    \n") <= [{"fold": "para one is long enough to be folded somewhere\npara two\n  more indented\n"}]
litinflow [noblock] "para one is long enough to be folded somewhere\n\npara two\n  more indented\n" => Ok("[\"para one is long enough to be folded somewhere\\n\\npara two\\n  more indented\\n\"]\n") <= ["para one is long enough to be folded somewhere\n\npara two\n  more indented\n"]
litinseqseq [noblock] "para one is long enough to be folded somewhere\n\npara two\n  more indented\n" => Ok("- - |\n    para one is long enough to be folded somewhere\n    \n    para two\n      more indented\n- - |\n    para one is long enough to be folded somewhere\n    \n    para two\n      more indented\n") <= [["para one is long enough to be folded somewhere\n\npara two\n  more indented\n"], ["para one is long enough to be folded somewhere\n\npara two\n  more indented\n"]]
lit [noblock] "trailing spaces are kept by the folded style                                   " => Ok("|-\n  trailing spaces are kept by the folded style                                   \n") <= "trailing spaces are kept by the folded style                                   "
fold [noblock] "trailing spaces are kept by the folded style                                   " => Ok(">\n  trailing spaces are kept by the folded style                                   \n") <= "trailing spaces are kept by the folded style                                   \n"
litval [noblock] "trailing spaces are kept by the folded style                                   " => Ok("lit: |-\n  trailing spaces are kept by the folded style                                   \n") <= {"lit": "trailing spaces are kept by the folded style                                   "}
foldinseq [noblock] "trailing spaces are kept by the folded style                                   " => Ok("- fold: >\n    trailing spaces are kept by the folded style                                   \n") <= [{"fold": "trailing spaces are kept by the folded style                                   \n"}]
litinflow [noblock] "trailing spaces are kept by the folded style                                   " => Ok("[\"trailing spaces are kept by the folded style                                   \"]\n") <= ["trailing spaces are kept by the folded style                                   "]
litinseqseq [noblock] "trailing spaces are kept by the folded style                                   " => Ok("- - |-\n    trailing spaces are kept by the folded style                                   \n- - |-\n    trailing spaces are kept by the folded style                                   \n") <= [["trailing spaces are kept by the folded style                                   "], ["trailing spaces are kept by the folded style                                   "]]
lit [noblock] "- looks like a list\n- item\n" => Ok("|\n  - looks like a list\n  - item\n") <= "- looks like a list\n- item\n"
fold [noblock] "- looks like a list\n- item\n" => Ok(">\n  - looks like a list\n  - item\n  \n") <= "- looks like a list - item\n"
litval [noblock] "- looks like a list\n- item\n" => Ok("lit: |\n  - looks like a list\n  - item\n") <= {"lit": "- looks like a list\n- item\n"}
foldinseq [noblock] "- looks like a list\n- item\n" => Ok("- fold: >\n    - looks like a list\n    - item\n    \n") <= [{"fold": "- looks like a list - item\n"}]
litinflow [noblock] "- looks like a list\n- item\n" => Ok("[\"- looks like a list\\n- item\\n\"]\n") <= ["- looks like a list\n- item\n"]
litinseqseq [noblock] "- looks like a list\n- item\n" => Ok("- - |\n    - looks like a list\n    - item\n- - |\n    - looks like a list\n    - item\n") <= [["- looks like a list\n- item\n"], ["- looks like a list\n- item\n"]]
lit [noblock] "# looks like a comment\n" => Ok("|\n  # looks like a comment\n") <= "# looks like a comment\n"
fold [noblock] "# looks like a comment\n" => Ok(">\n  # looks like a comment\n  \n") <= "# looks like a comment\n"
litval [noblock] "# looks like a comment\n" => Ok("lit: |\n  # looks like a comment\n") <= {"lit": "# looks like a comment\n"}
foldinseq [noblock] "# looks like a comment\n" => Ok("- fold: >\n    # looks like a comment\n    \n") <= [{"fold": "# looks like a comment\n"}]
litinflow [noblock] "# looks like a comment\n" => Ok("[\"# looks like a comment\\n\"]\n") <= ["# looks like a comment\n"]
litinseqseq [noblock] "# looks like a comment\n" => Ok("- - |\n    # looks like a comment\n- - |\n    # looks like a comment\n") <= [["# looks like a comment\n"], ["# looks like a comment\n"]]
lit [noblock] "key: value\n" => Ok("|\n  key: value\n") <= "key: value\n"
fold [noblock] "key: value\n" => Ok(">\n  key: value\n  \n") <= "key: value\n"
litval [noblock] "key: value\n" => Ok("lit: |\n  key: value\n") <= {"lit": "key: value\n"}
foldinseq [noblock] "key: value\n" => Ok("- fold: >\n    key: value\n    \n") <= [{"fold": "key: value\n"}]
litinflow [noblock] "key: value\n" => Ok("[\"key: value\\n\"]\n") <= ["key: value\n"]
litinseqseq [noblock] "key: value\n" => Ok("- - |\n    key: value\n- - |\n    key: value\n") <= [["key: value\n"], ["key: value\n"]]
lit [indent4] "" => Ok("|-\n") <= ""
fold [indent4] "" => Ok("\"\"\n") <= ""
litval [indent4] "" => Ok("lit: |-\n") <= {"lit": ""}
foldinseq [indent4] "" => Ok("- fold: \"\"\n") <= [{"fold": ""}]
litinflow [indent4] "" => Ok("[\"\"]\n") <= [""]
litinseqseq [indent4] "" => Ok("- - |-\n- - |-\n") <= [[""], [""]]
lit [indent4] "short" => Ok("|-\n    short\n") <= "short"
fold [indent4] "short" => Ok("short\n") <= "short"
litval [indent4] "short" => Ok("lit: |-\n    short\n") <= {"lit": "short"}
foldinseq [indent4] "short" => Ok("- fold: short\n") <= [{"fold": "short"}]
litinflow [indent4] "short" => Ok("[short]\n") <= ["short"]
litinseqseq [indent4] "short" => Ok("- - |-\n        short\n- - |-\n        short\n") <= [["short"], ["short"]]
lit [indent4] "\n" => Ok("|\n    \n") <= "\n"
fold [indent4] "\n" => Ok(">\n    \n    \n") <= "\n"
litval [indent4] "\n" => Ok("lit: |\n    \n") <= {"lit": "\n"}
foldinseq [indent4] "\n" => Ok("- fold: >\n        \n        \n") <= [{"fold": "\n"}]
litinflow [indent4] "\n" => Ok("[\"\\n\"]\n") <= ["\n"]
litinseqseq [indent4] "\n" => Ok("- - |\n        \n- - |\n        \n") <= [[""], ["\n"]]
lit [indent4] "\n\n" => Ok("|+\n    \n    \n") <= "\n\n"
fold [indent4] "\n\n" => Ok(">\n    \n    \n    \n") <= "\n"
litval [indent4] "\n\n" => Ok("lit: |+\n    \n    \n") <= {"lit": "\n\n"}
foldinseq [indent4] "\n\n" => Ok("- fold: >\n        \n        \n        \n") <= [{"fold": "\n"}]
litinflow [indent4] "\n\n" => Ok("[\"\\n\\n\"]\n") <= ["\n\n"]
litinseqseq [indent4] "\n\n" => Ok("- - |+\n        \n        \n- - |+\n        \n        \n") <= [["\n\n"], ["\n\n"]]
lit [indent4] "a\n" => Ok("|\n    a\n") <= "a\n"
fold [indent4] "a\n" => Ok(">\n    a\n    \n") <= "a\n"
litval [indent4] "a\n" => Ok("lit: |\n    a\n") <= {"lit": "a\n"}
foldinseq [indent4] "a\n" => Ok("- fold: >\n        a\n        \n") <= [{"fold": "a\n"}]
litinflow [indent4] "a\n" => Ok("[\"a\\n\"]\n") <= ["a\n"]
litinseqseq [indent4] "a\n" => Ok("- - |\n        a\n- - |\n        a\n") <= [["a\n"], ["a\n"]]
lit [indent4] "a\n\n" => Ok("|+\n    a\n    \n") <= "a\n\n"
fold [indent4] "a\n\n" => Ok(">\n    a\n    \n    \n") <= "a\n"
litval [indent4] "a\n\n" => Ok("lit: |+\n    a\n    \n") <= {"lit": "a\n\n"}
foldinseq [indent4] "a\n\n" => Ok("- fold: >\n        a\n        \n        \n") <= [{"fold": "a\n"}]
litinflow [indent4] "a\n\n" => Ok("[\"a\\n\\n\"]\n") <= ["a\n\n"]
litinseqseq [indent4] "a\n\n" => Ok("- - |+\n        a\n        \n- - |+\n        a\n        \n") <= [["a\n\n"], ["a\n\n"]]
lit [indent4] "a\n\n\n" => Ok("|+\n    a\n    \n    \n") <= "a\n\n\n"
fold [indent4] "a\n\n\n" => Ok(">\n    a\n    \n    \n    \n") <= "a\n"
litval [indent4] "a\n\n\n" => Ok("lit: |+\n    a\n    \n    \n") <= {"lit": "a\n\n\n"}
foldinseq [indent4] "a\n\n\n" => Ok("- fold: >\n        a\n        \n        \n        \n") <= [{"fold": "a\n"}]
litinflow [indent4] "a\n\n\n" => Ok("[\"a\\n\\n\\n\"]\n") <= ["a\n\n\n"]
litinseqseq [indent4] "a\n\n\n" => Ok("- - |+\n        a\n        \n        \n- - |+\n        a\n        \n        \n") <= [["a\n\n\n"], ["a\n\n\n"]]
lit [indent4] "a\nb" => Ok("|-\n    a\n    b\n") <= "a\nb"
fold [indent4] "a\nb" => Ok(">\n    a\n    b\n") <= "a b\n"
litval [indent4] "a\nb" => Ok("lit: |-\n    a\n    b\n") <= {"lit": "a\nb"}
foldinseq [indent4] "a\nb" => Ok("- fold: >\n        a\n        b\n") <= [{"fold": "a b\n"}]
litinflow [indent4] "a\nb" => Ok("[\"a\\nb\"]\n") <= ["a\nb"]
litinseqseq [indent4] "a\nb" => Ok("- - |-\n        a\n        b\n- - |-\n        a\n        b\n") <= [["a\nb"], ["a\nb"]]
lit [indent4] "  lead\nrest\n" => Ok("\"  lead\\nrest\\n\"\n") <= "  lead\nrest\n"
fold [indent4] "  lead\nrest\n" => Ok("\"  lead\\nrest\\n\"\n") <= "  lead\nrest\n"
litval [indent4] "  lead\nrest\n" => Ok("lit: \"  lead\\nrest\\n\"\n") <= {"lit": "  lead\nrest\n"}
foldinseq [indent4] "  lead\nrest\n" => Ok("- fold: \"  lead\\nrest\\n\"\n") <= [{"fold": "  lead\nrest\n"}]
litinflow [indent4] "  lead\nrest\n" => Ok("[\"  lead\\nrest\\n\"]\n") <= ["  lead\nrest\n"]
litinseqseq [indent4] "  lead\nrest\n" => Ok("- - \"  lead\\nrest\\n\"\n- - \"  lead\\nrest\\n\"\n") <= [["  lead\nrest\n"], ["  lead\nrest\n"]]
lit [indent4] "\n  lead after blank" => Ok("\"\\n  lead after blank\"\n") <= "\n  lead after blank"
fold [indent4] "\n  lead after blank" => Ok("\"\\n  lead after blank\"\n") <= "\n  lead after blank"
litval [indent4] "\n  lead after blank" => Ok("lit: \"\\n  lead after blank\"\n") <= {"lit": "\n  lead after blank"}
foldinseq [indent4] "\n  lead after blank" => Ok("- fold: \"\\n  lead after blank\"\n") <= [{"fold": "\n  lead after blank"}]
litinflow [indent4] "\n  lead after blank" => Ok("[\"\\n  lead after blank\"]\n") <= ["\n  lead after blank"]
litinseqseq [indent4] "\n  lead after blank" => Ok("- - \"\\n  lead after blank\"\n- - \"\\n  lead after blank\"\n") <= [["\n  lead after blank"], ["\n  lead after blank"]]
lit [indent4] "cr\rinside\n" => Ok("\"cr\\rinside\\n\"\n") <= "cr\rinside\n"
fold [indent4] "cr\rinside\n" => Ok("\"cr\\rinside\\n\"\n") <= "cr\rinside\n"
litval [indent4] "cr\rinside\n" => Ok("lit: \"cr\\rinside\\n\"\n") <= {"lit": "cr\rinside\n"}
foldinseq [indent4] "cr\rinside\n" => Ok("- fold: \"cr\\rinside\\n\"\n") <= [{"fold": "cr\rinside\n"}]
litinflow [indent4] "cr\rinside\n" => Ok("[\"cr\\rinside\\n\"]\n") <= ["cr\rinside\n"]
litinseqseq [indent4] "cr\rinside\n" => Ok("- - \"cr\\rinside\\n\"\n- - \"cr\\rinside\\n\"\n") <= [["cr\rinside\n"], ["cr\rinside\n"]]
lit [indent4] "tab\tinside\nmore\n" => Ok("|\n    tab\tinside\n    more\n") <= "tab\tinside\nmore\n"
fold [indent4] "tab\tinside\nmore\n" => Ok(">\n    tab\tinside\n    more\n    \n") <= "tab\tinside more\n"
litval [indent4] "tab\tinside\nmore\n" => Ok("lit: |\n    tab\tinside\n    more\n") <= {"lit": "tab\tinside\nmore\n"}
foldinseq [indent4] "tab\tinside\nmore\n" => Ok("- fold: >\n        tab\tinside\n        more\n        \n") <= [{"fold": "tab\tinside more\n"}]
litinflow [indent4] "tab\tinside\nmore\n" => Ok("[\"tab\\tinside\\nmore\\n\"]\n") <= ["tab\tinside\nmore\n"]
litinseqseq [indent4] "tab\tinside\nmore\n" => Ok("- - |\n        tab\tinside\n        more\n- - |\n        tab\tinside\n        more\n") <= [["tab\tinside\nmore\n"], ["tab\tinside\nmore\n"]]
lit [indent4] "bell\u{7}\n" => Ok("\"bell\\a\\n\"\n") <= "bell\u{7}\n"
fold [indent4] "bell\u{7}\n" => Ok("\"bell\\a\\n\"\n") <= "bell\u{7}\n"
litval [indent4] "bell\u{7}\n" => Ok("lit: \"bell\\a\\n\"\n") <= {"lit": "bell\u{7}\n"}
foldinseq [indent4] "bell\u{7}\n" => Ok("- fold: \"bell\\a\\n\"\n") <= [{"fold": "bell\u{7}\n"}]
litinflow [indent4] "bell\u{7}\n" => Ok("[\"bell\\a\\n\"]\n") <= ["bell\u{7}\n"]
litinseqseq [indent4] "bell\u{7}\n" => Ok("- - \"bell\\a\\n\"\n- - \"bell\\a\\n\"\n") <= [["bell\u{7}\n"], ["bell\u{7}\n"]]
lit [indent4] "nel\u{85}inside the long enough text to be folded by the wrapper type\n" => Ok("\"nel\\Ninside the long enough text to be folded by the wrapper type\\n\"\n") <= "nel\u{85}inside the long enough text to be folded by the wrapper type\n"
fold [indent4] "nel\u{85}inside the long enough text to be folded by the wrapper type\n" => Ok("\"nel\\Ninside the long enough text to be folded by the wrapper type\\n\"\n") <= "nel\u{85}inside the long enough text to be folded by the wrapper type\n"
litval [indent4] "nel\u{85}inside the long enough text to be folded by the wrapper type\n" => Ok("lit: \"nel\\Ninside the long enough text to be folded by the wrapper type\\n\"\n") <= {"lit": "nel\u{85}inside the long enough text to be folded by the wrapper type\n"}
foldinseq [indent4] "nel\u{85}inside the long enough text to be folded by the wrapper type\n" => Ok("- fold: \"nel\\Ninside the long enough text to be folded by the wrapper type\\n\"\n") <= [{"fold": "nel\u{85}inside the long enough text to be folded by the wrapper type\n"}]
litinflow [indent4] "nel\u{85}inside the long enough text to be folded by the wrapper type\n" => Ok("[\"nel\\Ninside the long enough text to be folded by the wrapper type\\n\"]\n") <= ["nel\u{85}inside the long enough text to be folded by the wrapper type\n"]
litinseqseq [indent4] "nel\u{85}inside the long enough text to be folded by the wrapper type\n" => Ok("- - \"nel\\Ninside the long enough text to be folded by the wrapper type\\n\"\n- - \"nel\\Ninside the long enough text to be folded by the wrapper type\\n\"\n") <= [["nel\u{85}inside the long enough text to be folded by the wrapper type\n"], ["nel\u{85}inside the long enough text to be folded by the wrapper type\n"]]
lit [indent4] "a long enough text that the folded wrapper will really fold it at a space" => Ok("|-\n    a long enough text that the folded wrapper will really fold it at a space\n") <= "a long enough text that the folded wrapper will really fold it at a space"
fold [indent4] "a long enough text that the folded wrapper will really fold it at a space" => Ok(">\n    a long enough text that the folded wrapper will really fold it at a space\n") <= "a long enough text that the folded wrapper will really fold it at a space\n"
litval [indent4] "a long enough text that the folded wrapper will really fold it at a space" => Ok("lit: |-\n    a long enough text that the folded wrapper will really fold it at a space\n") <= {"lit": "a long enough text that the folded wrapper will really fold it at a space"}
foldinseq [indent4] "a long enough text that the folded wrapper will really fold it at a space" => Ok("- fold: >\n        a long enough text that the folded wrapper will really fold it at a space\n") <= [{"fold": "a long enough text that the folded wrapper will really fold it at a space\n"}]
litinflow [indent4] "a long enough text that the folded wrapper will really fold it at a space" => Ok("[a long enough text that the folded wrapper will really fold it at a space]\n") <= ["a long enough text that the folded wrapper will really fold it at a space"]
litinseqseq [indent4] "a long enough text that the folded wrapper will really fold it at a space" => Ok("- - |-\n        a long enough text that the folded wrapper will really fold it at a space\n- - |-\n        a long enough text that the folded wrapper will really fold it at a space\n") <= [["a long enough text that the folded wrapper will really fold it at a space"], ["a long enough text that the folded wrapper will really fold it at a space"]]
lit [indent4] "a long enough text   with runs  of spaces that the folded wrapper will fold" => Ok("|-\n    a long enough text   with runs  of spaces that the folded wrapper will fold\n") <= "a long enough text   with runs  of spaces that the folded wrapper will fold"
fold [indent4] "a long enough text   with runs  of spaces that the folded wrapper will fold" => Ok(">\n    a long enough text   with runs  of spaces that the folded wrapper will fold\n") <= "a long enough text   with runs  of spaces that the folded wrapper will fold\n"
litval [indent4] "a long enough text   with runs  of spaces that the folded wrapper will fold" => Ok("lit: |-\n    a long enough text   with runs  of spaces that the folded wrapper will fold\n") <= {"lit": "a long enough text   with runs  of spaces that the folded wrapper will fold"}
foldinseq [indent4] "a long enough text   with runs  of spaces that the folded wrapper will fold" => Ok("- fold: >\n        a long enough text   with runs  of spaces that the folded wrapper will fold\n") <= [{"fold": "a long enough text   with runs  of spaces that the folded wrapper will fold\n"}]
litinflow [indent4] "a long enough text   with runs  of spaces that the folded wrapper will fold" => Ok("[a long enough text   with runs  of spaces that the folded wrapper will fold]\n") <= ["a long enough text   with runs  of spaces that the folded wrapper will fold"]
litinseqseq [indent4] "a long enough text   with runs  of spaces that the folded wrapper will fold" => Ok("- - |-\n        a long enough text   with runs  of spaces that the folded wrapper will fold\n- - |-\n        a long enough text   with runs  of spaces that the folded wrapper will fold\n") <= [["a long enough text   with runs  of spaces that the folded wrapper will fold"], ["a long enough text   with runs  of spaces that the folded wrapper will fold"]]
lit [indent4] " leading space and a long enough text that the folded wrapper will fold it" => Ok("\" leading space and a long enough text that the folded wrapper will fold it\"\n") <= " leading space and a long enough text that the folded wrapper will fold it"
fold [indent4] " leading space and a long enough text that the folded wrapper will fold it" => Ok("\" leading space and a long enough text that the folded wrapper will fold it\"\n") <= " leading space and a long enough text that the folded wrapper will fold it"
litval [indent4] " leading space and a long enough text that the folded wrapper will fold it" => Ok("lit: \" leading space and a long enough text that the folded wrapper will fold it\"\n") <= {"lit": " leading space and a long enough text that the folded wrapper will fold it"}
foldinseq [indent4] " leading space and a long enough text that the folded wrapper will fold it" => Ok("- fold: \" leading space and a long enough text that the folded wrapper will fold it\"\n") <= [{"fold": " leading space and a long enough text that the folded wrapper will fold it"}]
litinflow [indent4] " leading space and a long enough text that the folded wrapper will fold it" => Ok("[\" leading space and a long enough text that the folded wrapper will fold it\"]\n") <= [" leading space and a long enough text that the folded wrapper will fold it"]
litinseqseq [indent4] " leading space and a long enough text that the folded wrapper will fold it" => Ok("- - \" leading space and a long enough text that the folded wrapper will fold it\"\n- - \" leading space and a long enough text that the folded wrapper will fold it\"\n") <= [[" leading space and a long enough text that the folded wrapper will fold it"], [" leading space and a long enough text that the folded wrapper will fold it"]]
lit [indent4] "para one is long enough to be folded somewhere\n\npara two\n  more indented\n" => Ok("|\n    para one is long enough to be folded somewhere\n    \n    para two\n      more indented\n") <= "para one is long enough to be folded somewhere\n\npara two\n  more indented\n"
fold [indent4] "para one is long enough to be folded somewhere\n\npara two\n  more indented\n" => Ok(">\n    para one is long enough to be folded somewhere\n    \n    para two\n      more indented\n    \n") <= "para one is long enough to be folded somewhere\npara two\n  more indented\n"
litval [indent4] "para one is long enough to be folded somewhere\n\npara two\n  more indented\n" => Ok("lit: |\n    para one is long enough to be folded somewhere\n    \n    para two\n      more indented\n") <= {"lit": "para one is long enough to be folded somewhere\n\npara two\n  more indented\n"}
foldinseq [indent4] "para one is long enough to be folded somewhere\n\npara two\n  more indented\n" => Ok("- fold: >\n        para one is long enough to be folded somewhere\n        \n        para two\n          more indented\n        \n") <= [{"fold": "para one is long enough to be folded somewhere\npara two\n  more indented\n"}]
litinflow [indent4] "para one is long enough to be folded somewhere\n\npara two\n  more indented\n" => Ok("[\"para one is long enough to be folded somewhere\\n\\npara two\\n  more indented\\n\"]\n") <= ["para one is long enough to be folded somewhere\n\npara two\n  more indented\n"]
litinseqseq [indent4] "para one is long enough to be folded somewhere\n\npara two\n  more indented\n" => Ok("- - |\n        para one is long enough to be folded somewhere\n        \n        para two\n          more indented\n- - |\n        para one is long enough to be folded somewhere\n        \n        para two\n          more indented\n") <= [["para one is long enough to be folded somewhere\n\npara two\n  more indented\n"], ["para one is long enough to be folded somewhere\n\npara two\n  more indented\n"]]
lit [indent4] "trailing spaces are kept by the folded style                                   " => Ok("|-\n    trailing spaces are kept by the folded style                                   \n") <= "trailing spaces are kept by the folded style                                   "
fold [indent4] "trailing spaces are kept by the folded style                                   " => Ok(">\n    trailing spaces are kept by the folded style                                   \n") <= "trailing spaces are kept by the folded style                                   \n"
litval [indent4] "trailing spaces are kept by the folded style                                   " => Ok("lit: |-\n    trailing spaces are kept by the folded style                                   \n") <= {"lit": "trailing spaces are kept by the folded style                                   "}
foldinseq [indent4] "trailing spaces are kept by the folded style                                   " => Ok("- fold: >\n        trailing spaces are kept by the folded style                                   \n") <= [{"fold": "trailing spaces are kept by the folded style                                   \n"}]
litinflow [indent4] "trailing spaces are kept by the folded style                                   " => Ok("[\"trailing spaces are kept by the folded style                                   \"]\n") <= ["trailing spaces are kept by the folded style                                   "]
litinseqseq [indent4] "trailing spaces are kept by the folded style                                   " => Ok("- - |-\n        trailing spaces are kept by the folded style                                   \n- - |-\n        trailing spaces are kept by the folded style                                   \n") <= [["trailing spaces are kept by the folded style                                   "], ["trailing spaces are kept by the folded style                                   "]]
lit [indent4] "- looks like a list\n- item\n" => Ok("|\n    - looks like a list\n    - item\n") <= "- looks like a list\n- item\n"
fold [indent4] "- looks like a list\n- item\n" => Ok(">\n    - looks like a list\n    - item\n    \n") <= "- looks like a list - item\n"
litval [indent4] "- looks like a list\n- item\n" => Ok("lit: |\n    - looks like a list\n    - item\n") <= {"lit": "- looks like a list\n- item\n"}
foldinseq [indent4] "- looks like a list\n- item\n" => Ok("- fold: >\n        - looks like a list\n        - item\n        \n") <= [{"fold": "- looks like a list - item\n"}]
litinflow [indent4] "- looks like a list\n- item\n" => Ok("[\"- looks like a list\\n- item\\n\"]\n") <= ["- looks like a list\n- item\n"]
litinseqseq [indent4] "- looks like a list\n- item\n" => Ok("- - |\n        - looks like a list\n        - item\n- - |\n        - looks like a list\n        - item\n") <= [["- looks like a list\n- item\n"], ["- looks like a list\n- item\n"]]
lit [indent4] "# looks like a comment\n" => Ok("|\n    # looks like a comment\n") <= "# looks like a comment\n"
fold [indent4] "# looks like a comment\n" => Ok(">\n    # looks like a comment\n    \n") <= "# looks like a comment\n"
litval [indent4] "# looks like a comment\n" => Ok("lit: |\n    # looks like a comment\n") <= {"lit": "# looks like a comment\n"}
foldinseq [indent4] "# looks like a comment\n" => Ok("- fold: >\n        # looks like a comment\n        \n") <= [{"fold": "# looks like a comment\n"}]
litinflow [indent4] "# looks like a comment\n" => Ok("[\"# looks like a comment\\n\"]\n") <= ["# looks like a comment\n"]
litinseqseq [indent4] "# looks like a comment\n" => Ok("- - |\n        # looks like a comment\n- - |\n        # looks like a comment\n") <= [["# looks like a comment\n"], ["# looks like a comment\n"]]
lit [indent4] "key: value\n" => Ok("|\n    key: value\n") <= "key: value\n"
fold [indent4] "key: value\n" => Ok(">\n    key: value\n    \n") <= "key: value\n"
litval [indent4] "key: value\n" => Ok("lit: |\n    key: value\n") <= {"lit": "key: value\n"}
foldinseq [indent4] "key: value\n" => Ok("- fold: >\n        key: value\n        \n") <= [{"fold": "key: value\n"}]
litinflow [indent4] "key: value\n" => Ok("[\"key: value\\n\"]\n") <= ["key: value\n"]
litinseqseq [indent4] "key: value\n" => Ok("- - |\n        key: value\n- - |\n        key: value\n") <= [["key: value\n"], ["key: value\n"]]
lit [wrap12] "" => Ok("|-\n") <= ""
fold [wrap12] "" => Ok("\"\"\n") <= ""
litval [wrap12] "" => Ok("lit: |-\n") <= {"lit": ""}
foldinseq [wrap12] "" => Ok("- fold: \"\"\n") <= [{"fold": ""}]
litinflow [wrap12] "" => Ok("[\"\"]\n") <= [""]
litinseqseq [wrap12] "" => Ok("- - |-\n- - |-\n") <= [[""], [""]]
lit [wrap12] "short" => Ok("|-\n  short\n") <= "short"
fold [wrap12] "short" => Ok(">\n  short\n") <= "short\n"
litval [wrap12] "short" => Ok("lit: |-\n  short\n") <= {"lit": "short"}
foldinseq [wrap12] "short" => Ok("- fold: >\n    short\n") <= [{"fold": "short\n"}]
litinflow [wrap12] "short" => Ok("[short]\n") <= ["short"]
litinseqseq [wrap12] "short" => Ok("- - |-\n    short\n- - |-\n    short\n") <= [["short"], ["short"]]
lit [wrap12] "\n" => Ok("|\n  \n") <= "\n"
fold [wrap12] "\n" => Ok(">\n  \n  \n") <= "\n"
litval [wrap12] "\n" => Ok("lit: |\n  \n") <= {"lit": "\n"}
foldinseq [wrap12] "\n" => Ok("- fold: >\n    \n    \n") <= [{"fold": "\n"}]
litinflow [wrap12] "\n" => Ok("[\"\\n\"]\n") <= ["\n"]
litinseqseq [wrap12] "\n" => Ok("- - |\n    \n- - |\n    \n") <= [[""], ["\n"]]
lit [wrap12] "\n\n" => Ok("|+\n  \n  \n") <= "\n\n"
fold [wrap12] "\n\n" => Ok(">\n  \n  \n  \n") <= "\n"
litval [wrap12] "\n\n" => Ok("lit: |+\n  \n  \n") <= {"lit": "\n\n"}
foldinseq [wrap12] "\n\n" => Ok("- fold: >\n    \n    \n    \n") <= [{"fold": "\n"}]
litinflow [wrap12] "\n\n" => Ok("[\"\\n\\n\"]\n") <= ["\n\n"]
litinseqseq [wrap12] "\n\n" => Ok("- - |+\n    \n    \n- - |+\n    \n    \n") <= [["\n\n"], ["\n\n"]]
lit [wrap12] "a\n" => Ok("|\n  a\n") <= "a\n"
fold [wrap12] "a\n" => Ok(">\n  a\n  \n") <= "a\n"
litval [wrap12] "a\n" => Ok("lit: |\n  a\n") <= {"lit": "a\n"}
foldinseq [wrap12] "a\n" => Ok("- fold: >\n    a\n    \n") <= [{"fold": "a\n"}]
litinflow [wrap12] "a\n" => Ok("[\"a\\n\"]\n") <= ["a\n"]
litinseqseq [wrap12] "a\n" => Ok("- - |\n    a\n- - |\n    a\n") <= [["a\n"], ["a\n"]]
lit [wrap12] "a\n\n" => Ok("|+\n  a\n  \n") <= "a\n\n"
fold [wrap12] "a\n\n" => Ok(">\n  a\n  \n  \n") <= "a\n"
litval [wrap12] "a\n\n" => Ok("lit: |+\n  a\n  \n") <= {"lit": "a\n\n"}
foldinseq [wrap12] "a\n\n" => Ok("- fold: >\n    a\n    \n    \n") <= [{"fold": "a\n"}]
litinflow [wrap12] "a\n\n" => Ok("[\"a\\n\\n\"]\n") <= ["a\n\n"]
litinseqseq [wrap12] "a\n\n" => Ok("- - |+\n    a\n    \n- - |+\n    a\n    \n") <= [["a\n\n"], ["a\n\n"]]
lit [wrap12] "a\n\n\n" => Ok("|+\n  a\n  \n  \n") <= "a\n\n\n"
fold [wrap12] "a\n\n\n" => Ok(">\n  a\n  \n  \n  \n") <= "a\n"
litval [wrap12] "a\n\n\n" => Ok("lit: |+\n  a\n  \n  \n") <= {"lit": "a\n\n\n"}
foldinseq [wrap12] "a\n\n\n" => Ok("- fold: >\n    a\n    \n    \n    \n") <= [{"fold": "a\n"}]
litinflow [wrap12] "a\n\n\n" => Ok("[\"a\\n\\n\\n\"]\n") <= ["a\n\n\n"]
litinseqseq [wrap12] "a\n\n\n" => Ok("- - |+\n    a\n    \n    \n- - |+\n    a\n    \n    \n") <= [["a\n\n\n"], ["a\n\n\n"]]
lit [wrap12] "a\nb" => Ok("|-\n  a\n  b\n") <= "a\nb"
fold [wrap12] "a\nb" => Ok(">\n  a\n  b\n") <= "a b\n"
litval [wrap12] "a\nb" => Ok("lit: |-\n  a\n  b\n") <= {"lit": "a\nb"}
foldinseq [wrap12] "a\nb" => Ok("- fold: >\n    a\n    b\n") <= [{"fold": "a b\n"}]
litinflow [wrap12] "a\nb" => Ok("[\"a\\nb\"]\n") <= ["a\nb"]
litinseqseq [wrap12] "a\nb" => Ok("- - |-\n    a\n    b\n- - |-\n    a\n    b\n") <= [["a\nb"], ["a\nb"]]
lit [wrap12] "  lead\nrest\n" => Ok("|2\n    lead\n  rest\n") <= "  lead\nrest\n"
fold [wrap12] "  lead\nrest\n" => Ok(">2\n    lead\n  rest\n  \n") <= "  lead\nrest\n"
litval [wrap12] "  lead\nrest\n" => Ok("lit: |2\n    lead\n  rest\n") <= {"lit": "  lead\nrest\n"}
foldinseq [wrap12] "  lead\nrest\n" => Ok("- fold: >2\n      lead\n    rest\n    \n") <= [{"fold": "  lead\nrest\n"}]
litinflow [wrap12] "  lead\nrest\n" => Ok("[\"  lead\\nrest\\n\"]\n") <= ["  lead\nrest\n"]
litinseqseq [wrap12] "  lead\nrest\n" => Ok("- - |2\n      lead\n    rest\n- - |2\n      lead\n    rest\n") <= [["  lead\nrest\n"], ["  lead\nrest\n"]]
lit [wrap12] "\n  lead after blank" => Ok("|2-\n  \n    lead after blank\n") <= "\n  lead after blank"
fold [wrap12] "\n  lead after blank" => Ok(">2\n  \n    lead after blank\n") <= "\n  lead after blank\n"
litval [wrap12] "\n  lead after blank" => Ok("lit: |2-\n  \n    lead after blank\n") <= {"lit": "\n  lead after blank"}
foldinseq [wrap12] "\n  lead after blank" => Ok("- fold: >2\n    \n      lead after blank\n") <= [{"fold": "\n  lead after blank\n"}]
litinflow [wrap12] "\n  lead after blank" => Ok("[\"\\n  lead after blank\"]\n") <= ["\n  lead after blank"]
litinseqseq [wrap12] "\n  lead after blank" => Ok("- - |2-\n    \n      lead after blank\n- - |2-\n    \n      lead after blank\n") <= [["\n  lead after blank"], ["\n  lead after blank"]]
lit [wrap12] "cr\rinside\n" => Ok("\"cr\\rinside\\n\"\n") <= "cr\rinside\n"
fold [wrap12] "cr\rinside\n" => Ok("\"cr\\rinside\\n\"\n") <= "cr\rinside\n"
litval [wrap12] "cr\rinside\n" => Ok("lit: \"cr\\rinside\\n\"\n") <= {"lit": "cr\rinside\n"}
foldinseq [wrap12] "cr\rinside\n" => Ok("- fold: \"cr\\rinside\\n\"\n") <= [{"fold": "cr\rinside\n"}]
litinflow [wrap12] "cr\rinside\n" => Ok("[\"cr\\rinside\\n\"]\n") <= ["cr\rinside\n"]
litinseqseq [wrap12] "cr\rinside\n" => Ok("- - \"cr\\rinside\\n\"\n- - \"cr\\rinside\\n\"\n") <= [["cr\rinside\n"], ["cr\rinside\n"]]
lit [wrap12] "tab\tinside\nmore\n" => Ok("|\n  tab\tinside\n  more\n") <= "tab\tinside\nmore\n"
fold [wrap12] "tab\tinside\nmore\n" => Ok(">\n  tab\tinside\n  more\n  \n") <= "tab\tinside more\n"
litval [wrap12] "tab\tinside\nmore\n" => Ok("lit: |\n  tab\tinside\n  more\n") <= {"lit": "tab\tinside\nmore\n"}
foldinseq [wrap12] "tab\tinside\nmore\n" => Ok("- fold: >\n    tab\tinside\n    more\n    \n") <= [{"fold": "tab\tinside more\n"}]
litinflow [wrap12] "tab\tinside\nmore\n" => Ok("[\"tab\\tinside\\nmore\\n\"]\n") <= ["tab\tinside\nmore\n"]
litinseqseq [wrap12] "tab\tinside\nmore\n" => Ok("- - |\n    tab\tinside\n    more\n- - |\n    tab\tinside\n    more\n") <= [["tab\tinside\nmore\n"], ["tab\tinside\nmore\n"]]
lit [wrap12] "bell\u{7}\n" => Ok("\"bell\\a\\n\"\n") <= "bell\u{7}\n"
fold [wrap12] "bell\u{7}\n" => Ok("\"bell\\a\\n\"\n") <= "bell\u{7}\n"
litval [wrap12] "bell\u{7}\n" => Ok("lit: \"bell\\a\\n\"\n") <= {"lit": "bell\u{7}\n"}
foldinseq [wrap12] "bell\u{7}\n" => Ok("- fold: \"bell\\a\\n\"\n") <= [{"fold": "bell\u{7}\n"}]
litinflow [wrap12] "bell\u{7}\n" => Ok("[\"bell\\a\\n\"]\n") <= ["bell\u{7}\n"]
litinseqseq [wrap12] "bell\u{7}\n" => Ok("- - \"bell\\a\\n\"\n- - \"bell\\a\\n\"\n") <= [["bell\u{7}\n"], ["bell\u{7}\n"]]
lit [wrap12] "nel\u{85}inside the long enough text to be folded by the wrapper type\n" => Ok("\"nel\\Ninside the long enough text to be folded by the wrapper type\\n\"\n") <= "nel\u{85}inside the long enough text to be folded by the wrapper type\n"
fold [wrap12] "nel\u{85}inside the long enough text to be folded by the wrapper type\n" => Ok("\"nel\\Ninside the long enough text to be folded by the wrapper type\\n\"\n") <= "nel\u{85}inside the long enough text to be folded by the wrapper type\n"
litval [wrap12] "nel\u{85}inside the long enough text to be folded by the wrapper type\n" => Ok("lit: \"nel\\Ninside the long enough text to be folded by the wrapper type\\n\"\n") <= {"lit": "nel\u{85}inside the long enough text to be folded by the wrapper type\n"}
foldinseq [wrap12] "nel\u{85}inside the long enough text to be folded by the wrapper type\n" => Ok("- fold: \"nel\\Ninside the long enough text to be folded by the wrapper type\\n\"\n") <= [{"fold": "nel\u{85}inside the long enough text to be folded by the wrapper type\n"}]
litinflow [wrap12] "nel\u{85}inside the long enough text to be folded by the wrapper type\n" => Ok("[\"nel\\Ninside the long enough text to be folded by the wrapper type\\n\"]\n") <= ["nel\u{85}inside the long enough text to be folded by the wrapper type\n"]
litinseqseq [wrap12] "nel\u{85}inside the long enough text to be folded by the wrapper type\n" => Ok("- - \"nel\\Ninside the long enough text to be folded by the wrapper type\\n\"\n- - \"nel\\Ninside the long enough text to be folded by the wrapper type\\n\"\n") <= [["nel\u{85}inside the long enough text to be folded by the wrapper type\n"], ["nel\u{85}inside the long enough text to be folded by the wrapper type\n"]]
lit [wrap12] "a long enough text that the folded wrapper will really fold it at a space" => Ok("|-\n  a long enough text that the folded wrapper will really fold it at a space\n") <= "a long enough text that the folded wrapper will really fold it at a space"
fold [wrap12] "a long enough text that the folded wrapper will really fold it at a space" => Ok(">\n  a long\n  enough text that\n  the folded\n  wrapper will\n  really fold it\n  at a space\n") <= "a long enough text that the folded wrapper will really fold it at a space\n"
litval [wrap12] "a long enough text that the folded wrapper will really fold it at a space" => Ok("lit: |-\n  a long enough text that the folded wrapper will really fold it at a space\n") <= {"lit": "a long enough text that the folded wrapper will really fold it at a space"}
foldinseq [wrap12] "a long enough text that the folded wrapper will really fold it at a space" => Ok("- fold: >\n    a long\n    enough text that\n    the folded\n    wrapper will\n    really fold it\n    at a space\n") <= [{"fold": "a long enough text that the folded wrapper will really fold it at a space\n"}]
litinflow [wrap12] "a long enough text that the folded wrapper will really fold it at a space" => Ok("[a long enough text that the folded wrapper will really fold it at a space]\n") <= ["a long enough text that the folded wrapper will really fold it at a space"]
litinseqseq [wrap12] "a long enough text that the folded wrapper will really fold it at a space" => Ok("- - |-\n    a long enough text that the folded wrapper will really fold it at a space\n- - |-\n    a long enough text that the folded wrapper will really fold it at a space\n") <= [["a long enough text that the folded wrapper will really fold it at a space"], ["a long enough text that the folded wrapper will really fold it at a space"]]
lit [wrap12] "a long enough text   with runs  of spaces that the folded wrapper will fold" => Ok("|-\n  a long enough text   with runs  of spaces that the folded wrapper will fold\n") <= "a long enough text   with runs  of spaces that the folded wrapper will fold"
fold [wrap12] "a long enough text   with runs  of spaces that the folded wrapper will fold" => Ok(">\n  a long\n  enough text  \n  with runs  of\n  spaces that the\n  folded\n  wrapper will fold\n") <= "a long enough text   with runs  of spaces that the folded wrapper will fold\n"
litval [wrap12] "a long enough text   with runs  of spaces that the folded wrapper will fold" => Ok("lit: |-\n  a long enough text   with runs  of spaces that the folded wrapper will fold\n") <= {"lit": "a long enough text   with runs  of spaces that the folded wrapper will fold"}
foldinseq [wrap12] "a long enough text   with runs  of spaces that the folded wrapper will fold" => Ok("- fold: >\n    a long\n    enough text  \n    with runs  of\n    spaces that the\n    folded\n    wrapper will fold\n") <= [{"fold": "a long enough text   with runs  of spaces that the folded wrapper will fold\n"}]
litinflow [wrap12] "a long enough text   with runs  of spaces that the folded wrapper will fold" => Ok("[a long enough text   with runs  of spaces that the folded wrapper will fold]\n") <= ["a long enough text   with runs  of spaces that the folded wrapper will fold"]
litinseqseq [wrap12] "a long enough text   with runs  of spaces that the folded wrapper will fold" => Ok("- - |-\n    a long enough text   with runs  of spaces that the folded wrapper will fold\n- - |-\n    a long enough text   with runs  of spaces that the folded wrapper will fold\n") <= [["a long enough text   with runs  of spaces that the folded wrapper will fold"], ["a long enough text   with runs  of spaces that the folded wrapper will fold"]]
lit [wrap12] " leading space and a long enough text that the folded wrapper will fold it" => Ok("|2-\n   leading space and a long enough text that the folded wrapper will fold it\n") <= " leading space and a long enough text that the folded wrapper will fold it"
fold [wrap12] " leading space and a long enough text that the folded wrapper will fold it" => Ok(">2\n   leading space and a long enough text that the folded wrapper will fold it\n") <= " leading space and a long enough text that the folded wrapper will fold it\n"
litval [wrap12] " leading space and a long enough text that the folded wrapper will fold it" => Ok("lit: |2-\n   leading space and a long enough text that the folded wrapper will fold it\n") <= {"lit": " leading space and a long enough text that the folded wrapper will fold it"}
foldinseq [wrap12] " leading space and a long enough text that the folded wrapper will fold it" => Ok("- fold: >2\n     leading space and a long enough text that the folded wrapper will fold it\n") <= [{"fold": " leading space and a long enough text that the folded wrapper will fold it\n"}]
litinflow [wrap12] " leading space and a long enough text that the folded wrapper will fold it" => Ok("[\" leading space and a long enough text that the folded wrapper will fold it\"]\n") <= [" leading space and a long enough text that the folded wrapper will fold it"]
litinseqseq [wrap12] " leading space and a long enough text that the folded wrapper will fold it" => Ok("- - |2-\n     leading space and a long enough text that the folded wrapper will fold it\n- - |2-\n     leading space and a long enough text that the folded wrapper will fold it\n") <= [[" leading space and a long enough text that the folded wrapper will fold it"], [" leading space and a long enough text that the folded wrapper will fold it"]]
lit [wrap12] "para one is long enough to be folded somewhere\n\npara two\n  more indented\n" => Ok("|\n  para one is long enough to be folded somewhere\n  \n  para two\n    more indented\n") <= "para one is long enough to be folded somewhere\n\npara two\n  more indented\n"
fold [wrap12] "para one is long enough to be folded somewhere\n\npara two\n  more indented\n" => Ok(">\n  para one is\n  long enough\n  to be folded\n  somewhere\n  \n  para two\n    more indented\n  \n") <= "para one is long enough to be folded somewhere\npara two\n  more indented\n"
litval [wrap12] "para one is long enough to be folded somewhere\n\npara two\n  more indented\n" => Ok("lit: |\n  para one is long enough to be folded somewhere\n  \n  para two\n    more indented\n") <= {"lit": "para one is long enough to be folded somewhere\n\npara two\n  more indented\n"}
foldinseq [wrap12] "para one is long enough to be folded somewhere\n\npara two\n  more indented\n" => Ok("- fold: >\n    para one is\n    long enough\n    to be folded\n    somewhere\n    \n    para two\n      more indented\n    \n") <= [{"fold": "para one is long enough to be folded somewhere\npara two\n  more indented\n"}]
litinflow [wrap12] "para one is long enough to be folded somewhere\n\npara two\n  more indented\n" => Ok("[\"para one is long enough to be folded somewhere\\n\\npara two\\n  more indented\\n\"]\n") <= ["para one is long enough to be folded somewhere\n\npara two\n  more indented\n"]
litinseqseq [wrap12] "para one is long enough to be folded somewhere\n\npara two\n  more indented\n" => Ok("- - |\n    para one is long enough to be folded somewhere\n    \n    para two\n      more indented\n- - |\n    para one is long enough to be folded somewhere\n    \n    para two\n      more indented\n") <= [["para one is long enough to be folded somewhere\n\npara two\n  more indented\n"], ["para one is long enough to be folded somewhere\n\npara two\n  more indented\n"]]
lit [wrap12] "trailing spaces are kept by the folded style                                   " => Ok("|-\n  trailing spaces are kept by the folded style                                   \n") <= "trailing spaces are kept by the folded style                                   "
fold [wrap12] "trailing spaces are kept by the folded style                                   " => Ok(">\n  trailing\n  spaces are kept\n  by the\n  folded\n  style                                   \n") <= "trailing spaces are kept by the folded style                                   \n"
litval [wrap12] "trailing spaces are kept by the folded style                                   " => Ok("lit: |-\n  trailing spaces are kept by the folded style                                   \n") <= {"lit": "trailing spaces are kept by the folded style                                   "}
foldinseq [wrap12] "trailing spaces are kept by the folded style                                   " => Ok("- fold: >\n    trailing\n    spaces are kept\n    by the\n    folded\n    style                                   \n") <= [{"fold": "trailing spaces are kept by the folded style                                   \n"}]
litinflow [wrap12] "trailing spaces are kept by the folded style                                   " => Ok("[\"trailing spaces are kept by the folded style                                   \"]\n") <= ["trailing spaces are kept by the folded style                                   "]
litinseqseq [wrap12] "trailing spaces are kept by the folded style                                   " => Ok("- - |-\n    trailing spaces are kept by the folded style                                   \n- - |-\n    trailing spaces are kept by the folded style                                   \n") <= [["trailing spaces are kept by the folded style                                   "], ["trailing spaces are kept by the folded style                                   "]]
lit [wrap12] "- looks like a list\n- item\n" => Ok("|\n  - looks like a list\n  - item\n") <= "- looks like a list\n- item\n"
fold [wrap12] "- looks like a list\n- item\n" => Ok(">\n  - looks\n  like a list\n  - item\n  \n") <= "- looks like a list - item\n"
litval [wrap12] "- looks like a list\n- item\n" => Ok("lit: |\n  - looks like a list\n  - item\n") <= {"lit": "- looks like a list\n- item\n"}
foldinseq [wrap12] "- looks like a list\n- item\n" => Ok("- fold: >\n    - looks\n    like a list\n    - item\n    \n") <= [{"fold": "- looks like a list - item\n"}]
litinflow [wrap12] "- looks like a list\n- item\n" => Ok("[\"- looks like a list\\n- item\\n\"]\n") <= ["- looks like a list\n- item\n"]
litinseqseq [wrap12] "- looks like a list\n- item\n" => Ok("- - |\n    - looks like a list\n    - item\n- - |\n    - looks like a list\n    - item\n") <= [["- looks like a list\n- item\n"], ["- looks like a list\n- item\n"]]
lit [wrap12] "# looks like a comment\n" => Ok("|\n  # looks like a comment\n") <= "# looks like a comment\n"
fold [wrap12] "# looks like a comment\n" => Ok(">\n  # looks\n  like a comment\n  \n") <= "# looks like a comment\n"
litval [wrap12] "# looks like a comment\n" => Ok("lit: |\n  # looks like a comment\n") <= {"lit": "# looks like a comment\n"}
foldinseq [wrap12] "# looks like a comment\n" => Ok("- fold: >\n    # looks\n    like a comment\n    \n") <= [{"fold": "# looks like a comment\n"}]
litinflow [wrap12] "# looks like a comment\n" => Ok("[\"# looks like a comment\\n\"]\n") <= ["# looks like a comment\n"]
litinseqseq [wrap12] "# looks like a comment\n" => Ok("- - |\n    # looks like a comment\n- - |\n    # looks like a comment\n") <= [["# looks like a comment\n"], ["# looks like a comment\n"]]
lit [wrap12] "key: value\n" => Ok("|\n  key: value\n") <= "key: value\n"
fold [wrap12] "key: value\n" => Ok(">\n  key: value\n  \n") <= "key: value\n"
litval [wrap12] "key: value\n" => Ok("lit: |\n  key: value\n") <= {"lit": "key: value\n"}
foldinseq [wrap12] "key: value\n" => Ok("- fold: >\n    key: value\n    \n") <= [{"fold": "key: value\n"}]
litinflow [wrap12] "key: value\n" => Ok("[\"key: value\\n\"]\n") <= ["key: value\n"]
litinseqseq [wrap12] "key: value\n" => Ok("- - |\n    key: value\n- - |\n    key: value\n") <= [["key: value\n"], ["key: value\n"]]
lit [indent3compact] "" => Ok("|-\n") <= ""
fold [indent3compact] "" => Ok("\"\"\n") <= ""
litval [indent3compact] "" => Ok("lit: |-\n") <= {"lit": ""}
foldinseq [indent3compact] "" => Ok("- fold: \"\"\n") <= [{"fold": ""}]
litinflow [indent3compact] "" => Ok("[\"\"]\n") <= [""]
litinseqseq [indent3compact] "" => Ok("- - |-\n- - |-\n") <= [[""], [""]]
lit [indent3compact] "short" => Ok("|-\n   short\n") <= "short"
fold [indent3compact] "short" => Ok("short\n") <= "short"
litval [indent3compact] "short" => Ok("lit: |-\n   short\n") <= {"lit": "short"}
foldinseq [indent3compact] "short" => Ok("- fold: short\n") <= [{"fold": "short"}]
litinflow [indent3compact] "short" => Ok("[short]\n") <= ["short"]
litinseqseq [indent3compact] "short" => Ok("- - |-\n      short\n- - |-\n      short\n") <= [["short"], ["short"]]
lit [indent3compact] "\n" => Ok("|\n   \n") <= "\n"
fold [indent3compact] "\n" => Ok(">\n   \n   \n") <= "\n"
litval [indent3compact] "\n" => Ok("lit: |\n   \n") <= {"lit": "\n"}
foldinseq [indent3compact] "\n" => Ok("- fold: >\n      \n      \n") <= [{"fold": "\n"}]
litinflow [indent3compact] "\n" => Ok("[\"\\n\"]\n") <= ["\n"]
litinseqseq [indent3compact] "\n" => Ok("- - |\n      \n- - |\n      \n") <= [[""], ["\n"]]
lit [indent3compact] "\n\n" => Ok("|+\n   \n   \n") <= "\n\n"
fold [indent3compact] "\n\n" => Ok(">\n   \n   \n   \n") <= "\n"
litval [indent3compact] "\n\n" => Ok("lit: |+\n   \n   \n") <= {"lit": "\n\n"}
foldinseq [indent3compact] "\n\n" => Ok("- fold: >\n      \n      \n      \n") <= [{"fold": "\n"}]
litinflow [indent3compact] "\n\n" => Ok("[\"\\n\\n\"]\n") <= ["\n\n"]
litinseqseq [indent3compact] "\n\n" => Ok("- - |+\n      \n      \n- - |+\n      \n      \n") <= [["\n\n"], ["\n\n"]]
lit [indent3compact] "a\n" => Ok("|\n   a\n") <= "a\n"
fold [indent3compact] "a\n" => Ok(">\n   a\n   \n") <= "a\n"
litval [indent3compact] "a\n" => Ok("lit: |\n   a\n") <= {"lit": "a\n"}
foldinseq [indent3compact] "a\n" => Ok("- fold: >\n      a\n      \n") <= [{"fold": "a\n"}]
litinflow [indent3compact] "a\n" => Ok("[\"a\\n\"]\n") <= ["a\n"]
litinseqseq [indent3compact] "a\n" => Ok("- - |\n      a\n- - |\n      a\n") <= [["a\n"], ["a\n"]]
lit [indent3compact] "a\n\n" => Ok("|+\n   a\n   \n") <= "a\n\n"
fold [indent3compact] "a\n\n" => Ok(">\n   a\n   \n   \n") <= "a\n"
litval [indent3compact] "a\n\n" => Ok("lit: |+\n   a\n   \n") <= {"lit": "a\n\n"}
foldinseq [indent3compact] "a\n\n" => Ok("- fold: >\n      a\n      \n      \n") <= [{"fold": "a\n"}]
litinflow [indent3compact] "a\n\n" => Ok("[\"a\\n\\n\"]\n") <= ["a\n\n"]
litinseqseq [indent3compact] "a\n\n" => Ok("- - |+\n      a\n      \n- - |+\n      a\n      \n") <= [["a\n\n"], ["a\n\n"]]
lit [indent3compact] "a\n\n\n" => Ok("|+\n   a\n   \n   \n") <= "a\n\n\n"
fold [indent3compact] "a\n\n\n" => Ok(">\n   a\n   \n   \n   \n") <= "a\n"
litval [indent3compact] "a\n\n\n" => Ok("lit: |+\n   a\n   \n   \n") <= {"lit": "a\n\n\n"}
foldinseq [indent3compact] "a\n\n\n" => Ok("- fold: >\n      a\n      \n      \n      \n") <= [{"fold": "a\n"}]
litinflow [indent3compact] "a\n\n\n" => Ok("[\"a\\n\\n\\n\"]\n") <= ["a\n\n\n"]
litinseqseq [indent3compact] "a\n\n\n" => Ok("- - |+\n      a\n      \n      \n- - |+\n      a\n      \n      \n") <= [["a\n\n\n"], ["a\n\n\n"]]
lit [indent3compact] "a\nb" => Ok("|-\n   a\n   b\n") <= "a\nb"
fold [indent3compact] "a\nb" => Ok(">\n   a\n   b\n") <= "a b\n"
litval [indent3compact] "a\nb" => Ok("lit: |-\n   a\n   b\n") <= {"lit": "a\nb"}
foldinseq [indent3compact] "a\nb" => Ok("- fold: >\n      a\n      b\n") <= [{"fold": "a b\n"}]
litinflow [indent3compact] "a\nb" => Ok("[\"a\\nb\"]\n") <= ["a\nb"]
litinseqseq [indent3compact] "a\nb" => Ok("- - |-\n      a\n      b\n- - |-\n      a\n      b\n") <= [["a\nb"], ["a\nb"]]
lit [indent3compact] "  lead\nrest\n" => Ok("\"  lead\\nrest\\n\"\n") <= "  lead\nrest\n"
fold [indent3compact] "  lead\nrest\n" => Ok("\"  lead\\nrest\\n\"\n") <= "  lead\nrest\n"
litval [indent3compact] "  lead\nrest\n" => Ok("lit: \"  lead\\nrest\\n\"\n") <= {"lit": "  lead\nrest\n"}
foldinseq [indent3compact] "  lead\nrest\n" => Ok("- fold: \"  lead\\nrest\\n\"\n") <= [{"fold": "  lead\nrest\n"}]
litinflow [indent3compact] "  lead\nrest\n" => Ok("[\"  lead\\nrest\\n\"]\n") <= ["  lead\nrest\n"]
litinseqseq [indent3compact] "  lead\nrest\n" => Ok("- - \"  lead\\nrest\\n\"\n- - \"  lead\\nrest\\n\"\n") <= [["  lead\nrest\n"], ["  lead\nrest\n"]]
lit [indent3compact] "\n  lead after blank" => Ok("\"\\n  lead after blank\"\n") <= "\n  lead after blank"
fold [indent3compact] "\n  lead after blank" => Ok("\"\\n  lead after blank\"\n") <= "\n  lead after blank"
litval [indent3compact] "\n  lead after blank" => Ok("lit: \"\\n  lead after blank\"\n") <= {"lit": "\n  lead after blank"}
foldinseq [indent3compact] "\n  lead after blank" => Ok("- fold: \"\\n  lead after blank\"\n") <= [{"fold": "\n  lead after blank"}]
litinflow [indent3compact] "\n  lead after blank" => Ok("[\"\\n  lead after blank\"]\n") <= ["\n  lead after blank"]
litinseqseq [indent3compact] "\n  lead after blank" => Ok("- - \"\\n  lead after blank\"\n- - \"\\n  lead after blank\"\n") <= [["\n  lead after blank"], ["\n  lead after blank"]]
lit [indent3compact] "cr\rinside\n" => Ok("\"cr\\rinside\\n\"\n") <= "cr\rinside\n"
fold [indent3compact] "cr\rinside\n" => Ok("\"cr\\rinside\\n\"\n") <= "cr\rinside\n"
litval [indent3compact] "cr\rinside\n" => Ok("lit: \"cr\\rinside\\n\"\n") <= {"lit": "cr\rinside\n"}
foldinseq [indent3compact] "cr\rinside\n" => Ok("- fold: \"cr\\rinside\\n\"\n") <= [{"fold": "cr\rinside\n"}]
litinflow [indent3compact] "cr\rinside\n" => Ok("[\"cr\\rinside\\n\"]\n") <= ["cr\rinside\n"]
litinseqseq [indent3compact] "cr\rinside\n" => Ok("- - \"cr\\rinside\\n\"\n- - \"cr\\rinside\\n\"\n") <= [["cr\rinside\n"], ["cr\rinside\n"]]
lit [indent3compact] "tab\tinside\nmore\n" => Ok("|\n   tab\tinside\n   more\n") <= "tab\tinside\nmore\n"
fold [indent3compact] "tab\tinside\nmore\n" => Ok(">\n   tab\tinside\n   more\n   \n") <= "tab\tinside more\n"
litval [indent3compact] "tab\tinside\nmore\n" => Ok("lit: |\n   tab\tinside\n   more\n") <= {"lit": "tab\tinside\nmore\n"}
foldinseq [indent3compact] "tab\tinside\nmore\n" => Ok("- fold: >\n      tab\tinside\n      more\n      \n") <= [{"fold": "tab\tinside more\n"}]
litinflow [indent3compact] "tab\tinside\nmore\n" => Ok("[\"tab\\tinside\\nmore\\n\"]\n") <= ["tab\tinside\nmore\n"]
litinseqseq [indent3compact] "tab\tinside\nmore\n" => Ok("- - |\n      tab\tinside\n      more\n- - |\n      tab\tinside\n      more\n") <= [["tab\tinside\nmore\n"], ["tab\tinside\nmore\n"]]
lit [indent3compact] "bell\u{7}\n" => Ok("\"bell\\a\\n\"\n") <= "bell\u{7}\n"
fold [indent3compact] "bell\u{7}\n" => Ok("\"bell\\a\\n\"\n") <= "bell\u{7}\n"
litval [indent3compact] "bell\u{7}\n" => Ok("lit: \"bell\\a\\n\"\n") <= {"lit": "bell\u{7}\n"}
foldinseq [indent3compact] "bell\u{7}\n" => Ok("- fold: \"bell\\a\\n\"\n") <= [{"fold": "bell\u{7}\n"}]
litinflow [indent3compact] "bell\u{7}\n" => Ok("[\"bell\\a\\n\"]\n") <= ["bell\u{7}\n"]
litinseqseq [indent3compact] "bell\u{7}\n" => Ok("- - \"bell\\a\\n\"\n- - \"bell\\a\\n\"\n") <= [["bell\u{7}\n"], ["bell\u{7}\n"]]
lit [indent3compact] "nel\u{85}inside the long enough text to be folded by the wrapper type\n" => Ok("\"nel\\Ninside the long enough text to be folded by the wrapper type\\n\"\n") <= "nel\u{85}inside the long enough text to be folded by the wrapper type\n"
fold [indent3compact] "nel\u{85}inside the long enough text to be folded by the wrapper type\n" => Ok("\"nel\\Ninside the long enough text to be folded by the wrapper type\\n\"\n") <= "nel\u{85}inside the long enough text to be folded by the wrapper type\n"
litval [indent3compact] "nel\u{85}inside the long enough text to be folded by the wrapper type\n" => Ok("lit: \"nel\\Ninside the long enough text to be folded by the wrapper type\\n\"\n") <= {"lit": "nel\u{85}inside the long enough text to be folded by the wrapper type\n"}
foldinseq [indent3compact] "nel\u{85}inside the long enough text to be folded by the wrapper type\n" => Ok("- fold: \"nel\\Ninside the long enough text to be folded by the wrapper type\\n\"\n") <= [{"fold": "nel\u{85}inside the long enough text to be folded by the wrapper type\n"}]
litinflow [indent3compact] "nel\u{85}inside the long enough text to be folded by the wrapper type\n" => Ok("[\"nel\\Ninside the long enough text to be folded by the wrapper type\\n\"]\n") <= ["nel\u{85}inside the long enough text to be folded by the wrapper type\n"]
litinseqseq [indent3compact] "nel\u{85}inside the long enough text to be folded by the wrapper type\n" => Ok("- - \"nel\\Ninside the long enough text to be folded by the wrapper type\\n\"\n- - \"nel\\Ninside the long enough text to be folded by the wrapper type\\n\"\n") <= [["nel\u{85}inside the long enough text to be folded by the wrapper type\n"], ["nel\u{85}inside the long enough text to be folded by the wrapper type\n"]]
lit [indent3compact] "a long enough text that the folded wrapper will really fold it at a space" => Ok("|-\n   a long enough text that the folded wrapper will really fold it at a space\n") <= "a long enough text that the folded wrapper will really fold it at a space"
fold [indent3compact] "a long enough text that the folded wrapper will really fold it at a space" => Ok(">\n   a long enough text that the folded wrapper will really fold it at a space\n") <= "a long enough text that the folded wrapper will really fold it at a space\n"
litval [indent3compact] "a long enough text that the folded wrapper will really fold it at a space" => Ok("lit: |-\n   a long enough text that the folded wrapper will really fold it at a space\n") <= {"lit": "a long enough text that the folded wrapper will really fold it at a space"}
foldinseq [indent3compact] "a long enough text that the folded wrapper will really fold it at a space" => Ok("- fold: >\n      a long enough text that the folded wrapper will really fold it at a space\n") <= [{"fold": "a long enough text that the folded wrapper will really fold it at a space\n"}]
litinflow [indent3compact] "a long enough text that the folded wrapper will really fold it at a space" => Ok("[a long enough text that the folded wrapper will really fold it at a space]\n") <= ["a long enough text that the folded wrapper will really fold it at a space"]
litinseqseq [indent3compact] "a long enough text that the folded wrapper will really fold it at a space" => Ok("- - |-\n      a long enough text that the folded wrapper will really fold it at a space\n- - |-\n      a long enough text that the folded wrapper will really fold it at a space\n") <= [["a long enough text that the folded wrapper will really fold it at a space"], ["a long enough text that the folded wrapper will really fold it at a space"]]
lit [indent3compact] "a long enough text   with runs  of spaces that the folded wrapper will fold" => Ok("|-\n   a long enough text   with runs  of spaces that the folded wrapper will fold\n") <= "a long enough text   with runs  of spaces that the folded wrapper will fold"
fold [indent3compact] "a long enough text   with runs  of spaces that the folded wrapper will fold" => Ok(">\n   a long enough text   with runs  of spaces that the folded wrapper will fold\n") <= "a long enough text   with runs  of spaces that the folded wrapper will fold\n"
litval [indent3compact] "a long enough text   with runs  of spaces that the folded wrapper will fold" => Ok("lit: |-\n   a long enough text   with runs  of spaces that the folded wrapper will fold\n") <= {"lit": "a long enough text   with runs  of spaces that the folded wrapper will fold"}
foldinseq [indent3compact] "a long enough text   with runs  of spaces that the folded wrapper will fold" => Ok("- fold: >\n      a long enough text   with runs  of spaces that the folded wrapper will fold\n") <= [{"fold": "a long enough text   with runs  of spaces that the folded wrapper will fold\n"}]
litinflow [indent3compact] "a long enough text   with runs  of spaces that the folded wrapper will fold" => Ok("[a long enough text   with runs  of spaces that the folded wrapper will fold]\n") <= ["a long enough text   with runs  of spaces that the folded wrapper will fold"]
litinseqseq [indent3compact] "a long enough text   with runs  of spaces that the folded wrapper will fold" => Ok("- - |-\n      a long enough text   with runs  of spaces that the folded wrapper will fold\n- - |-\n      a long enough text   with runs  of spaces that the folded wrapper will fold\n") <= [["a long enough text   with runs  of spaces that the folded wrapper will fold"], ["a long enough text   with runs  of spaces that the folded wrapper will fold"]]
lit [indent3compact] " leading space and a long enough text that the folded wrapper will fold it" => Ok("\" leading space and a long enough text that the folded wrapper will fold it\"\n") <= " leading space and a long enough text that the folded wrapper will fold it"
fold [indent3compact] " leading space and a long enough text that the folded wrapper will fold it" => Ok("\" leading space and a long enough text that the folded wrapper will fold it\"\n") <= " leading space and a long enough text that the folded wrapper will fold it"
litval [indent3compact] " leading space and a long enough text that the folded wrapper will fold it" => Ok("lit: \" leading space and a long enough text that the folded wrapper will fold it\"\n") <= {"lit": " leading space and a long enough text that the folded wrapper will fold it"}
foldinseq [indent3compact] " leading space and a long enough text that the folded wrapper will fold it" => Ok("- fold: \" leading space and a long enough text that the folded wrapper will fold it\"\n") <= [{"fold": " leading space and a long enough text that the folded wrapper will fold it"}]
litinflow [indent3compact] " leading space and a long enough text that the folded wrapper will fold it" => Ok("[\" leading space and a long enough text that the folded wrapper will fold it\"]\n") <= [" leading space and a long enough text that the folded wrapper will fold it"]
litinseqseq [indent3compact] " leading space and a long enough text that the folded wrapper will fold it" => Ok("- - \" leading space and a long enough text that the folded wrapper will fold it\"\n- - \" leading space and a long enough text that the folded wrapper will fold it\"\n") <= [[" leading space and a long enough text that the folded wrapper will fold it"], [" leading space and a long enough text that the folded wrapper will fold it"]]
lit [indent3compact] "para one is long enough to be folded somewhere\n\npara two\n  more indented\n" => Ok("|\n   para one is long enough to be folded somewhere\n   \n   para two\n     more indented\n") <= "para one is long enough to be folded somewhere\n\npara two\n  more indented\n"
fold [indent3compact] "para one is long enough to be folded somewhere\n\npara two\n  more indented\n" => Ok(">\n   para one is long enough to be folded somewhere\n   \n   para two\n     more indented\n   \n") <= "para one is long enough to be folded somewhere\npara two\n  more indented\n"
litval [indent3compact] "para one is long enough to be folded somewhere\n\npara two\n  more indented\n" => Ok("lit: |\n   para one is long enough to be folded somewhere\n   \n   para two\n     more indented\n") <= {"lit": "para one is long enough to be folded somewhere\n\npara two\n  more indented\n"}
foldinseq [indent3compact] "para one is long enough to be folded somewhere\n\npara two\n  more indented\n" => Ok("- fold: >\n      para one is long enough to be folded somewhere\n      \n      para two\n        more indented\n      \n") <= [{"fold": "para one is long enough to be folded somewhere\npara two\n  more indented\n"}]
litinflow [indent3compact] "para one is long enough to be folded somewhere\n\npara two\n  more indented\n" => Ok("[\"para one is long enough to be folded somewhere\\n\\npara two\\n  more indented\\n\"]\n") <= ["para one is long enough to be folded somewhere\n\npara two\n  more indented\n"]
litinseqseq [indent3compact] "para one is long enough to be folded somewhere\n\npara two\n  more indented\n" => Ok("- - |\n      para one is long enough to be folded somewhere\n      \n      para two\n        more indented\n- - |\n      para one is long enough to be folded somewhere\n      \n      para two\n        more indented\n") <= [["para one is long enough to be folded somewhere\n\npara two\n  more indented\n"], ["para one is long enough to be folded somewhere\n\npara two\n  more indented\n"]]
lit [indent3compact] "trailing spaces are kept by the folded style                                   " => Ok("|-\n   trailing spaces are kept by the folded style                                   \n") <= "trailing spaces are kept by the folded style                                   "
fold [indent3compact] "trailing spaces are kept by the folded style                                   " => Ok(">\n   trailing spaces are kept by the folded style                                   \n") <= "trailing spaces are kept by the folded style                                   \n"
litval [indent3compact] "trailing spaces are kept by the folded style                                   " => Ok("lit: |-\n   trailing spaces are kept by the folded style                                   \n") <= {"lit": "trailing spaces are kept by the folded style                                   "}
foldinseq [indent3compact] "trailing spaces are kept by the folded style                                   " => Ok("- fold: >\n      trailing spaces are kept by the folded style                                   \n") <= [{"fold": "trailing spaces are kept by the folded style                                   \n"}]
litinflow [indent3compact] "trailing spaces are kept by the folded style                                   " => Ok("[\"trailing spaces are kept by the folded style                                   \"]\n") <= ["trailing spaces are kept by the folded style                                   "]
litinseqseq [indent3compact] "trailing spaces are kept by the folded style                                   " => Ok("- - |-\n      trailing spaces are kept by the folded style                                   \n- - |-\n      trailing spaces are kept by the folded style                                   \n") <= [["trailing spaces are kept by the folded style                                   "], ["trailing spaces are kept by the folded style                                   "]]
lit [indent3compact] "- looks like a list\n- item\n" => Ok("|\n   - looks like a list\n   - item\n") <= "- looks like a list\n- item\n"
fold [indent3compact] "- looks like a list\n- item\n" => Ok(">\n   - looks like a list\n   - item\n   \n") <= "- looks like a list - item\n"
litval [indent3compact] "- looks like a list\n- item\n" => Ok("lit: |\n   - looks like a list\n   - item\n") <= {"lit": "- looks like a list\n- item\n"}
foldinseq [indent3compact] "- looks like a list\n- item\n" => Ok("- fold: >\n      - looks like a list\n      - item\n      \n") <= [{"fold": "- looks like a list - item\n"}]
litinflow [indent3compact] "- looks like a list\n- item\n" => Ok("[\"- looks like a list\\n- item\\n\"]\n") <= ["- looks like a list\n- item\n"]
litinseqseq [indent3compact] "- looks like a list\n- item\n" => Ok("- - |\n      - looks like a list\n      - item\n- - |\n      - looks like a list\n      - item\n") <= [["- looks like a list\n- item\n"], ["- looks like a list\n- item\n"]]
lit [indent3compact] "# looks like a comment\n" => Ok("|\n   # looks like a comment\n") <= "# looks like a comment\n"
fold [indent3compact] "# looks like a comment\n" => Ok(">\n   # looks like a comment\n   \n") <= "# looks like a comment\n"
litval [indent3compact] "# looks like a comment\n" => Ok("lit: |\n   # looks like a comment\n") <= {"lit": "# looks like a comment\n"}
foldinseq [indent3compact] "# looks like a comment\n" => Ok("- fold: >\n      # looks like a comment\n      \n") <= [{"fold": "# looks like a comment\n"}]
litinflow [indent3compact] "# looks like a comment\n" => Ok("[\"# looks like a comment\\n\"]\n") <= ["# looks like a comment\n"]
litinseqseq [indent3compact] "# looks like a comment\n" => Ok("- - |\n      # looks like a comment\n- - |\n      # looks like a comment\n") <= [["# looks like a comment\n"], ["# looks like a comment\n"]]
lit [indent3compact] "key: value\n" => Ok("|\n   key: value\n") <= "key: value\n"
fold [indent3compact] "key: value\n" => Ok(">\n   key: value\n   \n") <= "key: value\n"
litval [indent3compact] "key: value\n" => Ok("lit: |\n   key: value\n") <= {"lit": "key: value\n"}
foldinseq [indent3compact] "key: value\n" => Ok("- fold: >\n      key: value\n      \n") <= [{"fold": "key: value\n"}]
litinflow [indent3compact] "key: value\n" => Ok("[\"key: value\\n\"]\n") <= ["key: value\n"]
litinseqseq [indent3compact] "key: value\n" => Ok("- - |\n      key: value\n- - |\n      key: value\n") <= [["key: value\n"], ["key: value\n"]]
f64 [default] 0.0 => Ok("0.0\n") <= SAME
f64 [default] -0.0 => Ok("-0.0\n") <= SAME
f64 [default] 1.0 => Ok("1.0\n") <= SAME
f64 [default] -1.5 => Ok("-1.5\n") <= SAME
f64 [default] 0.1 => Ok("0.1\n") <= SAME
f64 [default] 1000000000000000.0 => Ok("1000000000000000.0\n") <= SAME
f64 [default] 1e16 => Ok("1.0e+16\n") <= SAME
f64 [default] 1e21 => Ok("1.0e+21\n") <= SAME
f64 [default] 1e22 => Ok("1.0e+22\n") <= SAME
f64 [default] 1e-5 => Ok("0.00001\n") <= SAME
f64 [default] 1e-7 => Ok("1.0e-7\n") <= SAME
f64 [default] 4e-6 => Ok("4.0e-6\n") <= SAME
f64 [default] 1.5e300 => Ok("1.5e+300\n") <= SAME
f64 [default] -2.5e-300 => Ok("-2.5e-300\n") <= SAME
f64 [default] 123456789.125 => Ok("123456789.125\n") <= SAME
f64 [default] 2.2250738585072014e-308 => Ok("2.2250738585072014e-308\n") <= SAME
f64 [default] 5e-324 => Ok("5.0e-324\n") <= SAME
f64 [default] 1.7976931348623157e308 => Ok("1.7976931348623157e+308\n") <= SAME
f64 [default] -1.7976931348623157e308 => Ok("-1.7976931348623157e+308\n") <= SAME
f64 [default] 2.220446049250313e-16 => Ok("2.220446049250313e-16\n") <= SAME
f64 [default] NaN => Ok(".nan\n") <= SAME
f64 [default] inf => Ok(".inf\n") <= SAME
f64 [default] -inf => Ok("-.inf\n") <= SAME
f32 [default] 0.0 => Ok("0.0\n") <= SAME
f32 [default] -0.0 => Ok("-0.0\n") <= SAME
f32 [default] 1.0 => Ok("1.0\n") <= SAME
f32 [default] 0.1 => Ok("0.1\n") <= SAME
f32 [default] 10000000000.0 => Ok("10000000000.0\n") <= SAME
f32 [default] 1e-10 => Ok("1.0e-10\n") <= SAME
f32 [default] 3.4e38 => Ok("3.4e+38\n") <= SAME
f32 [default] 1e-45 => Ok("1.0e-45\n") <= SAME
f32 [default] 16777216.0 => Ok("16777216.0\n") <= SAME
f32 [default] 3.4028235e38 => Ok("3.4028235e+38\n") <= SAME
f32 [default] 1.1754944e-38 => Ok("1.1754944e-38\n") <= SAME
f32 [default] NaN => Ok(".nan\n") <= SAME
f32 [default] inf => Ok(".inf\n") <= SAME
f32 [default] -inf => Ok("-.inf\n") <= SAME
f64seq [default] => Ok("- 0.0\n- -0.0\n- 1.0\n- -1.5\n- 0.1\n- 1000000000000000.0\n- 1.0e+16\n- 1.0e+21\n- 1.0e+22\n- 0.00001\n- 1.0e-7\n- 4.0e-6\n- 1.5e+300\n- -2.5e-300\n- 123456789.125\n- 2.2250738585072014e-308\n- 5.0e-324\n- 1.7976931348623157e+308\n- -1.7976931348623157e+308\n- 2.220446049250313e-16\n- .nan\n- .inf\n- -.inf\n")
f32flow [default] => Ok("[0.0, -0.0, 1.0, 0.1, 10000000000.0, 1.0e-10, 3.4e+38, 1.0e-45, 16777216.0, 3.4028235e+38, 1.1754944e-38, .nan, .inf, -.inf]\n")
f64keys [default] => Ok("0.0: 0.0\n-0.0: -0.0\n1.0: 1.0\n-1.5: -1.5\n0.1: 0.1\n1000000000000000.0: 1000000000000000.0\n1.0e+16: 1.0e+16\n1.0e+21: 1.0e+21\n1.0e+22: 1.0e+22\n0.00001: 0.00001\n1.0e-7: 1.0e-7\n4.0e-6: 4.0e-6\n1.5e+300: 1.5e+300\n-2.5e-300: -2.5e-300\n123456789.125: 123456789.125\n2.2250738585072014e-308: 2.2250738585072014e-308\n5.0e-324: 5.0e-324\n1.7976931348623157e+308: 1.7976931348623157e+308\n-1.7976931348623157e+308: -1.7976931348623157e+308\n2.220446049250313e-16: 2.220446049250313e-16\n.nan: .nan\n.inf: .inf\n-.inf: -.inf\n")
f32keys [default] => Ok("0.0: 0.0\n-0.0: -0.0\n1.0: 1.0\n0.1: 0.1\n10000000000.0: 10000000000.0\n1.0e-10: 1.0e-10\n3.4e+38: 3.4e+38\n1.0e-45: 1.0e-45\n16777216.0: 16777216.0\n3.4028235e+38: 3.4028235e+38\n1.1754944e-38: 1.1754944e-38\n.nan: .nan\n.inf: .inf\n-.inf: -.inf\n")
f64enum [default] 1e21 => Ok("Num: 1.0e+21\n") <= Num(1e21)
f64enum [default] 4e-6 => Ok("Num: 4.0e-6\n") <= Num(4e-6)
f64enum [default] -0.0 => Ok("Num: -0.0\n") <= Num(-0.0)
f64enum [default] NaN => Ok("Num: .nan\n") <= Num(NaN)
f64enum [default] -inf => Ok("Num: -.inf\n") <= Num(-inf)
f64enum [default] 2.0 => Ok("Num: 2.0\n") <= Num(2.0)
int [default] -128 => Ok("-128\n") <= SAME
int [default] -32768 => Ok("-32768\n") <= SAME
int [default] -2147483648 => Ok("-2147483648\n") <= SAME
int [default] -9223372036854775808 => Ok("-9223372036854775808\n") <= SAME
int [default] -170141183460469231731687303715884105728 => Ok("-170141183460469231731687303715884105728\n") <= SAME
int [default] 255 => Ok("255\n") <= SAME
int [default] 65535 => Ok("65535\n") <= SAME
int [default] 4294967295 => Ok("4294967295\n") <= SAME
int [default] 18446744073709551615 => Ok("18446744073709551615\n") <= SAME
int [default] 340282366920938463463374607431768211455 => Ok("340282366920938463463374607431768211455\n") <= SAME
int [default] [0, -1, 1, 9223372036854775807] => Ok("- 0\n- -1\n- 1\n- 9223372036854775807\n") <= SAME
intkeys [default] {-170141183460469231731687303715884105728: 340282366920938463463374607431768211455, 0: 0, 170141183460469231731687303715884105727: 1} => Ok("-170141183460469231731687303715884105728: 340282366920938463463374607431768211455\n0: 0\n170141183460469231731687303715884105727: 1\n") <= SAME
boolkeys [default] {false: true, true: false} => Ok("false: true\ntrue: false\n") <= SAME
bool [default] true => Ok("true\n") <= SAME
bool [default] [false, true] => Ok("- false\n- true\n") <= SAME
unit [default] () => Ok("null\n") <= SAME
none [default] None => Ok("null\n") <= SAME
some [default] Some("~") => Ok("\"~\"\n") <= SAME
some [default] [Some(1.5), None] => Ok("- 1.5\n- null\n") <= SAME
unitenum [default] Unit => Ok("Unit\n") <= SAME
unitenum [default] [Unit] => Ok("- Unit\n") <= SAME
char [default] 'a' => Ok("a\n") <= SAME
char [default] 'y' => Ok("\"y\"\n") <= SAME
char [default] 'N' => Ok("\"N\"\n") <= SAME
char [default] '~' => Ok("\"~\"\n") <= SAME
char [default] '-' => Ok("'-'\n") <= SAME
char [default] '#' => Ok("'#'\n") <= SAME
char [default] '.' => Ok("'.'\n") <= SAME
char [default] '?' => Ok("\"?\"\n") <= SAME
char [default] ':' => Ok("\":\"\n") <= SAME
char [default] ',' => Ok("\",\"\n") <= SAME
char [default] ' ' => Ok("\" \"\n") <= SAME
char [default] '\t' => Ok("\"\\t\"\n") <= SAME
char [default] '\n' => Ok("\"\\n\"\n") <= SAME
char [default] '\r' => Ok("\"\\r\"\n") <= SAME
char [default] '\'' => Ok("\"'\"\n") <= SAME
char [default] '"' => Ok("\"\\\"\"\n") <= SAME
char [default] '\\' => Ok("\\\n") <= SAME
char [default] '\0' => Ok("\"\\0\"\n") <= SAME
char [default] '\u{7f}' => Ok("\"\\x7F\"\n") <= SAME
char [default] '\u{85}' => Ok("\"\\N\"\n") <= SAME
char [default] '\u{a0}' => Ok("\"\u{a0}\"\n") <= SAME
char [default] '\u{2028}' => Ok("\"\\L\"\n") <= SAME
char [default] '\u{feff}' => Ok("\"\\uFEFF\"\n") <= SAME
char [default] '0' => Ok("\"0\"\n") <= SAME
char [default] '9' => Ok("\"9\"\n") <= SAME
char [default] 'é' => Ok("é\n") <= SAME
char [default] '😀' => Ok("😀\n") <= SAME
charseq [default] ['a', 'y', 'N', '~', '-', '#', '.', '?', ':', ',', ' ', '\t', '\n', '\r', '\'', '"', '\\', '\0', '\u{7f}', '\u{85}', '\u{a0}', '\u{2028}', '\u{feff}', '0', '9', 'é', '😀'] => Ok("- a\n- \"y\"\n- \"N\"\n- \"~\"\n- '-'\n- '#'\n- '.'\n- \"?\"\n- \":\"\n- \",\"\n- \" \"\n- \"\\t\"\n- \"\\n\"\n- \"\\r\"\n- \"'\"\n- \"\\\"\"\n- \\\n- \"\\0\"\n- \"\\x7F\"\n- \"\\N\"\n- \"\u{a0}\"\n- \"\\L\"\n- \"\\uFEFF\"\n- \"0\"\n- \"9\"\n- é\n- 😀\n") <= SAME
charkeys [default] {'\0': '\0', '\t': '\t', '\n': '\n', '\r': '\r', ' ': ' ', '"': '"', '#': '#', '\'': '\'', ',': ',', '-': '-', '.': '.', '0': '0', '9': '9', ':': ':', '?': '?', 'N': 'N', '\\': '\\', 'a': 'a', 'y': 'y', '~': '~', '\u{7f}': '\u{7f}', '\u{85}': '\u{85}', '\u{a0}': '\u{a0}', 'é': 'é', '\u{2028}': '\u{2028}', '\u{feff}': '\u{feff}', '😀': '😀'} => Ok("\"\\u0000\": \"\\0\"\n\"\\t\": \"\\t\"\n\"\\n\": \"\\n\"\n\"\\r\": \"\\r\"\n\" \": \" \"\n\"\\\"\": \"\\\"\"\n\"#\": '#'\n\"'\": \"'\"\n\",\": \",\"\n\"-\": '-'\n.: '.'\n\"0\": \"0\"\n\"9\": \"9\"\n\":\": \":\"\n\"?\": \"?\"\n\"N\": \"N\"\n\\: \\\na: a\n\"y\": \"y\"\n\"~\": \"~\"\n\"\\u007F\": \"\\x7F\"\n\"\\u0085\": \"\\N\"\n\"\u{a0}\": \"\u{a0}\"\né: é\n\"\u{2028}\": \"\\L\"\n\"\u{feff}\": \"\\uFEFF\"\n😀: 😀\n") <= SAME
f64 [quote_all] 0.0 => Ok("0.0\n") <= SAME
f64 [quote_all] -0.0 => Ok("-0.0\n") <= SAME
f64 [quote_all] 1.0 => Ok("1.0\n") <= SAME
f64 [quote_all] -1.5 => Ok("-1.5\n") <= SAME
f64 [quote_all] 0.1 => Ok("0.1\n") <= SAME
f64 [quote_all] 1000000000000000.0 => Ok("1000000000000000.0\n") <= SAME
f64 [quote_all] 1e16 => Ok("1.0e+16\n") <= SAME
f64 [quote_all] 1e21 => Ok("1.0e+21\n") <= SAME
f64 [quote_all] 1e22 => Ok("1.0e+22\n") <= SAME
f64 [quote_all] 1e-5 => Ok("0.00001\n") <= SAME
f64 [quote_all] 1e-7 => Ok("1.0e-7\n") <= SAME
f64 [quote_all] 4e-6 => Ok("4.0e-6\n") <= SAME
f64 [quote_all] 1.5e300 => Ok("1.5e+300\n") <= SAME
f64 [quote_all] -2.5e-300 => Ok("-2.5e-300\n") <= SAME
f64 [quote_all] 123456789.125 => Ok("123456789.125\n") <= SAME
f64 [quote_all] 2.2250738585072014e-308 => Ok("2.2250738585072014e-308\n") <= SAME
f64 [quote_all] 5e-324 => Ok("5.0e-324\n") <= SAME
f64 [quote_all] 1.7976931348623157e308 => Ok("1.7976931348623157e+308\n") <= SAME
f64 [quote_all] -1.7976931348623157e308 => Ok("-1.7976931348623157e+308\n") <= SAME
f64 [quote_all] 2.220446049250313e-16 => Ok("2.220446049250313e-16\n") <= SAME
f64 [quote_all] NaN => Ok(".nan\n") <= SAME
f64 [quote_all] inf => Ok(".inf\n") <= SAME
f64 [quote_all] -inf => Ok("-.inf\n") <= SAME
f32 [quote_all] 0.0 => Ok("0.0\n") <= SAME
f32 [quote_all] -0.0 => Ok("-0.0\n") <= SAME
f32 [quote_all] 1.0 => Ok("1.0\n") <= SAME
f32 [quote_all] 0.1 => Ok("0.1\n") <= SAME
f32 [quote_all] 10000000000.0 => Ok("10000000000.0\n") <= SAME
f32 [quote_all] 1e-10 => Ok("1.0e-10\n") <= SAME
f32 [quote_all] 3.4e38 => Ok("3.4e+38\n") <= SAME
f32 [quote_all] 1e-45 => Ok("1.0e-45\n") <= SAME
f32 [quote_all] 16777216.0 => Ok("16777216.0\n") <= SAME
f32 [quote_all] 3.4028235e38 => Ok("3.4028235e+38\n") <= SAME
f32 [quote_all] 1.1754944e-38 => Ok("1.1754944e-38\n") <= SAME
f32 [quote_all] NaN => Ok(".nan\n") <= SAME
f32 [quote_all] inf => Ok(".inf\n") <= SAME
f32 [quote_all] -inf => Ok("-.inf\n") <= SAME
f64seq [quote_all] => Ok("- 0.0\n- -0.0\n- 1.0\n- -1.5\n- 0.1\n- 1000000000000000.0\n- 1.0e+16\n- 1.0e+21\n- 1.0e+22\n- 0.00001\n- 1.0e-7\n- 4.0e-6\n- 1.5e+300\n- -2.5e-300\n- 123456789.125\n- 2.2250738585072014e-308\n- 5.0e-324\n- 1.7976931348623157e+308\n- -1.7976931348623157e+308\n- 2.220446049250313e-16\n- .nan\n- .inf\n- -.inf\n")
f32flow [quote_all] => Ok("[0.0, -0.0, 1.0, 0.1, 10000000000.0, 1.0e-10, 3.4e+38, 1.0e-45, 16777216.0, 3.4028235e+38, 1.1754944e-38, .nan, .inf, -.inf]\n")
f64keys [quote_all] => Ok("0.0: 0.0\n-0.0: -0.0\n1.0: 1.0\n-1.5: -1.5\n0.1: 0.1\n1000000000000000.0: 1000000000000000.0\n1.0e+16: 1.0e+16\n1.0e+21: 1.0e+21\n1.0e+22: 1.0e+22\n0.00001: 0.00001\n1.0e-7: 1.0e-7\n4.0e-6: 4.0e-6\n1.5e+300: 1.5e+300\n-2.5e-300: -2.5e-300\n123456789.125: 123456789.125\n2.2250738585072014e-308: 2.2250738585072014e-308\n5.0e-324: 5.0e-324\n1.7976931348623157e+308: 1.7976931348623157e+308\n-1.7976931348623157e+308: -1.7976931348623157e+308\n2.220446049250313e-16: 2.220446049250313e-16\n.nan: .nan\n.inf: .inf\n-.inf: -.inf\n")
f32keys [quote_all] => Ok("0.0: 0.0\n-0.0: -0.0\n1.0: 1.0\n0.1: 0.1\n10000000000.0: 10000000000.0\n1.0e-10: 1.0e-10\n3.4e+38: 3.4e+38\n1.0e-45: 1.0e-45\n16777216.0: 16777216.0\n3.4028235e+38: 3.4028235e+38\n1.1754944e-38: 1.1754944e-38\n.nan: .nan\n.inf: .inf\n-.inf: -.inf\n")
f64enum [quote_all] 1e21 => Ok("'Num': 1.0e+21\n") <= Num(1e21)
f64enum [quote_all] 4e-6 => Ok("'Num': 4.0e-6\n") <= Num(4e-6)
f64enum [quote_all] -0.0 => Ok("'Num': -0.0\n") <= Num(-0.0)
f64enum [quote_all] NaN => Ok("'Num': .nan\n") <= Num(NaN)
f64enum [quote_all] -inf => Ok("'Num': -.inf\n") <= Num(-inf)
f64enum [quote_all] 2.0 => Ok("'Num': 2.0\n") <= Num(2.0)
int [quote_all] -128 => Ok("-128\n") <= SAME
int [quote_all] -32768 => Ok("-32768\n") <= SAME
int [quote_all] -2147483648 => Ok("-2147483648\n") <= SAME
int [quote_all] -9223372036854775808 => Ok("-9223372036854775808\n") <= SAME
int [quote_all] -170141183460469231731687303715884105728 => Ok("-170141183460469231731687303715884105728\n") <= SAME
int [quote_all] 255 => Ok("255\n") <= SAME
int [quote_all] 65535 => Ok("65535\n") <= SAME
int [quote_all] 4294967295 => Ok("4294967295\n") <= SAME
int [quote_all] 18446744073709551615 => Ok("18446744073709551615\n") <= SAME
int [quote_all] 340282366920938463463374607431768211455 => Ok("340282366920938463463374607431768211455\n") <= SAME
int [quote_all] [0, -1, 1, 9223372036854775807] => Ok("- 0\n- -1\n- 1\n- 9223372036854775807\n") <= SAME
intkeys [quote_all] {-170141183460469231731687303715884105728: 340282366920938463463374607431768211455, 0: 0, 170141183460469231731687303715884105727: 1} => Ok("-170141183460469231731687303715884105728: 340282366920938463463374607431768211455\n0: 0\n170141183460469231731687303715884105727: 1\n") <= SAME
boolkeys [quote_all] {false: true, true: false} => Ok("false: true\ntrue: false\n") <= SAME
bool [quote_all] true => Ok("true\n") <= SAME
bool [quote_all] [false, true] => Ok("- false\n- true\n") <= SAME
unit [quote_all] () => Ok("null\n") <= SAME
none [quote_all] None => Ok("null\n") <= SAME
some [quote_all] Some("~") => Ok("'~'\n") <= SAME
some [quote_all] [Some(1.5), None] => Ok("- 1.5\n- null\n") <= SAME
unitenum [quote_all] Unit => Ok("'Unit'\n") <= SAME
unitenum [quote_all] [Unit] => Ok("- 'Unit'\n") <= SAME
char [quote_all] 'a' => Ok("'a'\n") <= SAME
char [quote_all] 'y' => Ok("'y'\n") <= SAME
char [quote_all] 'N' => Ok("'N'\n") <= SAME
char [quote_all] '~' => Ok("'~'\n") <= SAME
char [quote_all] '-' => Ok("'-'\n") <= SAME
char [quote_all] '#' => Ok("'#'\n") <= SAME
char [quote_all] '.' => Ok("'.'\n") <= SAME
char [quote_all] '?' => Ok("'?'\n") <= SAME
char [quote_all] ':' => Ok("':'\n") <= SAME
char [quote_all] ',' => Ok("','\n") <= SAME
char [quote_all] ' ' => Ok("' '\n") <= SAME
char [quote_all] '\t' => Ok("\"\\t\"\n") <= SAME
char [quote_all] '\n' => Ok("\"\\n\"\n") <= SAME
char [quote_all] '\r' => Ok("\"\\r\"\n") <= SAME
char [quote_all] '\'' => Ok("\"'\"\n") <= SAME
char [quote_all] '"' => Ok("'\"'\n") <= SAME
char [quote_all] '\\' => Ok("\"\\\\\"\n") <= SAME
char [quote_all] '\0' => Ok("\"\\0\"\n") <= SAME
char [quote_all] '\u{7f}' => Ok("\"\\x7F\"\n") <= SAME
char [quote_all] '\u{85}' => Ok("\"\\N\"\n") <= SAME
char [quote_all] '\u{a0}' => Ok("'\u{a0}'\n") <= SAME
char [quote_all] '\u{2028}' => Ok("'\u{2028}'\n") <= SAME
char [quote_all] '\u{feff}' => Ok("'\u{feff}'\n") <= SAME
char [quote_all] '0' => Ok("'0'\n") <= SAME
char [quote_all] '9' => Ok("'9'\n") <= SAME
char [quote_all] 'é' => Ok("'é'\n") <= SAME
char [quote_all] '😀' => Ok("'😀'\n") <= SAME
charseq [quote_all] ['a', 'y', 'N', '~', '-', '#', '.', '?', ':', ',', ' ', '\t', '\n', '\r', '\'', '"', '\\', '\0', '\u{7f}', '\u{85}', '\u{a0}', '\u{2028}', '\u{feff}', '0', '9', 'é', '😀'] => Ok("- 'a'\n- 'y'\n- 'N'\n- '~'\n- '-'\n- '#'\n- '.'\n- '?'\n- ':'\n- ','\n- ' '\n- \"\\t\"\n- \"\\n\"\n- \"\\r\"\n- \"'\"\n- '\"'\n- \"\\\\\"\n- \"\\0\"\n- \"\\x7F\"\n- \"\\N\"\n- '\u{a0}'\n- '\u{2028}'\n- '\u{feff}'\n- '0'\n- '9'\n- 'é'\n- '😀'\n") <= SAME
charkeys [quote_all] {'\0': '\0', '\t': '\t', '\n': '\n', '\r': '\r', ' ': ' ', '"': '"', '#': '#', '\'': '\'', ',': ',', '-': '-', '.': '.', '0': '0', '9': '9', ':': ':', '?': '?', 'N': 'N', '\\': '\\', 'a': 'a', 'y': 'y', '~': '~', '\u{7f}': '\u{7f}', '\u{85}': '\u{85}', '\u{a0}': '\u{a0}', 'é': 'é', '\u{2028}': '\u{2028}', '\u{feff}': '\u{feff}', '😀': '😀'} => Ok("\"\\u0000\": \"\\0\"\n\"\\t\": \"\\t\"\n\"\\n\": \"\\n\"\n\"\\r\": \"\\r\"\n\" \": ' '\n\"\\\"\": '\"'\n\"#\": '#'\n\"'\": \"'\"\n\",\": ','\n\"-\": '-'\n.: '.'\n\"0\": '0'\n\"9\": '9'\n\":\": ':'\n\"?\": '?'\n\"N\": 'N'\n\\: \"\\\\\"\na: 'a'\n\"y\": 'y'\n\"~\": '~'\n\"\\u007F\": \"\\x7F\"\n\"\\u0085\": \"\\N\"\n\"\u{a0}\": '\u{a0}'\né: 'é'\n\"\u{2028}\": '\u{2028}'\n\"\u{feff}\": '\u{feff}'\n😀: '😀'\n") <= SAME
f64 [yaml12] 0.0 => Ok("%YAML 1.2\n---\n0.0\n") <= SAME
f64 [yaml12] -0.0 => Ok("%YAML 1.2\n---\n-0.0\n") <= SAME
f64 [yaml12] 1.0 => Ok("%YAML 1.2\n---\n1.0\n") <= SAME
f64 [yaml12] -1.5 => Ok("%YAML 1.2\n---\n-1.5\n") <= SAME
f64 [yaml12] 0.1 => Ok("%YAML 1.2\n---\n0.1\n") <= SAME
f64 [yaml12] 1000000000000000.0 => Ok("%YAML 1.2\n---\n1000000000000000.0\n") <= SAME
f64 [yaml12] 1e16 => Ok("%YAML 1.2\n---\n1.0e+16\n") <= SAME
f64 [yaml12] 1e21 => Ok("%YAML 1.2\n---\n1.0e+21\n") <= SAME
f64 [yaml12] 1e22 => Ok("%YAML 1.2\n---\n1.0e+22\n") <= SAME
f64 [yaml12] 1e-5 => Ok("%YAML 1.2\n---\n0.00001\n") <= SAME
f64 [yaml12] 1e-7 => Ok("%YAML 1.2\n---\n1.0e-7\n") <= SAME
f64 [yaml12] 4e-6 => Ok("%YAML 1.2\n---\n4.0e-6\n") <= SAME
f64 [yaml12] 1.5e300 => Ok("%YAML 1.2\n---\n1.5e+300\n") <= SAME
f64 [yaml12] -2.5e-300 => Ok("%YAML 1.2\n---\n-2.5e-300\n") <= SAME
f64 [yaml12] 123456789.125 => Ok("%YAML 1.2\n---\n123456789.125\n") <= SAME
f64 [yaml12] 2.2250738585072014e-308 => Ok("%YAML 1.2\n---\n2.2250738585072014e-308\n") <= SAME
f64 [yaml12] 5e-324 => Ok("%YAML 1.2\n---\n5.0e-324\n") <= SAME
f64 [yaml12] 1.7976931348623157e308 => Ok("%YAML 1.2\n---\n1.7976931348623157e+308\n") <= SAME
f64 [yaml12] -1.7976931348623157e308 => Ok("%YAML 1.2\n---\n-1.7976931348623157e+308\n") <= SAME
f64 [yaml12] 2.220446049250313e-16 => Ok("%YAML 1.2\n---\n2.220446049250313e-16\n") <= SAME
f64 [yaml12] NaN => Ok("%YAML 1.2\n---\n.nan\n") <= SAME
f64 [yaml12] inf => Ok("%YAML 1.2\n---\n.inf\n") <= SAME
f64 [yaml12] -inf => Ok("%YAML 1.2\n---\n-.inf\n") <= SAME
f32 [yaml12] 0.0 => Ok("%YAML 1.2\n---\n0.0\n") <= SAME
f32 [yaml12] -0.0 => Ok("%YAML 1.2\n---\n-0.0\n") <= SAME
f32 [yaml12] 1.0 => Ok("%YAML 1.2\n---\n1.0\n") <= SAME
f32 [yaml12] 0.1 => Ok("%YAML 1.2\n---\n0.1\n") <= SAME
f32 [yaml12] 10000000000.0 => Ok("%YAML 1.2\n---\n10000000000.0\n") <= SAME
f32 [yaml12] 1e-10 => Ok("%YAML 1.2\n---\n1.0e-10\n") <= SAME
f32 [yaml12] 3.4e38 => Ok("%YAML 1.2\n---\n3.4e+38\n") <= SAME
f32 [yaml12] 1e-45 => Ok("%YAML 1.2\n---\n1.0e-45\n") <= SAME
f32 [yaml12] 16777216.0 => Ok("%YAML 1.2\n---\n16777216.0\n") <= SAME
f32 [yaml12] 3.4028235e38 => Ok("%YAML 1.2\n---\n3.4028235e+38\n") <= SAME
f32 [yaml12] 1.1754944e-38 => Ok("%YAML 1.2\n---\n1.1754944e-38\n") <= SAME
f32 [yaml12] NaN => Ok("%YAML 1.2\n---\n.nan\n") <= SAME
f32 [yaml12] inf => Ok("%YAML 1.2\n---\n.inf\n") <= SAME
f32 [yaml12] -inf => Ok("%YAML 1.2\n---\n-.inf\n") <= SAME
f64seq [yaml12] => Ok("%YAML 1.2\n---\n- 0.0\n- -0.0\n- 1.0\n- -1.5\n- 0.1\n- 1000000000000000.0\n- 1.0e+16\n- 1.0e+21\n- 1.0e+22\n- 0.00001\n- 1.0e-7\n- 4.0e-6\n- 1.5e+300\n- -2.5e-300\n- 123456789.125\n- 2.2250738585072014e-308\n- 5.0e-324\n- 1.7976931348623157e+308\n- -1.7976931348623157e+308\n- 2.220446049250313e-16\n- .nan\n- .inf\n- -.inf\n")
f32flow [yaml12] => Ok("%YAML 1.2\n---\n[0.0, -0.0, 1.0, 0.1, 10000000000.0, 1.0e-10, 3.4e+38, 1.0e-45, 16777216.0, 3.4028235e+38, 1.1754944e-38, .nan, .inf, -.inf]\n")
f64keys [yaml12] => Ok("%YAML 1.2\n---\n0.0: 0.0\n-0.0: -0.0\n1.0: 1.0\n-1.5: -1.5\n0.1: 0.1\n1000000000000000.0: 1000000000000000.0\n1.0e+16: 1.0e+16\n1.0e+21: 1.0e+21\n1.0e+22: 1.0e+22\n0.00001: 0.00001\n1.0e-7: 1.0e-7\n4.0e-6: 4.0e-6\n1.5e+300: 1.5e+300\n-2.5e-300: -2.5e-300\n123456789.125: 123456789.125\n2.2250738585072014e-308: 2.2250738585072014e-308\n5.0e-324: 5.0e-324\n1.7976931348623157e+308: 1.7976931348623157e+308\n-1.7976931348623157e+308: -1.7976931348623157e+308\n2.220446049250313e-16: 2.220446049250313e-16\n.nan: .nan\n.inf: .inf\n-.inf: -.inf\n")
f32keys [yaml12] => Ok("%YAML 1.2\n---\n0.0: 0.0\n-0.0: -0.0\n1.0: 1.0\n0.1: 0.1\n10000000000.0: 10000000000.0\n1.0e-10: 1.0e-10\n3.4e+38: 3.4e+38\n1.0e-45: 1.0e-45\n16777216.0: 16777216.0\n3.4028235e+38: 3.4028235e+38\n1.1754944e-38: 1.1754944e-38\n.nan: .nan\n.inf: .inf\n-.inf: -.inf\n")
f64enum [yaml12] 1e21 => Ok("%YAML 1.2\n---\nNum: 1.0e+21\n") <= Num(1e21)
f64enum [yaml12] 4e-6 => Ok("%YAML 1.2\n---\nNum: 4.0e-6\n") <= Num(4e-6)
f64enum [yaml12] -0.0 => Ok("%YAML 1.2\n---\nNum: -0.0\n") <= Num(-0.0)
f64enum [yaml12] NaN => Ok("%YAML 1.2\n---\nNum: .nan\n") <= Num(NaN)
f64enum [yaml12] -inf => Ok("%YAML 1.2\n---\nNum: -.inf\n") <= Num(-inf)
f64enum [yaml12] 2.0 => Ok("%YAML 1.2\n---\nNum: 2.0\n") <= Num(2.0)
int [yaml12] -128 => Ok("%YAML 1.2\n---\n-128\n") <= SAME
int [yaml12] -32768 => Ok("%YAML 1.2\n---\n-32768\n") <= SAME
int [yaml12] -2147483648 => Ok("%YAML 1.2\n---\n-2147483648\n") <= SAME
int [yaml12] -9223372036854775808 => Ok("%YAML 1.2\n---\n-9223372036854775808\n") <= SAME
int [yaml12] -170141183460469231731687303715884105728 => Ok("%YAML 1.2\n---\n-170141183460469231731687303715884105728\n") <= SAME
int [yaml12] 255 => Ok("%YAML 1.2\n---\n255\n") <= SAME
int [yaml12] 65535 => Ok("%YAML 1.2\n---\n65535\n") <= SAME
int [yaml12] 4294967295 => Ok("%YAML 1.2\n---\n4294967295\n") <= SAME
int [yaml12] 18446744073709551615 => Ok("%YAML 1.2\n---\n18446744073709551615\n") <= SAME
int [yaml12] 340282366920938463463374607431768211455 => Ok("%YAML 1.2\n---\n340282366920938463463374607431768211455\n") <= SAME
int [yaml12] [0, -1, 1, 9223372036854775807] => Ok("%YAML 1.2\n---\n- 0\n- -1\n- 1\n- 9223372036854775807\n") <= SAME
intkeys [yaml12] {-170141183460469231731687303715884105728: 340282366920938463463374607431768211455, 0: 0, 170141183460469231731687303715884105727: 1} => Ok("%YAML 1.2\n---\n-170141183460469231731687303715884105728: 340282366920938463463374607431768211455\n0: 0\n170141183460469231731687303715884105727: 1\n") <= SAME
boolkeys [yaml12] {false: true, true: false} => Ok("%YAML 1.2\n---\nfalse: true\ntrue: false\n") <= SAME
bool [yaml12] true => Ok("%YAML 1.2\n---\ntrue\n") <= SAME
bool [yaml12] [false, true] => Ok("%YAML 1.2\n---\n- false\n- true\n") <= SAME
unit [yaml12] () => Ok("%YAML 1.2\n---\nnull\n") <= SAME
none [yaml12] None => Ok("%YAML 1.2\n---\nnull\n") <= SAME
some [yaml12] Some("~") => Ok("%YAML 1.2\n---\n\"~\"\n") <= SAME
some [yaml12] [Some(1.5), None] => Ok("%YAML 1.2\n---\n- 1.5\n- null\n") <= SAME
unitenum [yaml12] Unit => Ok("%YAML 1.2\n---\nUnit\n") <= SAME
unitenum [yaml12] [Unit] => Ok("%YAML 1.2\n---\n- Unit\n") <= SAME
char [yaml12] 'a' => Ok("%YAML 1.2\n---\na\n") <= SAME
char [yaml12] 'y' => Ok("%YAML 1.2\n---\ny\n") <= SAME
char [yaml12] 'N' => Ok("%YAML 1.2\n---\nN\n") <= SAME
char [yaml12] '~' => Ok("%YAML 1.2\n---\n\"~\"\n") <= SAME
char [yaml12] '-' => Ok("%YAML 1.2\n---\n'-'\n") <= SAME
char [yaml12] '#' => Ok("%YAML 1.2\n---\n'#'\n") <= SAME
char [yaml12] '.' => Ok("%YAML 1.2\n---\n'.'\n") <= SAME
char [yaml12] '?' => Ok("%YAML 1.2\n---\n\"?\"\n") <= SAME
char [yaml12] ':' => Ok("%YAML 1.2\n---\n\":\"\n") <= SAME
char [yaml12] ',' => Ok("%YAML 1.2\n---\n\",\"\n") <= SAME
char [yaml12] ' ' => Ok("%YAML 1.2\n---\n\" \"\n") <= SAME
char [yaml12] '\t' => Ok("%YAML 1.2\n---\n\"\\t\"\n") <= SAME
char [yaml12] '\n' => Ok("%YAML 1.2\n---\n\"\\n\"\n") <= SAME
char [yaml12] '\r' => Ok("%YAML 1.2\n---\n\"\\r\"\n") <= SAME
char [yaml12] '\'' => Ok("%YAML 1.2\n---\n\"'\"\n") <= SAME
char [yaml12] '"' => Ok("%YAML 1.2\n---\n\"\\\"\"\n") <= SAME
char [yaml12] '\\' => Ok("%YAML 1.2\n---\n\\\n") <= SAME
char [yaml12] '\0' => Ok("%YAML 1.2\n---\n\"\\0\"\n") <= SAME
char [yaml12] '\u{7f}' => Ok("%YAML 1.2\n---\n\"\\x7F\"\n") <= SAME
char [yaml12] '\u{85}' => Ok("%YAML 1.2\n---\n\"\\N\"\n") <= SAME
char [yaml12] '\u{a0}' => Ok("%YAML 1.2\n---\n\"\u{a0}\"\n") <= SAME
char [yaml12] '\u{2028}' => Ok("%YAML 1.2\n---\n\"\\L\"\n") <= SAME
char [yaml12] '\u{feff}' => Ok("%YAML 1.2\n---\n\"\\uFEFF\"\n") <= SAME
char [yaml12] '0' => Ok("%YAML 1.2\n---\n\"0\"\n") <= SAME
char [yaml12] '9' => Ok("%YAML 1.2\n---\n\"9\"\n") <= SAME
char [yaml12] 'é' => Ok("%YAML 1.2\n---\né\n") <= SAME
char [yaml12] '😀' => Ok("%YAML 1.2\n---\n😀\n") <= SAME
charseq [yaml12] ['a', 'y', 'N', '~', '-', '#', '.', '?', ':', ',', ' ', '\t', '\n', '\r', '\'', '"', '\\', '\0', '\u{7f}', '\u{85}', '\u{a0}', '\u{2028}', '\u{feff}', '0', '9', 'é', '😀'] => Ok("%YAML 1.2\n---\n- a\n- y\n- N\n- \"~\"\n- '-'\n- '#'\n- '.'\n- \"?\"\n- \":\"\n- \",\"\n- \" \"\n- \"\\t\"\n- \"\\n\"\n- \"\\r\"\n- \"'\"\n- \"\\\"\"\n- \\\n- \"\\0\"\n- \"\\x7F\"\n- \"\\N\"\n- \"\u{a0}\"\n- \"\\L\"\n- \"\\uFEFF\"\n- \"0\"\n- \"9\"\n- é\n- 😀\n") <= SAME
charkeys [yaml12] {'\0': '\0', '\t': '\t', '\n': '\n', '\r': '\r', ' ': ' ', '"': '"', '#': '#', '\'': '\'', ',': ',', '-': '-', '.': '.', '0': '0', '9': '9', ':': ':', '?': '?', 'N': 'N', '\\': '\\', 'a': 'a', 'y': 'y', '~': '~', '\u{7f}': '\u{7f}', '\u{85}': '\u{85}', '\u{a0}': '\u{a0}', 'é': 'é', '\u{2028}': '\u{2028}', '\u{feff}': '\u{feff}', '😀': '😀'} => Ok("%YAML 1.2\n---\n\"\\u0000\": \"\\0\"\n\"\\t\": \"\\t\"\n\"\\n\": \"\\n\"\n\"\\r\": \"\\r\"\n\" \": \" \"\n\"\\\"\": \"\\\"\"\n\"#\": '#'\n\"'\": \"'\"\n\",\": \",\"\n\"-\": '-'\n.: '.'\n\"0\": \"0\"\n\"9\": \"9\"\n\":\": \":\"\n\"?\": \"?\"\nN: N\n\\: \\\na: a\ny: y\n\"~\": \"~\"\n\"\\u007F\": \"\\x7F\"\n\"\\u0085\": \"\\N\"\n\"\u{a0}\": \"\u{a0}\"\né: é\n\"\u{2028}\": \"\\L\"\n\"\u{feff}\": \"\\uFEFF\"\n😀: 😀\n") <= SAME
bytesroot [default] 0 => Ok("[]\n") <= SAME
bytesval [default] Blob { data: [], tail: "t" } => Ok("data: !!binary \ntail: t\n") <= SAME
bytesseq [default] 0 => Ok("- !!binary \n- !!binary \n")
bytesflow [default] 0 => Ok("[!!binary ]\n")
byteskey [default] 0 => Ok("? !!binary \n: 1\n")
bytesnested [default] 0 => Ok("k:\n  - b: !!binary \n")
bytesroot [default] 1 => Ok("- 0\n") <= SAME
bytesval [default] Blob { data: [0], tail: "t" } => Ok("data: !!binary AA==\ntail: t\n") <= SAME
bytesseq [default] 1 => Ok("- !!binary AA==\n- !!binary AA==\n")
bytesflow [default] 1 => Ok("[!!binary AA==]\n")
byteskey [default] 1 => Ok("? !!binary AA==\n: 1\n")
bytesnested [default] 1 => Ok("k:\n  - b: !!binary AA==\n")
bytesroot [default] 6 => Ok("- 0\n- 1\n- 2\n- 253\n- 254\n- 255\n") <= SAME
bytesval [default] Blob { data: [0, 1, 2, 253, 254, 255], tail: "t" } => Ok("data: !!binary AAEC/f7/\ntail: t\n") <= SAME
bytesseq [default] 6 => Ok("- !!binary AAEC/f7/\n- !!binary AAEC/f7/\n")
bytesflow [default] 6 => Ok("[!!binary AAEC/f7/]\n")
byteskey [default] 6 => Ok("? !!binary AAEC/f7/\n: 1\n")
bytesnested [default] 6 => Ok("k:\n  - b: !!binary AAEC/f7/\n")
bytesroot [default] 27 => Ok("- 104\n- 101\n- 108\n- 108\n- 111\n- 32\n- 119\n- 111\n- 114\n- 108\n- 100\n- 44\n- 32\n- 116\n- 104\n- 105\n- 115\n- 32\n- 105\n- 115\n- 32\n- 98\n- 105\n- 110\n- 97\n- 114\n- 121\n") <= SAME
bytesval [default] Blob { data: [104, 101, 108, 108, 111, 32, 119, 111, 114, 108, 100, 44, 32, 116, 104, 105, 115, 32, 105, 115, 32, 98, 105, 110, 97, 114, 121], tail: "t" } => Ok("data: !!binary aGVsbG8gd29ybGQsIHRoaXMgaXMgYmluYXJ5\ntail: t\n") <= SAME
bytesseq [default] 27 => Ok("- !!binary aGVsbG8gd29ybGQsIHRoaXMgaXMgYmluYXJ5\n- !!binary aGVsbG8gd29ybGQsIHRoaXMgaXMgYmluYXJ5\n")
bytesflow [default] 27 => Ok("[!!binary aGVsbG8gd29ybGQsIHRoaXMgaXMgYmluYXJ5]\n")
byteskey [default] 27 => Ok("? !!binary aGVsbG8gd29ybGQsIHRoaXMgaXMgYmluYXJ5\n: 1\n")
bytesnested [default] 27 => Ok("k:\n  - b: !!binary aGVsbG8gd29ybGQsIHRoaXMgaXMgYmluYXJ5\n")
bytesroot [default] 256 => Ok("- 0\n- 1\n- 2\n- 3\n- 4\n- 5\n- 6\n- 7\n- 8\n- 9\n- 10\n- 11\n- 12\n- 13\n- 14\n- 15\n- 16\n- 17\n- 18\n- 19\n- 20\n- 21\n- 22\n- 23\n- 24\n- 25\n- 26\n- 27\n- 28\n- 29\n- 30\n- 31\n- 32\n- 33\n- 34\n- 35\n- 36\n- 37\n- 38\n- 39\n- 40\n- 41\n- 42\n- 43\n- 44\n- 45\n- 46\n- 47\n- 48\n- 49\n- 50\n- 51\n- 52\n- 53\n- 54\n- 55\n- 56\n- 57\n- 58\n- 59\n- 60\n- 61\n- 62\n- 63\n- 64\n- 65\n- 66\n- 67\n- 68\n- 69\n- 70\n- 71\n- 72\n- 73\n- 74\n- 75\n- 76\n- 77\n- 78\n- 79\n- 80\n- 81\n- 82\n- 83\n- 84\n- 85\n- 86\n- 87\n- 88\n- 89\n- 90\n- 91\n- 92\n- 93\n- 94\n- 95\n- 96\n- 97\n- 98\n- 99\n- 100\n- 101\n- 102\n- 103\n- 104\n- 105\n- 106\n- 107\n- 108\n- 109\n- 110\n- 111\n- 112\n- 113\n- 114\n- 115\n- 116\n- 117\n- 118\n- 119\n- 120\n- 121\n- 122\n- 123\n- 124\n- 125\n- 126\n- 127\n- 128\n- 129\n- 130\n- 131\n- 132\n- 133\n- 134\n- 135\n- 136\n- 137\n- 138\n- 139\n- 140\n- 141\n- 142\n- 143\n- 144\n- 145\n- 146\n- 147\n- 148\n- 149\n- 150\n- 151\n- 152\n- 153\n- 154\n- 155\n- 156\n- 157\n- 158\n- 159\n- 160\n- 161\n- 162\n- 163\n- 164\n- 165\n- 166\n- 167\n- 168\n- 169\n- 170\n- 171\n- 172\n- 173\n- 174\n- 175\n- 176\n- 177\n- 178\n- 179\n- 180\n- 181\n- 182\n- 183\n- 184\n- 185\n- 186\n- 187\n- 188\n- 189\n- 190\n- 191\n- 192\n- 193\n- 194\n- 195\n- 196\n- 197\n- 198\n- 199\n- 200\n- 201\n- 202\n- 203\n- 204\n- 205\n- 206\n- 207\n- 208\n- 209\n- 210\n- 211\n- 212\n- 213\n- 214\n- 215\n- 216\n- 217\n- 218\n- 219\n- 220\n- 221\n- 222\n- 223\n- 224\n- 225\n- 226\n- 227\n- 228\n- 229\n- 230\n- 231\n- 232\n- 233\n- 234\n- 235\n- 236\n- 237\n- 238\n- 239\n- 240\n- 241\n- 242\n- 243\n- 244\n- 245\n- 246\n- 247\n- 248\n- 249\n- 250\n- 251\n- 252\n- 253\n- 254\n- 255\n") <= SAME
bytesval [default] Blob { data: [0, 1, 2, 3, 4, 5, 6, 7, 8, 9, 10, 11, 12, 13, 14, 15, 16, 17, 18, 19, 20, 21, 22, 23, 24, 25, 26, 27, 28, 29, 30, 31, 32, 33, 34, 35, 36, 37, 38, 39, 40, 41, 42, 43, 44, 45, 46, 47, 48, 49, 50, 51, 52, 53, 54, 55, 56, 57, 58, 59, 60, 61, 62, 63, 64, 65, 66, 67, 68, 69, 70, 71, 72, 73, 74, 75, 76, 77, 78, 79, 80, 81, 82, 83, 84, 85, 86, 87, 88, 89, 90, 91, 92, 93, 94, 95, 96, 97, 98, 99, 100, 101, 102, 103, 104, 105, 106, 107, 108, 109, 110, 111, 112, 113, 114, 115, 116, 117, 118, 119, 120, 121, 122, 123, 124, 125, 126, 127, 128, 129, 130, 131, 132, 133, 134, 135, 136, 137, 138, 139, 140, 141, 142, 143, 144, 145, 146, 147, 148, 149, 150, 151, 152, 153, 154, 155, 156, 157, 158, 159, 160, 161, 162, 163, 164, 165, 166, 167, 168, 169, 170, 171, 172, 173, 174, 175, 176, 177, 178, 179, 180, 181, 182, 183, 184, 185, 186, 187, 188, 189, 190, 191, 192, 193, 194, 195, 196, 197, 198, 199, 200, 201, 202, 203, 204, 205, 206, 207, 208, 209, 210, 211, 212, 213, 214, 215, 216, 217, 218, 219, 220, 221, 222, 223, 224, 225, 226, 227, 228, 229, 230, 231, 232, 233, 234, 235, 236, 237, 238, 239, 240, 241, 242, 243, 244, 245, 246, 247, 248, 249, 250, 251, 252, 253, 254, 255], tail: "t" } => Ok("data: !!binary AAECAwQFBgcICQoLDA0ODxAREhMUFRYXGBkaGxwdHh8gISIjJCUmJygpKissLS4vMDEyMzQ1Njc4OTo7PD0+P0BBQkNERUZHSElKS0xNTk9QUVJTVFVWV1hZWltcXV5fYGFiY2RlZmdoaWprbG1ub3BxcnN0dXZ3eHl6e3x9fn+AgYKDhIWGh4iJiouMjY6PkJGSk5SVlpeYmZqbnJ2en6ChoqOkpaanqKmqq6ytrq+wsbKztLW2t7i5uru8vb6/wMHCw8TFxsfIycrLzM3Oz9DR0tPU1dbX2Nna29zd3t/g4eLj5OXm5+jp6uvs7e7v8PHy8/T19vf4+fr7/P3+/w==\ntail: t\n") <= SAME
bytesseq [default] 256 => Ok("- !!binary AAECAwQFBgcICQoLDA0ODxAREhMUFRYXGBkaGxwdHh8gISIjJCUmJygpKissLS4vMDEyMzQ1Njc4OTo7PD0+P0BBQkNERUZHSElKS0xNTk9QUVJTVFVWV1hZWltcXV5fYGFiY2RlZmdoaWprbG1ub3BxcnN0dXZ3eHl6e3x9fn+AgYKDhIWGh4iJiouMjY6PkJGSk5SVlpeYmZqbnJ2en6ChoqOkpaanqKmqq6ytrq+wsbKztLW2t7i5uru8vb6/wMHCw8TFxsfIycrLzM3Oz9DR0tPU1dbX2Nna29zd3t/g4eLj5OXm5+jp6uvs7e7v8PHy8/T19vf4+fr7/P3+/w==\n- !!binary AAECAwQFBgcICQoLDA0ODxAREhMUFRYXGBkaGxwdHh8gISIjJCUmJygpKissLS4vMDEyMzQ1Njc4OTo7PD0+P0BBQkNERUZHSElKS0xNTk9QUVJTVFVWV1hZWltcXV5fYGFiY2RlZmdoaWprbG1ub3BxcnN0dXZ3eHl6e3x9fn+AgYKDhIWGh4iJiouMjY6PkJGSk5SVlpeYmZqbnJ2en6ChoqOkpaanqKmqq6ytrq+wsbKztLW2t7i5uru8vb6/wMHCw8TFxsfIycrLzM3Oz9DR0tPU1dbX2Nna29zd3t/g4eLj5OXm5+jp6uvs7e7v8PHy8/T19vf4+fr7/P3+/w==\n")
bytesflow [default] 256 => Ok("[!!binary AAECAwQFBgcICQoLDA0ODxAREhMUFRYXGBkaGxwdHh8gISIjJCUmJygpKissLS4vMDEyMzQ1Njc4OTo7PD0+P0BBQkNERUZHSElKS0xNTk9QUVJTVFVWV1hZWltcXV5fYGFiY2RlZmdoaWprbG1ub3BxcnN0dXZ3eHl6e3x9fn+AgYKDhIWGh4iJiouMjY6PkJGSk5SVlpeYmZqbnJ2en6ChoqOkpaanqKmqq6ytrq+wsbKztLW2t7i5uru8vb6/wMHCw8TFxsfIycrLzM3Oz9DR0tPU1dbX2Nna29zd3t/g4eLj5OXm5+jp6uvs7e7v8PHy8/T19vf4+fr7/P3+/w==]\n")
byteskey [default] 256 => Ok("? !!binary AAECAwQFBgcICQoLDA0ODxAREhMUFRYXGBkaGxwdHh8gISIjJCUmJygpKissLS4vMDEyMzQ1Njc4OTo7PD0+P0BBQkNERUZHSElKS0xNTk9QUVJTVFVWV1hZWltcXV5fYGFiY2RlZmdoaWprbG1ub3BxcnN0dXZ3eHl6e3x9fn+AgYKDhIWGh4iJiouMjY6PkJGSk5SVlpeYmZqbnJ2en6ChoqOkpaanqKmqq6ytrq+wsbKztLW2t7i5uru8vb6/wMHCw8TFxsfIycrLzM3Oz9DR0tPU1dbX2Nna29zd3t/g4eLj5OXm5+jp6uvs7e7v8PHy8/T19vf4+fr7/P3+/w==\n: 1\n")
bytesnested [default] 256 => Ok("k:\n  - b: !!binary AAECAwQFBgcICQoLDA0ODxAREhMUFRYXGBkaGxwdHh8gISIjJCUmJygpKissLS4vMDEyMzQ1Njc4OTo7PD0+P0BBQkNERUZHSElKS0xNTk9QUVJTVFVWV1hZWltcXV5fYGFiY2RlZmdoaWprbG1ub3BxcnN0dXZ3eHl6e3x9fn+AgYKDhIWGh4iJiouMjY6PkJGSk5SVlpeYmZqbnJ2en6ChoqOkpaanqKmqq6ytrq+wsbKztLW2t7i5uru8vb6/wMHCw8TFxsfIycrLzM3Oz9DR0tPU1dbX2Nna29zd3t/g4eLj5OXm5+jp6uvs7e7v8PHy8/T19vf4+fr7/P3+/w==\n")
bytesroot [quote_all] 0 => Ok("[]\n") <= SAME
bytesval [quote_all] Blob { data: [], tail: "t" } => Ok("data: !!binary \ntail: 't'\n") <= SAME
bytesseq [quote_all] 0 => Ok("- !!binary \n- !!binary \n")
bytesflow [quote_all] 0 => Ok("[!!binary ]\n")
byteskey [quote_all] 0 => Ok("? !!binary \n: 1\n")
bytesnested [quote_all] 0 => Ok("k:\n  - b: !!binary \n")
bytesroot [quote_all] 1 => Ok("- 0\n") <= SAME
bytesval [quote_all] Blob { data: [0], tail: "t" } => Ok("data: !!binary AA==\ntail: 't'\n") <= SAME
bytesseq [quote_all] 1 => Ok("- !!binary AA==\n- !!binary AA==\n")
bytesflow [quote_all] 1 => Ok("[!!binary AA==]\n")
byteskey [quote_all] 1 => Ok("? !!binary AA==\n: 1\n")
bytesnested [quote_all] 1 => Ok("k:\n  - b: !!binary AA==\n")
bytesroot [quote_all] 6 => Ok("- 0\n- 1\n- 2\n- 253\n- 254\n- 255\n") <= SAME
bytesval [quote_all] Blob { data: [0, 1, 2, 253, 254, 255], tail: "t" } => Ok("data: !!binary AAEC/f7/\ntail: 't'\n") <= SAME
bytesseq [quote_all] 6 => Ok("- !!binary AAEC/f7/\n- !!binary AAEC/f7/\n")
bytesflow [quote_all] 6 => Ok("[!!binary AAEC/f7/]\n")
byteskey [quote_all] 6 => Ok("? !!binary AAEC/f7/\n: 1\n")
bytesnested [quote_all] 6 => Ok("k:\n  - b: !!binary AAEC/f7/\n")
bytesroot [quote_all] 27 => Ok("- 104\n- 101\n- 108\n- 108\n- 111\n- 32\n- 119\n- 111\n- 114\n- 108\n- 100\n- 44\n- 32\n- 116\n- 104\n- 105\n- 115\n- 32\n- 105\n- 115\n- 32\n- 98\n- 105\n- 110\n- 97\n- 114\n- 121\n") <= SAME
bytesval [quote_all] Blob { data: [104, 101, 108, 108, 111, 32, 119, 111, 114, 108, 100, 44, 32, 116, 104, 105, 115, 32, 105, 115, 32, 98, 105, 110, 97, 114, 121], tail: "t" } => Ok("data: !!binary aGVsbG8gd29ybGQsIHRoaXMgaXMgYmluYXJ5\ntail: 't'\n") <= SAME
bytesseq [quote_all] 27 => Ok("- !!binary aGVsbG8gd29ybGQsIHRoaXMgaXMgYmluYXJ5\n- !!binary aGVsbG8gd29ybGQsIHRoaXMgaXMgYmluYXJ5\n")
bytesflow [quote_all] 27 => Ok("[!!binary aGVsbG8gd29ybGQsIHRoaXMgaXMgYmluYXJ5]\n")
byteskey [quote_all] 27 => Ok("? !!binary aGVsbG8gd29ybGQsIHRoaXMgaXMgYmluYXJ5\n: 1\n")
bytesnested [quote_all] 27 => Ok("k:\n  - b: !!binary aGVsbG8gd29ybGQsIHRoaXMgaXMgYmluYXJ5\n")
bytesroot [quote_all] 256 => Ok("- 0\n- 1\n- 2\n- 3\n- 4\n- 5\n- 6\n- 7\n- 8\n- 9\n- 10\n- 11\n- 12\n- 13\n- 14\n- 15\n- 16\n- 17\n- 18\n- 19\n- 20\n- 21\n- 22\n- 23\n- 24\n- 25\n- 26\n- 27\n- 28\n- 29\n- 30\n- 31\n- 32\n- 33\n- 34\n- 35\n- 36\n- 37\n- 38\n- 39\n- 40\n- 41\n- 42\n- 43\n- 44\n- 45\n- 46\n- 47\n- 48\n- 49\n- 50\n- 51\n- 52\n- 53\n- 54\n- 55\n- 56\n- 57\n- 58\n- 59\n- 60\n- 61\n- 62\n- 63\n- 64\n- 65\n- 66\n- 67\n- 68\n- 69\n- 70\n- 71\n- 72\n- 73\n- 74\n- 75\n- 76\n- 77\n- 78\n- 79\n- 80\n- 81\n- 82\n- 83\n- 84\n- 85\n- 86\n- 87\n- 88\n- 89\n- 90\n- 91\n- 92\n- 93\n- 94\n- 95\n- 96\n- 97\n- 98\n- 99\n- 100\n- 101\n- 102\n- 103\n- 104\n- 105\n- 106\n- 107\n- 108\n- 109\n- 110\n- 111\n- 112\n- 113\n- 114\n- 115\n- 116\n- 117\n- 118\n- 119\n- 120\n- 121\n- 122\n- 123\n- 124\n- 125\n- 126\n- 127\n- 128\n- 129\n- 130\n- 131\n- 132\n- 133\n- 134\n- 135\n- 136\n- 137\n- 138\n- 139\n- 140\n- 141\n- 142\n- 143\n- 144\n- 145\n- 146\n- 147\n- 148\n- 149\n- 150\n- 151\n- 152\n- 153\n- 154\n- 155\n- 156\n- 157\n- 158\n- 159\n- 160\n- 161\n- 162\n- 163\n- 164\n- 165\n- 166\n- 167\n- 168\n- 169\n- 170\n- 171\n- 172\n- 173\n- 174\n- 175\n- 176\n- 177\n- 178\n- 179\n- 180\n- 181\n- 182\n- 183\n- 184\n- 185\n- 186\n- 187\n- 188\n- 189\n- 190\n- 191\n- 192\n- 193\n- 194\n- 195\n- 196\n- 197\n- 198\n- 199\n- 200\n- 201\n- 202\n- 203\n- 204\n- 205\n- 206\n- 207\n- 208\n- 209\n- 210\n- 211\n- 212\n- 213\n- 214\n- 215\n- 216\n- 217\n- 218\n- 219\n- 220\n- 221\n- 222\n- 223\n- 224\n- 225\n- 226\n- 227\n- 228\n- 229\n- 230\n- 231\n- 232\n- 233\n- 234\n- 235\n- 236\n- 237\n- 238\n- 239\n- 240\n- 241\n- 242\n- 243\n- 244\n- 245\n- 246\n- 247\n- 248\n- 249\n- 250\n- 251\n- 252\n- 253\n- 254\n- 255\n") <= SAME
bytesval [quote_all] Blob { data: [0, 1, 2, 3, 4, 5, 6, 7, 8, 9, 10, 11, 12, 13, 14, 15, 16, 17, 18, 19, 20, 21, 22, 23, 24, 25, 26, 27, 28, 29, 30, 31, 32, 33, 34, 35, 36, 37, 38, 39, 40, 41, 42, 43, 44, 45, 46, 47, 48, 49, 50, 51, 52, 53, 54, 55, 56, 57, 58, 59, 60, 61, 62, 63, 64, 65, 66, 67, 68, 69, 70, 71, 72, 73, 74, 75, 76, 77, 78, 79, 80, 81, 82, 83, 84, 85, 86, 87, 88, 89, 90, 91, 92, 93, 94, 95, 96, 97, 98, 99, 100, 101, 102, 103, 104, 105, 106, 107, 108, 109, 110, 111, 112, 113, 114, 115, 116, 117, 118, 119, 120, 121, 122, 123, 124, 125, 126, 127, 128, 129, 130, 131, 132, 133, 134, 135, 136, 137, 138, 139, 140, 141, 142, 143, 144, 145, 146, 147, 148, 149, 150, 151, 152, 153, 154, 155, 156, 157, 158, 159, 160, 161, 162, 163, 164, 165, 166, 167, 168, 169, 170, 171, 172, 173, 174, 175, 176, 177, 178, 179, 180, 181, 182, 183, 184, 185, 186, 187, 188, 189, 190, 191, 192, 193, 194, 195, 196, 197, 198, 199, 200, 201, 202, 203, 204, 205, 206, 207, 208, 209, 210, 211, 212, 213, 214, 215, 216, 217, 218, 219, 220, 221, 222, 223, 224, 225, 226, 227, 228, 229, 230, 231, 232, 233, 234, 235, 236, 237, 238, 239, 240, 241, 242, 243, 244, 245, 246, 247, 248, 249, 250, 251, 252, 253, 254, 255], tail: "t" } => Ok("data: !!binary AAECAwQFBgcICQoLDA0ODxAREhMUFRYXGBkaGxwdHh8gISIjJCUmJygpKissLS4vMDEyMzQ1Njc4OTo7PD0+P0BBQkNERUZHSElKS0xNTk9QUVJTVFVWV1hZWltcXV5fYGFiY2RlZmdoaWprbG1ub3BxcnN0dXZ3eHl6e3x9fn+AgYKDhIWGh4iJiouMjY6PkJGSk5SVlpeYmZqbnJ2en6ChoqOkpaanqKmqq6ytrq+wsbKztLW2t7i5uru8vb6/wMHCw8TFxsfIycrLzM3Oz9DR0tPU1dbX2Nna29zd3t/g4eLj5OXm5+jp6uvs7e7v8PHy8/T19vf4+fr7/P3+/w==\ntail: 't'\n") <= SAME
bytesseq [quote_all] 256 => Ok("- !!binary AAECAwQFBgcICQoLDA0ODxAREhMUFRYXGBkaGxwdHh8gISIjJCUmJygpKissLS4vMDEyMzQ1Njc4OTo7PD0+P0BBQkNERUZHSElKS0xNTk9QUVJTVFVWV1hZWltcXV5fYGFiY2RlZmdoaWprbG1ub3BxcnN0dXZ3eHl6e3x9fn+AgYKDhIWGh4iJiouMjY6PkJGSk5SVlpeYmZqbnJ2en6ChoqOkpaanqKmqq6ytrq+wsbKztLW2t7i5uru8vb6/wMHCw8TFxsfIycrLzM3Oz9DR0tPU1dbX2Nna29zd3t/g4eLj5OXm5+jp6uvs7e7v8PHy8/T19vf4+fr7/P3+/w==\n- !!binary AAECAwQFBgcICQoLDA0ODxAREhMUFRYXGBkaGxwdHh8gISIjJCUmJygpKissLS4vMDEyMzQ1Njc4OTo7PD0+P0BBQkNERUZHSElKS0xNTk9QUVJTVFVWV1hZWltcXV5fYGFiY2RlZmdoaWprbG1ub3BxcnN0dXZ3eHl6e3x9fn+AgYKDhIWGh4iJiouMjY6PkJGSk5SVlpeYmZqbnJ2en6ChoqOkpaanqKmqq6ytrq+wsbKztLW2t7i5uru8vb6/wMHCw8TFxsfIycrLzM3Oz9DR0tPU1dbX2Nna29zd3t/g4eLj5OXm5+jp6uvs7e7v8PHy8/T19vf4+fr7/P3+/w==\n")
bytesflow [quote_all] 256 => Ok("[!!binary AAECAwQFBgcICQoLDA0ODxAREhMUFRYXGBkaGxwdHh8gISIjJCUmJygpKissLS4vMDEyMzQ1Njc4OTo7PD0+P0BBQkNERUZHSElKS0xNTk9QUVJTVFVWV1hZWltcXV5fYGFiY2RlZmdoaWprbG1ub3BxcnN0dXZ3eHl6e3x9fn+AgYKDhIWGh4iJiouMjY6PkJGSk5SVlpeYmZqbnJ2en6ChoqOkpaanqKmqq6ytrq+wsbKztLW2t7i5uru8vb6/wMHCw8TFxsfIycrLzM3Oz9DR0tPU1dbX2Nna29zd3t/g4eLj5OXm5+jp6uvs7e7v8PHy8/T19vf4+fr7/P3+/w==]\n")
byteskey [quote_all] 256 => Ok("? !!binary AAECAwQFBgcICQoLDA0ODxAREhMUFRYXGBkaGxwdHh8gISIjJCUmJygpKissLS4vMDEyMzQ1Njc4OTo7PD0+P0BBQkNERUZHSElKS0xNTk9QUVJTVFVWV1hZWltcXV5fYGFiY2RlZmdoaWprbG1ub3BxcnN0dXZ3eHl6e3x9fn+AgYKDhIWGh4iJiouMjY6PkJGSk5SVlpeYmZqbnJ2en6ChoqOkpaanqKmqq6ytrq+wsbKztLW2t7i5uru8vb6/wMHCw8TFxsfIycrLzM3Oz9DR0tPU1dbX2Nna29zd3t/g4eLj5OXm5+jp6uvs7e7v8PHy8/T19vf4+fr7/P3+/w==\n: 1\n")
bytesnested [quote_all] 256 => Ok("k:\n  - b: !!binary AAECAwQFBgcICQoLDA0ODxAREhMUFRYXGBkaGxwdHh8gISIjJCUmJygpKissLS4vMDEyMzQ1Njc4OTo7PD0+P0BBQkNERUZHSElKS0xNTk9QUVJTVFVWV1hZWltcXV5fYGFiY2RlZmdoaWprbG1ub3BxcnN0dXZ3eHl6e3x9fn+AgYKDhIWGh4iJiouMjY6PkJGSk5SVlpeYmZqbnJ2en6ChoqOkpaanqKmqq6ytrq+wsbKztLW2t7i5uru8vb6/wMHCw8TFxsfIycrLzM3Oz9DR0tPU1dbX2Nna29zd3t/g4eLj5OXm5+jp6uvs7e7v8PHy8/T19vf4+fr7/P3+/w==\n")
bytesroot [yaml12] 0 => Ok("%YAML 1.2\n---\n[]\n") <= SAME
bytesval [yaml12] Blob { data: [], tail: "t" } => Ok("%YAML 1.2\n---\ndata: !!binary \ntail: t\n") <= SAME
bytesseq [yaml12] 0 => Ok("%YAML 1.2\n---\n- !!binary \n- !!binary \n")
bytesflow [yaml12] 0 => Ok("%YAML 1.2\n---\n[!!binary ]\n")
byteskey [yaml12] 0 => Ok("%YAML 1.2\n---\n? !!binary \n: 1\n")
bytesnested [yaml12] 0 => Ok("%YAML 1.2\n---\nk:\n  - b: !!binary \n")
bytesroot [yaml12] 1 => Ok("%YAML 1.2\n---\n- 0\n") <= SAME
bytesval [yaml12] Blob { data: [0], tail: "t" } => Ok("%YAML 1.2\n---\ndata: !!binary AA==\ntail: t\n") <= SAME
bytesseq [yaml12] 1 => Ok("%YAML 1.2\n---\n- !!binary AA==\n- !!binary AA==\n")
bytesflow [yaml12] 1 => Ok("%YAML 1.2\n---\n[!!binary AA==]\n")
byteskey [yaml12] 1 => Ok("%YAML 1.2\n---\n? !!binary AA==\n: 1\n")
bytesnested [yaml12] 1 => Ok("%YAML 1.2\n---\nk:\n  - b: !!binary AA==\n")
bytesroot [yaml12] 6 => Ok("%YAML 1.2\n---\n- 0\n- 1\n- 2\n- 253\n- 254\n- 255\n") <= SAME
bytesval [yaml12] Blob { data: [0, 1, 2, 253, 254, 255], tail: "t" } => Ok("%YAML 1.2\n---\ndata: !!binary AAEC/f7/\ntail: t\n") <= SAME
bytesseq [yaml12] 6 => Ok("%YAML 1.2\n---\n- !!binary AAEC/f7/\n- !!binary AAEC/f7/\n")
bytesflow [yaml12] 6 => Ok("%YAML 1.2\n---\n[!!binary AAEC/f7/]\n")
byteskey [yaml12] 6 => Ok("%YAML 1.2\n---\n? !!binary AAEC/f7/\n: 1\n")
bytesnested [yaml12] 6 => Ok("%YAML 1.2\n---\nk:\n  - b: !!binary AAEC/f7/\n")
bytesroot [yaml12] 27 => Ok("%YAML 1.2\n---\n- 104\n- 101\n- 108\n- 108\n- 111\n- 32\n- 119\n- 111\n- 114\n- 108\n- 100\n- 44\n- 32\n- 116\n- 104\n- 105\n- 115\n- 32\n- 105\n- 115\n- 32\n- 98\n- 105\n- 110\n- 97\n- 114\n- 121\n") <= SAME
bytesval [yaml12] Blob { data: [104, 101, 108, 108, 111, 32, 119, 111, 114, 108, 100, 44, 32, 116, 104, 105, 115, 32, 105, 115, 32, 98, 105, 110, 97, 114, 121], tail: "t" } => Ok("%YAML 1.2\n---\ndata: !!binary aGVsbG8gd29ybGQsIHRoaXMgaXMgYmluYXJ5\ntail: t\n") <= SAME
bytesseq [yaml12] 27 => Ok("%YAML 1.2\n---\n- !!binary aGVsbG8gd29ybGQsIHRoaXMgaXMgYmluYXJ5\n- !!binary aGVsbG8gd29ybGQsIHRoaXMgaXMgYmluYXJ5\n")
bytesflow [yaml12] 27 => Ok("%YAML 1.2\n---\n[!!binary aGVsbG8gd29ybGQsIHRoaXMgaXMgYmluYXJ5]\n")
byteskey [yaml12] 27 => Ok("%YAML 1.2\n---\n? !!binary aGVsbG8gd29ybGQsIHRoaXMgaXMgYmluYXJ5\n: 1\n")
bytesnested [yaml12] 27 => Ok("%YAML 1.2\n---\nk:\n  - b: !!binary aGVsbG8gd29ybGQsIHRoaXMgaXMgYmluYXJ5\n")
bytesroot [yaml12] 256 => Ok("%YAML 1.2\n---\n- 0\n- 1\n- 2\n- 3\n- 4\n- 5\n- 6\n- 7\n- 8\n- 9\n- 10\n- 11\n- 12\n- 13\n- 14\n- 15\n- 16\n- 17\n- 18\n- 19\n- 20\n- 21\n- 22\n- 23\n- 24\n- 25\n- 26\n- 27\n- 28\n- 29\n- 30\n- 31\n- 32\n- 33\n- 34\n- 35\n- 36\n- 37\n- 38\n- 39\n- 40\n- 41\n- 42\n- 43\n- 44\n- 45\n- 46\n- 47\n- 48\n- 49\n- 50\n- 51\n- 52\n- 53\n- 54\n- 55\n- 56\n- 57\n- 58\n- 59\n- 60\n- 61\n- 62\n- 63\n- 64\n- 65\n- 66\n- 67\n- 68\n- 69\n- 70\n- 71\n- 72\n- 73\n- 74\n- 75\n- 76\n- 77\n- 78\n- 79\n- 80\n- 81\n- 82\n- 83\n- 84\n- 85\n- 86\n- 87\n- 88\n- 89\n- 90\n- 91\n- 92\n- 93\n- 94\n- 95\n- 96\n- 97\n- 98\n- 99\n- 100\n- 101\n- 102\n- 103\n- 104\n- 105\n- 106\n- 107\n- 108\n- 109\n- 110\n- 111\n- 112\n- 113\n- 114\n- 115\n- 116\n- 117\n- 118\n- 119\n- 120\n- 121\n- 122\n- 123\n- 124\n- 125\n- 126\n- 127\n- 128\n- 129\n- 130\n- 131\n- 132\n- 133\n- 134\n- 135\n- 136\n- 137\n- 138\n- 139\n- 140\n- 141\n- 142\n- 143\n- 144\n- 145\n- 146\n- 147\n- 148\n- 149\n- 150\n- 151\n- 152\n- 153\n- 154\n- 155\n- 156\n- 157\n- 158\n- 159\n- 160\n- 161\n- 162\n- 163\n- 164\n- 165\n- 166\n- 167\n- 168\n- 169\n- 170\n- 171\n- 172\n- 173\n- 174\n- 175\n- 176\n- 177\n- 178\n- 179\n- 180\n- 181\n- 182\n- 183\n- 184\n- 185\n- 186\n- 187\n- 188\n- 189\n- 190\n- 191\n- 192\n- 193\n- 194\n- 195\n- 196\n- 197\n- 198\n- 199\n- 200\n- 201\n- 202\n- 203\n- 204\n- 205\n- 206\n- 207\n- 208\n- 209\n- 210\n- 211\n- 212\n- 213\n- 214\n- 215\n- 216\n- 217\n- 218\n- 219\n- 220\n- 221\n- 222\n- 223\n- 224\n- 225\n- 226\n- 227\n- 228\n- 229\n- 230\n- 231\n- 232\n- 233\n- 234\n- 235\n- 236\n- 237\n- 238\n- 239\n- 240\n- 241\n- 242\n- 243\n- 244\n- 245\n- 246\n- 247\n- 248\n- 249\n- 250\n- 251\n- 252\n- 253\n- 254\n- 255\n") <= SAME
bytesval [yaml12] Blob { data: [0, 1, 2, 3, 4, 5, 6, 7, 8, 9, 10, 11, 12, 13, 14, 15, 16, 17, 18, 19, 20, 21, 22, 23, 24, 25, 26, 27, 28, 29, 30, 31, 32, 33, 34, 35, 36, 37, 38, 39, 40, 41, 42, 43, 44, 45, 46, 47, 48, 49, 50, 51, 52, 53, 54, 55, 56, 57, 58, 59, 60, 61, 62, 63, 64, 65, 66, 67, 68, 69, 70, 71, 72, 73, 74, 75, 76, 77, 78, 79, 80, 81, 82, 83, 84, 85, 86, 87, 88, 89, 90, 91, 92, 93, 94, 95, 96, 97, 98, 99, 100, 101, 102, 103, 104, 105, 106, 107, 108, 109, 110, 111, 112, 113, 114, 115, 116, 117, 118, 119, 120, 121, 122, 123, 124, 125, 126, 127, 128, 129, 130, 131, 132, 133, 134, 135, 136, 137, 138, 139, 140, 141, 142, 143, 144, 145, 146, 147, 148, 149, 150, 151, 152, 153, 154, 155, 156, 157, 158, 159, 160, 161, 162, 163, 164, 165, 166, 167, 168, 169, 170, 171, 172, 173, 174, 175, 176, 177, 178, 179, 180, 181, 182, 183, 184, 185, 186, 187, 188, 189, 190, 191, 192, 193, 194, 195, 196, 197, 198, 199, 200, 201, 202, 203, 204, 205, 206, 207, 208, 209, 210, 211, 212, 213, 214, 215, 216, 217, 218, 219, 220, 221, 222, 223, 224, 225, 226, 227, 228, 229, 230, 231, 232, 233, 234, 235, 236, 237, 238, 239, 240, 241, 242, 243, 244, 245, 246, 247, 248, 249, 250, 251, 252, 253, 254, 255], tail: "t" } => Ok("%YAML 1.2\n---\ndata: !!binary AAECAwQFBgcICQoLDA0ODxAREhMUFRYXGBkaGxwdHh8gISIjJCUmJygpKissLS4vMDEyMzQ1Njc4OTo7PD0+P0BBQkNERUZHSElKS0xNTk9QUVJTVFVWV1hZWltcXV5fYGFiY2RlZmdoaWprbG1ub3BxcnN0dXZ3eHl6e3x9fn+AgYKDhIWGh4iJiouMjY6PkJGSk5SVlpeYmZqbnJ2en6ChoqOkpaanqKmqq6ytrq+wsbKztLW2t7i5uru8vb6/wMHCw8TFxsfIycrLzM3Oz9DR0tPU1dbX2Nna29zd3t/g4eLj5OXm5+jp6uvs7e7v8PHy8/T19vf4+fr7/P3+/w==\ntail: t\n") <= SAME
bytesseq [yaml12] 256 => Ok("%YAML 1.2\n---\n- !!binary AAECAwQFBgcICQoLDA0ODxAREhMUFRYXGBkaGxwdHh8gISIjJCUmJygpKissLS4vMDEyMzQ1Njc4OTo7PD0+P0BBQkNERUZHSElKS0xNTk9QUVJTVFVWV1hZWltcXV5fYGFiY2RlZmdoaWprbG1ub3BxcnN0dXZ3eHl6e3x9fn+AgYKDhIWGh4iJiouMjY6PkJGSk5SVlpeYmZqbnJ2en6ChoqOkpaanqKmqq6ytrq+wsbKztLW2t7i5uru8vb6/wMHCw8TFxsfIycrLzM3Oz9DR0tPU1dbX2Nna29zd3t/g4eLj5OXm5+jp6uvs7e7v8PHy8/T19vf4+fr7/P3+/w==\n- !!binary AAECAwQFBgcICQoLDA0ODxAREhMUFRYXGBkaGxwdHh8gISIjJCUmJygpKissLS4vMDEyMzQ1Njc4OTo7PD0+P0BBQkNERUZHSElKS0xNTk9QUVJTVFVWV1hZWltcXV5fYGFiY2RlZmdoaWprbG1ub3BxcnN0dXZ3eHl6e3x9fn+AgYKDhIWGh4iJiouMjY6PkJGSk5SVlpeYmZqbnJ2en6ChoqOkpaanqKmqq6ytrq+wsbKztLW2t7i5uru8vb6/wMHCw8TFxsfIycrLzM3Oz9DR0tPU1dbX2Nna29zd3t/g4eLj5OXm5+jp6uvs7e7v8PHy8/T19vf4+fr7/P3+/w==\n")
bytesflow [yaml12] 256 => Ok("%YAML 1.2\n---\n[!!binary AAECAwQFBgcICQoLDA0ODxAREhMUFRYXGBkaGxwdHh8gISIjJCUmJygpKissLS4vMDEyMzQ1Njc4OTo7PD0+P0BBQkNERUZHSElKS0xNTk9QUVJTVFVWV1hZWltcXV5fYGFiY2RlZmdoaWprbG1ub3BxcnN0dXZ3eHl6e3x9fn+AgYKDhIWGh4iJiouMjY6PkJGSk5SVlpeYmZqbnJ2en6ChoqOkpaanqKmqq6ytrq+wsbKztLW2t7i5uru8vb6/wMHCw8TFxsfIycrLzM3Oz9DR0tPU1dbX2Nna29zd3t/g4eLj5OXm5+jp6uvs7e7v8PHy8/T19vf4+fr7/P3+/w==]\n")
byteskey [yaml12] 256 => Ok("%YAML 1.2\n---\n? !!binary AAECAwQFBgcICQoLDA0ODxAREhMUFRYXGBkaGxwdHh8gISIjJCUmJygpKissLS4vMDEyMzQ1Njc4OTo7PD0+P0BBQkNERUZHSElKS0xNTk9QUVJTVFVWV1hZWltcXV5fYGFiY2RlZmdoaWprbG1ub3BxcnN0dXZ3eHl6e3x9fn+AgYKDhIWGh4iJiouMjY6PkJGSk5SVlpeYmZqbnJ2en6ChoqOkpaanqKmqq6ytrq+wsbKztLW2t7i5uru8vb6/wMHCw8TFxsfIycrLzM3Oz9DR0tPU1dbX2Nna29zd3t/g4eLj5OXm5+jp6uvs7e7v8PHy8/T19vf4+fr7/P3+/w==\n: 1\n")
bytesnested [yaml12] 256 => Ok("%YAML 1.2\n---\nk:\n  - b: !!binary AAECAwQFBgcICQoLDA0ODxAREhMUFRYXGBkaGxwdHh8gISIjJCUmJygpKissLS4vMDEyMzQ1Njc4OTo7PD0+P0BBQkNERUZHSElKS0xNTk9QUVJTVFVWV1hZWltcXV5fYGFiY2RlZmdoaWprbG1ub3BxcnN0dXZ3eHl6e3x9fn+AgYKDhIWGh4iJiouMjY6PkJGSk5SVlpeYmZqbnJ2en6ChoqOkpaanqKmqq6ytrq+wsbKztLW2t7i5uru8vb6/wMHCw8TFxsfIycrLzM3Oz9DR0tPU1dbX2Nna29zd3t/g4eLj5OXm5+jp6uvs7e7v8PHy8/T19vf4+fr7/P3+/w==\n")
bytesroot [noblock] 0 => Ok("[]\n") <= SAME
bytesval [noblock] Blob { data: [], tail: "t" } => Ok("data: !!binary \ntail: t\n") <= SAME
bytesseq [noblock] 0 => Ok("- !!binary \n- !!binary \n")
bytesflow [noblock] 0 => Ok("[!!binary ]\n")
byteskey [noblock] 0 => Ok("? !!binary \n: 1\n")
bytesnested [noblock] 0 => Ok("k:\n  - b: !!binary \n")
bytesroot [noblock] 1 => Ok("- 0\n") <= SAME
bytesval [noblock] Blob { data: [0], tail: "t" } => Ok("data: !!binary AA==\ntail: t\n") <= SAME
bytesseq [noblock] 1 => Ok("- !!binary AA==\n- !!binary AA==\n")
bytesflow [noblock] 1 => Ok("[!!binary AA==]\n")
byteskey [noblock] 1 => Ok("? !!binary AA==\n: 1\n")
bytesnested [noblock] 1 => Ok("k:\n  - b: !!binary AA==\n")
bytesroot [noblock] 6 => Ok("- 0\n- 1\n- 2\n- 253\n- 254\n- 255\n") <= SAME
bytesval [noblock] Blob { data: [0, 1, 2, 253, 254, 255], tail: "t" } => Ok("data: !!binary AAEC/f7/\ntail: t\n") <= SAME
bytesseq [noblock] 6 => Ok("- !!binary AAEC/f7/\n- !!binary AAEC/f7/\n")
bytesflow [noblock] 6 => Ok("[!!binary AAEC/f7/]\n")
byteskey [noblock] 6 => Ok("? !!binary AAEC/f7/\n: 1\n")
bytesnested [noblock] 6 => Ok("k:\n  - b: !!binary AAEC/f7/\n")
bytesroot [noblock] 27 => Ok("- 104\n- 101\n- 108\n- 108\n- 111\n- 32\n- 119\n- 111\n- 114\n- 108\n- 100\n- 44\n- 32\n- 116\n- 104\n- 105\n- 115\n- 32\n- 105\n- 115\n- 32\n- 98\n- 105\n- 110\n- 97\n- 114\n- 121\n") <= SAME
bytesval [noblock] Blob { data: [104, 101, 108, 108, 111, 32, 119, 111, 114, 108, 100, 44, 32, 116, 104, 105, 115, 32, 105, 115, 32, 98, 105, 110, 97, 114, 121], tail: "t" } => Ok("data: !!binary aGVsbG8gd29ybGQsIHRoaXMgaXMgYmluYXJ5\ntail: t\n") <= SAME
bytesseq [noblock] 27 => Ok("- !!binary aGVsbG8gd29ybGQsIHRoaXMgaXMgYmluYXJ5\n- !!binary aGVsbG8gd29ybGQsIHRoaXMgaXMgYmluYXJ5\n")
bytesflow [noblock] 27 => Ok("[!!binary aGVsbG8gd29ybGQsIHRoaXMgaXMgYmluYXJ5]\n")
byteskey [noblock] 27 => Ok("? !!binary aGVsbG8gd29ybGQsIHRoaXMgaXMgYmluYXJ5\n: 1\n")
bytesnested [noblock] 27 => Ok("k:\n  - b: !!binary aGVsbG8gd29ybGQsIHRoaXMgaXMgYmluYXJ5\n")
bytesroot [noblock] 256 => Ok("- 0\n- 1\n- 2\n- 3\n- 4\n- 5\n- 6\n- 7\n- 8\n- 9\n- 10\n- 11\n- 12\n- 13\n- 14\n- 15\n- 16\n- 17\n- 18\n- 19\n- 20\n- 21\n- 22\n- 23\n- 24\n- 25\n- 26\n- 27\n- 28\n- 29\n- 30\n- 31\n- 32\n- 33\n- 34\n- 35\n- 36\n- 37\n- 38\n- 39\n- 40\n- 41\n- 42\n- 43\n- 44\n- 45\n- 46\n- 47\n- 48\n- 49\n- 50\n- 51\n- 52\n- 53\n- 54\n- 55\n- 56\n- 57\n- 58\n- 59\n- 60\n- 61\n- 62\n- 63\n- 64\n- 65\n- 66\n- 67\n- 68\n- 69\n- 70\n- 71\n- 72\n- 73\n- 74\n- 75\n- 76\n- 77\n- 78\n- 79\n- 80\n- 81\n- 82\n- 83\n- 84\n- 85\n- 86\n- 87\n- 88\n- 89\n- 90\n- 91\n- 92\n- 93\n- 94\n- 95\n- 96\n- 97\n- 98\n- 99\n- 100\n- 101\n- 102\n- 103\n- 104\n- 105\n- 106\n- 107\n- 108\n- 109\n- 110\n- 111\n- 112\n- 113\n- 114\n- 115\n- 116\n- 117\n- 118\n- 119\n- 120\n- 121\n- 122\n- 123\n- 124\n- 125\n- 126\n- 127\n- 128\n- 129\n- 130\n- 131\n- 132\n- 133\n- 134\n- 135\n- 136\n- 137\n- 138\n- 139\n- 140\n- 141\n- 142\n- 143\n- 144\n- 145\n- 146\n- 147\n- 148\n- 149\n- 150\n- 151\n- 152\n- 153\n- 154\n- 155\n- 156\n- 157\n- 158\n- 159\n- 160\n- 161\n- 162\n- 163\n- 164\n- 165\n- 166\n- 167\n- 168\n- 169\n- 170\n- 171\n- 172\n- 173\n- 174\n- 175\n- 176\n- 177\n- 178\n- 179\n- 180\n- 181\n- 182\n- 183\n- 184\n- 185\n- 186\n- 187\n- 188\n- 189\n- 190\n- 191\n- 192\n- 193\n- 194\n- 195\n- 196\n- 197\n- 198\n- 199\n- 200\n- 201\n- 202\n- 203\n- 204\n- 205\n- 206\n- 207\n- 208\n- 209\n- 210\n- 211\n- 212\n- 213\n- 214\n- 215\n- 216\n- 217\n- 218\n- 219\n- 220\n- 221\n- 222\n- 223\n- 224\n- 225\n- 226\n- 227\n- 228\n- 229\n- 230\n- 231\n- 232\n- 233\n- 234\n- 235\n- 236\n- 237\n- 238\n- 239\n- 240\n- 241\n- 242\n- 243\n- 244\n- 245\n- 246\n- 247\n- 248\n- 249\n- 250\n- 251\n- 252\n- 253\n- 254\n- 255\n") <= SAME
bytesval [noblock] Blob { data: [0, 1, 2, 3, 4, 5, 6, 7, 8, 9, 10, 11, 12, 13, 14, 15, 16, 17, 18, 19, 20, 21, 22, 23, 24, 25, 26, 27, 28, 29, 30, 31, 32, 33, 34, 35, 36, 37, 38, 39, 40, 41, 42, 43, 44, 45, 46, 47, 48, 49, 50, 51, 52, 53, 54, 55, 56, 57, 58, 59, 60, 61, 62, 63, 64, 65, 66, 67, 68, 69, 70, 71, 72, 73, 74, 75, 76, 77, 78, 79, 80, 81, 82, 83, 84, 85, 86, 87, 88, 89, 90, 91, 92, 93, 94, 95, 96, 97, 98, 99, 100, 101, 102, 103, 104, 105, 106, 107, 108, 109, 110, 111, 112, 113, 114, 115, 116, 117, 118, 119, 120, 121, 122, 123, 124, 125, 126, 127, 128, 129, 130, 131, 132, 133, 134, 135, 136, 137, 138, 139, 140, 141, 142, 143, 144, 145, 146, 147, 148, 149, 150, 151, 152, 153, 154, 155, 156, 157, 158, 159, 160, 161, 162, 163, 164, 165, 166, 167, 168, 169, 170, 171, 172, 173, 174, 175, 176, 177, 178, 179, 180, 181, 182, 183, 184, 185, 186, 187, 188, 189, 190, 191, 192, 193, 194, 195, 196, 197, 198, 199, 200, 201, 202, 203, 204, 205, 206, 207, 208, 209, 210, 211, 212, 213, 214, 215, 216, 217, 218, 219, 220, 221, 222, 223, 224, 225, 226, 227, 228, 229, 230, 231, 232, 233, 234, 235, 236, 237, 238, 239, 240, 241, 242, 243, 244, 245, 246, 247, 248, 249, 250, 251, 252, 253, 254, 255], tail: "t" } => Ok("data: !!binary AAECAwQFBgcICQoLDA0ODxAREhMUFRYXGBkaGxwdHh8gISIjJCUmJygpKissLS4vMDEyMzQ1Njc4OTo7PD0+P0BBQkNERUZHSElKS0xNTk9QUVJTVFVWV1hZWltcXV5fYGFiY2RlZmdoaWprbG1ub3BxcnN0dXZ3eHl6e3x9fn+AgYKDhIWGh4iJiouMjY6PkJGSk5SVlpeYmZqbnJ2en6ChoqOkpaanqKmqq6ytrq+wsbKztLW2t7i5uru8vb6/wMHCw8TFxsfIycrLzM3Oz9DR0tPU1dbX2Nna29zd3t/g4eLj5OXm5+jp6uvs7e7v8PHy8/T19vf4+fr7/P3+/w==\ntail: t\n") <= SAME
bytesseq [noblock] 256 => Ok("- !!binary AAECAwQFBgcICQoLDA0ODxAREhMUFRYXGBkaGxwdHh8gISIjJCUmJygpKissLS4vMDEyMzQ1Njc4OTo7PD0+P0BBQkNERUZHSElKS0xNTk9QUVJTVFVWV1hZWltcXV5fYGFiY2RlZmdoaWprbG1ub3BxcnN0dXZ3eHl6e3x9fn+AgYKDhIWGh4iJiouMjY6PkJGSk5SVlpeYmZqbnJ2en6ChoqOkpaanqKmqq6ytrq+wsbKztLW2t7i5uru8vb6/wMHCw8TFxsfIycrLzM3Oz9DR0tPU1dbX2Nna29zd3t/g4eLj5OXm5+jp6uvs7e7v8PHy8/T19vf4+fr7/P3+/w==\n- !!binary AAECAwQFBgcICQoLDA0ODxAREhMUFRYXGBkaGxwdHh8gISIjJCUmJygpKissLS4vMDEyMzQ1Njc4OTo7PD0+P0BBQkNERUZHSElKS0xNTk9QUVJTVFVWV1hZWltcXV5fYGFiY2RlZmdoaWprbG1ub3BxcnN0dXZ3eHl6e3x9fn+AgYKDhIWGh4iJiouMjY6PkJGSk5SVlpeYmZqbnJ2en6ChoqOkpaanqKmqq6ytrq+wsbKztLW2t7i5uru8vb6/wMHCw8TFxsfIycrLzM3Oz9DR0tPU1dbX2Nna29zd3t/g4eLj5OXm5+jp6uvs7e7v8PHy8/T19vf4+fr7/P3+/w==\n")
bytesflow [noblock] 256 => Ok("[!!binary AAECAwQFBgcICQoLDA0ODxAREhMUFRYXGBkaGxwdHh8gISIjJCUmJygpKissLS4vMDEyMzQ1Njc4OTo7PD0+P0BBQkNERUZHSElKS0xNTk9QUVJTVFVWV1hZWltcXV5fYGFiY2RlZmdoaWprbG1ub3BxcnN0dXZ3eHl6e3x9fn+AgYKDhIWGh4iJiouMjY6PkJGSk5SVlpeYmZqbnJ2en6ChoqOkpaanqKmqq6ytrq+wsbKztLW2t7i5uru8vb6/wMHCw8TFxsfIycrLzM3Oz9DR0tPU1dbX2Nna29zd3t/g4eLj5OXm5+jp6uvs7e7v8PHy8/T19vf4+fr7/P3+/w==]\n")
byteskey [noblock] 256 => Ok("? !!binary AAECAwQFBgcICQoLDA0ODxAREhMUFRYXGBkaGxwdHh8gISIjJCUmJygpKissLS4vMDEyMzQ1Njc4OTo7PD0+P0BBQkNERUZHSElKS0xNTk9QUVJTVFVWV1hZWltcXV5fYGFiY2RlZmdoaWprbG1ub3BxcnN0dXZ3eHl6e3x9fn+AgYKDhIWGh4iJiouMjY6PkJGSk5SVlpeYmZqbnJ2en6ChoqOkpaanqKmqq6ytrq+wsbKztLW2t7i5uru8vb6/wMHCw8TFxsfIycrLzM3Oz9DR0tPU1dbX2Nna29zd3t/g4eLj5OXm5+jp6uvs7e7v8PHy8/T19vf4+fr7/P3+/w==\n: 1\n")
bytesnested [noblock] 256 => Ok("k:\n  - b: !!binary AAECAwQFBgcICQoLDA0ODxAREhMUFRYXGBkaGxwdHh8gISIjJCUmJygpKissLS4vMDEyMzQ1Njc4OTo7PD0+P0BBQkNERUZHSElKS0xNTk9QUVJTVFVWV1hZWltcXV5fYGFiY2RlZmdoaWprbG1ub3BxcnN0dXZ3eHl6e3x9fn+AgYKDhIWGh4iJiouMjY6PkJGSk5SVlpeYmZqbnJ2en6ChoqOkpaanqKmqq6ytrq+wsbKztLW2t7i5uru8vb6/wMHCw8TFxsfIycrLzM3Oz9DR0tPU1dbX2Nna29zd3t/g4eLj5OXm5+jp6uvs7e7v8PHy8/T19vf4+fr7/P3+/w==\n")
bytesroot [indent4] 0 => Ok("[]\n") <= SAME
bytesval [indent4] Blob { data: [], tail: "t" } => Ok("data: !!binary \ntail: t\n") <= SAME
bytesseq [indent4] 0 => Ok("- !!binary \n- !!binary \n")
bytesflow [indent4] 0 => Ok("[!!binary ]\n")
byteskey [indent4] 0 => Ok("? !!binary \n: 1\n")
bytesnested [indent4] 0 => Ok("k:\n    - b: !!binary \n")
bytesroot [indent4] 1 => Ok("- 0\n") <= SAME
bytesval [indent4] Blob { data: [0], tail: "t" } => Ok("data: !!binary AA==\ntail: t\n") <= SAME
bytesseq [indent4] 1 => Ok("- !!binary AA==\n- !!binary AA==\n")
bytesflow [indent4] 1 => Ok("[!!binary AA==]\n")
byteskey [indent4] 1 => Ok("? !!binary AA==\n: 1\n")
bytesnested [indent4] 1 => Ok("k:\n    - b: !!binary AA==\n")
bytesroot [indent4] 6 => Ok("- 0\n- 1\n- 2\n- 253\n- 254\n- 255\n") <= SAME
bytesval [indent4] Blob { data: [0, 1, 2, 253, 254, 255], tail: "t" } => Ok("data: !!binary AAEC/f7/\ntail: t\n") <= SAME
bytesseq [indent4] 6 => Ok("- !!binary AAEC/f7/\n- !!binary AAEC/f7/\n")
bytesflow [indent4] 6 => Ok("[!!binary AAEC/f7/]\n")
byteskey [indent4] 6 => Ok("? !!binary AAEC/f7/\n: 1\n")
bytesnested [indent4] 6 => Ok("k:\n    - b: !!binary AAEC/f7/\n")
bytesroot [indent4] 27 => Ok("- 104\n- 101\n- 108\n- 108\n- 111\n- 32\n- 119\n- 111\n- 114\n- 108\n- 100\n- 44\n- 32\n- 116\n- 104\n- 105\n- 115\n- 32\n- 105\n- 115\n- 32\n- 98\n- 105\n- 110\n- 97\n- 114\n- 121\n") <= SAME
bytesval [indent4] Blob { data: [104, 101, 108, 108, 111, 32, 119, 111, 114, 108, 100, 44, 32, 116, 104, 105, 115, 32, 105, 115, 32, 98, 105, 110, 97, 114, 121], tail: "t" } => Ok("data: !!binary aGVsbG8gd29ybGQsIHRoaXMgaXMgYmluYXJ5\ntail: t\n") <= SAME
bytesseq [indent4] 27 => Ok("- !!binary aGVsbG8gd29ybGQsIHRoaXMgaXMgYmluYXJ5\n- !!binary aGVsbG8gd29ybGQsIHRoaXMgaXMgYmluYXJ5\n")
bytesflow [indent4] 27 => Ok("[!!binary aGVsbG8gd29ybGQsIHRoaXMgaXMgYmluYXJ5]\n")
byteskey [indent4] 27 => Ok("? !!binary aGVsbG8gd29ybGQsIHRoaXMgaXMgYmluYXJ5\n: 1\n")
bytesnested [indent4] 27 => Ok("k:\n    - b: !!binary aGVsbG8gd29ybGQsIHRoaXMgaXMgYmluYXJ5\n")
bytesroot [indent4] 256 => Ok("- 0\n- 1\n- 2\n- 3\n- 4\n- 5\n- 6\n- 7\n- 8\n- 9\n- 10\n- 11\n- 12\n- 13\n- 14\n- 15\n- 16\n- 17\n- 18\n- 19\n- 20\n- 21\n- 22\n- 23\n- 24\n- 25\n- 26\n- 27\n- 28\n- 29\n- 30\n- 31\n- 32\n- 33\n- 34\n- 35\n- 36\n- 37\n- 38\n- 39\n- 40\n- 41\n- 42\n- 43\n- 44\n- 45\n- 46\n- 47\n- 48\n- 49\n- 50\n- 51\n- 52\n- 53\n- 54\n- 55\n- 56\n- 57\n- 58\n- 59\n- 60\n- 61\n- 62\n- 63\n- 64\n- 65\n- 66\n- 67\n- 68\n- 69\n- 70\n- 71\n- 72\n- 73\n- 74\n- 75\n- 76\n- 77\n- 78\n- 79\n- 80\n- 81\n- 82\n- 83\n- 84\n- 85\n- 86\n- 87\n- 88\n- 89\n- 90\n- 91\n- 92\n- 93\n- 94\n- 95\n- 96\n- 97\n- 98\n- 99\n- 100\n- 101\n- 102\n- 103\n- 104\n- 105\n- 106\n- 107\n- 108\n- 109\n- 110\n- 111\n- 112\n- 113\n- 114\n- 115\n- 116\n- 117\n- 118\n- 119\n- 120\n- 121\n- 122\n- 123\n- 124\n- 125\n- 126\n- 127\n- 128\n- 129\n- 130\n- 131\n- 132\n- 133\n- 134\n- 135\n- 136\n- 137\n- 138\n- 139\n- 140\n- 141\n- 142\n- 143\n- 144\n- 145\n- 146\n- 147\n- 148\n- 149\n- 150\n- 151\n- 152\n- 153\n- 154\n- 155\n- 156\n- 157\n- 158\n- 159\n- 160\n- 161\n- 162\n- 163\n- 164\n- 165\n- 166\n- 167\n- 168\n- 169\n- 170\n- 171\n- 172\n- 173\n- 174\n- 175\n- 176\n- 177\n- 178\n- 179\n- 180\n- 181\n- 182\n- 183\n- 184\n- 185\n- 186\n- 187\n- 188\n- 189\n- 190\n- 191\n- 192\n- 193\n- 194\n- 195\n- 196\n- 197\n- 198\n- 199\n- 200\n- 201\n- 202\n- 203\n- 204\n- 205\n- 206\n- 207\n- 208\n- 209\n- 210\n- 211\n- 212\n- 213\n- 214\n- 215\n- 216\n- 217\n- 218\n- 219\n- 220\n- 221\n- 222\n- 223\n- 224\n- 225\n- 226\n- 227\n- 228\n- 229\n- 230\n- 231\n- 232\n- 233\n- 234\n- 235\n- 236\n- 237\n- 238\n- 239\n- 240\n- 241\n- 242\n- 243\n- 244\n- 245\n- 246\n- 247\n- 248\n- 249\n- 250\n- 251\n- 252\n- 253\n- 254\n- 255\n") <= SAME
bytesval [indent4] Blob { data: [0, 1, 2, 3, 4, 5, 6, 7, 8, 9, 10, 11, 12, 13, 14, 15, 16, 17, 18, 19, 20, 21, 22, 23, 24, 25, 26, 27, 28, 29, 30, 31, 32, 33, 34, 35, 36, 37, 38, 39, 40, 41, 42, 43, 44, 45, 46, 47, 48, 49, 50, 51, 52, 53, 54, 55, 56, 57, 58, 59, 60, 61, 62, 63, 64, 65, 66, 67, 68, 69, 70, 71, 72, 73, 74, 75, 76, 77, 78, 79, 80, 81, 82, 83, 84, 85, 86, 87, 88, 89, 90, 91, 92, 93, 94, 95, 96, 97, 98, 99, 100, 101, 102, 103, 104, 105, 106, 107, 108, 109, 110, 111, 112, 113, 114, 115, 116, 117, 118, 119, 120, 121, 122, 123, 124, 125, 126, 127, 128, 129, 130, 131, 132, 133, 134, 135, 136, 137, 138, 139, 140, 141, 142, 143, 144, 145, 146, 147, 148, 149, 150, 151, 152, 153, 154, 155, 156, 157, 158, 159, 160, 161, 162, 163, 164, 165, 166, 167, 168, 169, 170, 171, 172, 173, 174, 175, 176, 177, 178, 179, 180, 181, 182, 183, 184, 185, 186, 187, 188, 189, 190, 191, 192, 193, 194, 195, 196, 197, 198, 199, 200, 201, 202, 203, 204, 205, 206, 207, 208, 209, 210, 211, 212, 213, 214, 215, 216, 217, 218, 219, 220, 221, 222, 223, 224, 225, 226, 227, 228, 229, 230, 231, 232, 233, 234, 235, 236, 237, 238, 239, 240, 241, 242, 243, 244, 245, 246, 247, 248, 249, 250, 251, 252, 253, 254, 255], tail: "t" } => Ok("data: !!binary AAECAwQFBgcICQoLDA0ODxAREhMUFRYXGBkaGxwdHh8gISIjJCUmJygpKissLS4vMDEyMzQ1Njc4OTo7PD0+P0BBQkNERUZHSElKS0xNTk9QUVJTVFVWV1hZWltcXV5fYGFiY2RlZmdoaWprbG1ub3BxcnN0dXZ3eHl6e3x9fn+AgYKDhIWGh4iJiouMjY6PkJGSk5SVlpeYmZqbnJ2en6ChoqOkpaanqKmqq6ytrq+wsbKztLW2t7i5uru8vb6/wMHCw8TFxsfIycrLzM3Oz9DR0tPU1dbX2Nna29zd3t/g4eLj5OXm5+jp6uvs7e7v8PHy8/T19vf4+fr7/P3+/w==\ntail: t\n") <= SAME
bytesseq [indent4] 256 => Ok("- !!binary AAECAwQFBgcICQoLDA0ODxAREhMUFRYXGBkaGxwdHh8gISIjJCUmJygpKissLS4vMDEyMzQ1Njc4OTo7PD0+P0BBQkNERUZHSElKS0xNTk9QUVJTVFVWV1hZWltcXV5fYGFiY2RlZmdoaWprbG1ub3BxcnN0dXZ3eHl6e3x9fn+AgYKDhIWGh4iJiouMjY6PkJGSk5SVlpeYmZqbnJ2en6ChoqOkpaanqKmqq6ytrq+wsbKztLW2t7i5uru8vb6/wMHCw8TFxsfIycrLzM3Oz9DR0tPU1dbX2Nna29zd3t/g4eLj5OXm5+jp6uvs7e7v8PHy8/T19vf4+fr7/P3+/w==\n- !!binary AAECAwQFBgcICQoLDA0ODxAREhMUFRYXGBkaGxwdHh8gISIjJCUmJygpKissLS4vMDEyMzQ1Njc4OTo7PD0+P0BBQkNERUZHSElKS0xNTk9QUVJTVFVWV1hZWltcXV5fYGFiY2RlZmdoaWprbG1ub3BxcnN0dXZ3eHl6e3x9fn+AgYKDhIWGh4iJiouMjY6PkJGSk5SVlpeYmZqbnJ2en6ChoqOkpaanqKmqq6ytrq+wsbKztLW2t7i5uru8vb6/wMHCw8TFxsfIycrLzM3Oz9DR0tPU1dbX2Nna29zd3t/g4eLj5OXm5+jp6uvs7e7v8PHy8/T19vf4+fr7/P3+/w==\n")
bytesflow [indent4] 256 => Ok("[!!binary AAECAwQFBgcICQoLDA0ODxAREhMUFRYXGBkaGxwdHh8gISIjJCUmJygpKissLS4vMDEyMzQ1Njc4OTo7PD0+P0BBQkNERUZHSElKS0xNTk9QUVJTVFVWV1hZWltcXV5fYGFiY2RlZmdoaWprbG1ub3BxcnN0dXZ3eHl6e3x9fn+AgYKDhIWGh4iJiouMjY6PkJGSk5SVlpeYmZqbnJ2en6ChoqOkpaanqKmqq6ytrq+wsbKztLW2t7i5uru8vb6/wMHCw8TFxsfIycrLzM3Oz9DR0tPU1dbX2Nna29zd3t/g4eLj5OXm5+jp6uvs7e7v8PHy8/T19vf4+fr7/P3+/w==]\n")
byteskey [indent4] 256 => Ok("? !!binary AAECAwQFBgcICQoLDA0ODxAREhMUFRYXGBkaGxwdHh8gISIjJCUmJygpKissLS4vMDEyMzQ1Njc4OTo7PD0+P0BBQkNERUZHSElKS0xNTk9QUVJTVFVWV1hZWltcXV5fYGFiY2RlZmdoaWprbG1ub3BxcnN0dXZ3eHl6e3x9fn+AgYKDhIWGh4iJiouMjY6PkJGSk5SVlpeYmZqbnJ2en6ChoqOkpaanqKmqq6ytrq+wsbKztLW2t7i5uru8vb6/wMHCw8TFxsfIycrLzM3Oz9DR0tPU1dbX2Nna29zd3t/g4eLj5OXm5+jp6uvs7e7v8PHy8/T19vf4+fr7/P3+/w==\n: 1\n")
bytesnested [indent4] 256 => Ok("k:\n    - b: !!binary AAECAwQFBgcICQoLDA0ODxAREhMUFRYXGBkaGxwdHh8gISIjJCUmJygpKissLS4vMDEyMzQ1Njc4OTo7PD0+P0BBQkNERUZHSElKS0xNTk9QUVJTVFVWV1hZWltcXV5fYGFiY2RlZmdoaWprbG1ub3BxcnN0dXZ3eHl6e3x9fn+AgYKDhIWGh4iJiouMjY6PkJGSk5SVlpeYmZqbnJ2en6ChoqOkpaanqKmqq6ytrq+wsbKztLW2t7i5uru8vb6/wMHCw8TFxsfIycrLzM3Oz9DR0tPU1dbX2Nna29zd3t/g4eLj5OXm5+jp6uvs7e7v8PHy8/T19vf4+fr7/P3+/w==\n")
bytesroot [wrap12] 0 => Ok("[]\n") <= SAME
bytesval [wrap12] Blob { data: [], tail: "t" } => Ok("data: !!binary \ntail: t\n") <= SAME
bytesseq [wrap12] 0 => Ok("- !!binary \n- !!binary \n")
bytesflow [wrap12] 0 => Ok("[!!binary ]\n")
byteskey [wrap12] 0 => Ok("? !!binary \n: 1\n")
bytesnested [wrap12] 0 => Ok("k:\n  - b: !!binary \n")
bytesroot [wrap12] 1 => Ok("- 0\n") <= SAME
bytesval [wrap12] Blob { data: [0], tail: "t" } => Ok("data: !!binary AA==\ntail: t\n") <= SAME
bytesseq [wrap12] 1 => Ok("- !!binary AA==\n- !!binary AA==\n")
bytesflow [wrap12] 1 => Ok("[!!binary AA==]\n")
byteskey [wrap12] 1 => Ok("? !!binary AA==\n: 1\n")
bytesnested [wrap12] 1 => Ok("k:\n  - b: !!binary AA==\n")
bytesroot [wrap12] 6 => Ok("- 0\n- 1\n- 2\n- 253\n- 254\n- 255\n") <= SAME
bytesval [wrap12] Blob { data: [0, 1, 2, 253, 254, 255], tail: "t" } => Ok("data: !!binary AAEC/f7/\ntail: t\n") <= SAME
bytesseq [wrap12] 6 => Ok("- !!binary AAEC/f7/\n- !!binary AAEC/f7/\n")
bytesflow [wrap12] 6 => Ok("[!!binary AAEC/f7/]\n")
byteskey [wrap12] 6 => Ok("? !!binary AAEC/f7/\n: 1\n")
bytesnested [wrap12] 6 => Ok("k:\n  - b: !!binary AAEC/f7/\n")
bytesroot [wrap12] 27 => Ok("- 104\n- 101\n- 108\n- 108\n- 111\n- 32\n- 119\n- 111\n- 114\n- 108\n- 100\n- 44\n- 32\n- 116\n- 104\n- 105\n- 115\n- 32\n- 105\n- 115\n- 32\n- 98\n- 105\n- 110\n- 97\n- 114\n- 121\n") <= SAME
bytesval [wrap12] Blob { data: [104, 101, 108, 108, 111, 32, 119, 111, 114, 108, 100, 44, 32, 116, 104, 105, 115, 32, 105, 115, 32, 98, 105, 110, 97, 114, 121], tail: "t" } => Ok("data: !!binary aGVsbG8gd29ybGQsIHRoaXMgaXMgYmluYXJ5\ntail: t\n") <= SAME
bytesseq [wrap12] 27 => Ok("- !!binary aGVsbG8gd29ybGQsIHRoaXMgaXMgYmluYXJ5\n- !!binary aGVsbG8gd29ybGQsIHRoaXMgaXMgYmluYXJ5\n")
bytesflow [wrap12] 27 => Ok("[!!binary aGVsbG8gd29ybGQsIHRoaXMgaXMgYmluYXJ5]\n")
byteskey [wrap12] 27 => Ok("? !!binary aGVsbG8gd29ybGQsIHRoaXMgaXMgYmluYXJ5\n: 1\n")
bytesnested [wrap12] 27 => Ok("k:\n  - b: !!binary aGVsbG8gd29ybGQsIHRoaXMgaXMgYmluYXJ5\n")
bytesroot [wrap12] 256 => Ok("- 0\n- 1\n- 2\n- 3\n- 4\n- 5\n- 6\n- 7\n- 8\n- 9\n- 10\n- 11\n- 12\n- 13\n- 14\n- 15\n- 16\n- 17\n- 18\n- 19\n- 20\n- 21\n- 22\n- 23\n- 24\n- 25\n- 26\n- 27\n- 28\n- 29\n- 30\n- 31\n- 32\n- 33\n- 34\n- 35\n- 36\n- 37\n- 38\n- 39\n- 40\n- 41\n- 42\n- 43\n- 44\n- 45\n- 46\n- 47\n- 48\n- 49\n- 50\n- 51\n- 52\n- 53\n- 54\n- 55\n- 56\n- 57\n- 58\n- 59\n- 60\n- 61\n- 62\n- 63\n- 64\n- 65\n- 66\n- 67\n- 68\n- 69\n- 70\n- 71\n- 72\n- 73\n- 74\n- 75\n- 76\n- 77\n- 78\n- 79\n- 80\n- 81\n- 82\n- 83\n- 84\n- 85\n- 86\n- 87\n- 88\n- 89\n- 90\n- 91\n- 92\n- 93\n- 94\n- 95\n- 96\n- 97\n- 98\n- 99\n- 100\n- 101\n- 102\n- 103\n- 104\n- 105\n- 106\n- 107\n- 108\n- 109\n- 110\n- 111\n- 112\n- 113\n- 114\n- 115\n- 116\n- 117\n- 118\n- 119\n- 120\n- 121\n- 122\n- 123\n- 124\n- 125\n- 126\n- 127\n- 128\n- 129\n- 130\n- 131\n- 132\n- 133\n- 134\n- 135\n- 136\n- 137\n- 138\n- 139\n- 140\n- 141\n- 142\n- 143\n- 144\n- 145\n- 146\n- 147\n- 148\n- 149\n- 150\n- 151\n- 152\n- 153\n- 154\n- 155\n- 156\n- 157\n- 158\n- 159\n- 160\n- 161\n- 162\n- 163\n- 164\n- 165\n- 166\n- 167\n- 168\n- 169\n- 170\n- 171\n- 172\n- 173\n- 174\n- 175\n- 176\n- 177\n- 178\n- 179\n- 180\n- 181\n- 182\n- 183\n- 184\n- 185\n- 186\n- 187\n- 188\n- 189\n- 190\n- 191\n- 192\n- 193\n- 194\n- 195\n- 196\n- 197\n- 198\n- 199\n- 200\n- 201\n- 202\n- 203\n- 204\n- 205\n- 206\n- 207\n- 208\n- 209\n- 210\n- 211\n- 212\n- 213\n- 214\n- 215\n- 216\n- 217\n- 218\n- 219\n- 220\n- 221\n- 222\n- 223\n- 224\n- 225\n- 226\n- 227\n- 228\n- 229\n- 230\n- 231\n- 232\n- 233\n- 234\n- 235\n- 236\n- 237\n- 238\n- 239\n- 240\n- 241\n- 242\n- 243\n- 244\n- 245\n- 246\n- 247\n- 248\n- 249\n- 250\n- 251\n- 252\n- 253\n- 254\n- 255\n") <= SAME
bytesval [wrap12] Blob { data: [0, 1, 2, 3, 4, 5, 6, 7, 8, 9, 10, 11, 12, 13, 14, 15, 16, 17, 18, 19, 20, 21, 22, 23, 24, 25, 26, 27, 28, 29, 30, 31, 32, 33, 34, 35, 36, 37, 38, 39, 40, 41, 42, 43, 44, 45, 46, 47, 48, 49, 50, 51, 52, 53, 54, 55, 56, 57, 58, 59, 60, 61, 62, 63, 64, 65, 66, 67, 68, 69, 70, 71, 72, 73, 74, 75, 76, 77, 78, 79, 80, 81, 82, 83, 84, 85, 86, 87, 88, 89, 90, 91, 92, 93, 94, 95, 96, 97, 98, 99, 100, 101, 102, 103, 104, 105, 106, 107, 108, 109, 110, 111, 112, 113, 114, 115, 116, 117, 118, 119, 120, 121, 122, 123, 124, 125, 126, 127, 128, 129, 130, 131, 132, 133, 134, 135, 136, 137, 138, 139, 140, 141, 142, 143, 144, 145, 146, 147, 148, 149, 150, 151, 152, 153, 154, 155, 156, 157, 158, 159, 160, 161, 162, 163, 164, 165, 166, 167, 168, 169, 170, 171, 172, 173, 174, 175, 176, 177, 178, 179, 180, 181, 182, 183, 184, 185, 186, 187, 188, 189, 190, 191, 192, 193, 194, 195, 196, 197, 198, 199, 200, 201, 202, 203, 204, 205, 206, 207, 208, 209, 210, 211, 212, 213, 214, 215, 216, 217, 218, 219, 220, 221, 222, 223, 224, 225, 226, 227, 228, 229, 230, 231, 232, 233, 234, 235, 236, 237, 238, 239, 240, 241, 242, 243, 244, 245, 246, 247, 248, 249, 250, 251, 252, 253, 254, 255], tail: "t" } => Ok("data: !!binary AAECAwQFBgcICQoLDA0ODxAREhMUFRYXGBkaGxwdHh8gISIjJCUmJygpKissLS4vMDEyMzQ1Njc4OTo7PD0+P0BBQkNERUZHSElKS0xNTk9QUVJTVFVWV1hZWltcXV5fYGFiY2RlZmdoaWprbG1ub3BxcnN0dXZ3eHl6e3x9fn+AgYKDhIWGh4iJiouMjY6PkJGSk5SVlpeYmZqbnJ2en6ChoqOkpaanqKmqq6ytrq+wsbKztLW2t7i5uru8vb6/wMHCw8TFxsfIycrLzM3Oz9DR0tPU1dbX2Nna29zd3t/g4eLj5OXm5+jp6uvs7e7v8PHy8/T19vf4+fr7/P3+/w==\ntail: t\n") <= SAME
bytesseq [wrap12] 256 => Ok("- !!binary AAECAwQFBgcICQoLDA0ODxAREhMUFRYXGBkaGxwdHh8gISIjJCUmJygpKissLS4vMDEyMzQ1Njc4OTo7PD0+P0BBQkNERUZHSElKS0xNTk9QUVJTVFVWV1hZWltcXV5fYGFiY2RlZmdoaWprbG1ub3BxcnN0dXZ3eHl6e3x9fn+AgYKDhIWGh4iJiouMjY6PkJGSk5SVlpeYmZqbnJ2en6ChoqOkpaanqKmqq6ytrq+wsbKztLW2t7i5uru8vb6/wMHCw8TFxsfIycrLzM3Oz9DR0tPU1dbX2Nna29zd3t/g4eLj5OXm5+jp6uvs7e7v8PHy8/T19vf4+fr7/P3+/w==\n- !!binary AAECAwQFBgcICQoLDA0ODxAREhMUFRYXGBkaGxwdHh8gISIjJCUmJygpKissLS4vMDEyMzQ1Njc4OTo7PD0+P0BBQkNERUZHSElKS0xNTk9QUVJTVFVWV1hZWltcXV5fYGFiY2RlZmdoaWprbG1ub3BxcnN0dXZ3eHl6e3x9fn+AgYKDhIWGh4iJiouMjY6PkJGSk5SVlpeYmZqbnJ2en6ChoqOkpaanqKmqq6ytrq+wsbKztLW2t7i5uru8vb6/wMHCw8TFxsfIycrLzM3Oz9DR0tPU1dbX2Nna29zd3t/g4eLj5OXm5+jp6uvs7e7v8PHy8/T19vf4+fr7/P3+/w==\n")
bytesflow [wrap12] 256 => Ok("[!!binary AAECAwQFBgcICQoLDA0ODxAREhMUFRYXGBkaGxwdHh8gISIjJCUmJygpKissLS4vMDEyMzQ1Njc4OTo7PD0+P0BBQkNERUZHSElKS0xNTk9QUVJTVFVWV1hZWltcXV5fYGFiY2RlZmdoaWprbG1ub3BxcnN0dXZ3eHl6e3x9fn+AgYKDhIWGh4iJiouMjY6PkJGSk5SVlpeYmZqbnJ2en6ChoqOkpaanqKmqq6ytrq+wsbKztLW2t7i5uru8vb6/wMHCw8TFxsfIycrLzM3Oz9DR0tPU1dbX2Nna29zd3t/g4eLj5OXm5+jp6uvs7e7v8PHy8/T19vf4+fr7/P3+/w==]\n")
byteskey [wrap12] 256 => Ok("? !!binary AAECAwQFBgcICQoLDA0ODxAREhMUFRYXGBkaGxwdHh8gISIjJCUmJygpKissLS4vMDEyMzQ1Njc4OTo7PD0+P0BBQkNERUZHSElKS0xNTk9QUVJTVFVWV1hZWltcXV5fYGFiY2RlZmdoaWprbG1ub3BxcnN0dXZ3eHl6e3x9fn+AgYKDhIWGh4iJiouMjY6PkJGSk5SVlpeYmZqbnJ2en6ChoqOkpaanqKmqq6ytrq+wsbKztLW2t7i5uru8vb6/wMHCw8TFxsfIycrLzM3Oz9DR0tPU1dbX2Nna29zd3t/g4eLj5OXm5+jp6uvs7e7v8PHy8/T19vf4+fr7/P3+/w==\n: 1\n")
bytesnested [wrap12] 256 => Ok("k:\n  - b: !!binary AAECAwQFBgcICQoLDA0ODxAREhMUFRYXGBkaGxwdHh8gISIjJCUmJygpKissLS4vMDEyMzQ1Njc4OTo7PD0+P0BBQkNERUZHSElKS0xNTk9QUVJTVFVWV1hZWltcXV5fYGFiY2RlZmdoaWprbG1ub3BxcnN0dXZ3eHl6e3x9fn+AgYKDhIWGh4iJiouMjY6PkJGSk5SVlpeYmZqbnJ2en6ChoqOkpaanqKmqq6ytrq+wsbKztLW2t7i5uru8vb6/wMHCw8TFxsfIycrLzM3Oz9DR0tPU1dbX2Nna29zd3t/g4eLj5OXm5+jp6uvs7e7v8PHy8/T19vf4+fr7/P3+/w==\n")
bytesroot [indent3compact] 0 => Ok("[]\n") <= SAME
bytesval [indent3compact] Blob { data: [], tail: "t" } => Ok("data: !!binary \ntail: t\n") <= SAME
bytesseq [indent3compact] 0 => Ok("- !!binary \n- !!binary \n")
bytesflow [indent3compact] 0 => Ok("[!!binary ]\n")
byteskey [indent3compact] 0 => Ok("? !!binary \n: 1\n")
bytesnested [indent3compact] 0 => Ok("k:\n- b: !!binary \n")
bytesroot [indent3compact] 1 => Ok("- 0\n") <= SAME
bytesval [indent3compact] Blob { data: [0], tail: "t" } => Ok("data: !!binary AA==\ntail: t\n") <= SAME
bytesseq [indent3compact] 1 => Ok("- !!binary AA==\n- !!binary AA==\n")
bytesflow [indent3compact] 1 => Ok("[!!binary AA==]\n")
byteskey [indent3compact] 1 => Ok("? !!binary AA==\n: 1\n")
bytesnested [indent3compact] 1 => Ok("k:\n- b: !!binary AA==\n")
bytesroot [indent3compact] 6 => Ok("- 0\n- 1\n- 2\n- 253\n- 254\n- 255\n") <= SAME
bytesval [indent3compact] Blob { data: [0, 1, 2, 253, 254, 255], tail: "t" } => Ok("data: !!binary AAEC/f7/\ntail: t\n") <= SAME
bytesseq [indent3compact] 6 => Ok("- !!binary AAEC/f7/\n- !!binary AAEC/f7/\n")
bytesflow [indent3compact] 6 => Ok("[!!binary AAEC/f7/]\n")
byteskey [indent3compact] 6 => Ok("? !!binary AAEC/f7/\n: 1\n")
bytesnested [indent3compact] 6 => Ok("k:\n- b: !!binary AAEC/f7/\n")
bytesroot [indent3compact] 27 => Ok("- 104\n- 101\n- 108\n- 108\n- 111\n- 32\n- 119\n- 111\n- 114\n- 108\n- 100\n- 44\n- 32\n- 116\n- 104\n- 105\n- 115\n- 32\n- 105\n- 115\n- 32\n- 98\n- 105\n- 110\n- 97\n- 114\n- 121\n") <= SAME
bytesval [indent3compact] Blob { data: [104, 101, 108, 108, 111, 32, 119, 111, 114, 108, 100, 44, 32, 116, 104, 105, 115, 32, 105, 115, 32, 98, 105, 110, 97, 114, 121], tail: "t" } => Ok("data: !!binary aGVsbG8gd29ybGQsIHRoaXMgaXMgYmluYXJ5\ntail: t\n") <= SAME
bytesseq [indent3compact] 27 => Ok("- !!binary aGVsbG8gd29ybGQsIHRoaXMgaXMgYmluYXJ5\n- !!binary aGVsbG8gd29ybGQsIHRoaXMgaXMgYmluYXJ5\n")
bytesflow [indent3compact] 27 => Ok("[!!binary aGVsbG8gd29ybGQsIHRoaXMgaXMgYmluYXJ5]\n")
byteskey [indent3compact] 27 => Ok("? !!binary aGVsbG8gd29ybGQsIHRoaXMgaXMgYmluYXJ5\n: 1\n")
bytesnested [indent3compact] 27 => Ok("k:\n- b: !!binary aGVsbG8gd29ybGQsIHRoaXMgaXMgYmluYXJ5\n")
bytesroot [indent3compact] 256 => Ok("- 0\n- 1\n- 2\n- 3\n- 4\n- 5\n- 6\n- 7\n- 8\n- 9\n- 10\n- 11\n- 12\n- 13\n- 14\n- 15\n- 16\n- 17\n- 18\n- 19\n- 20\n- 21\n- 22\n- 23\n- 24\n- 25\n- 26\n- 27\n- 28\n- 29\n- 30\n- 31\n- 32\n- 33\n- 34\n- 35\n- 36\n- 37\n- 38\n- 39\n- 40\n- 41\n- 42\n- 43\n- 44\n- 45\n- 46\n- 47\n- 48\n- 49\n- 50\n- 51\n- 52\n- 53\n- 54\n- 55\n- 56\n- 57\n- 58\n- 59\n- 60\n- 61\n- 62\n- 63\n- 64\n- 65\n- 66\n- 67\n- 68\n- 69\n- 70\n- 71\n- 72\n- 73\n- 74\n- 75\n- 76\n- 77\n- 78\n- 79\n- 80\n- 81\n- 82\n- 83\n- 84\n- 85\n- 86\n- 87\n- 88\n- 89\n- 90\n- 91\n- 92\n- 93\n- 94\n- 95\n- 96\n- 97\n- 98\n- 99\n- 100\n- 101\n- 102\n- 103\n- 104\n- 105\n- 106\n- 107\n- 108\n- 109\n- 110\n- 111\n- 112\n- 113\n- 114\n- 115\n- 116\n- 117\n- 118\n- 119\n- 120\n- 121\n- 122\n- 123\n- 124\n- 125\n- 126\n- 127\n- 128\n- 129\n- 130\n- 131\n- 132\n- 133\n- 134\n- 135\n- 136\n- 137\n- 138\n- 139\n- 140\n- 141\n- 142\n- 143\n- 144\n- 145\n- 146\n- 147\n- 148\n- 149\n- 150\n- 151\n- 152\n- 153\n- 154\n- 155\n- 156\n- 157\n- 158\n- 159\n- 160\n- 161\n- 162\n- 163\n- 164\n- 165\n- 166\n- 167\n- 168\n- 169\n- 170\n- 171\n- 172\n- 173\n- 174\n- 175\n- 176\n- 177\n- 178\n- 179\n- 180\n- 181\n- 182\n- 183\n- 184\n- 185\n- 186\n- 187\n- 188\n- 189\n- 190\n- 191\n- 192\n- 193\n- 194\n- 195\n- 196\n- 197\n- 198\n- 199\n- 200\n- 201\n- 202\n- 203\n- 204\n- 205\n- 206\n- 207\n- 208\n- 209\n- 210\n- 211\n- 212\n- 213\n- 214\n- 215\n- 216\n- 217\n- 218\n- 219\n- 220\n- 221\n- 222\n- 223\n- 224\n- 225\n- 226\n- 227\n- 228\n- 229\n- 230\n- 231\n- 232\n- 233\n- 234\n- 235\n- 236\n- 237\n- 238\n- 239\n- 240\n- 241\n- 242\n- 243\n- 244\n- 245\n- 246\n- 247\n- 248\n- 249\n- 250\n- 251\n- 252\n- 253\n- 254\n- 255\n") <= SAME
bytesval [indent3compact] Blob { data: [0, 1, 2, 3, 4, 5, 6, 7, 8, 9, 10, 11, 12, 13, 14, 15, 16, 17, 18, 19, 20, 21, 22, 23, 24, 25, 26, 27, 28, 29, 30, 31, 32, 33, 34, 35, 36, 37, 38, 39, 40, 41, 42, 43, 44, 45, 46, 47, 48, 49, 50, 51, 52, 53, 54, 55, 56, 57, 58, 59, 60, 61, 62, 63, 64, 65, 66, 67, 68, 69, 70, 71, 72, 73, 74, 75, 76, 77, 78, 79, 80, 81, 82, 83, 84, 85, 86, 87, 88, 89, 90, 91, 92, 93, 94, 95, 96, 97, 98, 99, 100, 101, 102, 103, 104, 105, 106, 107, 108, 109, 110, 111, 112, 113, 114, 115, 116, 117, 118, 119, 120, 121, 122, 123, 124, 125, 126, 127, 128, 129, 130, 131, 132, 133, 134, 135, 136, 137, 138, 139, 140, 141, 142, 143, 144, 145, 146, 147, 148, 149, 150, 151, 152, 153, 154, 155, 156, 157, 158, 159, 160, 161, 162, 163, 164, 165, 166, 167, 168, 169, 170, 171, 172, 173, 174, 175, 176, 177, 178, 179, 180, 181, 182, 183, 184, 185, 186, 187, 188, 189, 190, 191, 192, 193, 194, 195, 196, 197, 198, 199, 200, 201, 202, 203, 204, 205, 206, 207, 208, 209, 210, 211, 212, 213, 214, 215, 216, 217, 218, 219, 220, 221, 222, 223, 224, 225, 226, 227, 228, 229, 230, 231, 232, 233, 234, 235, 236, 237, 238, 239, 240, 241, 242, 243, 244, 245, 246, 247, 248, 249, 250, 251, 252, 253, 254, 255], tail: "t" } => Ok("data: !!binary AAECAwQFBgcICQoLDA0ODxAREhMUFRYXGBkaGxwdHh8gISIjJCUmJygpKissLS4vMDEyMzQ1Njc4OTo7PD0+P0BBQkNERUZHSElKS0xNTk9QUVJTVFVWV1hZWltcXV5fYGFiY2RlZmdoaWprbG1ub3BxcnN0dXZ3eHl6e3x9fn+AgYKDhIWGh4iJiouMjY6PkJGSk5SVlpeYmZqbnJ2en6ChoqOkpaanqKmqq6ytrq+wsbKztLW2t7i5uru8vb6/wMHCw8TFxsfIycrLzM3Oz9DR0tPU1dbX2Nna29zd3t/g4eLj5OXm5+jp6uvs7e7v8PHy8/T19vf4+fr7/P3+/w==\ntail: t\n") <= SAME
bytesseq [indent3compact] 256 => Ok("- !!binary AAECAwQFBgcICQoLDA0ODxAREhMUFRYXGBkaGxwdHh8gISIjJCUmJygpKissLS4vMDEyMzQ1Njc4OTo7PD0+P0BBQkNERUZHSElKS0xNTk9QUVJTVFVWV1hZWltcXV5fYGFiY2RlZmdoaWprbG1ub3BxcnN0dXZ3eHl6e3x9fn+AgYKDhIWGh4iJiouMjY6PkJGSk5SVlpeYmZqbnJ2en6ChoqOkpaanqKmqq6ytrq+wsbKztLW2t7i5uru8vb6/wMHCw8TFxsfIycrLzM3Oz9DR0tPU1dbX2Nna29zd3t/g4eLj5OXm5+jp6uvs7e7v8PHy8/T19vf4+fr7/P3+/w==\n- !!binary AAECAwQFBgcICQoLDA0ODxAREhMUFRYXGBkaGxwdHh8gISIjJCUmJygpKissLS4vMDEyMzQ1Njc4OTo7PD0+P0BBQkNERUZHSElKS0xNTk9QUVJTVFVWV1hZWltcXV5fYGFiY2RlZmdoaWprbG1ub3BxcnN0dXZ3eHl6e3x9fn+AgYKDhIWGh4iJiouMjY6PkJGSk5SVlpeYmZqbnJ2en6ChoqOkpaanqKmqq6ytrq+wsbKztLW2t7i5uru8vb6/wMHCw8TFxsfIycrLzM3Oz9DR0tPU1dbX2Nna29zd3t/g4eLj5OXm5+jp6uvs7e7v8PHy8/T19vf4+fr7/P3+/w==\n")
bytesflow [indent3compact] 256 => Ok("[!!binary AAECAwQFBgcICQoLDA0ODxAREhMUFRYXGBkaGxwdHh8gISIjJCUmJygpKissLS4vMDEyMzQ1Njc4OTo7PD0+P0BBQkNERUZHSElKS0xNTk9QUVJTVFVWV1hZWltcXV5fYGFiY2RlZmdoaWprbG1ub3BxcnN0dXZ3eHl6e3x9fn+AgYKDhIWGh4iJiouMjY6PkJGSk5SVlpeYmZqbnJ2en6ChoqOkpaanqKmqq6ytrq+wsbKztLW2t7i5uru8vb6/wMHCw8TFxsfIycrLzM3Oz9DR0tPU1dbX2Nna29zd3t/g4eLj5OXm5+jp6uvs7e7v8PHy8/T19vf4+fr7/P3+/w==]\n")
byteskey [indent3compact] 256 => Ok("? !!binary AAECAwQFBgcICQoLDA0ODxAREhMUFRYXGBkaGxwdHh8gISIjJCUmJygpKissLS4vMDEyMzQ1Njc4OTo7PD0+P0BBQkNERUZHSElKS0xNTk9QUVJTVFVWV1hZWltcXV5fYGFiY2RlZmdoaWprbG1ub3BxcnN0dXZ3eHl6e3x9fn+AgYKDhIWGh4iJiouMjY6PkJGSk5SVlpeYmZqbnJ2en6ChoqOkpaanqKmqq6ytrq+wsbKztLW2t7i5uru8vb6/wMHCw8TFxsfIycrLzM3Oz9DR0tPU1dbX2Nna29zd3t/g4eLj5OXm5+jp6uvs7e7v8PHy8/T19vf4+fr7/P3+/w==\n: 1\n")
bytesnested [indent3compact] 256 => Ok("k:\n- b: !!binary AAECAwQFBgcICQoLDA0ODxAREhMUFRYXGBkaGxwdHh8gISIjJCUmJygpKissLS4vMDEyMzQ1Njc4OTo7PD0+P0BBQkNERUZHSElKS0xNTk9QUVJTVFVWV1hZWltcXV5fYGFiY2RlZmdoaWprbG1ub3BxcnN0dXZ3eHl6e3x9fn+AgYKDhIWGh4iJiouMjY6PkJGSk5SVlpeYmZqbnJ2en6ChoqOkpaanqKmqq6ytrq+wsbKztLW2t7i5uru8vb6/wMHCw8TFxsfIycrLzM3Oz9DR0tPU1dbX2Nna29zd3t/g4eLj5OXm5+jp6uvs7e7v8PHy8/T19vf4+fr7/P3+/w==\n")
err indent0 => Err("invalid serialization options: Invalid indent step must be positive")
err seqkey => Ok("? - 1\n: 1\n")
de-i32 "\"123\"" => Ok(123)
de-vecbool "\"123\"" => Err("error: line 1 column 1: unexpected event: expected sequence start\n --> <input>:1:1\n  |\n1 | \"123\"\n  | ^ unexpected event: expected sequence start")
de-string "\"123\"" => Ok("123")
de-i32 "'1.5'\n" => Err("error: line 1 column 1: invalid i32\n --> <input>:1:1\n  |\n1 | '1.5'\n  | ^ invalid i32")
de-vecbool "'1.5'\n" => Err("error: line 1 column 1: unexpected event: expected sequence start\n --> <input>:1:1\n  |\n1 | '1.5'\n  | ^ unexpected event: expected sequence start")
de-string "'1.5'\n" => Ok("1.5")
de-i32 "k: \"~\"\n" => Err("error: line 1 column 1: unexpected event: expected string scalar\n --> <input>:1:1\n  |\n1 | k: \"~\"\n  | ^ unexpected event: expected string scalar")
de-vecbool "k: \"~\"\n" => Err("error: line 1 column 1: unexpected event: expected sequence start\n --> <input>:1:1\n  |\n1 | k: \"~\"\n  | ^ unexpected event: expected sequence start")
de-string "k: \"~\"\n" => Err("error: line 1 column 1: unexpected event: expected string scalar\n --> <input>:1:1\n  |\n1 | k: \"~\"\n  | ^ unexpected event: expected string scalar")
de-i32 "- \"true\"\n- x\n" => Err("error: line 1 column 1: unexpected event: expected string scalar\n --> <input>:1:1\n  |\n1 | - \"true\"\n  | ^ unexpected event: expected string scalar\n2 | - x\n  |")
de-vecbool "- \"true\"\n- x\n" => Err("error: line 2 column 3: invalid boolean\n --> <input>:2:3\n  |\n1 | - \"true\"\n2 | - x\n  |   ^ invalid boolean")
de-string "- \"true\"\n- x\n" => Err("error: line 1 column 1: unexpected event: expected string scalar\n --> <input>:1:1\n  |\n1 | - \"true\"\n  | ^ unexpected event: expected string scalar\n2 | - x\n  |")
de-i32 "\"\\x41\\q\"" => Err("error: line 1 column 1: while parsing a quoted scalar, found unknown escape character\n --> <input>:1:1\n  |\n1 | \"\\x41\\q\"\n  | ^ while parsing a quoted scalar, found unknown escape character")
de-vecbool "\"\\x41\\q\"" => Err("error: line 1 column 1: while parsing a quoted scalar, found unknown escape character\n --> <input>:1:1\n  |\n1 | \"\\x41\\q\"\n  | ^ while parsing a quoted scalar, found unknown escape character")
de-string "\"\\x41\\q\"" => Err("error: line 1 column 1: while parsing a quoted scalar, found unknown escape character\n --> <input>:1:1\n  |\n1 | \"\\x41\\q\"\n  | ^ while parsing a quoted scalar, found unknown escape character")
de-i32 ".nan" => Err("error: line 1 column 1: invalid i32\n --> <input>:1:1\n  |\n1 | .nan\n  | ^ invalid i32")
de-vecbool ".nan" => Err("error: line 1 column 1: unexpected event: expected sequence start\n --> <input>:1:1\n  |\n1 | .nan\n  | ^ unexpected event: expected sequence start")
de-string ".nan" => Ok(".nan")
calls [default] Ok(()) ["lit", ":", " ", "|", "+", "\n", "  ", "a", "\n", "  ", "", "\n", "  ", "b", "\n", "  ", "\n", "  ", "\n", "fold", ":", " ", ">", "-", "\n", "  ", "word word word word word word word word word word word word word word word word", "\n", "  ", "word word word word    tail tail tail tail tail ", "\n", "esc", ":", " ", "\"", "q", "\\\"", "\\\\", "\\a", "\\N", "\\x", "9F", "\\uFEFF", "'", "\"", "\n", "nl", ":", " ", "\"", "\\n", "\"", "\n", "f", ":", " ", "\"", "1", "e", "5", "\"", "\n"]
fcalls [default] Ok(()) ["- ", "1.5", "\n", "- ", "1", ".0", "e", "+300", "\n", "- ", ".nan", "\n", "- ", "-0.0", "\n"]
calls [quote_all] Ok(()) ["lit", ":", " ", "\"", "a", "\\n", "\\n", "b", "\\n", "\\n", "\\n", "\"", "\n", "fold", ":", " ", "'", "w", "o", "r", "d", " ", "w", "o", "r", "d", " ", "w", "o", "r", "d", " ", "w", "o", "r", "d", " ", "w", "o", "r", "d", " ", "w", "o", "r", "d", " ", "w", "o", "r", "d", " ", "w", "o", "r", "d", " ", "w", "o", "r", "d", " ", "w", "o", "r", "d", " ", "w", "o", "r", "d", " ", "w", "o", "r", "d", " ", "w", "o", "r", "d", " ", "w", "o", "r", "d", " ", "w", "o", "r", "d", " ", "w", "o", "r", "d", " ", "w", "o", "r", "d", " ", "w", "o", "r", "d", " ", "w", "o", "r", "d", " ", "w", "o", "r", "d", " ", " ", " ", " ", "t", "a", "i", "l", " ", "t", "a", "i", "l", " ", "t", "a", "i", "l", " ", "t", "a", "i", "l", " ", "t", "a", "i", "l", " ", "'", "\n", "esc", ":", " ", "\"", "q", "\\\"", "\\\\", "\\a", "\\N", "\\x", "9F", "\\uFEFF", "'", "\"", "\n", "nl", ":", " ", "\"", "\\n", "\"", "\n", "f", ":", " ", "'", "1", "e", "5", "'", "\n"]
fcalls [quote_all] Ok(()) ["- ", "1.5", "\n", "- ", "1", ".0", "e", "+300", "\n", "- ", ".nan", "\n", "- ", "-0.0", "\n"]
calls [yaml12] Ok(()) ["%YAML 1.2\n---\n", "lit", ":", " ", "|", "+", "\n", "  ", "a", "\n", "  ", "", "\n", "  ", "b", "\n", "  ", "\n", "  ", "\n", "fold", ":", " ", ">", "-", "\n", "  ", "word word word word word word word word word word word word word word word word", "\n", "  ", "word word word word    tail tail tail tail tail ", "\n", "esc", ":", " ", "\"", "q", "\\\"", "\\\\", "\\a", "\\N", "\\x", "9F", "\\uFEFF", "'", "\"", "\n", "nl", ":", " ", "\"", "\\n", "\"", "\n", "f", ":", " ", "\"", "1", "e", "5", "\"", "\n"]
fcalls [yaml12] Ok(()) ["%YAML 1.2\n---\n", "- ", "1.5", "\n", "- ", "1", ".0", "e", "+300", "\n", "- ", ".nan", "\n", "- ", "-0.0", "\n"]
calls [noblock] Ok(()) ["lit", ":", " ", "\"", "a", "\\n", "\\n", "b", "\\n", "\\n", "\\n", "\"", "\n", "fold", ":", " ", "\"", "w", "o", "r", "d", " ", "w", "o", "r", "d", " ", "w", "o", "r", "d", " ", "w", "o", "r", "d", " ", "w", "o", "r", "d", " ", "w", "o", "r", "d", " ", "w", "o", "r", "d", " ", "w", "o", "r", "d", " ", "w", "o", "r", "d", " ", "w", "o", "r", "d", " ", "w", "o", "r", "d", " ", "w", "o", "r", "d", " ", "w", "o", "r", "d", " ", "w", "o", "r", "d", " ", "w", "o", "r", "d", " ", "w", "o", "r", "d", " ", "w", "o", "r", "d", " ", "w", "o", "r", "d", " ", "w", "o", "r", "d", " ", "w", "o", "r", "d", " ", " ", " ", " ", "t", "a", "i", "l", " ", "t", "a", "i", "l", " ", "t", "a", "i", "l", " ", "t", "a", "i", "l", " ", "t", "a", "i", "l", " ", "\"", "\n", "esc", ":", " ", "\"", "q", "\\\"", "\\\\", "\\a", "\\N", "\\x", "9F", "\\uFEFF", "'", "\"", "\n", "nl", ":", " ", "\"", "\\n", "\"", "\n", "f", ":", " ", "\"", "1", "e", "5", "\"", "\n"]
fcalls [noblock] Ok(()) ["- ", "1.5", "\n", "- ", "1", ".0", "e", "+300", "\n", "- ", ".nan", "\n", "- ", "-0.0", "\n"]
calls [indent4] Ok(()) ["lit", ":", " ", "|", "+", "\n", "    ", "a", "\n", "    ", "", "\n", "    ", "b", "\n", "    ", "\n", "    ", "\n", "fold", ":", " ", ">", "-", "\n", "    ", "word word word word word word word word word word word word word word word word", "\n", "    ", "word word word word    tail tail tail tail tail ", "\n", "esc", ":", " ", "\"", "q", "\\\"", "\\\\", "\\a", "\\N", "\\x", "9F", "\\uFEFF", "'", "\"", "\n", "nl", ":", " ", "\"", "\\n", "\"", "\n", "f", ":", " ", "\"", "1", "e", "5", "\"", "\n"]
fcalls [indent4] Ok(()) ["- ", "1.5", "\n", "- ", "1", ".0", "e", "+300", "\n", "- ", ".nan", "\n", "- ", "-0.0", "\n"]
calls [wrap12] Ok(()) ["lit", ":", " ", "|", "+", "\n", "  ", "a", "\n", "  ", "", "\n", "  ", "b", "\n", "  ", "\n", "  ", "\n", "fold", ":", " ", ">", "-", "\n", "  ", "word word", "\n", "  ", "word word word", "\n", "  ", "word word", "\n", "  ", "word word word", "\n", "  ", "word word", "\n", "  ", "word word word", "\n", "  ", "word word word", "\n", "  ", "word word", " ", " ", " ", "\n", "  ", "tail tail", "\n", "  ", "tail tail tail ", "\n", "esc", ":", " ", "\"", "q", "\\\"", "\\\\", "\\a", "\\N", "\\x", "9F", "\\uFEFF", "'", "\"", "\n", "nl", ":", " ", "\"", "\\n", "\"", "\n", "f", ":", " ", "\"", "1", "e", "5", "\"", "\n"]
fcalls [wrap12] Ok(()) ["- ", "1.5", "\n", "- ", "1", ".0", "e", "+300", "\n", "- ", ".nan", "\n", "- ", "-0.0", "\n"]
calls [indent3compact] Ok(()) ["lit", ":", " ", "|", "+", "\n", "   ", "a", "\n", "   ", "", "\n", "   ", "b", "\n", "   ", "\n", "   ", "\n", "fold", ":", " ", ">", "-", "\n", "   ", "word word word word word word word word word word word word word word word word", "\n", "   ", "word word word word    tail tail tail tail tail ", "\n", "esc", ":", " ", "\"", "q", "\\\"", "\\\\", "\\a", "\\N", "\\x", "9F", "\\uFEFF", "'", "\"", "\n", "nl", ":", " ", "\"", "\\n", "\"", "\n", "f", ":", " ", "\"", "1", "e", "5", "\"", "\n"]
fcalls [indent3compact] Ok(()) ["- ", "1.5", "\n", "- ", "1", ".0", "e", "+300", "\n", "- ", ".nan", "\n", "- ", "-0.0", "\n"]
failing writer => ["formatting error: an error occurred when formatting an argument", "ok"]
"#####;
