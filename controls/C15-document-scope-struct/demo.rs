//! Differential test for the C15 control refactoring ("a call's result depends only on its
//! arguments, not on earlier or nested calls").
//!
//! Every case is a plain `fn() -> String` that uses only the public API and renders what it
//! observed (values, error texts with locations, emitted YAML, pointer-identity facts).
//! The expected strings were generated on the UNMODIFIED tree (`DEMO_PRINT=1`) and pasted in
//! as literals; the same file must pass with the refactoring applied.
//!
//! Each case is run three ways and compared with the same literal every time:
//!   1. on a fresh thread (nothing ran before it);
//!   2. on one shared thread, after all preceding cases (successful, failing and panicking);
//!   3. on the same shared thread again, in reverse order.

use std::cell::RefCell;
use std::fmt::Debug;
use std::io::{Cursor, Read};
use std::panic::{AssertUnwindSafe, catch_unwind};
use std::rc::Rc;
use std::sync::Arc;

use indoc::indoc;
use serde::de::DeserializeOwned;
use serde::{Deserialize, Serialize};
use serde_saphyr::{
    ArcAnchor, ArcRecursion, ArcRecursive, ArcWeakAnchor, Error, Options, RcAnchor, RcRecursion,
    RcRecursive, RcWeakAnchor, Spanned,
};

// ---------------------------------------------------------------------------------------------
// rendering helpers
// ---------------------------------------------------------------------------------------------

fn show_err(e: &Error) -> String {
    let loc = e.location().map(|l| (l.line(), l.column()));
    format!("Err@{loc:?}: {e}")
}

fn show<T: Debug>(res: Result<T, Error>) -> String {
    match res {
        Ok(v) => format!("Ok({v:?})"),
        Err(e) => show_err(&e),
    }
}

fn show_with<T>(res: Result<T, Error>, f: impl FnOnce(T) -> String) -> String {
    match res {
        Ok(v) => format!("Ok({})", f(v)),
        Err(e) => show_err(&e),
    }
}

// ---------------------------------------------------------------------------------------------
// model types
// ---------------------------------------------------------------------------------------------

#[derive(Debug, Clone, PartialEq, Deserialize, Serialize)]
struct Node {
    name: String,
}

#[derive(Debug, PartialEq, Deserialize, Serialize)]
struct Point {
    x: i32,
    y: i32,
}

#[derive(Debug, PartialEq, Deserialize)]
struct Line {
    from: Point,
    to: Point,
}

#[derive(Deserialize)]
struct RcDoc {
    strong: RcAnchor<Node>,
    weak: RcWeakAnchor<Node>,
}

#[derive(Deserialize)]
struct ArcDoc {
    strong: ArcAnchor<Node>,
    weak: ArcWeakAnchor<Node>,
}

#[derive(Deserialize)]
struct SharedRc {
    a: RcAnchor<Node>,
    b: RcAnchor<Node>,
}

#[derive(Deserialize)]
struct SharedArc {
    a: ArcAnchor<Node>,
    b: ArcAnchor<Node>,
}

#[derive(Deserialize)]
#[allow(dead_code)]
struct MismatchRc {
    a: RcAnchor<Node>,
    b: RcAnchor<Point>,
}

#[derive(Deserialize)]
#[allow(dead_code)]
struct MismatchArc {
    a: ArcAnchor<Node>,
    b: ArcAnchor<Point>,
}

#[derive(Deserialize, Serialize)]
struct Foo {
    k1: String,
    k3: RcRecursion<Foo>,
}

#[derive(Deserialize, Serialize)]
struct OuterFoo {
    foo: RcRecursive<Foo>,
}

#[derive(Deserialize, Serialize)]
struct FooArc {
    k1: String,
    k3: ArcRecursion<FooArc>,
}

#[derive(Deserialize, Serialize)]
struct OuterFooArc {
    foo: ArcRecursive<FooArc>,
}

#[derive(Deserialize)]
#[allow(dead_code)]
struct Bar {
    k1: String,
}

#[derive(Deserialize)]
#[allow(dead_code)]
struct MismatchRecursive {
    foo: RcRecursive<Foo>,
    other: RcRecursive<Bar>,
}

fn shared_rc(d: SharedRc) -> String {
    format!(
        "a={} b={} same={} strong={}",
        d.a.0.name,
        d.b.0.name,
        Rc::ptr_eq(&d.a.0, &d.b.0),
        Rc::strong_count(&d.a.0)
    )
}

fn rc_doc(d: RcDoc) -> String {
    let up = d.weak.upgrade();
    format!(
        "strong={} weak_same={:?} strong_count={}",
        d.strong.0.name,
        up.as_ref().map(|u| Rc::ptr_eq(u, &d.strong.0)),
        Rc::strong_count(&d.strong.0)
    )
}

fn arc_doc(d: ArcDoc) -> String {
    let up = d.weak.upgrade();
    format!(
        "strong={} weak_same={:?} strong_count={}",
        d.strong.0.name,
        up.as_ref().map(|u| Arc::ptr_eq(u, &d.strong.0)),
        Arc::strong_count(&d.strong.0)
    )
}

/// A string field whose text is itself a YAML document: the `Deserialize` impl runs a complete
/// nested `from_str` call in the middle of the enclosing call.
struct Embedded<T>(String, std::marker::PhantomData<T>);

trait Render: DeserializeOwned {
    fn render(self) -> String;
}
impl Render for Point {
    fn render(self) -> String {
        format!("{self:?}")
    }
}
impl Render for Line {
    fn render(self) -> String {
        format!("{self:?}")
    }
}
impl Render for RcDoc {
    fn render(self) -> String {
        rc_doc(self)
    }
}
impl Render for SharedRc {
    fn render(self) -> String {
        shared_rc(self)
    }
}

impl<'de, T: Render> Deserialize<'de> for Embedded<T> {
    fn deserialize<D: serde::Deserializer<'de>>(d: D) -> Result<Self, D::Error> {
        let text = String::deserialize(d)?;
        let nested = serde_saphyr::from_str::<T>(&text);
        Ok(Embedded(
            show_with(nested, Render::render),
            std::marker::PhantomData,
        ))
    }
}

/// Panics after having consumed its node.
struct Bomb;
impl<'de> Deserialize<'de> for Bomb {
    fn deserialize<D: serde::Deserializer<'de>>(d: D) -> Result<Self, D::Error> {
        let _ = String::deserialize(d)?;
        panic!("demo bomb");
    }
}

#[derive(Deserialize)]
#[allow(dead_code)]
struct PanicDoc {
    keep: RcAnchor<Node>,
    nested: PanicInner,
}

#[derive(Deserialize)]
#[allow(dead_code)]
struct PanicInner {
    first: i32,
    bomb: RcAnchor<Bomb>,
}

struct FailingReader {
    data: Cursor<Vec<u8>>,
}
impl Read for FailingReader {
    fn read(&mut self, buf: &mut [u8]) -> std::io::Result<usize> {
        let n = self.data.read(buf)?;
        if n == 0 {
            Err(std::io::Error::other("demo reader failure"))
        } else {
            Ok(n)
        }
    }
}

// ---------------------------------------------------------------------------------------------
// cases
// ---------------------------------------------------------------------------------------------

const SHARED_YAML: &str = "a: &x\n  name: one\nb: *x\n";
const RC_DOC_YAML: &str = "strong: &a1\n  name: primary\nweak: *a1\n";

fn c01_simple_ok() -> String {
    show(serde_saphyr::from_str::<Point>("x: 3\ny: 4\n"))
}

fn c02_type_error_snippet() -> String {
    show(serde_saphyr::from_str::<Point>("x: 3\ny: [1, 2]\n"))
}

fn c03_type_error_no_snippet() -> String {
    let opts = serde_saphyr::options! { with_snippet: false };
    show(serde_saphyr::from_str_with_options::<Point>(
        "x: 3\ny: nope\n",
        opts,
    ))
}

fn c04_type_error_crop_zero() -> String {
    let opts = serde_saphyr::options! { crop_radius: 0 };
    show(serde_saphyr::from_str_with_options::<Point>(
        "x: 3\ny: nope\n",
        opts,
    ))
}

fn c05_empty_into_bool() -> String {
    let a = show(serde_saphyr::from_str::<bool>(""));
    let b = show(serde_saphyr::from_str::<Point>("# only a comment\n"));
    let c = show(serde_saphyr::from_str::<Option<Point>>(""));
    format!("{a} | {b} | {c}")
}

fn c06_multiple_documents_into_single() -> String {
    show(serde_saphyr::from_str::<Point>(
        "x: 1\ny: 2\n---\nx: 3\ny: 4\n",
    ))
}

fn c07_garbage_after_doc_end() -> String {
    show(serde_saphyr::from_str::<Point>("x: 1\ny: 2\n...\n}{ garbage\n"))
}

fn c08_garbage_without_doc_end() -> String {
    show(serde_saphyr::from_str::<Vec<i32>>("[1, 2]\n]\n"))
}

fn c09_bom() -> String {
    let ok = show(serde_saphyr::from_str::<Point>("\u{FEFF}x: 1\ny: 2\n"));
    let err = show(serde_saphyr::from_str::<Point>("\u{FEFF}x: 1\ny: zz\n"));
    let borrowed = show(serde_saphyr::from_str::<&str>("\u{FEFF}hello"));
    format!("{ok} | {err} | {borrowed}")
}

fn c10_budget_breach_with_report() -> String {
    let log: Rc<RefCell<Vec<String>>> = Rc::new(RefCell::new(Vec::new()));
    let sink = log.clone();
    let opts = serde_saphyr::options! {
        budget: serde_saphyr::budget! { max_nodes: 4 },
    }
    .with_budget_report(move |r| {
        sink.borrow_mut().push(format!(
            "events={} nodes={} docs={} anchors={} aliases={} depth={} breached={:?}",
            r.events, r.nodes, r.documents, r.anchors, r.aliases, r.max_depth, r.breached
        ));
    });
    let res = show(serde_saphyr::from_str_with_options::<Vec<i32>>(
        "[1, 2, 3, 4, 5, 6]\n",
        opts,
    ));
    format!("{res} | reports={:?}", log.borrow())
}

fn c11_budget_ok_with_report_twice() -> String {
    // the same closure observes two independent calls: counters start from zero each time
    let log: Rc<RefCell<Vec<String>>> = Rc::new(RefCell::new(Vec::new()));
    let mut out = Vec::new();
    for text in ["a: &k [1, 2]\nb: *k\n", "a: [1]\nb: [2]\n"] {
        let sink = log.clone();
        let opts = Options::default().with_budget_report(move |r| {
            sink.borrow_mut().push(format!(
                "events={} nodes={} docs={} anchors={} aliases={}",
                r.events, r.nodes, r.documents, r.anchors, r.aliases
            ));
        });
        out.push(show(serde_saphyr::from_str_with_options::<
            std::collections::BTreeMap<String, Vec<i32>>,
        >(text, opts)));
    }
    format!("{out:?} | reports={:?}", log.borrow())
}

thread_local! {
    static FN_REPORTS: RefCell<Vec<String>> = const { RefCell::new(Vec::new()) };
}

fn fn_report(r: &serde_saphyr::budget::BudgetReport) {
    FN_REPORTS.with(|l| {
        l.borrow_mut()
            .push(format!("events={} docs={}", r.events, r.documents))
    });
}

#[allow(deprecated)]
fn c12_deprecated_fn_report_reader_and_str() -> String {
    FN_REPORTS.with(|l| l.borrow_mut().clear());
    let opts = serde_saphyr::options! { budget_report: Some(fn_report) };
    let a = show(serde_saphyr::from_str_with_options::<Point>(
        "x: 1\ny: 2\n",
        opts.clone(),
    ));
    let b = show(serde_saphyr::from_reader_with_options::<_, Point>(
        Cursor::new(b"x: 5\ny: 6\n".to_vec()),
        opts.clone(),
    ));
    let c = show(serde_saphyr::from_multiple_with_options::<Point>(
        "x: 1\ny: 2\n---\nx: 3\ny: 4\n",
        opts,
    ));
    let reports = FN_REPORTS.with(|l| std::mem::take(&mut *l.borrow_mut()));
    format!("{a} | {b} | {c} | {reports:?}")
}

fn c13_alias_limit() -> String {
    let mut opts = Options::default();
    #[allow(deprecated)]
    {
        opts.alias_limits.max_total_replayed_events = 5;
    }
    show(serde_saphyr::from_str_with_options::<Vec<Vec<i32>>>(
        "- &a [1, 2, 3]\n- *a\n- *a\n- *a\n",
        opts,
    ))
}

fn c14_from_multiple_ok_with_nulls() -> String {
    show(serde_saphyr::from_multiple::<Point>(
        "x: 1\ny: 2\n---\n~\n---\nx: 3\ny: 4\n---\n",
    ))
}

fn c15_from_multiple_error_in_second() -> String {
    show(serde_saphyr::from_multiple::<Point>(
        "x: 1\ny: 2\n---\nx: 3\n---\nx: 5\ny: 6\n",
    ))
}

fn c16_from_multiple_anchor_not_shared_between_docs() -> String {
    // every document defines and uses its own &x; the Rc table is reset per document
    let res = serde_saphyr::from_multiple::<SharedRc>(
        "a: &x\n  name: one\nb: *x\n---\na: &x\n  name: two\nb: *x\n",
    );
    show_with(res, |docs| {
        let cross = Rc::ptr_eq(&docs[0].a.0, &docs[1].a.0);
        let parts: Vec<String> = docs.into_iter().map(shared_rc).collect();
        format!("{parts:?} cross_doc_same={cross}")
    })
}

fn c17_from_multiple_alias_to_previous_doc() -> String {
    show(serde_saphyr::from_multiple::<Vec<i32>>(
        "- &k 1\n- *k\n---\n- *k\n",
    ))
}

fn c18_from_slice() -> String {
    let bad = show(serde_saphyr::from_slice::<Point>(&[0x78, 0x3a, 0x20, 0xff]));
    let ok = show(serde_saphyr::from_slice::<Point>(b"{x: 7, y: 8}"));
    let multi = show(serde_saphyr::from_slice_multiple::<i32>(b"1\n---\n2\n"));
    format!("{bad} | {ok} | {multi}")
}

fn c19_from_reader_ok_and_errors() -> String {
    let ok = show(serde_saphyr::from_reader::<_, Point>(Cursor::new(
        b"x: 3\ny: 4\n".to_vec(),
    )));
    let ty = show(serde_saphyr::from_reader::<_, Point>(Cursor::new(
        b"x: 3\ny: [4]\n".to_vec(),
    )));
    let eof = show(serde_saphyr::from_reader::<_, bool>(Cursor::new(Vec::new())));
    let multi = show(serde_saphyr::from_reader::<_, i32>(Cursor::new(
        b"1\n---\n2\n".to_vec(),
    )));
    format!("{ok} | {ty} | {eof} | {multi}")
}

fn c20_from_reader_options() -> String {
    let crop0 = show(serde_saphyr::from_reader_with_options::<_, Point>(
        Cursor::new(b"x: 3\ny: nope\n".to_vec()),
        serde_saphyr::options! { crop_radius: 0 },
    ));
    let cap = show(serde_saphyr::from_reader_with_options::<_, Vec<i32>>(
        Cursor::new(b"[1, 2, 3, 4, 5, 6, 7, 8, 9, 10]\n".to_vec()),
        serde_saphyr::options! {
            budget: serde_saphyr::budget! { max_reader_input_bytes: Some(8) },
        },
    ));
    let garbage_after_end = show(serde_saphyr::from_reader::<_, Point>(Cursor::new(
        b"x: 1\ny: 2\n...\n}{ garbage\n".to_vec(),
    )));
    let garbage = show(serde_saphyr::from_reader::<_, Vec<i32>>(Cursor::new(
        b"[1, 2]\n]\n".to_vec(),
    )));
    format!("{crop0} | {cap} | {garbage_after_end} | {garbage}")
}

fn c21_from_reader_io_failure() -> String {
    let single = show(serde_saphyr::from_reader::<_, Point>(FailingReader {
        data: Cursor::new(b"x: 1\ny: 2\n".to_vec()),
    }));
    let mut rd = FailingReader {
        data: Cursor::new(b"x: 1\ny: 2\n---\nx: 3\ny: 4\n".to_vec()),
    };
    let items: Vec<String> = serde_saphyr::read::<_, Point>(&mut rd).map(show).collect();
    format!("{single} | {items:?}")
}

fn c22_read_iterator_recovers() -> String {
    let mut rd = Cursor::new(
        b"x: 1\ny: 2\n---\nx: oops\ny: 0\n---\n~\n---\nx: 5\n---\nx: 7\ny: 8\n".to_vec(),
    );
    let items: Vec<String> = serde_saphyr::read::<_, Point>(&mut rd).map(show).collect();
    format!("{items:?}")
}

fn c23_read_iterator_anchors_per_document() -> String {
    let mut rd = Cursor::new(
        b"a: &x\n  name: one\nb: *x\n---\na: &x\n  name: two\nb:\n  name: three\n".to_vec(),
    );
    let items: Vec<String> = serde_saphyr::read_with_options::<_, SharedRc>(
        &mut rd,
        Options::default(),
    )
    .map(|r| show_with(r, shared_rc))
    .collect();
    format!("{items:?}")
}

fn c24_rc_anchor_shared_and_fresh_per_call() -> String {
    let first = serde_saphyr::from_str::<SharedRc>(SHARED_YAML).unwrap();
    let second = serde_saphyr::from_str::<SharedRc>(SHARED_YAML).unwrap();
    let cross = Rc::ptr_eq(&first.a.0, &second.a.0);
    // nothing but the two fields holds the value once the call has returned
    let counts = (Rc::strong_count(&first.a.0), Rc::strong_count(&second.a.0));
    format!(
        "{} | {} | cross_call_same={cross} counts={counts:?}",
        shared_rc(first),
        shared_rc(second)
    )
}

fn c25_arc_anchor_shared() -> String {
    let res = serde_saphyr::from_str::<SharedArc>(SHARED_YAML);
    show_with(res, |d| {
        format!(
            "same={} strong={}",
            Arc::ptr_eq(&d.a.0, &d.b.0),
            Arc::strong_count(&d.a.0)
        )
    })
}

fn c26_weak_anchors() -> String {
    let rc = show_with(serde_saphyr::from_str::<RcDoc>(RC_DOC_YAML), rc_doc);
    let arc = show_with(serde_saphyr::from_str::<ArcDoc>(RC_DOC_YAML), arc_doc);
    let before = show_with(
        serde_saphyr::from_str::<RcDoc>("weak: *a1\nstrong: &a1\n  name: later\n"),
        rc_doc,
    );
    // `a1` was stored by the calls above; a new call must not see it
    let unanchored = show_with(
        serde_saphyr::from_str::<RcDoc>("strong:\n  name: plain\nweak:\n  name: other\n"),
        rc_doc,
    );
    format!("{rc} | {arc} | {before} | {unanchored}")
}

fn c27_anchor_type_mismatch() -> String {
    let yaml = "a: &x\n  name: one\nb: *x\n";
    let rc = show_with(serde_saphyr::from_str::<MismatchRc>(yaml), |_| "ok".into());
    let arc = show_with(serde_saphyr::from_str::<MismatchArc>(yaml), |_| "ok".into());
    // the failed calls left `x` stored with type Node: a following call that anchors a Point
    // under the same id must not see it
    #[derive(Deserialize)]
    struct Two {
        a: RcAnchor<Point>,
        b: RcAnchor<Point>,
    }
    let after = show_with(
        serde_saphyr::from_str::<Two>("a: &x {x: 1, y: 2}\nb: *x\n"),
        |d| format!("{:?} same={}", d.a.0, Rc::ptr_eq(&d.a.0, &d.b.0)),
    );
    format!("{rc} | {arc} | {after}")
}

fn c28_recursive_anchors() -> String {
    let yaml = indoc! {"
        foo: &r
          k1: One
          k3: *r
    "};
    let rc = show_with(serde_saphyr::from_str::<OuterFoo>(yaml), |o| {
        let k3 = o.foo.borrow().k3.upgrade().expect("alive");
        let name = k3.borrow().k1.clone();
        format!("k1={} k3.k1={} same={}", o.foo.borrow().k1, name, Rc::ptr_eq(&k3.0, &o.foo.0))
    });
    let arc = show_with(serde_saphyr::from_str::<OuterFooArc>(yaml), |o| {
        let k3 = o.foo.lock().unwrap().as_ref().unwrap().k3.upgrade().expect("alive");
        format!("same={}", Arc::ptr_eq(&k3.0, &o.foo.0))
    });
    let mismatch = show_with(
        serde_saphyr::from_str::<MismatchRecursive>(indoc! {"
            foo: &r
              k1: One
              k3: *r
            other: *r
        "}),
        |_| "ok".into(),
    );
    let strong_cycle = show_with(
        serde_saphyr::from_str::<RcAnchor<Vec<RcAnchor<Node>>>>("&s\n- *s\n"),
        |_| "ok".into(),
    );
    format!("{rc} | {arc} | {mismatch} | {strong_cycle}")
}

fn c29_missing_field_locations() -> String {
    let top = show(serde_saphyr::from_str::<Point>("x: 1\n"));
    let nested = show(serde_saphyr::from_str::<Line>(
        "from: {x: 1, y: 2}\nto:\n  x: 9\n",
    ));
    let unknown = {
        #[derive(Debug, Deserialize)]
        #[serde(deny_unknown_fields)]
        #[allow(dead_code)]
        struct Strict {
            a: i32,
        }
        show(serde_saphyr::from_str::<Strict>("a: 1\nzzz: 2\n"))
    };
    let no_snip = show(serde_saphyr::from_str_with_options::<Line>(
        "from: {x: 1, y: 2}\nto:\n  x: 9\n",
        serde_saphyr::options! { with_snippet: false },
    ));
    format!("{top} | {nested} | {unknown} | {no_snip}")
}

fn c30_missing_field_via_reader_and_multiple() -> String {
    let rd = show(serde_saphyr::from_reader::<_, Line>(Cursor::new(
        b"from: {x: 1, y: 2}\nto:\n  x: 9\n".to_vec(),
    )));
    let multi = show(serde_saphyr::from_multiple_with_options::<Point>(
        "x: 1\ny: 2\n---\n\n\ny: 3\n",
        serde_saphyr::options! { with_snippet: false },
    ));
    format!("{rd} | {multi}")
}

fn c31_nested_call_fails_outer_continues() -> String {
    #[derive(Deserialize)]
    struct Outer {
        emb: Embedded<Point>,
        line: Line,
    }
    // the nested document is missing `y`; afterwards the OUTER document is missing `to.y`
    let res = serde_saphyr::from_str_with_options::<Outer>(
        "emb: \"x: 1\"\nline:\n  from: {x: 1, y: 2}\n  to:\n    x: 9\n",
        serde_saphyr::options! { with_snippet: false },
    );
    let outer_err = show_with(res, |o| format!("emb={} line={:?}", o.emb.0, o.line));
    // and one where the outer succeeds, so the nested error text itself is visible
    let res = serde_saphyr::from_str::<Outer>(
        "emb: \"x: 1\"\nline:\n  from: {x: 1, y: 2}\n  to: {x: 3, y: 4}\n",
    );
    let outer_ok = show_with(res, |o| format!("emb={} line={:?}", o.emb.0, o.line));
    format!("{outer_err} | {outer_ok}")
}

fn c32_nested_call_then_outer_missing_field_in_same_map() -> String {
    #[derive(Deserialize)]
    #[allow(dead_code)]
    struct Outer {
        emb: Embedded<Line>,
        needed: i32,
    }
    let res = serde_saphyr::from_str_with_options::<Outer>(
        "\n\nemb: |\n  from: {x: 1, y: 2}\n  to: {x: 1}\n",
        serde_saphyr::options! { with_snippet: false },
    );
    show_with(res, |o| o.emb.0)
}

fn c33_nested_call_with_anchors_inside_anchored_outer() -> String {
    #[derive(Deserialize)]
    struct Outer {
        a: RcAnchor<Node>,
        emb: Embedded<RcDoc>,
        emb2: Embedded<SharedRc>,
        b: RcAnchor<Node>,
    }
    let yaml = indoc! {r#"
        a: &x
          name: outer
        emb: "strong: &a1\n  name: primary\nweak: *a1\n"
        emb2: "a: &x\n  name: inner\nb: *x\n"
        b: *x
    "#};
    let res = serde_saphyr::from_str::<Outer>(yaml);
    show_with(res, |o| {
        format!(
            "a={} b={} outer_same={} emb=[{}] emb2=[{}]",
            o.a.0.name,
            o.b.0.name,
            Rc::ptr_eq(&o.a.0, &o.b.0),
            o.emb.0,
            o.emb2.0
        )
    })
}

fn c34_nested_call_inside_anchor_context() -> String {
    // the nested call happens while the outer call is INSIDE an RcAnchor context
    #[derive(Deserialize)]
    struct Holder {
        emb: Embedded<SharedRc>,
        tail: i32,
    }
    #[derive(Deserialize)]
    struct Outer {
        first: RcAnchor<Holder>,
        second: RcAnchor<Holder>,
    }
    let yaml = indoc! {r#"
        first: &h
          emb: "a: &x\n  name: inner\nb: *x\n"
          tail: 1
        second: *h
    "#};
    let res = serde_saphyr::from_str::<Outer>(yaml);
    show_with(res, |o| {
        format!(
            "same={} first=[{} {}] second=[{} {}]",
            Rc::ptr_eq(&o.first.0, &o.second.0),
            o.first.0.emb.0,
            o.first.0.tail,
            o.second.0.emb.0,
            o.second.0.tail
        )
    })
}

fn c35_panicking_visitor_then_normal_calls() -> String {
    let yaml = indoc! {"
        keep: &k
          name: kept
        nested:
          first: 1
          bomb: &b boom
    "};
    let panicked = catch_unwind(AssertUnwindSafe(|| {
        serde_saphyr::from_str::<PanicDoc>(yaml).map(|_| ())
    }));
    let first = match panicked {
        Ok(r) => show(r),
        Err(p) => format!(
            "panicked: {}",
            p.downcast_ref::<&str>().copied().unwrap_or("<non-str>")
        ),
    };
    // Same anchor ids as the ones that were in progress / stored when the visitor panicked.
    let after_shared = show_with(serde_saphyr::from_str::<SharedRc>(SHARED_YAML), shared_rc);
    let after_weak = show_with(
        serde_saphyr::from_str::<RcDoc>("weak: *a1\nstrong: &a1\n  name: later\n"),
        rc_doc,
    );
    // A custom error has no location of its own unless a fallback is attached.
    let after_missing = show(serde_saphyr::from_str_with_options::<Point>(
        "x: 1\n",
        serde_saphyr::options! { with_snippet: false },
    ));
    let after_reader = show(serde_saphyr::from_reader::<_, Line>(Cursor::new(
        b"from: {x: 1, y: 2}\nto:\n  x: 9\n".to_vec(),
    )));
    format!("{first} | {after_shared} | {after_weak} | {after_missing} | {after_reader}")
}

fn c36_panic_in_reader_iterator_then_continue() -> String {
    let mut rd = Cursor::new(b"keep: &k\n  name: kept\nnested:\n  first: 1\n  bomb: &b boom\n---\nkeep:\n  name: x\nnested:\n  first: zz\n".to_vec());
    let mut it = serde_saphyr::read::<_, PanicDoc>(&mut rd);
    let first = match catch_unwind(AssertUnwindSafe(|| it.next().map(|r| r.map(|_| ())))) {
        Ok(Some(r)) => show(r),
        Ok(None) => "None".to_string(),
        Err(_) => "panicked".to_string(),
    };
    drop(it);
    let after = show_with(serde_saphyr::from_str::<SharedRc>(SHARED_YAML), shared_rc);
    format!("{first} | {after}")
}

fn c37_with_deserializer_entry_points() -> String {
    let a = serde_saphyr::with_deserializer_from_str("x: 1\ny: 2\n", |de| Point::deserialize(de));
    let b = serde_saphyr::with_deserializer_from_str(SHARED_YAML, |de| SharedRc::deserialize(de));
    let c = serde_saphyr::with_deserializer_from_reader(Cursor::new(b"x: 1\n".to_vec()), |de| {
        Point::deserialize(de)
    });
    let d = serde_saphyr::with_deserializer_from_str("from: {x: 1, y: 2}\nto: {x: 1}\n", |de| {
        Line::deserialize(de)
    });
    format!(
        "{} | {} | {} | {}",
        show(a),
        show_with(b, shared_rc),
        show(c),
        show(d)
    )
}

fn c38_spanned_and_json_value() -> String {
    #[derive(Debug, Deserialize)]
    #[allow(dead_code)]
    struct S {
        a: Spanned<i32>,
        b: Spanned<String>,
    }
    let spanned = show_with(
        serde_saphyr::from_str::<S>("a: &n 5\nb: text\n"),
        |s| {
            format!(
                "a={}@{}:{} b={}@{}:{}",
                s.a.value,
                s.a.referenced.line(),
                s.a.referenced.column(),
                s.b.value,
                s.b.referenced.line(),
                s.b.referenced.column()
            )
        },
    );
    let json = show(serde_saphyr::from_str::<serde_json::Value>(
        "k: &v [1, {a: b}]\nj: *v\n",
    ));
    let dup = show(serde_saphyr::from_str::<serde_json::Value>("k: 1\nk: 2\n"));
    let dup_last = show(serde_saphyr::from_str_with_options::<serde_json::Value>(
        "k: 1\nk: 2\n",
        serde_saphyr::options! { duplicate_keys: serde_saphyr::DuplicateKeyPolicy::LastWins },
    ));
    format!("{spanned} | {json} | {dup} | {dup_last}")
}

fn c39_serialize_anchors_fresh_ids_every_call() -> String {
    #[derive(Serialize)]
    struct Doc {
        a: RcAnchor<Node>,
        b: RcAnchor<Node>,
        c: RcWeakAnchor<Node>,
        d: ArcAnchor<Node>,
        e: ArcAnchor<Node>,
    }
    let rc = Rc::new(Node { name: "n".into() });
    let arc = Arc::new(Node { name: "m".into() });
    let doc = Doc {
        a: RcAnchor(rc.clone()),
        b: RcAnchor(rc.clone()),
        c: RcWeakAnchor(Rc::downgrade(&rc)),
        d: ArcAnchor(arc.clone()),
        e: ArcAnchor(arc.clone()),
    };
    let first = serde_saphyr::to_string(&doc).unwrap();
    let second = serde_saphyr::to_string(&doc).unwrap();
    let multi = serde_saphyr::to_string_multiple(&[&doc, &doc]).unwrap();
    format!("{first:?} | same={} | {multi:?}", first == second)
}

fn c40_serialize_roundtrip_and_interleaving() -> String {
    // a serializer call nested in a Deserialize impl, and a deserializer call nested in Serialize
    struct Echo(String);
    impl<'de> Deserialize<'de> for Echo {
        fn deserialize<D: serde::Deserializer<'de>>(d: D) -> Result<Self, D::Error> {
            let p = Point::deserialize(d)?;
            Ok(Echo(serde_saphyr::to_string(&p).unwrap()))
        }
    }
    struct Reparse(&'static str);
    impl Serialize for Reparse {
        fn serialize<S: serde::Serializer>(&self, s: S) -> Result<S::Ok, S::Error> {
            let p = serde_saphyr::from_str::<SharedRc>(self.0).map(shared_rc);
            s.serialize_str(&format!("{p:?}"))
        }
    }
    #[derive(Deserialize)]
    struct D {
        one: Echo,
        two: RcAnchor<Node>,
        three: RcAnchor<Node>,
    }
    let de = show_with(
        serde_saphyr::from_str::<D>("two: &t\n  name: t\none: {x: 1, y: 2}\nthree: *t\n"),
        |d| format!("{:?} same={}", d.one.0, Rc::ptr_eq(&d.two.0, &d.three.0)),
    );
    #[derive(Serialize)]
    struct SDoc {
        a: RcAnchor<Node>,
        mid: Reparse,
        b: RcAnchor<Node>,
    }
    let rc = Rc::new(Node { name: "n".into() });
    let ser = serde_saphyr::to_string(&SDoc {
        a: RcAnchor(rc.clone()),
        mid: Reparse(SHARED_YAML),
        b: RcAnchor(rc),
    })
    .unwrap();
    let recursive = {
        let yaml = "foo: &r\n  k1: One\n  k3: *r\n";
        let v = serde_saphyr::from_str::<OuterFoo>(yaml).unwrap();
        serde_saphyr::to_string(&v).unwrap()
    };
    format!("{de} | {ser:?} | {recursive:?}")
}

fn c41_error_kinds_after_each_other() -> String {
    // a chain of differently failing calls; the last ones repeat the first ones
    let inputs: [&str; 6] = [
        "x: 1\n",
        "x: [\n",
        "x: 1\ny: 2\n---\nx: 1\ny: 2\n",
        "",
        "x: 1\n",
        "x: [\n",
    ];
    let out: Vec<String> = inputs
        .iter()
        .map(|t| {
            show(serde_saphyr::from_str_with_options::<Point>(
                t,
                serde_saphyr::options! { with_snippet: false },
            ))
        })
        .collect();
    format!("{out:?}")
}

fn c42_borrowed_and_cow() -> String {
    #[derive(Debug, Deserialize)]
    #[allow(dead_code)]
    struct B<'a> {
        name: &'a str,
        n: i32,
    }
    let ok = show(serde_saphyr::from_str::<B>("name: hello\nn: 1\n"));
    let transformed = show(serde_saphyr::from_str::<B>("name: \"he\\nllo\"\nn: 1\n"));
    let slice = show(serde_saphyr::from_slice_with_options::<B>(
        b"name: bytes\nn: 2\n",
        Options::default(),
    ));
    format!("{ok} | {transformed} | {slice}")
}

type Case = (&'static str, fn() -> String);

fn cases() -> Vec<Case> {
    vec![
        ("c01_simple_ok", c01_simple_ok),
        ("c02_type_error_snippet", c02_type_error_snippet),
        ("c03_type_error_no_snippet", c03_type_error_no_snippet),
        ("c04_type_error_crop_zero", c04_type_error_crop_zero),
        ("c05_empty_into_bool", c05_empty_into_bool),
        ("c06_multiple_documents_into_single", c06_multiple_documents_into_single),
        ("c07_garbage_after_doc_end", c07_garbage_after_doc_end),
        ("c08_garbage_without_doc_end", c08_garbage_without_doc_end),
        ("c09_bom", c09_bom),
        ("c10_budget_breach_with_report", c10_budget_breach_with_report),
        ("c11_budget_ok_with_report_twice", c11_budget_ok_with_report_twice),
        ("c12_deprecated_fn_report_reader_and_str", c12_deprecated_fn_report_reader_and_str),
        ("c13_alias_limit", c13_alias_limit),
        ("c14_from_multiple_ok_with_nulls", c14_from_multiple_ok_with_nulls),
        ("c15_from_multiple_error_in_second", c15_from_multiple_error_in_second),
        (
            "c16_from_multiple_anchor_not_shared_between_docs",
            c16_from_multiple_anchor_not_shared_between_docs,
        ),
        ("c17_from_multiple_alias_to_previous_doc", c17_from_multiple_alias_to_previous_doc),
        ("c18_from_slice", c18_from_slice),
        ("c19_from_reader_ok_and_errors", c19_from_reader_ok_and_errors),
        ("c20_from_reader_options", c20_from_reader_options),
        ("c21_from_reader_io_failure", c21_from_reader_io_failure),
        ("c22_read_iterator_recovers", c22_read_iterator_recovers),
        ("c23_read_iterator_anchors_per_document", c23_read_iterator_anchors_per_document),
        ("c24_rc_anchor_shared_and_fresh_per_call", c24_rc_anchor_shared_and_fresh_per_call),
        ("c25_arc_anchor_shared", c25_arc_anchor_shared),
        ("c26_weak_anchors", c26_weak_anchors),
        ("c27_anchor_type_mismatch", c27_anchor_type_mismatch),
        ("c28_recursive_anchors", c28_recursive_anchors),
        ("c29_missing_field_locations", c29_missing_field_locations),
        ("c30_missing_field_via_reader_and_multiple", c30_missing_field_via_reader_and_multiple),
        ("c31_nested_call_fails_outer_continues", c31_nested_call_fails_outer_continues),
        (
            "c32_nested_call_then_outer_missing_field_in_same_map",
            c32_nested_call_then_outer_missing_field_in_same_map,
        ),
        (
            "c33_nested_call_with_anchors_inside_anchored_outer",
            c33_nested_call_with_anchors_inside_anchored_outer,
        ),
        ("c34_nested_call_inside_anchor_context", c34_nested_call_inside_anchor_context),
        ("c35_panicking_visitor_then_normal_calls", c35_panicking_visitor_then_normal_calls),
        ("c36_panic_in_reader_iterator_then_continue", c36_panic_in_reader_iterator_then_continue),
        ("c37_with_deserializer_entry_points", c37_with_deserializer_entry_points),
        ("c38_spanned_and_json_value", c38_spanned_and_json_value),
        ("c39_serialize_anchors_fresh_ids_every_call", c39_serialize_anchors_fresh_ids_every_call),
        ("c40_serialize_roundtrip_and_interleaving", c40_serialize_roundtrip_and_interleaving),
        ("c41_error_kinds_after_each_other", c41_error_kinds_after_each_other),
        ("c42_borrowed_and_cow", c42_borrowed_and_cow),
    ]
}

// ---------------------------------------------------------------------------------------------
// optional-feature cases (only compiled with the respective feature)
// ---------------------------------------------------------------------------------------------

#[cfg(feature = "garde")]
mod garde_cases {
    use super::*;
    use garde::Validate;

    #[derive(Debug, Deserialize, Validate)]
    pub struct G {
        #[garde(length(min = 2))]
        pub name: String,
        #[garde(range(min = 1))]
        pub n: i32,
    }

    pub fn g01_valid_str() -> String {
        let ok = show(serde_saphyr::from_str_valid::<G>("name: abc\nn: 3\n"));
        let invalid = show(serde_saphyr::from_str_valid::<G>("name: &a x\nn: 0\n"));
        let missing = show(serde_saphyr::from_str_valid::<G>("name: abc\n"));
        let empty = show(serde_saphyr::from_str_valid::<G>(""));
        let two = show(serde_saphyr::from_str_valid::<G>("name: abc\nn: 3\n---\nname: abc\nn: 3\n"));
        let no_snip = show(serde_saphyr::from_str_with_options_valid::<G>(
            "name: x\nn: 3\n",
            serde_saphyr::options! { with_snippet: false },
        ));
        format!("{ok} | {invalid} | {missing} | {empty} | {two} | {no_snip}")
    }

    pub fn g02_valid_multiple_and_reader() -> String {
        let multi = show(serde_saphyr::from_multiple_valid::<G>(
            "name: abc\nn: 3\n---\nname: x\nn: 3\n---\nname: abc\nn: 0\n",
        ));
        let multi_ok = show(serde_saphyr::from_multiple_valid::<G>(
            "name: abc\nn: 3\n---\n~\n---\nname: abcd\nn: 4\n",
        ));
        let rd_ok = show(serde_saphyr::from_reader_valid::<_, G>(Cursor::new(
            b"name: abc\nn: 3\n".to_vec(),
        )));
        let rd_invalid = show(serde_saphyr::from_reader_valid::<_, G>(Cursor::new(
            b"name: x\nn: 3\n".to_vec(),
        )));
        let rd_empty = show(serde_saphyr::from_reader_valid::<_, G>(Cursor::new(Vec::new())));
        let rd_two = show(serde_saphyr::from_reader_valid::<_, G>(Cursor::new(
            b"name: abc\nn: 3\n---\nname: abc\nn: 3\n".to_vec(),
        )));
        let rd_garbage = show(serde_saphyr::from_reader_valid::<_, G>(Cursor::new(
            b"name: abc\nn: 3\n...\n}{\n".to_vec(),
        )));
        let mut cur = Cursor::new(b"name: abc\nn: 3\n---\nname: x\nn: 3\n---\nn: 1\n---\nname: abcd\nn: 4\n".to_vec());
        let iter: Vec<String> = serde_saphyr::read_valid::<_, G>(&mut cur).map(show).collect();
        format!(
            "{multi} | {multi_ok} | {rd_ok} | {rd_invalid} | {rd_empty} | {rd_two} | {rd_garbage} | {iter:?}"
        )
    }

    pub fn cases() -> Vec<Case> {
        vec![
            ("g01_valid_str", g01_valid_str),
            ("g02_valid_multiple_and_reader", g02_valid_multiple_and_reader),
        ]
    }
}

#[cfg(feature = "validator")]
mod validator_cases {
    use super::*;
    use validator::Validate;

    #[derive(Debug, Deserialize, Validate)]
    pub struct V {
        #[validate(length(min = 2))]
        pub name: String,
        #[validate(range(min = 1))]
        pub n: i32,
    }

    pub fn v01_validate_str() -> String {
        let ok = show(serde_saphyr::from_str_validate::<V>("name: abc\nn: 3\n"));
        let invalid = show(serde_saphyr::from_str_validate::<V>("name: x\nn: 3\n"));
        let missing = show(serde_saphyr::from_str_validate::<V>("name: abc\n"));
        let empty = show(serde_saphyr::from_str_validate::<V>(""));
        let two = show(serde_saphyr::from_str_validate::<V>(
            "name: abc\nn: 3\n---\nname: abc\nn: 3\n",
        ));
        format!("{ok} | {invalid} | {missing} | {empty} | {two}")
    }

    pub fn v02_validate_multiple_and_reader() -> String {
        let multi = show(serde_saphyr::from_multiple_validate::<V>(
            "name: abc\nn: 3\n---\nname: x\nn: 3\n",
        ));
        let rd_ok = show(serde_saphyr::from_reader_validate::<_, V>(Cursor::new(
            b"name: abc\nn: 3\n".to_vec(),
        )));
        let rd_invalid = show(serde_saphyr::from_reader_validate::<_, V>(Cursor::new(
            b"name: x\nn: 3\n".to_vec(),
        )));
        let rd_empty = show(serde_saphyr::from_reader_validate::<_, V>(Cursor::new(Vec::new())));
        let rd_two = show(serde_saphyr::from_reader_validate::<_, V>(Cursor::new(
            b"name: abc\nn: 3\n---\nname: abc\nn: 3\n".to_vec(),
        )));
        let mut cur = Cursor::new(b"name: abc\nn: 3\n---\nname: x\nn: 3\n---\nn: 1\n".to_vec());
        let iter: Vec<String> = serde_saphyr::read_validate::<_, V>(&mut cur).map(show).collect();
        format!("{multi} | {rd_ok} | {rd_invalid} | {rd_empty} | {rd_two} | {iter:?}")
    }

    pub fn cases() -> Vec<Case> {
        vec![
            ("v01_validate_str", v01_validate_str),
            ("v02_validate_multiple_and_reader", v02_validate_multiple_and_reader),
        ]
    }
}

// ---------------------------------------------------------------------------------------------
// driver
// ---------------------------------------------------------------------------------------------

fn expected_for(name: &str) -> Option<&'static str> {
    EXPECTED
        .iter()
        .chain(EXPECTED_GARDE.iter())
        .chain(EXPECTED_VALIDATOR.iter())
        .find(|(n, _)| *n == name)
        .map(|(_, v)| *v)
}

fn all_cases() -> Vec<Case> {
    #[allow(unused_mut)]
    let mut all = cases();
    #[cfg(feature = "garde")]
    all.extend(garde_cases::cases());
    #[cfg(feature = "validator")]
    all.extend(validator_cases::cases());
    all
}

/// One single test function: the panic hook is process-global, so nothing else may run
/// concurrently while it is silenced.
#[test]
fn demo_results_are_identical_fresh_sequential_and_reversed() {
    let all = all_cases();
    assert!(all.len() >= 30);

    let saved_hook = std::panic::take_hook();
    std::panic::set_hook(Box::new(|_| {}));

    let mut observed: Vec<(&'static str, &'static str, String)> = Vec::new();

    // 1. every case on its own fresh thread
    for (name, f) in &all {
        let f = *f;
        let out = std::thread::spawn(f).join().unwrap_or_else(|_| "<case panicked>".to_string());
        observed.push(("fresh", name, out));
    }

    // 2. + 3. all cases on one shared thread, forwards and then backwards
    let shared = all.clone();
    let seq = std::thread::spawn(move || {
        let mut out = Vec::new();
        for (name, f) in &shared {
            out.push(("sequential", *name, f()));
        }
        for (name, f) in shared.iter().rev() {
            out.push(("reversed", *name, f()));
        }
        out
    })
    .join();

    std::panic::set_hook(saved_hook);
    observed.extend(seq.expect("shared thread must not panic"));

    if std::env::var_os("DEMO_PRINT").is_some() {
        for (pass, name, out) in &observed {
            if *pass == "fresh" {
                println!("    ({name:?}, {out:?}),");
            }
        }
    }

    let mut failures = Vec::new();
    for (pass, name, out) in &observed {
        match expected_for(name) {
            Some(exp) if exp == out => {}
            Some(exp) => failures.push(format!(
                "[{pass}] {name}\n   expected: {exp:?}\n   actual:   {out:?}"
            )),
            None => failures.push(format!("[{pass}] {name}: no expected value; actual: {out:?}")),
        }
    }
    assert!(
        failures.is_empty(),
        "{} mismatches:\n{}",
        failures.len(),
        failures.join("\n")
    );
}

// ---------------------------------------------------------------------------------------------
// expected results, generated on the unmodified tree with `DEMO_PRINT=1 ... -- --nocapture`
// ---------------------------------------------------------------------------------------------

const EXPECTED: &[(&str, &str)] = &[
    ("c01_simple_ok", "Ok(Point { x: 3, y: 4 })"),
    ("c02_type_error_snippet", "Err@Some((2, 4)): error: line 2 column 4: unexpected event: expected string scalar\n --> <input>:2:4\n  |\n1 | x: 3\n2 | y: [1, 2]\n  |    ^ unexpected event: expected string scalar"),
    ("c03_type_error_no_snippet", "Err@Some((2, 4)): invalid i32 at line 2, column 4"),
    ("c04_type_error_crop_zero", "Err@Some((2, 4)): invalid i32 at line 2, column 4"),
    ("c05_empty_into_bool", "Err@Some((1, 1)): unexpected end of input at line 1, column 1 | Err@Some((2, 1)): error: line 2 column 1: unexpected end of input\n --> <input>:1:18\n  |\n1 | # only a comment\n  |                 ^ unexpected end of input | Ok(None)"),
    ("c06_multiple_documents_into_single", "Err@Some((4, 1)): error: line 4 column 1: multiple YAML documents detected; use from_multiple or from_multiple_with_options\n --> <input>:4:1\n  |\n2 | y: 2\n3 | ---\n4 | x: 3\n  | ^ multiple YAML documents detected; use from_multiple or from_multiple_with_options\n5 | y: 4\n  |"),
    ("c07_garbage_after_doc_end", "Ok(Point { x: 1, y: 2 })"),
    ("c08_garbage_without_doc_end", "Err@Some((2, 1)): error: line 2 column 1: misplaced bracket\n --> <input>:2:1\n  |\n1 | [1, 2]\n2 | ]\n  | ^ misplaced bracket"),
    ("c09_bom", "Ok(Point { x: 1, y: 2 }) | Err@Some((2, 4)): error: line 2 column 4: invalid i32\n --> <input>:2:4\n  |\n1 | x: 1\n2 | y: zz\n  |    ^ invalid i32 | Ok(\"hello\")"),
    ("c10_budget_breach_with_report", "Err@Some((1, 11)): error: line 1 column 11: budget breached: Nodes { nodes: 5 }\n --> <input>:1:11\n  |\n1 | [1, 2, 3, 4, 5, 6]\n  |           ^ budget breached: Nodes { nodes: 5 } | reports=[]"),
    ("c11_budget_ok_with_report_twice", "[\"Ok({\\\"a\\\": [1, 2], \\\"b\\\": [1, 2]})\", \"Ok({\\\"a\\\": [1], \\\"b\\\": [2]})\"] | reports=[\"events=17 nodes=9 docs=1 anchors=1 aliases=1\", \"events=14 nodes=7 docs=1 anchors=0 aliases=0\"]"),
    ("c12_deprecated_fn_report_reader_and_str", "Ok(Point { x: 1, y: 2 }) | Ok(Point { x: 5, y: 6 }) | Ok([Point { x: 1, y: 2 }, Point { x: 3, y: 4 }]) | [\"events=10 docs=1\", \"events=10 docs=1\", \"events=18 docs=2\"]"),
    ("c13_alias_limit", "Err@Some((1, 6)): error: line 1 column 6: alias replay limit exceeded: total_replayed_events=6 > 5\n --> <input>:1:6\n  |\n1 | - &a [1, 2, 3]\n  |      ^ alias replay limit exceeded: total_replayed_events=6 > 5\n2 | - *a\n3 | - *a\n  |"),
    ("c14_from_multiple_ok_with_nulls", "Ok([Point { x: 1, y: 2 }, Point { x: 3, y: 4 }])"),
    ("c15_from_multiple_error_in_second", "Err@Some((4, 1)): error: line 4 column 1: missing field `y`\n --> <input>:4:1\n  |\n2 | y: 2\n3 | ---\n4 | x: 3\n  | ^ missing field `y`\n5 | ---\n6 | x: 5\n  |"),
    ("c16_from_multiple_anchor_not_shared_between_docs", "Ok([\"a=one b=one same=true strong=2\", \"a=two b=two same=true strong=2\"] cross_doc_same=false)"),
    ("c17_from_multiple_alias_to_previous_doc", "Err@Some((4, 3)): error: line 4 column 3: alias references unknown anchor\n --> <input>:4:3\n  |\n2 | - *k\n3 | ---\n4 | - *k\n  |   ^ alias references unknown anchor"),
    ("c18_from_slice", "Err@None: input is not valid UTF-8 | Ok(Point { x: 7, y: 8 }) | Ok([1, 2])"),
    ("c19_from_reader_ok_and_errors", "Ok(Point { x: 3, y: 4 }) | Err@Some((2, 4)): error: line 2 column 4: unexpected event: expected string scalar\n --> <input>:2:4\n  |\n1 | x: 3\n2 | y: [4]\n  |    ^ unexpected event: expected string scalar | Err@Some((1, 1)): unexpected end of input at line 1, column 1 | Err@Some((3, 1)): error: line 3 column 1: multiple YAML documents detected; use read or read_with_options to obtain the iterator\n --> <input>:3:1\n  |\n1 | 1\n2 | ---\n3 | 2\n  | ^ multiple YAML documents detected; use read or read_with_options to obtain the iterator"),
    ("c20_from_reader_options", "Err@Some((2, 4)): invalid i32 at line 2, column 4 | Err@Some((1, 1)): error: line 1 column 1: unclosed bracket '['\n --> <input>:1:1\n  |\n1 | [1, 2, 3, 4, 5, 6, 7, 8, 9, 10]\n  | ^ unclosed bracket '[' | Ok(Point { x: 1, y: 2 }) | Err@Some((2, 1)): error: line 2 column 1: misplaced bracket\n --> <input>:2:1\n  |\n1 | [1, 2]\n2 | ]\n  | ^ misplaced bracket"),
    ("c21_from_reader_io_failure", "Err@None: IO error: demo reader failure | [\"Err@None: IO error: demo reader failure\"]"),
    ("c22_read_iterator_recovers", "[\"Ok(Point { x: 1, y: 2 })\", \"Err@Some((4, 4)): invalid i32 at line 4, column 4\", \"Err@Some((9, 1)): missing field `y` at line 9, column 1\", \"Ok(Point { x: 7, y: 8 })\"]"),
    ("c23_read_iterator_anchors_per_document", "[\"Ok(a=one b=one same=true strong=2)\", \"Ok(a=two b=three same=false strong=1)\"]"),
    ("c24_rc_anchor_shared_and_fresh_per_call", "a=one b=one same=true strong=2 | a=one b=one same=true strong=2 | cross_call_same=false counts=(2, 2)"),
    ("c25_arc_anchor_shared", "Ok(same=true strong=2)"),
    ("c26_weak_anchors", "Ok(strong=primary weak_same=Some(true) strong_count=2) | Ok(strong=primary weak_same=Some(true) strong_count=2) | Err@Some((1, 7)): error: line 1 column 7: alias references unknown anchor\n --> <input>:1:7\n  |\n1 | weak: *a1\n  |       ^ alias references unknown anchor\n2 | strong: &a1\n3 |   name: later\n  | | Err@Some((4, 3)): error: line 4 column 3: weak Rc anchor must refer to an existing strong anchor via alias\n --> <input>:4:3\n  |\n2 |   name: plain\n3 | weak:\n4 |   name: other\n  |   ^ weak Rc anchor must refer to an existing strong anchor via alias"),
    ("c27_anchor_type_mismatch", "Err@Some((3, 4)): error: line 3 column 4: anchor id 1 reused with incompatible Rc type\n --> the value is used here:3:4\n  |\n1 | a: &x\n2 |   name: one\n3 | b: *x\n  |    ^ anchor id 1 reused with incompatible Rc type\n  | This value comes indirectly from the anchor at line 2 column 3:\n  |\n1 | a: &x\n2 |   name: one\n  |   ^ defined here\n3 | b: *x\n4 |\n  |\n | Err@Some((3, 4)): error: line 3 column 4: anchor id 1 reused with incompatible Arc type\n --> the value is used here:3:4\n  |\n1 | a: &x\n2 |   name: one\n3 | b: *x\n  |    ^ anchor id 1 reused with incompatible Arc type\n  | This value comes indirectly from the anchor at line 2 column 3:\n  |\n1 | a: &x\n2 |   name: one\n  |   ^ defined here\n3 | b: *x\n4 |\n  |\n | Ok(Point { x: 1, y: 2 } same=true)"),
    ("c28_recursive_anchors", "Ok(k1=One k3.k1=One same=true) | Ok(same=true) | Err@Some((4, 8)): error: line 4 column 8: recursive anchor id 1 reused with incompatible Rc type\n --> the value is used here:4:8\n  |\n2 |   k1: One\n3 |   k3: *r\n4 | other: *r\n  |        ^ recursive anchor id 1 reused with incompatible Rc type\n  | This value comes indirectly from the anchor at line 2 column 3:\n  |\n2 |   k1: One\n  |   ^ defined here\n3 |   k3: *r\n4 | other: *r\n  |\n | Err@Some((2, 3)): error: line 2 column 3: recursive references require weak recursion types\n --> <input>:2:3\n  |\n1 | &s\n2 | - *s\n  |   ^ recursive references require weak recursion types"),
    ("c29_missing_field_locations", "Err@Some((1, 1)): error: line 1 column 1: missing field `y`\n --> <input>:1:1\n  |\n1 | x: 1\n  | ^ missing field `y` | Err@Some((3, 3)): error: line 3 column 3: missing field `y`\n --> <input>:3:3\n  |\n1 | from: {x: 1, y: 2}\n2 | to:\n3 |   x: 9\n  |   ^ missing field `y` | Err@Some((2, 1)): error: line 2 column 1: unknown field `zzz`, expected one of a\n --> <input>:2:1\n  |\n1 | a: 1\n2 | zzz: 2\n  | ^ unknown field `zzz`, expected one of a | Err@Some((3, 3)): missing field `y` at line 3, column 3"),
    ("c30_missing_field_via_reader_and_multiple", "Err@Some((3, 3)): error: line 3 column 3: missing field `y`\n --> <input>:3:3\n  |\n1 | from: {x: 1, y: 2}\n2 | to:\n3 |   x: 9\n  |   ^ missing field `y` | Err@Some((6, 1)): missing field `x` at line 6, column 1"),
    ("c31_nested_call_fails_outer_continues", "Err@Some((5, 5)): missing field `y` at line 5, column 5 | Ok(emb=Err@Some((1, 1)): error: line 1 column 1: missing field `y`\n --> <input>:1:1\n  |\n1 | x: 1\n  | ^ missing field `y` line=Line { from: Point { x: 1, y: 2 }, to: Point { x: 3, y: 4 } })"),
    ("c32_nested_call_then_outer_missing_field_in_same_map", "Err@Some((3, 1)): missing field `needed` at line 3, column 1"),
    ("c33_nested_call_with_anchors_inside_anchored_outer", "Ok(a=outer b=outer outer_same=true emb=[Ok(strong=primary weak_same=Some(true) strong_count=2)] emb2=[Ok(a=inner b=inner same=true strong=2)])"),
    ("c34_nested_call_inside_anchor_context", "Ok(same=true first=[Ok(a=inner b=inner same=true strong=2) 1] second=[Ok(a=inner b=inner same=true strong=2) 1])"),
    ("c35_panicking_visitor_then_normal_calls", "panicked: demo bomb | Ok(a=one b=one same=true strong=2) | Err@Some((1, 7)): error: line 1 column 7: alias references unknown anchor\n --> <input>:1:7\n  |\n1 | weak: *a1\n  |       ^ alias references unknown anchor\n2 | strong: &a1\n3 |   name: later\n  | | Err@Some((1, 1)): missing field `y` at line 1, column 1 | Err@Some((3, 3)): error: line 3 column 3: missing field `y`\n --> <input>:3:3\n  |\n1 | from: {x: 1, y: 2}\n2 | to:\n3 |   x: 9\n  |   ^ missing field `y`"),
    ("c36_panic_in_reader_iterator_then_continue", "panicked | Ok(a=one b=one same=true strong=2)"),
    ("c37_with_deserializer_entry_points", "Ok(Point { x: 1, y: 2 }) | Ok(a=one b=one same=true strong=2) | Err@Some((1, 1)): missing field `y` at line 1, column 1 | Err@Some((2, 6)): error: line 2 column 6: missing field `y`\n --> <input>:2:6\n  |\n1 | from: {x: 1, y: 2}\n2 | to: {x: 1}\n  |      ^ missing field `y`"),
    ("c38_spanned_and_json_value", "Ok(a=5@1:7 b=text@2:4) | Ok(Object {\"k\": Array [Number(1), Object {\"a\": String(\"b\")}], \"j\": Array [Number(1), Object {\"a\": String(\"b\")}]}) | Err@Some((2, 1)): error: line 2 column 1: duplicate mapping key: k, set DuplicateKeyPolicy in Options if acceptable\n --> <input>:2:1\n  |\n1 | k: 1\n2 | k: 2\n  | ^ duplicate mapping key: k, set DuplicateKeyPolicy in Options if acceptable | Ok(Object {\"k\": Number(2)})"),
    ("c39_serialize_anchors_fresh_ids_every_call", "\"a: &a1\\n  name: \\\"n\\\"\\nb: *a1\\nc: *a1\\nd: &a2\\n  name: m\\ne: *a2\\n\" | same=true | \"a: &a1\\n  name: \\\"n\\\"\\nb: *a1\\nc: *a1\\nd: &a2\\n  name: m\\ne: *a2\\n---\\na: &a1\\n  name: \\\"n\\\"\\nb: *a1\\nc: *a1\\nd: &a2\\n  name: m\\ne: *a2\\n\""),
    ("c40_serialize_roundtrip_and_interleaving", "Ok(\"x: 1\\n\\\"y\\\": 2\\n\" same=true) | \"a: &a1\\n  name: \\\"n\\\"\\nmid: Ok(\\\"a=one b=one same=true strong=2\\\")\\nb: *a1\\n\" | \"foo: &a1\\n  k1: One\\n  k3: *a1\\n\""),
    ("c41_error_kinds_after_each_other", "[\"Err@Some((1, 1)): missing field `y` at line 1, column 1\", \"Err@Some((1, 4)): unexpected event: expected string scalar at line 1, column 4\", \"Err@Some((4, 1)): multiple YAML documents detected; use from_multiple or from_multiple_with_options at line 4, column 1\", \"Err@Some((1, 1)): unexpected end of input at line 1, column 1\", \"Err@Some((1, 1)): missing field `y` at line 1, column 1\", \"Err@Some((1, 4)): unexpected event: expected string scalar at line 1, column 4\"]"),
    ("c42_borrowed_and_cow", "Ok(B { name: \"hello\", n: 1 }) | Err@Some((1, 7)): error: line 1 column 7: input does not contain value verbatim so cannot deserialize into &str (parser returned an owned string); use String or Cow<str> instead\n --> <input>:1:7\n  |\n1 | name: \"he\\nllo\"\n  |       ^ input does not contain value verbatim so cannot deserialize into &str (parser returned an owned string); use String or Cow<str> instead\n2 | n: 1\n  | | Ok(B { name: \"bytes\", n: 2 })"),
];

const EXPECTED_GARDE: &[(&str, &str)] = &[
    ("g01_valid_str", "Ok(G { name: \"abc\", n: 3 }) | Err@Some((2, 4)): error: line 2 column 4: validation error: lower than 1 for `n`\n --> (defined):2:4\n  |\n1 | name: &a x\n2 | n: 0\n  |    ^ validation error: lower than 1 for `n`\nerror: line 1 column 10: validation error: length is lower than 2 for `name`\n --> (defined):1:10\n  |\n1 | name: &a x\n  |          ^ validation error: length is lower than 2 for `name`\n2 | n: 0\n  | | Err@Some((1, 1)): error: line 1 column 1: missing field `n`\n --> <input>:1:1\n  |\n1 | name: abc\n  | ^ missing field `n` | Err@Some((1, 1)): unexpected end of input at line 1, column 1 | Err@Some((4, 1)): error: line 4 column 1: multiple YAML documents detected; use from_multiple or from_multiple_with_options\n --> <input>:4:1\n  |\n2 | n: 3\n3 | ---\n4 | name: abc\n  | ^ multiple YAML documents detected; use from_multiple or from_multiple_with_options\n5 | n: 3\n  | | Err@Some((1, 7)): validation error at name: length is lower than 2 at line 1, column 7"),
    ("g02_valid_multiple_and_reader", "Err@Some((4, 7)): validation failed for 2 document(s)\nerror: line 4 column 7: validation error: length is lower than 2 for `name`\n --> (defined):4:7\n  |\n2 | n: 3\n3 | ---\n4 | name: x\n  |       ^ validation error: length is lower than 2 for `name`\n5 | n: 3\n6 | ---\n  |\n\nerror: line 8 column 4: validation error: lower than 1 for `n`\n --> (defined):8:4\n  |\n6 | ---\n7 | name: abc\n8 | n: 0\n  |    ^ validation error: lower than 1 for `n` | Ok([G { name: \"abc\", n: 3 }, G { name: \"abcd\", n: 4 }]) | Ok(G { name: \"abc\", n: 3 }) | Err@Some((1, 7)): validation error at name: length is lower than 2 at line 1, column 7 | Err@Some((1, 1)): unexpected end of input at line 1, column 1 | Err@Some((4, 1)): multiple YAML documents detected; use read_valid or read_with_options_valid to obtain the iterator at line 4, column 1 | Ok(G { name: \"abc\", n: 3 }) | [\"Ok(G { name: \\\"abc\\\", n: 3 })\", \"Err@Some((4, 7)): validation error at name: length is lower than 2 at line 4, column 7\", \"Err@Some((7, 1)): missing field `name` at line 7, column 1\", \"Ok(G { name: \\\"abcd\\\", n: 4 })\"]"),
];

const EXPECTED_VALIDATOR: &[(&str, &str)] = &[
    ("v01_validate_str", "Ok(V { name: \"abc\", n: 3 }) | Err@Some((1, 7)): error: line 1 column 7: validation error: length (min=2, value=\"x\") for `name`\n --> (defined):1:7\n  |\n1 | name: x\n  |       ^ validation error: length (min=2, value=\"x\") for `name`\n2 | n: 3\n  | | Err@Some((1, 1)): error: line 1 column 1: missing field `n`\n --> <input>:1:1\n  |\n1 | name: abc\n  | ^ missing field `n` | Err@Some((1, 1)): unexpected end of input at line 1, column 1 | Err@Some((4, 1)): error: line 4 column 1: multiple YAML documents detected; use from_multiple or from_multiple_with_options\n --> <input>:4:1\n  |\n2 | n: 3\n3 | ---\n4 | name: abc\n  | ^ multiple YAML documents detected; use from_multiple or from_multiple_with_options\n5 | n: 3\n  |"),
    ("v02_validate_multiple_and_reader", "Err@Some((4, 7)): validation failed for 1 document(s)\nerror: line 4 column 7: validation error: length (min=2, value=\"x\") for `name`\n --> (defined):4:7\n  |\n2 | n: 3\n3 | ---\n4 | name: x\n  |       ^ validation error: length (min=2, value=\"x\") for `name`\n5 | n: 3\n  | | Ok(V { name: \"abc\", n: 3 }) | Err@Some((1, 7)): validation error at name: length (min=2, value=\"x\") at line 1, column 7 | Err@Some((1, 1)): unexpected end of input at line 1, column 1 | Err@Some((4, 1)): multiple YAML documents detected; use read_validate or read_with_options_validate to obtain the iterator at line 4, column 1 | [\"Ok(V { name: \\\"abc\\\", n: 3 })\", \"Err@Some((4, 7)): validation error at name: length (min=2, value=\\\"x\\\") at line 4, column 7\", \"Err@Some((7, 1)): missing field `name` at line 7, column 1\"]"),
];
